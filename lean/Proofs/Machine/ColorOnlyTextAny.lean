import Proofs.Machine.ColorOnlyCombined
import Proofs.Machine.ColorOnlyPlain
/-!
`--color-only` with the presets it implies never alters the text of a line it shows — for *every*
input, whatever its source (git diff, plain `diff -u`, neither, changing on the way), unified or
combined, well-formed or not.

The text statement needs none of the shape hypotheses of the line-for-line statement (`Followed`,
`trueLengths`, no rg-json bookkeeping record): those are about *whether* a row is written for a line,
not about what a written row carries. What it does need is that hunk lines of combined diffs have
ASCII prefix columns (`AtB N`, `ColsOK N`, see `ColorOnlyCombined.lean`; vacuous when no line starts
with more than three `@`).

The invariants carried over a run mention neither the source nor the minus-line counter: `mode_info`
stays empty (`handlerOf_mode`), the state is one of color-only mode (`StB`, `handlerOf_stb_any`), rows
are `TxRow` and a pending hunk header remembers the raw text of its line (`TXB`); `stepInit` (source
detection) touches none of them.
-/
set_option linter.unusedSimpArgs false
set_option linter.unusedVariables false
namespace Machine
open Headers

/-- a `--- ` / `rename from` / `copy from` line, any source: one raw row -/
theorem handleMinusLine_ts2 {cfg : Cfg} {m m' : M} {l : L} {b : Bool} (ps : Preset cfg)
    (e : handleMinusLine cfg m l = .ok (b, m')) : TS2 l m m' ∧ (m'.st = m.st ∨ m'.st = .diffHeader .unified) := by
  have hco := ps.nf.1
  unfold handleMinusLine at e
  split at e
  · cases e; exact ⟨TS2.refl l m, Or.inl rfl⟩
  · simp only at e
    obtain ⟨rfl, rfl⟩ := ok_pair e
    unfold shouldWriteGeneric
    simp only [hco, if_true]
    refine ⟨TS2.row (row := { kind := .raw, text := l.raw, src := m.n }) ?_ ?_ rfl (Or.inl rfl) ?_, ?_⟩
    · simp only [writeGeneric_n, emit_n, flushMP_n]
    · rw [writeGeneric_ps ps _ l.text l.raw]
      simp only [flushMP_n]
      exact congrArg (· ++ _) (timeline_flushMP _)
    · simp only [writeGeneric_st, emit_st, flushMP_st]
      split
      · exact Or.inr rfl
      · exact Or.inl rfl
    · simp only [writeGeneric_st, emit_st, flushMP_st]
      split
      · exact Or.inr rfl
      · exact Or.inl rfl

theorem handleGrep_ts_any {cfg : Cfg} {m m' : M} {l : L} {b : Bool} (g : Good m)
    (e : handleGrep cfg m l = .ok (b, m')) : TS l m m' := by
  unfold handleGrep at e
  simp only at e
  split at e
  · rename_i hc
    have hq : m.minus = [] ∧ m.plus = [] := g.quiet (by rcases hc.1 with h1 | h1 <;> (rw [h1]; rfl))
    split at e
    · cases e; exact TS.quiet rfl (timeline_emit m) (Or.inl rfl)
    · cases e
      refine TS.row (row := { kind := .grep, text := l.text, src := m.n }) (direct_n _ _)
        (timeline_direct_emit m _ hq.1 hq.2) rfl (Or.inr rfl) (Or.inr (by simp [Unif, isHunkHeader]))
  · cases e; exact TS.quiet rfl (timeline_emit m) (Or.inl rfl)

theorem hunkLinePre_modeInfo {cfg : Cfg} {m m2 : M} (e : hunkLinePre cfg m = .ok m2) : m2.modeInfo = m.modeInfo := by
  unfold hunkLinePre at e
  simp only at e
  have hx : (if m.minus.length > cfg.bufSize ∨ m.plus.length > cfg.bufSize then flushMP m else m).modeInfo = m.modeInfo := by
    split <;> simp
  generalize (if m.minus.length > cfg.bufSize ∨ m.plus.length > cfg.bufSize then flushMP m else m) = x at e hx
  split at e
  · unfold emitHunkHeader at e
    split at e
    · cases e
    · cases e; simp [hx]
  · cases e; exact hx

theorem handleAdditionalCases_modeInfo {cfg : Cfg} {m m' : M} {l : L} {b : Bool} {to : State}
    (hco : cfg.colorOnly = true) (hm : m.modeInfo = []) (e : handleAdditionalCases cfg m l to = .ok (b, m')) :
    m'.modeInfo = [] := by
  unfold handleAdditionalCases at e
  split at e
  · cases e; unfold writeGeneric; simp [hco]
  · cases e; simp [hm]

/-- color-only mode never collects mode information: `mode_info` stays empty through every handler -/
theorem handlerOf_mode {name : String} {hd : Handler} (hn : handlerOf name = some hd)
    {cfg : Cfg} {m m' : M} {l : L} {b : Bool} (hco : cfg.colorOnly = true) (hm : m.modeInfo = [])
    (e : hd cfg m l = .ok (b, m')) : m'.modeInfo = [] := by
  have hwg : ∀ (x : M) (t r : Str), (writeGeneric cfg x t r).modeInfo = [] := by
    intro x t r; unfold writeGeneric; simp [hco]
  unfold handlerOf at hn
  split at hn <;> cases hn
  · unfold handleCommitMeta at e
    split at e
    · cases e; exact hm
    · have hmi : (flushMP m).modeInfo = [] := by simp [hm]
      rw [pendingDiffName_co hco hmi] at e
      split at e
      · split at e <;> (cases e; simp [hm])
      · cases e; simp [hm]
  · unfold handleDiffStat at e; cases e; exact hm
  · unfold handleDiffHeaderDiff at e
    split at e
    · cases e; exact hm
    · have hmi : ({ flushMP m with st := diffLineState l } : M).modeInfo = [] := (flushMP_modeInfo m).trans hm
      rw [pendingDiffName_co hco hmi, shouldSkipLine_co _ hco] at e
      simp only [Bool.false_eq_true, if_false] at e
      cases e
      unfold emitLineUnchanged; simp [diffLineFields, hm]
  · unfold handleFileOperation at e
    split at e
    · cases e; exact hm
    · unfold fileOpFinish at e
      simp only [shouldWriteGeneric_fst hco, if_true] at e
      obtain ⟨rfl, rfl⟩ := ok_pair e
      unfold shouldWriteGeneric
      simp only [hco, if_true]; exact hwg _ _ _
  · unfold handleMinusLine at e
    split at e
    · cases e; exact hm
    · simp only at e
      obtain ⟨rfl, rfl⟩ := ok_pair e
      unfold shouldWriteGeneric
      simp only [hco, if_true]; exact hwg _ _ _
  · unfold handlePlusLine at e
    split at e
    · cases e; exact hm
    · simp only at e
      unfold plusLineFinish at e
      simp only [shouldWriteGeneric_fst hco, if_true] at e
      obtain ⟨rfl, rfl⟩ := ok_pair e
      unfold shouldWriteGeneric
      simp only [hco, if_true]; exact hwg _ _ _
  · unfold handleHunkHeader at e
    split at e
    · cases e; exact hm
    · split at e <;> (cases e; exact hm)
  · unfold handleModeLine at e
    simp only [hco, not_true_eq_false, and_false, false_and, if_false] at e
    split at e
    · cases e; exact hm
    · split at e <;> (cases e; exact hm)
  · unfold handleMisc at e
    simp only [hco, not_true_eq_false, false_and, if_false] at e
    split at e
    · cases e; exact hm
    · exact handleAdditionalCases_modeInfo hco hm e
  · unfold handleSubmoduleLog at e
    split at e
    · cases e; exact hm
    · rw [pendingDiffName_co hco ((flushMP_modeInfo m).trans hm), handleAdditionalCases_flushMP] at e
      exact handleAdditionalCases_modeInfo hco hm e
  · unfold handleSubmoduleShort at e
    simp only [hco, Bool.or_true, if_true] at e
    cases e; exact hm
  · unfold handleMergeConflict at e
    simp only [hco, true_or, if_true] at e
    cases e; exact hm
  · unfold handleHunkLine at e
    split at e
    · cases e; exact hm
    · split at e
      · cases e
      · rename_i m2 e2
        split at e
        · cases e
        · rename_i m3 e3
          cases e
          rw [emit_modeInfo, (hunkLinePush_co e3).1, hunkLinePre_modeInfo e2]; exact hm
  · unfold handleGitShowFile at e; cases e; exact hm
  · unfold handleBlame at e
    simp only at e
    split at e <;> (cases e; simp [hm])
  · unfold handleGrep at e
    simp only at e
    split at e
    · split at e <;> (cases e; simp [hm])
    · cases e; simp [hm]
  · unfold handleShouldSkip at e; cases e; exact hm
  · unfold handleEmitUnchanged at e; cases e; unfold emitLineUnchanged; simp [hm]

theorem handlerOf_stb_any {name : String} {hd : Handler} (hn : handlerOf name = some hd)
    {cfg : Cfg} {m m' : M} {l : L} {b : Bool} (ps : Preset cfg) {N : Nat} (hm : m.modeInfo = []) (g : Good m)
    (ha : AtB N l = true) (hc : ColsOK N l = true) (hb : StB N m.st) (e : hd cfg m l = .ok (b, m')) :
    StB N m'.st := by
  have hco := ps.nf.1
  unfold handlerOf at hn
  split at hn <;> cases hn
  · -- commit meta
    unfold handleCommitMeta at e
    split at e
    · cases e; exact hb
    · have hmi : (flushMP m).modeInfo = [] := by simp [hm]
      rw [pendingDiffName_co hco hmi] at e
      split at e
      · split at e <;> (cases e; simp [StB])
      · cases e; simp [StB]
  · unfold handleDiffStat at e; cases e; exact hb
  · -- diff line
    unfold handleDiffHeaderDiff at e
    split at e
    · cases e; exact hb
    · have hmi : ({ flushMP m with st := diffLineState l } : M).modeInfo = [] := (flushMP_modeInfo m).trans hm
      rw [pendingDiffName_co hco hmi, shouldSkipLine_co _ hco] at e
      simp only [Bool.false_eq_true, if_false] at e
      cases e
      rw [emitLineUnchanged_st]
      exact StB_diffLineState N l
  · -- file operation
    unfold handleFileOperation at e
    split at e
    · cases e; exact hb
    · unfold fileOpFinish at e
      simp only [shouldWriteGeneric_fst hco, if_true] at e
      obtain ⟨rfl, rfl⟩ := ok_pair e
      unfold shouldWriteGeneric
      simp only [hco, if_true]
      rw [writeGeneric_st, emit_st, flushMP_st]
      unfold fileOpUpdate; split <;> exact hb
  · -- minus line
    unfold handleMinusLine at e
    split at e
    · cases e; exact hb
    · simp only at e
      obtain ⟨rfl, rfl⟩ := ok_pair e
      unfold shouldWriteGeneric
      simp only [hco, if_true]
      simp only [writeGeneric_st, emit_st, flushMP_st]
      split
      · exact Or.inl rfl
      · exact hb
  · -- plus line
    unfold handlePlusLine at e
    split at e
    · cases e; exact hb
    · simp only at e
      unfold plusLineFinish at e
      simp only [shouldWriteGeneric_fst hco, if_true] at e
      obtain ⟨rfl, rfl⟩ := ok_pair e
      unfold shouldWriteGeneric
      simp only [hco, if_true]
      simp only [writeGeneric_st, emit_st, flushMP_st]; exact hb
  · -- hunk header
    unfold handleHunkHeader at e
    split at e
    · cases e; exact hb
    · split at e
      · cases e; exact hb
      · cases e; exact DtB_hunkHeaderDiffType ha hb
  · -- mode line
    unfold handleModeLine at e
    simp only [hco, not_true_eq_false, and_false, false_and, if_false] at e
    split at e
    · cases e; exact Or.inl rfl
    · split at e
      · cases e; exact Or.inl rfl
      · cases e; exact hb
  · -- misc
    unfold handleMisc at e
    simp only [hco, not_true_eq_false, false_and, if_false] at e
    split at e
    · cases e; exact hb
    · rw [handleAdditionalCases_st e]
      split
      · exact hb
      · exact Or.inl rfl
  · -- submodule log
    unfold handleSubmoduleLog at e
    split at e
    · cases e; exact hb
    · rw [handleAdditionalCases_st e]; trivial
  · unfold handleSubmoduleShort at e
    simp only [hco, Bool.or_true, if_true] at e
    cases e; exact hb
  · unfold handleMergeConflict at e
    simp only [hco, true_or, if_true] at e
    cases e; exact hb
  · exact (handleHunkLine_ts2 ps g hb hc e).2
  · unfold handleGitShowFile at e; cases e; exact hb
  · unfold handleBlame at e
    simp only at e
    split at e <;> (cases e; first | exact hb | simp [StB])
  · unfold handleGrep at e
    simp only at e
    split at e
    · split at e <;> (cases e; first | exact hb | simp [StB])
    · cases e; exact hb
  · unfold handleShouldSkip at e; cases e; exact hb
  · unfold handleEmitUnchanged at e; cases e; rw [emitLineUnchanged_st]; exact hb




theorem handlerOf_ts2_any {name : String} {hd : Handler} (hn : handlerOf name = some hd)
    {cfg : Cfg} {m m' : M} {l : L} {b : Bool} (ps : Preset cfg) {N : Nat} (hm : m.modeInfo = []) (g : Good m)
    (hb : StB N m.st) (hc : ColsOK N l = true) (e : hd cfg m l = .ok (b, m')) : TS2 l m m' := by
  unfold handlerOf at hn
  split at hn <;> first
    | (cases hn
       first
         | exact (handleCommitMeta_tsp ps hm e).to2 | exact (handleDiffStat_ts e).to2
         | exact handleDiffHeaderDiff_ts2 ps hm e | exact (handleFileOperation_ts ps e).to2
         | exact (handleMinusLine_ts2 ps e).1 | exact (handlePlusLine_ts ps e).to2
         | exact (handleHunkHeader_ts e).to2 | exact (handleModeLine_ts ps e).to2
         | exact handleMisc_ts2 ps e | exact (handleSubmoduleLog_ts ps hm e).to2
         | exact (handleSubmoduleShort_ts ps e).to2 | exact (handleMergeConflict_ts ps e).to2
         | exact (handleHunkLine_ts2 ps g hb hc e).1 | exact (handleGitShowFile_ts e).to2
         | exact (handleBlame_ts g e).to2 | exact (handleGrep_ts_any g e).to2
         | exact (handleShouldSkip_ts e).to2 | exact (handleEmitUnchanged_ts e).to2)
    | cases hn

theorem chain_ts_any {cfg : Cfg} {l : L} (ps : Preset cfg) {N : Nat} (ha : AtB N l = true) (hc : ColsOK N l = true) :
    ∀ (names : List String) {m m' : M}, chain cfg l names m = .ok m' → m.modeInfo = [] → Good m → StB N m.st →
    TS2 l m m' ∧ StB N m'.st ∧ m'.modeInfo = [] ∧ Good m'
  | [], m, m', e, hm, g, hb => by simp only [chain] at e; cases e; exact ⟨TS2.refl l m, hb, hm, g⟩
  | name :: rest, m, m', e, hm, g, hb => by
    simp only [chain] at e
    split at e
    · cases e
    · rename_i hd hn
      split at e
      · cases e
      · rename_i m1 e1
        cases e
        exact ⟨handlerOf_ts2_any hn ps hm g hb hc e1, handlerOf_stb_any hn ps hm g ha hc hb e1,
          handlerOf_mode hn ps.nf.1 hm e1, (handlerOf_step hn e1 g).good⟩
      · rename_i m1 e1
        have t1 := handlerOf_ts2_any hn ps hm g hb hc e1
        have b1 := handlerOf_stb_any hn ps hm g ha hc hb e1
        have m1' := handlerOf_mode hn ps.nf.1 hm e1
        have g1 := (handlerOf_step hn e1 g).good
        obtain ⟨t2, b2, m2, g2⟩ := chain_ts_any ps ha hc rest e m1' g1 b1
        exact ⟨t1.trans t2, b2, m2, g2⟩

theorem stepInit_same (m : M) (l : L) :
    timeline (stepInit m l) = timeline m ∧ (stepInit m l).st = m.st ∧ (stepInit m l).modeInfo = m.modeInfo ∧
      (stepInit m l).n = m.n ∧ (stepInit m l).orderOk = m.orderOk ∧ (stepInit m l).minus = m.minus ∧
      (stepInit m l).plus = m.plus := by
  unfold stepInit armCounter
  split
  · split
    · split <;> exact ⟨rfl, rfl, rfl, rfl, rfl, rfl, rfl⟩
    · split <;> exact ⟨rfl, rfl, rfl, rfl, rfl, rfl, rfl⟩
  · exact ⟨rfl, rfl, rfl, rfl, rfl, rfl, rfl⟩

theorem step_ts_any {cfg : Cfg} {m m' : M} {l : L} (ps : Preset cfg) {N : Nat} (hm : m.modeInfo = []) (g : Good m)
    (hb : StB N m.st) (ha : AtB N l = true) (hc : ColsOK N l = true) (e : step cfg m l = .ok m') :
    (∃ new, timeline m' = timeline m ++ new ∧ ∀ r ∈ new, NewOK l m r) ∧ StB N m'.st ∧ m'.modeInfo = [] ∧ Good m' ∧
      m'.n = m.n + 1 ∧
      (∀ dt hh line raw src, m'.st = .hunkHeader dt hh line raw src →
        m.st = .hunkHeader dt hh line raw src ∨ (raw = l.raw ∧ src = m.n)) := by
  obtain ⟨h1, h2, h3, h4, h5, h6, h7⟩ := stepInit_same m l
  unfold step at e
  split at e
  · cases e
  · rename_i m2 e2
    cases e
    have g0 : Good (stepInit m l) :=
      ⟨h5 ▸ g.order, fun q => by rw [h6, h7]; exact g.quiet (h2 ▸ q), fun q => by rw [h7]; exact g.noPlus (h2 ▸ q)⟩
    obtain ⟨t, b, mm, gg⟩ := chain_ts_any ps ha hc _ e2 (h3.trans hm) g0 (h2 ▸ hb)
    obtain ⟨new, htl, hnew⟩ := t.rows
    refine ⟨⟨new, by rw [← h1]; exact htl, ?_⟩, b, mm, ?_, ?_, ?_⟩
    · intro r hr
      rcases hnew r hr with ⟨hs, ht⟩ | ⟨dt, hh, line, raw, src, hst, hs, ht⟩
      · exact Or.inl ⟨hs.trans h4, ht⟩
      · exact Or.inr ⟨dt, hh, line, raw, src, h2 ▸ hst, hs, ht⟩
    · exact ⟨gg.order, gg.quiet, gg.noPlus⟩
    · show m2.n + 1 = m.n + 1
      rw [t.n, h4]
    · intro dt hh line raw src hst
      rcases t.pendRaw dt hh line raw src hst with h | ⟨ha', hb'⟩
      · exact Or.inl (h2 ▸ h)
      · exact Or.inr ⟨ha', hb'.trans h4⟩

theorem runFrom_ts_any {cfg : Cfg} (ps : Preset cfg) {N : Nat} (all : List L) : ∀ (ls : List L) {m m' : M},
    runFrom cfg m ls = .ok m' → m.modeInfo = [] → Good m → TXB N all m →
    (∀ i l, ls[i]? = some l → all[m.n + i]? = some l) →
    (∀ l ∈ ls, AtB N l = true ∧ ColsOK N l = true) → TXB N all m' ∧ m'.modeInfo = []
  | [], m, m', e, hm, _, tx, _, _ => by simp only [runFrom] at e; cases e; exact ⟨tx, hm⟩
  | l :: ls, m, m', e, hm, g, tx, hidx, hl => by
    simp only [runFrom] at e
    split at e
    · cases e
    · rename_i m1 e1
      obtain ⟨ha, hc⟩ := hl l (List.mem_cons_self ..)
      have hcur : all[m.n]? = some l := by simpa using hidx 0 l rfl
      obtain ⟨⟨new, htl, hnew⟩, hb1, hm1, g1, hn1, hpend1⟩ := step_ts_any ps hm g tx.stb ha hc e1
      have tx1 : TXB N all m1 := by
        refine ⟨?_, ?_, hb1⟩
        · intro r hr
          rw [htl] at hr
          rcases List.mem_append.mp hr with h | h
          · exact tx.rows r h
          · rcases hnew r h with ⟨hs, ht⟩ | ⟨dt, hh, line, raw, src, hst, hs, ht⟩
            · exact ⟨l, by rw [hs]; exact hcur, ht⟩
            · obtain ⟨l0, h0, hraw⟩ := tx.pend dt hh line raw src hst
              exact ⟨l0, by rw [hs]; exact h0, Or.inl (ht.trans hraw)⟩
        · intro dt hh line raw src hst
          rcases hpend1 dt hh line raw src hst with h | ⟨h1, h2⟩
          · exact tx.pend dt hh line raw src h
          · exact ⟨l, by rw [h2]; exact hcur, h1⟩
      refine runFrom_ts_any ps all ls e hm1 g1 tx1 ?_ (fun x hx => hl x (List.mem_cons_of_mem _ hx))
      intro i x hx
      have := hidx (i + 1) x (by simpa using hx)
      rw [hn1]; rw [show m.n + 1 + i = m.n + (i + 1) by omega]; exact this

/-- **`--color-only` never alters the text of a line it shows** (presets in force; *every* input: git
or plain diff, unified or combined, anything else; nothing assumed about its shape): if no line starts
with more than `N + 1` characters `@` and the first `N` bytes of every line, when they contain a `+`
or a `-`, are ASCII, then every row of delta's output carries the raw line or the visible text of the
input line it is stamped with. -/
theorem run_color_only_text_any {cfg : Cfg} (ps : Preset cfg) (N : Nat) {ls : List L} {m : M}
    (hl : ∀ l ∈ ls, AtB N l = true ∧ ColsOK N l = true) (e : run cfg ls = .ok m) :
    ∀ r ∈ m.out, TxRow ls r := by
  have hout := (run_spec e).2
  unfold run at e
  split at e
  · cases e
  · rename_i m1 e1
    have tx0 : TXB N ls ({} : M) :=
      ⟨by simp [timeline], fun dt hh line raw src h => (by cases h), trivial⟩
    obtain ⟨tx1, hm1⟩ := runFrom_ts_any ps ls ls e1 rfl good_init tx0 (by intro i l h; simpa using h) hl
    have htl : timeline m = timeline m1 := tailOps_co ps.nf.1 _ e hm1
    intro r hr
    rw [← hout, htl] at hr
    exact tx1.rows r hr

/-- at most three `@` at the start of any line (unified diffs, two-parent merges): no assumption on
the prefix columns -/
theorem run_color_only_text_any_two {cfg : Cfg} (ps : Preset cfg) {ls : List L} {m : M}
    (hl : ∀ l ∈ ls, AtB 2 l = true) (e : run cfg ls = .ok m) : ∀ r ∈ m.out, TxRow ls r :=
  run_color_only_text_any ps 2 (fun l h => ⟨hl l h, ColsOK_two l (Nat.le_refl 2)⟩) e

end Machine
