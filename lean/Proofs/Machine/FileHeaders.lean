import Proofs.Machine.HunkHeaders
import Proofs.Machine.BodyText
/-!
Whole-run file headers (C14): for a git diff made of ordinary sections —
`diff --git` line, index-like lines, `--- ` line, `+++ ` line, hunks — delta writes exactly one file
header row per section, at the `+++ ` line, carrying the description of that section's two names.

Closed-world proof: the chain of handlers is evaluated for each of the six kinds of line such a
stream contains (so no frame lemma about the other handlers is needed), then composed along a
section and along the list of sections.
-/
set_option linter.unusedSimpArgs false
set_option linter.unusedVariables false
namespace Machine
open Headers Generated

/-- configurations in which a file header is one row of kind `file` -/
structure FHC (cfg : Cfg) : Prop where
  notCO : cfg.colorOnly = false
  notRaw : cfg.fileStyle.isRaw = false
  notOmitted : cfg.fileStyle.isOmitted = false

/-- the file-header rows rendered so far -/
def fileTL (m : M) : List Row := (timeline m).filter (fun r => r.kind == .file)

theorem fileTL_congr {x y : M} (h : timeline x = timeline y) : fileTL x = fileTL y := by
  unfold fileTL; rw [h]

theorem fileTL_emit (m : M) : fileTL (emit m) = fileTL m := fileTL_congr (timeline_emit m)
theorem fileTL_flushMP (m : M) : fileTL (flushMP m) = fileTL m := fileTL_congr (timeline_flushMP m)

/-- the text of a file-header row: description, padding of a box decoration -/
def fileRowText (cfg : Cfg) (desc : Str) : Str :=
  desc ++ (match cfg.fileStyle.deco with
    | .box | .boxUl => [' ']
    | _ => [])

theorem drawRows_file_one {cfg : Cfg} (hc : FHC cfg) (t r : Str) (src : Nat) :
    (drawRows cfg.fileStyle .file t r [] src).filter (fun x => x.kind == .file) =
      [{ kind := .file, text := fileRowText cfg t, src := src }] := by
  unfold drawRows fileRowText
  cases hd : cfg.fileStyle.deco <;> simp [hd, hc.notRaw]

theorem timeline_direct_quiet (m : M) (rows : List Row) (hb : m.buf = []) (hm : m.minus = []) (hp : m.plus = []) :
    timeline (direct m rows) = timeline m ++ rows := by
  unfold direct
  split
  · rename_i h; simp [h]
  · simp [timeline, hb, hm, hp]

/-- with nothing buffered, `write_generic_diff_header_header_line` appends exactly one file row -/
theorem writeGeneric_file {cfg : Cfg} (hc : FHC cfg) (m : M) (t r : Str) (hmi : m.modeInfo = [])
    (hb : m.buf = []) (hm : m.minus = []) (hp : m.plus = []) :
    fileTL (writeGeneric cfg m t r) = fileTL m ++ [{ kind := .file, text := fileRowText cfg t, src := m.n }] := by
  have ht : timeline (writeGeneric cfg m t r) =
      timeline m ++ ([{ kind := RowKind.blank, text := [], src := m.n }] ++ drawRows cfg.fileStyle .file t r [] m.n) := by
    unfold writeGeneric
    simp only [hc.notOmitted, hc.notCO, Bool.false_eq_true, false_and, if_false, not_false_eq_true, hmi]
    exact timeline_direct_quiet m _ hb hm hp
  unfold fileTL
  rw [ht, List.filter_append, List.filter_append, drawRows_file_one hc]
  simp

-- the lines of an ordinary section -----------------------------------------------------

theorem startsWith_split {s p : Str} (h : startsWith s p = true) : ∃ rest, s = p ++ rest := by
  unfold startsWith at h
  obtain ⟨t, ht⟩ := List.isPrefixOf_iff_prefix.mp h
  exact ⟨t, ht.symm⟩

/-- between two sections (or before the first): a git diff, no header pending -/
structure Settled (m : M) : Prop where
  src : m.source = .gitDiff ∨ (m.source = .unknown ∧ m.st = .unknown)
  cnt : m.counter ≤ -4096
  mode : m.modeInfo = []
  pair : m.handledPair = m.currentPair
  good : Good m

/-- in the header part of a section: `diff --git` seen, header pending -/
structure InHdr (m : M) : Prop where
  st : m.st = .diffHeader .unified
  src : m.source = .gitDiff
  cnt : m.counter ≤ -4096
  mode : m.modeInfo = []
  hp : m.handledPair = none
  minus : m.minus = []
  plus : m.plus = []
  good : Good m

/-- a `diff --git` line (that is not also a commit line) -/
def isDiffGitLine (l : L) : Bool := startsWith l.text Markers.diffGit && !l.commitRe

theorem shouldHandle_diffHeader {cfg : Cfg} (hc : FHC cfg) {m : M} {dt : DiffType} (h : m.st = .diffHeader dt) :
    shouldHandle cfg m = true := by
  unfold shouldHandle getStyle
  rw [h]
  simp [hc.notRaw]

theorem pendingDiffName_settled {cfg : Cfg} (hc : FHC cfg) (x : M) (hmi : x.modeInfo = [])
    (hp : x.handledPair = x.currentPair) : pendingDiffName cfg x = x := by
  unfold pendingDiffName
  split
  · rfl
  · simp [hmi, hc.notCO, hp]

/-- (A) the `diff --git` line of a section: no row of any kind is written for the sections before
it (they are settled); the header of the new section is pending -/
theorem diff_line_step {cfg : Cfg} (hc : FHC cfg) {m : M} {l : L} (h : Settled m) (hl : isDiffGitLine l = true) :
    ∃ m', step cfg m l = .ok m' ∧ InHdr m' ∧ fileTL m' = fileTL m ∧ m'.n = m.n + 1 := by
  unfold isDiffGitLine at hl
  simp only [Bool.and_eq_true, Bool.not_eq_true'] at hl
  obtain ⟨hdg, hcr⟩ := hl
  obtain ⟨rest, ht⟩ := startsWith_split hdg
  have hdl : startsWith l.text Markers.diffLine = true := by
    simp [ht, startsWith, Markers.diffLine, Markers.diffGit, List.isPrefixOf]
  have hcomb : startsWithAny l.text Markers.combinedDiffLine = false := by
    simp [ht, startsWithAny, startsWith, Markers.combinedDiffLine, Markers.diffGit, List.isPrefixOf]
  have hdls : diffLineState l = .diffHeader .unified := by unfold diffLineState; simp [hcomb]
  -- source detection
  have hdet : detectSource l.text = .gitDiff := by
    unfold detectSource
    simp [ht, startsWithAny, startsWith, Generated.gitDiffPrefixes, Markers.diffGit, List.isPrefixOf]
  have hinit : (stepInit m l).source = .gitDiff ∧ timeline (stepInit m l) = timeline m ∧ (stepInit m l).n = m.n ∧
      (stepInit m l).counter = m.counter ∧ (stepInit m l).modeInfo = m.modeInfo ∧
      (stepInit m l).handledPair = m.handledPair ∧ (stepInit m l).currentPair = m.currentPair := by
    unfold stepInit
    rcases h.src with hs | ⟨hs, _⟩
    · simp [hs]
    · simp only [hs, if_true]
      unfold armCounter
      have hne : (Source.gitDiff = Source.diffUnified) = False := by simp
      simp only [Markers.prepareToCount, hdet, hne, if_false]
      refine ⟨?_, ?_, ?_, ?_, ?_, ?_, ?_⟩ <;> first | trivial | rfl
  obtain ⟨hsrc0, htl0, hn0, hcnt0, hmi0, hhp0, hcp0⟩ := hinit
  have g0 : Good (stepInit m l) := (stepInit_stepS l h.good).good
  obtain ⟨m0, hm0⟩ : ∃ m0, m0 = stepInit m l := ⟨_, rfl⟩
  rw [← hm0] at hsrc0 htl0 hn0 hcnt0 hmi0 hhp0 hcp0 g0
  -- the chain: commit meta declines, the diff-line handler claims the line
  have e1 := handleCommitMeta_not_mine cfg m0 l hcr
  let x : M := { flushMP m0 with st := diffLineState l }
  have hx : pendingDiffName cfg x = x :=
    pendingDiffName_settled hc x (by show (flushMP m0).modeInfo = []; rw [flushMP_modeInfo, hmi0]; exact h.mode)
      (by show (flushMP m0).handledPair = (flushMP m0).currentPair
          have : (flushMP m0).handledPair = m0.handledPair ∧ (flushMP m0).currentPair = m0.currentPair := by
            unfold flushMP; split <;> exact ⟨rfl, rfl⟩
          rw [this.1, this.2, hhp0, hcp0]; exact h.pair)
  have hskip : shouldSkipLine cfg (diffLineFields x l) = true := by
    unfold shouldSkipLine
    have hst : (diffLineFields x l).st = .diffHeader .unified := hdls
    rw [shouldHandle_diffHeader hc hst, hst]
    simp [isDiffHeader, hc.notCO]
  have e3 : handleDiffHeaderDiff cfg m0 l = .ok (true, diffLineFields x l) := by
    unfold handleDiffHeaderDiff
    simp only [hdl, Bool.not_true, Bool.false_eq_true, if_false]
    rw [show pendingDiffName cfg { flushMP m0 with st := diffLineState l } = x from hx]
    simp [hskip]
  have ec : chain cfg l Generated.handlerOrder m0 = .ok (diffLineFields x l) := by
    simp only [Generated.handlerOrder, chain, handlerOf, e1, handleDiffStat, e3]
  refine ⟨{ diffLineFields x l with n := (diffLineFields x l).n + 1 }, by unfold step; rw [← hm0, ec], ?_, ?_, ?_⟩
  · refine ⟨hdls, ?_, ?_, ?_, rfl, ?_, ?_, ?_⟩
    · show (flushMP m0).source = .gitDiff
      rw [flushMP_source]; exact hsrc0
    · show (flushMP m0).counter ≤ -4096
      have : (flushMP m0).counter = m0.counter := by unfold flushMP; split <;> rfl
      rw [this, hcnt0]; exact h.cnt
    · show (flushMP m0).modeInfo = []
      rw [flushMP_modeInfo, hmi0]; exact h.mode
    · show (flushMP m0).minus = []
      simp
    · show (flushMP m0).plus = []
      simp
    · have s := chain_step _ ec g0
      exact ⟨s.good.order, s.good.quiet, s.good.noPlus⟩
  · show fileTL (diffLineFields x l) = fileTL m
    have : timeline (diffLineFields x l) = timeline (flushMP m0) := rfl
    rw [fileTL_congr this, fileTL_flushMP, fileTL_congr htl0]
  · show (flushMP m0).n + 1 = m.n + 1
    rw [flushMP_n, hn0]

/-- what the handlers from `handle_hunk_header_line` on need to know about a line met in the header
part of a section to decline it -/
structure TailNo (l : L) : Prop where
  hunkHeader : startsWith l.text Markers.hunkHeader = false
  oldMode : startsWith l.text Markers.oldMode = false
  newMode : startsWith l.text Markers.newMode = false
  binary : startsWith l.text Markers.binaryFiles = false
  submodule : startsWith l.text Markers.submoduleLog = false

/-- the handlers after `handle_diff_header_plus_line`, in source order -/
def tailNames : List String := Generated.handlerOrder.drop 6

/-- in the header part of a git section such a line runs down to `should_skip_line`, which claims
it: nothing is written -/
theorem hdr_tail {cfg : Cfg} (hc : FHC cfg) (x : M) (l : L) (hst : x.st = .diffHeader .unified)
    (hsrc : x.source = .gitDiff) (no : TailNo l) :
    chain cfg l tailNames x = .ok (emit (emit (emit x))) := by
  have hnm : isMergeConflict x.st = false := by rw [hst]; rfl
  have hnc : hunkCombinedParents x.st = none := by rw [hst]; rfl
  have e7 := handleHunkHeader_not_mine cfg x l no.hunkHeader
  have e8 := handleModeLine_not_mine cfg x l no.oldMode no.newMode
  have e9 : handleMisc cfg x l = .ok (false, x) := by
    unfold handleMisc; simp [hsrc, no.binary]
  have e10 := handleSubmoduleLog_not_mine cfg x l no.submodule
  have e11 : handleSubmoduleShort cfg x l = .ok (false, x) := by
    unfold handleSubmoduleShort submoduleShortTest
    simp [hst, pairableHunkHeader]
  have e12 := handleMergeConflict_not_mine cfg x l hnc hnm
  have e13 : handleHunkLine cfg x l = .ok (false, x) := by unfold handleHunkLine; simp [hst, isHunkState]
  have e15 : handleBlame cfg (emit x) l = .ok (false, emit (emit x)) := by
    unfold handleBlame; simp [hst]
  have e16 : handleGrep cfg (emit (emit x)) l = .ok (false, emit (emit (emit x))) := by
    unfold handleGrep; simp [hst]
  have e17 : handleShouldSkip cfg (emit (emit (emit x))) l = .ok (true, emit (emit (emit x))) := by
    unfold handleShouldSkip shouldSkipLine
    have hst3 : (emit (emit (emit x))).st = .diffHeader .unified := hst
    rw [shouldHandle_diffHeader hc hst3, hst3]
    simp [isDiffHeader, hc.notCO]
  simp only [tailNames, Generated.handlerOrder, List.drop, chain, handlerOf, e7, e8, e9, e10, e11, e12, e13,
    handleGitShowFile, e15, e16, e17]

theorem chain_skip {cfg : Cfg} {l : L} {name : String} {rest : List String} {m m' : M} {h : Handler}
    (hn : handlerOf name = some h) (e : h cfg m l = .ok (false, m')) :
    chain cfg l (name :: rest) m = chain cfg l rest m' := by
  simp only [chain, hn, e]

theorem handlerOrder_split : Generated.handlerOrder =
    "handle_commit_meta_header_line" :: "handle_diff_stat_line" :: "handle_diff_header_diff_line" ::
    "handle_diff_header_file_operation_line" :: "handle_diff_header_minus_line" ::
    "handle_diff_header_plus_line" :: tailNames := rfl

theorem minusLineTest_false (m : M) {l : L} (h : startsWithAny l.text Markers.minusLine = false) :
    minusLineTest m l = false := by
  unfold minusLineTest
  simp only [startsWithAny, Markers.minusLine, List.any_cons, List.any_nil, Bool.or_false, Bool.or_eq_false_iff] at h
  obtain ⟨a, b, c⟩ := h
  simp [Markers.minusLine, startsWithAny, a, b, c]

/-- a line of the header part that is not the `--- ` / `+++ ` line: index, similarity … -/
structure Noise (l : L) : Prop extends TailNo l where
  commit : l.commitRe = false
  diff : startsWith l.text Markers.diffLine = false
  fileOp : startsWithAny l.text Markers.fileOperationLine = false
  minus : startsWithAny l.text Markers.minusLine = false
  plus : startsWithAny l.text Markers.plusLine = false

theorem InHdr.emit3 {m : M} (h : InHdr m) (g : Good (emit (emit (emit m)))) : InHdr (emit (emit (emit m))) :=
  ⟨h.st, h.src, h.cnt, h.mode, h.hp, h.minus, h.plus, g⟩

theorem stepInit_git {m : M} (l : L) (h : m.source = .gitDiff) : stepInit m l = m := by
  unfold stepInit; simp [h]

/-- (B) an index-like line of the header part: skipped, nothing written -/
theorem noise_line_step {cfg : Cfg} (hc : FHC cfg) {m : M} {l : L} (h : InHdr m) (hl : Noise l) :
    ∃ m', step cfg m l = .ok m' ∧ InHdr m' ∧ fileTL m' = fileTL m ∧ m'.n = m.n + 1 ∧
      m'.minusFile = m.minusFile ∧ m'.minusEvent = m.minusEvent ∧ m'.currentPair = m.currentPair := by
  have hlt : headerLineTest m = true := by unfold headerLineTest; simp [h.st, isDiffHeader]
  have e1 := handleCommitMeta_not_mine cfg m l hl.commit
  have e2 : handleDiffStat cfg m l = .ok (false, m) := rfl
  have e3 := handleDiffHeaderDiff_not_mine cfg m l hl.diff
  have e4 := handleFileOperation_not_mine cfg m l (by simp [hl.fileOp])
  have e5 := handleMinusLine_not_mine cfg m l (minusLineTest_false m hl.minus)
  have e6 := handlePlusLine_not_mine cfg m l (by unfold plusLineTest; simp [hl.plus])
  have ec : chain cfg l Generated.handlerOrder m = .ok (emit (emit (emit m))) := by
    rw [handlerOrder_split, chain_skip (by rfl) e1, chain_skip (by rfl) e2, chain_skip (by rfl) e3, chain_skip (by rfl) e4,
      chain_skip (by rfl) e5, chain_skip (by rfl) e6]
    exact hdr_tail hc m l h.st h.src hl.toTailNo
  have g3 : Good (emit (emit (emit m))) := (chain_step _ ec h.good).good
  refine ⟨{ emit (emit (emit m)) with n := (emit (emit (emit m))).n + 1 }, ?_, ?_, ?_, rfl, rfl, rfl, rfl⟩
  · unfold step; rw [stepInit_git l h.src, ec]
  · exact ⟨h.st, h.src, h.cnt, h.mode, h.hp, h.minus, h.plus, ⟨g3.order, g3.quiet, g3.noPlus⟩⟩
  · show fileTL (emit (emit (emit m))) = fileTL m
    rw [fileTL_emit, fileTL_emit, fileTL_emit]

/-- a `new file mode` / `deleted file mode` line -/
def isFileOpLine (l : L) : Bool := startsWithAny l.text Markers.fileOperationLine && !l.commitRe

theorem fileOpUpdate_keeps (m : M) (ev : FileEvent) (nm : Str) :
    (fileOpUpdate m ev nm).st = m.st ∧ (fileOpUpdate m ev nm).source = m.source ∧
    (fileOpUpdate m ev nm).counter = m.counter ∧ (fileOpUpdate m ev nm).modeInfo = m.modeInfo ∧
    (fileOpUpdate m ev nm).handledPair = m.handledPair ∧ (fileOpUpdate m ev nm).minus = m.minus ∧
    (fileOpUpdate m ev nm).plus = m.plus ∧ (fileOpUpdate m ev nm).n = m.n ∧
    timeline (fileOpUpdate m ev nm) = timeline m := by
  unfold fileOpUpdate; split <;> exact ⟨rfl, rfl, rfl, rfl, rfl, rfl, rfl, rfl, rfl⟩

theorem fileOp_facts {l : L} (hfo : startsWithAny l.text Markers.fileOperationLine = true) :
    startsWith l.text Markers.diffLine = false ∧ startsWithAny l.text Markers.minusLine = false ∧
      startsWithAny l.text Markers.plusLine = false ∧ TailNo l := by
  simp only [startsWithAny, Markers.fileOperationLine, List.any_cons, List.any_nil, Bool.or_false, Bool.or_eq_true] at hfo
  rcases hfo with h1 | h1
  · obtain ⟨rest, ht⟩ := startsWith_split h1
    refine ⟨by simp [ht, startsWith, Markers.diffLine, List.isPrefixOf],
      by simp [ht, startsWithAny, startsWith, Markers.minusLine, List.isPrefixOf],
      by simp [ht, startsWithAny, startsWith, Markers.plusLine, List.isPrefixOf], ?_⟩
    constructor <;> simp [ht, startsWith, Markers.hunkHeader, Markers.oldMode, Markers.newMode, Markers.binaryFiles,
      Markers.submoduleLog, List.isPrefixOf]
  · obtain ⟨rest, ht⟩ := startsWith_split h1
    refine ⟨by simp [ht, startsWith, Markers.diffLine, List.isPrefixOf],
      by simp [ht, startsWithAny, startsWith, Markers.minusLine, List.isPrefixOf],
      by simp [ht, startsWithAny, startsWith, Markers.plusLine, List.isPrefixOf], ?_⟩
    constructor <;> simp [ht, startsWith, Markers.hunkHeader, Markers.oldMode, Markers.newMode, Markers.binaryFiles,
      Markers.submoduleLog, List.isPrefixOf]

/-- (B') a `new file mode` / `deleted file mode` line of the header part: the names are pre-filled,
nothing is written (the header stays pending) -/
theorem fileop_line_step {cfg : Cfg} (hc : FHC cfg) {m : M} {l : L} (h : InHdr m) (hl : isFileOpLine l = true) :
    ∃ m', step cfg m l = .ok m' ∧ InHdr m' ∧ fileTL m' = fileTL m ∧ m'.n = m.n + 1 := by
  unfold isFileOpLine at hl
  simp only [Bool.and_eq_true, Bool.not_eq_true'] at hl
  obtain ⟨hfo, hcr⟩ := hl
  obtain ⟨hdiff, hnm, hnp, no⟩ := fileOp_facts hfo
  have hlt : headerLineTest m = true := by unfold headerLineTest; simp [h.st, isDiffHeader]
  have e1 := handleCommitMeta_not_mine cfg m l hcr
  have e2 : handleDiffStat cfg m l = .ok (false, m) := rfl
  have e3 := handleDiffHeaderDiff_not_mine cfg m l hdiff
  obtain ⟨y, hy⟩ : ∃ y, y = fileOpUpdate m (parseDiffHeaderLine l.text (decide (m.source = Source.gitDiff))).2
      ((repeatedFilePath m.diffLine m.diffLineG).getD []) := ⟨_, rfl⟩
  obtain ⟨k1, k2, k3, k4, k5, k6, k7, k8, k9⟩ := fileOpUpdate_keeps m (parseDiffHeaderLine l.text (decide (m.source = Source.gitDiff))).2
      ((repeatedFilePath m.diffLine m.diffLineG).getD [])
  rw [← hy] at k1 k2 k3 k4 k5 k6 k7 k8 k9
  have hyst : y.st = .diffHeader .unified := k1.trans h.st
  -- whether or not the handler claims the line, the rest of the chain writes nothing
  have e4 : ∃ b, handleFileOperation cfg m l = .ok (b, y) := by
    unfold handleFileOperation
    simp only [hlt, hfo, Bool.and_self, Bool.not_true, Bool.false_eq_true, if_false]
    rw [← hy]
    unfold fileOpFinish shouldWriteGeneric
    simp only [hc.notCO, Bool.false_eq_true, if_false]
    exact ⟨_, rfl⟩
  obtain ⟨b, e4⟩ := e4
  have hfin : ∃ z, chain cfg l Generated.handlerOrder m = .ok z ∧ InHdr z ∧ fileTL z = fileTL m ∧ z.n = m.n := by
    cases b with
    | true =>
      refine ⟨y, ?_, ?_, fileTL_congr k9, k8⟩
      · rw [handlerOrder_split, chain_skip (by rfl) e1, chain_skip (by rfl) e2, chain_skip (by rfl) e3]
        simp only [chain, handlerOf, e4]
      · have ec : chain cfg l Generated.handlerOrder m = .ok y := by
          rw [handlerOrder_split, chain_skip (by rfl) e1, chain_skip (by rfl) e2, chain_skip (by rfl) e3]
          simp only [chain, handlerOf, e4]
        have g := (chain_step _ ec h.good).good
        exact ⟨hyst, k2.trans h.src, by rw [k3]; exact h.cnt, k4.trans h.mode, k5.trans h.hp, k6.trans h.minus, k7.trans h.plus, g⟩
    | false =>
      -- not claimed: the line runs down the rest of the chain like an index line
      have e5 := handleMinusLine_not_mine cfg y l (minusLineTest_false y hnm)
      have e6 := handlePlusLine_not_mine cfg y l (by unfold plusLineTest; simp [hnp])
      have ec : chain cfg l Generated.handlerOrder m = .ok (emit (emit (emit y))) := by
        rw [handlerOrder_split, chain_skip (by rfl) e1, chain_skip (by rfl) e2, chain_skip (by rfl) e3, chain_skip (by rfl) e4,
          chain_skip (by rfl) e5, chain_skip (by rfl) e6]
        exact hdr_tail hc y l hyst (k2.trans h.src) no
      have g := (chain_step _ ec h.good).good
      refine ⟨_, ec, ⟨hyst, k2.trans h.src, by show y.counter ≤ -4096; rw [k3]; exact h.cnt, k4.trans h.mode,
        k5.trans h.hp, k6.trans h.minus, k7.trans h.plus, g⟩, ?_, k8⟩
      rw [fileTL_emit, fileTL_emit, fileTL_emit]; exact fileTL_congr k9
  obtain ⟨z, ec, hz, tz, nz⟩ := hfin
  refine ⟨{ z with n := z.n + 1 }, ?_, ⟨hz.st, hz.src, hz.cnt, hz.mode, hz.hp, hz.minus, hz.plus,
    ⟨hz.good.order, hz.good.quiet, hz.good.noPlus⟩⟩, tz, by show z.n + 1 = m.n + 1; rw [nz]⟩
  unfold step; rw [stepInit_git l h.src, ec]

theorem threeDashes_of_le {c : Int} (h : c ≤ -4096) : threeDashesExpected c = true := by
  unfold threeDashesExpected
  split
  · omega
  · rfl

/-- the line of a section that names the old file: `--- `, `rename from `, `copy from ` -/
def isMinusLine (l : L) : Bool := startsWithAny l.text Markers.minusLine && !l.commitRe

/-- the line of a section that names the new file: `+++ `, `rename to `, `copy to ` -/
def isPlusLine (l : L) : Bool := startsWithAny l.text Markers.plusLine && !l.commitRe

theorem minusMarker_facts {l : L} (h : startsWithAny l.text Markers.minusLine = true) :
    startsWith l.text Markers.diffLine = false ∧ startsWithAny l.text Markers.fileOperationLine = false ∧
      startsWithAny l.text Markers.plusLine = false ∧ TailNo l := by
  simp only [startsWithAny, Markers.minusLine, List.any_cons, List.any_nil, Bool.or_false, Bool.or_eq_true] at h
  rcases h with h1 | h1 | h1
  all_goals
    obtain ⟨rest, ht⟩ := startsWith_split h1
    refine ⟨by simp [ht, startsWith, Markers.diffLine, List.isPrefixOf],
      by simp [ht, startsWithAny, startsWith, Markers.fileOperationLine, List.isPrefixOf],
      by simp [ht, startsWithAny, startsWith, Markers.plusLine, List.isPrefixOf], ?_⟩
    constructor <;> simp [ht, startsWith, Markers.hunkHeader, Markers.oldMode, Markers.newMode, Markers.binaryFiles,
      Markers.submoduleLog, List.isPrefixOf]

theorem plusMarker_facts {l : L} (h : startsWithAny l.text Markers.plusLine = true) :
    startsWith l.text Markers.diffLine = false ∧ startsWithAny l.text Markers.fileOperationLine = false ∧
      startsWithAny l.text Markers.minusLine = false ∧ TailNo l := by
  simp only [startsWithAny, Markers.plusLine, List.any_cons, List.any_nil, Bool.or_false, Bool.or_eq_true] at h
  rcases h with h1 | h1 | h1
  all_goals
    obtain ⟨rest, ht⟩ := startsWith_split h1
    refine ⟨by simp [ht, startsWith, Markers.diffLine, List.isPrefixOf],
      by simp [ht, startsWithAny, startsWith, Markers.fileOperationLine, List.isPrefixOf],
      by simp [ht, startsWithAny, startsWith, Markers.minusLine, List.isPrefixOf], ?_⟩
    constructor <;> simp [ht, startsWith, Markers.hunkHeader, Markers.oldMode, Markers.newMode, Markers.binaryFiles,
      Markers.submoduleLog, List.isPrefixOf]

theorem minusLineTest_true (m : M) {l : L} (hlt : headerLineTest m = true) (hc : m.counter ≤ -4096)
    (h : startsWithAny l.text Markers.minusLine = true) : minusLineTest m l = true := by
  unfold minusLineTest
  simp only [startsWithAny, Markers.minusLine, List.any_cons, List.any_nil, Bool.or_false, Bool.or_eq_true] at h
  rcases h with h1 | h1 | h1 <;> simp [hlt, Markers.minusLine, startsWithAny, h1, threeDashes_of_le hc]

theorem flushMP_keeps (y : M) : (flushMP y).counter = y.counter ∧ (flushMP y).handledPair = y.handledPair ∧
    (flushMP y).currentPair = y.currentPair ∧ (flushMP y).minusFile = y.minusFile ∧ (flushMP y).minusEvent = y.minusEvent ∧
    (flushMP y).plusFile = y.plusFile := by
  unfold flushMP; split <;> exact ⟨rfl, rfl, rfl, rfl, rfl, rfl⟩

/-- the bookkeeping of `handle_diff_header_minus_line` in a git diff -/
def minusUpd (m : M) (l : L) : M :=
  { m with minusFile := (parseDiffHeaderLine l.text true).1, minusEvent := (parseDiffHeaderLine l.text true).2 }

/-- (C) the `--- ` line: the name and event of the old file are recorded, nothing is written -/
theorem minus_line_step {cfg : Cfg} (hc : FHC cfg) {m : M} {l : L} (h : InHdr m) (hl : isMinusLine l = true) :
    ∃ m', step cfg m l = .ok m' ∧ InHdr m' ∧ fileTL m' = fileTL m ∧ m'.n = m.n + 1 ∧
      m'.minusFile = (parseDiffHeaderLine l.text true).1 ∧ m'.minusEvent = (parseDiffHeaderLine l.text true).2 := by
  unfold isMinusLine at hl
  simp only [Bool.and_eq_true, Bool.not_eq_true'] at hl
  obtain ⟨hsw, hcr⟩ := hl
  obtain ⟨hdiff, hfo, hpl, no⟩ := minusMarker_facts hsw
  have hlt : headerLineTest m = true := by unfold headerLineTest; simp [h.st, isDiffHeader]
  have hgit : decide (m.source = Source.gitDiff) = true := by simp [h.src]
  have hnu : (m.source = Source.diffUnified) = False := by simp [h.src]
  have e1 := handleCommitMeta_not_mine cfg m l hcr
  have e2 : handleDiffStat cfg m l = .ok (false, m) := rfl
  have e3 := handleDiffHeaderDiff_not_mine cfg m l hdiff
  have e4 := handleFileOperation_not_mine cfg m l (by simp [hfo])
  have e5 : handleMinusLine cfg m l = .ok (false, flushMP (minusUpd m l)) := by
    have htest : minusLineTest m l = true := minusLineTest_true m hlt h.cnt hsw
    unfold handleMinusLine shouldWriteGeneric
    simp only [htest, Bool.not_true, Bool.false_eq_true, if_false, hc.notCO, hgit, hnu]
    rfl
  obtain ⟨x, hx⟩ : ∃ x, x = flushMP (minusUpd m l) := ⟨_, rfl⟩
  rw [← hx] at e5
  obtain ⟨k1, k2, k3, k4, k5, k6⟩ := flushMP_keeps (minusUpd m l)
  rw [← hx] at k1 k2 k3 k4 k5 k6
  have hxst : x.st = .diffHeader .unified := by rw [hx, flushMP_st]; exact h.st
  have hxsrc : x.source = .gitDiff := by rw [hx, flushMP_source]; exact h.src
  have hxmi : x.modeInfo = [] := by rw [hx, flushMP_modeInfo]; exact h.mode
  have hxn : x.n = m.n := by rw [hx, flushMP_n]; rfl
  have hxtl : fileTL x = fileTL m := by rw [hx, fileTL_flushMP]; exact fileTL_congr rfl
  have e6 := handlePlusLine_not_mine cfg x l (by unfold plusLineTest; simp [hpl])
  have ec : chain cfg l Generated.handlerOrder m = .ok (emit (emit (emit x))) := by
    rw [handlerOrder_split, chain_skip (by rfl) e1, chain_skip (by rfl) e2, chain_skip (by rfl) e3, chain_skip (by rfl) e4,
      chain_skip (by rfl) e5, chain_skip (by rfl) e6]
    exact hdr_tail hc x l hxst hxsrc no
  have g3 : Good (emit (emit (emit x))) := (chain_step _ ec h.good).good
  refine ⟨{ emit (emit (emit x)) with n := (emit (emit (emit x))).n + 1 }, ?_, ?_, ?_, ?_, k4, k5⟩
  · unfold step; rw [stepInit_git l h.src, ec]
  · refine ⟨hxst, hxsrc, ?_, hxmi, ?_, ?_, ?_, ⟨g3.order, g3.quiet, g3.noPlus⟩⟩
    · show x.counter ≤ -4096
      rw [k1]; exact h.cnt
    · show x.handledPair = none
      rw [k2]; exact h.hp
    · show x.minus = []
      rw [hx]; simp
    · show x.plus = []
      rw [hx]; simp
  · show fileTL (emit (emit (emit x))) = fileTL m
    rw [fileTL_emit, fileTL_emit, fileTL_emit, hxtl]
  · show x.n + 1 = m.n + 1
    rw [hxn]

theorem direct_keeps (y : M) (rows : List Row) : (direct y rows).counter = y.counter ∧
    (direct y rows).handledPair = y.handledPair ∧ (direct y rows).currentPair = y.currentPair ∧
    (direct y rows).minusFile = y.minusFile ∧ (direct y rows).minusEvent = y.minusEvent ∧
    (direct y rows).plusFile = y.plusFile := by
  unfold direct; split <;> exact ⟨rfl, rfl, rfl, rfl, rfl, rfl⟩

/-- the header written, the pair recorded as handled (`handle_diff_header_plus_line`, second branch) -/
def hdrWritten (cfg : Cfg) (y : M) : M :=
  { handleHeaderLine cfg (emit y) (y.source = .diffUnified) with
    handledPair := (handleHeaderLine cfg (emit y) (y.source = .diffUnified)).currentPair }

theorem hdrWritten_spec {cfg : Cfg} (hc : FHC cfg) (y : M) (hsrc : y.source = .gitDiff) (hmi : y.modeInfo = [])
    (hm : y.minus = []) (hp : y.plus = []) :
    (hdrWritten cfg y).st = y.st ∧ (hdrWritten cfg y).source = y.source ∧ (hdrWritten cfg y).counter = y.counter ∧
    (hdrWritten cfg y).modeInfo = [] ∧ (hdrWritten cfg y).handledPair = (hdrWritten cfg y).currentPair ∧
    (hdrWritten cfg y).n = y.n ∧ (hdrWritten cfg y).minus = [] ∧ (hdrWritten cfg y).plus = [] ∧
    (hdrWritten cfg y).currentPair = y.currentPair ∧ (hdrWritten cfg y).minusFile = y.minusFile ∧
    fileTL (hdrWritten cfg y) = fileTL y ++
      [{ kind := .file, text := fileRowText cfg (fileChangeDescription cfg.labels y.minusFile y.plusFile false y.minusEvent),
         src := y.n }] := by
  have hdu : decide (y.source = Source.diffUnified) = false := by simp [hsrc]
  have hw : handleHeaderLine cfg (emit y) (decide (y.source = Source.diffUnified)) =
      writeGeneric cfg (emit y) (fileChangeDescription cfg.labels y.minusFile y.plusFile false y.minusEvent)
        (fileChangeDescription cfg.labels y.minusFile y.plusFile false y.minusEvent) := by
    unfold handleHeaderLine; rw [hdu]; rfl
  have hfile := writeGeneric_file hc (emit y) (fileChangeDescription cfg.labels y.minusFile y.plusFile false y.minusEvent)
    (fileChangeDescription cfg.labels y.minusFile y.plusFile false y.minusEvent) hmi rfl hm hp
  have hwg : ∀ t r : Str, (writeGeneric cfg (emit y) t r).counter = y.counter ∧ (writeGeneric cfg (emit y) t r).modeInfo = [] ∧
      (writeGeneric cfg (emit y) t r).currentPair = y.currentPair ∧ (writeGeneric cfg (emit y) t r).minusFile = y.minusFile := by
    intro t r
    unfold writeGeneric
    simp only [hc.notOmitted, hc.notCO, Bool.false_eq_true, false_and, if_false, not_false_eq_true]
    exact ⟨(direct_keeps _ _).1, trivial, (direct_keeps _ _).2.2.1, (direct_keeps _ _).2.2.2.1⟩
  unfold hdrWritten
  rw [hw]
  refine ⟨by simp, by simp, (hwg _ _).1, (hwg _ _).2.1, rfl, by simp, by simp [hm], by simp [hp], (hwg _ _).2.2.1,
    (hwg _ _).2.2.2, ?_⟩
  have : fileTL { writeGeneric cfg (emit y) (fileChangeDescription cfg.labels y.minusFile y.plusFile false y.minusEvent)
      (fileChangeDescription cfg.labels y.minusFile y.plusFile false y.minusEvent) with
      handledPair := (writeGeneric cfg (emit y) (fileChangeDescription cfg.labels y.minusFile y.plusFile false y.minusEvent)
      (fileChangeDescription cfg.labels y.minusFile y.plusFile false y.minusEvent)).currentPair } =
      fileTL (writeGeneric cfg (emit y) (fileChangeDescription cfg.labels y.minusFile y.plusFile false y.minusEvent)
      (fileChangeDescription cfg.labels y.minusFile y.plusFile false y.minusEvent)) := fileTL_congr rfl
  rw [this, hfile, fileTL_emit]
  rfl

/-- in the header part after the `+++ ` line: the header has been written -/
structure AfterPlus (m : M) : Prop where
  st : m.st = .diffHeader .unified
  src : m.source = .gitDiff
  cnt : m.counter ≤ -4096
  mode : m.modeInfo = []
  pair : m.handledPair = m.currentPair
  good : Good m

theorem AfterPlus.settled {m : M} (h : AfterPlus m) : Settled m := ⟨Or.inl h.src, h.cnt, h.mode, h.pair, h.good⟩

/-- the bookkeeping of `handle_diff_header_plus_line` in a git diff -/
def plusUpd (m : M) (l : L) : M :=
  { m with plusFile := (parseDiffHeaderLine l.text true).1, plusEvent := (parseDiffHeaderLine l.text true).2,
           currentPair := some (m.minusFile, (parseDiffHeaderLine l.text true).1) }

/-- the file-header row of a section: written at input line `n`, for the names and the event the
`--- ` and `+++ ` lines carry -/
def headerRow (cfg : Cfg) (minusFile : Str) (minusEvent : FileEvent) (pl : L) (n : Nat) : Row :=
  { kind := .file,
    text := fileRowText cfg (fileChangeDescription cfg.labels minusFile (parseDiffHeaderLine pl.text true).1 false minusEvent),
    src := n }

/-- (D) the `+++ ` line: exactly one file row is written, for this section's two names -/
theorem plus_line_step {cfg : Cfg} (hc : FHC cfg) {m : M} {l : L} (h : InHdr m) (hl : isPlusLine l = true) :
    ∃ m', step cfg m l = .ok m' ∧ AfterPlus m' ∧ m'.n = m.n + 1 ∧
      fileTL m' = fileTL m ++ [headerRow cfg m.minusFile m.minusEvent l m.n] ∧
      m'.handledPair = some (m.minusFile, (parseDiffHeaderLine l.text true).1) ∧ m'.minusFile = m.minusFile := by
  unfold isPlusLine at hl
  simp only [Bool.and_eq_true, Bool.not_eq_true'] at hl
  obtain ⟨hpl, hcr⟩ := hl
  obtain ⟨hdiff, hfo, hmn, no⟩ := plusMarker_facts hpl
  have hgit : decide (m.source = Source.gitDiff) = true := by simp [h.src]
  have e1 := handleCommitMeta_not_mine cfg m l hcr
  have e2 : handleDiffStat cfg m l = .ok (false, m) := rfl
  have e3 := handleDiffHeaderDiff_not_mine cfg m l hdiff
  have e4 := handleFileOperation_not_mine cfg m l (by simp [hfo])
  have e5 := handleMinusLine_not_mine cfg m l (minusLineTest_false m hmn)
  obtain ⟨y, hy⟩ : ∃ y, y = flushMP (plusUpd m l) := ⟨_, rfl⟩
  obtain ⟨k1, k2, k3, k4, k5, k6⟩ := flushMP_keeps (plusUpd m l)
  rw [← hy] at k1 k2 k3 k4 k5 k6
  have hyst : y.st = .diffHeader .unified := by rw [hy, flushMP_st]; exact h.st
  have hysrc : y.source = .gitDiff := by rw [hy, flushMP_source]; exact h.src
  have hymi : y.modeInfo = [] := by rw [hy, flushMP_modeInfo]; exact h.mode
  have hyn : y.n = m.n := by rw [hy, flushMP_n]; rfl
  have hytl : fileTL y = fileTL m := by rw [hy, fileTL_flushMP]; exact fileTL_congr rfl
  have hym : y.minus = [] := by rw [hy]; simp
  have hyp : y.plus = [] := by rw [hy]; simp
  have hyhp : y.handledPair = none := by rw [k2]; exact h.hp
  have hycp : y.currentPair = some (m.minusFile, (parseDiffHeaderLine l.text true).1) := by rw [k3]; rfl
  have e6 : handlePlusLine cfg m l = .ok (false, hdrWritten cfg y) := by
    have htest : plusLineTest m l = true := by unfold plusLineTest; simp [h.st, isDiffHeader, hpl]
    have hsh : shouldHandle cfg y = true := shouldHandle_diffHeader hc hyst
    unfold handlePlusLine
    simp only [htest, Bool.not_true, Bool.false_eq_true, if_false, hgit]
    change Except.ok (plusLineFinish cfg (flushMP (plusUpd m l)) l) = _
    rw [← hy]
    unfold plusLineFinish shouldWriteGeneric
    simp only [hc.notCO, Bool.false_eq_true, if_false, hsh, hyhp, hycp, true_and]
    simp only [ne_eq, reduceCtorEq, not_false_eq_true, if_true]
    rfl
  obtain ⟨s1, s2, s3, s4, s5, s6, s7, s8, s10, s11, s9⟩ := hdrWritten_spec hc y hysrc hymi hym hyp
  obtain ⟨z, hz⟩ : ∃ z, z = hdrWritten cfg y := ⟨_, rfl⟩
  rw [← hz] at e6 s1 s2 s3 s4 s5 s6 s7 s8 s9 s10 s11
  have hzst : z.st = .diffHeader .unified := by rw [s1]; exact hyst
  have hzsrc : z.source = .gitDiff := by rw [s2]; exact hysrc
  have ec : chain cfg l Generated.handlerOrder m = .ok (emit (emit (emit z))) := by
    rw [handlerOrder_split, chain_skip (by rfl) e1, chain_skip (by rfl) e2, chain_skip (by rfl) e3, chain_skip (by rfl) e4,
      chain_skip (by rfl) e5, chain_skip (by rfl) e6]
    exact hdr_tail hc z l hzst hzsrc no
  have g3 : Good (emit (emit (emit z))) := (chain_step _ ec h.good).good
  refine ⟨{ emit (emit (emit z)) with n := (emit (emit (emit z))).n + 1 }, ?_, ?_, ?_, ?_, ?_, ?_⟩
  · unfold step; rw [stepInit_git l h.src, ec]
  · refine ⟨hzst, hzsrc, ?_, s4, s5, ⟨g3.order, g3.quiet, g3.noPlus⟩⟩
    show z.counter ≤ -4096
    rw [s3, k1]; exact h.cnt
  · show z.n + 1 = m.n + 1
    rw [s6, hyn]
  · show fileTL (emit (emit (emit z))) = _
    rw [fileTL_emit, fileTL_emit, fileTL_emit, s9, hytl, k4, k5, k6, hyn]
    rfl
  · show z.handledPair = _
    rw [s5, s10, hycp]
  · show z.minusFile = m.minusFile
    rw [s11, k4]; rfl

/-- (B″) an index-like line after the header has been written -/
theorem noise_line_step_after {cfg : Cfg} (hc : FHC cfg) {m : M} {l : L} (h : AfterPlus m) (hl : Noise l) :
    ∃ m', step cfg m l = .ok m' ∧ AfterPlus m' ∧ fileTL m' = fileTL m ∧ m'.n = m.n + 1 ∧
      m'.minusFile = m.minusFile ∧ m'.handledPair = m.handledPair := by
  have e1 := handleCommitMeta_not_mine cfg m l hl.commit
  have e2 : handleDiffStat cfg m l = .ok (false, m) := rfl
  have e3 := handleDiffHeaderDiff_not_mine cfg m l hl.diff
  have e4 := handleFileOperation_not_mine cfg m l (by simp [hl.fileOp])
  have e5 := handleMinusLine_not_mine cfg m l (minusLineTest_false m hl.minus)
  have e6 := handlePlusLine_not_mine cfg m l (by unfold plusLineTest; simp [hl.plus])
  have ec : chain cfg l Generated.handlerOrder m = .ok (emit (emit (emit m))) := by
    rw [handlerOrder_split, chain_skip (by rfl) e1, chain_skip (by rfl) e2, chain_skip (by rfl) e3, chain_skip (by rfl) e4,
      chain_skip (by rfl) e5, chain_skip (by rfl) e6]
    exact hdr_tail hc m l h.st h.src hl.toTailNo
  have g3 : Good (emit (emit (emit m))) := (chain_step _ ec h.good).good
  refine ⟨{ emit (emit (emit m)) with n := (emit (emit (emit m))).n + 1 }, ?_, ?_, ?_, rfl, rfl, rfl⟩
  · unfold step; rw [stepInit_git l h.src, ec]
  · exact ⟨h.st, h.src, h.cnt, h.mode, h.pair, ⟨g3.order, g3.quiet, g3.noPlus⟩⟩
  · show fileTL (emit (emit (emit m))) = fileTL m
    rw [fileTL_emit, fileTL_emit, fileTL_emit]

/-- (C″) a second line naming the old file (the `--- ` line after `rename from`), header written -/
theorem minus_line_step_after {cfg : Cfg} (hc : FHC cfg) {m : M} {l : L} (h : AfterPlus m) (hl : isMinusLine l = true) :
    ∃ m', step cfg m l = .ok m' ∧ AfterPlus m' ∧ fileTL m' = fileTL m ∧ m'.n = m.n + 1 ∧
      m'.minusFile = (parseDiffHeaderLine l.text true).1 ∧ m'.handledPair = m.handledPair := by
  unfold isMinusLine at hl
  simp only [Bool.and_eq_true, Bool.not_eq_true'] at hl
  obtain ⟨hsw, hcr⟩ := hl
  obtain ⟨hdiff, hfo, hpl, no⟩ := minusMarker_facts hsw
  have hlt : headerLineTest m = true := by unfold headerLineTest; simp [h.st, isDiffHeader]
  have hgit : decide (m.source = Source.gitDiff) = true := by simp [h.src]
  have hnu : (m.source = Source.diffUnified) = False := by simp [h.src]
  have e1 := handleCommitMeta_not_mine cfg m l hcr
  have e2 : handleDiffStat cfg m l = .ok (false, m) := rfl
  have e3 := handleDiffHeaderDiff_not_mine cfg m l hdiff
  have e4 := handleFileOperation_not_mine cfg m l (by simp [hfo])
  have e5 : handleMinusLine cfg m l = .ok (false, flushMP (minusUpd m l)) := by
    have htest : minusLineTest m l = true := minusLineTest_true m hlt h.cnt hsw
    unfold handleMinusLine shouldWriteGeneric
    simp only [htest, Bool.not_true, Bool.false_eq_true, if_false, hc.notCO, hgit, hnu]
    rfl
  obtain ⟨x, hx⟩ : ∃ x, x = flushMP (minusUpd m l) := ⟨_, rfl⟩
  rw [← hx] at e5
  obtain ⟨k1, k2, k3, k4, k5, k6⟩ := flushMP_keeps (minusUpd m l)
  rw [← hx] at k1 k2 k3 k4 k5 k6
  have hxst : x.st = .diffHeader .unified := by rw [hx, flushMP_st]; exact h.st
  have hxsrc : x.source = .gitDiff := by rw [hx, flushMP_source]; exact h.src
  have hxmi : x.modeInfo = [] := by rw [hx, flushMP_modeInfo]; exact h.mode
  have hxn : x.n = m.n := by rw [hx, flushMP_n]; rfl
  have hxtl : fileTL x = fileTL m := by rw [hx, fileTL_flushMP]; exact fileTL_congr rfl
  have e6 := handlePlusLine_not_mine cfg x l (by unfold plusLineTest; simp [hpl])
  have ec : chain cfg l Generated.handlerOrder m = .ok (emit (emit (emit x))) := by
    rw [handlerOrder_split, chain_skip (by rfl) e1, chain_skip (by rfl) e2, chain_skip (by rfl) e3, chain_skip (by rfl) e4,
      chain_skip (by rfl) e5, chain_skip (by rfl) e6]
    exact hdr_tail hc x l hxst hxsrc no
  have g3 : Good (emit (emit (emit x))) := (chain_step _ ec h.good).good
  refine ⟨{ emit (emit (emit x)) with n := (emit (emit (emit x))).n + 1 }, ?_, ?_, ?_, ?_, k4, k2⟩
  · unfold step; rw [stepInit_git l h.src, ec]
  · refine ⟨hxst, hxsrc, ?_, hxmi, ?_, ⟨g3.order, g3.quiet, g3.noPlus⟩⟩
    · show x.counter ≤ -4096
      rw [k1]; exact h.cnt
    · show x.handledPair = x.currentPair
      rw [k2, k3]; exact h.pair
  · show fileTL (emit (emit (emit x))) = fileTL m
    rw [fileTL_emit, fileTL_emit, fileTL_emit, hxtl]
  · show x.n + 1 = m.n + 1
    rw [hxn]

/-- (D″) a second line naming the new file (the `+++ ` line after `rename to`) that names the same
pair: the header is not written again -/
theorem plus_line_step_after {cfg : Cfg} (hc : FHC cfg) {m : M} {l : L} (h : AfterPlus m) (hl : isPlusLine l = true)
    (hsame : m.handledPair = some (m.minusFile, (parseDiffHeaderLine l.text true).1)) :
    ∃ m', step cfg m l = .ok m' ∧ AfterPlus m' ∧ fileTL m' = fileTL m ∧ m'.n = m.n + 1 := by
  unfold isPlusLine at hl
  simp only [Bool.and_eq_true, Bool.not_eq_true'] at hl
  obtain ⟨hpl, hcr⟩ := hl
  obtain ⟨hdiff, hfo, hmn, no⟩ := plusMarker_facts hpl
  have hgit : decide (m.source = Source.gitDiff) = true := by simp [h.src]
  have e1 := handleCommitMeta_not_mine cfg m l hcr
  have e2 : handleDiffStat cfg m l = .ok (false, m) := rfl
  have e3 := handleDiffHeaderDiff_not_mine cfg m l hdiff
  have e4 := handleFileOperation_not_mine cfg m l (by simp [hfo])
  have e5 := handleMinusLine_not_mine cfg m l (minusLineTest_false m hmn)
  obtain ⟨y, hy⟩ : ∃ y, y = flushMP (plusUpd m l) := ⟨_, rfl⟩
  obtain ⟨k1, k2, k3, k4, k5, k6⟩ := flushMP_keeps (plusUpd m l)
  rw [← hy] at k1 k2 k3 k4 k5 k6
  have hyst : y.st = .diffHeader .unified := by rw [hy, flushMP_st]; exact h.st
  have hysrc : y.source = .gitDiff := by rw [hy, flushMP_source]; exact h.src
  have hymi : y.modeInfo = [] := by rw [hy, flushMP_modeInfo]; exact h.mode
  have hyn : y.n = m.n := by rw [hy, flushMP_n]; rfl
  have hytl : fileTL y = fileTL m := by rw [hy, fileTL_flushMP]; exact fileTL_congr rfl
  have hypair : y.handledPair = y.currentPair := by
    rw [k2, k3]
    show m.handledPair = some (m.minusFile, (parseDiffHeaderLine l.text true).1)
    exact hsame
  have e6 : handlePlusLine cfg m l = .ok (false, y) := by
    have htest : plusLineTest m l = true := by unfold plusLineTest; simp [h.st, isDiffHeader, hpl]
    unfold handlePlusLine
    simp only [htest, Bool.not_true, Bool.false_eq_true, if_false, hgit]
    change Except.ok (plusLineFinish cfg (flushMP (plusUpd m l)) l) = _
    rw [← hy]
    unfold plusLineFinish shouldWriteGeneric
    simp only [hc.notCO, Bool.false_eq_true, if_false, hypair, ne_eq, not_true_eq_false, and_false]
  have ec : chain cfg l Generated.handlerOrder m = .ok (emit (emit (emit y))) := by
    rw [handlerOrder_split, chain_skip (by rfl) e1, chain_skip (by rfl) e2, chain_skip (by rfl) e3, chain_skip (by rfl) e4,
      chain_skip (by rfl) e5, chain_skip (by rfl) e6]
    exact hdr_tail hc y l hyst hysrc no
  have g3 : Good (emit (emit (emit y))) := (chain_step _ ec h.good).good
  refine ⟨{ emit (emit (emit y)) with n := (emit (emit (emit y))).n + 1 }, ?_, ?_, ?_, ?_⟩
  · unfold step; rw [stepInit_git l h.src, ec]
  · refine ⟨hyst, hysrc, ?_, hymi, hypair, ⟨g3.order, g3.quiet, g3.noPlus⟩⟩
    show y.counter ≤ -4096
    rw [k1]; exact h.cnt
  · show fileTL (emit (emit (emit y))) = fileTL m
    rw [fileTL_emit, fileTL_emit, fileTL_emit, hytl]
  · show y.n + 1 = m.n + 1
    rw [hyn]

-- the hunks of a section ---------------------------------------------------------------

theorem hunkHeaderRows_nofile {cfg : Cfg} {m1 : M} {hh : HunkHeader} {line raw : Str} {src : Nat} {rows : List Row}
    (e : hunkHeaderRows cfg m1 hh line raw src = .ok rows) : ∀ x ∈ rows, x.kind ≠ .file := by
  have hd : ∀ (st : ElemStyle) (t r a : Str), ∀ x ∈ drawRows st .hunkHeader t r a src, x.kind ≠ .file := by
    intro st t r a x hx
    unfold drawRows at hx
    cases hdeco : st.deco <;> cases hraw : st.isRaw <;> simp [hdeco, hraw] at hx
    all_goals (first | (rcases hx with h | h | h <;> subst h <;> simp) | (rcases hx with h | h <;> subst h <;> simp) | (subst hx; simp))
  unfold hunkHeaderRows at e
  simp only at e
  split at e
  · cases e
    intro x hx
    simp only [List.mem_append] at hx
    rcases hx with hx | hx
    · split at hx
      · simp at hx; subst hx; simp
      · simp at hx
    · exact hd _ _ _ _ x hx
  · split at e
    · cases e; intro x hx; simp at hx; subst hx; simp
    · split at e
      · cases e
      · cases e
        intro x hx
        split at hx
        · simp at hx
        · simp at hx; subst hx; simp
      · cases e
        intro x hx
        simp only [List.mem_append] at hx
        rcases hx with hx | hx
        · split at hx
          · simp at hx
          · simp at hx; subst hx; simp
        · exact hd _ _ _ _ x hx

/-- fields that the hunk-line handler leaves alone (the counter may only go down) -/
structure Keep (m m' : M) : Prop where
  src : m'.source = m.source
  mode : m'.modeInfo = m.modeInfo
  hp : m'.handledPair = m.handledPair
  cp : m'.currentPair = m.currentPair
  cnt : m'.counter ≤ m.counter

theorem Keep.refl (m : M) : Keep m m := ⟨rfl, rfl, rfl, rfl, Int.le_refl _⟩
theorem Keep.trans {a b c : M} (h1 : Keep a b) (h2 : Keep b c) : Keep a c :=
  ⟨h2.src.trans h1.src, h2.mode.trans h1.mode, h2.hp.trans h1.hp, h2.cp.trans h1.cp, Int.le_trans h2.cnt h1.cnt⟩
theorem Keep.flushMP (m : M) : Keep m (flushMP m) := by
  obtain ⟨k1, k2, k3, _, _, _⟩ := flushMP_keeps m
  exact ⟨flushMP_source m, flushMP_modeInfo m, k2, k3, by rw [k1]; exact Int.le_refl _⟩
theorem Keep.emit (m : M) : Keep m (emit m) := ⟨rfl, rfl, rfl, rfl, Int.le_refl _⟩
theorem Keep.direct (m : M) (rows : List Row) : Keep m (direct m rows) := by
  obtain ⟨k1, k2, k3, _, _, _⟩ := direct_keeps m rows
  exact ⟨direct_source m rows, direct_modeInfo m rows, k2, k3, by rw [k1]; exact Int.le_refl _⟩

theorem hunkLinePre_keep {cfg : Cfg} {m m' : M} (e : hunkLinePre cfg m = .ok m') :
    Keep m m' ∧ ∃ pre, timeline m' = timeline m ++ pre ∧ ∀ x ∈ pre, x.kind ≠ .file := by
  unfold hunkLinePre at e
  simp only at e
  have k1 : Keep m (if m.minus.length > cfg.bufSize ∨ m.plus.length > cfg.bufSize then flushMP m else m) := by
    split
    · exact Keep.flushMP m
    · exact Keep.refl m
  have ht : timeline (if m.minus.length > cfg.bufSize ∨ m.plus.length > cfg.bufSize then flushMP m else m) = timeline m := by
    split
    · exact timeline_flushMP m
    · rfl
  split at e
  · unfold emitHunkHeader at e
    split at e
    · cases e
    · rename_i rows hr
      cases e
      refine ⟨k1.trans (((Keep.flushMP _).trans (Keep.emit _)).trans (Keep.direct _ _)), rows, ?_, hunkHeaderRows_nofile hr⟩
      rw [timeline_direct_flushed, ht]
  · cases e
    exact ⟨k1, [], by simp [ht], by simp⟩

/-- the second part of `handle_hunk_line` on a marker line of a unified hunk -/
theorem hunkLinePush_unified_keep {cfg : Cfg} {m m' : M} {l : L} (hdt : hunkDiffType m.st = some .unified)
    (hb : firstIs l isMarker) (e : hunkLinePush cfg m l = .ok m') :
    Keep m m' ∧ isHunkState m'.st = true ∧ hunkDiffType m'.st = some .unified := by
  have hn : newLineState m.st l = .ok (classifyUnified l) := by unfold newLineState; rw [hdt]
  unfold hunkLinePush at e
  rcases classifyUnified_of_marker hb with ⟨_, hcl⟩ | ⟨_, hcl⟩ | ⟨_, hcl⟩
  · simp only [hn, hcl, nParents] at e
    cases e
    refine ⟨?_, rfl, rfl⟩
    split
    · obtain ⟨a, b, c, d, f⟩ := Keep.flushMP m
      exact ⟨a, b, c, d, by show (flushMP m).counter - 1 ≤ m.counter; omega⟩
    · exact ⟨rfl, rfl, rfl, rfl, by show m.counter - 1 ≤ m.counter; omega⟩
  · simp only [hn, hcl, nParents] at e
    cases e
    exact ⟨⟨rfl, rfl, rfl, rfl, Int.le_refl _⟩, rfl, rfl⟩
  · simp only [hn, hcl, nParents] at e
    cases e
    obtain ⟨a, b, c, d, f⟩ := Keep.flushMP m
    exact ⟨⟨a, b, c, d, by show (flushMP m).counter - 1 ≤ m.counter; omega⟩, rfl, rfl⟩

/-- inside the hunks of a section of a unified git diff: header written, nothing pending -/
structure InHunk (m : M) : Prop where
  st : isHunkState m.st = true
  dt : hunkDiffType m.st = some .unified
  src : m.source = .gitDiff
  cnt : m.counter ≤ -4096
  mode : m.modeInfo = []
  pair : m.handledPair = m.currentPair
  good : Good m

theorem InHunk.settled {m : M} (h : InHunk m) : Settled m := ⟨Or.inl h.src, h.cnt, h.mode, h.pair, h.good⟩

/-- a hunk-header line of a section -/
def isHHLineG (l : L) : Bool := isHHLine l && !l.commitRe

theorem hunkHeaderDiffType_unified {m : M} (l : L)
    (hs : m.st = .diffHeader .unified ∨ (isHunkState m.st = true ∧ hunkDiffType m.st = some .unified)) :
    hunkHeaderDiffType m l = .unified := by
  unfold hunkHeaderDiffType
  rcases hs with hs | ⟨hs, hdt⟩
  · rw [hs]
  · cases hst : m.st with
    | hunkHeader dt hh line raw src => rfl
    | hunkMinus dt =>
      rw [hst] at hdt
      cases dt with
      | unified => rfl
      | combined mp c => cases mp <;> cases c <;> simp [hunkDiffType] at hdt
    | hunkZero dt =>
      rw [hst] at hdt
      cases dt with
      | unified => rfl
      | combined mp c => cases mp <;> cases c <;> simp [hunkDiffType] at hdt
    | hunkPlus dt =>
      rw [hst] at hdt
      cases dt with
      | unified => rfl
      | combined mp c => cases mp <;> cases c <;> simp [hunkDiffType] at hdt
    | _ => simp [hst, isHunkState] at hs

/-- (E) a hunk-header line, after the `+++ ` line or inside the hunks: the header becomes pending,
no file row is written -/
theorem hh_line_step {cfg : Cfg} {m : M} {l : L}
    (hs : m.st = .diffHeader .unified ∨ (isHunkState m.st = true ∧ hunkDiffType m.st = some .unified))
    (hsrc : m.source = .gitDiff) (hcnt : m.counter ≤ -4096) (hmode : m.modeInfo = [])
    (hpair : m.handledPair = m.currentPair) (g : Good m) (hl : isHHLineG l = true) :
    ∃ m', step cfg m l = .ok m' ∧ InHunk m' ∧ fileTL m' = fileTL m ∧ m'.n = m.n + 1 := by
  unfold isHHLineG at hl
  simp only [Bool.and_eq_true, Bool.not_eq_true'] at hl
  obtain ⟨hhl, hcr⟩ := hl
  have hhl' := hhl
  unfold isHHLine at hhl'
  simp only [Bool.and_eq_true] at hhl'
  obtain ⟨hsw, hparse⟩ := hhl'
  obtain ⟨rest, ht⟩ := text_of_hh hsw
  have hnm : isMergeConflict m.st = false := by
    rcases hs with hs | ⟨hs, _⟩
    · rw [hs]; rfl
    · cases hst : m.st <;> simp [hst, isHunkState, isMergeConflict] at hs ⊢
  have e1 := handleCommitMeta_not_mine cfg m l hcr
  have e2 : handleDiffStat cfg m l = .ok (false, m) := rfl
  have e3 := handleDiffHeaderDiff_not_mine cfg m l (startsWith_false_of_head ht (d := 'd') rfl (by decide))
  have e4 := handleFileOperation_not_mine cfg m l
    (by simp [startsWithAny, Generated.Markers.fileOperationLine, startsWith, ht, List.isPrefixOf])
  have e5 := handleMinusLine_not_mine cfg m l
    (by simp [minusLineTest, startsWithAny, Generated.Markers.minusLine, startsWith, ht, List.isPrefixOf])
  have e6 := handlePlusLine_not_mine cfg m l
    (by simp [plusLineTest, startsWithAny, Generated.Markers.plusLine, startsWith, ht, List.isPrefixOf])
  cases hp : parseHunkHeader l.text with
  | none => rw [hp] at hparse; cases hparse
  | some hh =>
    have hcounter : hunkHeaderCounter m hh = m.counter := by
      unfold hunkHeaderCounter
      have : ¬ (m.counter > -4096) := by omega
      simp [this]
    have e7 : handleHunkHeader cfg m l =
        .ok (true, { m with counter := m.counter, st := .hunkHeader .unified hh l.text l.raw m.n }) := by
      unfold handleHunkHeader
      simp only [hsw, hnm, Bool.not_false, Bool.and_self, Bool.not_true, Bool.false_eq_true, if_false, hp, hcounter,
        hunkHeaderDiffType_unified l hs]
    have ec : chain cfg l Generated.handlerOrder m =
        .ok { m with counter := m.counter, st := .hunkHeader .unified hh l.text l.raw m.n } := by
      rw [handlerOrder_split, chain_skip (by rfl) e1, chain_skip (by rfl) e2, chain_skip (by rfl) e3, chain_skip (by rfl) e4,
        chain_skip (by rfl) e5, chain_skip (by rfl) e6]
      simp only [tailNames, Generated.handlerOrder, List.drop, chain, handlerOf, e7]
    have g' := (chain_step _ ec g).good
    refine ⟨{ m with counter := m.counter, st := .hunkHeader .unified hh l.text l.raw m.n, n := m.n + 1 }, ?_, ?_, ?_, rfl⟩
    · unfold step; rw [stepInit_git l hsrc, ec]
    · exact ⟨rfl, rfl, hsrc, hcnt, hmode, hpair, ⟨g'.order, g'.quiet, g'.noPlus⟩⟩
    · exact fileTL_congr rfl

/-- a line of a hunk: marker column `-`, `+` or blank; not a commit line, not a `Subproject commit` line -/
def BodyL (l : L) : Prop := firstIs l isMarker ∧ l.commitRe = false ∧ l.submodule = none

/-- (F) a hunk line inside the hunks of a section: no file row is written -/
theorem body_line_step {cfg : Cfg} {m : M} {l : L} (h : InHunk m) (hl : BodyL l) (hok : ∃ x, step cfg m l = .ok x) :
    ∃ m', step cfg m l = .ok m' ∧ InHunk m' ∧ fileTL m' = fileTL m ∧ m'.n = m.n + 1 := by
  obtain ⟨hb, hc, hsub⟩ := hl
  have hun : hunkCombinedParents m.st = none := by
    have hdt := h.dt
    cases hs : m.st with
    | hunkHeader dt hh line raw src =>
      rw [hs] at hdt
      cases dt with
      | unified => rfl
      | combined mp c => cases mp <;> cases c <;> simp [hunkDiffType] at hdt
    | hunkMinus dt =>
      rw [hs] at hdt
      cases dt with
      | unified => rfl
      | combined mp c => cases mp <;> cases c <;> simp [hunkDiffType] at hdt
    | hunkZero dt =>
      rw [hs] at hdt
      cases dt with
      | unified => rfl
      | combined mp c => cases mp <;> cases c <;> simp [hunkDiffType] at hdt
    | hunkPlus dt =>
      rw [hs] at hdt
      cases dt with
      | unified => rfl
      | combined mp c => cases mp <;> cases c <;> simp [hunkDiffType] at hdt
    | _ => rfl
  obtain ⟨x, ex⟩ := hok
  have ex' := ex
  unfold step at ex'
  rw [stepInit_git l h.src, hunk_body_line_claimed cfg m l h.src h.st hun hb hc hsub] at ex'
  cases hh : handleHunkLine cfg m l with
  | error err => simp [hh] at ex'
  | ok p =>
    obtain ⟨b, m2⟩ := p
    simp only [hh] at ex'
    cases ex'
    -- inside `handle_hunk_line`
    have hh' := hh
    unfold handleHunkLine at hh'
    simp only [h.st, Bool.not_true, Bool.false_eq_true, if_false] at hh'
    cases e2 : hunkLinePre cfg m with
    | error err => simp [e2] at hh'
    | ok ma =>
      simp only [e2] at hh'
      cases e3 : hunkLinePush cfg ma l with
      | error err => simp [e3] at hh'
      | ok mb =>
        simp only [e3] at hh'
        cases hh'
        obtain ⟨r2, hst2, hhdr, _, _⟩ := hunkLinePre_spec e2 h.good
        obtain ⟨k2, pre, htl2, hnf⟩ := hunkLinePre_keep e2
        have hdt2 : hunkDiffType ma.st = some .unified := by rw [hst2]; exact h.dt
        obtain ⟨k3, hst3, hdt3⟩ := hunkLinePush_unified_keep hdt2 hb e3
        have hplus : isHunkPlus ma.st = false → ma.plus = [] := by
          intro hnp
          rw [hst2] at hnp
          rcases isHunkState_cases h.st with hq | ⟨dt, hq⟩ | ⟨dt, hq⟩ | ⟨dt, hq⟩
          · exact (hhdr hq).2
          · have := (h.good.quiet (by rw [hq]; rfl)).2
            rcases r2.shrink.2 with s | s <;> simp [s, this]
          · have := h.good.noPlus (by rw [hq]; rfl)
            rcases r2.shrink.2 with s | s <;> simp [s, this]
          · rw [hq] at hnp; simp [isHunkPlus] at hnp
        have htl3 := hunkLinePush_unified hdt2 hb e3 hplus
        have k := k2.trans k3
        have gx := (step_spec ex h.good).1
        refine ⟨_, ex, ⟨hst3, hdt3, k.src.trans h.src, Int.le_trans k.cnt h.cnt, k.mode.trans h.mode,
          by show mb.handledPair = mb.currentPair; rw [k.hp, k.cp]; exact h.pair, gx⟩, ?_, ?_⟩
        · show fileTL (emit mb) = fileTL m
          rw [fileTL_emit]
          unfold fileTL
          rw [htl3, htl2, List.filter_append, List.filter_append]
          have h1 : pre.filter (fun r => r.kind == .file) = [] := by
            rw [List.filter_eq_nil_iff]
            intro r hr; simp [hnf r hr]
          have h2 : [expectedRow cfg l ma.n].filter (fun r => r.kind == .file) = [] := by
            have := expectedRow_body cfg l ma.n
            cases hk : (expectedRow cfg l ma.n).kind <;> simp_all [isBody]
          rw [h1, h2]; simp
        · exact (step_spec ex h.good).2.2.2

-- sections -----------------------------------------------------------------------------

/-- an ordinary section of a git diff. `again`: a renamed or copied file that also has changes
names its two files a second time (index-like lines, then the `--- ` and `+++ ` lines). -/
structure Sec where
  d : L
  noise : List L
  mi : L
  pl : L
  again : Option (List L × L × L) := none
  hunks : List L

def Sec.againLines (s : Sec) : List L :=
  match s.again with
  | none => []
  | some (n2, a, b) => n2 ++ [a, b]

def Sec.lines (s : Sec) : List L := s.d :: (s.noise ++ (s.mi :: s.pl :: (s.againLines ++ s.hunks)))

/-- `diff --git` line; index-like and `new file mode` / `deleted file mode` lines; the line naming
the old file (`--- `, `rename from `, `copy from `); the line naming the new file; optionally the
two names again (same names); hunk-header lines and hunk lines, the first of which is a hunk-header
line -/
structure Sec.WF (s : Sec) : Prop where
  d : isDiffGitLine s.d = true
  noise : ∀ x ∈ s.noise, Noise x ∨ isFileOpLine x = true
  mi : isMinusLine s.mi = true
  pl : isPlusLine s.pl = true
  again : ∀ n2 a b, s.again = some (n2, a, b) →
    (∀ x ∈ n2, Noise x) ∧ isMinusLine a = true ∧ isPlusLine b = true ∧
    (parseDiffHeaderLine a.text true).1 = (parseDiffHeaderLine s.mi.text true).1 ∧
    (parseDiffHeaderLine b.text true).1 = (parseDiffHeaderLine s.pl.text true).1
  hunks : ∀ x ∈ s.hunks, isHHLineG x = true ∨ BodyL x
  first : ∀ x, s.hunks.head? = some x → isHHLineG x = true

/-- the file-header row of section `s` when its `diff --git` line is input line `k` -/
def Sec.row (cfg : Cfg) (s : Sec) (k : Nat) : Row :=
  headerRow cfg (parseDiffHeaderLine s.mi.text true).1 (parseDiffHeaderLine s.mi.text true).2 s.pl (k + s.noise.length + 2)

theorem runFrom_cons_ok {cfg : Cfg} {m mf : M} {l : L} {ls : List L} (e : runFrom cfg m (l :: ls) = .ok mf) :
    ∃ m1, step cfg m l = .ok m1 ∧ runFrom cfg m1 ls = .ok mf := by
  simp only [runFrom] at e
  split at e
  · cases e
  · rename_i m1 e1; exact ⟨m1, e1, e⟩

theorem runFrom_append_ok {cfg : Cfg} {m mf : M} {xs ys : List L} (e : runFrom cfg m (xs ++ ys) = .ok mf) :
    ∃ m1, runFrom cfg m xs = .ok m1 ∧ runFrom cfg m1 ys = .ok mf := by
  rw [runFrom_append] at e
  cases e1 : runFrom cfg m xs with
  | error err => simp [e1] at e
  | ok m1 => simp only [e1] at e; exact ⟨m1, rfl, e⟩

theorem noise_run {cfg : Cfg} (hc : FHC cfg) : ∀ (ls : List L) {m mf : M}, InHdr m →
    (∀ x ∈ ls, Noise x ∨ isFileOpLine x = true) →
    runFrom cfg m ls = .ok mf →
    InHdr mf ∧ fileTL mf = fileTL m ∧ mf.n = m.n + ls.length
  | [], m, mf, h, _, e => by simp only [runFrom] at e; cases e; exact ⟨h, rfl, rfl⟩
  | l :: ls, m, mf, h, hn, e => by
    obtain ⟨m1, e1, er⟩ := runFrom_cons_ok e
    have hstep : ∃ m1', step cfg m l = .ok m1' ∧ InHdr m1' ∧ fileTL m1' = fileTL m ∧ m1'.n = m.n + 1 := by
      rcases hn l (List.mem_cons_self ..) with hx | hx
      · obtain ⟨m1', e1', h1, t1, n1, _, _, _⟩ := noise_line_step hc h hx
        exact ⟨m1', e1', h1, t1, n1⟩
      · exact fileop_line_step hc h hx
    obtain ⟨m1', e1', h1, t1, n1⟩ := hstep
    rw [e1] at e1'; cases e1'
    obtain ⟨h2, t2, n2⟩ := noise_run hc ls h1 (fun x hx => hn x (List.mem_cons_of_mem _ hx)) er
    exact ⟨h2, t2.trans t1, by rw [n2, n1, List.length_cons]; omega⟩

theorem noise_run_after {cfg : Cfg} (hc : FHC cfg) : ∀ (ls : List L) {m mf : M}, AfterPlus m → (∀ x ∈ ls, Noise x) →
    runFrom cfg m ls = .ok mf →
    AfterPlus mf ∧ fileTL mf = fileTL m ∧ mf.n = m.n + ls.length ∧ mf.minusFile = m.minusFile ∧ mf.handledPair = m.handledPair
  | [], m, mf, h, _, e => by simp only [runFrom] at e; cases e; exact ⟨h, rfl, rfl, rfl, rfl⟩
  | l :: ls, m, mf, h, hn, e => by
    obtain ⟨m1, e1, er⟩ := runFrom_cons_ok e
    obtain ⟨m1', e1', h1, t1, n1, f1, p1⟩ := noise_line_step_after hc h (hn l (List.mem_cons_self ..))
    rw [e1] at e1'; cases e1'
    obtain ⟨h2, t2, n2, f2, p2⟩ := noise_run_after hc ls h1 (fun x hx => hn x (List.mem_cons_of_mem _ hx)) er
    exact ⟨h2, t2.trans t1, by rw [n2, n1, List.length_cons]; omega, f2.trans f1, p2.trans p1⟩

theorem hunks_run {cfg : Cfg} : ∀ (ls : List L) {m mf : M}, InHunk m → (∀ x ∈ ls, isHHLineG x = true ∨ BodyL x) →
    runFrom cfg m ls = .ok mf →
    InHunk mf ∧ fileTL mf = fileTL m ∧ mf.n = m.n + ls.length
  | [], m, mf, h, _, e => by simp only [runFrom] at e; cases e; exact ⟨h, rfl, rfl⟩
  | l :: ls, m, mf, h, hl, e => by
    obtain ⟨m1, e1, er⟩ := runFrom_cons_ok e
    have hstep : ∃ m1', step cfg m l = .ok m1' ∧ InHunk m1' ∧ fileTL m1' = fileTL m ∧ m1'.n = m.n + 1 := by
      rcases hl l (List.mem_cons_self ..) with hh | hb
      · exact hh_line_step (Or.inr ⟨h.st, h.dt⟩) h.src h.cnt h.mode h.pair h.good hh
      · exact body_line_step h hb ⟨m1, e1⟩
    obtain ⟨m1', e1', h1, t1, n1⟩ := hstep
    rw [e1] at e1'; cases e1'
    obtain ⟨h2, t2, n2⟩ := hunks_run ls h1 (fun x hx => hl x (List.mem_cons_of_mem _ hx)) er
    exact ⟨h2, t2.trans t1, by rw [n2, n1, List.length_cons]; omega⟩

/-- the second naming of the two files writes nothing -/
theorem again_run {cfg : Cfg} (hc : FHC cfg) (s : Sec) (w : s.WF) {m mf : M} (h : AfterPlus m)
    (hmf : m.minusFile = (parseDiffHeaderLine s.mi.text true).1)
    (hhp : m.handledPair = some ((parseDiffHeaderLine s.mi.text true).1, (parseDiffHeaderLine s.pl.text true).1))
    (e : runFrom cfg m s.againLines = .ok mf) :
    AfterPlus mf ∧ fileTL mf = fileTL m ∧ mf.n = m.n + s.againLines.length := by
  unfold Sec.againLines at e ⊢
  cases ha : s.again with
  | none =>
    simp only [ha, runFrom] at e
    cases e
    exact ⟨h, rfl, rfl⟩
  | some t =>
    obtain ⟨n2, a, b⟩ := t
    simp only [ha] at e ⊢
    obtain ⟨wn, wa, wb, ea, eb⟩ := w.again n2 a b ha
    obtain ⟨m1, e1, er1⟩ := runFrom_append_ok e
    obtain ⟨h1, t1, n1, f1, p1⟩ := noise_run_after hc n2 h wn e1
    obtain ⟨m2, e2, er2⟩ := runFrom_cons_ok er1
    obtain ⟨m2', e2', h2, t2, nn2, f2, p2⟩ := minus_line_step_after hc h1 wa
    rw [e2] at e2'; cases e2'
    obtain ⟨m3, e3, er3⟩ := runFrom_cons_ok er2
    obtain ⟨m3', e3', h3, t3, n3⟩ := plus_line_step_after hc h2 wb (by rw [p2, p1, hhp, f2, ea, eb])
    rw [e3] at e3'; cases e3'
    simp only [runFrom] at er3
    cases er3
    refine ⟨h3, by rw [t3, t2, t1], ?_⟩
    rw [n3, nn2, n1]; simp; omega

/-- one section: exactly one file row, written at the line that names its new file -/
theorem sec_run {cfg : Cfg} (hc : FHC cfg) (s : Sec) (w : s.WF) {m mf : M} (h : Settled m)
    (e : runFrom cfg m s.lines = .ok mf) :
    Settled mf ∧ fileTL mf = fileTL m ++ [s.row cfg m.n] ∧ mf.n = m.n + s.lines.length := by
  unfold Sec.lines at e
  obtain ⟨m1, e1, er1⟩ := runFrom_cons_ok e
  obtain ⟨m1', e1', h1, t1, n1⟩ := diff_line_step hc h w.d
  rw [e1] at e1'; cases e1'
  obtain ⟨m2, e2, er2⟩ := runFrom_append_ok er1
  obtain ⟨h2, t2, n2⟩ := noise_run hc s.noise h1 w.noise e2
  obtain ⟨m3, e3, er3⟩ := runFrom_cons_ok er2
  obtain ⟨m3', e3', h3, t3, n3, mf3, me3⟩ := minus_line_step hc h2 w.mi
  rw [e3] at e3'; cases e3'
  obtain ⟨m4, e4, er4⟩ := runFrom_cons_ok er3
  obtain ⟨m4', e4', h4, n4, t4, hp4, mf4⟩ := plus_line_step hc h3 w.pl
  rw [e4] at e4'; cases e4'
  have hrow : headerRow cfg m3.minusFile m3.minusEvent s.pl m3.n = s.row cfg m.n := by
    unfold Sec.row
    rw [mf3, me3, n3, n2, n1]
    congr 1
    omega
  have hlen : (s.d :: (s.noise ++ s.mi :: s.pl :: (s.againLines ++ s.hunks))).length =
      s.noise.length + s.againLines.length + s.hunks.length + 3 := by
    simp only [List.length_cons, List.length_append]; omega
  -- the plus-line step keeps the old file's name
  obtain ⟨m5, e5, er5⟩ := runFrom_append_ok er4
  have hmf4 : m4.minusFile = (parseDiffHeaderLine s.mi.text true).1 := mf4.trans mf3
  obtain ⟨h5, t5, n5⟩ := again_run hc s w h4 hmf4 (by rw [hp4, mf3]) e5
  cases hh : s.hunks with
  | nil =>
    rw [hh] at er5
    simp only [runFrom] at er5
    cases er5
    refine ⟨h5.settled, ?_, ?_⟩
    · rw [t5, t4, t3, t2, t1, hrow]
    · show mf.n = m.n + (s.d :: (s.noise ++ s.mi :: s.pl :: (s.againLines ++ s.hunks))).length
      rw [hlen, hh, n5, n4, n3, n2, n1]; simp; omega
  | cons x xs =>
    rw [hh] at er5
    obtain ⟨m6, e6, er6⟩ := runFrom_cons_ok er5
    have hx : isHHLineG x = true := w.first x (by rw [hh]; rfl)
    obtain ⟨m6', e6', h6, t6, n6⟩ := hh_line_step (cfg := cfg) (Or.inl h5.st) h5.src h5.cnt h5.mode h5.pair h5.good hx
    rw [e6] at e6'; cases e6'
    obtain ⟨h7, t7, n7⟩ := hunks_run xs h6 (fun y hy => w.hunks y (by rw [hh]; exact List.mem_cons_of_mem _ hy)) er6
    refine ⟨h7.settled, ?_, ?_⟩
    · rw [t7, t6, t5, t4, t3, t2, t1, hrow]
    · show mf.n = m.n + (s.d :: (s.noise ++ s.mi :: s.pl :: (s.againLines ++ s.hunks))).length
      rw [hlen, hh, n7, n6, n5, n4, n3, n2, n1]; simp; omega

/-- the file rows of a list of sections whose first line is input line `k` -/
def rowsOf (cfg : Cfg) : Nat → List Sec → List Row
  | _, [] => []
  | k, s :: ss => s.row cfg k :: rowsOf cfg (k + s.lines.length) ss

def linesOf (secs : List Sec) : List L := secs.flatMap Sec.lines

theorem secs_run {cfg : Cfg} (hc : FHC cfg) : ∀ (secs : List Sec) {m mf : M}, (∀ s ∈ secs, s.WF) → Settled m →
    runFrom cfg m (linesOf secs) = .ok mf →
    Settled mf ∧ fileTL mf = fileTL m ++ rowsOf cfg m.n secs
  | [], m, mf, _, h, e => by
    simp only [linesOf, List.flatMap_nil, runFrom] at e; cases e; exact ⟨h, by simp [rowsOf]⟩
  | s :: ss, m, mf, w, h, e => by
    have hl : linesOf (s :: ss) = s.lines ++ linesOf ss := by simp [linesOf]
    rw [hl, runFrom_append] at e
    cases e1 : runFrom cfg m s.lines with
    | error err => simp [e1] at e
    | ok m1 =>
      simp only [e1] at e
      obtain ⟨h1, t1, n1⟩ := sec_run hc s (w s (List.mem_cons_self ..)) h e1
      obtain ⟨h2, t2⟩ := secs_run hc ss (fun x hx => w x (List.mem_cons_of_mem _ hx)) h1 e
      exact ⟨h2, by rw [t2, t1, n1]; simp [rowsOf]⟩

theorem settled_init : Settled ({} : M) := ⟨Or.inr ⟨rfl, rfl⟩, by decide, rfl, rfl, good_init⟩

/-- **One file header per section** (whole runs). For every configuration in which the file header
is a row of its own (not color-only, file style neither raw nor omitted) and every git diff made
of ordinary sections — `diff --git` line, index-like lines, `--- ` line, `+++ ` line, hunks — the
file-header rows of delta's output are, in order, exactly one per section: the row written at the
section's `+++ ` line, carrying the description of that section's two names. -/
theorem run_one_file_row_per_section {cfg : Cfg} (hc : FHC cfg) (secs : List Sec) (w : ∀ s ∈ secs, s.WF) {m : M}
    (e : run cfg (linesOf secs) = .ok m) :
    m.out.filter (fun r => r.kind == .file) = rowsOf cfg 0 secs := by
  have hout := (run_spec e).2
  unfold run at e
  split at e
  · cases e
  · rename_i m1 e1
    obtain ⟨h1, t1⟩ := secs_run hc secs w settled_init e1
    -- the statements after the loop write no file row: nothing is pending
    have hfin : ∀ (ops : List String) (x x' : M), x.modeInfo = [] → x.handledPair = x.currentPair →
        tailOps cfg ops x = .ok x' → fileTL x' = fileTL x := by
      intro ops
      induction ops with
      | nil => intro x x' _ _ ex; simp only [tailOps] at ex; cases ex; rfl
      | cons op rest ih =>
        intro x x' hmi hpr ex
        simp only [tailOps] at ex
        split at ex
        · cases ex
        · rename_i x1 ex1
          have hstep : x1.modeInfo = [] ∧ x1.handledPair = x1.currentPair ∧ fileTL x1 = fileTL x := by
            unfold tailOp at ex1
            split at ex1
            · cases ex1
              obtain ⟨_, k2, k3, _, _, _⟩ := flushMP_keeps x
              exact ⟨by rw [flushMP_modeInfo]; exact hmi, by rw [k2, k3]; exact hpr, fileTL_flushMP x⟩
            · cases ex1
              rw [pendingDiffName_settled hc x hmi hpr]
              exact ⟨hmi, hpr, rfl⟩
            · cases ex1
              exact ⟨hmi, hpr, fileTL_emit x⟩
            · cases ex1
          exact (ih x1 x' hstep.1 hstep.2.1 ex).trans hstep.2.2
    have hf := hfin _ m1 m h1.mode h1.pair e
    have : m.out.filter (fun r => r.kind == .file) = fileTL m := by rw [← hout]; rfl
    rw [this, hf, t1]
    simp [fileTL, timeline]

end Machine
