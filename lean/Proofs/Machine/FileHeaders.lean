import Proofs.Machine.HunkHeaders
/-!
Whole-run file headers (C14): for a git diff made of ordinary sections —
`diff --git` line, index-like lines, `--- ` line, `+++ ` line, hunks — delta writes exactly one file
header row per section, at the `+++ ` line, carrying the description of that section's two names.

Closed-world proof: the chain of handlers is evaluated for each of the six kinds of line such a
stream contains (so no frame lemma about the other handlers is needed), then composed along a
section and along the list of sections.
-/
set_option linter.unusedSimpArgs false
set_option linter.unusedVariables false
namespace Machine
open Headers Generated

/-- configurations in which a file header is one row of kind `file` -/
structure FHC (cfg : Cfg) : Prop where
  notCO : cfg.colorOnly = false
  notRaw : cfg.fileStyle.isRaw = false
  notOmitted : cfg.fileStyle.isOmitted = false

/-- the file-header rows rendered so far -/
def fileTL (m : M) : List Row := (timeline m).filter (fun r => r.kind == .file)

theorem fileTL_congr {x y : M} (h : timeline x = timeline y) : fileTL x = fileTL y := by
  unfold fileTL; rw [h]

theorem fileTL_emit (m : M) : fileTL (emit m) = fileTL m := fileTL_congr (timeline_emit m)
theorem fileTL_flushMP (m : M) : fileTL (flushMP m) = fileTL m := fileTL_congr (timeline_flushMP m)

/-- the text of a file-header row: description, padding of a box decoration -/
def fileRowText (cfg : Cfg) (desc : Str) : Str :=
  desc ++ (match cfg.fileStyle.deco with
    | .box | .boxUl => [' ']
    | _ => [])

theorem drawRows_file_one {cfg : Cfg} (hc : FHC cfg) (t r : Str) (src : Nat) :
    (drawRows cfg.fileStyle .file t r [] src).filter (fun x => x.kind == .file) =
      [{ kind := .file, text := fileRowText cfg t, src := src }] := by
  unfold drawRows fileRowText
  cases hd : cfg.fileStyle.deco <;> simp [hd, hc.notRaw]

theorem timeline_direct_quiet (m : M) (rows : List Row) (hb : m.buf = []) (hm : m.minus = []) (hp : m.plus = []) :
    timeline (direct m rows) = timeline m ++ rows := by
  unfold direct
  split
  · rename_i h; simp [h]
  · simp [timeline, hb, hm, hp]

/-- with nothing buffered, `write_generic_diff_header_header_line` appends exactly one file row -/
theorem writeGeneric_file {cfg : Cfg} (hc : FHC cfg) (m : M) (t r : Str) (hmi : m.modeInfo = [])
    (hb : m.buf = []) (hm : m.minus = []) (hp : m.plus = []) :
    fileTL (writeGeneric cfg m t r) = fileTL m ++ [{ kind := .file, text := fileRowText cfg t, src := m.n }] := by
  have ht : timeline (writeGeneric cfg m t r) =
      timeline m ++ ([{ kind := RowKind.blank, text := [], src := m.n }] ++ drawRows cfg.fileStyle .file t r [] m.n) := by
    unfold writeGeneric
    simp only [hc.notOmitted, hc.notCO, Bool.false_eq_true, false_and, if_false, not_false_eq_true, hmi]
    exact timeline_direct_quiet m _ hb hm hp
  unfold fileTL
  rw [ht, List.filter_append, List.filter_append, drawRows_file_one hc]
  simp

-- the lines of an ordinary section -----------------------------------------------------

theorem startsWith_split {s p : Str} (h : startsWith s p = true) : ∃ rest, s = p ++ rest := by
  unfold startsWith at h
  obtain ⟨t, ht⟩ := List.isPrefixOf_iff_prefix.mp h
  exact ⟨t, ht.symm⟩

/-- between two sections (or before the first): a git diff, no header pending -/
structure Settled (m : M) : Prop where
  src : m.source = .gitDiff ∨ (m.source = .unknown ∧ m.st = .unknown)
  cnt : m.counter ≤ -4096
  mode : m.modeInfo = []
  pair : m.handledPair = m.currentPair
  good : Good m

/-- in the header part of a section: `diff --git` seen, header pending -/
structure InHdr (m : M) : Prop where
  st : m.st = .diffHeader .unified
  src : m.source = .gitDiff
  cnt : m.counter ≤ -4096
  mode : m.modeInfo = []
  hp : m.handledPair = none
  minus : m.minus = []
  plus : m.plus = []
  good : Good m

/-- a `diff --git` line (that is not also a commit line) -/
def isDiffGitLine (l : L) : Bool := startsWith l.text Markers.diffGit && !l.commitRe

theorem shouldHandle_diffHeader {cfg : Cfg} (hc : FHC cfg) {m : M} {dt : DiffType} (h : m.st = .diffHeader dt) :
    shouldHandle cfg m = true := by
  unfold shouldHandle getStyle
  rw [h]
  simp [hc.notRaw]

theorem pendingDiffName_settled {cfg : Cfg} (hc : FHC cfg) (x : M) (hmi : x.modeInfo = [])
    (hp : x.handledPair = x.currentPair) : pendingDiffName cfg x = x := by
  unfold pendingDiffName
  split
  · rfl
  · simp [hmi, hc.notCO, hp]

/-- (A) the `diff --git` line of a section: no row of any kind is written for the sections before
it (they are settled); the header of the new section is pending -/
theorem diff_line_step {cfg : Cfg} (hc : FHC cfg) {m : M} {l : L} (h : Settled m) (hl : isDiffGitLine l = true) :
    ∃ m', step cfg m l = .ok m' ∧ InHdr m' ∧ fileTL m' = fileTL m ∧ m'.n = m.n + 1 := by
  unfold isDiffGitLine at hl
  simp only [Bool.and_eq_true, Bool.not_eq_true'] at hl
  obtain ⟨hdg, hcr⟩ := hl
  obtain ⟨rest, ht⟩ := startsWith_split hdg
  have hdl : startsWith l.text Markers.diffLine = true := by
    simp [ht, startsWith, Markers.diffLine, Markers.diffGit, List.isPrefixOf]
  have hcomb : startsWithAny l.text Markers.combinedDiffLine = false := by
    simp [ht, startsWithAny, startsWith, Markers.combinedDiffLine, Markers.diffGit, List.isPrefixOf]
  have hdls : diffLineState l = .diffHeader .unified := by unfold diffLineState; simp [hcomb]
  -- source detection
  have hdet : detectSource l.text = .gitDiff := by
    unfold detectSource
    simp [ht, startsWithAny, startsWith, Generated.gitDiffPrefixes, Markers.diffGit, List.isPrefixOf]
  have hinit : (stepInit m l).source = .gitDiff ∧ timeline (stepInit m l) = timeline m ∧ (stepInit m l).n = m.n ∧
      (stepInit m l).counter = m.counter ∧ (stepInit m l).modeInfo = m.modeInfo ∧
      (stepInit m l).handledPair = m.handledPair ∧ (stepInit m l).currentPair = m.currentPair := by
    unfold stepInit
    rcases h.src with hs | ⟨hs, _⟩
    · simp [hs]
    · simp only [hs, if_true]
      unfold armCounter
      have hne : (Source.gitDiff = Source.diffUnified) = False := by simp
      simp only [Markers.prepareToCount, hdet, hne, if_false]
      refine ⟨?_, ?_, ?_, ?_, ?_, ?_, ?_⟩ <;> first | trivial | rfl
  obtain ⟨hsrc0, htl0, hn0, hcnt0, hmi0, hhp0, hcp0⟩ := hinit
  have g0 : Good (stepInit m l) := (stepInit_stepS l h.good).good
  obtain ⟨m0, hm0⟩ : ∃ m0, m0 = stepInit m l := ⟨_, rfl⟩
  rw [← hm0] at hsrc0 htl0 hn0 hcnt0 hmi0 hhp0 hcp0 g0
  -- the chain: commit meta declines, the diff-line handler claims the line
  have e1 := handleCommitMeta_not_mine cfg m0 l hcr
  let x : M := { flushMP m0 with st := diffLineState l }
  have hx : pendingDiffName cfg x = x :=
    pendingDiffName_settled hc x (by show (flushMP m0).modeInfo = []; rw [flushMP_modeInfo, hmi0]; exact h.mode)
      (by show (flushMP m0).handledPair = (flushMP m0).currentPair
          have : (flushMP m0).handledPair = m0.handledPair ∧ (flushMP m0).currentPair = m0.currentPair := by
            unfold flushMP; split <;> exact ⟨rfl, rfl⟩
          rw [this.1, this.2, hhp0, hcp0]; exact h.pair)
  have hskip : shouldSkipLine cfg (diffLineFields x l) = true := by
    unfold shouldSkipLine
    have hst : (diffLineFields x l).st = .diffHeader .unified := hdls
    rw [shouldHandle_diffHeader hc hst, hst]
    simp [isDiffHeader, hc.notCO]
  have e3 : handleDiffHeaderDiff cfg m0 l = .ok (true, diffLineFields x l) := by
    unfold handleDiffHeaderDiff
    simp only [hdl, Bool.not_true, Bool.false_eq_true, if_false]
    rw [show pendingDiffName cfg { flushMP m0 with st := diffLineState l } = x from hx]
    simp [hskip]
  have ec : chain cfg l Generated.handlerOrder m0 = .ok (diffLineFields x l) := by
    simp only [Generated.handlerOrder, chain, handlerOf, e1, handleDiffStat, e3]
  refine ⟨{ diffLineFields x l with n := (diffLineFields x l).n + 1 }, by unfold step; rw [← hm0, ec], ?_, ?_, ?_⟩
  · refine ⟨hdls, ?_, ?_, ?_, rfl, ?_, ?_, ?_⟩
    · show (flushMP m0).source = .gitDiff
      rw [flushMP_source]; exact hsrc0
    · show (flushMP m0).counter ≤ -4096
      have : (flushMP m0).counter = m0.counter := by unfold flushMP; split <;> rfl
      rw [this, hcnt0]; exact h.cnt
    · show (flushMP m0).modeInfo = []
      rw [flushMP_modeInfo, hmi0]; exact h.mode
    · show (flushMP m0).minus = []
      simp
    · show (flushMP m0).plus = []
      simp
    · have s := chain_step _ ec g0
      exact ⟨s.good.order, s.good.quiet, s.good.noPlus⟩
  · show fileTL (diffLineFields x l) = fileTL m
    have : timeline (diffLineFields x l) = timeline (flushMP m0) := rfl
    rw [fileTL_congr this, fileTL_flushMP, fileTL_congr htl0]
  · show (flushMP m0).n + 1 = m.n + 1
    rw [flushMP_n, hn0]

end Machine
