import Proofs.Machine.ColorOnlyText
import Proofs.Machine.Claims
/-!
`--color-only` on plain `diff -u` input (`Source::DiffUnified`: the first line is `--- a`, `diff -u a b`,
`diff -ru …`, `Only in …`): one row per input line, in order, carrying the text of its line.

What differs from a git diff (`ColorOnly.lean`, `ColorOnlyText.lean`, whose invariant `COInv` fixes
`source = gitDiff`):
* the header handlers (`--- `, `rename from`, `new file mode`, …) are live in *every* state
  (`test_diff_header_minus_line`: `… || self.source == Source::DiffUnified`), also inside hunks;
* whether a `--- ` line is a file header or a removed line `-- …` is decided by the minus-line counter
  (`AmbiguousDiffMinusCounter`): armed at the first line, set from the old-file length of every hunk
  header, counted down by every removed / unchanged line, "header expected" when it is `≤ 0`;
* a `--- ` header sets the state to `DiffHeader(Unified)`.

For the *count* and the *text* it does not matter which way a `--- ` line is read — either way it
yields one row with its text — except at one place: directly after a hunk header, whose row is
written lazily when the next line of the hunk arrives. If that line is read as a file header, the
pending hunk header is lost (`DashOK` is the per-step condition that excludes it). Two whole-run
theorems:
* `run_color_only_plain`: no hunk starts with a `--- …` line (`FollowedD`); nothing assumed about lengths;
* `run_color_only_plain_true_lengths`: the hunk headers announce the true lengths (`trueLengths`, a
  Boolean scan of the input). Then the counter is, at every line, the number of old-file lines still
  to come in the current hunk (`Sim`), so a first line `--- x` of a hunk with old-file length `≥ 1` is a
  removed line. Proved by evaluating the handler chain for the three classes of lines the scan
  distinguishes (`plain_body_line_claimed`, `plain_header_line_claimed`, `plain_dash_line_claimed`) and
  a generic "counter untouched, no conflict region entered" lemma for all other lines (`chain_aux`).

Structure: `PInv` / `PCO` / `handle*_pco` / `chain_pco` / `step_pco` are the plain-diff versions of
`COInv` / `CO` / … of `ColorOnly.lean` (same accounting `acct`; `passed` also says the counter is
unchanged); the text lemmas of `ColorOnlyText.lean` are reused except for the four that used `COInv`
(`*_tsp`).
-/
set_option linter.unusedSimpArgs false
set_option linter.unusedVariables false
namespace Machine
open Headers

/-- the invariant of the count development for plain `diff -u` input -/
structure PInv (m : M) : Prop where
  mode : m.modeInfo = []
  source : m.source = .diffUnified
  hhLine : ∀ dt hh line raw src, m.st = .hunkHeader dt hh line raw src → line ≠ []

/-- a `--- ` line met while a hunk header is pending is not taken for a file header: the minus-line
counter says that removed lines are still to come -/
def DashOK (m : M) (l : L) : Prop :=
  startsWith l.text (Generated.Markers.minusLine.getD 0 []) = true → threeDashesExpected m.counter = false

/-- result of one handler in color-only mode, plain diff -/
structure PCO (l : L) (m m' : M) (b : Bool) : Prop where
  inv : PInv m'
  n : m'.n = m.n
  claimed : b = true → acct m' = acct m ++ [m.n]
  passed : b = false → acct m' = acct m ∧ pend m' = pend m ∧ m'.counter = m.counter
  fresh : b = true → pend m' = [] ∨ startsWith l.text Generated.Markers.hunkHeader = true

theorem PCO.pass {l : L} {m : M} (inv : PInv m) : PCO l m m false :=
  ⟨inv, rfl, fun h => (by cases h), fun _ => ⟨rfl, rfl, rfl⟩, fun h => (by cases h)⟩

theorem PCO.claim {l : L} {m m' : M} {row : Row} (inv' : PInv m') (hn : m'.n = m.n)
    (htl : timeline m' = timeline m ++ [row]) (hsrc : row.src = m.n) (hp : pend m = []) (hp' : pend m' = []) :
    PCO l m m' true :=
  ⟨inv', hn, fun _ => by simp [acct, srcs_of_tl htl, hp, hp', hsrc], fun h => (by cases h), fun _ => Or.inl hp'⟩

theorem PCO.passUpd {l : L} {m m' : M} (inv' : PInv m') (hn : m'.n = m.n)
    (htl : timeline m' = timeline m) (hp : pend m = []) (hp' : pend m' = []) (hc : m'.counter = m.counter) :
    PCO l m m' false :=
  ⟨inv', hn, fun h => (by cases h), fun _ => ⟨by simp [acct, srcs, htl, hp, hp'], by rw [hp, hp'], hc⟩, fun h => (by cases h)⟩

@[simp] theorem flushMP_counter (m : M) : (flushMP m).counter = m.counter := by
  unfold flushMP; split <;> rfl
@[simp] theorem emit_counter (m : M) : (emit m).counter = m.counter := rfl
@[simp] theorem direct_counter (m : M) (rows : List Row) : (direct m rows).counter = m.counter := by
  unfold direct; split <;> rfl
@[simp] theorem writeGeneric_counter (cfg : Cfg) (m : M) (t r : Str) : (writeGeneric cfg m t r).counter = m.counter := by
  unfold writeGeneric; split <;> simp

/-- pending header and a hunk-body line, or nothing pending -/
theorem ppend_cases {m : M} {l : L} (hp : pend m = [] ∨ (HunkBody l ∧ DashOK m l)) :
    pend m = [] ∨ (isHunkHeader m.st = true ∧ HunkBody l ∧ DashOK m l) := by
  by_cases h : pend m = []
  · exact Or.inl h
  · rcases hp with h' | h'
    · exact Or.inl h'
    · exact Or.inr ⟨hh_of_pend h, h'⟩

theorem handleCommitMeta_pco {cfg : Cfg} {m m' : M} {l : L} {b : Bool} (nf : CONormal cfg) (inv : PInv m)
    (hp : pend m = [] ∨ (HunkBody l ∧ DashOK m l)) (e : handleCommitMeta cfg m l = .ok (b, m')) : PCO l m m' b := by
  obtain ⟨hco, hcd, _, _⟩ := nf
  unfold handleCommitMeta at e
  split at e
  · cases e; exact PCO.pass inv
  · rename_i hc
    have hc' : l.commitRe = true := by simpa using hc
    have hp0 : pend m = [] := by
      rcases hp with h | h
      · exact h
      · rw [h.1.1] at hc'; cases hc'
    have hmi : (flushMP m).modeInfo = [] := by simp [inv.mode]
    rw [pendingDiffName_co hco hmi] at e
    split at e
    · simp only [hco, not_true_eq_false, and_false, if_false] at e
      cases e
      obtain ⟨row, hr, hs⟩ := drawRows_none_single cfg.commitStyle RowKind.commit l.text l.raw [] m.n hcd
      rw [hr]
      refine PCO.claim (row := row) ⟨?_, ?_, ?_⟩ ?_ ?_ hs hp0 ?_
      · rw [direct_modeInfo]; exact hmi
      · rw [direct_source]; exact (flushMP_source m).trans inv.source
      · intro dt hh line raw src h; rw [direct_st] at h; cases h
      · rw [direct_n]; exact flushMP_n m
      · refine (timeline_direct_emit _ _ ?_ ?_).trans ?_
        · exact flushMP_minus m
        · exact flushMP_plus m
        · exact congrArg (· ++ [row]) (timeline_flushMP m)
      · rw [pend_direct]; rfl
    · cases e
      exact PCO.passUpd ⟨hmi, (flushMP_source m).trans inv.source, fun _ _ _ _ _ h => by cases h⟩ (flushMP_n m)
        (timeline_flushMP m) hp0 rfl (flushMP_counter m)

/-- `x` is `m` up to fields that neither the timeline nor the invariant reads; the state may have
changed to one that is not a pending hunk header -/
structure SameP (m x : M) : Prop where
  tl : timeline x = timeline m
  st : x.st = m.st ∨ isHunkHeader x.st = false
  mode : x.modeInfo = m.modeInfo
  source : x.source = m.source
  n : x.n = m.n

theorem SameP.flushMP {m x : M} (h : SameP m x) : SameP m (flushMP x) :=
  ⟨(timeline_flushMP x).trans h.tl, by rw [flushMP_st]; exact h.st, (flushMP_modeInfo x).trans h.mode,
   (flushMP_source x).trans h.source, (flushMP_n x).trans h.n⟩

theorem SameP.pend_nil {m x : M} (h : SameP m x) (hp : pend m = []) : pend x = [] := by
  rcases h.st with h1 | h1
  · unfold pend; rw [h1]; exact hp
  · exact pend_nil_of_not_hh h1

theorem SameP.hhLine {m x : M} (h : SameP m x) (inv : PInv m) :
    ∀ dt hh line raw src, x.st = .hunkHeader dt hh line raw src → line ≠ [] := by
  intro dt hh line raw src hst
  rcases h.st with h1 | h1
  · exact inv.hhLine dt hh line raw src (h1 ▸ hst)
  · rw [hst] at h1; simp [isHunkHeader] at h1

/-- `should_write_generic_diff_header_header_line` in color-only mode: claims, one row -/
theorem shouldWriteGeneric_pco {cfg : Cfg} {m x : M} (l : L) (nf : CONormal cfg) (inv : PInv m)
    (hp0 : pend m = []) (hx : SameP m x) :
    (shouldWriteGeneric cfg x l).1 = true ∧ PCO l m (shouldWriteGeneric cfg x l).2 true := by
  have hco := nf.1
  unfold shouldWriteGeneric
  simp only [hco, if_true, true_and]
  obtain ⟨row, htl, hsrc, hmode⟩ := writeGeneric_co nf x l.text l.raw
  have hst : (writeGeneric cfg (emit (Machine.flushMP x)) l.text l.raw).st = x.st := by
    rw [writeGeneric_st, emit_st, flushMP_st]
  refine PCO.claim (row := row) ⟨hmode, ?_, ?_⟩ ?_ ?_ ?_ hp0 ?_
  · rw [writeGeneric_source, emit_source, flushMP_source]; exact hx.source.trans inv.source
  · intro dt hh line raw src h; exact hx.hhLine inv dt hh line raw src (hst ▸ h)
  · rw [writeGeneric_n, emit_n, flushMP_n]; exact hx.n
  · rw [htl, hx.tl]
  · rw [hsrc, hx.n]
  · unfold pend; rw [hst]; exact hx.pend_nil hp0

theorem fileOp_all_nonBody : Generated.Markers.fileOperationLine.all nonBody = true := by decide
theorem minusLine_tail_nonBody : (Generated.Markers.minusLine.drop 1).all nonBody = true := by decide

theorem handleFileOperation_pco {cfg : Cfg} {m m' : M} {l : L} {b : Bool} (nf : CONormal cfg) (inv : PInv m)
    (hp : pend m = [] ∨ (HunkBody l ∧ DashOK m l)) (e : handleFileOperation cfg m l = .ok (b, m')) : PCO l m m' b := by
  unfold handleFileOperation at e
  split at e
  · cases e; exact PCO.pass inv
  · rename_i ht
    have hp0 : pend m = [] := by
      rcases ppend_cases hp with h | ⟨_, h, _⟩
      · exact h
      · simp [startsWithAny_false_of_bodyHead h.2 fileOp_all_nonBody] at ht
    have hx : SameP m (fileOpUpdate m (parseDiffHeaderLine l.text (m.source = .gitDiff)).2
        ((repeatedFilePath m.diffLine m.diffLineG).getD [])) := by
      unfold fileOpUpdate; split <;> exact ⟨rfl, Or.inl rfl, rfl, rfl, rfl⟩
    obtain ⟨h1, h2⟩ := shouldWriteGeneric_pco l nf inv hp0 hx
    unfold fileOpFinish at e
    simp only [h1, if_true] at e
    obtain ⟨rfl, rfl⟩ := ok_pair e; exact h2

theorem handleMinusLine_pco {cfg : Cfg} {m m' : M} {l : L} {b : Bool} (nf : CONormal cfg) (inv : PInv m)
    (hp : pend m = [] ∨ (HunkBody l ∧ DashOK m l)) (e : handleMinusLine cfg m l = .ok (b, m')) : PCO l m m' b := by
  unfold handleMinusLine at e
  split at e
  · cases e; exact PCO.pass inv
  · rename_i ht
    have hp0 : pend m = [] := by
      rcases ppend_cases hp with h | ⟨_, h, hd⟩
      · exact h
      · exfalso
        have h2 := startsWithAny_false_of_bodyHead h.2 minusLine_tail_nonBody
        unfold minusLineTest at ht
        simp only [h2, Bool.or_false] at ht
        cases hsw : startsWith l.text (Generated.Markers.minusLine.getD 0 [])
        · rw [hsw] at ht; simp at ht
        · rw [hd hsw] at ht; simp at ht
    simp only at e
    have hsrc : (m.source = Source.diffUnified) = True := by simp [inv.source]
    simp only [hsrc, if_true] at e
    have hx : SameP m (flushMP { m with minusFile := (parseDiffHeaderLine l.text (m.source = .gitDiff)).1,
                                        minusEvent := (parseDiffHeaderLine l.text (m.source = .gitDiff)).2,
                                        st := .diffHeader .unified, handledPair := none }) :=
      SameP.flushMP ⟨rfl, Or.inr rfl, rfl, rfl, rfl⟩
    obtain ⟨h1, h2⟩ := shouldWriteGeneric_pco l nf inv hp0 hx
    obtain ⟨rfl, rfl⟩ := ok_pair e
    rw [h1]; exact h2

theorem handlePlusLine_pco {cfg : Cfg} {m m' : M} {l : L} {b : Bool} (nf : CONormal cfg) (inv : PInv m)
    (hp : pend m = [] ∨ (HunkBody l ∧ DashOK m l)) (e : handlePlusLine cfg m l = .ok (b, m')) : PCO l m m' b := by
  unfold handlePlusLine at e
  split at e
  · cases e; exact PCO.pass inv
  · rename_i ht
    have hp0 : pend m = [] := by
      rcases ppend_cases hp with h | ⟨h, _⟩
      · exact h
      · simp [plusLineTest, not_diffHeader_of_hh h] at ht
    simp only at e
    have hx : SameP m (flushMP { m with plusFile := (parseDiffHeaderLine l.text (m.source = .gitDiff)).1,
                                        plusEvent := (parseDiffHeaderLine l.text (m.source = .gitDiff)).2,
                                        currentPair := some (m.minusFile, (parseDiffHeaderLine l.text (m.source = .gitDiff)).1) }) :=
      SameP.flushMP ⟨rfl, Or.inl rfl, rfl, rfl, rfl⟩
    obtain ⟨h1, h2⟩ := shouldWriteGeneric_pco l nf inv hp0 hx
    unfold plusLineFinish at e
    simp only [h1, if_true] at e
    obtain ⟨rfl, rfl⟩ := ok_pair e; exact h2



theorem handleDiffStat_pco {cfg : Cfg} {m m' : M} {l : L} {b : Bool} (inv : PInv m)
    (e : handleDiffStat cfg m l = .ok (b, m')) : PCO l m m' b := by
  unfold handleDiffStat at e; cases e; exact PCO.pass inv

theorem handleDiffHeaderDiff_pco {cfg : Cfg} {m m' : M} {l : L} {b : Bool} (nf : CONormal cfg) (inv : PInv m)
    (hp : pend m = [] ∨ (HunkBody l ∧ DashOK m l)) (e : handleDiffHeaderDiff cfg m l = .ok (b, m')) : PCO l m m' b := by
  have hco := nf.1
  unfold handleDiffHeaderDiff at e
  split at e
  · cases e; exact PCO.pass inv
  · rename_i ht
    have hp0 : pend m = [] := by
      rcases ppend_cases hp with h | ⟨_, h, _⟩
      · exact h
      · simp [startsWith_false_of_bodyHead h.2 nonBody_diffLine] at ht
    have hmi : ({ flushMP m with st := diffLineState l } : M).modeInfo = [] := (flushMP_modeInfo m).trans inv.mode
    rw [pendingDiffName_co hco hmi] at e
    rw [shouldSkipLine_co _ hco] at e
    simp only [Bool.false_eq_true, if_false] at e
    cases e
    have hds : isHunkHeader (diffLineState l) = false := by unfold diffLineState; split <;> rfl
    unfold emitLineUnchanged
    refine PCO.claim (row := { kind := .raw, text := l.raw, src := (diffLineFields { flushMP m with st := diffLineState l } l).n })
      ⟨?_, ?_, ?_⟩ ?_ ?_ ?_ hp0 ?_
    · rw [direct_modeInfo, emit_modeInfo, flushMP_modeInfo]; exact hmi
    · rw [direct_source, emit_source, flushMP_source]; exact (flushMP_source m).trans inv.source
    · intro dt hh line raw src h
      rw [direct_st, emit_st, flushMP_st] at h
      have : isHunkHeader (diffLineFields { flushMP m with st := diffLineState l } l).st = false := hds
      rw [h] at this; simp [isHunkHeader] at this
    · rw [direct_n, emit_n, flushMP_n]; exact flushMP_n m
    · rw [timeline_direct_flushed]
      exact congrArg (· ++ _) (timeline_flushMP m)
    · exact flushMP_n m
    · rw [pend_direct, pend_emit, pend_flushMP]
      exact pend_nil_of_not_hh hds

theorem handleHunkHeader_pco {cfg : Cfg} {m m' : M} {l : L} {b : Bool} (inv : PInv m)
    (hp : pend m = [] ∨ (HunkBody l ∧ DashOK m l)) (e : handleHunkHeader cfg m l = .ok (b, m')) : PCO l m m' b := by
  unfold handleHunkHeader at e
  split at e
  · cases e; exact PCO.pass inv
  · rename_i ht
    have hsw : startsWith l.text Generated.Markers.hunkHeader = true := by
      cases h : startsWith l.text Generated.Markers.hunkHeader
      · simp [h] at ht
      · rfl
    have hp0 : pend m = [] := by
      rcases ppend_cases hp with h | ⟨_, h, _⟩
      · exact h
      · rw [startsWith_false_of_bodyHead h.2 nonBody_hunkHeader] at hsw; cases hsw
    split at e
    · cases e; exact PCO.pass inv
    · cases e
      have hne : l.text ≠ [] := by
        intro h; rw [h] at hsw; simp [startsWith, Generated.Markers.hunkHeader, List.isPrefixOf] at hsw
      refine ⟨⟨inv.mode, inv.source, ?_⟩, rfl, fun _ => ?_, fun h => (by cases h), fun _ => Or.inr hsw⟩
      · intro dt hh line raw src h; cases h; exact hne
      · have : acct m = srcs m := by simp [acct, hp0]
        rw [this]; rfl

theorem handleModeLine_pco {cfg : Cfg} {m m' : M} {l : L} {b : Bool} (nf : CONormal cfg) (inv : PInv m)
    (hp : pend m = [] ∨ (HunkBody l ∧ DashOK m l)) (e : handleModeLine cfg m l = .ok (b, m')) : PCO l m m' b := by
  have hco := nf.1
  rcases ppend_cases hp with hp0 | ⟨_, hb, _⟩
  · unfold handleModeLine at e
    simp only [hco, not_true_eq_false, and_false, false_and, if_false] at e
    split at e
    · cases e
      exact PCO.passUpd ⟨inv.mode, inv.source, fun _ _ _ _ _ h => by cases h⟩ rfl rfl hp0 rfl rfl
    · split at e
      · cases e
        exact PCO.passUpd ⟨inv.mode, inv.source, fun _ _ _ _ _ h => by cases h⟩ rfl rfl hp0 rfl rfl
      · cases e; exact PCO.pass inv
  · unfold handleModeLine at e
    rw [stripPrefix_none_of_bodyHead hb.2 nonBody_oldMode, stripPrefix_none_of_bodyHead hb.2 nonBody_newMode] at e
    cases e; exact PCO.pass inv

theorem handleAdditionalCases_pco {cfg : Cfg} {m m' : M} {l : L} {b : Bool} {to : State} (nf : CONormal cfg)
    (inv : PInv m) (hp0 : pend m = []) (hto : isHunkHeader to = false)
    (e : handleAdditionalCases cfg m l to = .ok (b, m')) : PCO l m m' b := by
  unfold handleAdditionalCases at e
  split at e
  · cases e
    obtain ⟨row, htl, hsrc, hmode⟩ := writeGeneric_co nf { m with st := to } l.text l.raw
    have hfl : ({ flushMP m with st := to } : M) = flushMP { m with st := to } := by
      unfold flushMP; split <;> rfl
    rw [hfl]
    refine PCO.claim (row := row) ⟨hmode, ?_, ?_⟩ ?_ htl hsrc hp0 ?_
    · rw [writeGeneric_source, emit_source, flushMP_source]; exact inv.source
    · intro dt hh line raw src h
      rw [writeGeneric_st, emit_st, flushMP_st] at h
      have : isHunkHeader to = true := by rw [show to = _ from h]; rfl
      rw [hto] at this; cases this
    · rw [writeGeneric_n, emit_n, flushMP_n]
    · rw [pend_writeGeneric, pend_emit, pend_flushMP]; exact pend_nil_of_not_hh hto
  · cases e
    exact PCO.passUpd ⟨(flushMP_modeInfo m).trans inv.mode, (flushMP_source m).trans inv.source,
        fun dt hh line raw src h => by
          have : isHunkHeader to = true := by rw [show to = _ from h]; rfl
          rw [hto] at this; cases this⟩
      (flushMP_n m) (timeline_flushMP m) hp0 (pend_nil_of_not_hh hto) (flushMP_counter m)

theorem nonBody_onlyIn : nonBody Generated.Markers.onlyIn = true := by decide

theorem handleMisc_pco {cfg : Cfg} {m m' : M} {l : L} {b : Bool} (nf : CONormal cfg) (inv : PInv m)
    (hp : pend m = [] ∨ (HunkBody l ∧ DashOK m l)) (e : handleMisc cfg m l = .ok (b, m')) : PCO l m m' b := by
  have hco := nf.1
  unfold handleMisc at e
  simp only [hco, not_true_eq_false, false_and, if_false] at e
  split at e
  · cases e; exact PCO.pass inv
  · rename_i ht
    have hp0 : pend m = [] := by
      rcases ppend_cases hp with h | ⟨_, h, _⟩
      · exact h
      · simp [startsWith_false_of_bodyHead h.2 nonBody_binaryFiles,
          startsWith_false_of_bodyHead h.2 nonBody_onlyIn] at ht
    refine handleAdditionalCases_pco nf inv hp0 ?_ e
    split
    · rename_i hd
      cases hs : m.st <;> simp_all [isDiffHeader, isHunkHeader]
    · rfl

theorem handleSubmoduleLog_pco {cfg : Cfg} {m m' : M} {l : L} {b : Bool} (nf : CONormal cfg) (inv : PInv m)
    (hp : pend m = [] ∨ (HunkBody l ∧ DashOK m l)) (e : handleSubmoduleLog cfg m l = .ok (b, m')) : PCO l m m' b := by
  unfold handleSubmoduleLog at e
  split at e
  · cases e; exact PCO.pass inv
  · rename_i ht
    have hp0 : pend m = [] := by
      rcases ppend_cases hp with h | ⟨_, h, _⟩
      · exact h
      · simp [startsWith_false_of_bodyHead h.2 nonBody_submoduleLog] at ht
    rw [pendingDiffName_co nf.1 ((flushMP_modeInfo m).trans inv.mode), handleAdditionalCases_flushMP] at e
    exact handleAdditionalCases_pco nf inv hp0 rfl e

theorem handleSubmoduleShort_pco {cfg : Cfg} {m m' : M} {l : L} {b : Bool} (nf : CONormal cfg) (inv : PInv m)
    (e : handleSubmoduleShort cfg m l = .ok (b, m')) : PCO l m m' b := by
  unfold handleSubmoduleShort at e
  simp only [nf.1, Bool.or_true, if_true] at e
  cases e; exact PCO.pass inv

theorem handleMergeConflict_pco {cfg : Cfg} {m m' : M} {l : L} {b : Bool} (nf : CONormal cfg) (inv : PInv m)
    (e : handleMergeConflict cfg m l = .ok (b, m')) : PCO l m m' b := by
  unfold handleMergeConflict at e
  simp only [nf.1, true_or, if_true] at e
  cases e; exact PCO.pass inv

theorem handleGitShowFile_pco {cfg : Cfg} {m m' : M} {l : L} {b : Bool} (inv : PInv m)
    (e : handleGitShowFile cfg m l = .ok (b, m')) : PCO l m m' b := by
  unfold handleGitShowFile at e
  cases e
  exact ⟨⟨inv.mode, inv.source, inv.hhLine⟩, rfl, fun h => (by cases h),
    fun _ => ⟨by simp [acct, srcs, timeline_emit, pend_emit], pend_emit m, rfl⟩, fun h => (by cases h)⟩

theorem handleShouldSkip_pco {cfg : Cfg} {m m' : M} {l : L} {b : Bool} (nf : CONormal cfg) (inv : PInv m)
    (e : handleShouldSkip cfg m l = .ok (b, m')) : PCO l m m' b := by
  unfold handleShouldSkip at e
  rw [shouldSkipLine_co _ nf.1] at e
  cases e; exact PCO.pass inv

theorem handleEmitUnchanged_pco {cfg : Cfg} {m m' : M} {l : L} {b : Bool} (inv : PInv m) (hp0 : pend m = [])
    (e : handleEmitUnchanged cfg m l = .ok (b, m')) : PCO l m m' b := by
  unfold handleEmitUnchanged at e
  cases e
  unfold emitLineUnchanged
  refine PCO.claim (row := { kind := .raw, text := l.raw, src := m.n }) ⟨?_, ?_, ?_⟩ ?_ ?_ rfl hp0 ?_
  · rw [direct_modeInfo, emit_modeInfo, flushMP_modeInfo]; exact inv.mode
  · rw [direct_source, emit_source, flushMP_source]; exact inv.source
  · intro dt hh line raw src h
    rw [direct_st, emit_st, flushMP_st] at h
    exact inv.hhLine dt hh line raw src h
  · rw [direct_n, emit_n, flushMP_n]
  · exact timeline_direct_flushed m _
  · rw [pend_direct, pend_emit, pend_flushMP]; exact hp0

theorem handleBlame_pco {cfg : Cfg} {m m' : M} {l : L} {b : Bool} (inv : PInv m) (g : Good m)
    (e : handleBlame cfg m l = .ok (b, m')) : PCO l m m' b := by
  unfold handleBlame at e
  simp only at e
  split at e
  · rename_i hc
    cases e
    have hq : m.minus = [] ∧ m.plus = [] := g.quiet (by rcases hc.1 with h1 | h1 <;> (rw [h1]; rfl))
    have hp0 : pend m = [] := pend_nil_of_quiet (by rcases hc.1 with h | h <;> simp [h])
    refine PCO.claim (row := { kind := .blame, text := l.text, src := m.n })
      ⟨?_, ?_, fun _ _ _ _ _ h => by cases h⟩ ?_ ?_ rfl hp0 rfl
    · exact (direct_modeInfo _ _).trans inv.mode
    · exact (direct_source _ _).trans inv.source
    · exact direct_n _ _
    · exact timeline_direct_emit m _ hq.1 hq.2
  · cases e
    exact ⟨⟨inv.mode, inv.source, inv.hhLine⟩, rfl, fun h => (by cases h),
      fun _ => ⟨by simp [acct, srcs, timeline_emit, pend_emit], pend_emit m, rfl⟩, fun h => (by cases h)⟩

theorem handleGrep_pco {cfg : Cfg} {m m' : M} {l : L} {b : Bool} (inv : PInv m) (g : Good m) (hg : l.grep ≠ 2)
    (e : handleGrep cfg m l = .ok (b, m')) : PCO l m m' b := by
  unfold handleGrep at e
  simp only at e
  split at e
  · rename_i hc
    have hq : m.minus = [] ∧ m.plus = [] := g.quiet (by rcases hc.1 with h1 | h1 <;> (rw [h1]; rfl))
    have hp0 : pend m = [] := pend_nil_of_quiet (by rcases hc.1 with h | h <;> simp [h])
    cases e
    refine PCO.claim (row := { kind := .grep, text := l.text, src := m.n })
      ⟨?_, ?_, fun _ _ _ _ _ h => by cases h⟩ ?_ ?_ rfl hp0 rfl
    · exact (direct_modeInfo _ _).trans inv.mode
    · exact (direct_source _ _).trans inv.source
    · exact direct_n _ _
    · exact timeline_direct_emit m _ hq.1 hq.2
  · cases e
    exact ⟨⟨inv.mode, inv.source, inv.hhLine⟩, rfl, fun h => (by cases h),
      fun _ => ⟨by simp [acct, srcs, timeline_emit, pend_emit], pend_emit m, rfl⟩, fun h => (by cases h)⟩

theorem hunkLinePre_pco {cfg : Cfg} {m m2 : M} (nf : CONormal cfg) (inv : PInv m)
    (e : hunkLinePre cfg m = .ok m2) :
    srcs m2 = srcs m ++ pend m ∧ m2.st = m.st ∧ m2.modeInfo = m.modeInfo ∧ m2.source = m.source ∧ m2.n = m.n := by
  unfold hunkLinePre at e
  simp only at e
  have hx : Same m (if m.minus.length > cfg.bufSize ∨ m.plus.length > cfg.bufSize then flushMP m else m) := by
    split
    · exact (Same.refl m).flushMP
    · exact Same.refl m
  generalize (if m.minus.length > cfg.bufSize ∨ m.plus.length > cfg.bufSize then flushMP m else m) = x at e hx
  split at e
  · rename_i dt hh line raw src hst
    unfold emitHunkHeader at e
    split at e
    · cases e
    · rename_i rows hr
      cases e
      have hline : line ≠ [] := inv.hhLine dt hh line raw src (hx.st ▸ hst)
      have hsrc := hunkHeaderRows_co nf hline hr
      have hp : pend m = [src] := by unfold pend; rw [← hx.st, hst]
      refine ⟨?_, ?_, ?_, ?_, ?_⟩
      · rw [srcs_of_tl (timeline_direct_flushed x rows), hsrc, hp]
        simp [srcs, hx.tl]
      · rw [direct_st, emit_st, flushMP_st]; exact hx.st
      · rw [direct_modeInfo, emit_modeInfo, flushMP_modeInfo]; exact hx.mode
      · rw [direct_source, emit_source, flushMP_source]; exact hx.source
      · rw [direct_n, emit_n, flushMP_n]; exact hx.n
  · rename_i hnot
    cases e
    have hp : pend m = [] := by
      unfold pend
      rw [← hx.st]
      split
      · rename_i dt hh line raw src hst; exact absurd hst (hnot dt hh line raw src)
      · rfl
    exact ⟨by simp [srcs, hx.tl, hp], hx.st, hx.mode, hx.source, hx.n⟩

theorem handleHunkLine_pco {cfg : Cfg} {m m' : M} {l : L} {b : Bool} (nf : CONormal cfg) (inv : PInv m)
    (g : Good m) (e : handleHunkLine cfg m l = .ok (b, m')) : PCO l m m' b := by
  have e0 := e
  unfold handleHunkLine at e
  split at e
  · cases e; exact PCO.pass inv
  · rename_i hs
    split at e
    · cases e
    · rename_i m2 e2
      split at e
      · cases e
      · rename_i m3 e3
        cases e
        obtain ⟨hsrcs2, hst2, hmode2, hsource2, hn2⟩ := hunkLinePre_pco nf inv e2
        obtain ⟨hmode3, hsource3, hst3⟩ := hunkLinePush_co e3
        rcases handleHunkLine_spec e0 g with ⟨hb, _, _⟩ | ⟨_, hs', spec⟩
        · cases hb
        · obtain ⟨r2, _, hhdr, _, _⟩ := hunkLinePre_spec e2 g
          have hplus : isHunkPlus m2.st = false → m2.plus = [] := by
            intro hnp
            rw [hst2] at hnp
            rcases isHunkState_cases hs' with h | ⟨dt, h⟩ | ⟨dt, h⟩ | ⟨dt, h⟩
            · exact (hhdr h).2
            · have := (g.quiet (by rw [h]; rfl)).2
              rcases r2.shrink.2 with s | s <;> simp [s, this]
            · have := g.noPlus (by rw [h]; rfl)
              rcases r2.shrink.2 with s | s <;> simp [s, this]
            · rw [h] at hnp; simp [isHunkPlus] at hnp
          obtain ⟨_, ⟨r, htl3, hrsrc⟩, _, hn3, _, _, _⟩ := hunkLinePush_spec e3 r2.order hplus
          have hp3 : pend (emit m3) = [] := by rw [pend_emit]; exact pend_nil_of_not_hh hst3
          refine ⟨⟨hmode3.trans (hmode2.trans inv.mode), hsource3.trans (hsource2.trans inv.source), ?_⟩,
            hn3.trans hn2, fun _ => ?_, fun h => (by cases h), fun _ => Or.inl hp3⟩
          · intro dt hh line raw src h
            rw [emit_st] at h; rw [h] at hst3; simp [isHunkHeader] at hst3
          · simp only [acct, hp3, List.append_nil]
            have : srcs (emit m3) = srcs m2 ++ [r.src] := by
              simp [srcs, timeline_emit, htl3]
            rw [this, hsrcs2, hrsrc, hn2]

-- the chain -------------------------------------------------------------------

theorem PCO.trans_pass {l : L} {m m1 m' : M} {b : Bool} (h1 : PCO l m m1 false) (h2 : PCO l m1 m' b) : PCO l m m' b :=
  ⟨h2.inv, h2.n.trans h1.n,
   fun hb => by rw [h2.claimed hb, (h1.passed rfl).1, h1.n],
   fun hb => ⟨((h2.passed hb).1).trans (h1.passed rfl).1, ((h2.passed hb).2.1).trans (h1.passed rfl).2.1,
     ((h2.passed hb).2.2).trans (h1.passed rfl).2.2⟩,
   h2.fresh⟩

theorem handlerOf_pco {name : String} {hd : Handler} (hn : handlerOf name = some hd)
    {cfg : Cfg} {m m' : M} {l : L} {b : Bool} (nf : CONormal cfg) (inv : PInv m) (g : Good m) (hg : l.grep ≠ 2)
    (hp : pend m = [] ∨ (HunkBody l ∧ DashOK m l)) (hne : name = "emit_line_unchanged" → pend m = [])
    (e : hd cfg m l = .ok (b, m')) : PCO l m m' b := by
  unfold handlerOf at hn
  split at hn <;> first
    | (cases hn
       first
         | exact handleCommitMeta_pco nf inv hp e | exact handleDiffStat_pco inv e
         | exact handleDiffHeaderDiff_pco nf inv hp e | exact handleFileOperation_pco nf inv hp e
         | exact handleMinusLine_pco nf inv hp e | exact handlePlusLine_pco nf inv hp e
         | exact handleHunkHeader_pco inv hp e | exact handleModeLine_pco nf inv hp e
         | exact handleMisc_pco nf inv hp e | exact handleSubmoduleLog_pco nf inv hp e
         | exact handleSubmoduleShort_pco nf inv e | exact handleMergeConflict_pco nf inv e
         | exact handleHunkLine_pco nf inv g e | exact handleGitShowFile_pco inv e
         | exact handleBlame_pco inv g e | exact handleGrep_pco inv g hg e
         | exact handleShouldSkip_pco nf inv e | exact handleEmitUnchanged_pco inv (hne rfl) e)
    | cases hn

theorem DashOK.of_counter {m m1 : M} {l : L} (h : DashOK m l) (hc : m1.counter = m.counter) : DashOK m1 l := by
  unfold DashOK at *; rw [hc]; exact h

theorem chain_pco {cfg : Cfg} {l : L} (nf : CONormal cfg) (hg : l.grep ≠ 2) : ∀ (names : List String) {m m' : M},
    chain cfg l names m = .ok m' → PInv m → Good m →
    (pend m = [] ∨ (HunkBody l ∧ DashOK m l ∧ safeOrder names = true)) →
    PCO l m m' true ∨ (PCO l m m' false ∧ "emit_line_unchanged" ∉ names)
  | [], m, m', e, inv, g, hp => by
    simp only [chain] at e; cases e; exact Or.inr ⟨PCO.pass inv, by simp⟩
  | name :: rest, m, m', e, inv, g, hp => by
    simp only [chain] at e
    split at e
    · cases e
    · rename_i hd hn
      have hp1 : pend m = [] ∨ (HunkBody l ∧ DashOK m l) := hp.imp id (fun h => ⟨h.1, h.2.1⟩)
      have hne : name = "emit_line_unchanged" → pend m = [] := by
        intro hname
        rcases hp with h | ⟨_, _, h⟩
        · exact h
        · subst hname; simp [safeOrder] at h
      split at e
      · cases e
      · rename_i m1 e1
        cases e; exact Or.inl (handlerOf_pco hn nf inv g hg hp1 hne e1)
      · rename_i m1 e1
        have c1 := handlerOf_pco hn nf inv g hg hp1 hne e1
        have g1 := (handlerOf_step hn e1 g).good
        have hp' : pend m1 = [] ∨ (HunkBody l ∧ DashOK m1 l ∧ safeOrder rest = true) := by
          rcases hp with h | ⟨hb, hd', h⟩
          · exact Or.inl ((c1.passed rfl).2.1.trans h)
          · by_cases hpm : pend m = []
            · exact Or.inl ((c1.passed rfl).2.1.trans hpm)
            · refine Or.inr ⟨hb, hd'.of_counter (c1.passed rfl).2.2, ?_⟩
              unfold safeOrder at h
              split at h
              · rename_i hname
                exfalso
                subst hname
                simp only [handlerOf, Option.some.injEq] at hn
                subst hn
                rcases handleHunkLine_spec e1 g with ⟨_, _, hs⟩ | ⟨hb', _, _⟩
                · rw [hunkState_of_hh (hh_of_pend hpm)] at hs; cases hs
                · cases hb'
              · split at h
                · cases h
                · exact h
        rcases chain_pco nf hg rest e c1.inv g1 hp' with h | ⟨h, hnot⟩
        · exact Or.inl (c1.trans_pass h)
        · refine Or.inr ⟨c1.trans_pass h, ?_⟩
          intro hmem
          rcases List.mem_cons.mp hmem with hname | hmem'
          · rw [← hname] at hn
            simp only [handlerOf, Option.some.injEq] at hn
            subst hn
            unfold handleEmitUnchanged at e1
            cases e1
          · exact hnot hmem'

/-- one input line in color-only mode, plain `diff -u` source: exactly the current line index is
appended to the accounted lines -/
theorem step_pco {cfg : Cfg} {m m' : M} {l : L} (nf : CONormal cfg) (inv : PInv m) (g : Good m)
    (hg : l.grep ≠ 2) (hp : pend m = [] ∨ (HunkBody l ∧ DashOK m l)) (e : step cfg m l = .ok m') :
    PInv m' ∧ Good m' ∧ acct m' = acct m ++ [m.n] ∧ m'.n = m.n + 1 ∧
      (pend m' = [] ∨ startsWith l.text Generated.Markers.hunkHeader = true) := by
  have g' := (step_spec e g).1
  unfold step at e
  have hinit : stepInit m l = m := by unfold stepInit; simp [inv.source]
  rw [hinit] at e
  split at e
  · cases e
  · rename_i m2 e2
    cases e
    rcases chain_pco nf hg _ e2 inv g (hp.imp id (fun h => ⟨h.1, h.2, safeOrder_generated⟩)) with c | ⟨_, hnot⟩
    · refine ⟨⟨c.inv.mode, c.inv.source, c.inv.hhLine⟩, g', ?_, ?_, c.fresh rfl⟩
      · exact c.claimed rfl
      · show m2.n + 1 = m.n + 1
        rw [c.n]
    · exact absurd catchAll_generated hnot



-- row texts ---------------------------------------------------------------------

theorem handleCommitMeta_tsp {cfg : Cfg} {m m' : M} {l : L} {b : Bool} (ps : Preset cfg) (hmode : m.modeInfo = [])
    (e : handleCommitMeta cfg m l = .ok (b, m')) : TS l m m' := by
  have hco := ps.nf.1
  unfold handleCommitMeta at e
  split at e
  · cases e; exact TS.refl l m
  · have hmi : (flushMP m).modeInfo = [] := by simp [hmode]
    rw [pendingDiffName_co hco hmi] at e
    have hsh : shouldHandle cfg ({ flushMP m with st := State.commitMeta } : M) = false :=
      shouldHandle_raw (st := cfg.commitStyle) rfl ps.commitRaw ps.nf.2.1
    simp only [hsh, Bool.false_eq_true, if_false] at e
    cases e
    exact TS.quiet (flushMP_n m) (timeline_flushMP m) (Or.inr quietSt_commitMeta)

theorem handleDiffHeaderDiff_tsp {cfg : Cfg} {m m' : M} {l : L} {b : Bool} (ps : Preset cfg) (hmode : m.modeInfo = [])
    (hnc : NotCombined l) (e : handleDiffHeaderDiff cfg m l = .ok (b, m')) : TS l m m' := by
  have hco := ps.nf.1
  unfold handleDiffHeaderDiff at e
  split at e
  · cases e; exact TS.refl l m
  · have hmi : ({ flushMP m with st := diffLineState l } : M).modeInfo = [] := (flushMP_modeInfo m).trans hmode
    rw [pendingDiffName_co hco hmi, shouldSkipLine_co _ hco] at e
    simp only [Bool.false_eq_true, if_false] at e
    cases e
    unfold emitLineUnchanged
    refine TS.row (row := { kind := .raw, text := l.raw, src := (diffLineFields { flushMP m with st := diffLineState l } l).n })
      ?_ ?_ (flushMP_n m) (Or.inl rfl) (Or.inr ?_)
    · rw [direct_n, emit_n, flushMP_n]; exact flushMP_n m
    · rw [timeline_direct_flushed]
      exact congrArg (· ++ _) (timeline_flushMP m)
    · rw [direct_st, emit_st, flushMP_st]
      show isHunkHeader (diffLineState l) = false ∧ Unif (diffLineState l)
      rw [diffLineState_unif hnc]; exact ⟨rfl, rfl⟩

/-- a `--- ` / `rename from` / `copy from` line of a plain diff: one raw row; the state becomes
`DiffHeader(Unified)` -/
theorem handleMinusLine_tsp {cfg : Cfg} {m m' : M} {l : L} {b : Bool} (ps : Preset cfg)
    (hsrc : m.source = .diffUnified) (e : handleMinusLine cfg m l = .ok (b, m')) : TS l m m' := by
  have hco := ps.nf.1
  unfold handleMinusLine at e
  split at e
  · cases e; exact TS.refl l m
  · simp only at e
    have hs : (m.source = Source.diffUnified) = True := by simp [hsrc]
    try simp only [hs, if_true] at e
    obtain ⟨rfl, rfl⟩ := ok_pair e
    unfold shouldWriteGeneric
    simp only [hco, if_true]
    refine TS.row (row := { kind := .raw, text := l.raw, src := m.n }) ?_ ?_ rfl (Or.inl rfl) (Or.inr ?_)
    · simp only [writeGeneric_n, emit_n, flushMP_n]
    · rw [writeGeneric_ps ps _ l.text l.raw]
      simp only [flushMP_n]
      exact congrArg (· ++ _) (timeline_flushMP _)
    · simp only [writeGeneric_st, emit_st, flushMP_st]; exact quietSt_diffHeader

theorem handleMisc_tsp {cfg : Cfg} {m m' : M} {l : L} {b : Bool} (ps : Preset cfg)
    (hu : Unif m.st) (e : handleMisc cfg m l = .ok (b, m')) : TS l m m' := by
  have hco := ps.nf.1
  unfold handleMisc at e
  simp only [hco, not_true_eq_false, false_and, if_false] at e
  split at e
  · cases e; exact TS.refl l m
  · refine handleAdditionalCases_ts ps ?_ ?_ e
    · split
      · rename_i hd; cases hs : m.st <;> simp_all [isDiffHeader, getStyle]
      · rfl
    · split
      · rename_i hd
        cases hs : m.st <;> simp_all [isDiffHeader, isHunkHeader]
      · exact quietSt_diffHeader

theorem handlerOf_tsp {name : String} {hd : Handler} (hn : handlerOf name = some hd)
    {cfg : Cfg} {m m' : M} {l : L} {b : Bool} (ps : Preset cfg) (inv : PInv m) (g : Good m) (hu : Unif m.st)
    (hg : l.grep ≠ 2) (hnc : NotCombined l) (e : hd cfg m l = .ok (b, m')) : TS l m m' := by
  unfold handlerOf at hn
  split at hn <;> first
    | (cases hn
       first
         | exact handleCommitMeta_tsp ps inv.mode e | exact handleDiffStat_ts e
         | exact handleDiffHeaderDiff_tsp ps inv.mode hnc e | exact handleFileOperation_ts ps e
         | exact handleMinusLine_tsp ps inv.source e | exact handlePlusLine_ts ps e
         | exact handleHunkHeader_ts e | exact handleModeLine_ts ps e
         | exact handleMisc_tsp ps hu e | exact handleSubmoduleLog_ts ps inv.mode e
         | exact handleSubmoduleShort_ts ps e | exact handleMergeConflict_ts ps e
         | exact handleHunkLine_ts ps g hu e | exact handleGitShowFile_ts e
         | exact handleBlame_ts g e | exact handleGrep_ts g hg e
         | exact handleShouldSkip_ts e | exact handleEmitUnchanged_ts e)
    | cases hn

theorem chain_tsp {cfg : Cfg} {l : L} (ps : Preset cfg) (hg : l.grep ≠ 2) (hnc : NotCombined l) :
    ∀ (names : List String) {m m' : M}, chain cfg l names m = .ok m' → PInv m → Good m → Unif m.st →
    (pend m = [] ∨ (HunkBody l ∧ DashOK m l ∧ safeOrder names = true)) → TS l m m'
  | [], m, m', e, _, _, _, _ => by simp only [chain] at e; cases e; exact TS.refl l m
  | name :: rest, m, m', e, inv, g, hu, hp => by
    simp only [chain] at e
    split at e
    · cases e
    · rename_i hd hn
      have hp1 : pend m = [] ∨ (HunkBody l ∧ DashOK m l) := hp.imp id (fun h => ⟨h.1, h.2.1⟩)
      have hne : name = "emit_line_unchanged" → pend m = [] := by
        intro hname
        rcases hp with h | ⟨_, _, h⟩
        · exact h
        · subst hname; simp [safeOrder] at h
      split at e
      · cases e
      · rename_i m1 e1
        cases e; exact handlerOf_tsp hn ps inv g hu hg hnc e1
      · rename_i m1 e1
        have t1 := handlerOf_tsp hn ps inv g hu hg hnc e1
        have c1 := handlerOf_pco hn ps.nf inv g hg hp1 hne e1
        have g1 := (handlerOf_step hn e1 g).good
        have hp' : pend m1 = [] ∨ (HunkBody l ∧ DashOK m1 l ∧ safeOrder rest = true) := by
          rcases hp with h | ⟨hb, hd', h⟩
          · exact Or.inl ((c1.passed rfl).2.1.trans h)
          · by_cases hpm : pend m = []
            · exact Or.inl ((c1.passed rfl).2.1.trans hpm)
            · refine Or.inr ⟨hb, hd'.of_counter (c1.passed rfl).2.2, ?_⟩
              unfold safeOrder at h
              split at h
              · rename_i hname
                exfalso
                subst hname
                simp only [handlerOf, Option.some.injEq] at hn
                subst hn
                rcases handleHunkLine_spec e1 g with ⟨_, _, hs⟩ | ⟨hb', _, _⟩
                · rw [hunkState_of_hh (hh_of_pend hpm)] at hs; cases hs
                · cases hb'
              · split at h
                · cases h
                · exact h
        exact t1.trans (chain_tsp ps hg hnc rest e c1.inv g1 (t1.unif hu) hp')

theorem step_tsp {cfg : Cfg} {m m' : M} {l : L} (ps : Preset cfg) (inv : PInv m) (g : Good m) (hu : Unif m.st)
    (hg : l.grep ≠ 2) (hnc : NotCombined l) (hp : pend m = [] ∨ (HunkBody l ∧ DashOK m l))
    (e : step cfg m l = .ok m') :
    (∃ new, timeline m' = timeline m ++ new ∧ ∀ r ∈ new, NewOK l m r) ∧ Unif m'.st ∧
      (∀ dt hh line raw src, m'.st = .hunkHeader dt hh line raw src →
        m.st = .hunkHeader dt hh line raw src ∨ (raw = l.raw ∧ src = m.n)) := by
  unfold step at e
  have hinit : stepInit m l = m := by unfold stepInit; simp [inv.source]
  rw [hinit] at e
  split at e
  · cases e
  · rename_i m2 e2
    cases e
    have t := chain_tsp ps hg hnc _ e2 inv g hu (hp.imp id (fun h => ⟨h.1, h.2, safeOrder_generated⟩))
    exact ⟨t.rows, t.unif hu, t.pendRaw⟩



-- the minus-line counter -----------------------------------------------------------

/-- the line looks like a removed or an unchanged line: these are the lines `handle_hunk_line` counts -/
def countedHead (l : L) : Bool := l.text.head? == some '-' || l.text.head? == some ' '

theorem hunkLinePre_counter {cfg : Cfg} {m m2 : M} (e : hunkLinePre cfg m = .ok m2) : m2.counter = m.counter := by
  unfold hunkLinePre at e
  simp only at e
  have hx : (if m.minus.length > cfg.bufSize ∨ m.plus.length > cfg.bufSize then flushMP m else m).counter = m.counter := by
    split <;> simp
  generalize (if m.minus.length > cfg.bufSize ∨ m.plus.length > cfg.bufSize then flushMP m else m) = x at e hx
  split at e
  · unfold emitHunkHeader at e
    split at e
    · cases e
    · cases e; simp [hx]
  · cases e; exact hx

theorem hunkLinePre_st {cfg : Cfg} {m m2 : M} (e : hunkLinePre cfg m = .ok m2) : m2.st = m.st := by
  unfold hunkLinePre at e
  simp only at e
  have hx : (if m.minus.length > cfg.bufSize ∨ m.plus.length > cfg.bufSize then flushMP m else m).st = m.st := by
    split <;> simp
  generalize (if m.minus.length > cfg.bufSize ∨ m.plus.length > cfg.bufSize then flushMP m else m) = x at e hx
  split at e
  · unfold emitHunkHeader at e
    split at e
    · cases e
    · cases e; simp [hx]
  · cases e; exact hx

theorem classifyUnified_counted {l : L} :
    (countedHead l = true → ∃ k, classifyUnified l = some (k, .unified) ∧ (k = .minus ∨ k = .zero)) ∧
    (countedHead l = false → classifyUnified l = none ∨ classifyUnified l = some (.plus, .unified)) := by
  unfold classifyUnified countedHead
  cases hh : l.text.head? with
  | none => simp
  | some c =>
    by_cases h1 : c = '-'
    · subst h1; simp
    · by_cases h2 : c = ' '
      · subst h2; simp
      · by_cases h3 : c = '+'
        · subst h3; simp
        · simp [h1, h2, h3]

/-- in a unified hunk state `handle_hunk_line` counts the line down exactly when it looks like a
removed or an unchanged line -/
theorem hunkLinePush_counter {cfg : Cfg} {m m' : M} {l : L} (hh : isHunkState m.st = true) (hu : Unif m.st)
    (e : hunkLinePush cfg m l = .ok m') :
    m'.counter = (if countedHead l then m.counter - 1 else m.counter) := by
  unfold hunkLinePush at e
  have hn : newLineState m.st l = .ok (classifyUnified l) := by
    unfold newLineState; rw [hunkDiffType_unif hh hu]
  rw [hn] at e
  cases hc : countedHead l
  · rcases classifyUnified_counted.2 hc with h | h
    · simp only [h] at e; cases e; simp
    · simp only [h, nParents] at e; cases e; simp
  · obtain ⟨k, h, hk⟩ := classifyUnified_counted.1 hc
    rcases hk with rfl | rfl
    · simp only [h, nParents] at e; cases e
      simp only [if_true]
      split <;> simp
    · simp only [h, nParents] at e; cases e; simp

theorem handleHunkLine_counter {cfg : Cfg} {m m' : M} {l : L} {b : Bool} (hu : Unif m.st)
    (e : handleHunkLine cfg m l = .ok (b, m')) :
    m'.counter = (if isHunkState m.st && countedHead l then m.counter - 1 else m.counter) := by
  unfold handleHunkLine at e
  split at e
  · rename_i hs
    cases e
    have : isHunkState m.st = false := by simpa using hs
    simp [this]
  · rename_i hs
    have hs' : isHunkState m.st = true := by simpa using hs
    split at e
    · cases e
    · rename_i m2 e2
      split at e
      · cases e
      · rename_i m3 e3
        cases e
        have h2 := hunkLinePre_counter e2
        have hst2 : m2.st = m.st := hunkLinePre_st e2
        have h3 := hunkLinePush_counter (by rw [hst2]; exact hs') (by rw [hst2]; exact hu) e3
        simp only [emit_counter, hs', Bool.true_and]
        rw [h3, h2]



theorem handleAdditionalCases_counter {cfg : Cfg} {m m' : M} {l : L} {b : Bool} {to : State}
    (e : handleAdditionalCases cfg m l to = .ok (b, m')) : m'.counter = m.counter ∧ m'.st = to := by
  unfold handleAdditionalCases at e
  split at e <;> (cases e; simp)

/-- every handler, color-only mode, plain diff: no conflict region is ever entered; a line that is
neither a hunk header nor looks like a removed / unchanged line leaves the minus-line counter alone -/
theorem handlerOf_aux {name : String} {hd : Handler} (hn : handlerOf name = some hd)
    {cfg : Cfg} {m m' : M} {l : L} {b : Bool} (hco : cfg.colorOnly = true) (inv : PInv m) (g : Good m)
    (e : hd cfg m l = .ok (b, m')) :
    (isMergeConflict m.st = false → isMergeConflict m'.st = false) ∧
    (isHH l = false → countedHead l = false → Unif m.st → m'.counter = m.counter) := by
  unfold handlerOf at hn
  split at hn <;> cases hn
  · -- commit meta
    unfold handleCommitMeta at e
    split at e
    · cases e; exact ⟨id, fun _ _ _ => rfl⟩
    · have hmi : (flushMP m).modeInfo = [] := by simp [inv.mode]
      rw [pendingDiffName_co hco hmi] at e
      split at e
      · split at e <;> (cases e; simp [isMergeConflict])
      · cases e; simp [isMergeConflict]
  · unfold handleDiffStat at e; cases e; exact ⟨id, fun _ _ _ => rfl⟩
  · -- diff line
    unfold handleDiffHeaderDiff at e
    split at e
    · cases e; exact ⟨id, fun _ _ _ => rfl⟩
    · have hmi : ({ flushMP m with st := diffLineState l } : M).modeInfo = [] := (flushMP_modeInfo m).trans inv.mode
      rw [pendingDiffName_co hco hmi, shouldSkipLine_co _ hco] at e
      simp only [Bool.false_eq_true, if_false] at e
      cases e
      refine ⟨fun _ => ?_, fun _ _ _ => ?_⟩
      · rw [emitLineUnchanged_st]
        show isMergeConflict (diffLineState l) = false
        unfold diffLineState; split <;> rfl
      · unfold emitLineUnchanged; simp [diffLineFields]
  · -- file operation
    unfold handleFileOperation at e
    split at e
    · cases e; exact ⟨id, fun _ _ _ => rfl⟩
    · unfold fileOpFinish at e
      simp only [shouldWriteGeneric_fst hco, if_true] at e
      obtain ⟨rfl, rfl⟩ := ok_pair e
      unfold shouldWriteGeneric
      simp only [hco, if_true, writeGeneric_st, emit_st, flushMP_st, writeGeneric_counter, emit_counter, flushMP_counter]
      unfold fileOpUpdate
      split <;> exact ⟨id, fun _ _ _ => rfl⟩
  · -- minus line
    unfold handleMinusLine at e
    split at e
    · cases e; exact ⟨id, fun _ _ _ => rfl⟩
    · simp only at e
      obtain ⟨rfl, rfl⟩ := ok_pair e
      unfold shouldWriteGeneric
      simp only [hco, if_true, writeGeneric_st, emit_st, flushMP_st, writeGeneric_counter, emit_counter, flushMP_counter]
      refine ⟨fun h => ?_, fun _ _ _ => trivial⟩
      split
      · rfl
      · exact h
  · -- plus line
    unfold handlePlusLine at e
    split at e
    · cases e; exact ⟨id, fun _ _ _ => rfl⟩
    · simp only at e
      unfold plusLineFinish at e
      simp only [shouldWriteGeneric_fst hco, if_true] at e
      obtain ⟨rfl, rfl⟩ := ok_pair e
      unfold shouldWriteGeneric
      simp only [hco, if_true, writeGeneric_st, emit_st, flushMP_st, writeGeneric_counter, emit_counter, flushMP_counter]
      exact ⟨id, fun _ _ _ => trivial⟩
  · -- hunk header
    unfold handleHunkHeader at e
    split at e
    · cases e; exact ⟨id, fun _ _ _ => rfl⟩
    · rename_i ht
      split at e
      · cases e; exact ⟨id, fun _ _ _ => rfl⟩
      · cases e
        refine ⟨fun _ => rfl, fun h _ _ => ?_⟩
        unfold isHH at h
        simp [h] at ht
  · -- mode line
    unfold handleModeLine at e
    simp only [hco, not_true_eq_false, and_false, false_and, if_false] at e
    split at e
    · cases e; exact ⟨fun _ => rfl, fun _ _ _ => rfl⟩
    · split at e
      · cases e; exact ⟨fun _ => rfl, fun _ _ _ => rfl⟩
      · cases e; exact ⟨id, fun _ _ _ => rfl⟩
  · -- misc
    unfold handleMisc at e
    simp only [hco, not_true_eq_false, false_and, if_false] at e
    split at e
    · cases e; exact ⟨id, fun _ _ _ => rfl⟩
    · obtain ⟨h1, h2⟩ := handleAdditionalCases_counter e
      refine ⟨fun h => ?_, fun _ _ _ => h1⟩
      rw [h2]
      split
      · exact h
      · rfl
  · -- submodule log
    unfold handleSubmoduleLog at e
    split at e
    · cases e; exact ⟨id, fun _ _ _ => rfl⟩
    · rw [pendingDiffName_co hco ((flushMP_modeInfo m).trans inv.mode), handleAdditionalCases_flushMP] at e
      obtain ⟨h1, h2⟩ := handleAdditionalCases_counter e
      exact ⟨fun _ => by rw [h2]; rfl, fun _ _ _ => h1⟩
  · unfold handleSubmoduleShort at e
    simp only [hco, Bool.or_true, if_true] at e
    cases e; exact ⟨id, fun _ _ _ => rfl⟩
  · unfold handleMergeConflict at e
    simp only [hco, true_or, if_true] at e
    cases e; exact ⟨id, fun _ _ _ => rfl⟩
  · -- hunk line
    refine ⟨fun h => ?_, fun _ hc hu => ?_⟩
    · rcases handleHunkLine_spec e g with ⟨_, rfl, _⟩ | ⟨_, _, spec⟩
      · exact h
      · have := spec.st
        cases hs : m'.st <;> simp_all [isHunkState, isMergeConflict]
    · rw [handleHunkLine_counter hu e, hc]; simp
  · unfold handleGitShowFile at e; cases e; exact ⟨id, fun _ _ _ => rfl⟩
  · unfold handleBlame at e
    simp only at e
    split at e <;> (cases e; first | exact ⟨id, fun _ _ _ => rfl⟩ | exact ⟨fun _ => rfl, fun _ _ _ => by simp⟩)
  · unfold handleGrep at e
    simp only at e
    split at e
    · split at e <;> (cases e; first | exact ⟨id, fun _ _ _ => rfl⟩ | exact ⟨fun _ => rfl, fun _ _ _ => by simp⟩)
    · cases e; exact ⟨id, fun _ _ _ => rfl⟩
  · unfold handleShouldSkip at e; cases e; exact ⟨id, fun _ _ _ => rfl⟩
  · unfold handleEmitUnchanged at e; cases e
    exact ⟨fun h => by rw [emitLineUnchanged_st]; exact h, fun _ _ _ => by unfold emitLineUnchanged; simp⟩



-- which handler claims a line of a plain diff --------------------------------------------

theorem handleSubmoduleShort_co_pass {cfg : Cfg} (hco : cfg.colorOnly = true) (m : M) (l : L) :
    handleSubmoduleShort cfg m l = .ok (false, m) := by
  unfold handleSubmoduleShort; simp [hco]

theorem handleMergeConflict_co_pass {cfg : Cfg} (hco : cfg.colorOnly = true) (m : M) (l : L) :
    handleMergeConflict cfg m l = .ok (false, m) := by
  unfold handleMergeConflict; simp [hco]

theorem headerLineTest_plain {m : M} (h : m.source = .diffUnified) : headerLineTest m = true := by
  unfold headerLineTest; simp [h]

theorem plusLine_all_nonBody_or_plus (l : L) (m : M) (h : isDiffHeader m.st = false) : plusLineTest m l = false := by
  unfold plusLineTest; simp [h]

/-- a line of a hunk body met in a hunk state of a plain diff (minus-line counter not expecting a
`--- ` header) is claimed by `handle_hunk_line` and by no handler before it -/
theorem plain_body_line_claimed {cfg : Cfg} (hco : cfg.colorOnly = true) (m : M) (l : L)
    (hst : isHunkState m.st = true) (hb : HunkBody l) (hd : DashOK m l) :
    chain cfg l Generated.handlerOrder m =
      (match handleHunkLine cfg m l with
       | .ok (_, m') => .ok m'
       | .error e => .error e) := by
  have hnd : isDiffHeader m.st = false := by
    cases hs : m.st <;> simp [hs, isHunkState, isDiffHeader] at hst ⊢
  have e1 := handleCommitMeta_not_mine cfg m l hb.1
  have e3 := handleDiffHeaderDiff_not_mine cfg m l (startsWith_false_of_bodyHead hb.2 nonBody_diffLine)
  have e4 := handleFileOperation_not_mine cfg m l
    (by simp [startsWithAny_false_of_bodyHead hb.2 fileOp_all_nonBody])
  have e5 := handleMinusLine_not_mine cfg m l (by
    unfold minusLineTest
    rw [startsWithAny_false_of_bodyHead hb.2 minusLine_tail_nonBody]
    cases hsw : startsWith l.text (Generated.Markers.minusLine.getD 0 [])
    · simp
    · rw [hd hsw]; simp)
  have e6 := handlePlusLine_not_mine cfg m l (by simp [plusLineTest, hnd])
  have e7 := handleHunkHeader_not_mine cfg m l (startsWith_false_of_bodyHead hb.2 nonBody_hunkHeader)
  have e8 := handleModeLine_not_mine cfg m l (startsWith_false_of_bodyHead hb.2 nonBody_oldMode)
    (startsWith_false_of_bodyHead hb.2 nonBody_newMode)
  have e9 := handleMisc_not_mine cfg m l (startsWith_false_of_bodyHead hb.2 nonBody_onlyIn)
    (startsWith_false_of_bodyHead hb.2 nonBody_binaryFiles)
  have e10 := handleSubmoduleLog_not_mine cfg m l (startsWith_false_of_bodyHead hb.2 nonBody_submoduleLog)
  have e11 := handleSubmoduleShort_co_pass hco m l
  have e12 := handleMergeConflict_co_pass hco m l
  simp only [Generated.handlerOrder, chain, handlerOf, e1, handleDiffStat, e3, e4, e5, e6, e7, e8, e9, e10, e11, e12]
  unfold handleHunkLine
  simp only [hst, Bool.not_true, Bool.false_eq_true, if_false]
  cases hunkLinePre cfg m with
  | error e => rfl
  | ok m2 =>
    simp only
    cases hunkLinePush cfg m2 l with
    | error e => rfl
    | ok m3 => rfl

def headNot (c : Char) : Str → Bool
  | d :: _ => d != c
  | [] => false

theorem startsWith_false_of_headNot {s p : Str} {c : Char} {rest : Str} (hs : s = c :: rest) (hp : headNot c p = true) :
    startsWith s p = false := by
  cases p with
  | nil => simp [headNot] at hp
  | cons d ps =>
    simp only [headNot, bne_iff_ne, ne_eq] at hp
    exact startsWith_false_of_head hs rfl (fun h => hp h.symm)

theorem startsWithAny_false_of_headNot {s : Str} {ps : List Str} {c : Char} {rest : Str} (hs : s = c :: rest)
    (hp : ps.all (headNot c) = true) : startsWithAny s ps = false := by
  unfold startsWithAny
  rw [List.any_eq_false]
  intro p hmem
  simp [startsWith_false_of_headNot hs (List.all_eq_true.mp hp p hmem)]

theorem isHH_text {l : L} (h : isHH l = true) : ∃ rest, l.text = '@' :: rest := by
  unfold isHH startsWith at h
  cases ht : l.text with
  | nil => rw [ht] at h; simp [Generated.Markers.hunkHeader, List.isPrefixOf] at h
  | cons c cs =>
    rw [ht] at h
    simp only [Generated.Markers.hunkHeader, List.isPrefixOf, Bool.and_eq_true, beq_iff_eq] at h
    exact ⟨cs, by rw [h.1]⟩

/-- a `@@` line of a plain diff that parses as a hunk header is claimed by `handle_hunk_header_line`
and by no handler before it (outside conflict regions, which color-only mode never enters) -/
theorem plain_header_line_claimed (cfg : Cfg) (m : M) (l : L) {hh : HunkHeader}
    (hmc : isMergeConflict m.st = false) (hH : isHH l = true) (hc : l.commitRe = false)
    (hp : parseHunkHeader l.text = some hh) :
    chain cfg l Generated.handlerOrder m =
      .ok { m with counter := hunkHeaderCounter m hh, st := .hunkHeader (hunkHeaderDiffType m l) hh l.text l.raw m.n } := by
  obtain ⟨rest, ht⟩ := isHH_text hH
  have e1 := handleCommitMeta_not_mine cfg m l hc
  have e3 := handleDiffHeaderDiff_not_mine cfg m l (startsWith_false_of_headNot ht (by decide))
  have e4 := handleFileOperation_not_mine cfg m l
    (by rw [startsWithAny_false_of_headNot ht (by decide)]; simp)
  have e5 := handleMinusLine_not_mine cfg m l (by
    unfold minusLineTest
    rw [startsWithAny_false_of_headNot ht (by decide), startsWith_false_of_headNot ht (by decide)]; simp)
  have e6 := handlePlusLine_not_mine cfg m l (by
    unfold plusLineTest
    rw [startsWithAny_false_of_headNot ht (by decide)]; simp)
  have e7 : handleHunkHeader cfg m l = .ok (true, { m with counter := hunkHeaderCounter m hh, st := .hunkHeader (hunkHeaderDiffType m l) hh l.text l.raw m.n }) := by
    unfold handleHunkHeader
    have : startsWith l.text Generated.Markers.hunkHeader = true := hH
    simp [this, hmc, hp]
  simp only [Generated.handlerOrder, chain, handlerOf, e1, handleDiffStat, e3, e4, e5, e6, e7]

/-- a `--- ` line of a plain diff met while the minus-line counter expects a header is claimed by
`handle_diff_header_minus_line`; the counter is left alone and no hunk header is pending afterwards -/
theorem plain_dash_line_claimed {cfg : Cfg} (hco : cfg.colorOnly = true) (m : M) (l : L)
    (hsrc : m.source = .diffUnified) (hc : l.commitRe = false)
    (hsw : startsWith l.text (Generated.Markers.minusLine.getD 0 []) = true)
    (hx : threeDashesExpected m.counter = true) :
    ∃ m', chain cfg l Generated.handlerOrder m = .ok m' ∧ m'.counter = m.counter ∧
      m'.st = .diffHeader .unified := by
  have ht : ∃ rest, l.text = '-' :: rest := by
    unfold startsWith at hsw
    cases hl : l.text with
    | nil => rw [hl] at hsw; simp [Generated.Markers.minusLine, List.isPrefixOf] at hsw
    | cons c cs =>
      rw [hl] at hsw
      simp only [Generated.Markers.minusLine, List.getD, List.getElem?_cons_zero, Option.getD_some, List.isPrefixOf,
        Bool.and_eq_true, beq_iff_eq] at hsw
      exact ⟨cs, by rw [hsw.1]⟩
  obtain ⟨rest, ht⟩ := ht
  have e1 := handleCommitMeta_not_mine cfg m l hc
  have e3 := handleDiffHeaderDiff_not_mine cfg m l (startsWith_false_of_headNot ht (by decide))
  have e4 := handleFileOperation_not_mine cfg m l
    (by rw [startsWithAny_false_of_headNot ht (by decide)]; simp)
  have htest : minusLineTest m l = true := by
    unfold minusLineTest; rw [headerLineTest_plain hsrc, hsw, hx]; rfl
  have e5 : ∃ x, handleMinusLine cfg m l = .ok (true, x) ∧ x.counter = m.counter ∧ x.st = .diffHeader .unified := by
    unfold handleMinusLine
    simp only [htest, Bool.not_true, Bool.false_eq_true, if_false, hsrc, if_true]
    unfold shouldWriteGeneric
    simp only [hco, if_true]
    exact ⟨_, rfl, by simp, by simp⟩
  obtain ⟨x, e5, hxc, hxs⟩ := e5
  exact ⟨x, by simp only [Generated.handlerOrder, chain, handlerOf, e1, handleDiffStat, e3, e4, e5], hxc, hxs⟩



-- "the hunk lengths announced in the hunk headers are the true ones" ---------------------------

/-- one line of a hunk body with `a` old-file and `b` new-file lines still to come -/
def bodyStep (a b : Nat) (l : L) : Option (Nat × Nat) :=
  match l.text.head? with
  | some '-' => if 0 < a then some (a - 1, b) else none
  | some '+' => if 0 < b then some (a, b - 1) else none
  | some ' ' => if 0 < a ∧ 0 < b then some (a - 1, b - 1) else none
  | some '\\' => some (a, b)
  | _ => none

def normSc (a b : Nat) : Option (Nat × Nat) := if a = 0 ∧ b = 0 then none else some (a, b)

/-- outside a hunk: a line that looks like a removed line is a `--- ` header; no line looks like an
unchanged line -/
def outsideOK (l : L) : Bool :=
  match l.text.head? with
  | some '-' => startsWith l.text (Generated.Markers.minusLine.getD 0 []) && !l.commitRe
  | some ' ' => false
  | _ => true

/-- the two lengths a unified hunk header announces (`@@ -x,a +y,b @@`), if it has that form and the
hunk is not empty -/
def hunkLens (l : L) : Option (Nat × Nat) :=
  match parseHunkHeader l.text with
  | some hh =>
    match hh.coords with
    | [(_, a), (_, b)] => if 0 < a + b ∧ a < 2 ^ 63 then some (a, b) else none
    | _ => none
  | none => none

/-- the input is made of header lines and of hunks whose bodies have exactly the announced numbers of
old-file (`-`, blank) and new-file (`+`, blank) lines; `\ No newline` lines are free; no body or
header line is a commit line. The first argument: what is left of the current hunk. -/
def trueLengths : Option (Nat × Nat) → List L → Bool
  | none, [] => true
  | some _, [] => false
  | none, l :: rest =>
    if isHH l then
      !l.commitRe && (match hunkLens l with
        | some (a, b) => trueLengths (some (a, b)) rest
        | none => false)
    else outsideOK l && trueLengths none rest
  | some (a, b), l :: rest =>
    !l.commitRe && (match bodyStep a b l with
      | some (a', b') => trueLengths (normSc a' b') rest
      | none => false)

/-- the machine agrees with the scan of the input: the minus-line counter is the number of old-file
lines still to come in the current hunk (0 outside hunks) -/
def Sim : Option (Nat × Nat) → M → Prop
  | none, m => m.counter = 0 ∧ pend m = []
  | some (a, b), m => m.counter = (a : Int) ∧ isHunkState m.st = true ∧ 0 < a + b

theorem bodyStep_spec {a b : Nat} {l : L} {p : Nat × Nat} (h : bodyStep a b l = some p) :
    l.text.head?.all bodyChar = true ∧
    (countedHead l = true → 0 < a ∧ p.1 = a - 1) ∧ (countedHead l = false → p.1 = a) ∧
    (startsWith l.text (Generated.Markers.minusLine.getD 0 []) = true → countedHead l = true) := by
  have hdash : startsWith l.text (Generated.Markers.minusLine.getD 0 []) = true → l.text.head? = some '-' := by
    intro hsw
    unfold startsWith at hsw
    cases hl : l.text with
    | nil => rw [hl] at hsw; simp [Generated.Markers.minusLine, List.isPrefixOf] at hsw
    | cons c cs =>
      rw [hl] at hsw
      simp only [Generated.Markers.minusLine, List.getD, List.getElem?_cons_zero, Option.getD_some, List.isPrefixOf,
        Bool.and_eq_true, beq_iff_eq] at hsw
      simp [← hsw.1]
  unfold bodyStep at h
  unfold countedHead
  split at h
  · rename_i hh
    split at h
    · cases h; simp_all [bodyChar]
    · cases h
  · rename_i hh
    split at h
    · cases h; simp_all [bodyChar]
    · cases h
  · rename_i hh
    split at h
    · cases h; simp_all [bodyChar]
    · cases h
  · rename_i hh
    cases h; simp_all [bodyChar]
  · cases h

theorem threeDashes_pos {c : Int} {a : Nat} (h : c = (a : Int)) (ha : 0 < a) : threeDashesExpected c = false := by
  unfold threeDashesExpected
  have : c > -4096 := by omega
  simp only [this, if_true]
  simp; omega

theorem step_chain {cfg : Cfg} {m m' : M} {l : L} (hsrc : m.source = .diffUnified) (e : step cfg m l = .ok m') :
    ∃ m2, chain cfg l Generated.handlerOrder m = .ok m2 ∧ m'.counter = m2.counter ∧ m'.st = m2.st := by
  unfold step at e
  have hinit : stepInit m l = m := by unfold stepInit; simp [hsrc]
  rw [hinit] at e
  split at e
  · cases e
  · rename_i m2 e2
    cases e
    exact ⟨m2, e2, rfl, rfl⟩

/-- lines that are neither hunk headers nor look like removed / unchanged lines: the whole chain leaves
the counter alone and enters no conflict region -/
theorem chain_aux {cfg : Cfg} {l : L} (ps : Preset cfg) (hg : l.grep ≠ 2) (hnc : NotCombined l)
    (hH : isHH l = false) (hcn : countedHead l = false) :
    ∀ (names : List String) {m m' : M}, chain cfg l names m = .ok m' → PInv m → Good m → Unif m.st →
    pend m = [] → isMergeConflict m.st = false → isMergeConflict m'.st = false ∧ m'.counter = m.counter
  | [], m, m', e, _, _, _, _, hmc => by simp only [chain] at e; cases e; exact ⟨hmc, rfl⟩
  | name :: rest, m, m', e, inv, g, hu, hp0, hmc => by
    simp only [chain] at e
    split at e
    · cases e
    · rename_i hd hn
      split at e
      · cases e
      · rename_i m1 e1
        cases e
        obtain ⟨a1, a2⟩ := handlerOf_aux hn ps.nf.1 inv g e1
        exact ⟨a1 hmc, a2 hH hcn hu⟩
      · rename_i m1 e1
        obtain ⟨a1, a2⟩ := handlerOf_aux hn ps.nf.1 inv g e1
        have t1 := handlerOf_tsp hn ps inv g hu hg hnc e1
        have c1 := handlerOf_pco hn ps.nf inv g hg (Or.inl hp0) (fun _ => hp0) e1
        have g1 := (handlerOf_step hn e1 g).good
        obtain ⟨r1, r2⟩ := chain_aux ps hg hnc hH hcn rest e c1.inv g1 (t1.unif hu)
          ((c1.passed rfl).2.1.trans hp0) (a1 hmc)
        exact ⟨r1, r2.trans (a2 hH hcn hu)⟩

/-- the run invariant under `trueLengths` -/
def RSim (m : M) (ls : List L) : Prop :=
  ∃ sc, Sim sc m ∧ isMergeConflict m.st = false ∧ trueLengths sc ls = true

theorem RSim_hp {m : M} {l : L} {ls : List L} (r : RSim m (l :: ls)) :
    pend m = [] ∨ (HunkBody l ∧ DashOK m l) := by
  obtain ⟨sc, hs, _, ht⟩ := r
  cases sc with
  | none => exact Or.inl hs.2
  | some p =>
    obtain ⟨a, b⟩ := p
    obtain ⟨hc, hst, _⟩ := hs
    simp only [trueLengths, Bool.and_eq_true, Bool.not_eq_true'] at ht
    obtain ⟨hcr, ht⟩ := ht
    cases hb : bodyStep a b l with
    | none => simp [hb] at ht
    | some q =>
      obtain ⟨h1, h2, _, h4⟩ := bodyStep_spec hb
      exact Or.inr ⟨⟨hcr, h1⟩, fun hsw => threeDashes_pos hc (h2 (h4 hsw)).1⟩

theorem RSim_step {cfg : Cfg} (ps : Preset cfg) {m m' : M} {l : L} {ls : List L} (r : RSim m (l :: ls))
    (inv : PInv m) (g : Good m) (hu : Unif m.st) (hg : l.grep ≠ 2) (hnc : NotCombined l)
    (e : step cfg m l = .ok m') : RSim m' ls := by
  have hp := RSim_hp r
  obtain ⟨_, _, _, _, hfresh⟩ := step_pco ps.nf inv g hg hp e
  obtain ⟨m2, e2, hc2, hs2⟩ := step_chain inv.source e
  have hpend : pend m' = pend m2 := by unfold pend; rw [hs2]
  obtain ⟨sc, hs, hmc, ht⟩ := r
  cases sc with
  | none =>
    obtain ⟨hc0, hp0⟩ := hs
    cases hH : isHH l
    · -- not a hunk header
      simp only [trueLengths, hH, Bool.false_eq_true, if_false, Bool.and_eq_true] at ht
      obtain ⟨hok, ht⟩ := ht
      have hpm : pend m' = [] := by
        rcases hfresh with h | h
        · exact h
        · unfold isHH at hH; rw [hH] at h; cases h
      cases hcn : countedHead l
      · obtain ⟨r1, r2⟩ := chain_aux ps hg hnc hH hcn _ e2 inv g hu hp0 hmc
        exact ⟨none, ⟨by rw [hc2, r2, hc0], hpm⟩, by rw [hs2]; exact r1, ht⟩
      · -- a `--- ` header
        have hdash : startsWith l.text (Generated.Markers.minusLine.getD 0 []) = true ∧ l.commitRe = false := by
          unfold outsideOK at hok
          unfold countedHead at hcn
          split at hok
          · simpa using hok
          · cases hok
          · rename_i h1 h2
            simp only [Bool.or_eq_true, beq_iff_eq] at hcn
            rcases hcn with h | h
            · exact absurd h (h1)
            · exact absurd h (h2)
        obtain ⟨x, ex, hxc, hxs⟩ := plain_dash_line_claimed ps.nf.1 m l inv.source hdash.2 hdash.1
          (by rw [hc0]; decide)
        rw [ex] at e2; cases e2
        exact ⟨none, ⟨by rw [hc2, hxc, hc0], hpm⟩, by rw [hs2, hxs]; rfl, ht⟩
    · -- a hunk header
      simp only [trueLengths, hH, if_true, Bool.and_eq_true, Bool.not_eq_true'] at ht
      obtain ⟨hcr, ht⟩ := ht
      cases hl : hunkLens l with
      | none => simp [hl] at ht
      | some p =>
        obtain ⟨a, b⟩ := p
        simp only [hl] at ht
        unfold hunkLens at hl
        split at hl
        · rename_i hh hparse
          split at hl
          · rename_i x a' y b' hcoords
            split at hl
            · rename_i hab
              cases hl
              rw [plain_header_line_claimed cfg m l hmc hH hcr hparse] at e2
              cases e2
              refine ⟨some (a, b), ⟨?_, by rw [hs2]; rfl, hab.1⟩, by rw [hs2]; rfl, ht⟩
              rw [hc2]
              show hunkHeaderCounter m hh = (a : Int)
              unfold hunkHeaderCounter
              have : m.counter > -4096 := by rw [hc0]; decide
              simp only [this, if_true, hcoords]
              unfold countFrom
              simp [hab.2]
            · cases hl
          · cases hl
        · cases hl
  | some p =>
    obtain ⟨a, b⟩ := p
    obtain ⟨hc, hst, hab⟩ := hs
    simp only [trueLengths, Bool.and_eq_true, Bool.not_eq_true'] at ht
    obtain ⟨hcr, ht⟩ := ht
    cases hb : bodyStep a b l with
    | none => simp [hb] at ht
    | some q =>
      obtain ⟨a', b'⟩ := q
      simp only [hb] at ht
      obtain ⟨h1, h2, h3, h4⟩ := bodyStep_spec hb
      have hbody : HunkBody l := ⟨hcr, h1⟩
      have hdash : DashOK m l := fun hsw => threeDashes_pos hc (h2 (h4 hsw)).1
      rw [plain_body_line_claimed ps.nf.1 m l hst hbody hdash] at e2
      cases ehl : handleHunkLine cfg m l with
      | error err => rw [ehl] at e2; cases e2
      | ok q =>
        obtain ⟨bb, mx⟩ := q
        rw [ehl] at e2
        simp only [Except.ok.injEq] at e2
        subst e2
        have hcnt := handleHunkLine_counter hu ehl
        rw [hst, Bool.true_and] at hcnt
        have hst' : isHunkState mx.st = true := by
          rcases handleHunkLine_spec ehl g with ⟨_, _, h⟩ | ⟨_, _, spec⟩
          · rw [hst] at h; cases h
          · exact spec.st
        have hmc' : isMergeConflict m'.st = false := by
          rw [hs2]; cases hx : mx.st <;> simp_all [isHunkState, isMergeConflict]
        have hpm : pend m' = [] := by
          rcases hfresh with h | h
          · exact h
          · have : startsWith l.text Generated.Markers.hunkHeader = false :=
              startsWith_false_of_bodyHead h1 nonBody_hunkHeader
            rw [this] at h; cases h
        have hcnew : m'.counter = (a' : Int) := by
          rw [hc2, hcnt]
          cases hcn : countedHead l
          · have := h3 hcn
            simp only at this
            simp [hc, this]
          · obtain ⟨hpos, ha'⟩ := h2 hcn
            simp only at ha'
            simp only [if_true, hc, ha']
            omega
        unfold normSc at ht
        split at ht
        · rename_i hz
          exact ⟨none, ⟨by rw [hcnew, hz.1]; rfl, hpm⟩, hmc', ht⟩
        · rename_i hz
          exact ⟨some (a', b'), ⟨hcnew, by rw [hs2]; exact hst', by omega⟩, hmc', ht⟩



-- whole runs --------------------------------------------------------------------------

/-- the run induction, for any relation `R` between machine and remaining input that (1) yields the
per-step hypothesis, (2) is kept by a step, (3) leaves no header pending at the end of the input -/
theorem runFrom_plain {cfg : Cfg} (ps : Preset cfg) (all : List L) (R : M → List L → Prop)
    (hR1 : ∀ {m : M} {l : L} {ls : List L}, R m (l :: ls) → pend m = [] ∨ (HunkBody l ∧ DashOK m l))
    (hR2 : ∀ {m m' : M} {l : L} {ls : List L}, R m (l :: ls) → PInv m → Good m → Unif m.st → l.grep ≠ 2 →
      NotCombined l → step cfg m l = .ok m' → R m' ls)
    (hR3 : ∀ {m : M}, R m [] → pend m = []) :
    ∀ (ls : List L) {m m' : M}, runFrom cfg m ls = .ok m' → PInv m → Good m → TX all m → R m ls →
      (∀ i l, ls[i]? = some l → all[m.n + i]? = some l) → (∀ l ∈ ls, l.grep ≠ 2 ∧ NotCombined l) →
      PInv m' ∧ srcs m' = acct m ++ List.range' m.n ls.length ∧ TX all m'
  | [], m, m', e, inv, _, tx, r, _, _ => by
    simp only [runFrom] at e; cases e
    exact ⟨inv, by simp [acct, hR3 r], tx⟩
  | l :: ls, m, m', e, inv, g, tx, r, hidx, hl => by
    simp only [runFrom] at e
    split at e
    · cases e
    · rename_i m1 e1
      obtain ⟨hg, hnc⟩ := hl l (List.mem_cons_self ..)
      have hp1 := hR1 r
      have hcur : all[m.n]? = some l := by simpa using hidx 0 l rfl
      obtain ⟨inv1, g1, hacct, hn1, _⟩ := step_pco ps.nf inv g hg hp1 e1
      obtain ⟨⟨new, htl, hnew⟩, hu1, hpend1⟩ := step_tsp ps inv g tx.unif hg hnc hp1 e1
      have r1 := hR2 r inv g tx.unif hg hnc e1
      have tx1 : TX all m1 := by
        refine ⟨?_, ?_, hu1⟩
        · intro x hx
          rw [htl] at hx
          rcases List.mem_append.mp hx with h | h
          · exact tx.rows x h
          · rcases hnew x h with ⟨hs, ht⟩ | ⟨dt, hh, line, raw, src, hst, hs, ht⟩
            · exact ⟨l, by rw [hs]; exact hcur, ht⟩
            · obtain ⟨l0, h0, hraw⟩ := tx.pend dt hh line raw src hst
              exact ⟨l0, by rw [hs]; exact h0, Or.inl (ht.trans hraw)⟩
        · intro dt hh line raw src hst
          rcases hpend1 dt hh line raw src hst with h | ⟨h1, h2⟩
          · exact tx.pend dt hh line raw src h
          · exact ⟨l, by rw [h2]; exact hcur, h1⟩
      obtain ⟨inv', hs, tx'⟩ := runFrom_plain ps all R hR1 hR2 hR3 ls e inv1 g1 tx1 r1
        (by
          intro i x hx
          have := hidx (i + 1) x (by simpa using hx)
          rw [hn1]; rw [show m.n + 1 + i = m.n + (i + 1) by omega]; exact this)
        (fun x hx => hl x (List.mem_cons_of_mem _ hx))
      refine ⟨inv', ?_, tx'⟩
      rw [hs, hacct, hn1, List.length_cons, List.range'_succ, List.append_assoc]
      rfl

/-- whole runs on plain `diff -u` input, for any such relation that holds initially -/
theorem run_plain_of {cfg : Cfg} (ps : Preset cfg) {d : L} {ls : List L} {m : M} (R : M → List L → Prop)
    (hR1 : ∀ {m : M} {l : L} {ls : List L}, R m (l :: ls) → pend m = [] ∨ (HunkBody l ∧ DashOK m l))
    (hR2 : ∀ {m m' : M} {l : L} {ls : List L}, R m (l :: ls) → PInv m → Good m → Unif m.st → l.grep ≠ 2 →
      NotCombined l → step cfg m l = .ok m' → R m' ls)
    (hR3 : ∀ {m : M}, R m [] → pend m = [])
    (hd : detectSource d.text = .diffUnified)
    (hR0 : ∀ x : M, x.counter = 0 → x.st = .unknown → R x (d :: ls))
    (hl : ∀ l ∈ d :: ls, l.grep ≠ 2 ∧ NotCombined l) (e : run cfg (d :: ls) = .ok m) :
    m.out.map (·.src) = List.range (ls.length + 1) ∧ ∀ r ∈ m.out, TxRow (d :: ls) r := by
  have hout := (run_spec e).2
  unfold run at e
  split at e
  · cases e
  · rename_i m1 e1
    have hsame : (timeline (stepInit ({} : M) d) = [] ∧ (stepInit ({} : M) d).st = .unknown ∧
        (stepInit ({} : M) d).modeInfo = [] ∧ (stepInit ({} : M) d).n = 0) ∧
        (stepInit ({} : M) d).source = .diffUnified ∧ (stepInit ({} : M) d).counter = 0 ∧
        (stepInit ({} : M) d).minus = [] ∧ (stepInit ({} : M) d).plus = [] ∧ (stepInit ({} : M) d).orderOk = true := by
      unfold stepInit armCounter
      simp [hd, Generated.Markers.prepareToCount, timeline]
    obtain ⟨⟨htl0, hst0, hmode0, hn0⟩, hsrc0, hctr0, hmin0, hpl0, hord0⟩ := hsame
    have hidem : stepInit (stepInit ({} : M) d) d = stepInit ({} : M) d := by
      generalize stepInit ({} : M) d = x at hsrc0
      unfold stepInit; simp [hsrc0]
    have hfirst : runFrom cfg (stepInit ({} : M) d) (d :: ls) = .ok m1 := by
      simp only [runFrom, step] at e1 ⊢
      rw [hidem]; exact e1
    have inv0 : PInv (stepInit ({} : M) d) :=
      ⟨hmode0, hsrc0, fun dt hh line raw src h => by rw [hst0] at h; cases h⟩
    have g0 : Good (stepInit ({} : M) d) := ⟨hord0, fun _ => ⟨hmin0, hpl0⟩, fun _ => hpl0⟩
    have hp00 : pend (stepInit ({} : M) d) = [] := by unfold pend; rw [hst0]
    have tx0 : TX (d :: ls) (stepInit ({} : M) d) := by
      refine ⟨?_, ?_, ?_⟩
      · rw [htl0]; simp
      · intro dt hh line raw src h; rw [hst0] at h; cases h
      · rw [hst0]; simp [Unif]
    obtain ⟨inv1, hs, tx1⟩ := runFrom_plain ps (d :: ls) R hR1 hR2 hR3 (d :: ls) hfirst inv0 g0 tx0
      (hR0 _ hctr0 hst0) (by intro i l h; rw [hn0]; simpa using h) hl
    have htl : timeline m = timeline m1 := tailOps_co ps.nf.1 _ e inv1.mode
    constructor
    · have : m.out.map (·.src) = srcs m1 := by rw [← hout, htl]; rfl
      rw [this, hs, hn0]
      simp [acct, srcs, htl0, hp00, List.range_eq_range']
    · intro r hr
      rw [← hout, htl] at hr
      exact tx1.rows r hr

/-- every `@@…` line is followed by a hunk-body line that does not start with `--- `, and the input
does not end in one -/
def FollowedD : Bool → List L → Prop
  | p, [] => p = false
  | p, l :: rest =>
    (p = true → HunkBody l ∧ startsWith l.text (Generated.Markers.minusLine.getD 0 []) = false) ∧
    FollowedD (isHH l) rest

/-- **plain `diff -u`, `--color-only`, presets: line for line and text preserving**, for inputs in
which no hunk starts with a line `--- …` (a removed line whose text starts with `-- `). No assumption
on hunk lengths: whether a later `--- ` line is taken for a file header or for a removed line, it
yields one row carrying its text. -/
theorem run_color_only_plain {cfg : Cfg} (ps : Preset cfg) {d : L} {ls : List L} {m : M}
    (hd : detectSource d.text = .diffUnified) (hl : ∀ l ∈ d :: ls, l.grep ≠ 2 ∧ NotCombined l)
    (hf : FollowedD false (d :: ls)) (e : run cfg (d :: ls) = .ok m) :
    m.out.map (·.src) = List.range (ls.length + 1) ∧ ∀ r ∈ m.out, TxRow (d :: ls) r := by
  refine run_plain_of ps (fun m ls => ∃ p, (pend m = [] ∨ p = true) ∧ FollowedD p ls) ?_ ?_ ?_ hd ?_ hl e
  · intro m l ls ⟨p, hp, hf⟩
    rcases hp with h | h
    · exact Or.inl h
    · obtain ⟨h1, h2⟩ := hf.1 h
      exact Or.inr ⟨h1, fun hsw => by rw [h2] at hsw; cases hsw⟩
  · intro m m' l ls ⟨p, hp, hf⟩ inv g _ hg _ e
    have hp1 : pend m = [] ∨ (HunkBody l ∧ DashOK m l) := by
      rcases hp with h | h
      · exact Or.inl h
      · obtain ⟨h1, h2⟩ := hf.1 h
        exact Or.inr ⟨h1, fun hsw => by rw [h2] at hsw; cases hsw⟩
    obtain ⟨_, _, _, _, hfresh⟩ := step_pco ps.nf inv g hg hp1 e
    exact ⟨isHH l, hfresh, hf.2⟩
  · intro m ⟨p, hp, hf⟩
    rcases hp with h | h
    · exact h
    · rw [show p = false from hf] at h; cases h
  · intro x _ hx
    exact ⟨false, Or.inl (by unfold pend; rw [hx]), hf⟩

/-- **plain `diff -u`, `--color-only`, presets: line for line and text preserving**, for inputs whose
hunk headers announce the true hunk lengths (`trueLengths`): then the minus-line counter tells a
`--- ` header from a removed line `-- …` correctly, also as the first line of a hunk. -/
theorem run_color_only_plain_true_lengths {cfg : Cfg} (ps : Preset cfg) {d : L} {ls : List L} {m : M}
    (hd : detectSource d.text = .diffUnified) (hl : ∀ l ∈ d :: ls, l.grep ≠ 2 ∧ NotCombined l)
    (ht : trueLengths none (d :: ls) = true) (e : run cfg (d :: ls) = .ok m) :
    m.out.map (·.src) = List.range (ls.length + 1) ∧ ∀ r ∈ m.out, TxRow (d :: ls) r := by
  refine run_plain_of ps RSim RSim_hp (fun r inv g hu hg hnc e => RSim_step ps r inv g hu hg hnc e) ?_ hd ?_ hl e
  · intro m ⟨sc, hs, _, ht⟩
    cases sc with
    | none => exact hs.2
    | some p => simp [trueLengths] at ht
  · intro x hc hx
    exact ⟨none, ⟨hc, by unfold pend; rw [hx]⟩, by rw [hx]; rfl, ht⟩

-- Boolean forms for `decide` on concrete inputs ---------------------------------------------

instance (l : L) : Decidable (NotCombined l) := by unfold NotCombined; infer_instance

def followedDB : Bool → List L → Bool
  | p, [] => !p
  | p, l :: rest =>
    (!p || (!l.commitRe && l.text.head?.all bodyChar &&
      !startsWith l.text (Generated.Markers.minusLine.getD 0 []))) && followedDB (isHH l) rest

theorem FollowedD_of_B : ∀ (ls : List L) (p : Bool), followedDB p ls = true → FollowedD p ls
  | [], p, h => by cases p <;> simp_all [followedDB, FollowedD]
  | l :: rest, p, h => by
    simp only [followedDB, Bool.and_eq_true, Bool.or_eq_true, Bool.not_eq_true'] at h
    refine ⟨fun hp => ?_, FollowedD_of_B rest _ h.2⟩
    rcases h.1 with h1 | h1
    · rw [hp] at h1; cases h1
    · exact ⟨⟨h1.1.1, h1.1.2⟩, h1.2⟩

end Machine
