import Proofs.Machine.CombinedHeaders
/-!
Whole-run file headers (C14), part 8: streams of combined-diff sections (`CSec`), with commit blocks between them
(`git show <merge>`, `git log -p --cc`): exactly one file-header row per section, in order, written at the section's
`+++ ` line, naming the two files its `--- ` / `+++ ` lines name; none for a commit block.
-/
set_option linter.unusedSimpArgs false
set_option linter.unusedVariables false
namespace Machine
open Headers Generated

/-- the first line of a combined-diff section: `diff --cc x` / `diff --combined x` -/
def isCcLine (l : L) : Bool := startsWithAny l.text Markers.combinedDiffLine && !l.commitRe

theorem cc_facts {l : L} (h : startsWithAny l.text Markers.combinedDiffLine = true) :
    startsWith l.text Markers.diffLine = true ∧ detectSource l.text = .gitDiff ∧
      diffLineState l = .diffHeader (.combined .unknown false) := by
  have hd : diffLineState l = .diffHeader (.combined .unknown false) := by unfold diffLineState; simp [h]
  simp only [startsWithAny, Markers.combinedDiffLine, List.any_cons, List.any_nil, Bool.or_false, Bool.or_eq_true] at h
  rcases h with h | h
  all_goals
    obtain ⟨rest, hr⟩ := startsWith_split h
    refine ⟨?_, ?_, hd⟩
    · rw [hr]; simp [startsWith, Markers.diffLine, List.isPrefixOf]
    · rw [hr]; simp [detectSource, startsWithAny, startsWith, Generated.gitDiffPrefixes, List.isPrefixOf]

/-- (A‴) the `diff --cc` line, met with nothing pending: claimed, nothing written, the section's header is owed -/
theorem cc_line_step {cfg : Cfg} (hc : FHC cfg) {m : M} {l : L} (h : QC m) (hl : isCcLine l = true) :
    ∃ m', step cfg m l = .ok m' ∧ HdrC (.combined .unknown false) m' ∧ fileTL m' = fileTL m ∧ m'.n = m.n + 1 := by
  unfold isCcLine at hl
  simp only [Bool.and_eq_true, Bool.not_eq_true'] at hl
  obtain ⟨hcc, hcr⟩ := hl
  obtain ⟨hdiff, hdet, hdls⟩ := cc_facts hcc
  obtain ⟨m0, hm0⟩ : ∃ m0, m0 = stepInit m l := ⟨_, rfl⟩
  have hinit : m0.source = .gitDiff ∧ timeline m0 = timeline m ∧ m0.counter = m.counter ∧ m0.modeInfo = m.modeInfo ∧
      m0.handledPair = m.handledPair ∧ m0.currentPair = m.currentPair ∧ m0.n = m.n := by
    rw [hm0]
    unfold stepInit
    rcases h.src with hs | hs
    · simp [hs]
    · simp only [hs, if_true]
      unfold armCounter
      have hne : (Source.gitDiff = Source.diffUnified) = False := by simp
      simp only [Markers.prepareToCount, hdet, hne, if_false]
      refine ⟨?_, ?_, ?_, ?_, ?_, ?_, ?_⟩ <;> first | trivial | rfl
  obtain ⟨i1, htl0, i2, i3, i4, i5, i6⟩ := hinit
  have g0 : Good m0 := by rw [hm0]; exact (stepInit_stepS l h.good).good
  obtain ⟨f1, f2, f3, _, _, _⟩ := flushMP_keeps m0
  have hx1np : NPend ({ flushMP m0 with st := diffLineState l } : M) :=
    ⟨(flushMP_modeInfo m0).trans (i3.trans h.np.1), by
      show (flushMP m0).handledPair = (flushMP m0).currentPair
      rw [f2, f3, i4, i5]; exact h.np.2⟩
  have hzst : (diffLineFields ({ flushMP m0 with st := diffLineState l } : M) l).st =
      .diffHeader (.combined .unknown false) := hdls
  have e1 := handleCommitMeta_not_mine cfg m0 l hcr
  have e2 : handleDiffStat cfg m0 l = .ok (false, m0) := rfl
  have e3 : handleDiffHeaderDiff cfg m0 l =
      .ok (true, diffLineFields ({ flushMP m0 with st := diffLineState l } : M) l) := by
    have hskip : shouldSkipLine cfg (diffLineFields ({ flushMP m0 with st := diffLineState l } : M) l) = true := by
      unfold shouldSkipLine
      rw [shouldHandle_diffHeader hc hzst, hzst]
      simp [isDiffHeader, hc.notCO]
    unfold handleDiffHeaderDiff
    simp only [hdiff, Bool.not_true, Bool.false_eq_true, if_false]
    rw [pendingDiffName_np cfg hx1np, if_pos hskip]
  obtain ⟨z, hz⟩ : ∃ z, z = diffLineFields ({ flushMP m0 with st := diffLineState l } : M) l := ⟨_, rfl⟩
  rw [← hz] at e3 hzst
  have ec : chain cfg l Generated.handlerOrder m0 = .ok z := by
    rw [handlerOrder_split, chain_skip (by rfl) e1, chain_skip (by rfl) e2]
    simp only [chain, handlerOf, e3]
  have g := (chain_step _ ec g0).good
  refine ⟨{ z with n := z.n + 1 }, by unfold step; rw [← hm0, ec], ⟨hzst, ?_, ?_, ?_, ?_, ?_, ⟨g.order, g.quiet, g.noPlus⟩⟩, ?_, ?_⟩
  · show z.source = .gitDiff
    rw [hz]; show (flushMP m0).source = _; rw [flushMP_source]; exact i1
  · show z.counter ≤ -4096
    rw [hz]; show (flushMP m0).counter ≤ _; rw [f1, i2]; exact h.cnt
  · show z.handledPair = none
    rw [hz]; rfl
  · show z.currentPair ≠ none
    rw [hz]; simp [diffLineFields]
  · show z.modeInfo = []
    rw [hz]; exact hx1np.1
  · show fileTL z = fileTL m
    rw [hz]
    exact (fileTL_congr rfl).trans ((fileTL_flushMP m0).trans (fileTL_congr htl0))
  · show z.n + 1 = m.n + 1
    rw [hz]; show (flushMP m0).n + 1 = _; rw [flushMP_n, i6]

-- sections ----------------------------------------------------------------------------------------------------

/-- a section of a combined diff -/
structure CSec where
  /-- `diff --cc x` -/
  d : L
  /-- `index a,b..c`, `mode a,b..c`, `new file mode m`, `deleted file mode a,b` -/
  hdr : List L := []
  /-- `--- a/x` -/
  mn : L
  /-- `+++ b/x` -/
  pl : L
  /-- `@@@ … @@@` lines and hunk lines (outside conflict regions) -/
  body : List L := []

def CSec.lines (s : CSec) : List L := s.d :: (s.hdr ++ (s.mn :: s.pl :: s.body))

def CSec.wfb (s : CSec) : Bool :=
  isCcLine s.d && s.hdr.all (fun l => noiseb l || isFileOpLine l) && isMinusLine s.mn && isPlusLine s.pl &&
    s.body.all isQuietLine

structure CSec.WF (s : CSec) : Prop where
  d : isCcLine s.d = true
  hdr : ∀ l ∈ s.hdr, noiseb l = true ∨ isFileOpLine l = true
  mn : isMinusLine s.mn = true
  pl : isPlusLine s.pl = true
  body : ∀ l ∈ s.body, isQuietLine l = true

theorem CSec.wf_of_b {s : CSec} (h : s.wfb = true) : s.WF := by
  simp only [CSec.wfb, Bool.and_eq_true, List.all_eq_true, Bool.or_eq_true] at h
  exact ⟨h.1.1.1.1, h.1.1.1.2, h.1.1.2, h.1.2, h.2⟩

/-- the section's file-header row: the description of the two names its `--- ` / `+++ ` lines carry, stamped with the
index of the `+++ ` line (`k` = index of the `diff --cc` line) -/
def CSec.row (cfg : Cfg) (s : CSec) (k : Nat) : Row :=
  headerRow cfg (parseDiffHeaderLine s.mn.text true).1 (parseDiffHeaderLine s.mn.text true).2 s.pl
    (k + s.hdr.length + 2)

theorem hdr_run_c {cfg : Cfg} (hc : FHC cfg) {dt : DiffType} : ∀ (ls : List L) {m mf : M}, HdrC dt m →
    (∀ x ∈ ls, noiseb x = true ∨ isFileOpLine x = true) → runFrom cfg m ls = .ok mf →
    HdrC dt mf ∧ fileTL mf = fileTL m ∧ mf.n = m.n + ls.length
  | [], m, mf, h, _, e => by simp only [runFrom] at e; cases e; exact ⟨h, rfl, rfl⟩
  | l :: ls, m, mf, h, hn, e => by
    obtain ⟨m1, e1, er⟩ := runFrom_cons_ok e
    have hstep : ∃ m', step cfg m l = .ok m' ∧ HdrC dt m' ∧ fileTL m' = fileTL m ∧ m'.n = m.n + 1 := by
      rcases hn l (List.mem_cons_self ..) with hx | hx
      · exact noise_step_c hc h (noise_of_b hx)
      · exact fileop_step_c hc h hx
    obtain ⟨m1', e1', h1, t1, n1⟩ := hstep
    rw [e1] at e1'; cases e1'
    obtain ⟨h2, t2, n2⟩ := hdr_run_c hc ls h1 (fun x hx => hn x (List.mem_cons_of_mem _ hx)) er
    exact ⟨h2, t2.trans t1, by rw [n2, n1, List.length_cons]; omega⟩

/-- one section: exactly one file row, at the `+++ ` line; afterwards nothing is owed -/
theorem csec_run {cfg : Cfg} (hc : FHC cfg) (s : CSec) (w : s.WF) {m mf : M} (h : QC m)
    (e : runFrom cfg m s.lines = .ok mf) :
    QG mf ∧ fileTL mf = fileTL m ++ [s.row cfg m.n] ∧ mf.n = m.n + s.lines.length := by
  unfold CSec.lines at e
  obtain ⟨m1, e1, er1⟩ := runFrom_cons_ok e
  obtain ⟨m1', e1', h1, t1, n1⟩ := cc_line_step hc h w.d
  rw [e1] at e1'; cases e1'
  obtain ⟨m2, e2, er2⟩ := runFrom_append_ok er1
  obtain ⟨h2, t2, n2⟩ := hdr_run_c hc s.hdr h1 w.hdr e2
  obtain ⟨m3, e3, er3⟩ := runFrom_cons_ok er2
  obtain ⟨m3', e3', h3, t3, n3, f3, v3⟩ := minus_step_c hc h2 w.mn
  rw [e3] at e3'; cases e3'
  obtain ⟨m4, e4, er4⟩ := runFrom_cons_ok er3
  obtain ⟨m4', e4', h4, n4, t4⟩ := plus_step_c hc h3 w.pl
  rw [e4] at e4'; cases e4'
  obtain ⟨h5, t5, n5⟩ := runFrom_git s.body er4 w.body h4
  refine ⟨h5, ?_, ?_⟩
  · rw [t5, t4, t3, t2, t1, f3, v3, n3, n2, n1]
    unfold CSec.row
    congr 3
    omega
  · rw [n5, n4, n3, n2, n1]
    simp only [CSec.lines, List.length_cons, List.length_append]
    omega

-- streams: sections and commit blocks ---------------------------------------------------------------------------

/-- an element of a combined-diff stream: a section or a commit block (`git show <merge>`, `git log -p --cc`) -/
inductive CItem
  | sec (s : CSec)
  | commit (c : L) (msgs : List L)

def CItem.lines : CItem → List L
  | .sec s => s.lines
  | .commit c msgs => c :: msgs

def CItem.WF : CItem → Prop
  | .sec s => s.WF
  | .commit c msgs => isCommitLine c = true ∧ ∀ x ∈ msgs, isMetaLine x = true

def CItem.wfb : CItem → Bool
  | .sec s => s.wfb
  | .commit c msgs => isCommitLine c && msgs.all isMetaLine

theorem CItem.wf_of_b {i : CItem} (h : i.wfb = true) : i.WF := by
  cases i with
  | sec s => exact CSec.wf_of_b h
  | commit c msgs =>
    simp only [CItem.wfb, Bool.and_eq_true, List.all_eq_true] at h
    exact ⟨h.1, h.2⟩

theorem citems_wf_of_all {items : List CItem} (h : items.all CItem.wfb = true) : ∀ i ∈ items, i.WF := by
  intro i hi
  exact CItem.wf_of_b (List.all_eq_true.mp h i hi)

def CItem.rows (cfg : Cfg) : CItem → Nat → List Row
  | .sec s, k => [s.row cfg k]
  | .commit .., _ => []

theorem QC.pre {m : M} (h : QC m) : Pre m := ⟨h.src, h.cnt, h.good, Or.inl h.np⟩
theorem QC.settled2 {m : M} (h : QC m) : Settled2 m := ⟨h.src, h.cnt, h.np.1, h.np.2, h.good⟩

theorem citem_run {cfg : Cfg} (hc : FHC cfg) (i : CItem) (w : i.WF) {m mf : M} (h : QC m)
    (e : runFrom cfg m i.lines = .ok mf) :
    QC mf ∧ fileTL mf = fileTL m ++ i.rows cfg m.n ∧ mf.n = m.n + i.lines.length := by
  cases i with
  | sec s =>
    obtain ⟨h1, t1, n1⟩ := csec_run hc s w h e
    exact ⟨h1.toQC, t1, n1⟩
  | commit c msgs =>
    obtain ⟨wc, wm⟩ := w
    simp only [CItem.lines] at e ⊢
    obtain ⟨m1, e1, er1⟩ := runFrom_cons_ok e
    obtain ⟨m1', e1', h1, t1, n1⟩ := commit_line_step hc h.pre wc
    rw [e1] at e1'; cases e1'
    obtain ⟨h2, t2, n2⟩ := metas_run msgs h1 wm er1
    have hq : QC mf := ⟨⟨h2.mode, h2.pair⟩, by rw [h2.st]; rfl, h2.src, h2.cnt, h2.good⟩
    refine ⟨hq, ?_, by rw [n2, n1, List.length_cons]; omega⟩
    rw [t2, t1]
    unfold facct
    rw [h.settled2.pendRows]
    simp [CItem.rows]

def rowsOfCItems (cfg : Cfg) : Nat → List CItem → List Row
  | _, [] => []
  | k, i :: is => i.rows cfg k ++ rowsOfCItems cfg (k + i.lines.length) is

def linesOfCItems (items : List CItem) : List L := items.flatMap CItem.lines

theorem citems_run {cfg : Cfg} (hc : FHC cfg) : ∀ (items : List CItem) {m mf : M}, (∀ i ∈ items, i.WF) →
    QC m → runFrom cfg m (linesOfCItems items) = .ok mf →
    QC mf ∧ fileTL mf = fileTL m ++ rowsOfCItems cfg m.n items
  | [], m, mf, _, h, e => by
    simp only [linesOfCItems, List.flatMap_nil, runFrom] at e; cases e; exact ⟨h, by simp [rowsOfCItems]⟩
  | i :: is, m, mf, w, h, e => by
    have hl : linesOfCItems (i :: is) = i.lines ++ linesOfCItems is := by simp [linesOfCItems]
    rw [hl] at e
    obtain ⟨m1, e1, er1⟩ := runFrom_append_ok e
    obtain ⟨h1, t1, n1⟩ := citem_run hc i (w i (List.mem_cons_self ..)) h e1
    obtain ⟨h2, t2⟩ := citems_run hc is (fun x hx => w x (List.mem_cons_of_mem _ hx)) h1 er1
    exact ⟨h2, by rw [t2, t1, n1]; simp [rowsOfCItems]⟩

theorem qc_init : QC ({} : M) :=
  ⟨⟨rfl, rfl⟩, rfl, Or.inr rfl, by show (-4096 : Int) ≤ -4096; omega, good_init⟩

/-- **One file header per combined-diff section, none per commit block** (whole runs). -/
theorem run_one_file_row_per_section_combined {cfg : Cfg} (hc : FHC cfg) (items : List CItem) (w : ∀ i ∈ items, i.WF)
    {m : M} (e : run cfg (linesOfCItems items) = .ok m) :
    m.out.filter (fun r => r.kind == .file) = rowsOfCItems cfg 0 items := by
  have hout := (run_spec e).2
  unfold run at e
  split at e
  · cases e
  · rename_i m1 e1
    obtain ⟨h1, t1⟩ := citems_run hc items w qc_init e1
    have hf := finish_facct hc h1.pre e
    have : m.out.filter (fun r => r.kind == .file) = fileTL m := by rw [← hout]; rfl
    rw [this, hf]
    unfold facct
    rw [h1.settled2.pendRows, t1]
    simp [fileTL, timeline]

def CItem.isSec : CItem → Bool
  | .sec _ => true
  | .commit .. => false

theorem rowsOfCItems_length (cfg : Cfg) : ∀ (k : Nat) (items : List CItem),
    (rowsOfCItems cfg k items).length = (items.filter CItem.isSec).length
  | _, [] => rfl
  | k, i :: is => by
    cases i <;> simp [rowsOfCItems, CItem.rows, List.filter_cons, CItem.isSec, rowsOfCItems_length cfg _ is]

end Machine
