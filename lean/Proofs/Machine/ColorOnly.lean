import Proofs.Machine.Run
/-!
`--color-only`: the whole handler chain puts exactly one row per input line on the timeline.

`acct m` = the input-line indices accounted for so far, in display order: the `src` of every row
on the timeline, followed by the index of a hunk-header line whose row is still pending (delta
writes the hunk header when the next line of the hunk arrives). The theorem `step_co`: under the
normal form `--color-only` forces, from a git source, one step appends exactly the current line
index to `acct`. The one shape of input for which this is false is a hunk header that is not
followed by a line of its hunk (`HunkBody`); git never produces it, and the hypothesis is explicit.
-/
set_option linter.unusedSimpArgs false
set_option linter.unusedVariables false
namespace Machine
open Headers

/-- what `set_options` forces under `--color-only`: the three decoration styles are `none` -/
def CONormal (cfg : Cfg) : Prop :=
  cfg.colorOnly = true ∧ cfg.commitStyle.deco = .none ∧ cfg.fileStyle.deco = .none ∧
  cfg.hunkHeaderStyle.deco = .none

/-- the input index of a hunk-header line whose row has not been written yet -/
def pend (m : M) : List Nat :=
  match m.st with
  | .hunkHeader _ _ _ _ src => [src]
  | _ => []

def srcs (m : M) : List Nat := (timeline m).map (·.src)

/-- input lines accounted for, in display order -/
def acct (m : M) : List Nat := srcs m ++ pend m

structure COInv (m : M) : Prop where
  mode : m.modeInfo = []
  source : m.source = .gitDiff
  hhLine : ∀ dt hh line raw src, m.st = .hunkHeader dt hh line raw src → line ≠ []

/-- result of one handler in color-only mode -/
structure CO (m m' : M) (b : Bool) : Prop where
  inv : COInv m'
  n : m'.n = m.n
  claimed : b = true → acct m' = acct m ++ [m.n]
  passed : b = false → acct m' = acct m ∧ pend m' = pend m

def bodyChar (c : Char) : Bool := c == ' ' || c == '+' || c == '-' || c == '\\'

/-- a line of a hunk body as git writes it: not a commit line; empty, or starting with one of
` `, `+`, `-`, `\` -/
def HunkBody (l : L) : Prop := l.commitRe = false ∧ l.text.head?.all bodyChar = true

def nonBody : Str → Bool
  | c :: _ => !bodyChar c
  | [] => false

theorem startsWith_false_of_head {s p : Str} (hs : s.head?.all bodyChar = true) (hp : nonBody p = true) :
    startsWith s p = false := by
  cases p with
  | nil => simp [nonBody] at hp
  | cons a ps =>
    cases s with
    | nil => simp [startsWith, List.isPrefixOf]
    | cons c cs =>
      simp only [nonBody, Bool.not_eq_true'] at hp
      simp only [List.head?_cons, Option.all_some] at hs
      simp only [startsWith, List.isPrefixOf, Bool.and_eq_false_imp, beq_iff_eq]
      intro h; subst h; rw [hp] at hs; cases hs

theorem startsWithAny_false_of_head {s : Str} {ps : List Str} (hs : s.head?.all bodyChar = true)
    (hp : ps.all nonBody = true) : startsWithAny s ps = false := by
  unfold startsWithAny
  rw [List.any_eq_false]
  intro p hmem
  have := List.all_eq_true.mp hp p hmem
  simp [startsWith_false_of_head hs this]

theorem CO.pass {m : M} (inv : COInv m) : CO m m false :=
  ⟨inv, rfl, fun h => (by cases h), fun _ => ⟨rfl, rfl⟩⟩

theorem srcs_of_tl {m m' : M} {rows : List Row} (h : timeline m' = timeline m ++ rows) :
    srcs m' = srcs m ++ rows.map (·.src) := by
  simp [srcs, h]

theorem drawRows_none_single (st : ElemStyle) (k : RowKind) (t r a : Str) (src : Nat) (h : st.deco = .none) :
    ∃ row, drawRows st k t r a src = [row] ∧ row.src = src := by
  unfold drawRows
  simp only [h]
  split <;> exact ⟨_, rfl, rfl⟩

@[simp] theorem pendingDiffName_co {cfg : Cfg} {m : M} (hco : cfg.colorOnly = true) (hmi : m.modeInfo = []) :
    pendingDiffName cfg m = m := by
  unfold pendingDiffName
  simp [hco, hmi]

theorem shouldSkipLine_co {cfg : Cfg} (m : M) (hco : cfg.colorOnly = true) : shouldSkipLine cfg m = false := by
  unfold shouldSkipLine; simp [hco]

/-- `write_generic_diff_header_header_line` after a flush, in color-only mode: exactly one row -/
theorem writeGeneric_co {cfg : Cfg} (nf : CONormal cfg) (m : M) (t raw : Str) :
    ∃ row, timeline (writeGeneric cfg (emit (flushMP m)) t raw) = timeline m ++ [row] ∧ row.src = m.n ∧
      (writeGeneric cfg (emit (flushMP m)) t raw).modeInfo = [] := by
  obtain ⟨hco, _, hfd, _⟩ := nf
  unfold writeGeneric
  simp only [hco, not_true_eq_false, and_false, if_false, if_true, List.nil_append]
  obtain ⟨row, hr, hs⟩ := drawRows_none_single cfg.fileStyle RowKind.file t raw (emit (flushMP m)).modeInfo
    (emit (flushMP m)).n hfd
  refine ⟨row, ?_, by simpa using hs, by simp⟩
  rw [hr]
  have := timeline_direct_flushed m [row]
  simpa [timeline] using this

-- pend / state helpers ---------------------------------------------------------

theorem pend_nil_of_not_hh {m : M} (h : isHunkHeader m.st = false) : pend m = [] := by
  unfold pend; cases hs : m.st <;> simp_all [isHunkHeader]

theorem hh_of_pend {m : M} (h : pend m ≠ []) : isHunkHeader m.st = true := by
  cases hh : isHunkHeader m.st
  · exact absurd (pend_nil_of_not_hh hh) h
  · rfl

theorem not_diffHeader_of_hh {s : State} (h : isHunkHeader s = true) : isDiffHeader s = false := by
  cases s <;> simp_all [isHunkHeader, isDiffHeader]

theorem hunkState_of_hh {s : State} (h : isHunkHeader s = true) : isHunkState s = true := by
  cases s <;> simp_all [isHunkHeader, isHunkState]

theorem pend_cases {m : M} {l : L} (hp : pend m = [] ∨ HunkBody l) :
    pend m = [] ∨ (isHunkHeader m.st = true ∧ HunkBody l) := by
  by_cases h : pend m = []
  · exact Or.inl h
  · rcases hp with h' | h'
    · exact Or.inl h'
    · exact Or.inr ⟨hh_of_pend h, h'⟩

theorem headerLineTest_false {m : M} (inv : COInv m) (h : isHunkHeader m.st = true) : headerLineTest m = false := by
  unfold headerLineTest; simp [not_diffHeader_of_hh h, inv.source]

theorem COInv.upd {m m' : M} (inv : COInv m) (hm : m'.modeInfo = m.modeInfo) (hs : m'.source = m.source)
    (hst : isHunkHeader m'.st = false) : COInv m' :=
  ⟨hm ▸ inv.mode, hs ▸ inv.source, fun dt hh line raw src h => by rw [h] at hst; simp [isHunkHeader] at hst⟩

theorem COInv.same {m m' : M} (inv : COInv m) (hm : m'.modeInfo = m.modeInfo) (hs : m'.source = m.source)
    (hst : m'.st = m.st) : COInv m' :=
  ⟨hm ▸ inv.mode, hs ▸ inv.source, fun dt hh line raw src h => inv.hhLine dt hh line raw src (hst ▸ h)⟩

/-- a handler that wrote exactly one row for the current line and left no header pending -/
theorem CO.claim {m m' : M} {row : Row} (inv' : COInv m') (hn : m'.n = m.n)
    (htl : timeline m' = timeline m ++ [row]) (hsrc : row.src = m.n) (hp : pend m = []) (hp' : pend m' = []) :
    CO m m' true :=
  ⟨inv', hn, fun _ => by simp [acct, srcs_of_tl htl, hp, hp', hsrc], fun h => by cases h⟩

/-- a handler that passed the line on, possibly changing the state, with nothing pending -/
theorem CO.passUpd {m m' : M} (inv' : COInv m') (hn : m'.n = m.n)
    (htl : timeline m' = timeline m) (hp : pend m = []) (hp' : pend m' = []) : CO m m' false :=
  ⟨inv', hn, fun h => (by cases h), fun _ => ⟨by simp [acct, srcs, htl, hp, hp'], by rw [hp, hp']⟩⟩

@[simp] theorem timeline_upd_st (m : M) (s : State) : timeline { m with st := s } = timeline m := rfl

-- handlers ------------------------------------------------------------------

@[simp] theorem emit_modeInfo (m : M) : (emit m).modeInfo = m.modeInfo := rfl
@[simp] theorem emit_source (m : M) : (emit m).source = m.source := rfl
@[simp] theorem direct_modeInfo (m : M) (rows : List Row) : (direct m rows).modeInfo = m.modeInfo := by
  unfold direct; split <;> rfl
@[simp] theorem direct_source (m : M) (rows : List Row) : (direct m rows).source = m.source := by
  unfold direct; split <;> rfl
@[simp] theorem flushMP_modeInfo (m : M) : (flushMP m).modeInfo = m.modeInfo := by
  unfold flushMP; split <;> rfl
@[simp] theorem flushMP_source (m : M) : (flushMP m).source = m.source := by
  unfold flushMP; split <;> rfl

theorem timeline_direct_emit (x : M) (rows : List Row) (hm : x.minus = []) (hp : x.plus = []) :
    timeline (direct (emit x) rows) = timeline x ++ rows := by
  simp [timeline, hm, hp]

theorem pend_direct (m : M) (rows : List Row) : pend (direct m rows) = pend m := by
  unfold pend; rw [direct_st]
theorem pend_emit (m : M) : pend (emit m) = pend m := rfl
theorem pend_flushMP (m : M) : pend (flushMP m) = pend m := by
  unfold pend; rw [flushMP_st]

theorem handleCommitMeta_co {cfg : Cfg} {m m' : M} {l : L} {b : Bool} (nf : CONormal cfg) (inv : COInv m)
    (hp : pend m = [] ∨ HunkBody l) (e : handleCommitMeta cfg m l = .ok (b, m')) : CO m m' b := by
  obtain ⟨hco, hcd, _, _⟩ := nf
  unfold handleCommitMeta at e
  split at e
  · cases e; exact CO.pass inv
  · rename_i hc
    have hc' : l.commitRe = true := by simpa using hc
    have hp0 : pend m = [] := by
      rcases hp with h | h
      · exact h
      · rw [h.1] at hc'; cases hc'
    have hmi : (flushMP m).modeInfo = [] := by simp [inv.mode]
    rw [pendingDiffName_co hco hmi] at e
    split at e
    · simp only [hco, not_true_eq_false, and_false, if_false] at e
      cases e
      obtain ⟨row, hr, hs⟩ := drawRows_none_single cfg.commitStyle RowKind.commit l.text l.raw [] m.n hcd
      rw [hr]
      refine CO.claim (row := row) ⟨?_, ?_, ?_⟩ ?_ ?_ hs hp0 ?_
      · rw [direct_modeInfo]; exact hmi
      · rw [direct_source]; exact (flushMP_source m).trans inv.source
      · intro dt hh line raw src h; rw [direct_st] at h; cases h
      · rw [direct_n]; exact flushMP_n m
      · refine (timeline_direct_emit _ _ ?_ ?_).trans ?_
        · exact flushMP_minus m
        · exact flushMP_plus m
        · exact congrArg (· ++ [row]) (timeline_flushMP m)
      · rw [pend_direct]; rfl
    · cases e
      exact CO.passUpd ⟨hmi, (flushMP_source m).trans inv.source, fun _ _ _ _ _ h => by cases h⟩ (flushMP_n m)
        (timeline_flushMP m) hp0 rfl

/-- `x` is `m` up to fields that neither the timeline nor the invariant reads -/
structure Same (m x : M) : Prop where
  tl : timeline x = timeline m
  st : x.st = m.st
  mode : x.modeInfo = m.modeInfo
  source : x.source = m.source
  n : x.n = m.n

theorem Same.refl (m : M) : Same m m := ⟨rfl, rfl, rfl, rfl, rfl⟩

theorem Same.flushMP {m x : M} (h : Same m x) : Same m (flushMP x) :=
  ⟨(timeline_flushMP x).trans h.tl, (flushMP_st x).trans h.st, (flushMP_modeInfo x).trans h.mode,
   (flushMP_source x).trans h.source, (flushMP_n x).trans h.n⟩

theorem Same.pend_eq {m x : M} (h : Same m x) : Machine.pend x = Machine.pend m := by unfold Machine.pend; rw [h.st]

theorem ok_pair {α β ε : Type} {p : α × β} {a : α} {b : β} (e : (Except.ok p : Except ε (α × β)) = .ok (a, b)) :
    a = p.1 ∧ b = p.2 := by cases e; exact ⟨rfl, rfl⟩

@[simp] theorem writeGeneric_source (cfg : Cfg) (m : M) (t r : Str) : (writeGeneric cfg m t r).source = m.source := by
  unfold writeGeneric; split <;> simp

theorem pend_writeGeneric (cfg : Cfg) (m : M) (t r : Str) : pend (writeGeneric cfg m t r) = pend m := by
  unfold pend; rw [writeGeneric_st]

/-- `should_write_generic_diff_header_header_line` in color-only mode: claims, one row -/
theorem shouldWriteGeneric_co {cfg : Cfg} {m x : M} (l : L) (nf : CONormal cfg) (inv : COInv m)
    (hp0 : pend m = []) (hx : Same m x) :
    (shouldWriteGeneric cfg x l).1 = true ∧ CO m (shouldWriteGeneric cfg x l).2 true := by
  have hco := nf.1
  unfold shouldWriteGeneric
  simp only [hco, if_true, true_and]
  obtain ⟨row, htl, hsrc, hmode⟩ := writeGeneric_co nf x l.text l.raw
  have hst : (writeGeneric cfg (emit (Machine.flushMP x)) l.text l.raw).st = m.st := by
    rw [writeGeneric_st, emit_st, flushMP_st]; exact hx.st
  refine CO.claim (row := row) ⟨hmode, ?_, ?_⟩ ?_ ?_ ?_ hp0 ?_
  · rw [writeGeneric_source, emit_source, flushMP_source]; exact hx.source.trans inv.source
  · intro dt hh line raw src h; exact inv.hhLine dt hh line raw src (hst ▸ h)
  · rw [writeGeneric_n, emit_n, flushMP_n]; exact hx.n
  · rw [htl, hx.tl]
  · rw [hsrc, hx.n]
  · unfold pend; rw [hst]; exact hp0

theorem handleFileOperation_co {cfg : Cfg} {m m' : M} {l : L} {b : Bool} (nf : CONormal cfg) (inv : COInv m)
    (hp : pend m = [] ∨ HunkBody l) (e : handleFileOperation cfg m l = .ok (b, m')) : CO m m' b := by
  unfold handleFileOperation at e
  split at e
  · cases e; exact CO.pass inv
  · rename_i ht
    have hp0 : pend m = [] := by
      rcases pend_cases hp with h | ⟨h, _⟩
      · exact h
      · simp [headerLineTest_false inv h] at ht
    have hx : Same m (fileOpUpdate m (parseDiffHeaderLine l.text (m.source = .gitDiff)).2
        ((repeatedFilePath m.diffLine m.diffLineG).getD [])) := by
      unfold fileOpUpdate; split <;> exact ⟨rfl, rfl, rfl, rfl, rfl⟩
    obtain ⟨h1, h2⟩ := shouldWriteGeneric_co l nf inv hp0 hx
    unfold fileOpFinish at e
    simp only [h1, if_true] at e
    obtain ⟨rfl, rfl⟩ := ok_pair e; exact h2

theorem handleMinusLine_co {cfg : Cfg} {m m' : M} {l : L} {b : Bool} (nf : CONormal cfg) (inv : COInv m)
    (hp : pend m = [] ∨ HunkBody l) (e : handleMinusLine cfg m l = .ok (b, m')) : CO m m' b := by
  unfold handleMinusLine at e
  split at e
  · cases e; exact CO.pass inv
  · rename_i ht
    have hp0 : pend m = [] := by
      rcases pend_cases hp with h | ⟨h, _⟩
      · exact h
      · simp [minusLineTest, headerLineTest_false inv h] at ht
    simp only at e
    have hsrc : (m.source = Source.diffUnified) = False := by simp [inv.source]
    simp only [hsrc, if_false] at e
    have hx : Same m (flushMP { m with minusFile := (parseDiffHeaderLine l.text (m.source = .gitDiff)).1,
                                        minusEvent := (parseDiffHeaderLine l.text (m.source = .gitDiff)).2,
                                        st := m.st, handledPair := m.handledPair }) :=
      Same.flushMP ⟨rfl, rfl, rfl, rfl, rfl⟩
    obtain ⟨h1, h2⟩ := shouldWriteGeneric_co l nf inv hp0 hx
    obtain ⟨rfl, rfl⟩ := ok_pair e
    rw [h1]; exact h2

theorem handlePlusLine_co {cfg : Cfg} {m m' : M} {l : L} {b : Bool} (nf : CONormal cfg) (inv : COInv m)
    (hp : pend m = [] ∨ HunkBody l) (e : handlePlusLine cfg m l = .ok (b, m')) : CO m m' b := by
  unfold handlePlusLine at e
  split at e
  · cases e; exact CO.pass inv
  · rename_i ht
    have hp0 : pend m = [] := by
      rcases pend_cases hp with h | ⟨h, _⟩
      · exact h
      · simp [plusLineTest, headerLineTest_false inv h] at ht
    simp only at e
    have hx : Same m (flushMP { m with plusFile := (parseDiffHeaderLine l.text (m.source = .gitDiff)).1,
                                        plusEvent := (parseDiffHeaderLine l.text (m.source = .gitDiff)).2,
                                        currentPair := some (m.minusFile, (parseDiffHeaderLine l.text (m.source = .gitDiff)).1) }) :=
      Same.flushMP ⟨rfl, rfl, rfl, rfl, rfl⟩
    obtain ⟨h1, h2⟩ := shouldWriteGeneric_co l nf inv hp0 hx
    unfold plusLineFinish at e
    simp only [h1, if_true] at e
    obtain ⟨rfl, rfl⟩ := ok_pair e; exact h2

theorem handleDiffStat_co {cfg : Cfg} {m m' : M} {l : L} {b : Bool} (inv : COInv m)
    (e : handleDiffStat cfg m l = .ok (b, m')) : CO m m' b := by
  unfold handleDiffStat at e; cases e; exact CO.pass inv

theorem nonBody_diffLine : nonBody Generated.Markers.diffLine = true := by decide
theorem nonBody_hunkHeader : nonBody Generated.Markers.hunkHeader = true := by decide
theorem nonBody_oldMode : nonBody Generated.Markers.oldMode = true := by decide
theorem nonBody_newMode : nonBody Generated.Markers.newMode = true := by decide
theorem nonBody_binaryFiles : nonBody Generated.Markers.binaryFiles = true := by decide
theorem nonBody_submoduleLog : nonBody Generated.Markers.submoduleLog = true := by decide

theorem handleDiffHeaderDiff_co {cfg : Cfg} {m m' : M} {l : L} {b : Bool} (nf : CONormal cfg) (inv : COInv m)
    (hp : pend m = [] ∨ HunkBody l) (e : handleDiffHeaderDiff cfg m l = .ok (b, m')) : CO m m' b := by
  have hco := nf.1
  unfold handleDiffHeaderDiff at e
  split at e
  · cases e; exact CO.pass inv
  · rename_i ht
    have hp0 : pend m = [] := by
      rcases pend_cases hp with h | ⟨_, h⟩
      · exact h
      · simp [startsWith_false_of_head h.2 nonBody_diffLine] at ht
    have hmi : ({ flushMP m with st := diffLineState l } : M).modeInfo = [] := (flushMP_modeInfo m).trans inv.mode
    rw [pendingDiffName_co hco hmi] at e
    rw [shouldSkipLine_co _ hco] at e
    simp only [Bool.false_eq_true, if_false] at e
    cases e
    have hds : isHunkHeader (diffLineState l) = false := by unfold diffLineState; split <;> rfl
    unfold emitLineUnchanged
    refine CO.claim (row := { kind := .raw, text := l.raw, src := (diffLineFields { flushMP m with st := diffLineState l } l).n })
      ⟨?_, ?_, ?_⟩ ?_ ?_ ?_ hp0 ?_
    · rw [direct_modeInfo, emit_modeInfo, flushMP_modeInfo]; exact hmi
    · rw [direct_source, emit_source, flushMP_source]; exact (flushMP_source m).trans inv.source
    · intro dt hh line raw src h
      rw [direct_st, emit_st, flushMP_st] at h
      have : isHunkHeader (diffLineFields { flushMP m with st := diffLineState l } l).st = false := hds
      rw [h] at this; simp [isHunkHeader] at this
    · rw [direct_n, emit_n, flushMP_n]; exact flushMP_n m
    · rw [timeline_direct_flushed]
      exact congrArg (· ++ _) (timeline_flushMP m)
    · exact flushMP_n m
    · rw [pend_direct, pend_emit, pend_flushMP]
      exact pend_nil_of_not_hh hds

theorem handleHunkHeader_co {cfg : Cfg} {m m' : M} {l : L} {b : Bool} (inv : COInv m)
    (hp : pend m = [] ∨ HunkBody l) (e : handleHunkHeader cfg m l = .ok (b, m')) : CO m m' b := by
  unfold handleHunkHeader at e
  split at e
  · cases e; exact CO.pass inv
  · rename_i ht
    have hsw : startsWith l.text Generated.Markers.hunkHeader = true := by
      cases h : startsWith l.text Generated.Markers.hunkHeader
      · simp [h] at ht
      · rfl
    have hp0 : pend m = [] := by
      rcases pend_cases hp with h | ⟨_, h⟩
      · exact h
      · rw [startsWith_false_of_head h.2 nonBody_hunkHeader] at hsw; cases hsw
    split at e
    · cases e; exact CO.pass inv
    · cases e
      have hne : l.text ≠ [] := by
        intro h; rw [h] at hsw; simp [startsWith, Generated.Markers.hunkHeader, List.isPrefixOf] at hsw
      refine ⟨⟨inv.mode, inv.source, ?_⟩, rfl, fun _ => ?_, fun h => by cases h⟩
      · intro dt hh line raw src h; cases h; exact hne
      · have : acct m = srcs m := by simp [acct, hp0]
        rw [this]; rfl

end Machine
