import Proofs.Machine.Run
/-!
`--color-only`: the whole handler chain puts exactly one row per input line on the timeline.

`acct m` = the input-line indices accounted for so far, in display order: the `src` of every row
on the timeline, followed by the index of a hunk-header line whose row is still pending (delta
writes the hunk header when the next line of the hunk arrives). The theorem `step_co`: under the
normal form `--color-only` forces, from a git source, one step appends exactly the current line
index to `acct`. The one shape of input for which this is false is a hunk header that is not
followed by a line of its hunk (`HunkBody`); git never produces it, and the hypothesis is explicit.
-/
set_option linter.unusedSimpArgs false
set_option linter.unusedVariables false
namespace Machine
open Headers

/-- what `set_options` forces under `--color-only`: the three decoration styles are `none` -/
def CONormal (cfg : Cfg) : Prop :=
  cfg.colorOnly = true ∧ cfg.commitStyle.deco = .none ∧ cfg.fileStyle.deco = .none ∧
  cfg.hunkHeaderStyle.deco = .none

/-- the input index of a hunk-header line whose row has not been written yet -/
def pend (m : M) : List Nat :=
  match m.st with
  | .hunkHeader _ _ _ _ src => [src]
  | _ => []

def srcs (m : M) : List Nat := (timeline m).map (·.src)

/-- input lines accounted for, in display order -/
def acct (m : M) : List Nat := srcs m ++ pend m

structure COInv (m : M) : Prop where
  mode : m.modeInfo = []
  source : m.source = .gitDiff
  hhLine : ∀ dt hh line raw src, m.st = .hunkHeader dt hh line raw src → line ≠ []

/-- result of one handler in color-only mode -/
structure CO (l : L) (m m' : M) (b : Bool) : Prop where
  inv : COInv m'
  n : m'.n = m.n
  claimed : b = true → acct m' = acct m ++ [m.n]
  passed : b = false → acct m' = acct m ∧ pend m' = pend m
  /-- only a hunk-header line leaves a header pending -/
  fresh : b = true → pend m' = [] ∨ startsWith l.text Generated.Markers.hunkHeader = true

def bodyChar (c : Char) : Bool := c == ' ' || c == '+' || c == '-' || c == '\\'

/-- a line of a hunk body as git writes it: not a commit line; empty, or starting with one of
` `, `+`, `-`, `\` -/
def HunkBody (l : L) : Prop := l.commitRe = false ∧ l.text.head?.all bodyChar = true

def nonBody : Str → Bool
  | c :: _ => !bodyChar c
  | [] => false

theorem startsWith_false_of_bodyHead {s p : Str} (hs : s.head?.all bodyChar = true) (hp : nonBody p = true) :
    startsWith s p = false := by
  cases p with
  | nil => simp [nonBody] at hp
  | cons a ps =>
    cases s with
    | nil => simp [startsWith, List.isPrefixOf]
    | cons c cs =>
      simp only [nonBody, Bool.not_eq_true'] at hp
      simp only [List.head?_cons, Option.all_some] at hs
      simp only [startsWith, List.isPrefixOf, Bool.and_eq_false_imp, beq_iff_eq]
      intro h; subst h; rw [hp] at hs; cases hs

theorem startsWithAny_false_of_bodyHead {s : Str} {ps : List Str} (hs : s.head?.all bodyChar = true)
    (hp : ps.all nonBody = true) : startsWithAny s ps = false := by
  unfold startsWithAny
  rw [List.any_eq_false]
  intro p hmem
  have := List.all_eq_true.mp hp p hmem
  simp [startsWith_false_of_bodyHead hs this]

theorem CO.pass {l : L} {m : M} (inv : COInv m) : CO l m m false :=
  ⟨inv, rfl, fun h => (by cases h), fun _ => ⟨rfl, rfl⟩, fun h => (by cases h)⟩

theorem srcs_of_tl {m m' : M} {rows : List Row} (h : timeline m' = timeline m ++ rows) :
    srcs m' = srcs m ++ rows.map (·.src) := by
  simp [srcs, h]

theorem drawRows_none_single (st : ElemStyle) (k : RowKind) (t r a : Str) (src : Nat) (h : st.deco = .none) :
    ∃ row, drawRows st k t r a src = [row] ∧ row.src = src := by
  unfold drawRows
  simp only [h]
  split <;> exact ⟨_, rfl, rfl⟩

@[simp] theorem pendingDiffName_co {cfg : Cfg} {m : M} (hco : cfg.colorOnly = true) (hmi : m.modeInfo = []) :
    pendingDiffName cfg m = m := by
  unfold pendingDiffName
  simp [hco, hmi]

theorem shouldSkipLine_co {cfg : Cfg} (m : M) (hco : cfg.colorOnly = true) : shouldSkipLine cfg m = false := by
  unfold shouldSkipLine; simp [hco]

/-- `write_generic_diff_header_header_line` after a flush, in color-only mode: exactly one row -/
theorem writeGeneric_co {cfg : Cfg} (nf : CONormal cfg) (m : M) (t raw : Str) :
    ∃ row, timeline (writeGeneric cfg (emit (flushMP m)) t raw) = timeline m ++ [row] ∧ row.src = m.n ∧
      (writeGeneric cfg (emit (flushMP m)) t raw).modeInfo = [] := by
  obtain ⟨hco, _, hfd, _⟩ := nf
  unfold writeGeneric
  simp only [hco, not_true_eq_false, and_false, if_false, if_true, List.nil_append]
  obtain ⟨row, hr, hs⟩ := drawRows_none_single cfg.fileStyle RowKind.file t raw (emit (flushMP m)).modeInfo
    (emit (flushMP m)).n hfd
  refine ⟨row, ?_, by simpa using hs, by simp⟩
  rw [hr]
  have := timeline_direct_flushed m [row]
  simpa [timeline] using this

-- pend / state helpers ---------------------------------------------------------

theorem pend_nil_of_not_hh {m : M} (h : isHunkHeader m.st = false) : pend m = [] := by
  unfold pend; cases hs : m.st <;> simp_all [isHunkHeader]

theorem hh_of_pend {m : M} (h : pend m ≠ []) : isHunkHeader m.st = true := by
  cases hh : isHunkHeader m.st
  · exact absurd (pend_nil_of_not_hh hh) h
  · rfl

theorem not_diffHeader_of_hh {s : State} (h : isHunkHeader s = true) : isDiffHeader s = false := by
  cases s <;> simp_all [isHunkHeader, isDiffHeader]

theorem hunkState_of_hh {s : State} (h : isHunkHeader s = true) : isHunkState s = true := by
  cases s <;> simp_all [isHunkHeader, isHunkState]

theorem pend_cases {m : M} {l : L} (hp : pend m = [] ∨ HunkBody l) :
    pend m = [] ∨ (isHunkHeader m.st = true ∧ HunkBody l) := by
  by_cases h : pend m = []
  · exact Or.inl h
  · rcases hp with h' | h'
    · exact Or.inl h'
    · exact Or.inr ⟨hh_of_pend h, h'⟩

theorem headerLineTest_false {m : M} (inv : COInv m) (h : isHunkHeader m.st = true) : headerLineTest m = false := by
  unfold headerLineTest; simp [not_diffHeader_of_hh h, inv.source]

theorem COInv.upd {m m' : M} (inv : COInv m) (hm : m'.modeInfo = m.modeInfo) (hs : m'.source = m.source)
    (hst : isHunkHeader m'.st = false) : COInv m' :=
  ⟨hm ▸ inv.mode, hs ▸ inv.source, fun dt hh line raw src h => by rw [h] at hst; simp [isHunkHeader] at hst⟩

theorem COInv.same {m m' : M} (inv : COInv m) (hm : m'.modeInfo = m.modeInfo) (hs : m'.source = m.source)
    (hst : m'.st = m.st) : COInv m' :=
  ⟨hm ▸ inv.mode, hs ▸ inv.source, fun dt hh line raw src h => inv.hhLine dt hh line raw src (hst ▸ h)⟩

/-- a handler that wrote exactly one row for the current line and left no header pending -/
theorem CO.claim {l : L} {m m' : M} {row : Row} (inv' : COInv m') (hn : m'.n = m.n)
    (htl : timeline m' = timeline m ++ [row]) (hsrc : row.src = m.n) (hp : pend m = []) (hp' : pend m' = []) :
    CO l m m' true :=
  ⟨inv', hn, fun _ => by simp [acct, srcs_of_tl htl, hp, hp', hsrc], fun h => (by cases h), fun _ => Or.inl hp'⟩

/-- a handler that passed the line on, possibly changing the state, with nothing pending -/
theorem CO.passUpd {l : L} {m m' : M} (inv' : COInv m') (hn : m'.n = m.n)
    (htl : timeline m' = timeline m) (hp : pend m = []) (hp' : pend m' = []) : CO l m m' false :=
  ⟨inv', hn, fun h => (by cases h), fun _ => ⟨by simp [acct, srcs, htl, hp, hp'], by rw [hp, hp']⟩, fun h => (by cases h)⟩

@[simp] theorem timeline_upd_st (m : M) (s : State) : timeline { m with st := s } = timeline m := rfl

-- handlers ------------------------------------------------------------------

@[simp] theorem emit_modeInfo (m : M) : (emit m).modeInfo = m.modeInfo := rfl
@[simp] theorem emit_source (m : M) : (emit m).source = m.source := rfl
@[simp] theorem direct_modeInfo (m : M) (rows : List Row) : (direct m rows).modeInfo = m.modeInfo := by
  unfold direct; split <;> rfl
@[simp] theorem direct_source (m : M) (rows : List Row) : (direct m rows).source = m.source := by
  unfold direct; split <;> rfl
@[simp] theorem flushMP_modeInfo (m : M) : (flushMP m).modeInfo = m.modeInfo := by
  unfold flushMP; split <;> rfl
@[simp] theorem flushMP_source (m : M) : (flushMP m).source = m.source := by
  unfold flushMP; split <;> rfl

theorem timeline_direct_emit (x : M) (rows : List Row) (hm : x.minus = []) (hp : x.plus = []) :
    timeline (direct (emit x) rows) = timeline x ++ rows := by
  simp [timeline, hm, hp]

theorem pend_direct (m : M) (rows : List Row) : pend (direct m rows) = pend m := by
  unfold pend; rw [direct_st]
theorem pend_emit (m : M) : pend (emit m) = pend m := rfl
theorem pend_flushMP (m : M) : pend (flushMP m) = pend m := by
  unfold pend; rw [flushMP_st]

theorem handleCommitMeta_co {cfg : Cfg} {m m' : M} {l : L} {b : Bool} (nf : CONormal cfg) (inv : COInv m)
    (hp : pend m = [] ∨ HunkBody l) (e : handleCommitMeta cfg m l = .ok (b, m')) : CO l m m' b := by
  obtain ⟨hco, hcd, _, _⟩ := nf
  unfold handleCommitMeta at e
  split at e
  · cases e; exact CO.pass inv
  · rename_i hc
    have hc' : l.commitRe = true := by simpa using hc
    have hp0 : pend m = [] := by
      rcases hp with h | h
      · exact h
      · rw [h.1] at hc'; cases hc'
    have hmi : (flushMP m).modeInfo = [] := by simp [inv.mode]
    rw [pendingDiffName_co hco hmi] at e
    split at e
    · simp only [hco, not_true_eq_false, and_false, if_false] at e
      cases e
      obtain ⟨row, hr, hs⟩ := drawRows_none_single cfg.commitStyle RowKind.commit l.text l.raw [] m.n hcd
      rw [hr]
      refine CO.claim (row := row) ⟨?_, ?_, ?_⟩ ?_ ?_ hs hp0 ?_
      · rw [direct_modeInfo]; exact hmi
      · rw [direct_source]; exact (flushMP_source m).trans inv.source
      · intro dt hh line raw src h; rw [direct_st] at h; cases h
      · rw [direct_n]; exact flushMP_n m
      · refine (timeline_direct_emit _ _ ?_ ?_).trans ?_
        · exact flushMP_minus m
        · exact flushMP_plus m
        · exact congrArg (· ++ [row]) (timeline_flushMP m)
      · rw [pend_direct]; rfl
    · cases e
      exact CO.passUpd ⟨hmi, (flushMP_source m).trans inv.source, fun _ _ _ _ _ h => by cases h⟩ (flushMP_n m)
        (timeline_flushMP m) hp0 rfl

/-- `x` is `m` up to fields that neither the timeline nor the invariant reads -/
structure Same (m x : M) : Prop where
  tl : timeline x = timeline m
  st : x.st = m.st
  mode : x.modeInfo = m.modeInfo
  source : x.source = m.source
  n : x.n = m.n

theorem Same.refl (m : M) : Same m m := ⟨rfl, rfl, rfl, rfl, rfl⟩

theorem Same.flushMP {m x : M} (h : Same m x) : Same m (flushMP x) :=
  ⟨(timeline_flushMP x).trans h.tl, (flushMP_st x).trans h.st, (flushMP_modeInfo x).trans h.mode,
   (flushMP_source x).trans h.source, (flushMP_n x).trans h.n⟩

theorem Same.pend_eq {m x : M} (h : Same m x) : Machine.pend x = Machine.pend m := by unfold Machine.pend; rw [h.st]

theorem ok_pair {α β ε : Type} {p : α × β} {a : α} {b : β} (e : (Except.ok p : Except ε (α × β)) = .ok (a, b)) :
    a = p.1 ∧ b = p.2 := by cases e; exact ⟨rfl, rfl⟩

@[simp] theorem writeGeneric_source (cfg : Cfg) (m : M) (t r : Str) : (writeGeneric cfg m t r).source = m.source := by
  unfold writeGeneric; split <;> simp

theorem pend_writeGeneric (cfg : Cfg) (m : M) (t r : Str) : pend (writeGeneric cfg m t r) = pend m := by
  unfold pend; rw [writeGeneric_st]

/-- `should_write_generic_diff_header_header_line` in color-only mode: claims, one row -/
theorem shouldWriteGeneric_co {cfg : Cfg} {m x : M} (l : L) (nf : CONormal cfg) (inv : COInv m)
    (hp0 : pend m = []) (hx : Same m x) :
    (shouldWriteGeneric cfg x l).1 = true ∧ CO l m (shouldWriteGeneric cfg x l).2 true := by
  have hco := nf.1
  unfold shouldWriteGeneric
  simp only [hco, if_true, true_and]
  obtain ⟨row, htl, hsrc, hmode⟩ := writeGeneric_co nf x l.text l.raw
  have hst : (writeGeneric cfg (emit (Machine.flushMP x)) l.text l.raw).st = m.st := by
    rw [writeGeneric_st, emit_st, flushMP_st]; exact hx.st
  refine CO.claim (row := row) ⟨hmode, ?_, ?_⟩ ?_ ?_ ?_ hp0 ?_
  · rw [writeGeneric_source, emit_source, flushMP_source]; exact hx.source.trans inv.source
  · intro dt hh line raw src h; exact inv.hhLine dt hh line raw src (hst ▸ h)
  · rw [writeGeneric_n, emit_n, flushMP_n]; exact hx.n
  · rw [htl, hx.tl]
  · rw [hsrc, hx.n]
  · unfold pend; rw [hst]; exact hp0

theorem handleFileOperation_co {cfg : Cfg} {m m' : M} {l : L} {b : Bool} (nf : CONormal cfg) (inv : COInv m)
    (hp : pend m = [] ∨ HunkBody l) (e : handleFileOperation cfg m l = .ok (b, m')) : CO l m m' b := by
  unfold handleFileOperation at e
  split at e
  · cases e; exact CO.pass inv
  · rename_i ht
    have hp0 : pend m = [] := by
      rcases pend_cases hp with h | ⟨h, _⟩
      · exact h
      · simp [headerLineTest_false inv h] at ht
    have hx : Same m (fileOpUpdate m (parseDiffHeaderLine l.text (m.source = .gitDiff)).2
        ((repeatedFilePath m.diffLine m.diffLineG).getD [])) := by
      unfold fileOpUpdate; split <;> exact ⟨rfl, rfl, rfl, rfl, rfl⟩
    obtain ⟨h1, h2⟩ := shouldWriteGeneric_co l nf inv hp0 hx
    unfold fileOpFinish at e
    simp only [h1, if_true] at e
    obtain ⟨rfl, rfl⟩ := ok_pair e; exact h2

theorem handleMinusLine_co {cfg : Cfg} {m m' : M} {l : L} {b : Bool} (nf : CONormal cfg) (inv : COInv m)
    (hp : pend m = [] ∨ HunkBody l) (e : handleMinusLine cfg m l = .ok (b, m')) : CO l m m' b := by
  unfold handleMinusLine at e
  split at e
  · cases e; exact CO.pass inv
  · rename_i ht
    have hp0 : pend m = [] := by
      rcases pend_cases hp with h | ⟨h, _⟩
      · exact h
      · simp [minusLineTest, headerLineTest_false inv h] at ht
    simp only at e
    have hsrc : (m.source = Source.diffUnified) = False := by simp [inv.source]
    simp only [hsrc, if_false] at e
    have hx : Same m (flushMP { m with minusFile := (parseDiffHeaderLine l.text (m.source = .gitDiff)).1,
                                        minusEvent := (parseDiffHeaderLine l.text (m.source = .gitDiff)).2,
                                        st := m.st, handledPair := m.handledPair }) :=
      Same.flushMP ⟨rfl, rfl, rfl, rfl, rfl⟩
    obtain ⟨h1, h2⟩ := shouldWriteGeneric_co l nf inv hp0 hx
    obtain ⟨rfl, rfl⟩ := ok_pair e
    rw [h1]; exact h2

theorem handlePlusLine_co {cfg : Cfg} {m m' : M} {l : L} {b : Bool} (nf : CONormal cfg) (inv : COInv m)
    (hp : pend m = [] ∨ HunkBody l) (e : handlePlusLine cfg m l = .ok (b, m')) : CO l m m' b := by
  unfold handlePlusLine at e
  split at e
  · cases e; exact CO.pass inv
  · rename_i ht
    have hp0 : pend m = [] := by
      rcases pend_cases hp with h | ⟨h, _⟩
      · exact h
      · simp [plusLineTest, not_diffHeader_of_hh h] at ht
    simp only at e
    have hx : Same m (flushMP { m with plusFile := (parseDiffHeaderLine l.text (m.source = .gitDiff)).1,
                                        plusEvent := (parseDiffHeaderLine l.text (m.source = .gitDiff)).2,
                                        currentPair := some (m.minusFile, (parseDiffHeaderLine l.text (m.source = .gitDiff)).1) }) :=
      Same.flushMP ⟨rfl, rfl, rfl, rfl, rfl⟩
    obtain ⟨h1, h2⟩ := shouldWriteGeneric_co l nf inv hp0 hx
    unfold plusLineFinish at e
    simp only [h1, if_true] at e
    obtain ⟨rfl, rfl⟩ := ok_pair e; exact h2

theorem handleDiffStat_co {cfg : Cfg} {m m' : M} {l : L} {b : Bool} (inv : COInv m)
    (e : handleDiffStat cfg m l = .ok (b, m')) : CO l m m' b := by
  unfold handleDiffStat at e; cases e; exact CO.pass inv

theorem nonBody_diffLine : nonBody Generated.Markers.diffLine = true := by decide
theorem nonBody_hunkHeader : nonBody Generated.Markers.hunkHeader = true := by decide
theorem nonBody_oldMode : nonBody Generated.Markers.oldMode = true := by decide
theorem nonBody_newMode : nonBody Generated.Markers.newMode = true := by decide
theorem nonBody_binaryFiles : nonBody Generated.Markers.binaryFiles = true := by decide
theorem nonBody_submoduleLog : nonBody Generated.Markers.submoduleLog = true := by decide

theorem handleDiffHeaderDiff_co {cfg : Cfg} {m m' : M} {l : L} {b : Bool} (nf : CONormal cfg) (inv : COInv m)
    (hp : pend m = [] ∨ HunkBody l) (e : handleDiffHeaderDiff cfg m l = .ok (b, m')) : CO l m m' b := by
  have hco := nf.1
  unfold handleDiffHeaderDiff at e
  split at e
  · cases e; exact CO.pass inv
  · rename_i ht
    have hp0 : pend m = [] := by
      rcases pend_cases hp with h | ⟨_, h⟩
      · exact h
      · simp [startsWith_false_of_bodyHead h.2 nonBody_diffLine] at ht
    have hmi : ({ flushMP m with st := diffLineState l } : M).modeInfo = [] := (flushMP_modeInfo m).trans inv.mode
    rw [pendingDiffName_co hco hmi] at e
    rw [shouldSkipLine_co _ hco] at e
    simp only [Bool.false_eq_true, if_false] at e
    cases e
    have hds : isHunkHeader (diffLineState l) = false := by unfold diffLineState; split <;> rfl
    unfold emitLineUnchanged
    refine CO.claim (row := { kind := .raw, text := l.raw, src := (diffLineFields { flushMP m with st := diffLineState l } l).n })
      ⟨?_, ?_, ?_⟩ ?_ ?_ ?_ hp0 ?_
    · rw [direct_modeInfo, emit_modeInfo, flushMP_modeInfo]; exact hmi
    · rw [direct_source, emit_source, flushMP_source]; exact (flushMP_source m).trans inv.source
    · intro dt hh line raw src h
      rw [direct_st, emit_st, flushMP_st] at h
      have : isHunkHeader (diffLineFields { flushMP m with st := diffLineState l } l).st = false := hds
      rw [h] at this; simp [isHunkHeader] at this
    · rw [direct_n, emit_n, flushMP_n]; exact flushMP_n m
    · rw [timeline_direct_flushed]
      exact congrArg (· ++ _) (timeline_flushMP m)
    · exact flushMP_n m
    · rw [pend_direct, pend_emit, pend_flushMP]
      exact pend_nil_of_not_hh hds

theorem handleHunkHeader_co {cfg : Cfg} {m m' : M} {l : L} {b : Bool} (inv : COInv m)
    (hp : pend m = [] ∨ HunkBody l) (e : handleHunkHeader cfg m l = .ok (b, m')) : CO l m m' b := by
  unfold handleHunkHeader at e
  split at e
  · cases e; exact CO.pass inv
  · rename_i ht
    have hsw : startsWith l.text Generated.Markers.hunkHeader = true := by
      cases h : startsWith l.text Generated.Markers.hunkHeader
      · simp [h] at ht
      · rfl
    have hp0 : pend m = [] := by
      rcases pend_cases hp with h | ⟨_, h⟩
      · exact h
      · rw [startsWith_false_of_bodyHead h.2 nonBody_hunkHeader] at hsw; cases hsw
    split at e
    · cases e; exact CO.pass inv
    · cases e
      have hne : l.text ≠ [] := by
        intro h; rw [h] at hsw; simp [startsWith, Generated.Markers.hunkHeader, List.isPrefixOf] at hsw
      refine ⟨⟨inv.mode, inv.source, ?_⟩, rfl, fun _ => ?_, fun h => (by cases h), fun _ => Or.inr hsw⟩
      · intro dt hh line raw src h; cases h; exact hne
      · have : acct m = srcs m := by simp [acct, hp0]
        rw [this]; rfl

theorem stripPrefix_none_of_bodyHead {s p : Str} (hs : s.head?.all bodyChar = true) (hp : nonBody p = true) :
    stripPrefix s p = none := by
  unfold stripPrefix; simp [startsWith_false_of_bodyHead hs hp]

theorem handleModeLine_co {cfg : Cfg} {m m' : M} {l : L} {b : Bool} (nf : CONormal cfg) (inv : COInv m)
    (hp : pend m = [] ∨ HunkBody l) (e : handleModeLine cfg m l = .ok (b, m')) : CO l m m' b := by
  have hco := nf.1
  rcases pend_cases hp with hp0 | ⟨_, hb⟩
  · unfold handleModeLine at e
    simp only [hco, not_true_eq_false, and_false, false_and, if_false] at e
    split at e
    · cases e
      exact CO.passUpd ⟨inv.mode, inv.source, fun _ _ _ _ _ h => by cases h⟩ rfl rfl hp0 rfl
    · split at e
      · cases e
        exact CO.passUpd ⟨inv.mode, inv.source, fun _ _ _ _ _ h => by cases h⟩ rfl rfl hp0 rfl
      · cases e; exact CO.pass inv
  · unfold handleModeLine at e
    rw [stripPrefix_none_of_bodyHead hb.2 nonBody_oldMode, stripPrefix_none_of_bodyHead hb.2 nonBody_newMode] at e
    cases e; exact CO.pass inv

/-- `handle_additional_cases` in color-only mode, nothing pending, target state not a hunk header -/
theorem handleAdditionalCases_co {cfg : Cfg} {m m' : M} {l : L} {b : Bool} {to : State} (nf : CONormal cfg)
    (inv : COInv m) (hp0 : pend m = []) (hto : isHunkHeader to = false)
    (e : handleAdditionalCases cfg m l to = .ok (b, m')) : CO l m m' b := by
  unfold handleAdditionalCases at e
  split at e
  · cases e
    obtain ⟨row, htl, hsrc, hmode⟩ := writeGeneric_co nf { m with st := to } l.text l.raw
    have hfl : ({ flushMP m with st := to } : M) = flushMP { m with st := to } := by
      unfold flushMP; split <;> rfl
    rw [hfl]
    refine CO.claim (row := row) ⟨hmode, ?_, ?_⟩ ?_ htl hsrc hp0 ?_
    · rw [writeGeneric_source, emit_source, flushMP_source]; exact inv.source
    · intro dt hh line raw src h
      rw [writeGeneric_st, emit_st, flushMP_st] at h
      have : isHunkHeader to = true := by rw [show to = _ from h]; rfl
      rw [hto] at this; cases this
    · rw [writeGeneric_n, emit_n, flushMP_n]
    · rw [pend_writeGeneric, pend_emit, pend_flushMP]; exact pend_nil_of_not_hh hto
  · cases e
    exact CO.passUpd ⟨(flushMP_modeInfo m).trans inv.mode, (flushMP_source m).trans inv.source,
        fun dt hh line raw src h => by
          have : isHunkHeader to = true := by rw [show to = _ from h]; rfl
          rw [hto] at this; cases this⟩
      (flushMP_n m) (timeline_flushMP m) hp0 (pend_nil_of_not_hh hto)

theorem handleMisc_co {cfg : Cfg} {m m' : M} {l : L} {b : Bool} (nf : CONormal cfg) (inv : COInv m)
    (hp : pend m = [] ∨ HunkBody l) (e : handleMisc cfg m l = .ok (b, m')) : CO l m m' b := by
  have hco := nf.1
  unfold handleMisc at e
  simp only [inv.source, hco, not_true_eq_false, false_and, if_false] at e
  split at e
  · cases e; exact CO.pass inv
  · rename_i ht
    have hp0 : pend m = [] := by
      rcases pend_cases hp with h | ⟨_, h⟩
      · exact h
      · simp [startsWith_false_of_bodyHead h.2 nonBody_binaryFiles] at ht
    refine handleAdditionalCases_co nf inv hp0 ?_ e
    split
    · rename_i hd
      cases hs : m.st <;> simp_all [isDiffHeader, isHunkHeader]
    · rfl

theorem handleSubmoduleLog_co {cfg : Cfg} {m m' : M} {l : L} {b : Bool} (nf : CONormal cfg) (inv : COInv m)
    (hp : pend m = [] ∨ HunkBody l) (e : handleSubmoduleLog cfg m l = .ok (b, m')) : CO l m m' b := by
  unfold handleSubmoduleLog at e
  split at e
  · cases e; exact CO.pass inv
  · rename_i ht
    have hp0 : pend m = [] := by
      rcases pend_cases hp with h | ⟨_, h⟩
      · exact h
      · simp [startsWith_false_of_bodyHead h.2 nonBody_submoduleLog] at ht
    rw [pendingDiffName_co nf.1 ((flushMP_modeInfo m).trans inv.mode), handleAdditionalCases_flushMP] at e
    exact handleAdditionalCases_co nf inv hp0 rfl e

theorem handleSubmoduleShort_co {cfg : Cfg} {m m' : M} {l : L} {b : Bool} (nf : CONormal cfg) (inv : COInv m)
    (e : handleSubmoduleShort cfg m l = .ok (b, m')) : CO l m m' b := by
  unfold handleSubmoduleShort at e
  simp only [nf.1, Bool.or_true, if_true] at e
  cases e; exact CO.pass inv

theorem handleMergeConflict_co {cfg : Cfg} {m m' : M} {l : L} {b : Bool} (nf : CONormal cfg) (inv : COInv m)
    (e : handleMergeConflict cfg m l = .ok (b, m')) : CO l m m' b := by
  unfold handleMergeConflict at e
  simp only [nf.1, true_or, if_true] at e
  cases e; exact CO.pass inv

theorem handleGitShowFile_co {cfg : Cfg} {m m' : M} {l : L} {b : Bool} (inv : COInv m)
    (e : handleGitShowFile cfg m l = .ok (b, m')) : CO l m m' b := by
  unfold handleGitShowFile at e
  cases e
  exact ⟨⟨inv.mode, inv.source, inv.hhLine⟩, rfl, fun h => (by cases h),
    fun _ => ⟨by simp [acct, srcs, timeline_emit, pend_emit], pend_emit m⟩, fun h => (by cases h)⟩

theorem handleShouldSkip_co {cfg : Cfg} {m m' : M} {l : L} {b : Bool} (nf : CONormal cfg) (inv : COInv m)
    (e : handleShouldSkip cfg m l = .ok (b, m')) : CO l m m' b := by
  unfold handleShouldSkip at e
  rw [shouldSkipLine_co _ nf.1] at e
  cases e; exact CO.pass inv

theorem handleEmitUnchanged_co {cfg : Cfg} {m m' : M} {l : L} {b : Bool} (inv : COInv m) (hp0 : pend m = [])
    (e : handleEmitUnchanged cfg m l = .ok (b, m')) : CO l m m' b := by
  unfold handleEmitUnchanged at e
  cases e
  unfold emitLineUnchanged
  refine CO.claim (row := { kind := .raw, text := l.raw, src := m.n }) ⟨?_, ?_, ?_⟩ ?_ ?_ rfl hp0 ?_
  · rw [direct_modeInfo, emit_modeInfo, flushMP_modeInfo]; exact inv.mode
  · rw [direct_source, emit_source, flushMP_source]; exact inv.source
  · intro dt hh line raw src h
    rw [direct_st, emit_st, flushMP_st] at h
    exact inv.hhLine dt hh line raw src h
  · rw [direct_n, emit_n, flushMP_n]
  · exact timeline_direct_flushed m _
  · rw [pend_direct, pend_emit, pend_flushMP]; exact hp0

theorem pend_nil_of_quiet {m : M} (h : m.st = .blame ∨ m.st = .unknown ∨ m.st = .grep) : pend m = [] := by
  unfold pend; rcases h with h | h | h <;> rw [h]

theorem handleBlame_co {cfg : Cfg} {m m' : M} {l : L} {b : Bool} (inv : COInv m) (g : Good m)
    (e : handleBlame cfg m l = .ok (b, m')) : CO l m m' b := by
  unfold handleBlame at e
  simp only at e
  split at e
  · rename_i hc
    cases e
    have hq : m.minus = [] ∧ m.plus = [] := g.quiet (by rcases hc.1 with h1 | h1 <;> (rw [h1]; rfl))
    have hp0 : pend m = [] := pend_nil_of_quiet (by rcases hc.1 with h | h <;> simp [h])
    refine CO.claim (row := { kind := .blame, text := l.text, src := m.n })
      ⟨?_, ?_, fun _ _ _ _ _ h => by cases h⟩ ?_ ?_ rfl hp0 rfl
    · exact (direct_modeInfo _ _).trans inv.mode
    · exact (direct_source _ _).trans inv.source
    · exact direct_n _ _
    · exact timeline_direct_emit m _ hq.1 hq.2
  · cases e
    exact ⟨⟨inv.mode, inv.source, inv.hhLine⟩, rfl, fun h => (by cases h),
      fun _ => ⟨by simp [acct, srcs, timeline_emit, pend_emit], pend_emit m⟩, fun h => (by cases h)⟩

theorem handleGrep_co {cfg : Cfg} {m m' : M} {l : L} {b : Bool} (inv : COInv m) (g : Good m) (hg : l.grep ≠ 2)
    (e : handleGrep cfg m l = .ok (b, m')) : CO l m m' b := by
  unfold handleGrep at e
  simp only at e
  split at e
  · rename_i hc
    have hq : m.minus = [] ∧ m.plus = [] := g.quiet (by rcases hc.1 with h1 | h1 <;> (rw [h1]; rfl))
    have hp0 : pend m = [] := pend_nil_of_quiet (by rcases hc.1 with h | h <;> simp [h])
    cases e
    refine CO.claim (row := { kind := .grep, text := l.text, src := m.n })
      ⟨?_, ?_, fun _ _ _ _ _ h => by cases h⟩ ?_ ?_ rfl hp0 rfl
    · exact (direct_modeInfo _ _).trans inv.mode
    · exact (direct_source _ _).trans inv.source
    · exact direct_n _ _
    · exact timeline_direct_emit m _ hq.1 hq.2
  · cases e
    exact ⟨⟨inv.mode, inv.source, inv.hhLine⟩, rfl, fun h => (by cases h),
      fun _ => ⟨by simp [acct, srcs, timeline_emit, pend_emit], pend_emit m⟩, fun h => (by cases h)⟩

/-- the hunk header of color-only mode is exactly one row, stamped with the header line's index -/
theorem hunkHeaderRows_co {cfg : Cfg} {m1 : M} {hh : HunkHeader} {line raw : Str} {src : Nat} {rows : List Row}
    (nf : CONormal cfg) (hline : line ≠ [])
    (e : hunkHeaderRows cfg m1 hh line raw src = .ok rows) : rows.map (·.src) = [src] := by
  obtain ⟨hco, _, _, hhd⟩ := nf
  unfold hunkHeaderRows at e
  simp only [hhd, ne_eq, not_true_eq_false, if_false, List.nil_append, hco, if_true] at e
  split at e
  · cases e
    obtain ⟨row, hr, hs⟩ := drawRows_none_single cfg.hunkHeaderStyle RowKind.hunkHeader line raw [] src hhd
    rw [hr]; simp [hs]
  · split at e
    · cases e; rfl
    · split at e
      · cases e
      · rename_i hnone
        exfalso
        unfold hunkHeaderText at hnone
        split at hnone
        · cases hnone
        · simp only [Except.ok.injEq] at hnone
          unfold hunkHeaderTextOf at hnone
          simp [hco, hline] at hnone
      · cases e
        rename_i t _
        obtain ⟨row, hr, hs⟩ := drawRows_none_single ({ isOmitted := cfg.hunkHeaderStyle.isOmitted } : ElemStyle)
          RowKind.hunkHeader t t [] src rfl
        rw [hr]; simp [hs]

theorem hunkLinePre_co {cfg : Cfg} {m m2 : M} (nf : CONormal cfg) (inv : COInv m)
    (e : hunkLinePre cfg m = .ok m2) :
    srcs m2 = srcs m ++ pend m ∧ m2.st = m.st ∧ m2.modeInfo = m.modeInfo ∧ m2.source = m.source ∧ m2.n = m.n := by
  unfold hunkLinePre at e
  simp only at e
  have hx : Same m (if m.minus.length > cfg.bufSize ∨ m.plus.length > cfg.bufSize then flushMP m else m) := by
    split
    · exact (Same.refl m).flushMP
    · exact Same.refl m
  generalize (if m.minus.length > cfg.bufSize ∨ m.plus.length > cfg.bufSize then flushMP m else m) = x at e hx
  split at e
  · rename_i dt hh line raw src hst
    unfold emitHunkHeader at e
    split at e
    · cases e
    · rename_i rows hr
      cases e
      have hline : line ≠ [] := inv.hhLine dt hh line raw src (hx.st ▸ hst)
      have hsrc := hunkHeaderRows_co nf hline hr
      have hp : pend m = [src] := by unfold pend; rw [← hx.st, hst]
      refine ⟨?_, ?_, ?_, ?_, ?_⟩
      · rw [srcs_of_tl (timeline_direct_flushed x rows), hsrc, hp]
        simp [srcs, hx.tl]
      · rw [direct_st, emit_st, flushMP_st]; exact hx.st
      · rw [direct_modeInfo, emit_modeInfo, flushMP_modeInfo]; exact hx.mode
      · rw [direct_source, emit_source, flushMP_source]; exact hx.source
      · rw [direct_n, emit_n, flushMP_n]; exact hx.n
  · rename_i hnot
    cases e
    have hp : pend m = [] := by
      unfold pend
      rw [← hx.st]
      split
      · rename_i dt hh line raw src hst; exact absurd hst (hnot dt hh line raw src)
      · rfl
    exact ⟨by simp [srcs, hx.tl, hp], hx.st, hx.mode, hx.source, hx.n⟩

theorem hunkLinePush_co {cfg : Cfg} {m m' : M} {l : L} (e : hunkLinePush cfg m l = .ok m') :
    m'.modeInfo = m.modeInfo ∧ m'.source = m.source ∧ isHunkHeader m'.st = false := by
  unfold hunkLinePush at e
  cases hn : newLineState m.st l with
  | error err => simp [hn] at e
  | ok o =>
    cases o with
    | none =>
      simp only [hn] at e
      cases e
      exact ⟨flushMP_modeInfo m, flushMP_source m, rfl⟩
    | some p =>
      obtain ⟨k, dt⟩ := p
      cases hp : nParents dt with
      | error err => cases k <;> simp [hn, hp] at e
      | ok n =>
        cases k with
        | minus =>
          simp only [hn, hp] at e
          cases e
          refine ⟨?_, ?_, rfl⟩
          · show (if isHunkPlus m.st = true then flushMP m else m).modeInfo = m.modeInfo
            split <;> simp
          · show (if isHunkPlus m.st = true then flushMP m else m).source = m.source
            split <;> simp
        | plus =>
          simp only [hn, hp] at e
          cases e
          exact ⟨rfl, rfl, rfl⟩
        | zero =>
          simp only [hn, hp] at e
          cases e
          exact ⟨flushMP_modeInfo m, flushMP_source m, rfl⟩

theorem handleHunkLine_co {cfg : Cfg} {m m' : M} {l : L} {b : Bool} (nf : CONormal cfg) (inv : COInv m)
    (g : Good m) (e : handleHunkLine cfg m l = .ok (b, m')) : CO l m m' b := by
  have e0 := e
  unfold handleHunkLine at e
  split at e
  · cases e; exact CO.pass inv
  · rename_i hs
    split at e
    · cases e
    · rename_i m2 e2
      split at e
      · cases e
      · rename_i m3 e3
        cases e
        obtain ⟨hsrcs2, hst2, hmode2, hsource2, hn2⟩ := hunkLinePre_co nf inv e2
        obtain ⟨hmode3, hsource3, hst3⟩ := hunkLinePush_co e3
        rcases handleHunkLine_spec e0 g with ⟨hb, _, _⟩ | ⟨_, hs', spec⟩
        · cases hb
        · obtain ⟨r2, _, hhdr, _, _⟩ := hunkLinePre_spec e2 g
          have hplus : isHunkPlus m2.st = false → m2.plus = [] := by
            intro hnp
            rw [hst2] at hnp
            rcases isHunkState_cases hs' with h | ⟨dt, h⟩ | ⟨dt, h⟩ | ⟨dt, h⟩
            · exact (hhdr h).2
            · have := (g.quiet (by rw [h]; rfl)).2
              rcases r2.shrink.2 with s | s <;> simp [s, this]
            · have := g.noPlus (by rw [h]; rfl)
              rcases r2.shrink.2 with s | s <;> simp [s, this]
            · rw [h] at hnp; simp [isHunkPlus] at hnp
          obtain ⟨_, ⟨r, htl3, hrsrc⟩, _, hn3, _, _, _⟩ := hunkLinePush_spec e3 r2.order hplus
          have hp3 : pend (emit m3) = [] := by rw [pend_emit]; exact pend_nil_of_not_hh hst3
          refine ⟨⟨hmode3.trans (hmode2.trans inv.mode), hsource3.trans (hsource2.trans inv.source), ?_⟩,
            hn3.trans hn2, fun _ => ?_, fun h => (by cases h), fun _ => Or.inl hp3⟩
          · intro dt hh line raw src h
            rw [emit_st] at h; rw [h] at hst3; simp [isHunkHeader] at hst3
          · simp only [acct, hp3, List.append_nil]
            have : srcs (emit m3) = srcs m2 ++ [r.src] := by
              simp [srcs, timeline_emit, htl3]
            rw [this, hsrcs2, hrsrc, hn2]

-- the chain -------------------------------------------------------------------

theorem CO.trans_pass {l : L} {m m1 m' : M} {b : Bool} (h1 : CO l m m1 false) (h2 : CO l m1 m' b) : CO l m m' b :=
  ⟨h2.inv, h2.n.trans h1.n,
   fun hb => by rw [h2.claimed hb, (h1.passed rfl).1, h1.n],
   fun hb => ⟨((h2.passed hb).1).trans (h1.passed rfl).1, ((h2.passed hb).2).trans (h1.passed rfl).2⟩,
   h2.fresh⟩

/-- every handler of the model in color-only mode -/
theorem handlerOf_co {name : String} {hd : Handler} (hn : handlerOf name = some hd)
    {cfg : Cfg} {m m' : M} {l : L} {b : Bool} (nf : CONormal cfg) (inv : COInv m) (g : Good m) (hg : l.grep ≠ 2)
    (hp : pend m = [] ∨ HunkBody l) (hne : name = "emit_line_unchanged" → pend m = [])
    (e : hd cfg m l = .ok (b, m')) : CO l m m' b := by
  unfold handlerOf at hn
  split at hn <;> first
    | (cases hn
       first
         | exact handleCommitMeta_co nf inv hp e | exact handleDiffStat_co inv e
         | exact handleDiffHeaderDiff_co nf inv hp e | exact handleFileOperation_co nf inv hp e
         | exact handleMinusLine_co nf inv hp e | exact handlePlusLine_co nf inv hp e
         | exact handleHunkHeader_co inv hp e | exact handleModeLine_co nf inv hp e
         | exact handleMisc_co nf inv hp e | exact handleSubmoduleLog_co nf inv hp e
         | exact handleSubmoduleShort_co nf inv e | exact handleMergeConflict_co nf inv e
         | exact handleHunkLine_co nf inv g e | exact handleGitShowFile_co inv e
         | exact handleBlame_co inv g e | exact handleGrep_co inv g hg e
         | exact handleShouldSkip_co nf inv e | exact handleEmitUnchanged_co inv (hne rfl) e)
    | cases hn

/-- the hunk-line handler comes before the catch-all in the handler order -/
def safeOrder : List String → Bool
  | [] => false
  | n :: rest =>
    if n = "handle_hunk_line" then true else if n = "emit_line_unchanged" then false else safeOrder rest

theorem chain_co {cfg : Cfg} {l : L} (nf : CONormal cfg) (hg : l.grep ≠ 2) : ∀ (names : List String) {m m' : M},
    chain cfg l names m = .ok m' → COInv m → Good m →
    (pend m = [] ∨ (HunkBody l ∧ safeOrder names = true)) →
    CO l m m' true ∨ (CO l m m' false ∧ "emit_line_unchanged" ∉ names)
  | [], m, m', e, inv, g, hp => by
    simp only [chain] at e; cases e; exact Or.inr ⟨CO.pass inv, by simp⟩
  | name :: rest, m, m', e, inv, g, hp => by
    simp only [chain] at e
    split at e
    · cases e
    · rename_i hd hn
      have hp1 : pend m = [] ∨ HunkBody l := hp.imp id (·.1)
      have hne : name = "emit_line_unchanged" → pend m = [] := by
        intro hname
        rcases hp with h | ⟨_, h⟩
        · exact h
        · subst hname; simp [safeOrder] at h
      split at e
      · cases e
      · rename_i m1 e1
        cases e; exact Or.inl (handlerOf_co hn nf inv g hg hp1 hne e1)
      · rename_i m1 e1
        have c1 := handlerOf_co hn nf inv g hg hp1 hne e1
        have g1 := (handlerOf_step hn e1 g).good
        have hp' : pend m1 = [] ∨ (HunkBody l ∧ safeOrder rest = true) := by
          rcases hp with h | ⟨hb, h⟩
          · exact Or.inl ((c1.passed rfl).2.trans h)
          · by_cases hpm : pend m = []
            · exact Or.inl ((c1.passed rfl).2.trans hpm)
            · refine Or.inr ⟨hb, ?_⟩
              unfold safeOrder at h
              split at h
              · rename_i hname
                -- the hunk-line handler claims every line met in a hunk-header state
                exfalso
                subst hname
                simp only [handlerOf, Option.some.injEq] at hn
                subst hn
                rcases handleHunkLine_spec e1 g with ⟨_, _, hs⟩ | ⟨hb', _, _⟩
                · rw [hunkState_of_hh (hh_of_pend hpm)] at hs; cases hs
                · cases hb'
              · split at h
                · cases h
                · exact h
        rcases chain_co nf hg rest e c1.inv g1 hp' with h | ⟨h, hnot⟩
        · exact Or.inl (c1.trans_pass h)
        · refine Or.inr ⟨c1.trans_pass h, ?_⟩
          intro hmem
          rcases List.mem_cons.mp hmem with hname | hmem'
          · -- the catch-all always claims
            rw [← hname] at hn
            simp only [handlerOf, Option.some.injEq] at hn
            subst hn
            unfold handleEmitUnchanged at e1
            cases e1
          · exact hnot hmem'

theorem safeOrder_generated : safeOrder Generated.handlerOrder = true := by decide
theorem catchAll_generated : "emit_line_unchanged" ∈ Generated.handlerOrder := by decide

/-- one input line in color-only mode, git source: exactly the current line index is appended to
the accounted lines -/
theorem step_co {cfg : Cfg} {m m' : M} {l : L} (nf : CONormal cfg) (inv : COInv m) (g : Good m)
    (hg : l.grep ≠ 2) (hp : pend m = [] ∨ HunkBody l) (e : step cfg m l = .ok m') :
    COInv m' ∧ Good m' ∧ acct m' = acct m ++ [m.n] ∧ m'.n = m.n + 1 ∧
      (pend m' = [] ∨ startsWith l.text Generated.Markers.hunkHeader = true) := by
  have g' := (step_spec e g).1
  unfold step at e
  have hinit : stepInit m l = m := by unfold stepInit; simp [inv.source]
  rw [hinit] at e
  split at e
  · cases e
  · rename_i m2 e2
    cases e
    rcases chain_co nf hg _ e2 inv g (hp.imp id (fun h => ⟨h, safeOrder_generated⟩)) with c | ⟨_, hnot⟩
    · refine ⟨⟨c.inv.mode, c.inv.source, c.inv.hhLine⟩, g', ?_, ?_, c.fresh rfl⟩
      · exact c.claimed rfl
      · show m2.n + 1 = m.n + 1
        rw [c.n]
    · exact absurd catchAll_generated hnot

-- whole runs ------------------------------------------------------------------

def isHH (l : L) : Bool := startsWith l.text Generated.Markers.hunkHeader

/-- every line that looks like a hunk header (`@@…`) is followed by a line of a hunk body, and the
input does not end in one. The flag says whether the previous line was such a line. -/
def Followed : Bool → List L → Prop
  | p, [] => p = false
  | p, l :: rest => (p = true → HunkBody l) ∧ Followed (isHH l) rest

theorem runFrom_co {cfg : Cfg} (nf : CONormal cfg) : ∀ (ls : List L) {m m' : M} {p : Bool},
    runFrom cfg m ls = .ok m' → COInv m → Good m → (∀ l ∈ ls, l.grep ≠ 2) → (pend m = [] ∨ p = true) →
    Followed p ls →
    COInv m' ∧ Good m' ∧ pend m' = [] ∧ srcs m' = acct m ++ List.range' m.n ls.length
  | [], m, m', p, e, inv, g, _, hp, hf => by
    simp only [runFrom] at e; cases e
    have hp0 : pend m = [] := by
      rcases hp with h | h
      · exact h
      · rw [show p = false from hf] at h; cases h
    exact ⟨inv, g, hp0, by simp [acct, hp0]⟩
  | l :: ls, m, m', p, e, inv, g, hg, hp, hf => by
    simp only [runFrom] at e
    split at e
    · cases e
    · rename_i m1 e1
      obtain ⟨hbody, hrest⟩ := hf
      obtain ⟨inv1, g1, hacct, hn1, hfresh⟩ :=
        step_co nf inv g (hg l (List.mem_cons_self ..)) (hp.imp id hbody) e1
      obtain ⟨inv', g', hp', hs⟩ :=
        runFrom_co nf ls e inv1 g1 (fun x hx => hg x (List.mem_cons_of_mem _ hx)) hfresh hrest
      refine ⟨inv', g', hp', ?_⟩
      rw [hs, hacct, hn1, List.length_cons, List.range'_succ, List.append_assoc]
      rfl

/-- the statements after the loop add nothing in color-only mode -/
theorem tailOps_co {cfg : Cfg} (hco : cfg.colorOnly = true) : ∀ (ops : List String) {m m' : M},
    tailOps cfg ops m = .ok m' → m.modeInfo = [] → timeline m' = timeline m
  | [], m, m', e, _ => by simp only [tailOps] at e; cases e; rfl
  | op :: rest, m, m', e, hmi => by
    simp only [tailOps] at e
    split at e
    · cases e
    · rename_i m1 e1
      have h1 : timeline m1 = timeline m ∧ m1.modeInfo = [] := by
        unfold tailOp at e1
        split at e1
        · cases e1; exact ⟨timeline_flushMP m, (flushMP_modeInfo m).trans hmi⟩
        · cases e1; rw [pendingDiffName_co hco hmi]; exact ⟨rfl, hmi⟩
        · cases e1; exact ⟨timeline_emit m, hmi⟩
        · cases e1
      exact (tailOps_co hco rest e h1.2).trans h1.1

/-- **`--color-only` is line for line.** For every configuration in the normal form that
`--color-only` forces and every input whose first line identifies a git diff (`diff --git …`,
`commit …`), whose `@@` lines are each followed by a hunk-body line and which contains no
rg-json bookkeeping record: delta writes exactly one row per input line, in input order — the
`src` (input index) of the rows written is `0, 1, …, n-1`. -/
theorem run_color_only {cfg : Cfg} (nf : CONormal cfg) {d : L} {ls : List L} {m : M}
    (hd : detectSource d.text = .gitDiff) (hg : ∀ l ∈ d :: ls, l.grep ≠ 2) (hf : Followed false (d :: ls))
    (e : run cfg (d :: ls) = .ok m) :
    m.out.map (·.src) = List.range (ls.length + 1) := by
  have hout := (run_spec e).2
  unfold run at e
  split at e
  · cases e
  · rename_i m1 e1
    -- the first line fixes the source: start from the state `stepInit` produces for it
    have hsame : (timeline (stepInit ({} : M) d) = [] ∧ (stepInit ({} : M) d).st = .unknown ∧
        (stepInit ({} : M) d).modeInfo = [] ∧ (stepInit ({} : M) d).n = 0) ∧
        (stepInit ({} : M) d).source = .gitDiff ∧
        (stepInit ({} : M) d).minus = [] ∧ (stepInit ({} : M) d).plus = [] ∧ (stepInit ({} : M) d).orderOk = true := by
      unfold stepInit armCounter
      simp only [hd, if_true]
      split
      · split <;> exact ⟨⟨rfl, rfl, rfl, rfl⟩, rfl, rfl, rfl, rfl⟩
      · split <;> exact ⟨⟨rfl, rfl, rfl, rfl⟩, rfl, rfl, rfl, rfl⟩
    obtain ⟨⟨htl0, hst0, hmode0, hn0⟩, hsrc0, hmin0, hpl0, hord0⟩ := hsame
    have hidem : stepInit (stepInit ({} : M) d) d = stepInit ({} : M) d := by
      generalize stepInit ({} : M) d = x at hsrc0
      unfold stepInit; simp [hsrc0]
    have hfirst : runFrom cfg (stepInit ({} : M) d) (d :: ls) = .ok m1 := by
      simp only [runFrom, step] at e1 ⊢
      rw [hidem]; exact e1
    have inv0 : COInv (stepInit ({} : M) d) :=
      ⟨hmode0, hsrc0, fun dt hh line raw src h => by rw [hst0] at h; cases h⟩
    have g0 : Good (stepInit ({} : M) d) := ⟨hord0, fun _ => ⟨hmin0, hpl0⟩, fun _ => hpl0⟩
    have hp00 : pend (stepInit ({} : M) d) = [] := by unfold pend; rw [hst0]
    obtain ⟨inv1, _, _, hs⟩ := runFrom_co nf (d :: ls) hfirst inv0 g0 hg (Or.inl hp00) hf
    have htl : timeline m = timeline m1 := tailOps_co nf.1 _ e inv1.mode
    have : m.out.map (·.src) = srcs m1 := by rw [← hout, htl]; rfl
    rw [this, hs, hn0]
    simp [acct, srcs, htl0, hp00, List.range_eq_range']

end Machine
