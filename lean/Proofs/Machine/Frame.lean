import DeltaModel.Machine
/-!
Frame reasoning for the machine model.

`timeline m` = everything rendered so far in the order it will reach the writer:
`out ++ buf ++ minus rows ++ plus rows`. `Ext m m'`: `m'` extends `m` — the timeline and the
output only grow by appending, the line counter is unchanged. `Good m`: the invariant under which
every handler extends the machine (in order so far; line buffers empty in the states that write
without flushing; no added line waiting while in a removed/unchanged-line state).

`Reach m0 m` / `ReachC m0 m` thread both through the primitive steps of a handler.
-/
set_option linter.unusedSimpArgs false
set_option linter.unusedVariables false
namespace Machine
open Headers

def timeline (m : M) : List Row :=
  m.out ++ m.buf ++ m.minus.map HLine.row ++ m.plus.map HLine.row

/-- states in which both line buffers are empty -/
def quiet3 : State → Bool
  | .unknown | .blame | .grep | .gitShowFile | .mergeConflict .. | .hunkZero _ => true
  | _ => false

/-- states in which no added line is waiting -/
def noPlusState : State → Bool
  | .hunkMinus _ => true
  | s => quiet3 s

structure Good (m : M) : Prop where
  order : m.orderOk = true
  quiet : quiet3 m.st = true → m.minus = [] ∧ m.plus = []
  noPlus : noPlusState m.st = true → m.plus = []

structure Ext (m m' : M) : Prop where
  tl : ∃ new, timeline m' = timeline m ++ new
  out : ∃ more, m'.out = m.out ++ more
  n : m'.n = m.n

/-- the line buffers were left alone or emptied -/
def Shrink (m m' : M) : Prop :=
  (m'.minus = m.minus ∨ m'.minus = []) ∧ (m'.plus = m.plus ∨ m'.plus = [])

theorem Ext.refl (m : M) : Ext m m := ⟨⟨[], by simp⟩, ⟨[], by simp⟩, rfl⟩

theorem Ext.trans {a b c : M} (h1 : Ext a b) (h2 : Ext b c) : Ext a c := by
  obtain ⟨⟨n1, t1⟩, ⟨o1, u1⟩, e1⟩ := h1
  obtain ⟨⟨n2, t2⟩, ⟨o2, u2⟩, e2⟩ := h2
  exact ⟨⟨n1 ++ n2, by rw [t2, t1, List.append_assoc]⟩, ⟨o1 ++ o2, by rw [u2, u1, List.append_assoc]⟩, e2.trans e1⟩

theorem Shrink.refl (m : M) : Shrink m m := ⟨Or.inl rfl, Or.inl rfl⟩

theorem Shrink.trans {a b c : M} (h1 : Shrink a b) (h2 : Shrink b c) : Shrink a c := by
  obtain ⟨m1, p1⟩ := h1
  obtain ⟨m2, p2⟩ := h2
  constructor
  · rcases m2 with h | h
    · rcases m1 with h' | h'
      · exact Or.inl (h.trans h')
      · exact Or.inr (h.trans h')
    · exact Or.inr h
  · rcases p2 with h | h
    · rcases p1 with h' | h'
      · exact Or.inl (h.trans h')
      · exact Or.inr (h.trans h')
    · exact Or.inr h

/-- reached from `m0` by steps that extend it and keep the order flag -/
structure Reach (m0 m : M) : Prop where
  ext : Ext m0 m
  shrink : Shrink m0 m
  order : m.orderOk = true

/-- … and with both line buffers empty -/
structure ReachC (m0 m : M) : Prop extends Reach m0 m where
  minus : m.minus = []
  plus : m.plus = []

theorem Reach.start {m : M} (g : Good m) : Reach m m := ⟨Ext.refl m, Shrink.refl m, g.order⟩

theorem ReachC.good {m0 m : M} (h : ReachC m0 m) : Good m :=
  ⟨h.order, fun _ => ⟨h.minus, h.plus⟩, fun _ => h.plus⟩

-- primitive steps -------------------------------------------------------------

@[simp] theorem emit_orderOk (m : M) : (emit m).orderOk = m.orderOk := rfl
@[simp] theorem emit_minus (m : M) : (emit m).minus = m.minus := rfl
@[simp] theorem emit_plus (m : M) : (emit m).plus = m.plus := rfl
@[simp] theorem emit_buf (m : M) : (emit m).buf = [] := rfl
@[simp] theorem emit_st (m : M) : (emit m).st = m.st := rfl
@[simp] theorem emit_n (m : M) : (emit m).n = m.n := rfl
@[simp] theorem emit_out (m : M) : (emit m).out = m.out ++ m.buf := rfl

theorem timeline_emit (m : M) : timeline (emit m) = timeline m := by simp [timeline]

@[simp] theorem flushMP_orderOk (m : M) : (flushMP m).orderOk = m.orderOk := by
  unfold flushMP; split <;> rfl
@[simp] theorem flushMP_minus (m : M) : (flushMP m).minus = [] := by
  unfold flushMP; split <;> simp_all
@[simp] theorem flushMP_plus (m : M) : (flushMP m).plus = [] := by
  unfold flushMP; split <;> simp_all
@[simp] theorem flushMP_st (m : M) : (flushMP m).st = m.st := by
  unfold flushMP; split <;> rfl
@[simp] theorem flushMP_n (m : M) : (flushMP m).n = m.n := by
  unfold flushMP; split <;> rfl
@[simp] theorem flushMP_out (m : M) : (flushMP m).out = m.out := by
  unfold flushMP; split <;> rfl

theorem timeline_flushMP (m : M) : timeline (flushMP m) = timeline m := by
  unfold flushMP timeline
  split
  · rfl
  · simp [List.append_assoc]

@[simp] theorem direct_minus (m : M) (rows : List Row) : (direct m rows).minus = m.minus := by
  unfold direct; split <;> rfl
@[simp] theorem direct_plus (m : M) (rows : List Row) : (direct m rows).plus = m.plus := by
  unfold direct; split <;> rfl
@[simp] theorem direct_buf (m : M) (rows : List Row) : (direct m rows).buf = m.buf := by
  unfold direct; split <;> rfl
@[simp] theorem direct_st (m : M) (rows : List Row) : (direct m rows).st = m.st := by
  unfold direct; split <;> rfl
@[simp] theorem direct_n (m : M) (rows : List Row) : (direct m rows).n = m.n := by
  unfold direct; split <;> rfl
@[simp] theorem direct_out (m : M) (rows : List Row) : (direct m rows).out = m.out ++ rows := by
  unfold direct; split <;> simp_all

theorem direct_orderOk (m : M) (rows : List Row) (hb : m.buf = []) (hm : m.minus = [])
    (hp : m.plus = []) : (direct m rows).orderOk = m.orderOk := by
  unfold direct; split <;> simp [hb, hm, hp]

theorem Reach.emit {m0 m : M} (h : Reach m0 m) : Reach m0 (emit m) :=
  ⟨h.ext.trans ⟨⟨[], by simp [timeline_emit]⟩, ⟨m.buf, rfl⟩, rfl⟩,
   h.shrink.trans ⟨Or.inl rfl, Or.inl rfl⟩, by simp [h.order]⟩

theorem ReachC.emit {m0 m : M} (h : ReachC m0 m) : ReachC m0 (emit m) :=
  { h.toReach.emit with minus := by simp [h.minus], plus := by simp [h.plus] }

theorem Reach.flushMP {m0 m : M} (h : Reach m0 m) : ReachC m0 (flushMP m) :=
  { ext := h.ext.trans ⟨⟨[], by simp [timeline_flushMP]⟩, ⟨[], by simp⟩, by simp⟩
    shrink := h.shrink.trans ⟨Or.inr (by simp), Or.inr (by simp)⟩
    order := by simp [h.order]
    minus := by simp
    plus := by simp }

theorem ReachC.direct {m0 m : M} (rows : List Row) (h : ReachC m0 m) (hb : m.buf = []) :
    ReachC m0 (direct m rows) :=
  { ext := h.ext.trans ⟨⟨rows, by simp [timeline, hb, h.minus, h.plus]⟩, ⟨rows, by simp⟩, by simp⟩
    shrink := h.shrink.trans ⟨Or.inl (by simp), Or.inl (by simp)⟩
    order := by rw [direct_orderOk m rows hb h.minus h.plus]; exact h.order
    minus := by simp [h.minus]
    plus := by simp [h.plus] }

/-- a step that leaves output, buffers, counter and order flag alone -/
theorem Reach.upd {m0 m m' : M} (h : Reach m0 m) (ho : m'.orderOk = m.orderOk) (hout : m'.out = m.out)
    (hb : m'.buf = m.buf) (hm : m'.minus = m.minus) (hp : m'.plus = m.plus) (hn : m'.n = m.n) : Reach m0 m' :=
  ⟨h.ext.trans ⟨⟨[], by simp [timeline, hout, hb, hm, hp]⟩, ⟨[], by simp [hout]⟩, hn⟩,
   h.shrink.trans ⟨Or.inl hm, Or.inl hp⟩, ho ▸ h.order⟩

theorem ReachC.upd {m0 m m' : M} (h : ReachC m0 m) (ho : m'.orderOk = m.orderOk) (hout : m'.out = m.out)
    (hb : m'.buf = m.buf) (hm : m'.minus = m.minus) (hp : m'.plus = m.plus) (hn : m'.n = m.n) : ReachC m0 m' :=
  { h.toReach.upd ho hout hb hm hp hn with minus := hm ▸ h.minus, plus := hp ▸ h.plus }

/-- appending rows to the output buffer when the line buffers are empty -/
theorem ReachC.bufPush {m0 m m' : M} (rows : List Row) (h : ReachC m0 m) (ho : m'.orderOk = m.orderOk)
    (hout : m'.out = m.out) (hb : m'.buf = m.buf ++ rows) (hm : m'.minus = m.minus) (hp : m'.plus = m.plus)
    (hn : m'.n = m.n) : ReachC m0 m' :=
  { ext := h.ext.trans ⟨⟨rows, by simp [timeline, hout, hb, hm, hp, h.minus, h.plus]⟩, ⟨[], by simp [hout]⟩, hn⟩
    shrink := h.shrink.trans ⟨Or.inl hm, Or.inl hp⟩
    order := ho ▸ h.order
    minus := hm ▸ h.minus
    plus := hp ▸ h.plus }

-- composite steps -------------------------------------------------------------

@[simp] theorem writeGeneric_minus (cfg : Cfg) (m : M) (t r : Str) : (writeGeneric cfg m t r).minus = m.minus := by
  unfold writeGeneric; split <;> simp
@[simp] theorem writeGeneric_plus (cfg : Cfg) (m : M) (t r : Str) : (writeGeneric cfg m t r).plus = m.plus := by
  unfold writeGeneric; split <;> simp
@[simp] theorem writeGeneric_buf (cfg : Cfg) (m : M) (t r : Str) : (writeGeneric cfg m t r).buf = m.buf := by
  unfold writeGeneric; split <;> simp
@[simp] theorem writeGeneric_st (cfg : Cfg) (m : M) (t r : Str) : (writeGeneric cfg m t r).st = m.st := by
  unfold writeGeneric; split <;> simp
@[simp] theorem writeGeneric_n (cfg : Cfg) (m : M) (t r : Str) : (writeGeneric cfg m t r).n = m.n := by
  unfold writeGeneric; split <;> simp

theorem ReachC.writeGeneric (cfg : Cfg) {m0 m : M} (t r : Str) (h : ReachC m0 m) (hb : m.buf = []) :
    ReachC m0 (writeGeneric cfg m t r) := by
  unfold Machine.writeGeneric
  split
  · exact h.upd rfl rfl rfl rfl rfl rfl
  · exact (h.direct _ hb).upd rfl rfl rfl rfl rfl rfl

theorem ReachC.handleHeaderLine (cfg : Cfg) {m0 m : M} (c : Bool) (h : ReachC m0 m) (hb : m.buf = []) :
    ReachC m0 (handleHeaderLine cfg m c) := by
  unfold Machine.handleHeaderLine; exact h.writeGeneric cfg _ _ hb

@[simp] theorem handleHeaderLine_st (cfg : Cfg) (m : M) (c : Bool) : (handleHeaderLine cfg m c).st = m.st := by
  unfold handleHeaderLine; simp

theorem Reach.emitLineUnchanged {m0 m : M} (l : L) (h : Reach m0 m) : ReachC m0 (emitLineUnchanged m l) := by
  unfold Machine.emitLineUnchanged
  exact h.flushMP.emit.direct _ (by simp)

@[simp] theorem emitLineUnchanged_st (m : M) (l : L) : (emitLineUnchanged m l).st = m.st := by
  unfold emitLineUnchanged; simp

theorem bind_ok {ε α β : Type} (x : Except ε α) (f : α → Except ε β) (b : β) :
    (x >>= f) = .ok b ↔ ∃ a, x = .ok a ∧ f a = .ok b := by
  cases x <;> simp [bind, Except.bind]

theorem pendingDiffName_reachC (cfg : Cfg) {m0 m : M} (h : ReachC m0 m) :
    ReachC m0 (pendingDiffName cfg m) ∧ (pendingDiffName cfg m).st = m.st := by
  unfold pendingDiffName
  split
  · exact ⟨h, rfl⟩
  · split
    · exact ⟨(h.emit.writeGeneric cfg _ _ (by simp)).upd rfl rfl rfl rfl rfl rfl, by simp⟩
    · split
      · exact ⟨h, rfl⟩
      · split
        · exact ⟨(h.emit.handleHeaderLine cfg (decide (m.source = Source.diffUnified)) (by simp)).upd
            rfl rfl rfl rfl rfl rfl, by simp⟩
        · exact ⟨h, rfl⟩

/-- `pendingDiffName` never puts anything into the line buffers -/
theorem pendingDiffName_quiet (cfg : Cfg) {m : M} (hm : m.minus = []) (hp : m.plus = []) :
    (pendingDiffName cfg m).minus = [] ∧ (pendingDiffName cfg m).plus = [] := by
  unfold pendingDiffName
  split
  · exact ⟨hm, hp⟩
  · split
    · simp [hm, hp]
    · split
      · exact ⟨hm, hp⟩
      · split
        · simp [Machine.handleHeaderLine, hm, hp]
        · exact ⟨hm, hp⟩

/-- what a handler has to deliver -/
structure Step (m m' : M) : Prop where
  good : Good m'
  ext : Ext m m'

/-- … by a handler that does not add to the line buffers -/
structure StepS (m m' : M) : Prop extends Step m m' where
  shrink : Shrink m m'

theorem ReachC.stepS {m0 m : M} (h : ReachC m0 m) : StepS m0 m := ⟨⟨h.good, h.ext⟩, h.shrink⟩

/-- a `Reach`ed machine whose state / buffers are those of a good machine is good -/
theorem Reach.stepS_of {m0 m : M} (h : Reach m0 m) (g : Good m0) (hs : m.st = m0.st) : StepS m0 m := by
  refine ⟨⟨⟨h.order, ?_, ?_⟩, h.ext⟩, h.shrink⟩
  · intro q
    rw [hs] at q
    obtain ⟨gm, gp⟩ := g.quiet q
    obtain ⟨sm, sp⟩ := h.shrink
    exact ⟨by rcases sm with s | s <;> simp [s, gm], by rcases sp with s | s <;> simp [s, gp]⟩
  · intro q
    rw [hs] at q
    have gp := g.noPlus q
    rcases h.shrink.2 with s | s <;> simp [s, gp]

/-- … or whose new state asks for nothing -/
theorem Reach.stepS_free {m0 m : M} (h : Reach m0 m) (hq : quiet3 m.st = false) (hp : noPlusState m.st = false) :
    StepS m0 m :=
  ⟨⟨⟨h.order, fun q => by simp [hq] at q, fun q => by simp [hp] at q⟩, h.ext⟩, h.shrink⟩

theorem StepS.refl {m : M} (g : Good m) : StepS m m := ⟨⟨g, Ext.refl m⟩, Shrink.refl m⟩

/-- a pure field update into a state that asks for nothing -/
theorem stepS_upd_free {m m' : M} (g : Good m) (ho : m'.orderOk = m.orderOk) (hout : m'.out = m.out)
    (hb : m'.buf = m.buf) (hm : m'.minus = m.minus) (hp : m'.plus = m.plus) (hn : m'.n = m.n)
    (hq : quiet3 m'.st = false) (hnp : noPlusState m'.st = false) : StepS m m' :=
  ((Reach.start g).upd ho hout hb hm hp hn).stepS_free hq hnp

/-- a pure field update that keeps the state -/
theorem stepS_upd_same {m m' : M} (g : Good m) (ho : m'.orderOk = m.orderOk) (hout : m'.out = m.out)
    (hb : m'.buf = m.buf) (hm : m'.minus = m.minus) (hp : m'.plus = m.plus) (hn : m'.n = m.n)
    (hs : m'.st = m.st) : StepS m m' :=
  ((Reach.start g).upd ho hout hb hm hp hn).stepS_of g hs

-- the two calls at the top of `handle_submodule_log_line` --------------------------------

theorem flushMP_idem (m : M) : flushMP (flushMP m) = flushMP m := by
  have h1 := flushMP_minus m
  have h2 := flushMP_plus m
  generalize flushMP m = x at h1 h2 ⊢
  unfold flushMP; simp [h1, h2]

/-- `handle_additional_cases` starts with `paint_buffered_minus_and_plus_lines` itself -/
theorem handleAdditionalCases_flushMP (cfg : Cfg) (m : M) (l : L) (to : State) :
    handleAdditionalCases cfg (flushMP m) l to = handleAdditionalCases cfg m l to := by
  unfold handleAdditionalCases; rw [flushMP_idem]

/-- when no file header is pending, `handle_submodule_log_line` is `handle_additional_cases` alone -/
theorem handleSubmoduleLog_of_nothing_pending {cfg : Cfg} {m : M} (l : L)
    (h : pendingDiffName cfg (flushMP m) = flushMP m) :
    handleSubmoduleLog cfg m l =
      if !startsWith l.text Generated.Markers.submoduleLog then .ok (false, m)
      else handleAdditionalCases cfg m l .submoduleLog := by
  unfold handleSubmoduleLog; rw [h, handleAdditionalCases_flushMP]

end Machine
