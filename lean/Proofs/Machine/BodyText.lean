import Proofs.Machine.BodyOrder
import Proofs.Machine.HunkHeaders
/-!
Whole-run text of a hunk line (C01): the one row that shows a line of a unified hunk carries the
kind its marker column says and the text `prepare` gives (marker column removed or kept as
configured, tabs expanded) — whatever precedes and follows the line.
-/
set_option linter.unusedSimpArgs false
set_option linter.unusedVariables false
namespace Machine
open Headers

/-- the marker kept in front of the text when markers are requested -/
def keptMarker (cfg : Cfg) (c : Char) : Str := if cfg.keepMarkers then [c] else []

/-- the row that shows line `l` (input index `n`) of a unified hunk -/
def expectedRow (cfg : Cfg) (l : L) (n : Nat) : Row :=
  match l.text.head? with
  | some '-' => { kind := .minus, text := keptMarker cfg '-' ++ prepare cfg 1 l, src := n }
  | some '+' => { kind := .plus, text := keptMarker cfg '+' ++ prepare cfg 1 l, src := n }
  | _ => { kind := .zero, text := keptMarker cfg ' ' ++ prepare cfg 1 l, src := n }

theorem classifyUnified_of_marker {l : L} (hb : firstIs l isMarker) :
    (l.text.head? = some '-' ∧ classifyUnified l = some (.minus, .unified)) ∨
    (l.text.head? = some '+' ∧ classifyUnified l = some (.plus, .unified)) ∨
    (l.text.head? = some ' ' ∧ classifyUnified l = some (.zero, .unified)) := by
  obtain ⟨c, rest, ht, hc⟩ := hb
  unfold classifyUnified
  rw [ht]
  simp only [isMarker, Bool.or_eq_true, decide_eq_true_eq] at hc
  rcases hc with (hc | hc) | hc <;> subst hc <;> simp

/-- in a unified hunk state the row pushed for a marker line is `expectedRow` -/
theorem hunkLinePush_unified {cfg : Cfg} {m m' : M} {l : L} (hdt : hunkDiffType m.st = some .unified)
    (hb : firstIs l isMarker) (e : hunkLinePush cfg m l = .ok m')
    (hplus : isHunkPlus m.st = false → m.plus = []) :
    timeline m' = timeline m ++ [expectedRow cfg l m.n] := by
  have hn : newLineState m.st l = .ok (classifyUnified l) := by unfold newLineState; rw [hdt]
  unfold hunkLinePush at e
  rcases classifyUnified_of_marker hb with ⟨hh, hcl⟩ | ⟨hh, hcl⟩ | ⟨hh, hcl⟩
  · simp only [hn, hcl, nParents] at e
    have hrow : expectedRow cfg l m.n =
        HLine.row { kind := .minus, pre := paintedPrefix cfg .minus .unified, text := prepare cfg 1 l, src := m.n } := by
      unfold expectedRow HLine.row paintedPrefix keptMarker; simp [hh]
    cases e
    cases hpl : isHunkPlus m.st
    · have hp0 := hplus hpl
      simp only [Bool.false_eq_true, if_false]
      rw [hrow]; simp [timeline, hp0]
    · simp only [if_true]
      rw [hrow, timeline_of_flushed m]; simp [timeline]
  · simp only [hn, hcl, nParents] at e
    have hrow : expectedRow cfg l m.n =
        HLine.row { kind := .plus, pre := paintedPrefix cfg .plus .unified, text := prepare cfg 1 l, src := m.n } := by
      unfold expectedRow HLine.row paintedPrefix keptMarker; simp [hh]
    cases e
    rw [hrow]; simp [timeline]
  · simp only [hn, hcl, nParents] at e
    have hrow : expectedRow cfg l m.n =
        { kind := .zero, text := paintedPrefix cfg .zero .unified ++ prepare cfg 1 l, src := m.n } := by
      unfold expectedRow paintedPrefix keptMarker; simp [hh]
    cases e
    rw [hrow, timeline_of_flushed m]; simp [timeline]

theorem expectedRow_body (cfg : Cfg) (l : L) (n : Nat) : isBody (expectedRow cfg l n).kind = true := by
  unfold expectedRow; split <;> rfl

theorem expectedRow_src (cfg : Cfg) (l : L) (n : Nat) : (expectedRow cfg l n).src = n := by
  unfold expectedRow; split <;> rfl

/-- `handle_hunk_line` on a marker line in a unified hunk state: the body rows grow by `expectedRow` -/
theorem handleHunkLine_unified {cfg : Cfg} {m m' : M} {l : L} {b : Bool} (hs' : isHunkState m.st = true)
    (hdt : hunkDiffType m.st = some .unified) (hb : firstIs l isMarker)
    (g : Good m) (e : handleHunkLine cfg m l = .ok (b, m')) :
    bodyTL m' = bodyTL m ++ [expectedRow cfg l m.n] := by
  unfold handleHunkLine at e
  split at e
  · rename_i hst; simp [hs'] at hst
  · split at e
    · cases e
    · rename_i m2 e2
      split at e
      · cases e
      · rename_i m3 e3
        cases e
        obtain ⟨r2, hst2, hhdr, _, _⟩ := hunkLinePre_spec e2 g
        obtain ⟨pre, htl2, hkinds⟩ := hunkLinePre_rows e2
        have hplus : isHunkPlus m2.st = false → m2.plus = [] := by
          intro hnp
          rw [hst2] at hnp
          rcases isHunkState_cases hs' with h | ⟨dt, h⟩ | ⟨dt, h⟩ | ⟨dt, h⟩
          · exact (hhdr h).2
          · have := (g.quiet (by rw [h]; rfl)).2
            rcases r2.shrink.2 with s | s <;> simp [s, this]
          · have := g.noPlus (by rw [h]; rfl)
            rcases r2.shrink.2 with s | s <;> simp [s, this]
          · rw [h] at hnp; simp [isHunkPlus] at hnp
        have htl3 := hunkLinePush_unified (by rw [hst2]; exact hdt) hb e3 hplus
        have hpre : pre.filter (fun r => isBody r.kind) = [] := by
          refine filter_nonbody ?_
          intro x hx
          obtain ⟨h1, h2, h3, h4⟩ := hkinds x hx
          cases hk : x.kind <;> simp_all [isBody]
        unfold bodyTL
        rw [timeline_emit, htl3, htl2, r2.ext.n]
        simp [List.filter_append, hpre, expectedRow_body]

/-- the rows (not only their indices) of the hunk-line rows only grow, by rows of later lines -/
theorem runFrom_body_ext_rows {cfg : Cfg} : ∀ (ls : List L) {m m' : M}, runFrom cfg m ls = .ok m' →
    (∀ l ∈ ls, startsWith l.text Generated.Markers.mcBegin = false) → isMergeConflict m.st = false → Good m →
    ∃ more, bodyTL m' = bodyTL m ++ more ∧ ∀ r ∈ more, m.n ≤ r.src
  | [], m, m', e, _, _, _ => by simp only [runFrom] at e; cases e; exact ⟨[], by simp, by simp⟩
  | l :: ls, m, m', e, hmc, hs, g => by
    simp only [runFrom] at e
    split at e
    · cases e
    · rename_i m1 e1
      obtain ⟨hs1, hn1, hb1⟩ := step_bs (hmc l (List.mem_cons_self ..)) hs g e1
      obtain ⟨more, hm, hge⟩ :=
        runFrom_body_ext_rows ls e (fun x hx => hmc x (List.mem_cons_of_mem _ hx)) hs1 (step_spec e1 g).1
      rcases hb1 with hb | ⟨r, hb, hsrc, _⟩
      · refine ⟨more, by rw [hm, hb], fun s hs' => by have := hge s hs'; omega⟩
      · refine ⟨r :: more, by rw [hm, hb]; simp, ?_⟩
        intro s hs'
        rcases List.mem_cons.mp hs' with h | h
        · subst h; omega
        · have := hge s h; omega

/-- **The row of a hunk line.** In a git diff, a line whose first column is `-`, `+` or blank, met
in a unified hunk (and not a commit / 40-hex submodule line), is shown by exactly one row of delta's
output, and that row is `expectedRow`: kind minus / plus / zero according to the marker, text =
the line with the marker column removed (kept when markers are requested) and tabs expanded —
whatever precedes and follows it (no line of the input opening a merge-conflict region). -/
theorem run_hunk_line_row {cfg : Cfg} {pre post : List L} {l : L} {mi m : M}
    (hmc : ∀ x ∈ pre ++ l :: post, startsWith x.text Generated.Markers.mcBegin = false)
    (ei : runFrom cfg {} pre = .ok mi) (hsrc : mi.source = .gitDiff) (hst : isHunkState mi.st = true)
    (hdt : hunkDiffType mi.st = some .unified) (hb : firstIs l isMarker) (hc : l.commitRe = false)
    (hsub : l.submodule = none) (e : run cfg (pre ++ l :: post) = .ok m) :
    (m.out.filter (fun r => isBody r.kind)).filter (fun r => r.src = pre.length) = [expectedRow cfg l pre.length] := by
  have hun : hunkCombinedParents mi.st = none := by
    cases hs : mi.st with
    | hunkHeader dt hh line raw src =>
      rw [hs] at hdt
      cases dt with
      | unified => rfl
      | combined mp c => cases mp <;> cases c <;> simp [hunkDiffType] at hdt
    | hunkMinus dt =>
      rw [hs] at hdt
      cases dt with
      | unified => rfl
      | combined mp c => cases mp <;> cases c <;> simp [hunkDiffType] at hdt
    | hunkZero dt =>
      rw [hs] at hdt
      cases dt with
      | unified => rfl
      | combined mp c => cases mp <;> cases c <;> simp [hunkDiffType] at hdt
    | hunkPlus dt =>
      rw [hs] at hdt
      cases dt with
      | unified => rfl
      | combined mp c => cases mp <;> cases c <;> simp [hunkDiffType] at hdt
    | _ => rfl
  have hout := (run_spec e).2
  unfold run at e
  split at e
  · cases e
  · rename_i m1 e1
    rw [runFrom_append, ei] at e1
    simp only [runFrom] at e1
    split at e1
    · cases e1
    · rename_i m2 e2
      have hmc_pre : ∀ x ∈ pre, startsWith x.text Generated.Markers.mcBegin = false :=
        fun x hx => hmc x (List.mem_append_left _ hx)
      have hmc_post : ∀ x ∈ post, startsWith x.text Generated.Markers.mcBegin = false :=
        fun x hx => hmc x (List.mem_append_right _ (List.mem_cons_of_mem _ hx))
      have h0 : Inc ({} : M) := ⟨by simp [bodySrcs, bodyTL, timeline], by simp [bodySrcs, bodyTL, timeline]⟩
      obtain ⟨hinc, hnomc, gi⟩ := runFrom_inc pre ei hmc_pre rfl good_init h0
      have hni : mi.n = pre.length := by
        have := (runFrom_spec pre ei good_init).2.2.2
        simpa using this
      have hstep : ∃ b m2', handleHunkLine cfg mi l = .ok (b, m2') ∧ m2 = { m2' with n := m2'.n + 1 } := by
        unfold step at e2
        have hinit : stepInit mi l = mi := by unfold stepInit; simp [hsrc]
        rw [hinit, hunk_body_line_claimed cfg mi l hsrc hst hun hb hc hsub] at e2
        cases hh : handleHunkLine cfg mi l with
        | error err => simp [hh] at e2
        | ok p =>
          obtain ⟨b, m2'⟩ := p
          simp only [hh] at e2
          cases e2
          exact ⟨b, m2', rfl, rfl⟩
      obtain ⟨b, m2', hh, hm2⟩ := hstep
      have hbody := handleHunkLine_unified hst hdt hb gi hh
      obtain ⟨_, hn2, hnomc2, _⟩ := handleHunkLine_body hst gi hh
      have g2 := (step_spec e2 gi).1
      have hb2 : bodyTL m2 = bodyTL mi ++ [expectedRow cfg l pre.length] := by
        subst hm2
        show bodyTL m2' = _
        rw [hbody, hni]
      have hnomc2' : isMergeConflict m2.st = false := by subst hm2; exact hnomc2
      have hn2' : m2.n = pre.length + 1 := by subst hm2; show m2'.n + 1 = _; rw [hn2, hni]
      obtain ⟨more, hm, hge⟩ := runFrom_body_ext_rows post e1 hmc_post hnomc2' g2
      have hfin : bodyTL m = bodyTL m1 := tailOps_body _ e
      have hrows : m.out.filter (fun r => isBody r.kind) = bodyTL mi ++ [expectedRow cfg l pre.length] ++ more := by
        rw [← hout]
        show bodyTL m = _
        rw [hfin, hm, hb2]
      rw [hrows, List.filter_append, List.filter_append]
      have c1 : (bodyTL mi).filter (fun r => r.src = pre.length) = [] := by
        rw [List.filter_eq_nil_iff]
        intro r hr
        have : r.src ∈ bodySrcs mi := List.mem_map_of_mem hr
        have := hinc.below _ this
        simp; omega
      have c3 : more.filter (fun r => r.src = pre.length) = [] := by
        rw [List.filter_eq_nil_iff]
        intro r hr
        have := hge r hr
        simp; omega
      rw [c1, c3]
      simp [expectedRow_src]

/-- **A hunk line is shown exactly once — unified and combined diffs.** In any hunk state of a
git diff (unified, or combined with any number of parents, outside conflict regions), a line
that can belong to a hunk body (empty, or starting with a blank, `+`, `-` or `\`; not a commit line,
not a 40-hex `Subproject commit` line, not opening a conflict region) has exactly one row of kind
minus / plus / zero / other in delta's output, whatever precedes and follows it. -/
theorem run_hunk_line_exactly_once_any {cfg : Cfg} {pre post : List L} {l : L} {mi m : M}
    (hmc : ∀ x ∈ pre ++ l :: post, startsWith x.text Generated.Markers.mcBegin = false)
    (ei : runFrom cfg {} pre = .ok mi) (hsrc : mi.source = .gitDiff) (hst : isHunkState mi.st = true)
    (hb : HunkBody l) (hsub : l.submodule = none) (e : run cfg (pre ++ l :: post) = .ok m) :
    ((m.out.filter (fun r => isBody r.kind)).map (·.src)).count pre.length = 1 := by
  have hout := (run_spec e).2
  unfold run at e
  split at e
  · cases e
  · rename_i m1 e1
    rw [runFrom_append, ei] at e1
    simp only [runFrom] at e1
    split at e1
    · cases e1
    · rename_i m2 e2
      have hmc_pre : ∀ x ∈ pre, startsWith x.text Generated.Markers.mcBegin = false :=
        fun x hx => hmc x (List.mem_append_left _ hx)
      have hmc_l : startsWith l.text Generated.Markers.mcBegin = false :=
        hmc l (List.mem_append_right _ (List.mem_cons_self ..))
      have hmc_post : ∀ x ∈ post, startsWith x.text Generated.Markers.mcBegin = false :=
        fun x hx => hmc x (List.mem_append_right _ (List.mem_cons_of_mem _ hx))
      have h0 : Inc ({} : M) := ⟨by simp [bodySrcs, bodyTL, timeline], by simp [bodySrcs, bodyTL, timeline]⟩
      obtain ⟨hinc, hnomc, gi⟩ := runFrom_inc pre ei hmc_pre rfl good_init h0
      have hni : mi.n = pre.length := by
        have := (runFrom_spec pre ei good_init).2.2.2
        simpa using this
      have hstep : ∃ b m2', handleHunkLine cfg mi l = .ok (b, m2') ∧ m2 = { m2' with n := m2'.n + 1 } := by
        unfold step at e2
        have hinit : stepInit mi l = mi := by unfold stepInit; simp [hsrc]
        rw [hinit, hunk_body_chain cfg mi l (by rw [hsrc]; decide) hst hb hsub hmc_l] at e2
        cases hh : handleHunkLine cfg mi l with
        | error err => simp [hh] at e2
        | ok p =>
          obtain ⟨b, m2'⟩ := p
          simp only [hh] at e2
          cases e2
          exact ⟨b, m2', rfl, rfl⟩
      obtain ⟨b, m2', hh, hm2⟩ := hstep
      obtain ⟨_, hn2, hnomc2, r, hbody, hrsrc, _⟩ := handleHunkLine_body hst gi hh
      have g2 := (step_spec e2 gi).1
      have hb2 : bodySrcs m2 = bodySrcs mi ++ [pre.length] := by
        subst hm2
        show (bodyTL m2').map (·.src) = _
        rw [hbody]; simp [bodySrcs, hrsrc, hni]
      have hnomc2' : isMergeConflict m2.st = false := by subst hm2; exact hnomc2
      obtain ⟨more, hm, hge⟩ := runFrom_body_ext post e1 hmc_post hnomc2' g2
      have hn2' : m2.n = pre.length + 1 := by subst hm2; show m2'.n + 1 = _; rw [hn2, hni]
      have hfin : bodyTL m = bodyTL m1 := tailOps_body _ e
      have hsrcs : (m.out.filter (fun r => isBody r.kind)).map (·.src) = bodySrcs mi ++ [pre.length] ++ more := by
        rw [← hout]
        show bodySrcs m = _
        have hmm : bodySrcs m = bodySrcs m1 := by unfold bodySrcs; rw [hfin]
        rw [hmm, hm, hb2]
      rw [hsrcs, List.count_append, List.count_append]
      have c1 : (bodySrcs mi).count pre.length = 0 := by
        rw [List.count_eq_zero]
        intro hmem
        have := hinc.below _ hmem
        omega
      have c3 : more.count pre.length = 0 := by
        rw [List.count_eq_zero]
        intro hmem
        have := hge _ hmem
        rw [hn2'] at this
        omega
      rw [c1, c3]; simp

end Machine
