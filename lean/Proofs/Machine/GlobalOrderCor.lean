import Proofs.Machine.GlobalOrder
import Proofs.Machine.Passthrough
/-!
Corollaries of the global ordering theorem (`GlobalOrder.lean`), over whole runs:

* `run_rows_split_at`, `run_section_block` - the rows produced from a block of consecutive input lines
  (the lines of one file section, a commit block, …) stand together in the output, after every row
  of an earlier line and before every row of a later line;
* `run_passthrough_in_place` - a line met outside any diff section that opens no construct has
  exactly one row, a raw row with the line unchanged, after every row of earlier lines and before
  every row of later lines - in any input, not only in streams without constructs.
-/
set_option linter.unusedSimpArgs false
set_option linter.unusedVariables false
namespace Machine
open Headers Generated

theorem sorted_split {rows : List Row} (h : Sorted rows) (k : Nat) :
    ∃ pre post, rows = pre ++ post ∧ (∀ r ∈ pre, r.src < k) ∧ (∀ r ∈ post, k ≤ r.src) := by
  induction rows with
  | nil => exact ⟨[], [], rfl, by simp, by simp⟩
  | cons a rest ih =>
    have h' : Sorted ([a] ++ rest) := h
    rw [sorted_append] at h'
    obtain ⟨_, hrest, hle⟩ := h'
    by_cases ha : a.src < k
    · obtain ⟨pre, post, e, h1, h2⟩ := ih hrest
      refine ⟨a :: pre, post, by rw [e]; rfl, ?_, h2⟩
      intro r hr
      rcases List.mem_cons.mp hr with h3 | h3
      · rw [h3]; exact ha
      · exact h1 r h3
    · refine ⟨[], a :: rest, rfl, by simp, ?_⟩
      intro r hr
      rcases List.mem_cons.mp hr with h3 | h3
      · rw [h3]; omega
      · have := hle a (by simp) r h3; omega

theorem sorted_split3 {rows : List Row} (h : Sorted rows) (k1 k2 : Nat) :
    ∃ a s b, rows = a ++ s ++ b ∧ (∀ r ∈ a, r.src < k1) ∧ (∀ r ∈ s, k1 ≤ r.src ∧ r.src < k2) ∧
      (∀ r ∈ b, k2 ≤ r.src) := by
  obtain ⟨a, post, e1, ha, hpost⟩ := sorted_split h k1
  have hs : Sorted post := by rw [e1, sorted_append] at h; exact h.2.1
  obtain ⟨s, b, e2, hs2, hb⟩ := sorted_split hs k2
  refine ⟨a, s, b, by rw [e1, e2, List.append_assoc], ha, ?_, hb⟩
  intro r hr
  exact ⟨hpost r (by rw [e2]; exact List.mem_append_left _ hr), hs2 r hr⟩

/-- **Rows of earlier lines stand before rows of later lines** (whole runs): cut the input anywhere,
`ls = A ++ B`; then the output is `before ++ after` where `before` holds exactly the rows stamped
with a line of `A` and `after` those stamped with a line of `B` (or with `ls.length`: a file header
written by the statements after the loop). -/
theorem run_rows_split_at {cfg : Cfg} {A B : List L} {m : M}
    (hmc : ∀ l ∈ A ++ B, startsWith l.text Generated.Markers.mcBegin = false) (hns : NoStray (A ++ B))
    (e : run cfg (A ++ B) = .ok m) :
    ∃ before after, m.out = before ++ after ∧ (∀ r ∈ before, r.src < A.length) ∧
      (∀ r ∈ after, A.length ≤ r.src) :=
  sorted_split (run_rows_sorted hmc hns e).1 A.length

/-- **The rows of a block of lines stand together, between the rows of what precedes and what
follows** (whole runs). With `S` the lines of file section k (from its `diff ` line up to the line
before the next section's `diff ` line): every row produced from a line of the section stands after
all rows of earlier sections and before all rows of later ones - in particular after the rows that
end section k-1 and before the file header of section k+1, which is stamped with a line of `B`. -/
theorem run_section_block {cfg : Cfg} {A S B : List L} {m : M}
    (hmc : ∀ l ∈ A ++ S ++ B, startsWith l.text Generated.Markers.mcBegin = false) (hns : NoStray (A ++ S ++ B))
    (e : run cfg (A ++ S ++ B) = .ok m) :
    ∃ a s b, m.out = a ++ s ++ b ∧ (∀ r ∈ a, r.src < A.length) ∧
      (∀ r ∈ s, A.length ≤ r.src ∧ r.src < A.length + S.length) ∧ (∀ r ∈ b, A.length + S.length ≤ r.src) :=
  sorted_split3 (run_rows_sorted hmc hns e).1 A.length (A.length + S.length)

theorem stepInit_source_ne {m : M} {l : L} (hm : m.source ≠ .diffUnified) (hl : detectSource l.text ≠ .diffUnified) :
    (stepInit m l).source ≠ .diffUnified := by
  unfold stepInit
  split
  · unfold armCounter
    repeat' split
    all_goals first
      | exact hl
      | (rename_i hh; exact absurd hh hl)
  · exact hm

theorem pend_none_of_text_state {s : State} (h : s = .unknown ∨ s = .commitMeta) : pend s = none := by
  rcases h with h | h <;> (rw [h]; rfl)

/-- **A pass-through line keeps its place** (whole runs, every configuration, any input): a line met
in state Unknown / CommitMeta (before the first diff, commit-message text between the file sections
of `git log -p`) that opens no construct has exactly one row in delta's output - a raw row carrying
the line unchanged - and that row stands after every row of every earlier line and before every row
of every later line. -/
theorem run_passthrough_in_place {cfg : Cfg} {pre post : List L} {l : L} {mi m : M}
    (hmc : ∀ x ∈ pre ++ l :: post, startsWith x.text Generated.Markers.mcBegin = false)
    (hns : NoStray (pre ++ l :: post))
    (ei : runFrom cfg {} pre = .ok mi) (hst : mi.st = .unknown ∨ mi.st = .commitMeta)
    (hsrc : mi.source ≠ .diffUnified) (hl : PlainText l) (e : run cfg (pre ++ l :: post) = .ok m) :
    ∃ A C, m.out = A ++ [{ kind := .raw, text := l.raw, src := pre.length }] ++ C ∧
      (∀ r ∈ A, r.src < pre.length) ∧ (∀ r ∈ C, pre.length < r.src) := by
  have hout := (run_spec e).2
  unfold run at e
  split at e
  · cases e
  · rename_i m2 e2
    rw [runFrom_append, ei] at e2
    simp only [runFrom] at e2
    split at e2
    · cases e2
    · rename_i m1 es
      have hmc_pre : ∀ x ∈ pre, startsWith x.text Generated.Markers.mcBegin = false :=
        fun x hx => hmc x (List.mem_append_left _ hx)
      have hmc_l : startsWith l.text Generated.Markers.mcBegin = false :=
        hmc l (List.mem_append_right _ List.mem_cons_self)
      have hmc_post : ∀ x ∈ post, startsWith x.text Generated.Markers.mcBegin = false :=
        fun x hx => hmc x (List.mem_append_right _ (List.mem_cons_of_mem _ hx))
      have hns' : noStrayFrom false (pre ++ l :: post) = true := hns
      rw [noStrayFrom_append] at hns'
      simp only [Bool.and_eq_true, noStrayFrom] at hns'
      obtain ⟨hns_pre, _, hns_post⟩ := hns'
      obtain ⟨rii, hni, _, _, _⟩ := runFrom_ri pre false ei hmc_pre hns_pre (fun h => absurd rfl h) ri_init
      have hni' : mi.n = pre.length := by simpa using hni
      have hpi : pend mi.st = none := pend_none_of_text_state hst
      obtain ⟨ri1, hn1, _, _, _⟩ := step_ri hmc_l (fun h => absurd hpi h) rii es
      -- the step for `l` is the pass-through step
      obtain ⟨htl0, hn0, hst0⟩ := stepInit_body mi l
      obtain ⟨mc, ec, hstc, htlc⟩ := passthrough_exact cfg (stepInit mi l) l (by rw [hst0]; exact hst)
        (stepInit_source_ne hsrc hl.src) hl.no
      have hm1 : timeline m1 = timeline mi ++ [{ kind := .raw, text := l.raw, src := pre.length }] ∧ m1.st = mi.st := by
        unfold step at es
        rw [ec] at es
        cases es
        exact ⟨by show timeline mc = _; rw [htlc, htl0, hn0, hni'], by show mc.st = _; rw [hstc, hst0]⟩
      have hp1 : pend m1.st = none := by rw [hm1.2]; exact hpi
      obtain ⟨_, _, new, tn, bn⟩ := run_from_mid (hhLike l) ri1 (fun h => absurd hp1 h) hmc_post hns_post e2 e
      refine ⟨timeline mi, new, by rw [← hout, tn, hm1.1], ?_, ?_⟩
      · intro r hr
        have := rii.strict r hr
        omega
      · intro r hr
        have := bn r hr
        rw [lo_of_pend_none hp1, hn1, hni'] at this
        omega

/-- **A row of an earlier line stands before a row of a later line** (whole runs, by position): if the
row at position `i` of the output is stamped with a smaller input index than the row at position
`j`, then `i < j`. With the description of where header rows come from (`+++ ` line for an eagerly
written file header, `@@` line for a hunk header) this is "header before the file's hunks, after
everything of the previous file". -/
theorem run_rows_positions {cfg : Cfg} {ls : List L} {m : M}
    (hmc : ∀ l ∈ ls, startsWith l.text Generated.Markers.mcBegin = false) (hns : NoStray ls)
    (e : run cfg ls = .ok m) {i j : Nat} {r1 r2 : Row} (h1 : m.out[i]? = some r1) (h2 : m.out[j]? = some r2)
    (hlt : r1.src < r2.src) : i < j := by
  have hs : (m.out.map (·.src)).Pairwise (· ≤ ·) := (run_rows_sorted hmc hns e).1
  rw [List.pairwise_iff_getElem] at hs
  obtain ⟨hi, e1⟩ := List.getElem?_eq_some_iff.mp h1
  obtain ⟨hj, e2⟩ := List.getElem?_eq_some_iff.mp h2
  by_cases hij : i < j
  · exact hij
  · exfalso
    have hji : j ≤ i := Nat.le_of_not_lt hij
    rcases Nat.lt_or_eq_of_le hji with h | h
    · have := hs j i (by simpa using hj) (by simpa using hi) h
      simp only [List.getElem_map, e1, e2] at this
      omega
    · subst h
      rw [e1] at e2
      subst e2
      omega

end Machine
