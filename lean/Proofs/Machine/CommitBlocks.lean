import Proofs.Machine.FileHeaders5
/-!
Whole-run file headers (C14), part 6: commit blocks of `git log -p` / `git show` between file sections.

A commit block is the `commit <hash>` line (matched by the commit regex; `handle_commit_meta_header_line`)
followed by the lines git prints before the first `diff ` line of that commit (`Author:`, `Date:`, `Merge:`,
blank lines, the indented message, notes): lines met in `State::CommitMeta` that no handler claims.

* `commit_line_step`: the commit line writes exactly the file header that is still due for the section
  before it (`handle_pending_line_with_diff_name` at the top of the handler), stamped with the index of the
  commit line, and no other file row — for every commit style (omitted, raw with or without decoration,
  decorated) — and leaves the machine in `CommitMeta` with nothing pending.
* `meta_line_step`: a line of the block is passed through, no file row, state unchanged.
* `item_run`, `items_run`, `run_one_file_row_per_section_log`: sections (`Sec2`) and commit blocks in any
  order: the file-header rows of the output are exactly one per section, in order; none for a commit block.
-/
set_option linter.unusedSimpArgs false
set_option linter.unusedVariables false
namespace Machine
open Headers Generated

/-- `commit ` — the prefix of git's commit line (first entry of the source-detection prefixes) -/
def commitLit : Str := ['c', 'o', 'm', 'm', 'i', 't', ' ']

/-- the commit line of a commit block: matched by the commit regex and beginning `commit ` -/
def isCommitLine (l : L) : Bool := l.commitRe && startsWith l.text commitLit

/-- the line begins with none of the literals a handler before the pass-through tests for -/
def noPrefixb (l : L) : Bool :=
  !startsWith l.text Markers.diffLine && !startsWithAny l.text Markers.fileOperationLine &&
  !startsWithAny l.text Markers.minusLine && !startsWithAny l.text Markers.plusLine &&
  !startsWith l.text Markers.hunkHeader && !startsWith l.text Markers.oldMode &&
  !startsWith l.text Markers.newMode && !startsWith l.text Markers.onlyIn &&
  !startsWith l.text Markers.binaryFiles && !startsWith l.text Markers.submoduleLog

structure NoPrefix (l : L) : Prop where
  diff : startsWith l.text Markers.diffLine = false
  fileOp : startsWithAny l.text Markers.fileOperationLine = false
  minus : startsWithAny l.text Markers.minusLine = false
  plus : startsWithAny l.text Markers.plusLine = false
  hunkHeader : startsWith l.text Markers.hunkHeader = false
  oldMode : startsWith l.text Markers.oldMode = false
  newMode : startsWith l.text Markers.newMode = false
  onlyIn : startsWith l.text Markers.onlyIn = false
  binary : startsWith l.text Markers.binaryFiles = false
  sublog : startsWith l.text Markers.submoduleLog = false

theorem noPrefix_of_b {l : L} (h : noPrefixb l = true) : NoPrefix l := by
  unfold noPrefixb at h
  simp only [Bool.and_eq_true, Bool.not_eq_true'] at h
  obtain ⟨⟨⟨⟨⟨⟨⟨⟨⟨a, b⟩, c⟩, d⟩, e⟩, f⟩, g⟩, i⟩, j⟩, k⟩ := h
  exact ⟨a, b, c, d, e, f, g, i, j, k⟩

/-- a line of a commit block after the commit line (`Author: …`, `Date: …`, blank, indented message …):
not matched by the commit regex, beginning with none of the handlers' literals -/
def isMetaLine (l : L) : Bool := !l.commitRe && noPrefixb l

theorem commit_facts {l : L} (h : startsWith l.text commitLit = true) :
    NoPrefix l ∧ detectSource l.text = .gitDiff := by
  obtain ⟨rest, ht⟩ := startsWith_split h
  refine ⟨⟨by simp [ht, startsWith, Markers.diffLine, commitLit, List.isPrefixOf],
    by simp [ht, startsWithAny, startsWith, Markers.fileOperationLine, commitLit, List.isPrefixOf],
    by simp [ht, startsWithAny, startsWith, Markers.minusLine, commitLit, List.isPrefixOf],
    by simp [ht, startsWithAny, startsWith, Markers.plusLine, commitLit, List.isPrefixOf],
    by simp [ht, startsWith, Markers.hunkHeader, commitLit, List.isPrefixOf],
    by simp [ht, startsWith, Markers.oldMode, commitLit, List.isPrefixOf],
    by simp [ht, startsWith, Markers.newMode, commitLit, List.isPrefixOf],
    by simp [ht, startsWith, Markers.onlyIn, commitLit, List.isPrefixOf],
    by simp [ht, startsWith, Markers.binaryFiles, commitLit, List.isPrefixOf],
    by simp [ht, startsWith, Markers.submoduleLog, commitLit, List.isPrefixOf]⟩, ?_⟩
  simp [ht, detectSource, startsWithAny, startsWith, Generated.gitDiffPrefixes, commitLit, List.isPrefixOf]

/-- in `CommitMeta` a line with none of the literals runs through every handler after the first down to
`emit_line_unchanged` -/
theorem cmeta_tail (cfg : Cfg) (x : M) (l : L) (hst : x.st = .commitMeta) (np : NoPrefix l) :
    chain cfg l (Generated.handlerOrder.drop 1) x = .ok (emitLineUnchanged (emit (emit (emit x))) l) := by
  have hnd : isDiffHeader x.st = false := by rw [hst]; rfl
  have e2 : handleDiffStat cfg x l = .ok (false, x) := rfl
  have e3 := handleDiffHeaderDiff_not_mine cfg x l np.diff
  have e4 := handleFileOperation_not_mine cfg x l (by simp [np.fileOp])
  have e5 := handleMinusLine_not_mine cfg x l (minusLineTest_false x np.minus)
  have e6 := handlePlusLine_not_mine cfg x l (by unfold plusLineTest; simp [np.plus])
  have e7 := handleHunkHeader_not_mine cfg x l np.hunkHeader
  have e8 := handleModeLine_not_mine cfg x l np.oldMode np.newMode
  have e9 := handleMisc_not_mine cfg x l np.onlyIn np.binary
  have e10 := handleSubmoduleLog_not_mine cfg x l np.sublog
  have e11 : handleSubmoduleShort cfg x l = .ok (false, x) := by
    unfold handleSubmoduleShort submoduleShortTest
    simp [hst, pairableHunkHeader]
  have e12 := handleMergeConflict_not_mine cfg x l (by rw [hst]; rfl) (by rw [hst]; rfl)
  have e13 : handleHunkLine cfg x l = .ok (false, x) := by unfold handleHunkLine; simp [hst, isHunkState]
  have e15 : handleBlame cfg (emit x) l = .ok (false, emit (emit x)) := by
    unfold handleBlame; simp [hst]
  have e16 : handleGrep cfg (emit (emit x)) l = .ok (false, emit (emit (emit x))) := by
    unfold handleGrep; simp [hst]
  have e17 : handleShouldSkip cfg (emit (emit (emit x))) l = .ok (false, emit (emit (emit x))) := by
    unfold handleShouldSkip shouldSkipLine; simp [hnd]
  have hs : Generated.handlerOrder.drop 1 = "handle_diff_stat_line" :: "handle_diff_header_diff_line" ::
      "handle_diff_header_file_operation_line" :: "handle_diff_header_minus_line" ::
      "handle_diff_header_plus_line" :: tailNames := rfl
  rw [hs, chain_skip (by rfl) e2, chain_skip (by rfl) e3, chain_skip (by rfl) e4, chain_skip (by rfl) e5,
    chain_skip (by rfl) e6]
  simp only [tailNames, Generated.handlerOrder, List.drop, chain, handlerOf, e7, e8, e9, e10, e11, e12, e13,
    handleGitShowFile, e15, e16, e17, handleEmitUnchanged]

/-- what the pass-through leaves alone -/
theorem passthrough_keeps (x : M) (l : L) :
    (emitLineUnchanged (emit (emit (emit x))) l).source = x.source ∧
    (emitLineUnchanged (emit (emit (emit x))) l).counter = x.counter ∧
    (emitLineUnchanged (emit (emit (emit x))) l).modeInfo = x.modeInfo ∧
    (emitLineUnchanged (emit (emit (emit x))) l).handledPair = x.handledPair ∧
    (emitLineUnchanged (emit (emit (emit x))) l).currentPair = x.currentPair ∧
    (emitLineUnchanged (emit (emit (emit x))) l).st = x.st ∧
    fileTL (emitLineUnchanged (emit (emit (emit x))) l) = fileTL x ∧
    (emitLineUnchanged (emit (emit (emit x))) l).n = x.n := by
  obtain ⟨d1, d2, d3, _, _, _⟩ := direct_keeps (emit (flushMP (emit (emit (emit x)))))
    [{ kind := RowKind.raw, text := l.raw, src := (emit (emit (emit x))).n }]
  obtain ⟨f1, f2, f3, _, _, _⟩ := flushMP_keeps (emit (emit (emit x)))
  have hzu : emitLineUnchanged (emit (emit (emit x))) l = direct (emit (flushMP (emit (emit (emit x)))))
      [{ kind := RowKind.raw, text := l.raw, src := (emit (emit (emit x))).n }] := rfl
  rw [← hzu] at d1 d2 d3
  refine ⟨?_, ?_, ?_, ?_, ?_, ?_, ?_, ?_⟩
  · rw [hzu, direct_source, emit_source, flushMP_source]; rfl
  · rw [d1]; show (flushMP (emit (emit (emit x)))).counter = _; rw [f1]; rfl
  · rw [hzu, direct_modeInfo, emit_modeInfo, flushMP_modeInfo]; rfl
  · rw [d2]; show (flushMP (emit (emit (emit x)))).handledPair = _; rw [f2]; rfl
  · rw [d3]; show (flushMP (emit (emit (emit x)))).currentPair = _; rw [f3]; rfl
  · rw [emitLineUnchanged_st]; rfl
  · unfold fileTL
    rw [hzu, timeline_direct_flushed, List.filter_append, timeline_emit, timeline_emit, timeline_emit]
    simp
  · rw [hzu]; simp

theorem drawRows_commit_nofile (s : ElemStyle) (t r : Str) (n : Nat) :
    (drawRows s .commit t r [] n).filter (fun x => x.kind == .file) = [] := by
  unfold drawRows
  cases hd : s.deco <;> cases hr : s.isRaw <;> simp [hd, hr]

/-- what the commit line leaves of the machine `y` reached by writing the pending header -/
structure CKeep (y z : M) : Prop where
  src : z.source = y.source
  cnt : z.counter = y.counter
  mode : z.modeInfo = y.modeInfo
  hp : z.handledPair = y.handledPair
  cp : z.currentPair = y.currentPair
  st : z.st = .commitMeta
  tl : fileTL z = fileTL y
  n : z.n = y.n

/-- the handler chain on a commit line, every commit style: after `handle_pending_line_with_diff_name`
no file row is written; the machine ends in `CommitMeta` -/
theorem commit_chain (cfg : Cfg) (m0 : M) (l : L) (hcr : l.commitRe = true) (np : NoPrefix l)
    (hm : (pendingDiffName cfg (flushMP m0)).minus = []) (hp : (pendingDiffName cfg (flushMP m0)).plus = []) :
    ∃ z, chain cfg l Generated.handlerOrder m0 = .ok z ∧ CKeep (pendingDiffName cfg (flushMP m0)) z := by
  obtain ⟨y, hy⟩ : ∃ y, y = pendingDiffName cfg (flushMP m0) := ⟨_, rfl⟩
  rw [← hy] at hm hp ⊢
  have hsplit : Generated.handlerOrder = "handle_commit_meta_header_line" :: Generated.handlerOrder.drop 1 := rfl
  cases hsh : shouldHandle cfg { y with st := .commitMeta }
  · -- raw style without decoration: the handler sets the state and declines; the line is passed through
    have e1 : handleCommitMeta cfg m0 l = .ok (false, { y with st := .commitMeta }) := by
      unfold handleCommitMeta
      rw [← hy]
      simp [hcr, hsh]
    refine ⟨emitLineUnchanged (emit (emit (emit ({ y with st := .commitMeta } : M)))) l, ?_, ?_⟩
    · rw [hsplit, chain_skip (by rfl) e1]
      exact cmeta_tail cfg _ l rfl np
    · obtain ⟨a1, a2, a3, a4, a5, a6, a7, a8⟩ := passthrough_keeps ({ y with st := .commitMeta } : M) l
      exact ⟨a1, a2, a3, a4, a5, a6, a7.trans (fileTL_congr rfl), a8⟩
  · have e1 : ∃ z, handleCommitMeta cfg m0 l = .ok (true, z) ∧ CKeep y z := by
      unfold handleCommitMeta
      rw [← hy]
      simp only [hcr, Bool.not_true, Bool.false_eq_true, if_false, hsh, if_true]
      split
      · exact ⟨_, rfl, ⟨rfl, rfl, rfl, rfl, rfl, rfl, (fileTL_emit _).trans (fileTL_congr rfl), rfl⟩⟩
      · refine ⟨_, rfl, ?_⟩
        obtain ⟨d1, d2, d3, _, _, _⟩ := direct_keeps (emit ({ y with st := .commitMeta } : M))
          (drawRows cfg.commitStyle .commit l.text l.raw [] m0.n)
        have htl : fileTL (direct (emit ({ y with st := .commitMeta } : M))
            (drawRows cfg.commitStyle .commit l.text l.raw [] m0.n)) = fileTL (emit ({ y with st := .commitMeta } : M)) := by
          unfold fileTL
          rw [timeline_direct_quiet (emit ({ y with st := .commitMeta } : M)) _ rfl hm hp, List.filter_append,
            drawRows_commit_nofile, List.append_nil]
        exact ⟨by simp, d1, by simp, d2, d3, by simp, (htl.trans (fileTL_emit _)).trans (fileTL_congr rfl), by simp⟩
    obtain ⟨z, ez, kz⟩ := e1
    refine ⟨z, ?_, kz⟩
    simp only [Generated.handlerOrder, chain, handlerOf, ez]

/-- inside a commit block: nothing pending, state `CommitMeta`, source detected as git -/
structure CMeta (m : M) : Prop extends Settled2 m where
  st : m.st = .commitMeta
  gsrc : m.source = .gitDiff

/-- (K) the commit line: the header that is due for the section before it (if any) is written, stamped with
the index of the commit line; no other file row; every commit style -/
theorem commit_line_step {cfg : Cfg} (hc : FHC cfg) {m : M} {l : L} (h : Pre m) (hl : isCommitLine l = true) :
    ∃ m', step cfg m l = .ok m' ∧ CMeta m' ∧ fileTL m' = facct cfg m ∧ m'.n = m.n + 1 := by
  unfold isCommitLine at hl
  simp only [Bool.and_eq_true] at hl
  obtain ⟨hcr, hsw⟩ := hl
  obtain ⟨np, hdet⟩ := commit_facts hsw
  obtain ⟨m0, hm0⟩ : ∃ m0, m0 = stepInit m l := ⟨_, rfl⟩
  have hinit : m0.source = .gitDiff ∧ timeline m0 = timeline m ∧ m0.counter = m.counter ∧
      m0.diffLine = m.diffLine ∧ m0.diffLineG = m.diffLineG ∧ m0.modeInfo = m.modeInfo ∧ m0.minusFile = m.minusFile ∧
      m0.plusFile = m.plusFile ∧ m0.minusEvent = m.minusEvent ∧ m0.handledPair = m.handledPair ∧
      m0.currentPair = m.currentPair ∧ m0.n = m.n ∧ m0.st = m.st := by
    rw [hm0]
    unfold stepInit
    rcases h.src with hs | hs
    · simp [hs]
    · simp only [hs, if_true]
      unfold armCounter
      have hne : (Source.gitDiff = Source.diffUnified) = False := by simp
      simp only [Markers.prepareToCount, hdet, hne, if_false]
      refine ⟨?_, ?_, ?_, ?_, ?_, ?_, ?_, ?_, ?_, ?_, ?_, ?_, ?_⟩ <;> first | trivial | rfl
  obtain ⟨hsrc0, htl0, hcnt0, i1, i2, i3, i4, i5, i6, i7, i8, i9, ist⟩ := hinit
  have g0 : Good m0 := by rw [hm0]; exact (stepInit_stepS l h.good).good
  obtain ⟨f1, f2, f3, f4, f5, f6, f7, f8, f9⟩ := flushMP_hfields m0
  have hpend : ((flushMP m0).modeInfo = [] ∧ (flushMP m0).handledPair = (flushMP m0).currentPair) ∨
      ((flushMP m0).st = .diffHeader .unified ∧ (flushMP m0).source = .gitDiff) := by
    rcases h.pend with ⟨a, b⟩ | ⟨a, b⟩
    · exact Or.inl ⟨by rw [f3, i3]; exact a, by rw [f7, f8, i7, i8]; exact b⟩
    · exact Or.inr ⟨by rw [flushMP_st, ist]; exact a, by rw [flushMP_source]; exact hsrc0⟩
  obtain ⟨pk, pt⟩ := pendingDiffName_acct hc (flushMP m0) hpend (by simp) (by simp)
  have hym : (pendingDiffName cfg (flushMP m0)).minus = [] := by rw [pk.minus]; simp
  have hyp : (pendingDiffName cfg (flushMP m0)).plus = [] := by rw [pk.plus]; simp
  obtain ⟨z, ec, kz⟩ := commit_chain cfg m0 l hcr np hym hyp
  have g := (chain_step _ ec g0).good
  have hcntf : (flushMP m0).counter = m0.counter := by unfold flushMP; split <;> rfl
  have hpr : pendRows cfg (flushMP m0) = pendRows cfg m :=
    pendRows_congr (f1.trans i1) (f2.trans i2) (f3.trans i3) (f4.trans i4) (f5.trans i5) (f6.trans i6)
      (f7.trans i7) (f8.trans i8) (f9.trans i9)
  refine ⟨{ z with n := z.n + 1 }, by unfold step; rw [← hm0, ec], ?_, ?_, ?_⟩
  · refine ⟨⟨?_, ?_, ?_, ?_, ⟨g.order, g.quiet, g.noPlus⟩⟩, kz.st, ?_⟩
    · show z.source = .gitDiff ∨ z.source = .unknown
      rw [kz.src, pk.src, flushMP_source]; exact Or.inl hsrc0
    · show z.counter ≤ -4096
      rw [kz.cnt, pk.cnt, hcntf, hcnt0]; exact h.cnt
    · show z.modeInfo = []
      rw [kz.mode]; exact pk.mode
    · show z.handledPair = z.currentPair
      rw [kz.hp, kz.cp]; exact pk.pair
    · show z.source = .gitDiff
      rw [kz.src, pk.src, flushMP_source]; exact hsrc0
  · show fileTL z = facct cfg m
    rw [kz.tl, pt, fileTL_flushMP, fileTL_congr htl0, hpr]
    rfl
  · show z.n + 1 = m.n + 1
    rw [kz.n, pk.n, f9, i9]

/-- (K') a line of the commit block: passed through unchanged, no file row -/
theorem meta_line_step {cfg : Cfg} {m : M} {l : L} (h : CMeta m) (hl : isMetaLine l = true) :
    ∃ m', step cfg m l = .ok m' ∧ CMeta m' ∧ fileTL m' = fileTL m ∧ m'.n = m.n + 1 := by
  unfold isMetaLine at hl
  simp only [Bool.and_eq_true, Bool.not_eq_true'] at hl
  obtain ⟨hcr, hnp⟩ := hl
  have np := noPrefix_of_b hnp
  have hinit : stepInit m l = m := stepInit_git l h.gsrc
  have e1 := handleCommitMeta_not_mine cfg m l hcr
  have hsplit : Generated.handlerOrder = "handle_commit_meta_header_line" :: Generated.handlerOrder.drop 1 := rfl
  have ec : chain cfg l Generated.handlerOrder m = .ok (emitLineUnchanged (emit (emit (emit m))) l) := by
    rw [hsplit, chain_skip (by rfl) e1]
    exact cmeta_tail cfg m l h.st np
  have g := (chain_step _ ec h.good).good
  obtain ⟨a1, a2, a3, a4, a5, a6, a7, a8⟩ := passthrough_keeps m l
  refine ⟨{ emitLineUnchanged (emit (emit (emit m))) l with n := (emitLineUnchanged (emit (emit (emit m))) l).n + 1 },
    by unfold step; rw [hinit, ec], ?_, ?_, ?_⟩
  · refine ⟨⟨?_, ?_, ?_, ?_, ⟨g.order, g.quiet, g.noPlus⟩⟩, ?_, ?_⟩
    · show (emitLineUnchanged (emit (emit (emit m))) l).source = .gitDiff ∨ _
      rw [a1]; exact h.src
    · show (emitLineUnchanged (emit (emit (emit m))) l).counter ≤ -4096
      rw [a2]; exact h.cnt
    · show (emitLineUnchanged (emit (emit (emit m))) l).modeInfo = []
      rw [a3]; exact h.mode
    · show (emitLineUnchanged (emit (emit (emit m))) l).handledPair = (emitLineUnchanged (emit (emit (emit m))) l).currentPair
      rw [a4, a5]; exact h.pair
    · show (emitLineUnchanged (emit (emit (emit m))) l).st = .commitMeta
      rw [a6]; exact h.st
    · show (emitLineUnchanged (emit (emit (emit m))) l).source = .gitDiff
      rw [a1]; exact h.gsrc
  · exact (fileTL_congr rfl).trans a7
  · show (emitLineUnchanged (emit (emit (emit m))) l).n + 1 = m.n + 1
    rw [a8]

theorem metas_run {cfg : Cfg} : ∀ (ls : List L) {m mf : M}, CMeta m → (∀ x ∈ ls, isMetaLine x = true) →
    runFrom cfg m ls = .ok mf → CMeta mf ∧ fileTL mf = fileTL m ∧ mf.n = m.n + ls.length
  | [], m, mf, h, _, e => by simp only [runFrom] at e; cases e; exact ⟨h, rfl, rfl⟩
  | l :: ls, m, mf, h, hl, e => by
    obtain ⟨m1, e1, er⟩ := runFrom_cons_ok e
    obtain ⟨m1', e1', h1, t1, n1⟩ := meta_line_step (cfg := cfg) h (hl l (List.mem_cons_self ..))
    rw [e1] at e1'; cases e1'
    obtain ⟨h2, t2, n2⟩ := metas_run ls h1 (fun x hx => hl x (List.mem_cons_of_mem _ hx)) er
    exact ⟨h2, t2.trans t1, by rw [n2, n1, List.length_cons]; omega⟩

-- streams of sections and commit blocks ---------------------------------------------------------

/-- an item of a `git log -p` / `git show` stream: a section of a diff, or a commit block -/
inductive Item
  | sec (s : Sec2)
  /-- the `commit <hash>` line and the lines up to the commit's first section (or the next commit) -/
  | commit (c : L) (msgs : List L)

def Item.lines : Item → List L
  | .sec s => s.lines
  | .commit c msgs => c :: msgs

def Item.WF : Item → Prop
  | .sec s => s.WF
  | .commit c msgs => isCommitLine c = true ∧ ∀ x ∈ msgs, isMetaLine x = true

def Item.late : Item → Bool
  | .sec s => s.late
  | .commit .. => false

/-- the file-header rows of an item whose first line is input line `k`: one for a section, none for a
commit block -/
def Item.rows (cfg : Cfg) : Item → Nat → List Row
  | .sec s, k => [s.row cfg k]
  | .commit .., _ => []

def Item.wfb : Item → Bool
  | .sec s => s.wfb
  | .commit c msgs => isCommitLine c && msgs.all isMetaLine

theorem Item.wf_of_b {i : Item} (h : i.wfb = true) : i.WF := by
  cases i with
  | sec s => exact Sec2.wf_of_b h
  | commit c msgs =>
    simp only [Item.wfb, Bool.and_eq_true, List.all_eq_true] at h
    exact ⟨h.1, h.2⟩

theorem items_wf_of_all {items : List Item} (h : items.all Item.wfb = true) : ∀ i ∈ items, i.WF := by
  intro i hi
  exact Item.wf_of_b (List.all_eq_true.mp h i hi)

/-- one item -/
theorem item_run {cfg : Cfg} (hc : FHC cfg) (i : Item) (w : i.WF) {b : Bool} {m mf : M} (h : Inv b m)
    (e : runFrom cfg m i.lines = .ok mf) :
    Inv i.late mf ∧ facct cfg mf = facct cfg m ++ i.rows cfg m.n ∧ mf.n = m.n + i.lines.length := by
  cases i with
  | sec s => exact sec2_run hc s w h e
  | commit c msgs =>
    obtain ⟨wc, wm⟩ := w
    simp only [Item.lines] at e ⊢
    obtain ⟨m1, e1, er1⟩ := runFrom_cons_ok e
    obtain ⟨m1', e1', h1, t1, n1⟩ := commit_line_step hc h.pre wc
    rw [e1] at e1'; cases e1'
    obtain ⟨h2, t2, n2⟩ := metas_run msgs h1 wm er1
    refine ⟨⟨(fun e => by cases e), fun _ => h2.toSettled2⟩, ?_, by rw [n2, n1, List.length_cons]; omega⟩
    rw [show facct cfg mf = fileTL mf by unfold facct; rw [h2.toSettled2.pendRows]; simp, t2, t1]
    simp [Item.rows]

/-- the file rows of a list of items whose first line is input line `k` -/
def rowsOfItems (cfg : Cfg) : Nat → List Item → List Row
  | _, [] => []
  | k, i :: is => i.rows cfg k ++ rowsOfItems cfg (k + i.lines.length) is

def linesOfItems (items : List Item) : List L := items.flatMap Item.lines

theorem items_run {cfg : Cfg} (hc : FHC cfg) : ∀ (items : List Item) {b : Bool} {m mf : M}, (∀ i ∈ items, i.WF) →
    Inv b m → runFrom cfg m (linesOfItems items) = .ok mf →
    (∃ b', Inv b' mf) ∧ facct cfg mf = facct cfg m ++ rowsOfItems cfg m.n items
  | [], b, m, mf, _, h, e => by
    simp only [linesOfItems, List.flatMap_nil, runFrom] at e; cases e; exact ⟨⟨b, h⟩, by simp [rowsOfItems]⟩
  | i :: is, b, m, mf, w, h, e => by
    have hl : linesOfItems (i :: is) = i.lines ++ linesOfItems is := by simp [linesOfItems]
    rw [hl] at e
    obtain ⟨m1, e1, er1⟩ := runFrom_append_ok e
    obtain ⟨h1, t1, n1⟩ := item_run hc i (w i (List.mem_cons_self ..)) h e1
    obtain ⟨h2, t2⟩ := items_run hc is (fun x hx => w x (List.mem_cons_of_mem _ hx)) h1 er1
    exact ⟨h2, by rw [t2, t1, n1]; simp [rowsOfItems]⟩

/-- **One file header per section, none per commit block** (whole runs over `git log -p` shaped input). -/
theorem run_one_file_row_per_section_items {cfg : Cfg} (hc : FHC cfg) (items : List Item) (w : ∀ i ∈ items, i.WF)
    {m : M} (e : run cfg (linesOfItems items) = .ok m) :
    m.out.filter (fun r => r.kind == .file) = rowsOfItems cfg 0 items := by
  have hout := (run_spec e).2
  unfold run at e
  split at e
  · cases e
  · rename_i m1 e1
    have h0 : Inv false ({} : M) := ⟨(fun e => by cases e), fun _ => settled2_init⟩
    obtain ⟨⟨b', h1⟩, t1⟩ := items_run hc items w h0 e1
    have hf := finish_facct hc h1.pre e
    have : m.out.filter (fun r => r.kind == .file) = fileTL m := by rw [← hout]; rfl
    rw [this, hf, t1]
    simp [facct, fileTL, timeline, pendRows]

-- the `git log -p` shape: commits, each with its sections ------------------------------------------

/-- a commit of `git log -p`: the commit line, the lines up to its diff, the sections of its diff (none for a
commit without changes, a merge commit, `git log` without `-p`) -/
structure Commit where
  c : L
  msgs : List L := []
  secs : List Sec2 := []

def Commit.lines (k : Commit) : List L := k.c :: (k.msgs ++ linesOf2 k.secs)

def Commit.WF (k : Commit) : Prop :=
  isCommitLine k.c = true ∧ (∀ x ∈ k.msgs, isMetaLine x = true) ∧ ∀ s ∈ k.secs, s.WF

def Commit.wfb (k : Commit) : Bool := isCommitLine k.c && k.msgs.all isMetaLine && k.secs.all Sec2.wfb

theorem Commit.wf_of_b {k : Commit} (h : k.wfb = true) : k.WF := by
  simp only [Commit.wfb, Bool.and_eq_true, List.all_eq_true] at h
  exact ⟨h.1.1, h.1.2, fun s hs => Sec2.wf_of_b (h.2 s hs)⟩

theorem commits_wf_of_all {ks : List Commit} (h : ks.all Commit.wfb = true) : ∀ k ∈ ks, k.WF := by
  intro k hk
  exact Commit.wf_of_b (List.all_eq_true.mp h k hk)

/-- the input: the sections of a leading diff (`pre`, usually none), then the commits -/
def linesOfLog (pre : List Sec2) (commits : List Commit) : List L := linesOf2 pre ++ commits.flatMap Commit.lines

/-- the file rows of a list of commits whose first commit line is input line `k`: those of each commit's
sections, the first section beginning after the commit line and the message -/
def rowsOfCommits (cfg : Cfg) : Nat → List Commit → List Row
  | _, [] => []
  | k, c :: cs => rowsOf2 cfg (k + 1 + c.msgs.length) c.secs ++ rowsOfCommits cfg (k + c.lines.length) cs

def rowsOfLog (cfg : Cfg) (pre : List Sec2) (commits : List Commit) : List Row :=
  rowsOf2 cfg 0 pre ++ rowsOfCommits cfg (linesOf2 pre).length commits

def Commit.items (k : Commit) : List Item := .commit k.c k.msgs :: k.secs.map .sec

def logItems (pre : List Sec2) (commits : List Commit) : List Item := pre.map .sec ++ commits.flatMap Commit.items

theorem linesOfItems_append (a b : List Item) : linesOfItems (a ++ b) = linesOfItems a ++ linesOfItems b := by
  simp [linesOfItems]

theorem linesOfItems_secs (secs : List Sec2) : linesOfItems (secs.map .sec) = linesOf2 secs := by
  induction secs with
  | nil => rfl
  | cons s ss ih =>
    have : linesOfItems ((s :: ss).map Item.sec) = s.lines ++ linesOfItems (ss.map Item.sec) := by
      simp [linesOfItems, Item.lines]
    rw [this, ih]; simp [linesOf2]

theorem rowsOfItems_append (cfg : Cfg) : ∀ (a b : List Item) (k : Nat),
    rowsOfItems cfg k (a ++ b) = rowsOfItems cfg k a ++ rowsOfItems cfg (k + (linesOfItems a).length) b
  | [], b, k => by simp [rowsOfItems, linesOfItems]
  | i :: is, b, k => by
    have hl : linesOfItems (i :: is) = i.lines ++ linesOfItems is := by simp [linesOfItems]
    simp only [List.cons_append, rowsOfItems, rowsOfItems_append cfg is b, hl, List.length_append, List.append_assoc,
      Nat.add_assoc]

theorem rowsOfItems_secs (cfg : Cfg) : ∀ (secs : List Sec2) (k : Nat),
    rowsOfItems cfg k (secs.map .sec) = rowsOf2 cfg k secs
  | [], _ => rfl
  | s :: ss, k => by
    simp only [List.map_cons, rowsOfItems, rowsOf2, Item.rows, Item.lines, rowsOfItems_secs cfg ss]
    rfl

theorem commit_items_lines (k : Commit) : linesOfItems k.items = k.lines := by
  have : linesOfItems k.items = (k.c :: k.msgs) ++ linesOfItems (k.secs.map .sec) := by
    simp [Commit.items, linesOfItems, Item.lines]
  rw [this, linesOfItems_secs]; simp [Commit.lines]

theorem commits_items_lines : ∀ (cs : List Commit), linesOfItems (cs.flatMap Commit.items) = cs.flatMap Commit.lines
  | [] => rfl
  | c :: cs => by
    simp only [List.flatMap_cons, linesOfItems_append, commit_items_lines, commits_items_lines cs]

theorem commits_items_rows (cfg : Cfg) : ∀ (cs : List Commit) (k : Nat),
    rowsOfItems cfg k (cs.flatMap Commit.items) = rowsOfCommits cfg k cs
  | [], _ => rfl
  | c :: cs, k => by
    simp only [List.flatMap_cons, rowsOfItems_append, commit_items_lines, commits_items_rows cfg cs, rowsOfCommits]
    congr 1
    simp only [Commit.items, rowsOfItems, Item.rows, Item.lines, List.nil_append, rowsOfItems_secs, List.length_cons]
    congr 1
    omega

theorem logItems_lines (pre : List Sec2) (commits : List Commit) :
    linesOfItems (logItems pre commits) = linesOfLog pre commits := by
  unfold logItems linesOfLog
  rw [linesOfItems_append, linesOfItems_secs, commits_items_lines]

theorem logItems_rows (cfg : Cfg) (pre : List Sec2) (commits : List Commit) :
    rowsOfItems cfg 0 (logItems pre commits) = rowsOfLog cfg pre commits := by
  unfold logItems rowsOfLog
  rw [rowsOfItems_append, rowsOfItems_secs, linesOfItems_secs, commits_items_rows, Nat.zero_add]

theorem logItems_wf {pre : List Sec2} {commits : List Commit} (wp : ∀ s ∈ pre, s.WF) (wc : ∀ k ∈ commits, k.WF) :
    ∀ i ∈ logItems pre commits, i.WF := by
  intro i hi
  unfold logItems at hi
  rcases List.mem_append.mp hi with h | h
  · obtain ⟨s, hs, rfl⟩ := List.mem_map.mp h
    exact wp s hs
  · obtain ⟨k, hk, hik⟩ := List.mem_flatMap.mp h
    obtain ⟨w1, w2, w3⟩ := wc k hk
    unfold Commit.items at hik
    rcases List.mem_cons.mp hik with rfl | h2
    · exact ⟨w1, w2⟩
    · obtain ⟨s, hs, rfl⟩ := List.mem_map.mp h2
      exact w3 s hs

/-- **One file header per section of every commit** (whole runs over `git log -p`). -/
theorem run_one_file_row_per_section_log {cfg : Cfg} (hc : FHC cfg) (pre : List Sec2) (commits : List Commit)
    (wp : ∀ s ∈ pre, s.WF) (wc : ∀ k ∈ commits, k.WF) {m : M} (e : run cfg (linesOfLog pre commits) = .ok m) :
    m.out.filter (fun r => r.kind == .file) = rowsOfLog cfg pre commits := by
  rw [← logItems_lines] at e
  rw [run_one_file_row_per_section_items hc _ (logItems_wf wp wc) e, logItems_rows]

theorem rowsOfCommits_length (cfg : Cfg) : ∀ (k : Nat) (cs : List Commit),
    (rowsOfCommits cfg k cs).length = (cs.map (fun c => c.secs.length)).sum
  | _, [] => rfl
  | k, c :: cs => by simp [rowsOfCommits, rowsOf2_length, rowsOfCommits_length cfg _ cs]

/-- the header of a section that is written late is stamped with the index of the line after the section:
in a `git log -p` stream the next commit line (or the next section's first line, or the end of input) -/
theorem late_row_src (cfg : Cfg) (s : Sec2) (k : Nat) (h : s.late = true) :
    (s.row cfg k).src = k + s.lines.length := by
  cases s with
  | log s msgs => cases h
  | file f =>
    obtain ⟨d, modes, noise, body⟩ := f
    cases body <;> first
      | (cases h; done)
      | (simp only [Sec2.row, FileSec.row, Body.row, Sec2.lines, FileSec.lines, Body.lines, List.length_cons,
          List.length_append, List.length_nil]; omega)

end Machine
