import Proofs.Machine.Claims
/-!
Whole-run pass-through (C04): a stream in which no line opens a construct and no line makes delta
take the input for plain `diff -u` output is written out line for line, each row carrying the raw
line unchanged, for every configuration.
-/
set_option linter.unusedSimpArgs false
set_option linter.unusedVariables false
namespace Machine
open Headers Generated

/-- the line opens nothing and does not switch delta to plain-diff mode -/
structure PlainText (l : L) : Prop where
  no : NotOpener l
  src : detectSource l.text ≠ .diffUnified

/-- invariant of a pass-through run: outside any construct, nothing buffered -/
structure PT (m : M) : Prop where
  st : m.st = .unknown
  src : m.source ≠ .diffUnified
  good : Good m

theorem stepInit_pt {m : M} {l : L} (h : PT m) (hl : PlainText l) :
    PT (stepInit m l) ∧ timeline (stepInit m l) = timeline m ∧ (stepInit m l).n = m.n := by
  have hsame : (stepInit m l).st = m.st ∧ timeline (stepInit m l) = timeline m ∧ (stepInit m l).n = m.n ∧
      (stepInit m l).source ≠ .diffUnified := by
    unfold stepInit
    split
    · unfold armCounter
      have hd := hl.src
      repeat' split
      all_goals first
        | exact ⟨rfl, rfl, rfl, hd⟩
        | (rename_i hh; exact absurd hh hd)
    · exact ⟨rfl, rfl, rfl, h.src⟩
  obtain ⟨hst, htl, hn, hsrc⟩ := hsame
  exact ⟨⟨hst.trans h.st, hsrc, (stepInit_stepS l h.good).good⟩, htl, hn⟩

theorem step_pt {cfg : Cfg} {m : M} {l : L} (h : PT m) (hl : PlainText l) :
    ∃ m', step cfg m l = .ok m' ∧ PT m' ∧ m'.n = m.n + 1 ∧
      timeline m' = timeline m ++ [{ kind := .raw, text := l.raw, src := m.n }] := by
  obtain ⟨h0, htl0, hn0⟩ := stepInit_pt h hl
  obtain ⟨m2, e2, hst2, htl2⟩ := passthrough_exact cfg (stepInit m l) l (Or.inl h0.st) h0.src hl.no
  have g2 : Good m2 := (chain_step _ e2 h0.good).good
  have hsrc2 : m2.source = (stepInit m l).source := by
    -- the chain of a pass-through line ends in `emit_line_unchanged` of emitted copies of the state
    have := passthrough_exact cfg (stepInit m l) l (Or.inl h0.st) h0.src hl.no
    -- recompute: the source field is never written by any handler on this path
    clear this
    have hnd : isDiffHeader (stepInit m l).st = false := by rw [h0.st]; rfl
    have hnm : isMergeConflict (stepInit m l).st = false := by rw [h0.st]; rfl
    have hnh : isHunkState (stepInit m l).st = false := by rw [h0.st]; rfl
    have hnc : hunkCombinedParents (stepInit m l).st = none := by rw [h0.st]; rfl
    have hlt : headerLineTest (stepInit m l) = false := by simp [headerLineTest, hnd, h0.src]
    have e1 := handleCommitMeta_not_mine cfg (stepInit m l) l hl.no.commit
    have e3 := handleDiffHeaderDiff_not_mine cfg (stepInit m l) l hl.no.diff
    have e4 := handleFileOperation_not_mine cfg (stepInit m l) l (by simp [hlt])
    have e5 := handleMinusLine_not_mine cfg (stepInit m l) l (by simp [minusLineTest, hlt])
    have e6 := handlePlusLine_not_mine cfg (stepInit m l) l (by simp [plusLineTest, hnd])
    have e7 := handleHunkHeader_not_mine cfg (stepInit m l) l hl.no.hunkHeader
    have e8 := handleModeLine_not_mine cfg (stepInit m l) l hl.no.oldMode hl.no.newMode
    have e9 := handleMisc_not_mine cfg (stepInit m l) l hl.no.onlyIn hl.no.binary
    have e10 := handleSubmoduleLog_not_mine cfg (stepInit m l) l hl.no.submodule
    have e11 : handleSubmoduleShort cfg (stepInit m l) l = .ok (false, stepInit m l) := by
      unfold handleSubmoduleShort submoduleShortTest
      simp [h0.st, isHunkHeader, pairableHunkHeader]
    have e12 := handleMergeConflict_not_mine cfg (stepInit m l) l hnc hnm
    have e13 : handleHunkLine cfg (stepInit m l) l = .ok (false, stepInit m l) := by
      unfold handleHunkLine; simp [hnh]
    have e15 : handleBlame cfg (emit (stepInit m l)) l = .ok (false, emit (emit (stepInit m l))) := by
      unfold handleBlame; simp [hl.no.blame]
    have e16 : handleGrep cfg (emit (emit (stepInit m l))) l = .ok (false, emit (emit (emit (stepInit m l)))) := by
      unfold handleGrep; simp [hl.no.grep]
    have e17 : handleShouldSkip cfg (emit (emit (emit (stepInit m l)))) l =
        .ok (false, emit (emit (emit (stepInit m l)))) := by
      unfold handleShouldSkip shouldSkipLine; simp [hnd]
    simp only [Generated.handlerOrder, chain, handlerOf, e1, handleDiffStat, e3, e4, e5, e6, e7, e8, e9, e10, e11,
      e12, e13, handleGitShowFile, e15, e16, e17, handleEmitUnchanged] at e2
    cases e2
    unfold emitLineUnchanged direct flushMP emit
    repeat' split
    all_goals rfl
  refine ⟨{ m2 with n := m2.n + 1 }, ?_, ⟨hst2.trans h0.st, by rw [show ({ m2 with n := m2.n + 1 } : M).source = m2.source from rfl, hsrc2]; exact h0.src,
      ⟨g2.order, g2.quiet, g2.noPlus⟩⟩, ?_, ?_⟩
  · unfold step; rw [e2]
  · show m2.n + 1 = m.n + 1
    have := (chain_step _ e2 h0.good).ext.n
    rw [this, hn0]
  · show timeline m2 = _
    rw [htl2, htl0, hn0]

theorem runFrom_pt {cfg : Cfg} : ∀ (ls : List L) {m : M}, PT m → (∀ l ∈ ls, PlainText l) →
    ∃ m', runFrom cfg m ls = .ok m' ∧ PT m' ∧
      timeline m' = timeline m ++ (ls.zipIdx m.n).map (fun p => ({ kind := .raw, text := p.1.raw, src := p.2 } : Row))
  | [], m, h, _ => ⟨m, rfl, h, by simp⟩
  | l :: ls, m, h, hl => by
    obtain ⟨m1, e1, h1, hn1, htl1⟩ := step_pt (cfg := cfg) h (hl l (List.mem_cons_self ..))
    obtain ⟨m', e', h', htl'⟩ := runFrom_pt (cfg := cfg) ls h1 (fun x hx => hl x (List.mem_cons_of_mem _ hx))
    refine ⟨m', by simp only [runFrom, e1]; exact e', h', ?_⟩
    rw [htl', htl1, hn1]
    simp [List.zipIdx_cons, List.append_assoc]

/-- **Pass-through of a whole stream.** For every configuration: if no line of the input opens a
construct (`NotOpener`) or looks like the start of plain `diff -u` output, delta terminates
normally and its output is the input, line for line: row `i` is a raw row carrying exactly the
`raw_line` of input line `i`. -/
theorem run_passthrough {cfg : Cfg} (ls : List L) (hl : ∀ l ∈ ls, PlainText l) :
    ∃ m, run cfg ls = .ok m ∧
      m.out = (ls.zipIdx 0).map (fun p => ({ kind := .raw, text := p.1.raw, src := p.2 } : Row)) := by
  have h0 : PT ({} : M) := ⟨rfl, by decide, good_init⟩
  obtain ⟨m1, e1, h1, htl1⟩ := runFrom_pt (cfg := cfg) ls h0 hl
  -- the statements after the loop write nothing new
  have hfin : ∀ (ops : List String) (x : M), PT x → (∀ op ∈ ops, op ∈ Markers.consumeTail) →
      ∃ x', tailOps cfg ops x = .ok x' ∧ PT x' ∧ timeline x' = timeline x := by
    intro ops
    induction ops with
    | nil => intro x hx _; exact ⟨x, rfl, hx, rfl⟩
    | cons op rest ih =>
      intro x hx hops
      have hop : op ∈ Markers.consumeTail := hops op (List.mem_cons_self ..)
      have hpend : pendingDiffName cfg x = x := by
        unfold pendingDiffName pendingTest
        have : (x.source = Source.diffUnified) = False := by simp [hx.src]
        simp [hx.st, isDiffHeader, this]
      have hstep : ∃ x1, tailOp cfg x op = .ok x1 ∧ PT x1 ∧ timeline x1 = timeline x := by
        simp only [Markers.consumeTail, List.mem_cons, List.not_mem_nil, or_false] at hop
        rcases hop with h | h | h
        · subst h
          refine ⟨flushMP x, rfl, ⟨(flushMP_st x).trans hx.st, ?_, ((Reach.start hx.good).flushMP).good⟩, timeline_flushMP x⟩
          unfold flushMP; split <;> exact hx.src
        · subst h
          exact ⟨x, by simp [tailOp, hpend], hx, rfl⟩
        · subst h
          exact ⟨emit x, rfl, ⟨hx.st, hx.src, ((Reach.start hx.good).emit.stepS_of hx.good rfl).good⟩, timeline_emit x⟩
      obtain ⟨x1, e1', h1', t1⟩ := hstep
      obtain ⟨x', e', h', t'⟩ := ih x1 h1' (fun o ho => hops o (List.mem_cons_of_mem _ ho))
      exact ⟨x', by simp only [tailOps, e1']; exact e', h', t'.trans t1⟩
  obtain ⟨m, ef, _, htlf⟩ := hfin Markers.consumeTail m1 h1 (fun _ h => h)
  have er : run cfg ls = .ok m := by unfold run finish; rw [e1]; exact ef
  refine ⟨m, er, ?_⟩
  rw [← (run_spec er).2, htlf, htl1]
  simp [timeline]

end Machine
