import Proofs.Machine.GlobalOrderCor
/-!
Where the lazily written file header stands (second notion next to `Row.src`).

A file section without `--- `/`+++ ` lines (mode change, rename without changes, binary file, empty
file) gets its file header from `handle_pending_line_with_diff_name`, called when the next `diff `
line or the next commit line arrives, or by the statements after the loop. Those rows are stamped
with the index of the line that TRIGGERS the write (`ls.length` at the end of the input), not with
the index of the `diff ` line they show. So `Row.src` alone does not say that the header stands with
its own section. What is proved here, over whole runs: the rows `H` written by that call stand
directly after everything rendered for the lines before the trigger (`timeline mi`, all stamped
below the trigger) and before every other row of the trigger line and of all later lines - i.e.
after everything that belongs to the previous file and before anything of the next one.

The same statements show what the header is NOT: it is not before the rows of its own section's
lines. For input git produces there are none (header-part lines are skipped), but a section with a
hunk and no `--- `/`+++ ` lines gets its file header after its hunk (see notes, checked on the real
binary).
-/
set_option linter.unusedSimpArgs false
set_option linter.unusedVariables false
namespace Machine
open Headers Generated

theorem writeGeneric_rows (cfg : Cfg) (x : M) (t r : Str) (hb : x.buf = []) (hm : x.minus = []) (hp : x.plus = []) :
    ∃ rows, timeline (writeGeneric cfg x t r) = timeline x ++ rows ∧ ∀ row ∈ rows, row.src = x.n := by
  unfold writeGeneric
  split
  · exact ⟨[], by simp [timeline], by simp⟩
  · refine ⟨(if cfg.colorOnly then [] else [{ kind := .blank, text := [], src := x.n }]) ++
        drawRows cfg.fileStyle .file t r x.modeInfo x.n, ?_, ?_⟩
    · show timeline (direct x _) = timeline x ++ _
      simp only [timeline, direct_out, direct_buf, direct_minus, direct_plus, hb, hm, hp, List.map_nil, List.append_nil]
    · intro row hrow
      rcases List.mem_append.mp hrow with h1 | h1
      · split at h1
        · cases h1
        · simp at h1; subst h1; rfl
      · exact drawRows_src _ _ _ _ _ _ row h1

/-- what `handle_pending_line_with_diff_name` writes: rows stamped with the current line, appended -/
theorem pendingDiffName_rows (cfg : Cfg) (x : M) (hm : x.minus = []) (hp : x.plus = []) :
    ∃ H, timeline (pendingDiffName cfg x) = timeline x ++ H ∧ ∀ r ∈ H, r.src = x.n := by
  unfold pendingDiffName
  split
  · exact ⟨[], by simp, by simp⟩
  · split
    · obtain ⟨rows, ht, hr⟩ := writeGeneric_rows cfg (emit x)
        (formatLabel cfg.labels.modified ++ (repeatedFilePath x.diffLine x.diffLineG).getD [])
        (formatLabel cfg.labels.modified ++ (repeatedFilePath x.diffLine x.diffLineG).getD [])
        (by simp) (by simp [hm]) (by simp [hp])
      exact ⟨rows, by rw [← timeline_emit x]; exact ht, hr⟩
    · split
      · exact ⟨[], by simp, by simp⟩
      · split
        · unfold handleHeaderLine
          obtain ⟨rows, ht, hr⟩ := writeGeneric_rows cfg (emit x)
            (fileChangeDescription cfg.labels (emit x).minusFile (emit x).plusFile
              (decide (x.source = Source.diffUnified)) (emit x).minusEvent)
            (fileChangeDescription cfg.labels (emit x).minusFile (emit x).plusFile
              (decide (x.source = Source.diffUnified)) (emit x).minusEvent)
            (by simp) (by simp [hm]) (by simp [hp])
          exact ⟨rows, by rw [← timeline_emit x]; exact ht, hr⟩
        · exact ⟨[], by simp, by simp⟩

theorem pendingDiffName_n (cfg : Cfg) (x : M) : (pendingDiffName cfg x).n = x.n := by
  unfold pendingDiffName
  split
  · rfl
  · split
    · simp
    · split
      · rfl
      · split
        · simp [handleHeaderLine]
        · rfl

theorem timeline_emitLineUnchanged (z : M) (l : L) :
    timeline (emitLineUnchanged z l) = timeline z ++ [{ kind := .raw, text := l.raw, src := z.n }] := by
  unfold emitLineUnchanged; rw [timeline_direct_flushed]

theorem emitLineUnchanged_n (z : M) (l : L) : (emitLineUnchanged z l).n = z.n := by
  unfold emitLineUnchanged; simp

/-- a `diff ` line is claimed by `handle_diff_header_diff_line`: first the pending header of the
section that ends here, then (unless the line is skipped) the line itself -/
theorem handleDiffHeaderDiff_claims (cfg : Cfg) (x : M) (l : L) (hd : startsWith l.text Markers.diffLine = true) :
    ∃ X own, handleDiffHeaderDiff cfg x l = .ok (true, X) ∧
      timeline X = timeline (pendingDiffName cfg { flushMP x with st := diffLineState l }) ++ own ∧
      (∀ r ∈ own, r.src = x.n) ∧ X.st = diffLineState l ∧ X.n = x.n := by
  have hPn : ∀ Y : M, (diffLineFields (pendingDiffName cfg Y) l).n = Y.n := fun Y => pendingDiffName_n cfg Y
  have hPt : ∀ Y : M, timeline (diffLineFields (pendingDiffName cfg Y) l) = timeline (pendingDiffName cfg Y) :=
    fun _ => rfl
  unfold handleDiffHeaderDiff
  rw [if_neg (by simp [hd])]
  split
  · exact ⟨_, [], rfl, by rw [List.append_nil]; exact hPt _, by simp, pendingDiffName_st cfg _,
      (hPn _).trans (flushMP_n x)⟩
  · refine ⟨_, [{ kind := .raw, text := l.raw, src := x.n }], rfl, ?_, by simp, ?_, ?_⟩
    · rw [timeline_emitLineUnchanged, hPt, hPn]
      show _ ++ [({ kind := .raw, text := l.raw, src := (flushMP x).n } : Row)] = _
      rw [flushMP_n]
    · rw [emitLineUnchanged_st]; exact pendingDiffName_st cfg _
    · rw [emitLineUnchanged_n]; exact (hPn _).trans (flushMP_n x)

/-- **The lazily written file header stands between the two sections** (whole runs). Let `t` be a
`diff ` line of the input, `mi` the machine when it arrives. Then delta's output is
`timeline mi ++ H ++ rest` where `timeline mi` is everything rendered for the lines before `t` (all
stamped below `t`), `H` are the rows `handle_pending_line_with_diff_name` writes at this moment for
the section that ends here (its file header, if still owed), stamped with the index of `t`, and
`rest` holds every other row of `t` and of the later lines. -/
theorem run_lazy_file_header_in_place {cfg : Cfg} {pre post : List L} {t : L} {mi m : M}
    (hmc : ∀ x ∈ pre ++ t :: post, startsWith x.text Generated.Markers.mcBegin = false)
    (hns : NoStray (pre ++ t :: post))
    (ei : runFrom cfg {} pre = .ok mi) (hd : startsWith t.text Markers.diffLine = true) (hc : t.commitRe = false)
    (e : run cfg (pre ++ t :: post) = .ok m) :
    ∃ H rest, m.out = timeline mi ++ H ++ rest ∧
      timeline (pendingDiffName cfg { flushMP (stepInit mi t) with st := diffLineState t }) = timeline mi ++ H ∧
      (∀ r ∈ timeline mi, r.src < pre.length) ∧ (∀ r ∈ H, r.src = pre.length) ∧
      (∀ r ∈ rest, pre.length ≤ r.src) := by
  have hout := (run_spec e).2
  unfold run at e
  split at e
  · cases e
  · rename_i m2 e2
    rw [runFrom_append, ei] at e2
    simp only [runFrom] at e2
    split at e2
    · cases e2
    · rename_i m1 es
      have hmc_pre : ∀ x ∈ pre, startsWith x.text Generated.Markers.mcBegin = false :=
        fun x hx => hmc x (List.mem_append_left _ hx)
      have hmc_t : startsWith t.text Generated.Markers.mcBegin = false :=
        hmc t (List.mem_append_right _ List.mem_cons_self)
      have hmc_post : ∀ x ∈ post, startsWith x.text Generated.Markers.mcBegin = false :=
        fun x hx => hmc x (List.mem_append_right _ (List.mem_cons_of_mem _ hx))
      have hns' : noStrayFrom false (pre ++ t :: post) = true := hns
      rw [noStrayFrom_append] at hns'
      simp only [Bool.and_eq_true, noStrayFrom, Bool.not_eq_true', Bool.and_eq_false_iff] at hns'
      obtain ⟨hns_pre, hns_t, hns_post⟩ := hns'
      obtain ⟨rii, hni, harm, _, _⟩ := runFrom_ri pre false ei hmc_pre hns_pre (fun h => absurd rfl h) ri_init
      have hni' : mi.n = pre.length := by simpa using hni
      have hnst : pend mi.st ≠ none → stray t = false := by
        intro hp
        rcases hns_t with h | h
        · rw [harm hp] at h; cases h
        · exact h
      obtain ⟨ri1, hn1, _, _, _⟩ := step_ri hmc_t hnst rii es
      obtain ⟨htl0, hn0, hst0⟩ := stepInit_body mi t
      obtain ⟨X, own, hX, htX, hown, hstX, hnX⟩ := handleDiffHeaderDiff_claims cfg (stepInit mi t) t hd
      obtain ⟨H, htH, hH⟩ := pendingDiffName_rows cfg { flushMP (stepInit mi t) with st := diffLineState t }
        (by simp) (by simp)
      have htY : timeline ({ flushMP (stepInit mi t) with st := diffLineState t } : M) = timeline mi := by
        rw [← htl0, ← timeline_flushMP (stepInit mi t)]; rfl
      have hnY : ({ flushMP (stepInit mi t) with st := diffLineState t } : M).n = pre.length := by
        show (flushMP (stepInit mi t)).n = _
        rw [flushMP_n, hn0, hni']
      have hm1 : timeline m1 = timeline mi ++ H ++ own ∧ pend m1.st = none := by
        unfold step at es
        simp only [Generated.handlerOrder, chain, handlerOf, handleCommitMeta_not_mine cfg _ t hc, handleDiffStat, hX] at es
        cases es
        exact ⟨by show timeline X = _; rw [htX, htH, htY], by show pend X.st = none; rw [hstX]; exact diffLineState_pend t⟩
      obtain ⟨_, _, new, tn, bn⟩ := run_from_mid (hhLike t) ri1 (fun h => absurd hm1.2 h) hmc_post hns_post e2 e
      refine ⟨H, own ++ new, by rw [← hout, tn, hm1.1]; simp [List.append_assoc], by rw [htH, htY], ?_, ?_, ?_⟩
      · intro r hr
        have := rii.strict r hr
        omega
      · intro r hr; rw [hH r hr, hnY]
      · intro r hr
        rcases List.mem_append.mp hr with h | h
        · rw [hown r h, hn0, hni']; exact Nat.le_refl _
        · have := bn r h
          rw [lo_of_pend_none hm1.2, hn1, hni'] at this
          omega

/-- … and at the end of the input: the output is everything rendered in the loop followed by the rows
`handle_pending_line_with_diff_name` writes for the last section (stamped `ls.length`). -/
theorem run_lazy_file_header_at_end {cfg : Cfg} {ls : List L} {m1 m : M}
    (hmc : ∀ x ∈ ls, startsWith x.text Generated.Markers.mcBegin = false) (hns : NoStray ls)
    (e1 : runFrom cfg {} ls = .ok m1) (e : run cfg ls = .ok m) :
    ∃ H, m.out = timeline m1 ++ H ∧ timeline (pendingDiffName cfg (flushMP m1)) = timeline m1 ++ H ∧
      (∀ r ∈ timeline m1, r.src < ls.length) ∧ (∀ r ∈ H, r.src = ls.length) := by
  have hout := (run_spec e).2
  obtain ⟨ri1, hn1, _, _, _⟩ := runFrom_ri ls false e1 hmc hns (fun h => absurd rfl h) ri_init
  have hn1' : m1.n = ls.length := by simpa using hn1
  unfold run at e
  rw [e1] at e
  simp only [finish, Generated.Markers.consumeTail, tailOps, tailOp] at e
  cases e
  obtain ⟨H, htH, hH⟩ := pendingDiffName_rows cfg (flushMP m1) (by simp) (by simp)
  rw [timeline_flushMP] at htH
  refine ⟨H, by rw [← hout, timeline_emit, htH], htH, ?_, ?_⟩
  · intro r hr; have := ri1.strict r hr; omega
  · intro r hr; rw [hH r hr, flushMP_n, hn1']

end Machine
