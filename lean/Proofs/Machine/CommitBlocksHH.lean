import Proofs.Machine.CommitBlocks
import Proofs.Machine.HunkRowsSec
/-!
Whole-run hunk headers (C14) over `git log -p` streams: commit blocks write no hunk-header row.

* `commit_line_rows`: a commit line (`isCommitLine`), met in any state and under every commit style, writes no row of
  kind `hunkHeader` (a hunk header still pending — an `@@` line no hunk line followed — is dropped);
* `meta_line_rows`: a line of the commit block neither (`step_rq`: nothing is pending in `CommitMeta`);
* `item_rows`, `items_rows`, `run_hunk_rows_items`, `run_hunk_rows_log`: sections and commit blocks in any order — the
  hunk-header rows of the output are those of the sections (`Sec2.hhRows`: built from each `@@` line's own coordinates and
  the two names of its own section), in order, at the sections' own input indices.
-/
set_option linter.unusedSimpArgs false
set_option linter.unusedVariables false
namespace Machine
open Headers Generated HunkNames

/-- the handler chain on a commit line leaves the hunk-header rows alone, every commit style, any state -/
theorem commit_chain_fv (cfg : Cfg) (m0 : M) (l : L) (hcr : l.commitRe = true) (np : NoPrefix l) {z : M}
    (e : chain cfg l Generated.handlerOrder m0 = .ok z) : FV pHH m0 z := by
  have c : FV pHH m0 { pendingDiffName cfg (flushMP m0) with st := State.commitMeta } :=
    ((FV.refl m0).flushMP.pendingDiffName minor_pHH cfg).of_tl rfl rfl
  obtain ⟨y, hy⟩ : ∃ y, y = pendingDiffName cfg (flushMP m0) := ⟨_, rfl⟩
  rw [← hy] at c
  have hsplit : Generated.handlerOrder = "handle_commit_meta_header_line" :: Generated.handlerOrder.drop 1 := rfl
  cases hsh : shouldHandle cfg { y with st := .commitMeta }
  · have e1 : handleCommitMeta cfg m0 l = .ok (false, { y with st := .commitMeta }) := by
      unfold handleCommitMeta
      rw [← hy]
      simp [hcr, hsh]
    rw [hsplit, chain_skip (by rfl) e1, cmeta_tail cfg _ l rfl np] at e
    cases e
    exact c.emit.emit.emit.emitLineUnchanged minor_pHH l
  · have e1 : ∃ z', handleCommitMeta cfg m0 l = .ok (true, z') ∧ FV pHH m0 z' := by
      unfold handleCommitMeta
      rw [← hy]
      simp only [hcr, Bool.not_true, Bool.false_eq_true, if_false, hsh, if_true]
      split
      · exact ⟨_, rfl, c.emit⟩
      · exact ⟨_, rfl, c.emit.direct (drawRows_rejected minor_pHH _ _ _ _ _ minor_pHH.commit)⟩
    obtain ⟨z', ez, kz⟩ := e1
    simp only [Generated.handlerOrder, chain, handlerOf, ez] at e
    cases e
    exact kz

/-- a commit line, met in any state: no hunk-header row is written (a header still pending is dropped) -/
theorem commit_line_rows {cfg : Cfg} {m m1 : M} {l : L} (hl : isCommitLine l = true) (e : step cfg m l = .ok m1) :
    hhTL m1 = hhTL m := by
  unfold isCommitLine at hl
  simp only [Bool.and_eq_true] at hl
  obtain ⟨hcr, hsw⟩ := hl
  obtain ⟨np, _⟩ := commit_facts hsw
  unfold step at e
  split at e
  · cases e
  · rename_i m2 e2
    cases e
    have k := commit_chain_fv cfg (stepInit m l) l hcr np e2
    show hhTL m2 = hhTL m
    exact k.body.trans (ftl_congr (timeline_stepInit m l))

/-- a line of the commit block: no hunk-header row -/
theorem meta_line_rows {cfg : Cfg} {m m1 : M} {l : L} (h : CMeta m) (e : step cfg m l = .ok m1) : hhTL m1 = hhTL m :=
  step_rq e (by rw [h.st]; rfl) (by rw [h.st]; rfl) h.good

theorem metas_rows {cfg : Cfg} : ∀ (ls : List L) {m mf : M}, CMeta m → (∀ x ∈ ls, isMetaLine x = true) →
    runFrom cfg m ls = .ok mf → hhTL mf = hhTL m
  | [], m, mf, _, _, e => by simp only [runFrom] at e; cases e; rfl
  | l :: ls, m, mf, h, hl, e => by
    obtain ⟨m1, e1, er⟩ := runFrom_cons_ok e
    obtain ⟨m1', e1', h1, _, _⟩ := meta_line_step (cfg := cfg) h (hl l (List.mem_cons_self ..))
    rw [e1] at e1'; cases e1'
    rw [metas_rows ls h1 (fun x hx => hl x (List.mem_cons_of_mem _ hx)) er, meta_line_rows h e1]

/-- the hunk-header rows of an item whose first line is input line `k`: those of a section, none for a commit block -/
def Item.hhRows (cfg : Cfg) : Item → Nat → List Row
  | .sec s, k => s.hhRows cfg k
  | .commit .., _ => []

theorem item_rows {cfg : Cfg} (hc : FHC cfg) (i : Item) (w : i.WF) {b : Bool} {m mf : M} (h : Inv b m)
    (e : runFrom cfg m i.lines = .ok mf) : hhTL mf = hhTL m ++ i.hhRows cfg m.n := by
  cases i with
  | sec s => exact sec2_rows hc s w h e
  | commit c msgs =>
    obtain ⟨wc, wm⟩ := w
    simp only [Item.lines] at e
    obtain ⟨m1, e1, er1⟩ := runFrom_cons_ok e
    obtain ⟨m1', e1', h1, _, _⟩ := commit_line_step hc h.pre wc
    rw [e1] at e1'; cases e1'
    rw [metas_rows msgs h1 wm er1, commit_line_rows wc e1]
    simp [Item.hhRows]

def hhRowsOfItems (cfg : Cfg) : Nat → List Item → List Row
  | _, [] => []
  | k, i :: is => i.hhRows cfg k ++ hhRowsOfItems cfg (k + i.lines.length) is

theorem items_rows {cfg : Cfg} (hc : FHC cfg) : ∀ (items : List Item) {b : Bool} {m mf : M}, (∀ i ∈ items, i.WF) →
    Inv b m → runFrom cfg m (linesOfItems items) = .ok mf → hhTL mf = hhTL m ++ hhRowsOfItems cfg m.n items
  | [], b, m, mf, _, h, e => by
    simp only [linesOfItems, List.flatMap_nil, runFrom] at e; cases e; simp [hhRowsOfItems]
  | i :: is, b, m, mf, w, h, e => by
    have hl : linesOfItems (i :: is) = i.lines ++ linesOfItems is := by simp [linesOfItems]
    rw [hl] at e
    obtain ⟨m1, e1, er1⟩ := runFrom_append_ok e
    obtain ⟨h1, _, n1⟩ := item_run hc i (w i (List.mem_cons_self ..)) h e1
    have t1 := item_rows hc i (w i (List.mem_cons_self ..)) h e1
    have t2 := items_rows hc is (fun x hx => w x (List.mem_cons_of_mem _ hx)) h1 er1
    rw [t2, t1, n1]; simp [hhRowsOfItems]

/-- **every hunk-header row shows its own section — over `git log -p` streams** -/
theorem run_hunk_rows_items {cfg : Cfg} (hc : FHC cfg) (items : List Item) (w : ∀ i ∈ items, i.WF)
    {m : M} (e : run cfg (linesOfItems items) = .ok m) :
    m.out.filter (fun r => pHH r.kind) = hhRowsOfItems cfg 0 items := by
  have hout := (run_spec e).2
  unfold run at e
  split at e
  · cases e
  · rename_i m1 e1
    have h0 : Inv false ({} : M) := ⟨(fun e => by cases e), fun _ => settled2_init⟩
    have t1 := items_rows hc items w h0 e1
    unfold finish at e
    have hfin : ftl pHH m = ftl pHH m1 := tailOps_ftl minor_pHH _ e
    have : m.out.filter (fun r => pHH r.kind) = hhTL m := by rw [← hout]; rfl
    rw [this]
    show ftl pHH m = _
    rw [hfin]
    show hhTL m1 = _
    rw [t1]
    simp [hhTL, ftl, timeline]

/-- the hunk-header rows of a list of commits whose first commit line is input line `k` -/
def hhRowsOfCommits (cfg : Cfg) : Nat → List Commit → List Row
  | _, [] => []
  | k, c :: cs => hhRowsOf2 cfg (k + 1 + c.msgs.length) c.secs ++ hhRowsOfCommits cfg (k + c.lines.length) cs

def hhRowsOfLog (cfg : Cfg) (pre : List Sec2) (commits : List Commit) : List Row :=
  hhRowsOf2 cfg 0 pre ++ hhRowsOfCommits cfg (linesOf2 pre).length commits

theorem hhRowsOfItems_append (cfg : Cfg) : ∀ (a b : List Item) (k : Nat),
    hhRowsOfItems cfg k (a ++ b) = hhRowsOfItems cfg k a ++ hhRowsOfItems cfg (k + (linesOfItems a).length) b
  | [], b, k => by simp [hhRowsOfItems, linesOfItems]
  | i :: is, b, k => by
    have hl : linesOfItems (i :: is) = i.lines ++ linesOfItems is := by simp [linesOfItems]
    simp only [List.cons_append, hhRowsOfItems, hhRowsOfItems_append cfg is b, hl, List.length_append, List.append_assoc,
      Nat.add_assoc]

theorem hhRowsOfItems_secs (cfg : Cfg) : ∀ (secs : List Sec2) (k : Nat),
    hhRowsOfItems cfg k (secs.map .sec) = hhRowsOf2 cfg k secs
  | [], _ => rfl
  | s :: ss, k => by
    simp only [List.map_cons, hhRowsOfItems, hhRowsOf2, Item.hhRows, Item.lines, hhRowsOfItems_secs cfg ss]

theorem commits_items_hhrows (cfg : Cfg) : ∀ (cs : List Commit) (k : Nat),
    hhRowsOfItems cfg k (cs.flatMap Commit.items) = hhRowsOfCommits cfg k cs
  | [], _ => rfl
  | c :: cs, k => by
    simp only [List.flatMap_cons, hhRowsOfItems_append, commit_items_lines, commits_items_hhrows cfg cs, hhRowsOfCommits]
    congr 1
    simp only [Commit.items, hhRowsOfItems, Item.hhRows, Item.lines, List.nil_append, hhRowsOfItems_secs, List.length_cons]
    congr 1
    omega

theorem logItems_hhrows (cfg : Cfg) (pre : List Sec2) (commits : List Commit) :
    hhRowsOfItems cfg 0 (logItems pre commits) = hhRowsOfLog cfg pre commits := by
  unfold logItems hhRowsOfLog
  rw [hhRowsOfItems_append, hhRowsOfItems_secs, linesOfItems_secs, commits_items_hhrows, Nat.zero_add]

theorem run_hunk_rows_log {cfg : Cfg} (hc : FHC cfg) (pre : List Sec2) (commits : List Commit)
    (wp : ∀ s ∈ pre, s.WF) (wc : ∀ k ∈ commits, k.WF) {m : M} (e : run cfg (linesOfLog pre commits) = .ok m) :
    m.out.filter (fun r => pHH r.kind) = hhRowsOfLog cfg pre commits := by
  rw [← logItems_lines] at e
  rw [run_hunk_rows_items hc _ (logItems_wf wp wc) e, logItems_hhrows]

end Machine
