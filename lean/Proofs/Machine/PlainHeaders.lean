import Proofs.Machine.NoPending
import Proofs.Machine.BodyPlain
/-!
C14 for plain `diff -u` input, step level (part of T22 (c)): **a line the reference reading `plainNext` takes as a hunk line
writes no file-header row** — in particular a removed line `-- x` (input `--- x`) while lines of the old file are outstanding
(the counter invariant of `BodyPlain.lean`: `Sim (.hunk rem) m` ⇒ `m.counter = rem`), and an added line `++ x` (input `+++ x`).
No hypothesis on what is pending: every handler before `handle_hunk_line` declines such a line (`chain_body`), and
`handle_hunk_line` writes no file row in any state (`handleHunkLine_nf`).
-/
set_option linter.unusedSimpArgs false
set_option linter.unusedVariables false
namespace Machine.Plain
open Machine Headers Generated

theorem body_nk {cfg : Cfg} {m m' : M} {l : L} (hsrc : m.source = .diffUnified) (hu : uniHunk m.st = true)
    (hc : l.commitRe = false) (hsub : l.submodule.isSome = false) (hk : oldLine l = true ∨ newOnlyLine l = true)
    (hd : isDashes l = true → 0 < m.counter) (e : chain cfg l Generated.handlerOrder m = .ok m') : NK m m' := by
  have hsub' : l.submodule = none := by cases h : l.submodule <;> simp [h] at hsub ⊢
  rw [chain_body cfg m l hsrc hu (bodyChar_of_kind hk).1 hc hsub' hd] at e
  cases hh : handleHunkLine cfg m l with
  | error err => simp [hh] at e
  | ok p =>
    obtain ⟨b', m2⟩ := p
    simp only [hh, Except.ok.injEq] at e
    subst e
    exact (handleHunkLine_nf (uniHunk_nomc (Or.inr (Or.inr hu))) hh).k

theorem plainOutside_not_body {l : L} {s' : PS} (h : plainOutside l = some (s', true)) : False := by
  unfold plainOutside at h
  repeat' split at h
  all_goals cases h

/-- a hunk line of the reference reading: the handler chain writes no file row and leaves the pending fields alone -/
theorem chain_hunk_line_nk {cfg : Cfg} {s s' : PS} {m m' : M} {l : L} (hs : Sim s m)
    (hn : plainNext s l = some (s', true)) (e : chain cfg l Generated.handlerOrder m = .ok m') : NK m m' := by
  obtain ⟨hsrc, hs⟩ := hs
  unfold plainNext at hn
  split at hn
  · cases hn
  · rename_i hc
    have hc : l.commitRe = false := by simpa using hc
    split at hn
    · exact (plainOutside_not_body hn).elim
    · split at hn <;> cases hn
    · rename_i rem
      obtain ⟨hcnt, hu⟩ := hs
      split at hn
      · cases hn
      · rename_i hsub
        have hsub : l.submodule.isSome = false := by simpa using hsub
        split at hn
        · rename_i hold
          exact body_nk hsrc hu hc hsub (Or.inl hold) (fun _ => by rw [hcnt]; omega) e
        · split at hn
          · rename_i hnew
            exact body_nk hsrc hu hc hsub (Or.inr hnew) (fun _ => by rw [hcnt]; omega) e
          · cases hn
    · obtain ⟨hcnt, hu⟩ := hs
      split at hn
      · rename_i hnew
        split at hn
        · cases hn
        · rename_i hsub
          have hsub : l.submodule.isSome = false := by simpa using hsub
          have hnd : isDashes l = true → 0 < m.counter := by
            intro hd
            have h1 : l.text.head? = some '-' :=
              head_of_startsWith (p := threeDashes) (d := '-') (r := ['-', '-', ' ']) (by decide) hd
            unfold newOnlyLine at hnew
            rw [h1] at hnew
            simp at hnew
          exact body_nk hsrc hu hc hsub (Or.inr hnew) hnd e
      · exact (plainOutside_not_body hn).elim

/-- **a hunk line of a plain diff writes no file header** (whole step): for every configuration, every machine that
simulates the reference reading (`Sim s m`: source = plain diff, the counter is the number of old-file lines still
expected, unified hunk state inside hunks) and every line the reading takes as a hunk line — a `--- x` line while old-file
lines are outstanding, a `+++ x` line, any `-` / `+` / blank-column / `\` line —: no file-header row, whatever is pending,
and mode information and the handled / current pair are what they were. -/
theorem step_hunk_line_no_file_row {cfg : Cfg} {s s' : PS} {m m' : M} {l : L} (hs : Sim s m)
    (hn : plainNext s l = some (s', true)) (e : step cfg m l = .ok m') :
    fileTL m' = fileTL m ∧ m'.modeInfo = m.modeInfo ∧ m'.handledPair = m.handledPair ∧
      m'.currentPair = m.currentPair := by
  unfold step at e
  rw [stepInit_of_sim hs l] at e
  split at e
  · cases e
  · rename_i m2 e2
    cases e
    have k := chain_hunk_line_nk hs hn e2
    exact ⟨(fileTL_congr rfl).trans k.rows, k.mode, k.hp, k.cp⟩

end Machine.Plain
