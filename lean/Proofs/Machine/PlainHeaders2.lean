import Proofs.Machine.PlainHeaders
/-!
Whole-run file headers (C14), part 9: plain `diff -u` multi-file streams. A section (`PSec`) is the `--- old` line, the
`+++ new` line and the hunks — `@@` lines and the lines the reference reading `plainNext` takes as hunk lines, a `--- x` /
`+++ x` hunk line included. Exactly one file-header row per section, at its `+++ ` line, naming the two paths of the pair;
none for a `--- x` line inside a hunk.
-/
set_option linter.unusedSimpArgs false
set_option linter.unusedVariables false
namespace Machine.Plain
open Machine Headers Generated

/-- `hdr_tail` for a plain diff: `Only in ` excluded by the line instead of by the source -/
theorem hdr_tail_p {cfg : Cfg} (hc : FHC cfg) (x : M) (l : L) {dt : DiffType} (hst : x.st = .diffHeader dt)
    (no : TailNo l) (honly : startsWith l.text Markers.onlyIn = false) :
    chain cfg l Machine.tailNames x = .ok (emit (emit (emit x))) := by
  have hnm : isMergeConflict x.st = false := by rw [hst]; rfl
  have hnc : hunkCombinedParents x.st = none := by rw [hst]; rfl
  have e7 := handleHunkHeader_not_mine cfg x l no.hunkHeader
  have e8 := handleModeLine_not_mine cfg x l no.oldMode no.newMode
  have e9 := handleMisc_not_mine cfg x l honly no.binary
  have e10 := handleSubmoduleLog_not_mine cfg x l no.submodule
  have e11 : handleSubmoduleShort cfg x l = .ok (false, x) := by
    unfold handleSubmoduleShort submoduleShortTest
    simp [hst, pairableHunkHeader]
  have e12 := handleMergeConflict_not_mine cfg x l hnc hnm
  have e13 : handleHunkLine cfg x l = .ok (false, x) := by unfold handleHunkLine; simp [hst, isHunkState]
  have e15 : handleBlame cfg (emit x) l = .ok (false, emit (emit x)) := by
    unfold handleBlame; simp [hst]
  have e16 : handleGrep cfg (emit (emit x)) l = .ok (false, emit (emit (emit x))) := by
    unfold handleGrep; simp [hst]
  have e17 : handleShouldSkip cfg (emit (emit (emit x))) l = .ok (true, emit (emit (emit x))) := by
    unfold handleShouldSkip shouldSkipLine
    have hst3 : (emit (emit (emit x))).st = .diffHeader dt := hst
    rw [shouldHandle_diffHeader hc hst3, hst3]
    simp [isDiffHeader, hc.notCO]
  simp only [Machine.tailNames, Generated.handlerOrder, List.drop, chain, handlerOf, e7, e8, e9, e10, e11, e12, e13,
    handleGitShowFile, e15, e16, e17]

/-- the bookkeeping of the `--- ` line of a plain diff -/
def minusUpdP (m : M) (l : L) : M :=
  { m with minusFile := (parseDiffHeaderLine l.text false).1, minusEvent := (parseDiffHeaderLine l.text false).2,
           st := .diffHeader .unified, handledPair := none }

/-- the `--- ` line that starts a section (no old-file line outstanding): names recorded, header owed, nothing written -/
theorem dashes_chain {cfg : Cfg} (hc : FHC cfg) {m : M} {l : L} (hsrc : m.source = .diffUnified) (hcnt : m.counter = 0)
    (hd : isDashes l = true) (hcr : l.commitRe = false) :
    chain cfg l Generated.handlerOrder m = .ok (emit (emit (emit (flushMP (minusUpdP m l))))) := by
  have hh : l.text.head? = some '-' := head_of_startsWith (p := threeDashes) (d := '-') (r := ['-', '-', ' ']) (by decide) hd
  have hsw : startsWithAny l.text Markers.minusLine = true := startsWithAny_of_mem (p := threeDashes) (by decide) hd
  obtain ⟨hdiff, hfo, hpl, no⟩ := minusMarker_facts hsw
  have honly := not_startsWith_of_head hh (p := Markers.onlyIn) rfl (by decide)
  have ht : minusLineTest m l = true := by
    unfold minusLineTest headerLineTest
    have h1 : startsWith l.text (Markers.minusLine.getD 0 []) = true := hd
    have h2 : (isDiffHeader m.st || decide (m.source = Source.diffUnified)) = true := by simp [hsrc]
    have h3 : threeDashesExpected m.counter = true := by rw [hcnt]; decide
    simp only [h1, h2, h3, Bool.and_self, Bool.true_or, Bool.true_and]
  have hgit : decide (m.source = Source.gitDiff) = false := by simp [hsrc]
  have hu : (m.source = Source.diffUnified) = True := by simp [hsrc]
  have e1 := handleCommitMeta_not_mine cfg m l hcr
  have e2 : handleDiffStat cfg m l = .ok (false, m) := rfl
  have e3 := handleDiffHeaderDiff_not_mine cfg m l hdiff
  have e4 := handleFileOperation_not_mine cfg m l (by simp [hfo])
  have e5 : handleMinusLine cfg m l = .ok (false, flushMP (minusUpdP m l)) := by
    unfold handleMinusLine shouldWriteGeneric
    simp only [ht, Bool.not_true, Bool.false_eq_true, if_false, hc.notCO, hgit, hu, if_true]
    rfl
  have hxst : (flushMP (minusUpdP m l)).st = .diffHeader .unified := by rw [flushMP_st]; rfl
  have e6 := handlePlusLine_not_mine cfg (flushMP (minusUpdP m l)) l (by unfold plusLineTest; simp [hpl])
  rw [handlerOrder_split, chain_skip (by rfl) e1, chain_skip (by rfl) e2, chain_skip (by rfl) e3, chain_skip (by rfl) e4,
    chain_skip (by rfl) e5, chain_skip (by rfl) e6]
  exact hdr_tail_p hc _ l hxst no honly

def plusUpdP (m : M) (l : L) : M :=
  { m with plusFile := (parseDiffHeaderLine l.text false).1, plusEvent := (parseDiffHeaderLine l.text false).2,
           currentPair := some (m.minusFile, (parseDiffHeaderLine l.text false).1) }

/-- `hdrWritten_specA` for a plain diff (`comparing = true`) -/
theorem hdrWritten_specU {cfg : Cfg} (hc : FHC cfg) (y : M) (hsrc : y.source = .diffUnified)
    (hm : y.minus = []) (hp : y.plus = []) :
    (hdrWritten cfg y).st = y.st ∧ (hdrWritten cfg y).source = y.source ∧ (hdrWritten cfg y).counter = y.counter ∧
    (hdrWritten cfg y).modeInfo = [] ∧ (hdrWritten cfg y).handledPair = (hdrWritten cfg y).currentPair ∧
    (hdrWritten cfg y).n = y.n ∧
    fileTL (hdrWritten cfg y) = fileTL y ++
      [{ kind := .file,
         text := fileRowTextA cfg (fileChangeDescription cfg.labels y.minusFile y.plusFile true y.minusEvent) y.modeInfo,
         src := y.n }] := by
  have hdu : decide (y.source = Source.diffUnified) = true := by simp [hsrc]
  have hw : handleHeaderLine cfg (emit y) (decide (y.source = Source.diffUnified)) =
      writeGeneric cfg (emit y) (fileChangeDescription cfg.labels y.minusFile y.plusFile true y.minusEvent)
        (fileChangeDescription cfg.labels y.minusFile y.plusFile true y.minusEvent) := by
    unfold handleHeaderLine; rw [hdu]; rfl
  have hfile := writeGeneric_fileA hc (emit y) (fileChangeDescription cfg.labels y.minusFile y.plusFile true y.minusEvent)
    (fileChangeDescription cfg.labels y.minusFile y.plusFile true y.minusEvent) rfl hm hp
  obtain ⟨w1, w2, w3, w4, w5, w6⟩ := writeGeneric_keeps hc (emit y)
    (fileChangeDescription cfg.labels y.minusFile y.plusFile true y.minusEvent)
    (fileChangeDescription cfg.labels y.minusFile y.plusFile true y.minusEvent)
  unfold hdrWritten
  rw [hw]
  refine ⟨by simp, by simp, w1, w2, rfl, by simp, ?_⟩
  refine (fileTL_congr rfl).trans (hfile.trans ?_)
  rw [fileTL_emit]
  rfl

/-- the file-header row for the old name / event `mf`, `ev` and the `+++ ` line `pl`, written at input line `n` -/
def pRow (cfg : Cfg) (mf : Str) (ev : FileEvent) (pl : L) (n : Nat) : Row :=
  { kind := .file,
    text := fileRowText cfg (fileChangeDescription cfg.labels mf (parseDiffHeaderLine pl.text false).1 true ev),
    src := n }

/-- the section's file-header row, written at input line `n` -/
def plainHeaderRow (cfg : Cfg) (mn pl : L) (n : Nat) : Row :=
  pRow cfg (parseDiffHeaderLine mn.text false).1 (parseDiffHeaderLine mn.text false).2 pl n

/-- the `+++ ` line after the `--- ` line: exactly one file row; afterwards nothing is owed -/
theorem pluses_chain {cfg : Cfg} (hc : FHC cfg) {m : M} {l : L} (hst : m.st = .diffHeader .unified)
    (hsrc : m.source = .diffUnified) (hhp : m.handledPair = none) (hmode : m.modeInfo = [])
    (hp : isPluses l = true) (hcr : l.commitRe = false) :
    ∃ z, chain cfg l Generated.handlerOrder m = .ok z ∧ z.st = .diffHeader .unified ∧ z.source = .diffUnified ∧
      z.counter = m.counter ∧ NPend z ∧ z.n = m.n ∧
      fileTL z = fileTL m ++ [pRow cfg m.minusFile m.minusEvent l m.n] := by
  have hh : l.text.head? = some '+' := head_of_startsWith (p := threePluses) (d := '+') (r := ['+', '+', ' ']) (by decide) hp
  have hpl : startsWithAny l.text Markers.plusLine = true := startsWithAny_of_mem (p := threePluses) (by decide) hp
  obtain ⟨hdiff, hfo, hmn, no⟩ := plusMarker_facts hpl
  have honly := not_startsWith_of_head hh (p := Markers.onlyIn) rfl (by decide)
  have hgit : decide (m.source = Source.gitDiff) = false := by simp [hsrc]
  have e1 := handleCommitMeta_not_mine cfg m l hcr
  have e2 : handleDiffStat cfg m l = .ok (false, m) := rfl
  have e3 := handleDiffHeaderDiff_not_mine cfg m l hdiff
  have e4 := handleFileOperation_not_mine cfg m l (by simp [hfo])
  have e5 := handleMinusLine_not_mine cfg m l (minusLineTest_false m hmn)
  obtain ⟨y, hy⟩ : ∃ y, y = flushMP (plusUpdP m l) := ⟨_, rfl⟩
  obtain ⟨k1, k2, k3, k4, k5, k6⟩ := flushMP_keeps (plusUpdP m l)
  rw [← hy] at k1 k2 k3 k4 k5 k6
  have hyst : y.st = .diffHeader .unified := by rw [hy, flushMP_st]; exact hst
  have hysrc : y.source = .diffUnified := by rw [hy, flushMP_source]; exact hsrc
  have hymi : y.modeInfo = m.modeInfo := by rw [hy, flushMP_modeInfo]; rfl
  have hyn : y.n = m.n := by rw [hy, flushMP_n]; rfl
  have hytl : fileTL y = fileTL m := by rw [hy, fileTL_flushMP]; exact fileTL_congr rfl
  have hym : y.minus = [] := by rw [hy]; simp
  have hyp : y.plus = [] := by rw [hy]; simp
  have hyhp : y.handledPair = none := by rw [k2]; exact hhp
  have hycp : y.currentPair = some (m.minusFile, (parseDiffHeaderLine l.text false).1) := by rw [k3]; rfl
  have e6 : handlePlusLine cfg m l = .ok (false, hdrWritten cfg y) := by
    have htest : plusLineTest m l = true := by unfold plusLineTest; simp [hst, isDiffHeader, hpl]
    have hsh : shouldHandle cfg y = true := shouldHandle_diffHeader hc hyst
    unfold handlePlusLine
    simp only [htest, Bool.not_true, Bool.false_eq_true, if_false, hgit]
    change Except.ok (plusLineFinish cfg (flushMP (plusUpdP m l)) l) = _
    rw [← hy]
    unfold plusLineFinish shouldWriteGeneric
    simp only [hc.notCO, Bool.false_eq_true, if_false, hsh, hyhp, hycp, true_and]
    simp only [ne_eq, reduceCtorEq, not_false_eq_true, if_true]
    rfl
  obtain ⟨s1, s2, s3, s4, s5, s6, s9⟩ := hdrWritten_specU hc y hysrc hym hyp
  obtain ⟨z, hz⟩ : ∃ z, z = hdrWritten cfg y := ⟨_, rfl⟩
  rw [← hz] at e6 s1 s2 s3 s4 s5 s6 s9
  have hzst : z.st = .diffHeader .unified := by rw [s1]; exact hyst
  refine ⟨emit (emit (emit z)), ?_, hzst, by show z.source = _; rw [s2]; exact hysrc,
    by show z.counter = _; rw [s3, k1]; rfl, ⟨s4, s5⟩, by show z.n = _; rw [s6, hyn], ?_⟩
  · rw [handlerOrder_split, chain_skip (by rfl) e1, chain_skip (by rfl) e2, chain_skip (by rfl) e3, chain_skip (by rfl) e4,
      chain_skip (by rfl) e5, chain_skip (by rfl) e6]
    exact hdr_tail_p hc z l hzst no honly
  · rw [fileTL_emit, fileTL_emit, fileTL_emit, s9, hytl, k4, k5, k6, hyn, hymi, hmode, fileRowTextA_nil]
    rfl

-- the hunks ---------------------------------------------------------------------------------------------------

theorem sim_nomc {s : PS} {m : M} (h : Sim s m) : isMergeConflict m.st = false := by
  obtain ⟨_, h⟩ := h
  cases s with
  | top => rcases h.2 with h | h <;> rw [h] <;> rfl
  | afterMinus => rw [h.2]; rfl
  | hunk r => exact uniHunk_nomc (Or.inr (Or.inr h.2))

theorem notNaming_of_at {l : L} (h : startsWith l.text Markers.hunkHeader = true) : NotNaming l := by
  obtain ⟨rest, ht⟩ := startsWith_split h
  exact ⟨by simp [ht, startsWith, Markers.diffLine, Markers.hunkHeader, List.isPrefixOf],
    by simp [ht, startsWithAny, startsWith, Markers.fileOperationLine, Markers.hunkHeader, List.isPrefixOf],
    by simp [ht, startsWithAny, startsWith, Markers.minusLine, Markers.hunkHeader, List.isPrefixOf],
    by simp [ht, startsWithAny, startsWith, Markers.plusLine, Markers.hunkHeader, List.isPrefixOf],
    by simp [ht, startsWith, Markers.oldMode, Markers.hunkHeader, List.isPrefixOf],
    by simp [ht, startsWith, Markers.newMode, Markers.hunkHeader, List.isPrefixOf],
    by simp [ht, startsWith, Markers.onlyIn, Markers.hunkHeader, List.isPrefixOf],
    by simp [ht, startsWith, Markers.binaryFiles, Markers.hunkHeader, List.isPrefixOf],
    by simp [ht, startsWith, Markers.submoduleLog, Markers.hunkHeader, List.isPrefixOf]⟩

/-- the reference reading over the hunks of one section: `@@` lines and hunk lines only; the state afterwards -/
def hunksAfter : PS → List L → Option PS
  | s, [] => some s
  | s, l :: ls =>
    match plainNext s l with
    | some (s', true) => hunksAfter s' ls
    | some (s', false) => if startsWith l.text Markers.hunkHeader then hunksAfter s' ls else none
    | none => none

theorem hunks_run {cfg : Cfg} : ∀ (ls : List L) {s e : PS} {m mf : M}, Sim s m → NPend m → Good m →
    hunksAfter s ls = some e → runFrom cfg m ls = .ok mf →
    Sim e mf ∧ NPend mf ∧ Good mf ∧ fileTL mf = fileTL m ∧ mf.n = m.n + ls.length
  | [], s, e, m, mf, hs, hp, g, ha, er => by
    simp only [hunksAfter, Option.some.injEq] at ha
    simp only [runFrom] at er; cases er; subst ha; exact ⟨hs, hp, g, rfl, rfl⟩
  | l :: ls, s, e, m, mf, hs, hp, g, ha, er => by
    obtain ⟨m1, e1, er1⟩ := runFrom_cons_ok er
    have g1 := (step_spec e1 g).1
    unfold hunksAfter at ha
    cases hn : plainNext s l with
    | none => simp [hn] at ha
    | some p =>
      obtain ⟨s', b⟩ := p
      obtain ⟨h1, n1, _⟩ := step_sim (by rw [stepInit_of_sim hs]; exact hs) g hn e1
      cases b with
      | true =>
        simp only [hn] at ha
        obtain ⟨t1, a1, a2, a3⟩ := step_hunk_line_no_file_row hs hn e1
        have hp1 : NPend m1 := ⟨a1.trans hp.1, by rw [a2, a3]; exact hp.2⟩
        obtain ⟨h2, p2, g2, t2, n2⟩ := hunks_run ls h1 hp1 g1 ha er1
        exact ⟨h2, p2, g2, t2.trans t1, by rw [n2, n1, List.length_cons]; omega⟩
      | false =>
        simp only [hn] at ha
        split at ha
        · rename_i hat
          obtain ⟨t1, hp1⟩ := step_nf e1 (notNaming_of_at hat) hp (sim_nomc hs)
          obtain ⟨h2, p2, g2, t2, n2⟩ := hunks_run ls h1 hp1 g1 ha er1
          exact ⟨h2, p2, g2, t2.trans t1, by rw [n2, n1, List.length_cons]; omega⟩
        · cases ha

-- sections ----------------------------------------------------------------------------------------------------

/-- a file section of plain `diff -u` output -/
structure PSec where
  /-- `--- old<TAB>date` -/
  mn : L
  /-- `+++ new<TAB>date` -/
  pl : L
  /-- `@@ -a,N +c,d @@` lines and the hunk lines -/
  hunks : List L := []

def PSec.lines (s : PSec) : List L := s.mn :: s.pl :: s.hunks

/-- the reading ends between hunks: no old-file line outstanding -/
def endOk : Option PS → Bool
  | some .top | some (.hunk 0) => true
  | _ => false

def PSec.wfb (s : PSec) : Bool :=
  isDashes s.mn && !s.mn.commitRe && isPluses s.pl && !s.pl.commitRe && endOk (hunksAfter .top s.hunks)

def PSec.row (cfg : Cfg) (s : PSec) (k : Nat) : Row := plainHeaderRow cfg s.mn s.pl (k + 1)

/-- between the sections of a plain diff (or before the first line) -/
structure QP (m : M) : Prop where
  np : NPend m
  good : Good m
  src : (m.source = .diffUnified ∧ m.counter = 0) ∨ (m.source = .unknown)

theorem detect_dashes {l : L} (hd : isDashes l = true) : detectSource l.text = .diffUnified := by
  have hd' : startsWith l.text ['-', '-', '-', ' '] = true := hd
  obtain ⟨rest, ht⟩ := startsWith_split hd'
  rw [ht]
  simp [detectSource, startsWithAny, startsWith, Generated.gitDiffPrefixes, Generated.diffUnifiedPrefixes, List.isPrefixOf]

theorem psec_run {cfg : Cfg} (hc : FHC cfg) (s : PSec) (w : s.wfb = true) {m mf : M} (h : QP m)
    (e : runFrom cfg m s.lines = .ok mf) :
    QP mf ∧ fileTL mf = fileTL m ++ [s.row cfg m.n] ∧ mf.n = m.n + s.lines.length := by
  unfold PSec.wfb at w
  simp only [Bool.and_eq_true, Bool.not_eq_true'] at w
  obtain ⟨⟨⟨⟨wd, wdc⟩, wp⟩, wpc⟩, wend⟩ := w
  unfold PSec.lines at e
  obtain ⟨m1, e1, er1⟩ := runFrom_cons_ok e
  obtain ⟨m2, e2, er2⟩ := runFrom_cons_ok er1
  -- the `--- ` line
  obtain ⟨m0, hm0⟩ : ∃ m0, m0 = stepInit m s.mn := ⟨_, rfl⟩
  have hinit : m0.source = .diffUnified ∧ m0.counter = 0 ∧ timeline m0 = timeline m ∧ m0.modeInfo = m.modeInfo ∧
      m0.currentPair = m.currentPair ∧ m0.n = m.n := by
    rw [hm0]
    unfold stepInit
    rcases h.src with ⟨hs, hcn⟩ | hs
    · simp [hs, hcn]
    · simp only [hs, if_true]
      unfold armCounter
      simp only [Markers.prepareToCount, detect_dashes wd, if_true]
      refine ⟨?_, ?_, ?_, ?_, ?_, ?_⟩ <;> first | trivial | rfl
  obtain ⟨i1, i2, i3, i4, i5, i6⟩ := hinit
  have g0 : Good m0 := by rw [hm0]; exact (stepInit_stepS s.mn h.good).good
  have ec1 := dashes_chain hc i1 i2 wd wdc
  obtain ⟨x, hx⟩ : ∃ x, x = flushMP (minusUpdP m0 s.mn) := ⟨_, rfl⟩
  rw [← hx] at ec1
  obtain ⟨k1, k2, k3, k4, k5, k6⟩ := flushMP_keeps (minusUpdP m0 s.mn)
  rw [← hx] at k1 k2 k3 k4 k5 k6
  have x_st : x.st = .diffHeader .unified := by rw [hx, flushMP_st]; rfl
  have x_src : x.source = .diffUnified := by rw [hx, flushMP_source]; exact i1
  have x_mode : x.modeInfo = [] := by rw [hx, flushMP_modeInfo]; exact i4.trans h.np.1
  have x_n : x.n = m.n := by rw [hx, flushMP_n]; exact i6
  have x_tl : fileTL x = fileTL m := by
    rw [hx, fileTL_flushMP]; exact (fileTL_congr rfl).trans (fileTL_congr i3)
  have hm1 : m1 = { emit (emit (emit x)) with n := (emit (emit (emit x))).n + 1 } := by
    unfold step at e1
    rw [← hm0, ec1] at e1
    cases e1; rfl
  have g1 : Good m1 := (step_spec e1 h.good).1
  have a_st : m1.st = .diffHeader .unified := by rw [hm1]; exact x_st
  have a_src : m1.source = .diffUnified := by rw [hm1]; exact x_src
  have a_cnt : m1.counter = 0 := by rw [hm1]; exact k1.trans i2
  have a_hp : m1.handledPair = none := by rw [hm1]; exact k2
  have a_mode : m1.modeInfo = [] := by rw [hm1]; exact x_mode
  have a_mf : m1.minusFile = (parseDiffHeaderLine s.mn.text false).1 := by rw [hm1]; exact k4
  have a_me : m1.minusEvent = (parseDiffHeaderLine s.mn.text false).2 := by rw [hm1]; exact k5
  have a_n : m1.n = m.n + 1 := by rw [hm1]; show x.n + 1 = _; rw [x_n]
  have a_tl : fileTL m1 = fileTL m := by
    rw [hm1]
    show fileTL (emit (emit (emit x))) = _
    rw [fileTL_emit, fileTL_emit, fileTL_emit, x_tl]
  -- the `+++ ` line
  obtain ⟨z, ec2, b_st, b_src, b_cnt, b_np, b_n, b_tl⟩ := pluses_chain hc a_st a_src a_hp a_mode wp wpc
  have sim1 : Sim .afterMinus m1 := ⟨a_src, a_cnt, a_st⟩
  have hm2 : m2 = { z with n := z.n + 1 } := by
    unfold step at e2
    rw [stepInit_of_sim sim1 s.pl, ec2] at e2
    cases e2; rfl
  have g2 : Good m2 := (step_spec e2 g1).1
  have sim2 : Sim .top m2 := by
    rw [hm2]; exact ⟨b_src, b_cnt.trans a_cnt, Or.inr b_st⟩
  have np2 : NPend m2 := by rw [hm2]; exact b_np
  have tl2 : fileTL m2 = fileTL m ++ [s.row cfg m.n] := by
    rw [hm2]
    show fileTL z = _
    rw [b_tl, a_tl, a_mf, a_me, a_n]
    rfl
  have n2 : m2.n = m.n + 2 := by rw [hm2]; show z.n + 1 = _; rw [b_n, a_n]
  -- the hunks
  cases he : hunksAfter .top s.hunks with
  | none => rw [he] at wend; simp [endOk] at wend
  | some e' =>
    rw [he] at wend
    obtain ⟨h3, p3, g3, t3, n3⟩ := hunks_run s.hunks sim2 np2 g2 he er2
    refine ⟨⟨p3, g3, Or.inl ⟨h3.1, ?_⟩⟩, by rw [t3, tl2], by rw [n3, n2]; simp only [PSec.lines, List.length_cons]; omega⟩
    cases e' with
    | top => exact h3.2.1
    | afterMinus => simp [endOk] at wend
    | hunk r =>
      cases r with
      | zero => simpa using h3.2.1
      | succ r => simp [endOk] at wend

def rowsOfP (cfg : Cfg) : Nat → List PSec → List Row
  | _, [] => []
  | k, s :: ss => s.row cfg k :: rowsOfP cfg (k + s.lines.length) ss

def linesOfP (secs : List PSec) : List L := secs.flatMap PSec.lines

theorem psecs_run {cfg : Cfg} (hc : FHC cfg) : ∀ (secs : List PSec) {m mf : M}, (∀ s ∈ secs, s.wfb = true) →
    QP m → runFrom cfg m (linesOfP secs) = .ok mf →
    QP mf ∧ fileTL mf = fileTL m ++ rowsOfP cfg m.n secs
  | [], m, mf, _, h, e => by
    simp only [linesOfP, List.flatMap_nil, runFrom] at e; cases e; exact ⟨h, by simp [rowsOfP]⟩
  | s :: ss, m, mf, w, h, e => by
    have hl : linesOfP (s :: ss) = s.lines ++ linesOfP ss := by simp [linesOfP]
    rw [hl] at e
    obtain ⟨m1, e1, er1⟩ := runFrom_append_ok e
    obtain ⟨h1, t1, n1⟩ := psec_run hc s (w s (List.mem_cons_self ..)) h e1
    obtain ⟨h2, t2⟩ := psecs_run hc ss (fun x hx => w x (List.mem_cons_of_mem _ hx)) h1 er1
    exact ⟨h2, by rw [t2, t1, n1]; simp [rowsOfP]⟩

theorem qp_init : QP ({} : M) := ⟨⟨rfl, rfl⟩, good_init, Or.inr rfl⟩

/-- **One file header per `--- ` / `+++ ` pair of a plain `diff -u` stream** (whole runs). -/
theorem run_one_file_row_per_section_plain {cfg : Cfg} (hc : FHC cfg) (secs : List PSec) (w : ∀ s ∈ secs, s.wfb = true)
    {m : M} (e : run cfg (linesOfP secs) = .ok m) :
    m.out.filter (fun r => r.kind == .file) = rowsOfP cfg 0 secs := by
  have hout := (run_spec e).2
  unfold run at e
  split at e
  · cases e
  · rename_i m1 e1
    obtain ⟨h1, t1⟩ := psecs_run hc secs w qp_init e1
    have : m.out.filter (fun r => r.kind == .file) = fileTL m := by rw [← hout]; rfl
    rw [this]
    unfold finish at e
    simp only [Generated.Markers.consumeTail, tailOps, tailOp] at e
    cases e
    rw [pendingDiffName_np cfg h1.np.flushMP, fileTL_emit, fileTL_flushMP, t1]
    simp [fileTL, timeline]

theorem rowsOfP_length (cfg : Cfg) : ∀ (k : Nat) (secs : List PSec), (rowsOfP cfg k secs).length = secs.length
  | _, [] => rfl
  | k, s :: ss => by simp [rowsOfP, rowsOfP_length cfg _ ss]

end Machine.Plain
