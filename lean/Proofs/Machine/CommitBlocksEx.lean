import Proofs.Machine.CommitBlocks
/-!
Examples for `Proofs/Machine/CommitBlocks.lean` (C14, `one_file_header_per_section_log`): concrete `git log -p`
streams, their well-formedness by `decide`, the rows the theorem predicts, and the model's run agreeing with them
under every kind of commit style. Imported only by `Props/C14.lean` (kept apart because of the kernel evaluation).
-/
set_option linter.unusedVariables false
namespace Machine.CommitBlocksEx
open Machine

def mkL (s : String) : L :=
  { raw := s.toList, text := s.toList, graphemes := s.toList.map (fun c => [c]),
    commitRe := false, blame := false, grep := 0, submodule := none }
/-- a line the commit regex matches -/
def mkC (s : String) : L := { mkL s with commitRe := true }

def sModified : Sec2 := .file {
  d := mkL "diff --git a/y b/y", noise := [mkL "index 1111111..2222222 100644"],
  body := .named (mkL "--- a/y") (mkL "+++ b/y") none (["@@ -1 +1 @@", "-a", "+b"].map mkL) }
def sModeOnly : Sec2 := .file {
  d := mkL "diff --git a/run.sh b/run.sh", modes := some (mkL "old mode 100644", mkL "new mode 100755"), body := .bare }
def sBinary : Sec2 := .file {
  d := mkL "diff --git a/img.png b/img.png", noise := [mkL "index 1111111..2222222 100644"],
  body := .binary (mkL "Binary files a/img.png and b/img.png differ") }
def sEmptyNew : Sec2 := .file {
  d := mkL "diff --git a/e.txt b/e.txt", noise := [mkL "new file mode 100644", mkL "index 0000000..e69de29"], body := .bare }
def sSubLog : Sec2 := .log (mkL "Submodule sub 1111111..2222222:") [mkL "  > subject one", mkL "  < subject two"]

def c1 : Commit := {
  c := mkC "commit 1111111111111111111111111111111111111111",
  msgs := ["Author: A U Thor <a@example.com>", "Date:   Mon Sep 28 10:00:00 2026 +0200", "", "    first subject", "",
           "    --- a/not-a-header (indented message text)", "    diff --git a/no b/no", ""].map mkL,
  secs := [sModified, sModeOnly] }
def c2 : Commit := {
  c := mkC "commit 2222222222222222222222222222222222222222",
  msgs := ["Author: A U Thor <a@example.com>", "Date:   Mon Sep 28 09:00:00 2026 +0200", "", "    a commit without changes"].map mkL }
def c3 : Commit := {
  c := mkC "commit 3333333333333333333333333333333333333333 (tag: v1)",
  msgs := ["Merge: 1111111 2222222", "Author: A U Thor <a@example.com>", "Date:   Mon Sep 28 08:00:00 2026 +0200", "",
           "    third", "", "Notes:", "    a note", ""].map mkL,
  secs := [sBinary, sSubLog, sEmptyNew] }
def log3 : List Commit := [c1, c2, c3]
def log2 : List Commit := [{ c1 with secs := [sModeOnly] }, { c2 with secs := [sModified, sEmptyNew] }]


/-- the runs's file rows against the theorem's rows -/
def agrees (cfg : Cfg) (pre : List Sec2) (commits : List Commit) : Bool :=
  match run cfg (linesOfLog pre commits) with
  | .ok m => m.out.filter (fun (r : Row) => r.kind == RowKind.file) == rowsOfLog cfg pre commits
  | .error _ => false

def shown (rows : List Row) : List (String × Nat) := rows.map (fun r => (String.ofList r.text, r.src))

theorem log3_wf : ∀ k ∈ log3, k.WF := commits_wf_of_all (by decide)
theorem log2_wf : ∀ k ∈ log2, k.WF := commits_wf_of_all (by decide)

/-- three commits (43 input lines): the second has no diff; the first ends in a section whose header is written
late: it is written at the second commit line (index 19); the last section's at the end of input (43) -/
theorem log3_rows : shown (rowsOfLog {} [] log3) =
    [("y", 12), ("run.sh (mode +x)", 19), ("img.png (binary file)", 37), ("Submodule sub 1111111..2222222:", 37),
     ("added: e.txt", 43)] := by decide

/-- a diff before the first commit (`git diff; git log -p` piped together, or `git show` of a stash): its late
header is written at the first commit line (index 3) -/
theorem pre_rows : shown (rowsOfLog {} [sBinary] log3) =
    [("img.png (binary file)", 3), ("y", 15), ("run.sh (mode +x)", 22), ("img.png (binary file)", 40),
     ("Submodule sub 1111111..2222222:", 40), ("added: e.txt", 46)] := by decide

theorem log2_rows : shown (rowsOfLog {} [] log2) = [("run.sh (mode +x)", 12), ("y", 20), ("added: e.txt", 27)] := by
  decide

theorem log3_run : agrees {} [] log3 = true := by decide +kernel
theorem pre_run : agrees {} [sBinary] log3 = true := by decide +kernel

/-- every kind of commit style: decorated, omitted, raw without decoration (the handler declines and the line is
passed through), raw with a decoration; and a boxed file style -/
theorem log2_run_styles :
    agrees { commitStyle := { deco := .box } } [] log2 = true ∧
    agrees { commitStyle := { isOmitted := true } } [] log2 = true ∧
    agrees { commitStyle := { isRaw := true } } [] log2 = true ∧
    agrees { commitStyle := { isRaw := true, deco := .ul } } [] log2 = true ∧
    agrees { fileStyle := { deco := .box }, commitStyle := { isRaw := true } } [sModeOnly] log2 = true := by
  decide +kernel

/-- why `isMetaLine` is a hypothesis: an unindented `diff --git` line in the block is a section start — a file header
row appears although the stream, read as one commit block, has no section -/
theorem diff_line_in_block_is_a_section :
    (match run {} [mkC "commit 1", mkL "diff --git a/x b/x"] with
     | .ok m => shown (m.out.filter (fun (r : Row) => r.kind == RowKind.file))
     | .error _ => []) = [("x", 2)] ∧ isMetaLine (mkL "diff --git a/x b/x") = false := by decide

/-- why `isCommitLine` asks for git's `commit ` prefix and not only for a match of the (configurable) commit regex: a
matched line that begins `diff --git `, under a raw commit style, is declined by the commit handler and then taken
for the first line of a file section -/
theorem commit_regex_match_alone_is_not_enough :
    (match run { commitStyle := { isRaw := true } } [{ mkL "diff --git a/x b/x" with commitRe := true }] with
     | .ok m => shown (m.out.filter (fun (r : Row) => r.kind == RowKind.file))
     | .error _ => []) = [("x", 1)] := by decide

end Machine.CommitBlocksEx
