import DeltaModel.Machine
set_option linter.unusedSimpArgs false
set_option linter.unusedVariables false
/-!
C05, the path in the hunk-header row, over the state machine's file-name bookkeeping
(`DeltaModel/Machine.lean`: `M.minusFile`, `M.plusFile`).

* the `+++ ` line handler stores the path it parses as `plusFile` and leaves `minusFile` alone;
* the handler of an `@@` line and the handler of a hunk line (which writes the pending hunk header) change
  neither name — so every hunk of a file section is written with the names its header lines left;
* the text of the header row is built from exactly these two names and the start of the last coordinate pair.
-/
namespace Machine.HunkNames
open Machine Headers Generated

/-- the two names -/
def names (m : M) : Str × Str := (m.minusFile, m.plusFile)

@[simp] theorem names_emit (m : M) : names (emit m) = names m := rfl

@[simp] theorem names_flushMP (m : M) : names (flushMP m) = names m := by
  unfold flushMP; split <;> rfl

@[simp] theorem names_direct (m : M) (rows : List Row) : names (direct m rows) = names m := by
  unfold direct; split <;> rfl

@[simp] theorem names_writeGeneric (cfg : Cfg) (m : M) (t r : Str) : names (writeGeneric cfg m t r) = names m := by
  unfold writeGeneric; split
  · rfl
  · simp [names, direct]; split <;> simp

@[simp] theorem names_handleHeaderLine (cfg : Cfg) (m : M) (c : Bool) : names (handleHeaderLine cfg m c) = names m := by
  unfold handleHeaderLine; simp

/-- the handler of the `@@` line keeps both names -/
theorem handleHunkHeader_names {cfg : Cfg} {m m' : M} {l : L} {b : Bool}
    (e : handleHunkHeader cfg m l = .ok (b, m')) : names m' = names m := by
  unfold handleHunkHeader at e
  split at e
  · cases e; rfl
  · split at e
    · cases e; rfl
    · cases e; rfl

theorem emitHunkHeader_names {cfg : Cfg} {m m' : M} {hh : HunkHeader} {line raw : Str} {src : Nat}
    (e : emitHunkHeader cfg m hh line raw src = .ok m') : names m' = names m := by
  unfold emitHunkHeader at e
  split at e
  · cases e
  · cases e; simp

theorem hunkLinePre_names {cfg : Cfg} {m m' : M} (e : hunkLinePre cfg m = .ok m') : names m' = names m := by
  unfold hunkLinePre at e
  simp only [] at e
  split at e
  · rw [emitHunkHeader_names e]; split <;> simp
  · cases e; split <;> simp

theorem hunkLinePush_names {cfg : Cfg} {m m' : M} {l : L} (e : hunkLinePush cfg m l = .ok m') :
    names m' = names m := by
  unfold hunkLinePush at e
  split at e
  · cases e
  · split at e
    · cases e
    · cases e
      show names (if isHunkPlus m.st then flushMP m else m) = names m
      split <;> simp
  · split at e
    · cases e
    · cases e; rfl
  · split at e
    · cases e
    · cases e
      show names (flushMP m) = names m
      simp
  · cases e
    show names (flushMP m) = names m
    simp

/-- the handler of a hunk line — including the pending hunk header it writes first — keeps both names -/
theorem handleHunkLine_names {cfg : Cfg} {m m' : M} {l : L} {b : Bool}
    (e : handleHunkLine cfg m l = .ok (b, m')) : names m' = names m := by
  unfold handleHunkLine at e
  split at e
  · cases e; rfl
  · split at e
    · cases e
    · rename_i m2 e2
      split at e
      · cases e
      · rename_i m3 e3
        cases e
        rw [names_emit, hunkLinePush_names e3, hunkLinePre_names e2]

theorem shouldWriteGeneric_names (cfg : Cfg) (m : M) (l : L) : names (shouldWriteGeneric cfg m l).2 = names m := by
  unfold shouldWriteGeneric; split <;> simp

theorem plusLineFinish_names (cfg : Cfg) (m1 : M) (l : L) : names (plusLineFinish cfg m1 l).2 = names m1 := by
  unfold plusLineFinish
  split
  · exact shouldWriteGeneric_names cfg m1 l
  · split
    · show names (handleHeaderLine cfg (emit m1) _) = names m1
      simp
    · rfl

/-- the `+++ ` line stores the parsed path as the plus file and keeps the minus file -/
theorem handlePlusLine_names {cfg : Cfg} {m m' : M} {l : L} {b : Bool}
    (ht : plusLineTest m l = true) (e : handlePlusLine cfg m l = .ok (b, m')) :
    names m' = (m.minusFile, (parseDiffHeaderLine l.text (m.source = .gitDiff)).1) := by
  unfold handlePlusLine at e
  simp only [ht, Bool.not_true, Bool.false_eq_true, if_false] at e
  have h2 := congrArg Prod.snd (Except.ok.inj e)
  simp only [] at h2
  rw [← h2, plusLineFinish_names, names_flushMP]
  rfl

/-- the file whose path the hunk-header row shows -/
def shownFile (m : M) : Str := if m.plusFile = Markers.devNull then m.minusFile else m.plusFile

/-- the code-fragment part of the row -/
def fragBody (cfg : Cfg) (hh : HunkHeader) : Str :=
  if cfg.hhFragment ∧ hh.fragment ≠ [] then hh.fragment ++ [' '] else []

/-- with `file` and `line-number` in the hunk-header style (not raw, not `--color-only`) the row reads
    `<label><path>:<start of the last coordinate pair>:<fragment>` with the path taken from the machine's
    current names -/
theorem hunkHeaderText_shape (cfg : Cfg) (m : M) (hh : HunkHeader) (line : Str) (a b c d : Nat)
    (hf : cfg.hhFile = true) (hn : cfg.hhLineNumber = true) (hr : cfg.hunkHeaderStyle.isRaw = false)
    (hc : cfg.colorOnly = false) (hco : hh.coords = [(a, b), (c, d)]) :
    hunkHeaderText cfg m hh line = .ok (some
      ((if cfg.hunkLabel ≠ [] then cfg.hunkLabel ++ [' '] else []) ++
       (shownFile m ++ ':' :: (toString c).toList ++ [':'] ++ (if fragBody cfg hh = [] then [' '] else [])) ++
       Text.expand cfg.tab (fragBody cfg hh))) := by
  simp [hunkHeaderText, hco, hunkHeaderTextOf, hf, hn, hr, hc, shownFile, fragBody]

end Machine.HunkNames
