import DeltaModel.Machine

/-! # After a commit line the machine is in `CommitMeta` — whatever the commit style

`handle_commit_meta_header_line` sets `self.state = State::CommitMeta` before it decides whether and how the
line is drawn (`omit`, raw, decorated). The message lines that follow are passed through only because of that
state (`passthrough_exact`, `passthrough_rows_in_place`); a handler that returned early for an omitted style
before the state change would leave the machine in the previous diff's hunk or header state and the message
would be taken for hunk lines / skipped (seeded change C04-w6-04). -/

namespace Machine

@[simp] theorem emit_st (m : M) : (emit m).st = m.st := rfl

@[simp] theorem direct_st (m : M) (rows : List Row) : (direct m rows).st = m.st := by
  unfold direct; split <;> rfl

/-- A line matched by the commit regex leaves the machine in `CommitMeta`, for every configuration
(commit style omitted, raw, plain or decorated; color-only or not) and from every state. -/
theorem handleCommitMeta_st (cfg : Cfg) (m m' : M) (l : L) (b : Bool) (hre : l.commitRe = true)
    (h : handleCommitMeta cfg m l = .ok (b, m')) : m'.st = .commitMeta := by
  unfold handleCommitMeta at h
  simp only [hre, Bool.not_true, Bool.false_eq_true, if_false] at h
  split at h
  · split at h <;> (cases h; simp)
  · cases h; rfl

/-- …and the line is claimed (`true`: no later handler sees it) exactly when the commit style is not
"raw without decoration"; otherwise it falls through to be written unchanged — in `CommitMeta` too. -/
theorem handleCommitMeta_claims (cfg : Cfg) (m m' : M) (l : L) (b : Bool) (hre : l.commitRe = true)
    (h : handleCommitMeta cfg m l = .ok (b, m')) :
    b = shouldHandle cfg { pendingDiffName cfg (flushMP m) with st := .commitMeta } := by
  unfold handleCommitMeta at h
  simp only [hre, Bool.not_true, Bool.false_eq_true, if_false] at h
  split at h
  · rename_i hs
    split at h <;> (cases h; simp [hs])
  · rename_i hs
    cases h; simp at hs; simp [hs]

/-- It never fails. -/
theorem handleCommitMeta_ok (cfg : Cfg) (m : M) (l : L) : ∃ b m', handleCommitMeta cfg m l = .ok (b, m') := by
  unfold handleCommitMeta
  split
  · exact ⟨_, _, rfl⟩
  · split
    · split <;> exact ⟨_, _, rfl⟩
    · exact ⟨_, _, rfl⟩

end Machine

namespace Machine

/-- One iteration of `consume` on a line matched by the commit regex, when the commit style is one the handler
draws or omits itself (anything but "raw without decoration"): the line is claimed by the first handler of the
generated chain and the machine ends the iteration in `CommitMeta`. -/
theorem step_commit_line_st (cfg : Cfg) (m m' : M) (l : L) (hre : l.commitRe = true)
    (hs : shouldHandle cfg { pendingDiffName cfg (flushMP (stepInit m l)) with st := .commitMeta } = true)
    (h : step cfg m l = .ok m') : m'.st = .commitMeta := by
  unfold step at h
  obtain ⟨b, m1, e1⟩ := handleCommitMeta_ok cfg (stepInit m l) l
  have hb := handleCommitMeta_claims cfg _ _ l b hre e1
  have hst := handleCommitMeta_st cfg _ _ l b hre e1
  rw [hs] at hb
  subst hb
  simp only [Generated.handlerOrder, chain, handlerOf, e1] at h
  cases h
  simpa using hst

end Machine
