import Proofs.Machine.CombinedHeaders2
import Proofs.Machine.CommitBlocksEx
/-!
Examples for `Proofs/Machine/CombinedHeaders2.lean` (C14, `one_file_header_per_section_combined`): a `git show` of a merge
commit — commit block, then three combined-diff sections (modified in both parents with two `@@@` hunks, one of which has a
`--- x` *hunk* line in the second column; added in the merge with `new file mode`; deleted with `deleted file mode a,b`; a
`mode a,b..c` line) —, its well-formedness by `decide`, the rows the theorem predicts, and the model's run agreeing with them
(`decide +kernel`). Imported only by `Props/C14.lean`.
-/
set_option linter.unusedVariables false
namespace Machine.CombinedHeadersEx
open Machine Machine.CommitBlocksEx

def ccModified : CSec := {
  d := mkL "diff --cc src/x.rs", hdr := [mkL "index 1111111,2222222..3333333", mkL "mode 100644,100644..100755"],
  mn := mkL "--- a/src/x.rs", pl := mkL "+++ b/src/x.rs",
  body := ["@@@ -1,3 -1,3 +1,4 @@@ fn f()", "  a", "- b", " -c", "++d", " +--- not a header", "@@@ -9,2 -9,2 +10,2 @@@", "  y", " +z"].map mkL }
def ccAdded : CSec := {
  d := mkL "diff --cc new.txt", hdr := [mkL "new file mode 100644", mkL "index 0000000,0000000..4444444"],
  mn := mkL "--- /dev/null", pl := mkL "+++ b/new.txt", body := ["@@@ -0,0 -0,0 +1,1 @@@", "++hello"].map mkL }
def ccDeleted : CSec := {
  d := mkL "diff --combined old.txt", hdr := [mkL "deleted file mode 100644,100644", mkL "index 5555555,6666666..0000000"],
  mn := mkL "--- a/old.txt", pl := mkL "+++ /dev/null", body := ["@@@ -1,1 -1,1 +0,0 @@@", "--bye"].map mkL }

def mergeShow : List CItem := [
  .commit (mkC "commit 4444444444444444444444444444444444444444")
    (["Merge: 1111111 2222222", "Author: A U Thor <a@example.com>", "", "    Merge branch 'topic'", "",
      "    --- a/x (indented message text)"].map mkL),
  .sec ccModified, .sec ccAdded,
  .commit (mkC "commit 5555555555555555555555555555555555555555") (["Merge: 3333333 4444444", ""].map mkL),
  .sec ccDeleted]

def agreesC (cfg : Cfg) (items : List CItem) : Bool :=
  match run cfg (linesOfCItems items) with
  | .ok m => m.out.filter (fun (r : Row) => r.kind == RowKind.file) == rowsOfCItems cfg 0 items
  | .error _ => false

theorem mergeShow_wf : ∀ i ∈ mergeShow, i.WF := citems_wf_of_all (by decide)

/-- 38 input lines; one row per section, at its `+++ ` line, naming its file -/
theorem mergeShow_rows : shown (rowsOfCItems {} 0 mergeShow) =
    [("src/x.rs", 11), ("added: new.txt", 25), ("removed: old.txt", 35)] := by decide +kernel

theorem mergeShow_run : agreesC {} mergeShow = true ∧
    agreesC { commitStyle := { isRaw := true }, fileStyle := { deco := .box } } mergeShow = true ∧
    agreesC {} [.sec ccAdded, .sec ccModified] = true := by decide +kernel

end Machine.CombinedHeadersEx
