import Proofs.Machine.FileHeaders3
/-!
Whole-run file headers (C14), part 4: every kind of file section git produces, composed.

`Sec2` describes a section: a file section (`diff --git` line, optionally `old mode` / `new mode`,
index-like lines with `new file mode` / `deleted file mode`, then one of: the two names and hunks; the
two names and a `Binary files` line; the two names and a short submodule hunk (two `Subproject commit`
lines, or one for an added or removed submodule); nothing (mode-only
change, empty added or deleted file); a `Binary files` line) or a submodule log. `run_one_file_row_per_section2`:
the file-header rows of the output are, in order, exactly `rowsOf2` — one per section.
-/
set_option linter.unusedSimpArgs false
set_option linter.unusedVariables false
namespace Machine
open Headers Generated

/-- what follows the header part of a file section -/
inductive Body
  /-- the line naming the old file, the line naming the new file, optionally both again, hunks -/
  | named (mi pl : L) (again : Option (List L × L × L)) (hunks : List L)
  /-- a renamed or copied binary file with changes: the two names, index-like lines, `Binary files … differ` -/
  | namedBinary (mi pl : L) (noise : List L) (b : L)
  /-- a submodule (short form): `--- `, `+++ `, hunk header, `-Subproject commit`, `+Subproject commit` -/
  | submodule (mi pl hh sm sp : L)
  /-- an added or removed submodule (short form): `--- `, `+++ `, hunk header, one `Subproject commit` line -/
  | submodule1 (mi pl hh sl : L)
  /-- nothing: mode-only change, empty added or deleted file -/
  | bare
  /-- `Binary files … differ` -/
  | binary (b : L)

structure FileSec where
  d : L
  modes : Option (L × L) := none
  noise : List L := []
  body : Body

inductive Sec2
  | file (f : FileSec)
  /-- `Submodule <path> <old>..<new>:` and its log lines (`git diff --submodule=log`) -/
  | log (s : L) (msgs : List L)

def modeLines : Option (L × L) → List L
  | none => []
  | some (o, n) => [o, n]

def againLinesOf : Option (List L × L × L) → List L
  | none => []
  | some (n2, a, b) => n2 ++ [a, b]

def Body.lines : Body → List L
  | .named mi pl again hunks => mi :: pl :: (againLinesOf again ++ hunks)
  | .namedBinary mi pl noise b => mi :: pl :: (noise ++ [b])
  | .submodule mi pl hh sm sp => [mi, pl, hh, sm, sp]
  | .submodule1 mi pl hh sl => [mi, pl, hh, sl]
  | .bare => []
  | .binary b => [b]

def FileSec.lines (f : FileSec) : List L := f.d :: (modeLines f.modes ++ (f.noise ++ f.body.lines))

def Sec2.lines : Sec2 → List L
  | .file f => f.lines
  | .log s msgs => s :: msgs

/-- the section's header is written late (at the next `diff ` line or at the end of the input) -/
def Body.late : Body → Bool
  | .bare | .binary _ => true
  | _ => false

def Sec2.late : Sec2 → Bool
  | .file f => f.body.late
  | .log .. => false

/-- the mode change the `old mode` / `new mode` lines announce -/
def addendum (cfg : Cfg) : Option (L × L) → Str
  | none => []
  | some (o, n) => modeInfoText cfg (oldModeArg o) (newModeArg n)

/-- the names of a section without lines naming its files: those of the `diff --git` line; after a
`new file mode` line `/dev/null` and that name, after a `deleted file mode` line the reverse -/
def lateNames (nm : Str) (noise : List L) : Str × Str := noise.foldl (namesStep nm) (nm, nm)

/-- the file-header row of a section body whose first line is input line `base` -/
def Body.row (cfg : Cfg) (d : L) (add : Str) (names : Str × Str) : Body → Nat → Row
  | .named mi pl _ _, base =>
    headerRowA cfg (parseDiffHeaderLine mi.text true).1 (parseDiffHeaderLine mi.text true).2 pl add (base + 1)
  | .namedBinary mi pl _ _, base =>
    headerRowA cfg (parseDiffHeaderLine mi.text true).1 (parseDiffHeaderLine mi.text true).2 pl add (base + 1)
  | .submodule mi pl _ _ _, base =>
    headerRowA cfg (parseDiffHeaderLine mi.text true).1 (parseDiffHeaderLine mi.text true).2 pl add (base + 1)
  | .submodule1 mi pl _ _, base =>
    headerRowA cfg (parseDiffHeaderLine mi.text true).1 (parseDiffHeaderLine mi.text true).2 pl add (base + 1)
  | .bare, base => { kind := .file, text := lateText cfg d add names, src := base }
  | .binary _, base => { kind := .file, text := lateText cfg d add (binNames names), src := base + 1 }

/-- the file-header row of a file section whose `diff --git` line is input line `k` -/
def FileSec.row (cfg : Cfg) (f : FileSec) (k : Nat) : Row :=
  f.body.row cfg f.d (addendum cfg f.modes) (lateNames (nameOf f.d) f.noise)
    (k + 1 + (modeLines f.modes).length + f.noise.length)

def Sec2.row (cfg : Cfg) : Sec2 → Nat → Row
  | .file f, k => f.row cfg k
  | .log s _, k => { kind := .file, text := fileRowText cfg s.text, src := k }

structure ModesWF (o n : L) : Prop where
  old : isOldModeLine o = true
  new : isNewModeLine n = true
  arg : oldModeArg o ≠ []

def AgainWF (mi pl : L) (again : Option (List L × L × L)) : Prop :=
  ∀ n2 a b, again = some (n2, a, b) →
    (∀ x ∈ n2, Noise x) ∧ isMinusLine a = true ∧ isPlusLine b = true ∧
    (parseDiffHeaderLine a.text true).1 = (parseDiffHeaderLine mi.text true).1 ∧
    (parseDiffHeaderLine b.text true).1 = (parseDiffHeaderLine pl.text true).1

def Body.WF (names : Str × Str) : Body → Prop
  | .named mi pl again hunks =>
    isMinusLine mi = true ∧ isPlusLine pl = true ∧ AgainWF mi pl again ∧
      (∀ x ∈ hunks, isHHLineG x = true ∨ BodyL x) ∧ (∀ x, hunks.head? = some x → isHHLineG x = true)
  | .namedBinary mi pl noise b =>
    isMinusLine mi = true ∧ isPlusLine pl = true ∧ (∀ x ∈ noise, Noise x) ∧ isBinaryLine b = true
  | .submodule mi pl hh sm sp =>
    isMinusLine mi = true ∧ isPlusLine pl = true ∧ isPairableHHLine hh = true ∧ isSubMinusLine sm = true ∧
      isSubPlusLine sp = true
  | .submodule1 mi pl hh sl =>
    isMinusLine mi = true ∧ isPlusLine pl = true ∧ isHHLineG hh = true ∧ isLoneSubLine hh sl = true
  | .bare => True
  | .binary b => isBinaryLine b = true ∧ ¬ (names.1 = [] ∧ names.2 = [])

structure FileSec.WF (f : FileSec) : Prop where
  d : isDiffGitLine f.d = true
  modes : ∀ o n, f.modes = some (o, n) → ModesWF o n
  noise : ∀ x ∈ f.noise, Noise x ∨ isFileOpLine x = true
  body : f.body.WF (lateNames (nameOf f.d) f.noise)

def Sec2.WF : Sec2 → Prop
  | .file f => f.WF
  | .log s msgs => isSubmoduleLogLine s = true ∧ ∀ x ∈ msgs, LogL x

/-- between two sections: the header of the section before is pending (`true`) or nothing is -/
def Inv (b : Bool) (m : M) : Prop := (b = true → Hdr m) ∧ (b = false → Settled2 m)

theorem Inv.pre {b : Bool} {m : M} (h : Inv b m) : Pre m := by
  cases b
  · exact (h.2 rfl).pre
  · exact (h.1 rfl).pre

-- runs of lines ---------------------------------------------------------------------------------

theorem modes_run {cfg : Cfg} (hc : FHC cfg) (modes : Option (L × L)) {m mf : M} {d : L} {p : Str × Str}
    (h : HdrF m d [] p) (w : ∀ o n, modes = some (o, n) → ModesWF o n)
    (e : runFrom cfg m (modeLines modes) = .ok mf) :
    HdrF mf d (addendum cfg modes) p ∧ fileTL mf = fileTL m ∧ mf.n = m.n + (modeLines modes).length := by
  cases modes with
  | none =>
    simp only [modeLines, runFrom] at e
    cases e
    exact ⟨h, rfl, rfl⟩
  | some on =>
    obtain ⟨o, n⟩ := on
    have wm := w o n rfl
    simp only [modeLines] at e ⊢
    obtain ⟨m1, e1, er1⟩ := runFrom_cons_ok e
    obtain ⟨m1', e1', h1, t1, n1⟩ := old_mode_step hc h wm.old
    rw [e1] at e1'; cases e1'
    obtain ⟨m2, e2, er2⟩ := runFrom_cons_ok er1
    obtain ⟨m2', e2', h2, t2, n2⟩ := new_mode_step hc h1 wm.arg wm.new
    rw [e2] at e2'; cases e2'
    simp only [runFrom] at er2
    cases er2
    exact ⟨h2, t2.trans t1, by rw [n2, n1]; rfl⟩

theorem namesStep_noise (nm : Str) (p : Str × Str) {l : L} (h : Noise l) : namesStep nm p l = p := by
  unfold namesStep; rw [if_neg]; rw [h.fileOp]; simp

theorem noise_run2 {cfg : Cfg} (hc : FHC cfg) {d : L} {mode : Str} : ∀ (ls : List L) {m mf : M} {p : Str × Str},
    HdrF m d mode p → (∀ x ∈ ls, Noise x ∨ isFileOpLine x = true) → runFrom cfg m ls = .ok mf →
    HdrF mf d mode (ls.foldl (namesStep (nameOf d)) p) ∧ fileTL mf = fileTL m ∧ mf.n = m.n + ls.length
  | [], m, mf, p, h, _, e => by simp only [runFrom] at e; cases e; exact ⟨h, rfl, rfl⟩
  | l :: ls, m, mf, p, h, hn, e => by
    obtain ⟨m1, e1, er⟩ := runFrom_cons_ok e
    have hstep : ∃ m1', step cfg m l = .ok m1' ∧ HdrF m1' d mode (namesStep (nameOf d) p l) ∧
        fileTL m1' = fileTL m ∧ m1'.n = m.n + 1 := by
      rcases hn l (List.mem_cons_self ..) with hx | hx
      · rw [namesStep_noise _ _ hx]; exact noise_step2 hc h hx
      · exact fileop_step2 hc h hx
    obtain ⟨m1', e1', h1, t1, n1⟩ := hstep
    rw [e1] at e1'; cases e1'
    obtain ⟨h2, t2, n2⟩ := noise_run2 hc ls h1 (fun x hx => hn x (List.mem_cons_of_mem _ hx)) er
    exact ⟨h2, t2.trans t1, by rw [n2, n1, List.length_cons]; omega⟩

/-- the second naming of the two files writes nothing -/
theorem again_run2 {cfg : Cfg} (hc : FHC cfg) {mi pl : L} (again : Option (List L × L × L)) (w : AgainWF mi pl again)
    {m mf : M} (h : AfterPlus m)
    (hmf : m.minusFile = (parseDiffHeaderLine mi.text true).1)
    (hhp : m.handledPair = some ((parseDiffHeaderLine mi.text true).1, (parseDiffHeaderLine pl.text true).1))
    (e : runFrom cfg m (againLinesOf again) = .ok mf) :
    AfterPlus mf ∧ fileTL mf = fileTL m ∧ mf.n = m.n + (againLinesOf again).length := by
  cases again with
  | none =>
    simp only [againLinesOf, runFrom] at e
    cases e
    exact ⟨h, rfl, rfl⟩
  | some t =>
    obtain ⟨n2, a, b⟩ := t
    simp only [againLinesOf] at e ⊢
    obtain ⟨wn, wa, wb, ea, eb⟩ := w n2 a b rfl
    obtain ⟨m1, e1, er1⟩ := runFrom_append_ok e
    obtain ⟨h1, t1, n1, f1, p1⟩ := noise_run_after hc n2 h wn e1
    obtain ⟨m2, e2, er2⟩ := runFrom_cons_ok er1
    obtain ⟨m2', e2', h2, t2, nn2, f2, p2⟩ := minus_line_step_after hc h1 wa
    rw [e2] at e2'; cases e2'
    obtain ⟨m3, e3, er3⟩ := runFrom_cons_ok er2
    obtain ⟨m3', e3', h3, t3, n3⟩ := plus_line_step_after hc h2 wb (by rw [p2, p1, hhp, f2, ea, eb])
    rw [e3] at e3'; cases e3'
    simp only [runFrom] at er3
    cases er3
    refine ⟨h3, by rw [t3, t2, t1], ?_⟩
    rw [n3, nn2, n1]; simp; omega

/-- the hunks of a section after its header has been written -/
theorem hunks_after_run {cfg : Cfg} (hunks : List L) {m mf : M} (h : AfterPlus m)
    (w1 : ∀ x ∈ hunks, isHHLineG x = true ∨ BodyL x) (w2 : ∀ x, hunks.head? = some x → isHHLineG x = true)
    (e : runFrom cfg m hunks = .ok mf) :
    Settled mf ∧ fileTL mf = fileTL m ∧ mf.n = m.n + hunks.length := by
  cases hunks with
  | nil =>
    simp only [runFrom] at e
    cases e
    exact ⟨h.settled, rfl, rfl⟩
  | cons x xs =>
    obtain ⟨m6, e6, er6⟩ := runFrom_cons_ok e
    obtain ⟨m6', e6', h6, t6, n6⟩ := hh_line_step (cfg := cfg) (Or.inl h.st) h.src h.cnt h.mode h.pair h.good (w2 x rfl)
    rw [e6] at e6'; cases e6'
    obtain ⟨h7, t7, n7⟩ := hunks_run xs h6 (fun y hy => w1 y (List.mem_cons_of_mem _ hy)) er6
    exact ⟨h7.settled, t7.trans t6, by rw [n7, n6, List.length_cons]; omega⟩

theorem inv_of_settled {m : M} (h : Settled m) : Inv false m := ⟨(fun e => by cases e), fun _ => h.to2⟩
theorem inv_of_hdr {m : M} (h : Hdr m) : Inv true m := ⟨fun _ => h, (fun e => by cases e)⟩

theorem facct_settled {cfg : Cfg} {m : M} (h : Settled m) : facct cfg m = fileTL m := by
  unfold facct; rw [h.to2.pendRows]; simp

/-- the two names and what follows them: one file row, at the line naming the new file -/
theorem named_prefix_run {cfg : Cfg} (hc : FHC cfg) {d : L} {add : Str} {names : Str × Str} {mi pl : L} {rest : List L}
    {m mf : M} (h : HdrF m d add names) (wmi : isMinusLine mi = true) (wpl : isPlusLine pl = true)
    (e : runFrom cfg m (mi :: pl :: rest) = .ok mf) :
    ∃ m2, AfterPlus m2 ∧ runFrom cfg m2 rest = .ok mf ∧ m2.n = m.n + 2 ∧
      fileTL m2 = fileTL m ++
        [headerRowA cfg (parseDiffHeaderLine mi.text true).1 (parseDiffHeaderLine mi.text true).2 pl add (m.n + 1)] ∧
      m2.minusFile = (parseDiffHeaderLine mi.text true).1 ∧
      m2.handledPair = some ((parseDiffHeaderLine mi.text true).1, (parseDiffHeaderLine pl.text true).1) := by
  obtain ⟨m1, e1, er1⟩ := runFrom_cons_ok e
  obtain ⟨m1', e1', h1, t1, n1, mf1, me1, mo1⟩ := minus_step2 hc h.toHdr wmi
  rw [e1] at e1'; cases e1'
  obtain ⟨m2, e2, er2⟩ := runFrom_cons_ok er1
  obtain ⟨m2', e2', h2, n2, t2, hp2, mf2⟩ := plus_step2 hc h1 wpl
  rw [e2] at e2'; cases e2'
  refine ⟨m2, h2, er2, by rw [n2, n1], ?_, mf2.trans mf1, by rw [hp2, mf1]⟩
  rw [t2, t1, mf1, me1, mo1, h.mode, n1]

/-- the part of a file section after its header part -/
theorem body_run {cfg : Cfg} (hc : FHC cfg) {d : L} {add : Str} {names : Str × Str} (body : Body) (w : body.WF names)
    {m mf : M} (h : HdrF m d add names) (e : runFrom cfg m body.lines = .ok mf) :
    Inv body.late mf ∧ facct cfg mf = fileTL m ++ [body.row cfg d add names m.n] ∧
      mf.n = m.n + body.lines.length := by
  cases body with
  | named mi pl again hunks =>
    obtain ⟨wmi, wpl, wag, wh1, wh2⟩ := w
    simp only [Body.lines] at e ⊢
    obtain ⟨m2, h2, er2, n2, t2, f2, p2⟩ := named_prefix_run hc h wmi wpl e
    obtain ⟨m3, e3, er3⟩ := runFrom_append_ok er2
    obtain ⟨h3, t3, n3⟩ := again_run2 hc again wag h2 f2 p2 e3
    obtain ⟨h4, t4, n4⟩ := hunks_after_run hunks h3 wh1 wh2 er3
    refine ⟨inv_of_settled h4, ?_, ?_⟩
    · rw [facct_settled h4, t4, t3, t2]; rfl
    · rw [n4, n3, n2]; simp only [List.length_cons, List.length_append]; omega
  | namedBinary mi pl noise b =>
    obtain ⟨wmi, wpl, wn, wb⟩ := w
    simp only [Body.lines] at e ⊢
    obtain ⟨m2, h2, er2, n2, t2, f2, p2⟩ := named_prefix_run hc h wmi wpl e
    obtain ⟨m3, e3, er3⟩ := runFrom_append_ok er2
    obtain ⟨h3, t3, n3, _, _⟩ := noise_run_after hc noise h2 wn e3
    obtain ⟨m4, e4, er4⟩ := runFrom_cons_ok er3
    obtain ⟨m4', e4', h4, t4, n4⟩ := binary_step_after hc h3 wb
    rw [e4] at e4'; cases e4'
    simp only [runFrom] at er4
    cases er4
    refine ⟨inv_of_settled h4.settled, ?_, ?_⟩
    · rw [facct_settled h4.settled, t4, t3, t2]; rfl
    · rw [n4, n3, n2]; simp only [List.length_cons, List.length_append, List.length_nil]; omega
  | submodule mi pl hh sm sp =>
    obtain ⟨wmi, wpl, whh, wsm, wsp⟩ := w
    simp only [Body.lines] at e ⊢
    obtain ⟨m2, h2, er2, n2, t2, f2, p2⟩ := named_prefix_run hc h wmi wpl e
    obtain ⟨m3, e3, er3⟩ := runFrom_cons_ok er2
    have whh' : isHHLineG hh = true := by
      unfold isPairableHHLine at whh; simp only [Bool.and_eq_true] at whh; exact whh.1
    obtain ⟨m3', e3', h3i, h3s, t3, n3⟩ := hh_line_step_st (cfg := cfg) h2 whh'
    rw [e3] at e3'; cases e3'
    have h3 := subHH_of h3i h3s whh
    obtain ⟨m4, e4, er4⟩ := runFrom_cons_ok er3
    obtain ⟨m4', e4', h4, t4, n4⟩ := sub_minus_step hc h3 wsm
    rw [e4] at e4'; cases e4'
    obtain ⟨m5, e5, er5⟩ := runFrom_cons_ok er4
    obtain ⟨m5', e5', h5, t5, n5⟩ := sub_plus_step hc h4 wsp
    rw [e5] at e5'; cases e5'
    simp only [runFrom] at er5
    cases er5
    refine ⟨inv_of_settled h5, ?_, ?_⟩
    · rw [facct_settled h5, t5, t4, t3, t2]; rfl
    · rw [n5, n4, n3, n2]; simp only [List.length_cons, List.length_nil]
  | submodule1 mi pl hh sl =>
    obtain ⟨wmi, wpl, whh, wsl⟩ := w
    simp only [Body.lines] at e ⊢
    obtain ⟨m2, h2, er2, n2, t2, f2, p2⟩ := named_prefix_run hc h wmi wpl e
    obtain ⟨m3, e3, er3⟩ := runFrom_cons_ok er2
    obtain ⟨m3', e3', h3i, h3s, t3, n3⟩ := hh_line_step_st (cfg := cfg) h2 whh
    rw [e3] at e3'; cases e3'
    obtain ⟨m4, e4, er4⟩ := runFrom_cons_ok er3
    obtain ⟨m4', e4', h4, t4, n4⟩ := lone_sub_step h3i h3s whh wsl ⟨m4, e4⟩
    rw [e4] at e4'; cases e4'
    simp only [runFrom] at er4
    cases er4
    refine ⟨inv_of_settled h4.settled, ?_, ?_⟩
    · rw [facct_settled h4.settled, t4, t3, t2]; rfl
    · rw [n4, n3, n2]; simp only [List.length_cons, List.length_nil]
  | bare =>
    simp only [Body.lines, runFrom] at e
    cases e
    refine ⟨inv_of_hdr h.toHdr, ?_, rfl⟩
    unfold facct
    rw [h.toHdr.pendRows, h.pendText]
    rfl
  | binary b =>
    obtain ⟨wb, wne⟩ := w
    simp only [Body.lines] at e ⊢
    obtain ⟨m1, e1, er1⟩ := runFrom_cons_ok e
    obtain ⟨m1', e1', h1, t1, n1⟩ := binary_step hc h wb wne
    rw [e1] at e1'; cases e1'
    simp only [runFrom] at er1
    cases er1
    refine ⟨inv_of_hdr h1.toHdr, ?_, by rw [n1]; rfl⟩
    unfold facct
    rw [h1.toHdr.pendRows, h1.pendText, t1, n1]
    rfl

/-- one file section: exactly one file row is written or becomes due -/
theorem file_sec_run {cfg : Cfg} (hc : FHC cfg) (f : FileSec) (w : f.WF) {m mf : M} (h : Pre m)
    (e : runFrom cfg m f.lines = .ok mf) :
    Inv f.body.late mf ∧ facct cfg mf = facct cfg m ++ [f.row cfg m.n] ∧ mf.n = m.n + f.lines.length := by
  unfold FileSec.lines at e
  obtain ⟨m1, e1, er1⟩ := runFrom_cons_ok e
  obtain ⟨m1', e1', h1, t1, n1⟩ := diff_line_step2 hc h w.d
  rw [e1] at e1'; cases e1'
  obtain ⟨m2, e2, er2⟩ := runFrom_append_ok er1
  obtain ⟨h2, t2, n2⟩ := modes_run hc f.modes h1 w.modes e2
  obtain ⟨m3, e3, er3⟩ := runFrom_append_ok er2
  obtain ⟨h3, t3, n3⟩ := noise_run2 hc f.noise h2 w.noise e3
  obtain ⟨h4, t4, n4⟩ := body_run hc f.body w.body h3 er3
  refine ⟨h4, ?_, ?_⟩
  · rw [t4, t3, t2, t1]
    unfold FileSec.row
    rw [n3, n2, n1]
  · unfold FileSec.lines
    rw [n4, n3, n2, n1]
    simp only [List.length_cons, List.length_append]
    omega

theorem logs_run {cfg : Cfg} : ∀ (ls : List L) {m mf : M}, SLog m → (∀ x ∈ ls, LogL x) → runFrom cfg m ls = .ok mf →
    SLog mf ∧ fileTL mf = fileTL m ∧ mf.n = m.n + ls.length
  | [], m, mf, h, _, e => by simp only [runFrom] at e; cases e; exact ⟨h, rfl, rfl⟩
  | l :: ls, m, mf, h, hl, e => by
    obtain ⟨m1, e1, er⟩ := runFrom_cons_ok e
    obtain ⟨m1', e1', h1, t1, n1⟩ := log_line_step (cfg := cfg) h (hl l (List.mem_cons_self ..))
    rw [e1] at e1'; cases e1'
    obtain ⟨h2, t2, n2⟩ := logs_run ls h1 (fun x hx => hl x (List.mem_cons_of_mem _ hx)) er
    exact ⟨h2, t2.trans t1, by rw [n2, n1, List.length_cons]; omega⟩

/-- one section -/
theorem sec2_run {cfg : Cfg} (hc : FHC cfg) (s : Sec2) (w : s.WF) {b : Bool} {m mf : M} (h : Inv b m)
    (e : runFrom cfg m s.lines = .ok mf) :
    Inv s.late mf ∧ facct cfg mf = facct cfg m ++ [s.row cfg m.n] ∧ mf.n = m.n + s.lines.length := by
  cases s with
  | file f => exact file_sec_run hc f w h.pre e
  | log s msgs =>
    obtain ⟨ws, wm⟩ := w
    simp only [Sec2.lines] at e ⊢
    obtain ⟨m1, e1, er1⟩ := runFrom_cons_ok e
    obtain ⟨m1', e1', h1, t1, n1⟩ := sublog_step hc h.pre ws
    rw [e1] at e1'; cases e1'
    obtain ⟨h2, t2, n2⟩ := logs_run msgs h1 wm er1
    refine ⟨⟨(fun e => by cases e), fun _ => h2.toSettled2⟩, ?_, by rw [n2, n1, List.length_cons]; omega⟩
    rw [show facct cfg mf = fileTL mf by unfold facct; rw [h2.toSettled2.pendRows]; simp, t2, t1]
    rfl

-- lists of sections --------------------------------------------------------------------------------

/-- the file rows of a list of sections whose first line is input line `k` -/
def rowsOf2 (cfg : Cfg) : Nat → List Sec2 → List Row
  | _, [] => []
  | k, s :: ss => s.row cfg k :: rowsOf2 cfg (k + s.lines.length) ss

def linesOf2 (secs : List Sec2) : List L := secs.flatMap Sec2.lines

theorem secs2_run {cfg : Cfg} (hc : FHC cfg) : ∀ (secs : List Sec2) {b : Bool} {m mf : M}, (∀ s ∈ secs, s.WF) →
    Inv b m → runFrom cfg m (linesOf2 secs) = .ok mf →
    (∃ b', Inv b' mf) ∧ facct cfg mf = facct cfg m ++ rowsOf2 cfg m.n secs
  | [], b, m, mf, _, h, e => by
    simp only [linesOf2, List.flatMap_nil, runFrom] at e; cases e; exact ⟨⟨b, h⟩, by simp [rowsOf2]⟩
  | s :: ss, b, m, mf, w, h, e => by
    have hl : linesOf2 (s :: ss) = s.lines ++ linesOf2 ss := by simp [linesOf2]
    rw [hl] at e
    obtain ⟨m1, e1, er1⟩ := runFrom_append_ok e
    obtain ⟨h1, t1, n1⟩ := sec2_run hc s (w s (List.mem_cons_self ..)) h e1
    obtain ⟨h2, t2⟩ := secs2_run hc ss (fun x hx => w x (List.mem_cons_of_mem _ hx)) h1 er1
    exact ⟨h2, by rw [t2, t1, n1]; simp [rowsOf2]⟩

/-- the tail of `consume` writes exactly the header that is due -/
theorem finish_facct {cfg : Cfg} (hc : FHC cfg) {m mf : M} (h : Pre m) (e : finish cfg m = .ok mf) :
    fileTL mf = facct cfg m := by
  unfold finish at e
  simp only [Generated.Markers.consumeTail, tailOps, tailOp] at e
  cases e
  obtain ⟨f1, f2, f3, f4, f5, f6, f7, f8, f9⟩ := flushMP_hfields m
  have hpend : ((flushMP m).modeInfo = [] ∧ (flushMP m).handledPair = (flushMP m).currentPair) ∨
      ((flushMP m).st = .diffHeader .unified ∧ (flushMP m).source = .gitDiff) := by
    rcases h.pend with ⟨a, b⟩ | ⟨a, b⟩
    · exact Or.inl ⟨by rw [f3]; exact a, by rw [f7, f8]; exact b⟩
    · exact Or.inr ⟨by rw [flushMP_st]; exact a, by rw [flushMP_source]; exact b⟩
  obtain ⟨_, pt⟩ := pendingDiffName_acct hc (flushMP m) hpend (by simp) (by simp)
  rw [fileTL_emit, pt, fileTL_flushMP, pendRows_congr f1 f2 f3 f4 f5 f6 f7 f8 f9]
  rfl

/-- **One file header per section, every kind of section** (whole runs). -/
theorem run_one_file_row_per_section2 {cfg : Cfg} (hc : FHC cfg) (secs : List Sec2) (w : ∀ s ∈ secs, s.WF)
    {m : M} (e : run cfg (linesOf2 secs) = .ok m) :
    m.out.filter (fun r => r.kind == .file) = rowsOf2 cfg 0 secs := by
  have hout := (run_spec e).2
  unfold run at e
  split at e
  · cases e
  · rename_i m1 e1
    have h0 : Inv false ({} : M) := ⟨(fun e => by cases e), fun _ => settled2_init⟩
    obtain ⟨⟨b', h1⟩, t1⟩ := secs2_run hc secs w h0 e1
    have hf := finish_facct hc h1.pre e
    have : m.out.filter (fun r => r.kind == .file) = fileTL m := by rw [← hout]; rfl
    rw [this, hf, t1]
    simp [facct, fileTL, timeline, pendRows]

theorem rowsOf2_length (cfg : Cfg) : ∀ (k : Nat) (secs : List Sec2), (rowsOf2 cfg k secs).length = secs.length
  | _, [] => rfl
  | k, s :: ss => by simp [rowsOf2, rowsOf2_length cfg (k + s.lines.length) ss]

end Machine
