import DeltaModel.MachineRaw
import Proofs.Machine.RawIndependence3
import Proofs.AnsiGit
import Proofs.RawLineCallers
/-!
The whole-run noninterference theorem (`Machine.run_rel`) composed with the byte-level theorems about
git's colouring (`strip (coloured) = plain`, `Proofs/AnsiGit.lean`) and with the decision of
`maybe_raw_line` (`DeltaModel/RawLineCallers.lean`): `MachineRaw.runBytes` on a diff and on any git
colouring of it.
-/
set_option linter.unusedVariables false
set_option linter.unusedSimpArgs false
namespace MachineRaw
open Machine Ansi

/-- line by line, `coloured` is `plain` with SGR sequences inserted between characters -/
inductive GitColouringAll : List Bytes → List Bytes → Prop
  | nil : GitColouringAll [] []
  | cons {p q : Bytes} {ps qs : List Bytes} : GitColouring p q → GitColouringAll ps qs →
      GitColouringAll (p :: ps) (q :: qs)

theorem strip_plain_of_gitColouring {p q : Bytes} (h : GitColouring p q) : strip p = .ok p := by
  obtain ⟨ts, hwf, hb, hp⟩ := gitColouring_plain_tokens h
  have := strip_tokens ts hwf
  rw [hb, hp] at this
  exact this

theorem strip_coloured_of_gitColouring {p q : Bytes} (h : GitColouring p q) : strip q = .ok p := by
  obtain ⟨ts, hwf, hb, hp⟩ := gitColouring_tokens h
  rw [← hb, ← hp]; exact strip_tokens ts hwf

variable (dec : Bytes → Headers.Str) (facts : Headers.Str → Facts)

/-- a line and a git colouring of it are ingested to machine lines that agree in everything but `raw` -/
theorem ingestLine_git {p q : Bytes} (h : GitColouring p q) :
    ∃ lp lq, ingestLine dec facts p = .ok lp ∧ ingestLine dec facts q = .ok lq ∧ Agree lp lq ∧
      lp.raw = dec p ∧ lq.raw = dec q := by
  unfold ingestLine
  rw [strip_plain_of_gitColouring h, strip_coloured_of_gitColouring h]
  exact ⟨_, _, rfl, rfl, ⟨rfl, rfl, rfl, rfl, rfl, rfl⟩, rfl, rfl⟩

/-- the decoded raw line of input line `k` (`[]` beyond the end) -/
def decAt (lines : List Bytes) (k : Nat) : Headers.Str := ((lines[k]?).map dec).getD []

theorem ingestAll_git : ∀ {ps qs : List Bytes}, GitColouringAll ps qs →
    ∃ lps lqs, ingestAll dec facts ps = .ok lps ∧ ingestAll dec facts qs = .ok lqs ∧ AgreeAll lps lqs ∧
      lps.map L.raw = ps.map dec ∧ lqs.map L.raw = qs.map dec
  | _, _, .nil => ⟨[], [], rfl, rfl, .nil, rfl, rfl⟩
  | _, _, .cons (p := p) (q := q) (ps := ps) (qs := qs) h hrest => by
    obtain ⟨lp, lq, e1, e2, ha, r1, r2⟩ := ingestLine_git dec facts h
    obtain ⟨lps, lqs, f1, f2, hall, s1, s2⟩ := ingestAll_git hrest
    refine ⟨lp :: lps, lq :: lqs, ?_, ?_, .cons ha hall, ?_, ?_⟩
    · simp only [ingestAll, e1, f1]
    · simp only [ingestAll, e2, f2]
    · simp [r1, s1]
    · simp [r2, s2]

theorem rawAt_eq_decAt {ls : List L} {bs : List Bytes} (h : ls.map L.raw = bs.map dec) :
    rawAt ls = decAt dec bs := by
  funext k
  have := congrArg (fun x => (x[k]?).getD []) h
  simpa [rawAt, decAt, List.getElem?_map] using this

/-- rows with their colour source, pairwise: the rows are related (`RowRel`) and the colour source is the same -/
inductive PairsRel (ρ ρ' : Nat → Headers.Str) (tab : Nat) :
    List (Row × Option Bool) → List (Row × Option Bool) → Prop
  | nil : PairsRel ρ ρ' tab [] []
  | cons {p p' : Row × Option Bool} {ps ps' : List (Row × Option Bool)} :
      RowRel ρ ρ' tab p.1 p'.1 → p'.2 = p.2 → PairsRel ρ ρ' tab ps ps' → PairsRel ρ ρ' tab (p :: ps) (p' :: ps')

theorem rowKeepsRaw_congr (rc : RawCfg) (cfg : Cfg) (combined : Bool) (at' : Nat → Bytes) {r r' : Row}
    (hk : r'.kind = r.kind) (hs : r'.src = r.src) :
    rowKeepsRaw rc cfg combined at' r' = rowKeepsRaw rc cfg combined at' r := by
  unfold rowKeepsRaw; rw [hk, hs]

theorem pairsRel_of_rowsRel {ρ ρ' : Nat → Headers.Str} {tab : Nat} (rc : RawCfg) (cfg : Cfg) (combined : Bool)
    (atP atQ : Nat → Bytes) : ∀ {rows rows' : List Row}, RowsRel ρ ρ' tab rows rows' →
    (∀ r ∈ rows, rowKeepsRaw rc cfg combined atQ r = rowKeepsRaw rc cfg combined atP r) →
    PairsRel ρ ρ' tab (rows.map fun r => (r, rowKeepsRaw rc cfg combined atP r))
      (rows'.map fun r => (r, rowKeepsRaw rc cfg combined atQ r))
  | _, _, .nil, _ => .nil
  | _, _, .cons (r := r) (r' := r') hr hrest, hd => by
    refine .cons hr ?_ (pairsRel_of_rowsRel rc cfg combined atP atQ hrest (fun x hx => hd x (List.mem_cons_of_mem _ hx)))
    show rowKeepsRaw rc cfg combined atQ r' = rowKeepsRaw rc cfg combined atP r
    rw [rowKeepsRaw_congr rc cfg combined atQ hr.kind hr.src]
    exact hd r (List.mem_cons_self)

/-- **A diff and any git colouring of it, whole runs.** Both runs end in the same error, or produce outputs whose
rows are related pairwise; if the colour source decided for every hunk row's line is the same for the coloured as
for the plain line (`hdef`; the per-line theorems of `Props/C08.lean` say when: git's built-in or configured
colours on removed / added lines, no colour on unchanged lines), the colour sources are the same as well. -/
theorem runBytes_git (rc : RawCfg) (cfg : Cfg) (combined : Bool) {ps qs : List Bytes} (hc : GitColouringAll ps qs)
    (hdef : ∀ rows, runBytes rc cfg combined dec facts ps = .ok rows → ∀ p ∈ rows,
      rowKeepsRaw rc cfg combined (bytesAt qs) p.1 = p.2) :
    ERel (PairsRel (decAt dec ps) (decAt dec qs) cfg.tab)
      (runBytes rc cfg combined dec facts ps) (runBytes rc cfg combined dec facts qs) := by
  obtain ⟨lps, lqs, f1, f2, hall, s1, s2⟩ := ingestAll_git dec facts hc
  have hr := run_rel cfg hall
  rw [rawAt_eq_decAt dec s1, rawAt_eq_decAt dec s2] at hr
  have hdef' := hdef
  unfold runBytes at hdef' ⊢
  rw [f1] at hdef'
  rw [f1, f2]
  simp only [] at hdef' ⊢
  revert hr hdef'
  cases Machine.run cfg lps <;> cases Machine.run cfg lqs <;> intro hr hdef'
  · exact hr
  · exact hr.elim
  · exact hr.elim
  · rename_i m m'
    simp only [] at hdef' ⊢
    refine pairsRel_of_rowsRel rc cfg combined (bytesAt ps) (bytesAt qs) hr ?_
    intro r hmem
    exact hdef' _ rfl (r, rowKeepsRaw rc cfg combined (bytesAt ps) r) (List.mem_map.mpr ⟨r, hmem, rfl⟩)

end MachineRaw
