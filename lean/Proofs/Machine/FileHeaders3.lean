import Proofs.Machine.FileHeaders2
/-!
Whole-run file headers (C14), part 3: submodule sections.

* short form: an ordinary section whose only hunk is `-Subproject commit <old>` / `+Subproject commit <new>`
  (`handle_submodule_short_line` pairs the two lines and writes `<old>..<new>`; no hunk-header row);
* log form (`git diff --submodule=log`): a `Submodule <path> <old>..<new>:` line, which delta writes as
  a file header, followed by the log lines, which pass through unchanged.
-/
set_option linter.unusedSimpArgs false
set_option linter.unusedVariables false
namespace Machine
open Headers Generated

-- short form ------------------------------------------------------------------------------------

/-- a hunk-header line whose hunk has lines on the side of the new file -/
def isPairableHHLine (l : L) : Bool :=
  isHHLineG l && (match parseHunkHeader l.text with
    | some hh => !newSideEmpty hh
    | none => false)

/-- the `-Subproject commit <40 hex>` / `+Subproject commit <40 hex>` line -/
def isSubMinusLine (l : L) : Bool :=
  startsWith l.text Markers.submoduleShortMinus && l.submodule.isSome && !l.commitRe
def isSubPlusLine (l : L) : Bool :=
  startsWith l.text Markers.submoduleShortPlus && l.submodule.isSome && !l.commitRe

/-- the hunk header of a short submodule section is pending -/
structure SubHH (m : M) : Prop where
  st : ∃ hh line raw src, m.st = .hunkHeader .unified hh line raw src ∧ newSideEmpty hh = false
  src : m.source = .gitDiff
  cnt : m.counter ≤ -4096
  mode : m.modeInfo = []
  pair : m.handledPair = m.currentPair
  good : Good m

/-- the state a hunk-header line leaves behind: its parsed header is pending -/
def HHSt (m : M) (l : L) : Prop :=
  ∃ hh src, parseHunkHeader l.text = some hh ∧ m.st = .hunkHeader .unified hh l.text l.raw src

/-- (E') the first hunk-header line of a section, after the line naming the new file; the state is exposed -/
theorem hh_line_step_st {cfg : Cfg} {m : M} {l : L} (h : AfterPlus m) (hl : isHHLineG l = true) :
    ∃ m', step cfg m l = .ok m' ∧ InHunk m' ∧ HHSt m' l ∧ fileTL m' = fileTL m ∧ m'.n = m.n + 1 := by
  unfold isHHLineG at hl
  simp only [Bool.and_eq_true, Bool.not_eq_true'] at hl
  obtain ⟨hhl, hcr⟩ := hl
  have hhl' := hhl
  unfold isHHLine at hhl'
  simp only [Bool.and_eq_true] at hhl'
  obtain ⟨hsw, hparse⟩ := hhl'
  obtain ⟨rest, ht⟩ := text_of_hh hsw
  have hnm : isMergeConflict m.st = false := by rw [h.st]; rfl
  have e1 := handleCommitMeta_not_mine cfg m l hcr
  have e2 : handleDiffStat cfg m l = .ok (false, m) := rfl
  have e3 := handleDiffHeaderDiff_not_mine cfg m l (startsWith_false_of_head ht (d := 'd') rfl (by decide))
  have e4 := handleFileOperation_not_mine cfg m l
    (by simp [startsWithAny, Generated.Markers.fileOperationLine, startsWith, ht, List.isPrefixOf])
  have e5 := handleMinusLine_not_mine cfg m l
    (by simp [minusLineTest, startsWithAny, Generated.Markers.minusLine, startsWith, ht, List.isPrefixOf])
  have e6 := handlePlusLine_not_mine cfg m l
    (by simp [plusLineTest, startsWithAny, Generated.Markers.plusLine, startsWith, ht, List.isPrefixOf])
  cases hp : parseHunkHeader l.text with
  | none => rw [hp] at hparse; cases hparse
  | some hh =>
    have hcounter : hunkHeaderCounter m hh = m.counter := by
      unfold hunkHeaderCounter
      have : ¬ (m.counter > -4096) := by have := h.cnt; omega
      simp [this]
    have e7 : handleHunkHeader cfg m l =
        .ok (true, { m with counter := m.counter, st := .hunkHeader .unified hh l.text l.raw m.n }) := by
      unfold handleHunkHeader
      simp only [hsw, hnm, Bool.not_false, Bool.and_self, Bool.not_true, Bool.false_eq_true, if_false, hp, hcounter,
        hunkHeaderDiffType_unified l (Or.inl h.st)]
    have ec : chain cfg l Generated.handlerOrder m =
        .ok { m with counter := m.counter, st := .hunkHeader .unified hh l.text l.raw m.n } := by
      rw [handlerOrder_split, chain_skip (by rfl) e1, chain_skip (by rfl) e2, chain_skip (by rfl) e3, chain_skip (by rfl) e4,
        chain_skip (by rfl) e5, chain_skip (by rfl) e6]
      simp only [tailNames, Generated.handlerOrder, List.drop, chain, handlerOf, e7]
    have g' := (chain_step _ ec h.good).good
    refine ⟨{ m with counter := m.counter, st := .hunkHeader .unified hh l.text l.raw m.n, n := m.n + 1 }, ?_, ?_, ?_, ?_, rfl⟩
    · unfold step; rw [stepInit_git l h.src, ec]
    · exact ⟨rfl, rfl, h.src, h.cnt, h.mode, h.pair, ⟨g'.order, g'.quiet, g'.noPlus⟩⟩
    · exact ⟨hh, m.n, hp, rfl⟩
    · exact fileTL_congr rfl

theorem subHH_of {m : M} {l : L} (h : InHunk m) (hs : HHSt m l) (hp : isPairableHHLine l = true) : SubHH m := by
  obtain ⟨hh, src, hparse, hst⟩ := hs
  unfold isPairableHHLine at hp
  simp only [Bool.and_eq_true, hparse, Bool.not_eq_true'] at hp
  exact ⟨⟨hh, l.text, l.raw, src, hst, hp.2⟩, h.src, h.cnt, h.mode, h.pair, h.good⟩

/-- the handlers before `handle_submodule_short_line` decline a line whose first character is `-` or
`+` when the machine is not in the header part of a section -/
theorem sub_prefix (cfg : Cfg) (m : M) {l : L} {c : Char} {rest : Str} (ht : l.text = c :: rest)
    (hc : c = '-' ∨ c = '+') (hcr : l.commitRe = false) (hnd : isDiffHeader m.st = false) (hsrc : m.source = .gitDiff) :
    chain cfg l Generated.handlerOrder m = chain cfg l (Generated.handlerOrder.drop 10) m := by
  have hlt : headerLineTest m = false := by simp [headerLineTest, hnd, hsrc]
  have hb : firstIs l isMarker := ⟨c, rest, ht, by rcases hc with h | h <;> subst h <;> rfl⟩
  have e1 := handleCommitMeta_not_mine cfg m l hcr
  have e3 := handleDiffHeaderDiff_not_mine cfg m l (body_not_startsWith hb (d := 'd') rfl rfl)
  have e4 := handleFileOperation_not_mine cfg m l (by simp [hlt])
  have e5 := handleMinusLine_not_mine cfg m l (by simp [minusLineTest, hlt])
  have e6 := handlePlusLine_not_mine cfg m l (by simp [plusLineTest, hnd])
  have e7 := handleHunkHeader_not_mine cfg m l (body_not_startsWith hb (d := '@') rfl rfl)
  have e8 := handleModeLine_not_mine cfg m l (body_not_startsWith hb (d := 'o') rfl rfl)
    (body_not_startsWith hb (d := 'n') rfl rfl)
  have e9 := handleMisc_not_mine cfg m l (body_not_startsWith hb (d := 'O') rfl rfl)
    (body_not_startsWith hb (d := 'B') rfl rfl)
  have e10 := handleSubmoduleLog_not_mine cfg m l (body_not_startsWith hb (d := 'S') rfl rfl)
  simp only [Generated.handlerOrder, chain, handlerOf, e1, handleDiffStat, e3, e4, e5, e6, e7, e8, e9, e10, List.drop]

/-- the old commit of a short submodule section has been read -/
structure SubMid (m : M) : Prop where
  st : ∃ c, m.st = .submoduleShort c
  src : m.source = .gitDiff
  cnt : m.counter ≤ -4096
  mode : m.modeInfo = []
  pair : m.handledPair = m.currentPair
  good : Good m

/-- (S) the `-Subproject commit` line right after the hunk header: remembered, nothing written -/
theorem sub_minus_step {cfg : Cfg} (hc : FHC cfg) {m : M} {l : L} (h : SubHH m) (hl : isSubMinusLine l = true) :
    ∃ m', step cfg m l = .ok m' ∧ SubMid m' ∧ fileTL m' = fileTL m ∧ m'.n = m.n + 1 := by
  unfold isSubMinusLine at hl
  simp only [Bool.and_eq_true, Bool.not_eq_true'] at hl
  obtain ⟨⟨hsw, hsome⟩, hcr⟩ := hl
  obtain ⟨hh, line, raw, src, hst, hpairable⟩ := h.st
  obtain ⟨rest, ht⟩ := startsWith_split hsw
  have ht' : l.text = '-' :: ("Subproject commit ".toList ++ rest) := by rw [ht]; rfl
  have hnd : isDiffHeader m.st = false := by rw [hst]; rfl
  cases hsub : l.submodule with
  | none => rw [hsub] at hsome; cases hsome
  | some commit =>
    have e11 : handleSubmoduleShort cfg m l = .ok (true, { m with st := .submoduleShort commit }) := by
      unfold handleSubmoduleShort submoduleShortTest
      simp [hst, pairableHunkHeader, hpairable, hsw, hc.notCO, hsub]
    have ec : chain cfg l Generated.handlerOrder m = .ok { m with st := .submoduleShort commit } := by
      rw [sub_prefix cfg m ht' (Or.inl rfl) hcr hnd h.src]
      simp only [Generated.handlerOrder, List.drop, chain, handlerOf, e11]
    have g := (chain_step _ ec h.good).good
    refine ⟨{ m with st := .submoduleShort commit, n := m.n + 1 }, ?_, ?_, fileTL_congr rfl, rfl⟩
    · unfold step; rw [stepInit_git l h.src, ec]
    · exact ⟨⟨commit, rfl⟩, h.src, h.cnt, h.mode, h.pair, ⟨g.order, g.quiet, g.noPlus⟩⟩

/-- (S') the `+Subproject commit` line: the commit range is written, no file row -/
theorem sub_plus_step {cfg : Cfg} (hc : FHC cfg) {m : M} {l : L} (h : SubMid m) (hl : isSubPlusLine l = true) :
    ∃ m', step cfg m l = .ok m' ∧ Settled m' ∧ fileTL m' = fileTL m ∧ m'.n = m.n + 1 := by
  unfold isSubPlusLine at hl
  simp only [Bool.and_eq_true, Bool.not_eq_true'] at hl
  obtain ⟨⟨hsw, hsome⟩, hcr⟩ := hl
  obtain ⟨c0, hst⟩ := h.st
  obtain ⟨rest, ht⟩ := startsWith_split hsw
  have ht' : l.text = '+' :: ("Subproject commit ".toList ++ rest) := by rw [ht]; rfl
  have hnd : isDiffHeader m.st = false := by rw [hst]; rfl
  cases hsub : l.submodule with
  | none => rw [hsub] at hsome; cases hsome
  | some commit =>
    obtain ⟨z, hz⟩ : ∃ z, z = direct (emit (flushMP m))
        [{ kind := RowKind.submodule, text := c0.take 12 ++ ['.', '.'] ++ commit.take 12, src := m.n }] := ⟨_, rfl⟩
    have e11 : handleSubmoduleShort cfg m l = .ok (true, z) := by
      rw [hz]
      unfold handleSubmoduleShort submoduleShortTest
      simp [hst, pairableHunkHeader, hsw, hc.notCO, hsub]
    have ec : chain cfg l Generated.handlerOrder m = .ok z := by
      rw [sub_prefix cfg m ht' (Or.inr rfl) hcr hnd h.src]
      simp only [Generated.handlerOrder, List.drop, chain, handlerOf, e11]
    have g := (chain_step _ ec h.good).good
    obtain ⟨d1, d2, d3, _, _, _⟩ := direct_keeps (emit (flushMP m))
      [{ kind := RowKind.submodule, text := c0.take 12 ++ ['.', '.'] ++ commit.take 12, src := m.n }]
    obtain ⟨f1, f2, f3, _, _, _⟩ := flushMP_keeps m
    rw [← hz] at d1 d2 d3
    refine ⟨{ z with n := z.n + 1 }, ?_, ?_, ?_, ?_⟩
    · unfold step; rw [stepInit_git l h.src, ec]
    · refine ⟨Or.inl ?_, ?_, ?_, ?_, ⟨g.order, g.quiet, g.noPlus⟩⟩
      · show z.source = .gitDiff
        rw [hz, direct_source, emit_source, flushMP_source]; exact h.src
      · show z.counter ≤ -4096
        rw [d1]; show (flushMP m).counter ≤ -4096; rw [f1]; exact h.cnt
      · show z.modeInfo = []
        rw [hz, direct_modeInfo, emit_modeInfo, flushMP_modeInfo]; exact h.mode
      · show z.handledPair = z.currentPair
        rw [d2, d3]; show (flushMP m).handledPair = (flushMP m).currentPair; rw [f2, f3]; exact h.pair
    · show fileTL z = fileTL m
      unfold fileTL
      rw [hz, timeline_direct_flushed, List.filter_append]
      simp
    · show z.n + 1 = m.n + 1
      rw [hz]; simp

-- an added or removed submodule: a single `Subproject commit` line, an ordinary hunk line ------------

/-- a line of a hunk that `handle_submodule_short_line` does not claim is claimed by `handle_hunk_line` -/
theorem hunk_line_claimed_nosub (cfg : Cfg) (m : M) (l : L)
    (hsrc : m.source = .gitDiff) (hst : isHunkState m.st = true) (hun : hunkCombinedParents m.st = none)
    (hb : firstIs l isMarker) (hc : l.commitRe = false) (htest : submoduleShortTest m l = false) :
    chain cfg l Generated.handlerOrder m =
      (match handleHunkLine cfg m l with
       | .ok (_, m') => .ok m'
       | .error e => .error e) := by
  have hnd : isDiffHeader m.st = false := by
    cases hs : m.st <;> simp [hs, isHunkState, isDiffHeader] at hst ⊢
  have hnm : isMergeConflict m.st = false := by
    cases hs : m.st <;> simp [hs, isHunkState, isMergeConflict] at hst ⊢
  have hlt : headerLineTest m = false := by simp [headerLineTest, hnd, hsrc]
  have e1 := handleCommitMeta_not_mine cfg m l hc
  have e3 := handleDiffHeaderDiff_not_mine cfg m l (body_not_startsWith hb (d := 'd') rfl rfl)
  have e4 := handleFileOperation_not_mine cfg m l (by simp [hlt])
  have e5 := handleMinusLine_not_mine cfg m l (by simp [minusLineTest, hlt])
  have e6 := handlePlusLine_not_mine cfg m l (by simp [plusLineTest, hnd])
  have e7 := handleHunkHeader_not_mine cfg m l (body_not_startsWith hb (d := '@') rfl rfl)
  have e8 := handleModeLine_not_mine cfg m l (body_not_startsWith hb (d := 'o') rfl rfl)
    (body_not_startsWith hb (d := 'n') rfl rfl)
  have e9 := handleMisc_not_mine cfg m l (body_not_startsWith hb (d := 'O') rfl rfl)
    (body_not_startsWith hb (d := 'B') rfl rfl)
  have e10 := handleSubmoduleLog_not_mine cfg m l (body_not_startsWith hb (d := 'S') rfl rfl)
  have e11 : handleSubmoduleShort cfg m l = .ok (false, m) := by
    unfold handleSubmoduleShort; simp [htest]
  have e12 := handleMergeConflict_not_mine cfg m l hun hnm
  simp only [Generated.handlerOrder, chain, handlerOf, e1, handleDiffStat, e3, e4, e5, e6, e7, e8, e9, e10, e11, e12]
  unfold handleHunkLine
  simp only [hst, Bool.not_true, Bool.false_eq_true, if_false]
  cases hunkLinePre cfg m with
  | error e => rfl
  | ok m2 =>
    simp only
    cases hunkLinePush cfg m2 l with
    | error e => rfl
    | ok m3 => rfl

/-- (F') a line of a hunk that `handle_hunk_line` claims: no file row is written -/
theorem hunk_line_step_claimed {cfg : Cfg} {m : M} {l : L} (h : InHunk m) (hb : firstIs l isMarker)
    (hclaim : chain cfg l Generated.handlerOrder m =
      (match handleHunkLine cfg m l with
       | .ok (_, m') => .ok m'
       | .error e => .error e))
    (hok : ∃ x, step cfg m l = .ok x) :
    ∃ m', step cfg m l = .ok m' ∧ InHunk m' ∧ fileTL m' = fileTL m ∧ m'.n = m.n + 1 := by
  obtain ⟨x, ex⟩ := hok
  have ex' := ex
  unfold step at ex'
  rw [stepInit_git l h.src, hclaim] at ex'
  cases hh : handleHunkLine cfg m l with
  | error err => simp [hh] at ex'
  | ok p =>
    obtain ⟨b, m2⟩ := p
    simp only [hh] at ex'
    cases ex'
    have hh' := hh
    unfold handleHunkLine at hh'
    simp only [h.st, Bool.not_true, Bool.false_eq_true, if_false] at hh'
    cases e2 : hunkLinePre cfg m with
    | error err => simp [e2] at hh'
    | ok ma =>
      simp only [e2] at hh'
      cases e3 : hunkLinePush cfg ma l with
      | error err => simp [e3] at hh'
      | ok mb =>
        simp only [e3] at hh'
        cases hh'
        obtain ⟨r2, hst2, hhdr, _, _⟩ := hunkLinePre_spec e2 h.good
        obtain ⟨k2, pre, htl2, hnf⟩ := hunkLinePre_keep e2
        have hdt2 : hunkDiffType ma.st = some .unified := by rw [hst2]; exact h.dt
        obtain ⟨k3, hst3, hdt3⟩ := hunkLinePush_unified_keep hdt2 hb e3
        have hplus : isHunkPlus ma.st = false → ma.plus = [] := by
          intro hnp
          rw [hst2] at hnp
          rcases isHunkState_cases h.st with hq | ⟨dt, hq⟩ | ⟨dt, hq⟩ | ⟨dt, hq⟩
          · exact (hhdr hq).2
          · have := (h.good.quiet (by rw [hq]; rfl)).2
            rcases r2.shrink.2 with s | s <;> simp [s, this]
          · have := h.good.noPlus (by rw [hq]; rfl)
            rcases r2.shrink.2 with s | s <;> simp [s, this]
          · rw [hq] at hnp; simp [isHunkPlus] at hnp
        have htl3 := hunkLinePush_unified hdt2 hb e3 hplus
        have k := k2.trans k3
        have gx := (step_spec ex h.good).1
        refine ⟨_, ex, ⟨hst3, hdt3, k.src.trans h.src, Int.le_trans k.cnt h.cnt, k.mode.trans h.mode,
          by show mb.handledPair = mb.currentPair; rw [k.hp, k.cp]; exact h.pair, gx⟩, ?_, ?_⟩
        · show fileTL (emit mb) = fileTL m
          rw [fileTL_emit]
          unfold fileTL
          rw [htl3, htl2, List.filter_append, List.filter_append]
          have h1 : pre.filter (fun r => r.kind == .file) = [] := by
            rw [List.filter_eq_nil_iff]
            intro r hr; simp [hnf r hr]
          have h2 : [expectedRow cfg l ma.n].filter (fun r => r.kind == .file) = [] := by
            have := expectedRow_body cfg l ma.n
            cases hk : (expectedRow cfg l ma.n).kind <;> simp_all [isBody]
          rw [h1, h2]; simp
        · exact (step_spec ex h.good).2.2.2

/-- the single `Subproject commit` line of an added submodule (`+`), or of a removed one (`-`, after a hunk
header whose new side is empty) -/
def isLoneSubLine (hh sl : L) : Bool :=
  !sl.commitRe &&
    (startsWith sl.text Markers.submoduleShortPlus ||
      (startsWith sl.text Markers.submoduleShortMinus && !isPairableHHLine hh))

/-- (S″) such a line right after its hunk header is an ordinary hunk line: no file row -/
theorem lone_sub_step {cfg : Cfg} {m : M} {hh l : L} (h : InHunk m) (hs : HHSt m hh) (hg : isHHLineG hh = true)
    (hl : isLoneSubLine hh l = true) (hok : ∃ x, step cfg m l = .ok x) :
    ∃ m', step cfg m l = .ok m' ∧ InHunk m' ∧ fileTL m' = fileTL m ∧ m'.n = m.n + 1 := by
  unfold isLoneSubLine at hl
  simp only [Bool.and_eq_true, Bool.not_eq_true', Bool.or_eq_true] at hl
  obtain ⟨hcr, hcase⟩ := hl
  obtain ⟨ph, src, hparse, hst⟩ := hs
  have hun : hunkCombinedParents m.st = none := by rw [hst]; rfl
  have hfirst_test : firstIs l isMarker ∧ submoduleShortTest m l = false := by
    rcases hcase with hp | ⟨hmn, hnp⟩
    · obtain ⟨rest, ht⟩ := startsWith_split hp
      have ht' : l.text = '+' :: ("Subproject commit ".toList ++ rest) := by rw [ht]; rfl
      refine ⟨⟨'+', _, ht', rfl⟩, ?_⟩
      unfold submoduleShortTest
      simp [hst, ht', startsWith, Markers.submoduleShortMinus, List.isPrefixOf]
    · obtain ⟨rest, ht⟩ := startsWith_split hmn
      have ht' : l.text = '-' :: ("Subproject commit ".toList ++ rest) := by rw [ht]; rfl
      refine ⟨⟨'-', _, ht', rfl⟩, ?_⟩
      unfold isPairableHHLine at hnp
      simp only [hg, hparse, Bool.true_and, Bool.not_eq_false'] at hnp
      unfold submoduleShortTest
      simp [hst, pairableHunkHeader, hnp]
  exact hunk_line_step_claimed h hfirst_test.1
    (hunk_line_claimed_nosub cfg m l h.src h.st hun hfirst_test.1 hcr hfirst_test.2) hok

-- log form -------------------------------------------------------------------------------------

/-- the `Submodule <path> <old>..<new>:` line -/
def isSubmoduleLogLine (l : L) : Bool := startsWith l.text Markers.submoduleLog && !l.commitRe

/-- a line of the submodule log (`  > subject`, `  < subject`): first character blank, not a commit line -/
def LogL (l : L) : Prop := firstIs l (fun c => c = ' ') ∧ l.commitRe = false

/-- after the `Submodule …:` line or one of its log lines -/
structure SLog (m : M) : Prop extends Settled2 m where
  st : m.st = .submoduleLog

theorem stepInit_undetected {m : M} {l : L} (hs : m.source = .unknown) (hd : detectSource l.text = .unknown) :
    stepInit m l = m := by
  unfold stepInit armCounter
  simp only [hs, hd, if_true, Markers.prepareToCount, reduceCtorEq, if_false]
  cases m
  simp_all

theorem submoduleLog_facts {l : L} (h : startsWith l.text Markers.submoduleLog = true) :
    startsWith l.text Markers.diffLine = false ∧ startsWithAny l.text Markers.fileOperationLine = false ∧
      startsWithAny l.text Markers.minusLine = false ∧ startsWithAny l.text Markers.plusLine = false ∧
      startsWith l.text Markers.hunkHeader = false ∧ startsWith l.text Markers.oldMode = false ∧
      startsWith l.text Markers.newMode = false ∧ startsWith l.text Markers.onlyIn = false ∧
      startsWith l.text Markers.binaryFiles = false ∧ detectSource l.text = .unknown := by
  obtain ⟨rest, ht⟩ := startsWith_split h
  refine ⟨by simp [ht, startsWith, Markers.diffLine, Markers.submoduleLog, List.isPrefixOf],
    by simp [ht, startsWithAny, startsWith, Markers.fileOperationLine, Markers.submoduleLog, List.isPrefixOf],
    by simp [ht, startsWithAny, startsWith, Markers.minusLine, Markers.submoduleLog, List.isPrefixOf],
    by simp [ht, startsWithAny, startsWith, Markers.plusLine, Markers.submoduleLog, List.isPrefixOf],
    by simp [ht, startsWith, Markers.hunkHeader, Markers.submoduleLog, List.isPrefixOf],
    by simp [ht, startsWith, Markers.oldMode, Markers.submoduleLog, List.isPrefixOf],
    by simp [ht, startsWith, Markers.newMode, Markers.submoduleLog, List.isPrefixOf],
    by simp [ht, startsWith, Markers.onlyIn, Markers.submoduleLog, List.isPrefixOf],
    by simp [ht, startsWith, Markers.binaryFiles, Markers.submoduleLog, List.isPrefixOf],
    by simp [ht, detectSource, startsWithAny, startsWith, Generated.gitDiffPrefixes, Generated.diffUnifiedPrefixes,
      Markers.submoduleLog, List.isPrefixOf]⟩

/-- (L) the `Submodule …:` line: the header that is due for the section before it (if any) is written first
(`handle_pending_line_with_diff_name` at the top of `handle_submodule_log_line`), then the line itself as a
file header -/
theorem sublog_step {cfg : Cfg} (hc : FHC cfg) {m : M} {l : L} (h : Pre m) (hl : isSubmoduleLogLine l = true) :
    ∃ m', step cfg m l = .ok m' ∧ SLog m' ∧
      fileTL m' = facct cfg m ++ [{ kind := .file, text := fileRowText cfg l.text, src := m.n }] ∧ m'.n = m.n + 1 := by
  unfold isSubmoduleLogLine at hl
  simp only [Bool.and_eq_true, Bool.not_eq_true'] at hl
  obtain ⟨hsw, hcr⟩ := hl
  obtain ⟨hdiff, hfo, hmn, hpl, hhh, hom, hnm, hoi, hbin, hdet⟩ := submoduleLog_facts hsw
  have hinit : stepInit m l = m := by
    rcases h.src with hs | hs
    · exact stepInit_git l hs
    · exact stepInit_undetected hs hdet
  have e7 := handleHunkHeader_not_mine cfg m l hhh
  have e8 := handleModeLine_not_mine cfg m l hom hnm
  have e9 := handleMisc_not_mine cfg m l hoi hbin
  -- the pending header of the section before
  obtain ⟨f1, f2, f3, f4, f5, f6, f7, f8, f9⟩ := flushMP_hfields m
  have hpend : ((flushMP m).modeInfo = [] ∧ (flushMP m).handledPair = (flushMP m).currentPair) ∨
      ((flushMP m).st = .diffHeader .unified ∧ (flushMP m).source = .gitDiff) := by
    rcases h.pend with ⟨a, b⟩ | ⟨a, b⟩
    · exact Or.inl ⟨by rw [f3]; exact a, by rw [f7, f8]; exact b⟩
    · exact Or.inr ⟨by rw [flushMP_st]; exact a, by rw [flushMP_source]; exact b⟩
  obtain ⟨pk, pt⟩ := pendingDiffName_acct hc (flushMP m) hpend (by simp) (by simp)
  obtain ⟨y, hy⟩ : ∃ y, y = pendingDiffName cfg (flushMP m) := ⟨_, rfl⟩
  rw [← hy] at pk pt
  have hym : y.minus = [] := by rw [pk.minus]; simp
  have hyp : y.plus = [] := by rw [pk.plus]; simp
  have hfy : flushMP y = y := by unfold flushMP; simp [hym, hyp]
  -- the line itself
  obtain ⟨x, hx⟩ : ∃ x : M, x = emit { y with st := .submoduleLog } := ⟨_, rfl⟩
  have hsh : shouldHandle cfg { y with st := .submoduleLog } = true := by
    unfold shouldHandle getStyle; simp [hc.notRaw]
  have e10 : handleSubmoduleLog cfg m l = .ok (true, writeGeneric cfg x l.text l.raw) := by
    rw [hx]
    unfold handleSubmoduleLog handleAdditionalCases
    rw [← hy, hfy]
    simp only [hsw, Bool.not_true, Bool.false_eq_true, if_false, hsh, if_true]
  have ec : chain cfg l Generated.handlerOrder m = .ok (writeGeneric cfg x l.text l.raw) := by
    rw [hdr_prefix cfg m hcr hdiff hfo hmn hpl]
    simp only [tailNames, Generated.handlerOrder, List.drop, chain, handlerOf, e7, e8, e9, e10]
  have g := (chain_step _ ec h.good).good
  obtain ⟨w1, w2, w3, w4, w5, w6⟩ := writeGeneric_keeps hc x l.text l.raw
  have hxm : x.minus = [] := by rw [hx]; exact hym
  have hxp : x.plus = [] := by rw [hx]; exact hyp
  have hxb : x.buf = [] := by rw [hx]; rfl
  have hxmi : x.modeInfo = [] := by rw [hx]; exact pk.mode
  have hxn : x.n = m.n := by rw [hx]; show y.n = m.n; rw [pk.n]; exact f9
  have hxtl : fileTL x = fileTL y := by
    rw [hx, fileTL_emit]
    have : timeline ({ y with st := .submoduleLog } : M) = timeline y := rfl
    rw [fileTL_congr this]
  have hfile := writeGeneric_fileA hc x l.text l.raw hxb hxm hxp
  rw [hxmi, fileRowTextA_nil, hxtl, hxn, pt, fileTL_flushMP, pendRows_congr f1 f2 f3 f4 f5 f6 f7 f8 f9] at hfile
  refine ⟨{ writeGeneric cfg x l.text l.raw with n := (writeGeneric cfg x l.text l.raw).n + 1 }, ?_, ?_, ?_, ?_⟩
  · unfold step; rw [hinit, ec]
  · refine ⟨⟨?_, ?_, w2, ?_, ⟨g.order, g.quiet, g.noPlus⟩⟩, ?_⟩
    · show (writeGeneric cfg x l.text l.raw).source = .gitDiff ∨ (writeGeneric cfg x l.text l.raw).source = .unknown
      rw [w6, hx]; show y.source = _ ∨ y.source = _
      rw [pk.src, flushMP_source]; exact h.src
    · show (writeGeneric cfg x l.text l.raw).counter ≤ -4096
      rw [w1, hx]; show y.counter ≤ -4096
      have : (flushMP m).counter = m.counter := by unfold flushMP; split <;> rfl
      rw [pk.cnt, this]; exact h.cnt
    · show (writeGeneric cfg x l.text l.raw).handledPair = (writeGeneric cfg x l.text l.raw).currentPair
      rw [w4, w3, hx]; exact pk.pair
    · show (writeGeneric cfg x l.text l.raw).st = .submoduleLog
      rw [writeGeneric_st, hx]; rfl
  · exact (fileTL_congr rfl).trans hfile
  · show (writeGeneric cfg x l.text l.raw).n + 1 = m.n + 1
    rw [writeGeneric_n, hxn]

theorem logL_facts {l : L} (h : firstIs l (fun c => c = ' ')) :
    startsWith l.text Markers.diffLine = false ∧ startsWithAny l.text Markers.fileOperationLine = false ∧
      startsWithAny l.text Markers.minusLine = false ∧ startsWithAny l.text Markers.plusLine = false ∧
      startsWith l.text Markers.hunkHeader = false ∧ startsWith l.text Markers.oldMode = false ∧
      startsWith l.text Markers.newMode = false ∧ startsWith l.text Markers.onlyIn = false ∧
      startsWith l.text Markers.binaryFiles = false ∧ startsWith l.text Markers.submoduleLog = false ∧
      detectSource l.text = .unknown := by
  obtain ⟨c, rest, ht, hc⟩ := h
  have hc' : c = ' ' := by simpa using hc
  subst hc'
  refine ⟨by simp [ht, startsWith, Markers.diffLine, List.isPrefixOf],
    by simp [ht, startsWithAny, startsWith, Markers.fileOperationLine, List.isPrefixOf],
    by simp [ht, startsWithAny, startsWith, Markers.minusLine, List.isPrefixOf],
    by simp [ht, startsWithAny, startsWith, Markers.plusLine, List.isPrefixOf],
    by simp [ht, startsWith, Markers.hunkHeader, List.isPrefixOf],
    by simp [ht, startsWith, Markers.oldMode, List.isPrefixOf],
    by simp [ht, startsWith, Markers.newMode, List.isPrefixOf],
    by simp [ht, startsWith, Markers.onlyIn, List.isPrefixOf],
    by simp [ht, startsWith, Markers.binaryFiles, List.isPrefixOf],
    by simp [ht, startsWith, Markers.submoduleLog, List.isPrefixOf],
    by simp [ht, detectSource, startsWithAny, startsWith, Generated.gitDiffPrefixes, Generated.diffUnifiedPrefixes,
      List.isPrefixOf]⟩

/-- (L') a line of the submodule log: passed through unchanged, no file row -/
theorem log_line_step {cfg : Cfg} {m : M} {l : L} (h : SLog m) (hl : LogL l) :
    ∃ m', step cfg m l = .ok m' ∧ SLog m' ∧ fileTL m' = fileTL m ∧ m'.n = m.n + 1 := by
  obtain ⟨hfirst, hcr⟩ := hl
  obtain ⟨hdiff, hfo, hmn, hpl, hhh, hom, hnm, hoi, hbin, hsl, hdet⟩ := logL_facts hfirst
  have hst := h.st
  have hinit : stepInit m l = m := by
    rcases h.src with hs | hs
    · exact stepInit_git l hs
    · exact stepInit_undetected hs hdet
  have hnd : isDiffHeader m.st = false := by rw [hst]; rfl
  have e7 := handleHunkHeader_not_mine cfg m l hhh
  have e8 := handleModeLine_not_mine cfg m l hom hnm
  have e9 := handleMisc_not_mine cfg m l hoi hbin
  have e10 := handleSubmoduleLog_not_mine cfg m l hsl
  have e11 : handleSubmoduleShort cfg m l = .ok (false, m) := by
    unfold handleSubmoduleShort submoduleShortTest
    simp [hst, pairableHunkHeader]
  have e12 := handleMergeConflict_not_mine cfg m l (by rw [hst]; rfl) (by rw [hst]; rfl)
  have e13 : handleHunkLine cfg m l = .ok (false, m) := by unfold handleHunkLine; simp [hst, isHunkState]
  have e15 : handleBlame cfg (emit m) l = .ok (false, emit (emit m)) := by
    unfold handleBlame; simp [hst]
  have e16 : handleGrep cfg (emit (emit m)) l = .ok (false, emit (emit (emit m))) := by
    unfold handleGrep; simp [hst]
  have e17 : handleShouldSkip cfg (emit (emit (emit m))) l = .ok (false, emit (emit (emit m))) := by
    unfold handleShouldSkip shouldSkipLine; simp [hnd]
  obtain ⟨z, hz⟩ : ∃ z, z = emitLineUnchanged (emit (emit (emit m))) l := ⟨_, rfl⟩
  have ec : chain cfg l Generated.handlerOrder m = .ok z := by
    rw [hdr_prefix cfg m hcr hdiff hfo hmn hpl, hz]
    simp only [tailNames, Generated.handlerOrder, List.drop, chain, handlerOf, e7, e8, e9, e10, e11, e12, e13,
      handleGitShowFile, e15, e16, e17, handleEmitUnchanged]
  have g := (chain_step _ ec h.good).good
  obtain ⟨d1, d2, d3, _, _, _⟩ := direct_keeps (emit (flushMP (emit (emit (emit m)))))
    [{ kind := RowKind.raw, text := l.raw, src := (emit (emit (emit m))).n }]
  obtain ⟨f1, f2, f3, _, _, _⟩ := flushMP_keeps (emit (emit (emit m)))
  have hzu : z = direct (emit (flushMP (emit (emit (emit m)))))
      [{ kind := RowKind.raw, text := l.raw, src := (emit (emit (emit m))).n }] := by rw [hz]; rfl
  rw [← hzu] at d1 d2 d3
  refine ⟨{ z with n := z.n + 1 }, ?_, ?_, ?_, ?_⟩
  · unfold step; rw [hinit, ec]
  · refine ⟨⟨?_, ?_, ?_, ?_, ⟨g.order, g.quiet, g.noPlus⟩⟩, ?_⟩
    · show z.source = .gitDiff ∨ z.source = .unknown
      rw [hzu, direct_source, emit_source, flushMP_source]; exact h.src
    · show z.counter ≤ -4096
      rw [d1]; show (flushMP (emit (emit (emit m)))).counter ≤ -4096; rw [f1]; exact h.cnt
    · show z.modeInfo = []
      rw [hzu, direct_modeInfo, emit_modeInfo, flushMP_modeInfo]; exact h.mode
    · show z.handledPair = z.currentPair
      rw [d2, d3]; show (flushMP (emit (emit (emit m)))).handledPair = (flushMP (emit (emit (emit m)))).currentPair
      rw [f2, f3]; exact h.pair
    · show z.st = .submoduleLog
      rw [hz, emitLineUnchanged_st]; exact hst
  · show fileTL z = fileTL m
    unfold fileTL
    rw [hzu, timeline_direct_flushed, List.filter_append, timeline_emit, timeline_emit, timeline_emit]
    simp
  · show z.n + 1 = m.n + 1
    rw [hzu]; simp

end Machine
