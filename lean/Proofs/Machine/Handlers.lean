import Proofs.Machine.Frame
/-!
Every handler of the machine model, started in a `Good` machine, ends in a `Good` machine that
extends it (`Step`); every handler except `handle_hunk_line` leaves the line buffers alone or
empties them (`StepS`).
-/
set_option linter.unusedSimpArgs false
set_option linter.unusedVariables false
namespace Machine
open Headers

theorem handleCommitMeta_step {cfg : Cfg} {m m' : M} {l : L} {b : Bool}
    (e : handleCommitMeta cfg m l = .ok (b, m')) (g : Good m) : StepS m m' := by
  unfold handleCommitMeta at e
  obtain ⟨c1, _⟩ := pendingDiffName_reachC cfg (Reach.start g).flushMP
  have c2 : ReachC m { pendingDiffName cfg (flushMP m) with st := State.commitMeta } :=
    c1.upd rfl rfl rfl rfl rfl rfl
  split at e
  · cases e; exact StepS.refl g
  · split at e
    · split at e
      · cases e; exact c2.emit.stepS
      · cases e; exact (c2.emit.direct _ (by simp)).stepS
    · cases e; exact c2.stepS

theorem handleDiffStat_step {cfg : Cfg} {m m' : M} {l : L} {b : Bool}
    (e : handleDiffStat cfg m l = .ok (b, m')) (g : Good m) : StepS m m' := by
  unfold handleDiffStat at e; cases e; exact StepS.refl g

theorem handleDiffHeaderDiff_step {cfg : Cfg} {m m' : M} {l : L} {b : Bool}
    (e : handleDiffHeaderDiff cfg m l = .ok (b, m')) (g : Good m) : StepS m m' := by
  unfold handleDiffHeaderDiff at e
  have c1 : ReachC m { flushMP m with st := diffLineState l } :=
    (Reach.start g).flushMP.upd rfl rfl rfl rfl rfl rfl
  obtain ⟨c2, _⟩ := pendingDiffName_reachC cfg c1
  have c3 : ReachC m (diffLineFields (pendingDiffName cfg { flushMP m with st := diffLineState l }) l) :=
    c2.upd rfl rfl rfl rfl rfl rfl
  split at e
  · cases e; exact StepS.refl g
  · split at e
    · cases e; exact c3.stepS
    · cases e; exact (c3.toReach.emitLineUnchanged l).stepS

theorem shouldWriteGeneric_reachC (cfg : Cfg) {m0 m : M} (l : L) (h : Reach m0 m) :
    (shouldWriteGeneric cfg m l).1 = true → ReachC m0 (shouldWriteGeneric cfg m l).2 := by
  unfold shouldWriteGeneric
  split
  · intro _; exact h.flushMP.emit.writeGeneric cfg _ _ (by simp)
  · intro hh; cases hh

theorem shouldWriteGeneric_false (cfg : Cfg) (m : M) (l : L) :
    (shouldWriteGeneric cfg m l).1 = false → (shouldWriteGeneric cfg m l).2 = m := by
  unfold shouldWriteGeneric; split <;> simp

theorem fileOpUpdate_reach {m0 m : M} (ev : FileEvent) (nm : Str) (h : Reach m0 m) :
    Reach m0 (fileOpUpdate m ev nm) ∧ (fileOpUpdate m ev nm).st = m.st := by
  unfold fileOpUpdate
  split <;> first | exact ⟨h.upd rfl rfl rfl rfl rfl rfl, rfl⟩ | exact ⟨h, rfl⟩

theorem fileOpFinish_step {cfg : Cfg} {m0 m1 : M} {l : L}
    (g : Good m0) (h : Reach m0 m1) (hs : m1.st = m0.st) : StepS m0 (fileOpFinish cfg m1 l).2 := by
  unfold fileOpFinish
  split
  · rename_i hw
    exact (shouldWriteGeneric_reachC cfg l h hw).stepS
  · exact h.stepS_of g hs

theorem handleFileOperation_step {cfg : Cfg} {m m' : M} {l : L} {b : Bool}
    (e : handleFileOperation cfg m l = .ok (b, m')) (g : Good m) : StepS m m' := by
  unfold handleFileOperation at e
  split at e
  · cases e; exact StepS.refl g
  · simp only [Except.ok.injEq] at e
    obtain rfl : m' = _ := (congrArg Prod.snd e).symm
    obtain ⟨r, hs⟩ := fileOpUpdate_reach (m := m) (parseDiffHeaderLine l.text (decide (m.source = Source.gitDiff))).2
      ((repeatedFilePath m.diffLine m.diffLineG).getD []) (Reach.start g)
    exact fileOpFinish_step g r hs

theorem shouldWriteGeneric_stepS (cfg : Cfg) {m0 m1 : M} (l : L) (c : ReachC m0 m1) :
    StepS m0 (shouldWriteGeneric cfg m1 l).2 := by
  cases hw : (shouldWriteGeneric cfg m1 l).1
  · rw [shouldWriteGeneric_false cfg _ l hw]; exact c.stepS
  · exact (shouldWriteGeneric_reachC cfg l c.toReach hw).stepS

theorem handleMinusLine_step {cfg : Cfg} {m m' : M} {l : L} {b : Bool}
    (e : handleMinusLine cfg m l = .ok (b, m')) (g : Good m) : StepS m m' := by
  unfold handleMinusLine at e
  split at e
  · cases e; exact StepS.refl g
  · simp only [Except.ok.injEq] at e
    obtain rfl : m' = _ := (congrArg Prod.snd e).symm
    refine shouldWriteGeneric_stepS cfg l (Reach.flushMP ?_)
    exact (Reach.start g).upd rfl rfl rfl rfl rfl rfl

theorem plusLineFinish_step {cfg : Cfg} {m0 m1 : M} {l : L} (h : ReachC m0 m1) :
    StepS m0 (plusLineFinish cfg m1 l).2 := by
  unfold plusLineFinish
  split
  · rename_i hw
    exact (shouldWriteGeneric_reachC cfg l h.toReach hw).stepS
  · split
    · exact ReachC.stepS ((h.emit.handleHeaderLine cfg (decide (m1.source = Source.diffUnified)) (by simp)).upd
        rfl rfl rfl rfl rfl rfl)
    · exact h.stepS

theorem handlePlusLine_step {cfg : Cfg} {m m' : M} {l : L} {b : Bool}
    (e : handlePlusLine cfg m l = .ok (b, m')) (g : Good m) : StepS m m' := by
  unfold handlePlusLine at e
  split at e
  · cases e; exact StepS.refl g
  · simp only [Except.ok.injEq] at e
    obtain rfl : m' = _ := (congrArg Prod.snd e).symm
    refine plusLineFinish_step (Reach.flushMP ?_)
    exact (Reach.start g).upd rfl rfl rfl rfl rfl rfl

theorem handleHunkHeader_step {cfg : Cfg} {m m' : M} {l : L} {b : Bool}
    (e : handleHunkHeader cfg m l = .ok (b, m')) (g : Good m) : StepS m m' := by
  unfold handleHunkHeader at e
  split at e
  · cases e; exact StepS.refl g
  · split at e
    · cases e; exact StepS.refl g
    · cases e
      exact stepS_upd_free g rfl rfl rfl rfl rfl rfl rfl rfl

theorem handleModeLine_step {cfg : Cfg} {m m' : M} {l : L} {b : Bool}
    (e : handleModeLine cfg m l = .ok (b, m')) (g : Good m) : StepS m m' := by
  unfold handleModeLine at e
  split at e
  · split at e <;> (cases e; exact stepS_upd_free g rfl rfl rfl rfl rfl rfl rfl rfl)
  · split at e
    · split at e <;> (cases e; exact stepS_upd_free g rfl rfl rfl rfl rfl rfl rfl rfl)
    · cases e; exact StepS.refl g

/-- `handle_additional_cases` run on a machine `m` reached from `m0` -/
theorem handleAdditionalCases_reach {cfg : Cfg} {m0 m m' : M} {l : L} {b : Bool} {to : State}
    (e : handleAdditionalCases cfg m l to = .ok (b, m')) (r : Reach m0 m) : StepS m0 m' := by
  unfold handleAdditionalCases at e
  have c : ReachC m0 { flushMP m with st := to } := r.flushMP.upd rfl rfl rfl rfl rfl rfl
  split at e
  · cases e; exact (c.emit.writeGeneric cfg _ _ (by simp)).stepS
  · cases e; exact c.stepS

theorem handleAdditionalCases_step {cfg : Cfg} {m m' : M} {l : L} {b : Bool} {to : State}
    (e : handleAdditionalCases cfg m l to = .ok (b, m')) (g : Good m) : StepS m m' :=
  handleAdditionalCases_reach e (Reach.start g)

theorem handleMisc_step {cfg : Cfg} {m m' : M} {l : L} {b : Bool}
    (e : handleMisc cfg m l = .ok (b, m')) (g : Good m) : StepS m m' := by
  unfold handleMisc at e
  simp only at e
  split at e
  · cases e; exact StepS.refl g
  · split at e
    · split at e
      · cases e
        exact ReachC.stepS (((Reach.start g).emitLineUnchanged l).upd rfl rfl rfl rfl rfl rfl)
      · cases e; exact stepS_upd_same g rfl rfl rfl rfl rfl rfl rfl
    · exact handleAdditionalCases_step e g

theorem handleSubmoduleLog_step {cfg : Cfg} {m m' : M} {l : L} {b : Bool}
    (e : handleSubmoduleLog cfg m l = .ok (b, m')) (g : Good m) : StepS m m' := by
  unfold handleSubmoduleLog at e
  split at e
  · cases e; exact StepS.refl g
  · exact handleAdditionalCases_reach e (pendingDiffName_reachC cfg (Reach.start g).flushMP).1.toReach

theorem handleSubmoduleShort_step {cfg : Cfg} {m m' : M} {l : L} {b : Bool}
    (e : handleSubmoduleShort cfg m l = .ok (b, m')) (g : Good m) : StepS m m' := by
  unfold handleSubmoduleShort at e
  split at e
  · cases e; exact StepS.refl g
  · split at e
    · cases e; exact StepS.refl g
    · split at e
      · cases e; exact stepS_upd_free g rfl rfl rfl rfl rfl rfl rfl rfl
      · cases e; exact ((Reach.start g).flushMP.emit.direct _ (by simp)).stepS
      · cases e; exact StepS.refl g

-- hunk lines ------------------------------------------------------------------

theorem emitHunkHeader_reachC {cfg : Cfg} {m0 m m' : M} {hh : HunkHeader} {line raw : Str} {src : Nat}
    (e : emitHunkHeader cfg m hh line raw src = .ok m') (h : Reach m0 m) : ReachC m0 m' ∧ m'.st = m.st := by
  unfold emitHunkHeader at e
  split at e
  · cases e
  · cases e
    exact ⟨h.flushMP.emit.direct _ (by simp), by simp⟩

/-- after the first part of `handle_hunk_line`: still good, same state, extended, and both line
buffers within the configured bound -/
theorem hunkLinePre_spec {cfg : Cfg} {m m' : M} (e : hunkLinePre cfg m = .ok m') (g : Good m) :
    Reach m m' ∧ m'.st = m.st ∧ (isHunkHeader m.st = true → m'.minus = [] ∧ m'.plus = []) ∧
      m'.minus.length ≤ cfg.bufSize ∧ m'.plus.length ≤ cfg.bufSize := by
  unfold hunkLinePre at e
  simp only at e
  have r1 : Reach m (if m.minus.length > cfg.bufSize ∨ m.plus.length > cfg.bufSize then flushMP m else m) := by
    split
    · exact (Reach.start g).flushMP.toReach
    · exact Reach.start g
  have hs : (if m.minus.length > cfg.bufSize ∨ m.plus.length > cfg.bufSize then flushMP m else m).st = m.st := by
    split <;> simp
  have hl : (if m.minus.length > cfg.bufSize ∨ m.plus.length > cfg.bufSize then flushMP m else m).minus.length ≤ cfg.bufSize
      ∧ (if m.minus.length > cfg.bufSize ∨ m.plus.length > cfg.bufSize then flushMP m else m).plus.length ≤ cfg.bufSize := by
    split
    · simp
    · rename_i hc; constructor <;> omega
  split at e
  · rename_i hst
    obtain ⟨c, hst'⟩ := emitHunkHeader_reachC e r1
    refine ⟨c.toReach, hst'.trans hs, fun _ => ⟨c.minus, c.plus⟩, by simp [c.minus], by simp [c.plus]⟩
  · rename_i hne
    cases e
    refine ⟨r1, hs, ?_, hl.1, hl.2⟩
    intro hh
    rw [← hs] at hh
    exfalso
    generalize (if m.minus.length > cfg.bufSize ∨ m.plus.length > cfg.bufSize then flushMP m else m) = x at hne hh
    cases hx : x.st <;> simp [hx, isHunkHeader] at hh
    exact hne _ _ _ _ _ hx

theorem isHunkState_cases {s : State} (h : isHunkState s = true) :
    isHunkHeader s = true ∨ (∃ dt, s = .hunkZero dt) ∨ (∃ dt, s = .hunkMinus dt) ∨ (∃ dt, s = .hunkPlus dt) := by
  cases s <;> simp [isHunkState, isHunkHeader] at h ⊢

theorem timeline_of_flushed (m : M) :
    timeline m = (flushMP m).out ++ (flushMP m).buf := by
  have := timeline_flushMP m
  simp only [timeline, flushMP_minus, flushMP_plus, List.map_nil, List.append_nil] at this
  simpa [timeline] using this.symm

/-- the second part: exactly one new row at the end of the timeline, for the current line -/
theorem hunkLinePush_spec {cfg : Cfg} {m m' : M} {l : L} (e : hunkLinePush cfg m l = .ok m')
    (ho : m.orderOk = true) (hplus : isHunkPlus m.st = false → m.plus = []) :
    Good m' ∧ (∃ r : Row, timeline m' = timeline m ++ [r] ∧ r.src = m.n) ∧ m'.out = m.out ∧ m'.n = m.n ∧
      m'.minus.length ≤ m.minus.length + 1 ∧ m'.plus.length ≤ m.plus.length + 1 ∧ isHunkState m'.st = true := by
  unfold hunkLinePush at e
  cases hn : newLineState m.st l with
  | error err => simp [hn] at e
  | ok o =>
    cases o with
    | none =>
      simp only [hn] at e
      cases e
      refine ⟨⟨by simp [ho], fun _ => by simp, fun _ => by simp⟩,
        ⟨{ kind := .other, text := Text.expand cfg.tab l.raw, src := m.n }, ?_, rfl⟩,
        by simp, by simp, by simp, by simp, rfl⟩
      rw [timeline_of_flushed m]; simp [timeline]
    | some p =>
      obtain ⟨k, dt⟩ := p
      cases hp : nParents dt with
      | error err => cases k <;> simp [hn, hp] at e
      | ok n =>
        cases k with
        | minus =>
          simp only [hn, hp] at e
          cases e
          cases hpl : isHunkPlus m.st
          · have hp0 := hplus hpl
            simp only [Bool.false_eq_true, if_false]
            refine ⟨⟨ho, fun q => by simp [quiet3] at q, fun _ => hp0⟩,
              ⟨HLine.row { kind := .minus, pre := paintedPrefix cfg .minus dt, text := prepare cfg n l, src := m.n },
                ?_, by first | rfl | trivial⟩, by first | rfl | trivial, by first | rfl | trivial, by simp, by simp,
              by first | rfl | trivial⟩
            simp [timeline, hp0]
          · simp only [if_true]
            refine ⟨⟨by simp [ho], fun q => by simp [quiet3] at q, fun _ => by simp⟩,
              ⟨HLine.row { kind := .minus, pre := paintedPrefix cfg .minus dt, text := prepare cfg n l, src := m.n },
                ?_, rfl⟩, by simp, by simp, by simp, by simp, rfl⟩
            rw [timeline_of_flushed m]; simp [timeline]
        | plus =>
          simp only [hn, hp] at e
          cases e
          refine ⟨⟨ho, fun q => by simp [quiet3] at q, fun q => by simp [noPlusState, quiet3] at q⟩,
            ⟨HLine.row { kind := .plus, pre := paintedPrefix cfg .plus dt, text := prepare cfg n l, src := m.n },
              ?_, rfl⟩, rfl, rfl, by simp, by simp, rfl⟩
          simp [timeline]
        | zero =>
          simp only [hn, hp] at e
          cases e
          refine ⟨⟨by simp [ho], fun _ => by simp, fun _ => by simp⟩,
            ⟨{ kind := .zero, text := paintedPrefix cfg .zero dt ++ prepare cfg n l, src := m.n }, ?_, rfl⟩,
            by simp, by simp, by simp, by simp, rfl⟩
          rw [timeline_of_flushed m]; simp [timeline]

/-- what `handle_hunk_line` guarantees when it claims a line -/
structure HunkLineSpec (cfg : Cfg) (m m' : M) : Prop where
  step : Step m m'
  /-- the line's row is the last thing on the timeline, and it is new -/
  row : ∃ pre r, timeline m' = timeline m ++ pre ++ [r] ∧ r.src = m.n ∧ ∀ x ∈ pre, x.kind ≠ .minus ∧ x.kind ≠ .plus ∧ x.kind ≠ .zero ∧ x.kind ≠ .other
  /-- everything painted has been emitted -/
  buf : m'.buf = []
  /-- bounded lag -/
  minusLen : m'.minus.length ≤ cfg.bufSize + 1
  plusLen : m'.plus.length ≤ cfg.bufSize + 1
  st : isHunkState m'.st = true

theorem hunkHeaderRows_kinds {cfg : Cfg} {m1 : M} {hh : HunkHeader} {line raw : Str} {src : Nat} {rows : List Row}
    (e : hunkHeaderRows cfg m1 hh line raw src = .ok rows) :
    ∀ x ∈ rows, x.kind ≠ .minus ∧ x.kind ≠ .plus ∧ x.kind ≠ .zero ∧ x.kind ≠ .other := by
  have hd : ∀ (st : ElemStyle) (t r a : Str), ∀ x ∈ drawRows st .hunkHeader t r a src,
      x.kind ≠ .minus ∧ x.kind ≠ .plus ∧ x.kind ≠ .zero ∧ x.kind ≠ .other := by
    intro st t r a x hx
    unfold drawRows at hx
    cases hdeco : st.deco <;> cases hraw : st.isRaw <;> simp [hdeco, hraw] at hx
    all_goals (first | (rcases hx with h | h | h <;> subst h <;> simp) | (rcases hx with h | h <;> subst h <;> simp) | (subst hx; simp))
  unfold hunkHeaderRows at e
  simp only at e
  split at e
  · cases e
    intro x hx
    simp only [List.mem_append] at hx
    rcases hx with hx | hx
    · split at hx
      · simp at hx; subst hx; simp
      · simp at hx
    · exact hd _ _ _ _ x hx
  · split at e
    · cases e; intro x hx; simp at hx; subst hx; simp
    · split at e
      · cases e
      · cases e
        intro x hx
        split at hx
        · simp at hx
        · simp at hx; subst hx; simp
      · cases e
        intro x hx
        simp only [List.mem_append] at hx
        rcases hx with hx | hx
        · split at hx
          · simp at hx
          · simp at hx; subst hx; simp
        · exact hd _ _ _ _ x hx

theorem timeline_direct_flushed (m : M) (rows : List Row) :
    timeline (direct (emit (flushMP m)) rows) = timeline m ++ rows := by
  rw [timeline_of_flushed m]; simp [timeline]

theorem hunkLinePre_rows {cfg : Cfg} {m m' : M} (e : hunkLinePre cfg m = .ok m') :
    ∃ pre, timeline m' = timeline m ++ pre ∧
      ∀ x ∈ pre, x.kind ≠ .minus ∧ x.kind ≠ .plus ∧ x.kind ≠ .zero ∧ x.kind ≠ .other := by
  unfold hunkLinePre at e
  simp only at e
  have ht : timeline (if m.minus.length > cfg.bufSize ∨ m.plus.length > cfg.bufSize then flushMP m else m) = timeline m := by
    split
    · exact timeline_flushMP m
    · rfl
  split at e
  · unfold emitHunkHeader at e
    split at e
    · cases e
    · rename_i rows hr
      cases e
      exact ⟨rows, by rw [timeline_direct_flushed, ht], hunkHeaderRows_kinds hr⟩
  · cases e
    exact ⟨[], by simp [ht], by simp⟩

theorem handleHunkLine_spec {cfg : Cfg} {m m' : M} {l : L} {b : Bool}
    (e : handleHunkLine cfg m l = .ok (b, m')) (g : Good m) :
    (b = false ∧ m' = m ∧ isHunkState m.st = false) ∨ (b = true ∧ isHunkState m.st = true ∧ HunkLineSpec cfg m m') := by
  unfold handleHunkLine at e
  split at e
  · rename_i hs
    cases e; exact Or.inl ⟨rfl, rfl, by simpa using hs⟩
  · rename_i hs
    have hs' : isHunkState m.st = true := by simpa using hs
    split at e
    · cases e
    · rename_i m2 e2
      split at e
      · cases e
      · rename_i m3 e3
        cases e
        obtain ⟨r2, hst2, hhdr, hlm, hlp⟩ := hunkLinePre_spec e2 g
        obtain ⟨pre, htl2, hkinds⟩ := hunkLinePre_rows e2
        have hplus : isHunkPlus m2.st = false → m2.plus = [] := by
          intro hnp
          rw [hst2] at hnp
          rcases isHunkState_cases hs' with h | ⟨dt, h⟩ | ⟨dt, h⟩ | ⟨dt, h⟩
          · exact (hhdr h).2
          · have := (g.quiet (by rw [h]; rfl)).2
            rcases r2.shrink.2 with s | s <;> simp [s, this]
          · have := g.noPlus (by rw [h]; rfl)
            rcases r2.shrink.2 with s | s <;> simp [s, this]
          · rw [h] at hnp; simp [isHunkPlus] at hnp
        obtain ⟨g3, ⟨r, htl3, hsrc⟩, hout3, hn3, hml, hpl, hst3⟩ := hunkLinePush_spec e3 r2.order hplus
        refine Or.inr ⟨rfl, hs', ⟨⟨?_, ?_⟩, ⟨pre, r, ?_, ?_, hkinds⟩, by simp, ?_, ?_, by simpa using hst3⟩⟩
        · exact ⟨by simp [g3.order], fun q => by simpa using g3.quiet (by simpa using q),
            fun q => by simpa using g3.noPlus (by simpa using q)⟩
        · refine r2.ext.trans ⟨⟨[r], by rw [timeline_emit, htl3]⟩, ⟨m3.buf, by simp [hout3]⟩, by simp [hn3]⟩
        · rw [timeline_emit, htl3, htl2]
        · rw [hsrc, r2.ext.n]
        · simp only [emit_minus]; omega
        · simp only [emit_plus]; omega

end Machine
