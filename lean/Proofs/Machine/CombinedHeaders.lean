import Proofs.Machine.NoPending
/-!
Whole-run file headers (C14), part 7: sections of a combined diff (`git diff` during a merge, `git show` of a merge commit,
`git log -p --cc`).

A section (`CSec`): the `diff --cc x` / `diff --combined x` line, index-like lines (`index a,b..c`, `mode a,b..c`), optionally
a `new file mode m` / `deleted file mode a,b` line and further index-like lines, the `--- a/x` and `+++ b/x` lines, then the
hunks: `@@@ … @@@` lines and hunk lines, none of which begins with a header-naming literal or opens a conflict region.

* the header step lemmas of `FileHeaders2.lean`, re-proved for a header state `DiffHeader(dt)` of any diff type
  (`hdr_tail_c`, `noise_step_c`, `fileop_step_c`, `minus_step_c`, `plus_step_c`) and the `diff --cc` line met with nothing
  pending (`cc_line_step`);
* the body by `runFrom_nf` (`NoPending.lean`): no file row in any state, plus `runFrom_git` here: source and the disarmed
  minus-line counter are kept;
* `csec_run`, `csecs_run`, `run_one_file_row_per_section_combined`.
-/
set_option linter.unusedSimpArgs false
set_option linter.unusedVariables false
namespace Machine
open Headers Generated

-- A. source and counter over lines that name nothing -----------------------------------------------------------

/-- the source is what it was; a disarmed minus-line counter stays disarmed -/
structure SK (m m' : M) : Prop where
  src : m'.source = m.source
  cnt : m.counter ≤ -4096 → m'.counter ≤ -4096

theorem SK.refl (m : M) : SK m m := ⟨rfl, id⟩
theorem SK.trans {a b c : M} (h1 : SK a b) (h2 : SK b c) : SK a c :=
  ⟨h2.src.trans h1.src, fun h => h2.cnt (h1.cnt h)⟩
theorem SK.of_eq {m x x' : M} (h : SK m x) (h1 : x'.source = x.source) (h2 : x'.counter = x.counter) : SK m x' :=
  ⟨h1.trans h.src, fun c => by rw [h2]; exact h.cnt c⟩
theorem SK.emit {m x : M} (h : SK m x) : SK m (emit x) := h.of_eq rfl rfl
theorem SK.flushMP {m x : M} (h : SK m x) : SK m (flushMP x) := h.of_eq (flushMP_source x) (flushMP_keeps x).1
theorem SK.direct {m x : M} (h : SK m x) (rows : List Row) : SK m (direct x rows) :=
  h.of_eq (direct_source x rows) (direct_keeps x rows).1

theorem hunkLinePush_sk {cfg : Cfg} {m m' : M} {l : L} (e : hunkLinePush cfg m l = .ok m') : SK m m' := by
  have hx : SK m (if isHunkPlus m.st then Machine.flushMP m else m) := by
    split
    · exact (SK.refl m).flushMP
    · exact SK.refl m
  have hf : SK m (Machine.flushMP m) := (SK.refl m).flushMP
  unfold hunkLinePush at e
  split at e
  · cases e
  · split at e
    · cases e
    · cases e
      exact ⟨hx.src, fun c => by have := hx.cnt c; show _ - 1 ≤ _; omega⟩
  · split at e
    · cases e
    · cases e
      exact ⟨rfl, id⟩
  · split at e
    · cases e
    · cases e
      exact ⟨hf.src, fun c => by have := hf.cnt c; show _ - 1 ≤ _; omega⟩
  · cases e
    exact ⟨hf.src, hf.cnt⟩

theorem emitHunkHeader_sk {cfg : Cfg} {m m' : M} {hh : HunkHeader} {line raw : Str} {src : Nat}
    (e : emitHunkHeader cfg m hh line raw src = .ok m') : SK m m' := by
  unfold emitHunkHeader at e
  split at e
  · cases e
  · cases e
    exact ((SK.refl m).flushMP.emit).direct _

theorem handlerOf_sk {name : String} {hd : Handler} (hn : handlerOf name = some hd)
    {cfg : Cfg} {m m' : M} {l : L} {b : Bool} (hl : NotNaming l) (hp : NPend m)
    (hs : isMergeConflict m.st = false) (e : hd cfg m l = .ok (b, m')) : SK m m' := by
  have nm : ∀ {r : Except String (Bool × M)}, r = .ok (false, m) → r = .ok (b, m') → SK m m' := by
    intro r hr e; rw [hr] at e; cases e; exact SK.refl m
  unfold handlerOf at hn
  split at hn <;> first
    | (cases hn
       first
         | (-- handle_commit_meta_header_line
            unfold handleCommitMeta at e
            rw [pendingDiffName_np cfg hp.flushMP] at e
            have c : SK m { Machine.flushMP m with st := State.commitMeta } := (SK.refl m).flushMP.of_eq rfl rfl
            split at e
            · cases e; exact SK.refl m
            · split at e
              · split at e
                · cases e; exact c.emit
                · cases e; exact c.emit.direct _
              · cases e; exact c)
         | (unfold handleDiffStat at e; cases e; exact SK.refl m)
         | exact nm (handleDiffHeaderDiff_not_mine cfg m l hl.diff) e
         | exact nm (handleFileOperation_not_mine cfg m l (by simp [hl.fileOp])) e
         | exact nm (handleMinusLine_not_mine cfg m l (minusLineTest_false m hl.minus)) e
         | exact nm (handlePlusLine_not_mine cfg m l (by unfold plusLineTest; simp [hl.plus])) e
         | (-- handle_hunk_header_line
            unfold handleHunkHeader at e
            split at e
            · cases e; exact SK.refl m
            · split at e
              · cases e; exact SK.refl m
              · cases e
                refine ⟨rfl, fun c => ?_⟩
                show hunkHeaderCounter m _ ≤ -4096
                unfold hunkHeaderCounter
                rw [if_neg (by omega)]; exact c)
         | exact nm (handleModeLine_not_mine cfg m l hl.oldMode hl.newMode) e
         | exact nm (handleMisc_not_mine cfg m l hl.onlyIn hl.binary) e
         | exact nm (handleSubmoduleLog_not_mine cfg m l hl.sublog) e
         | (-- handle_submodule_short_line
            unfold handleSubmoduleShort at e
            split at e
            · cases e; exact SK.refl m
            · split at e
              · cases e; exact SK.refl m
              · split at e
                · cases e; exact (SK.refl m).of_eq rfl rfl
                · cases e; exact (SK.refl m).flushMP.emit.direct _
                · cases e; exact SK.refl m)
         | (-- handle_merge_conflict_line
            unfold handleMergeConflict at e
            split at e
            · cases e; exact SK.refl m
            · split at e
              · split at e
                · split at e
                  · cases e
                  · rename_i m1 e1
                    cases e
                    have k1 : SK m m1 := by
                      unfold mcPendingHeader at e1
                      split at e1
                      · exact emitHunkHeader_sk e1
                      · cases e1; exact SK.refl m
                    exact k1.flushMP.of_eq rfl rfl
                · cases e; exact SK.refl m
              · split at e <;> first
                  | (rename_i hst; rw [hst] at hs; simp [isMergeConflict] at hs)
                  | (cases e; exact SK.refl m))
         | (-- handle_hunk_line
            unfold handleHunkLine at e
            split at e
            · cases e; exact SK.refl m
            · split at e
              · cases e
              · rename_i m2 e2
                split at e
                · cases e
                · rename_i m3 e3
                  cases e
                  obtain ⟨k2, _⟩ := hunkLinePre_keep e2
                  have s2 : SK m m2 := ⟨k2.src, fun c => Int.le_trans k2.cnt c⟩
                  exact (s2.trans (hunkLinePush_sk e3)).emit)
         | (unfold handleGitShowFile at e; cases e; exact (SK.refl m).emit)
         | (-- handle_blame_line
            unfold handleBlame at e
            simp only at e
            split at e
            · cases e; exact ((SK.refl m).emit.direct _).of_eq rfl rfl
            · cases e; exact (SK.refl m).emit)
         | (-- handle_grep_line
            unfold handleGrep at e
            simp only at e
            split at e
            · split at e
              · cases e; exact (SK.refl m).emit
              · cases e; exact ((SK.refl m).emit.direct _).of_eq rfl rfl
            · cases e; exact (SK.refl m).emit)
         | (unfold handleShouldSkip at e; cases e; exact SK.refl m)
         | (unfold handleEmitUnchanged emitLineUnchanged at e; cases e
            exact (SK.refl m).flushMP.emit.direct _))
    | cases hn

theorem chain_sk {cfg : Cfg} {l : L} (hl : NotNaming l) : ∀ (ns : List String) {m m' : M},
    chain cfg l ns m = .ok m' → NPend m → isMergeConflict m.st = false → SK m m'
  | [], m, m', e, _, _ => by simp only [chain] at e; cases e; exact SK.refl m
  | name :: rest, m, m', e, hp, hs => by
    simp only [chain] at e
    split at e
    · cases e
    · rename_i hd hn
      split at e
      · cases e
      · rename_i m1 e1
        cases e
        exact handlerOf_sk hn hl hp hs e1
      · rename_i m1 e1
        have c := handlerOf_nf hn hl hp hs e1
        exact (handlerOf_sk hn hl hp hs e1).trans (chain_sk hl rest e (c.k.npend hp) (c.nomc rfl))

/-- a step in a git diff on a line that names nothing: the source stays, a disarmed counter stays disarmed -/
theorem step_git {cfg : Cfg} {m m' : M} {l : L} (e : step cfg m l = .ok m') (hl : NotNaming l) (hp : NPend m)
    (hs : isMergeConflict m.st = false) (hsrc : m.source = .gitDiff) (hc : m.counter ≤ -4096) :
    m'.source = .gitDiff ∧ m'.counter ≤ -4096 := by
  unfold step at e
  rw [stepInit_git l hsrc] at e
  split at e
  · cases e
  · rename_i m2 e2
    cases e
    have k := chain_sk hl _ e2 hp hs
    exact ⟨k.src.trans hsrc, k.cnt hc⟩

/-- what holds between the sections of a git diff: nothing pending, outside a conflict region -/
structure QC (m : M) : Prop where
  np : NPend m
  nomc : isMergeConflict m.st = false
  src : m.source = .gitDiff ∨ m.source = .unknown
  cnt : m.counter ≤ -4096
  good : Good m

/-- … the same inside a git diff -/
structure QG (m : M) : Prop extends QC m where
  git : m.source = .gitDiff

/-- a line of a hunk (or any other line that names nothing and opens no conflict region) -/
def isQuietLine (l : L) : Bool := notNamingb l && !startsWith l.text Markers.mcBegin

theorem runFrom_git {cfg : Cfg} : ∀ (ls : List L) {m m' : M}, runFrom cfg m ls = .ok m' →
    (∀ l ∈ ls, isQuietLine l = true) → QG m → QG m' ∧ fileTL m' = fileTL m ∧ m'.n = m.n + ls.length
  | [], m, m', e, _, h => by simp only [runFrom] at e; cases e; exact ⟨h, rfl, rfl⟩
  | l :: ls, m, m', e, hl, h => by
    simp only [runFrom] at e
    split at e
    · cases e
    · rename_i m1 e1
      have hq := hl l (List.mem_cons_self ..)
      unfold isQuietLine at hq
      simp only [Bool.and_eq_true, Bool.not_eq_true'] at hq
      obtain ⟨hn, hmc⟩ := hq
      obtain ⟨r1, p1⟩ := step_nf e1 (notNaming_of_b hn) h.np h.nomc
      obtain ⟨s1, c1⟩ := step_git e1 (notNaming_of_b hn) h.np h.nomc h.git h.cnt
      have b1 := step_bs hmc h.nomc h.good e1
      have g1 := (step_spec e1 h.good).1
      obtain ⟨q2, r2, n2⟩ := runFrom_git ls e (fun x hx => hl x (List.mem_cons_of_mem _ hx))
        ⟨⟨p1, b1.1, Or.inl s1, c1, g1⟩, s1⟩
      refine ⟨q2, r2.trans r1, ?_⟩
      rw [n2, b1.2.1, List.length_cons]; omega

-- B. the header lines, in a header state of any diff type ------------------------------------------------------

/-- in the header part of a section of a git diff, header not yet written, no mode change pending -/
structure HdrC (dt : DiffType) (m : M) : Prop where
  st : m.st = .diffHeader dt
  src : m.source = .gitDiff
  cnt : m.counter ≤ -4096
  hp : m.handledPair = none
  cp : m.currentPair ≠ none
  mode : m.modeInfo = []
  good : Good m

/-- `hdr_tail` for a header state of any diff type -/
theorem hdr_tail_c {cfg : Cfg} (hc : FHC cfg) (x : M) (l : L) {dt : DiffType} (hst : x.st = .diffHeader dt)
    (hsrc : x.source = .gitDiff) (no : TailNo l) :
    chain cfg l tailNames x = .ok (emit (emit (emit x))) := by
  have hnm : isMergeConflict x.st = false := by rw [hst]; rfl
  have hnc : hunkCombinedParents x.st = none := by rw [hst]; rfl
  have e7 := handleHunkHeader_not_mine cfg x l no.hunkHeader
  have e8 := handleModeLine_not_mine cfg x l no.oldMode no.newMode
  have e9 : handleMisc cfg x l = .ok (false, x) := by
    unfold handleMisc; simp [hsrc, no.binary]
  have e10 := handleSubmoduleLog_not_mine cfg x l no.submodule
  have e11 : handleSubmoduleShort cfg x l = .ok (false, x) := by
    unfold handleSubmoduleShort submoduleShortTest
    simp [hst, pairableHunkHeader]
  have e12 := handleMergeConflict_not_mine cfg x l hnc hnm
  have e13 : handleHunkLine cfg x l = .ok (false, x) := by unfold handleHunkLine; simp [hst, isHunkState]
  have e15 : handleBlame cfg (emit x) l = .ok (false, emit (emit x)) := by
    unfold handleBlame; simp [hst]
  have e16 : handleGrep cfg (emit (emit x)) l = .ok (false, emit (emit (emit x))) := by
    unfold handleGrep; simp [hst]
  have e17 : handleShouldSkip cfg (emit (emit (emit x))) l = .ok (true, emit (emit (emit x))) := by
    unfold handleShouldSkip shouldSkipLine
    have hst3 : (emit (emit (emit x))).st = .diffHeader dt := hst
    rw [shouldHandle_diffHeader hc hst3, hst3]
    simp [isDiffHeader, hc.notCO]
  simp only [tailNames, Generated.handlerOrder, List.drop, chain, handlerOf, e7, e8, e9, e10, e11, e12, e13,
    handleGitShowFile, e15, e16, e17]

theorem hdrc_step_of_chain {cfg : Cfg} {dt : DiffType} {m z : M} {l : L} (h : HdrC dt m)
    (ec : chain cfg l Generated.handlerOrder m = .ok z) (k1 : z.st = .diffHeader dt) (k2 : z.source = .gitDiff)
    (k3 : z.counter = m.counter) (k4 : z.handledPair = none) (k5 : z.currentPair ≠ none) (k6 : z.modeInfo = []) :
    step cfg m l = .ok { z with n := z.n + 1 } ∧ HdrC dt { z with n := z.n + 1 } := by
  have g := (chain_step _ ec h.good).good
  refine ⟨by unfold step; rw [stepInit_git l h.src, ec], ⟨k1, k2, ?_, k4, k5, k6, ⟨g.order, g.quiet, g.noPlus⟩⟩⟩
  show z.counter ≤ -4096
  rw [k3]; exact h.cnt

/-- an index-like line (`index a,b..c`, `mode a,b..c`, …): skipped, nothing written -/
theorem noise_step_c {cfg : Cfg} (hc : FHC cfg) {dt : DiffType} {m : M} {l : L} (h : HdrC dt m) (hl : Noise l) :
    ∃ m', step cfg m l = .ok m' ∧ HdrC dt m' ∧ fileTL m' = fileTL m ∧ m'.n = m.n + 1 := by
  have ec : chain cfg l Generated.handlerOrder m = .ok (emit (emit (emit m))) := by
    rw [hdr_prefix cfg m hl.commit hl.diff hl.fileOp hl.minus hl.plus]
    exact hdr_tail_c hc m l h.st h.src hl.toTailNo
  obtain ⟨es, hh⟩ := hdrc_step_of_chain h ec h.st h.src rfl h.hp h.cp h.mode
  refine ⟨_, es, hh, ?_, rfl⟩
  show fileTL (emit (emit (emit m))) = fileTL m
  rw [fileTL_emit, fileTL_emit, fileTL_emit]

/-- a `new file mode` / `deleted file mode` line: claimed, nothing written, the header stays owed -/
theorem fileop_step_c {cfg : Cfg} (hc : FHC cfg) {dt : DiffType} {m : M} {l : L} (h : HdrC dt m)
    (hl : isFileOpLine l = true) :
    ∃ m', step cfg m l = .ok m' ∧ HdrC dt m' ∧ fileTL m' = fileTL m ∧ m'.n = m.n + 1 := by
  unfold isFileOpLine at hl
  simp only [Bool.and_eq_true, Bool.not_eq_true'] at hl
  obtain ⟨hfo, hcr⟩ := hl
  obtain ⟨hdiff, hnm, hnp, no⟩ := fileOp_facts hfo
  have hlt : headerLineTest m = true := by unfold headerLineTest; simp [h.st, isDiffHeader]
  have hgit : decide (m.source = Source.gitDiff) = true := by simp [h.src]
  have e1 := handleCommitMeta_not_mine cfg m l hcr
  have e2 : handleDiffStat cfg m l = .ok (false, m) := rfl
  have e3 := handleDiffHeaderDiff_not_mine cfg m l hdiff
  obtain ⟨y, hy⟩ : ∃ y, y = fileOpUpdate m (parseDiffHeaderLine l.text true).2
    ((repeatedFilePath m.diffLine m.diffLineG).getD []) := ⟨_, rfl⟩
  obtain ⟨k1, k2, k3, k4, k5, k6, k7, k8, k9⟩ := fileOpUpdate_keeps m (parseDiffHeaderLine l.text true).2
    ((repeatedFilePath m.diffLine m.diffLineG).getD [])
  have n1 : y.currentPair ≠ none := by
    rw [hy]; unfold fileOpUpdate; split <;> first | exact h.cp | simp
  rw [← hy] at k1 k2 k3 k4 k5 k6 k7 k8 k9
  have hyst : y.st = .diffHeader dt := k1.trans h.st
  have e4 : handleFileOperation cfg m l = .ok (true, y) := by
    unfold handleFileOperation
    simp only [hlt, hfo, Bool.and_self, Bool.not_true, Bool.false_eq_true, if_false, hgit]
    rw [← hy]
    unfold fileOpFinish shouldWriteGeneric
    simp only [hc.notCO, Bool.false_eq_true, if_false, shouldHandle_diffHeader hc hyst, Bool.true_and]
    have : y.handledPair ≠ y.currentPair := by
      rw [k5, h.hp]; exact fun e => n1 e.symm
    simp [this]
  have ec : chain cfg l Generated.handlerOrder m = .ok y := by
    rw [handlerOrder_split, chain_skip (by rfl) e1, chain_skip (by rfl) e2, chain_skip (by rfl) e3]
    simp only [chain, handlerOf, e4]
  obtain ⟨es, hh⟩ := hdrc_step_of_chain h ec hyst (k2.trans h.src) k3 (k5.trans h.hp) n1 (k4.trans h.mode)
  exact ⟨_, es, hh, fileTL_congr k9, by show y.n + 1 = m.n + 1; rw [k8]⟩

/-- the line naming the old file: name and event are recorded, nothing is written -/
theorem minus_step_c {cfg : Cfg} (hc : FHC cfg) {dt : DiffType} {m : M} {l : L} (h : HdrC dt m)
    (hl : isMinusLine l = true) :
    ∃ m', step cfg m l = .ok m' ∧ HdrC dt m' ∧ fileTL m' = fileTL m ∧ m'.n = m.n + 1 ∧
      m'.minusFile = (parseDiffHeaderLine l.text true).1 ∧ m'.minusEvent = (parseDiffHeaderLine l.text true).2 := by
  unfold isMinusLine at hl
  simp only [Bool.and_eq_true, Bool.not_eq_true'] at hl
  obtain ⟨hsw, hcr⟩ := hl
  obtain ⟨hdiff, hfo, hpl, no⟩ := minusMarker_facts hsw
  have hlt : headerLineTest m = true := by unfold headerLineTest; simp [h.st, isDiffHeader]
  have hgit : decide (m.source = Source.gitDiff) = true := by simp [h.src]
  have hnu : (m.source = Source.diffUnified) = False := by simp [h.src]
  have e1 := handleCommitMeta_not_mine cfg m l hcr
  have e2 : handleDiffStat cfg m l = .ok (false, m) := rfl
  have e3 := handleDiffHeaderDiff_not_mine cfg m l hdiff
  have e4 := handleFileOperation_not_mine cfg m l (by simp [hfo])
  have e5 : handleMinusLine cfg m l = .ok (false, flushMP (minusUpd m l)) := by
    have htest : minusLineTest m l = true := minusLineTest_true m hlt h.cnt hsw
    unfold handleMinusLine shouldWriteGeneric
    simp only [htest, Bool.not_true, Bool.false_eq_true, if_false, hc.notCO, hgit, hnu]
    rfl
  obtain ⟨x, hx⟩ : ∃ x, x = flushMP (minusUpd m l) := ⟨_, rfl⟩
  rw [← hx] at e5
  obtain ⟨k1, k2, k3, k4, k5, k6⟩ := flushMP_keeps (minusUpd m l)
  rw [← hx] at k1 k2 k3 k4 k5 k6
  have hxst : x.st = .diffHeader dt := by rw [hx, flushMP_st]; exact h.st
  have hxsrc : x.source = .gitDiff := by rw [hx, flushMP_source]; exact h.src
  have hxmi : x.modeInfo = m.modeInfo := by rw [hx, flushMP_modeInfo]; rfl
  have hxn : x.n = m.n := by rw [hx, flushMP_n]; rfl
  have hxtl : fileTL x = fileTL m := by rw [hx, fileTL_flushMP]; exact fileTL_congr rfl
  have e6 := handlePlusLine_not_mine cfg x l (by unfold plusLineTest; simp [hpl])
  have ec : chain cfg l Generated.handlerOrder m = .ok (emit (emit (emit x))) := by
    rw [handlerOrder_split, chain_skip (by rfl) e1, chain_skip (by rfl) e2, chain_skip (by rfl) e3, chain_skip (by rfl) e4,
      chain_skip (by rfl) e5, chain_skip (by rfl) e6]
    exact hdr_tail_c hc x l hxst hxsrc no
  obtain ⟨es, hh⟩ := hdrc_step_of_chain h ec hxst hxsrc k1
    (by show x.handledPair = none; rw [k2]; exact h.hp)
    (by show x.currentPair ≠ none; rw [k3]; exact h.cp)
    (by show x.modeInfo = []; rw [hxmi]; exact h.mode)
  refine ⟨_, es, hh, ?_, by show x.n + 1 = m.n + 1; rw [hxn], k4, k5⟩
  show fileTL (emit (emit (emit x))) = fileTL m
  rw [fileTL_emit, fileTL_emit, fileTL_emit, hxtl]

/-- the line naming the new file: exactly one file row is written, for the two names the `--- ` / `+++ ` lines carry;
afterwards nothing is owed -/
theorem plus_step_c {cfg : Cfg} (hc : FHC cfg) {dt : DiffType} {m : M} {l : L} (h : HdrC dt m)
    (hl : isPlusLine l = true) :
    ∃ m', step cfg m l = .ok m' ∧ QG m' ∧ m'.n = m.n + 1 ∧
      fileTL m' = fileTL m ++ [headerRow cfg m.minusFile m.minusEvent l m.n] := by
  unfold isPlusLine at hl
  simp only [Bool.and_eq_true, Bool.not_eq_true'] at hl
  obtain ⟨hpl, hcr⟩ := hl
  obtain ⟨hdiff, hfo, hmn, no⟩ := plusMarker_facts hpl
  have hgit : decide (m.source = Source.gitDiff) = true := by simp [h.src]
  have e1 := handleCommitMeta_not_mine cfg m l hcr
  have e2 : handleDiffStat cfg m l = .ok (false, m) := rfl
  have e3 := handleDiffHeaderDiff_not_mine cfg m l hdiff
  have e4 := handleFileOperation_not_mine cfg m l (by simp [hfo])
  have e5 := handleMinusLine_not_mine cfg m l (minusLineTest_false m hmn)
  obtain ⟨y, hy⟩ : ∃ y, y = flushMP (plusUpd m l) := ⟨_, rfl⟩
  obtain ⟨k1, k2, k3, k4, k5, k6⟩ := flushMP_keeps (plusUpd m l)
  rw [← hy] at k1 k2 k3 k4 k5 k6
  have hyst : y.st = .diffHeader dt := by rw [hy, flushMP_st]; exact h.st
  have hysrc : y.source = .gitDiff := by rw [hy, flushMP_source]; exact h.src
  have hymi : y.modeInfo = m.modeInfo := by rw [hy, flushMP_modeInfo]; rfl
  have hyn : y.n = m.n := by rw [hy, flushMP_n]; rfl
  have hytl : fileTL y = fileTL m := by rw [hy, fileTL_flushMP]; exact fileTL_congr rfl
  have hym : y.minus = [] := by rw [hy]; simp
  have hyp : y.plus = [] := by rw [hy]; simp
  have hyhp : y.handledPair = none := by rw [k2]; exact h.hp
  have hycp : y.currentPair = some (m.minusFile, (parseDiffHeaderLine l.text true).1) := by rw [k3]; rfl
  have e6 : handlePlusLine cfg m l = .ok (false, hdrWritten cfg y) := by
    have htest : plusLineTest m l = true := by unfold plusLineTest; simp [h.st, isDiffHeader, hpl]
    have hsh : shouldHandle cfg y = true := shouldHandle_diffHeader hc hyst
    unfold handlePlusLine
    simp only [htest, Bool.not_true, Bool.false_eq_true, if_false, hgit]
    change Except.ok (plusLineFinish cfg (flushMP (plusUpd m l)) l) = _
    rw [← hy]
    unfold plusLineFinish shouldWriteGeneric
    simp only [hc.notCO, Bool.false_eq_true, if_false, hsh, hyhp, hycp, true_and]
    simp only [ne_eq, reduceCtorEq, not_false_eq_true, if_true]
    rfl
  obtain ⟨s1, s2, s3, s4, s5, s6, s7, s8, s10, s11, s9⟩ := hdrWritten_specA hc y hysrc hym hyp
  obtain ⟨z, hz⟩ : ∃ z, z = hdrWritten cfg y := ⟨_, rfl⟩
  rw [← hz] at e6 s1 s2 s3 s4 s5 s6 s7 s8 s9 s10 s11
  have hzst : z.st = .diffHeader dt := by rw [s1]; exact hyst
  have hzsrc : z.source = .gitDiff := by rw [s2]; exact hysrc
  have ec : chain cfg l Generated.handlerOrder m = .ok (emit (emit (emit z))) := by
    rw [handlerOrder_split, chain_skip (by rfl) e1, chain_skip (by rfl) e2, chain_skip (by rfl) e3, chain_skip (by rfl) e4,
      chain_skip (by rfl) e5, chain_skip (by rfl) e6]
    exact hdr_tail_c hc z l hzst hzsrc no
  have g3 : Good (emit (emit (emit z))) := (chain_step _ ec h.good).good
  refine ⟨{ emit (emit (emit z)) with n := (emit (emit (emit z))).n + 1 }, ?_, ?_, ?_, ?_⟩
  · unfold step; rw [stepInit_git l h.src, ec]
  · refine ⟨⟨⟨s4, s5⟩, ?_, Or.inl hzsrc, ?_, ⟨g3.order, g3.quiet, g3.noPlus⟩⟩, hzsrc⟩
    · show isMergeConflict z.st = false
      rw [hzst]; rfl
    · show z.counter ≤ -4096
      rw [s3, k1]; exact h.cnt
  · show z.n + 1 = m.n + 1
    rw [s6, hyn]
  · show fileTL (emit (emit (emit z))) = _
    rw [fileTL_emit, fileTL_emit, fileTL_emit, s9, hytl, k4, k5, k6, hyn, hymi, h.mode, fileRowTextA_nil]
    rfl

end Machine
