import Proofs.Machine.BodyText
/-!
C01 inside merge-conflict regions of a combined diff.

A region `++<<<<<<< ours` … `++||||||| ancestor` … `++=======` … `++>>>>>>> theirs` is buffered whole
(`handle_merge_conflict_line`: `mcOurs`, `mcAnc`, `mcTheirs`) and painted at its end marker as two
comparisons against the common ancestor (`paint_buffered_merge_conflict_lines`).

Here: what the hunk-line rows of the output are for such a region (`regionRows`): the ancestor
lines and our lines (first comparison), then the ancestor lines and their lines (second
comparison), each with its text (`mcLine`: prefix columns removed, tabs expanded, `-`/`+` kept in
front when markers are requested), in input order within each comparison; the rows shown for the
lines before the region are untouched and come first, whatever follows comes after. Also the
two-way form without `|||||||` (then no ancestor rows).
-/
set_option linter.unusedSimpArgs false
set_option linter.unusedVariables false
namespace Machine.Conflict
open Machine Headers Generated

-- regions -------------------------------------------------------------------------------------

def isBegin (l : L) : Bool := (parseMergeMarker l.text Markers.mcBegin).isSome
def isAnc (l : L) : Bool := (parseMergeMarker l.text Markers.mcAncestral).isSome
def isSep (l : L) : Bool := startsWith l.text Markers.mcTheirs
def isEnd (l : L) : Bool := (parseMergeMarker l.text Markers.mcEnd).isSome

/-- `HunkBody` as a Boolean: not a commit line; empty, or first column blank / `+` / `-` / `\` -/
def bodyB (l : L) : Bool := !l.commitRe && l.text.head?.all bodyChar

/-- a conflict region as it appears in a combined diff -/
structure Region where
  /-- `++<<<<<<< name` -/
  start : L
  ours : List L
  /-- `++||||||| name` and the ancestor lines (diff3 style); `none`: two-way region -/
  anc : Option (L × List L)
  /-- `++=======` -/
  sep : L
  theirs : List L
  /-- `++>>>>>>> name` -/
  fin : L

def Region.ancLines (r : Region) : List L :=
  match r.anc with
  | some (_, as) => as
  | none => []

/-- the marker line and the ancestor lines -/
def Region.ancPart (r : Region) : List L :=
  match r.anc with
  | some (a, as) => a :: as
  | none => []

/-- the input lines of the region, in order -/
def Region.lines (r : Region) : List L :=
  r.start :: (r.ours ++ (r.ancPart ++ (r.sep :: (r.theirs ++ [r.fin]))))

/-- a line inside section `c` of a region: a possible hunk-body line that is not taken for a marker
ending that section (`|||||||` ends ours; `=======` ends ours and ancestor; `>>>>>>>` ends any) -/
def contentOk (c : MCCommit) (l : L) : Bool :=
  bodyB l && (match c with | .ours => !isAnc l | _ => true) &&
    (match c with | .theirs => true | _ => !isSep l) && !isEnd l

/-- the region is what it claims to be: the four markers are markers (with the commit name the
begin / ancestor / end markers need), and no line inside a section is taken for a marker that ends
that section -/
def Region.wf (r : Region) : Bool :=
  !r.start.commitRe && isBegin r.start &&
  r.ours.all (contentOk .ours) &&
  (match r.anc with
   | some (a, as) => !a.commitRe && isAnc a && as.all (contentOk .ancestral)
   | none => true) &&
  !r.sep.commitRe && isSep r.sep &&
  r.theirs.all (contentOk .theirs) &&
  !r.fin.commitRe && isEnd r.fin

/-- a buffered line of a conflict region: `n` prefix columns removed, tabs expanded; `-` (ancestor)
or `+` (ours / theirs) in front when markers are requested -/
def mcLine (cfg : Cfg) (n : Nat) (k : RowKind) (l : L) (idx : Nat) : HLine :=
  { kind := k, pre := if cfg.keepMarkers then (if k = .minus then ['-'] else ['+']) else [],
    text := prepare cfg n l, src := idx }

/-- the buffered lines of a section whose first line has input index `i` -/
def stored (cfg : Cfg) (n : Nat) (k : RowKind) : Nat → List L → List HLine
  | _, [] => []
  | i, l :: ls => mcLine cfg n k l i :: stored cfg n k (i + 1) ls

/-- our lines of a region that starts at input index `k` -/
def Region.oursH (r : Region) (cfg : Cfg) (n k : Nat) : List HLine := stored cfg n .plus (k + 1) r.ours
def Region.ancH (r : Region) (cfg : Cfg) (n k : Nat) : List HLine :=
  stored cfg n .minus (k + 1 + r.ours.length + 1) r.ancLines
def Region.theirsH (r : Region) (cfg : Cfg) (n k : Nat) : List HLine :=
  stored cfg n .plus (k + 1 + r.ours.length + r.ancPart.length + 1) r.theirs

/-- **the hunk-line rows of a region**: ancestor and our lines, then ancestor and their lines -/
def regionRows (cfg : Cfg) (n k : Nat) (r : Region) : List Row :=
  ((r.ancH cfg n k) ++ (r.oursH cfg n k) ++ (r.ancH cfg n k) ++ (r.theirsH cfg n k)).map HLine.row

-- frame lemmas --------------------------------------------------------------------------------

@[simp] theorem flushMP_mcOurs (m : M) : (flushMP m).mcOurs = m.mcOurs := by unfold flushMP; split <;> rfl
@[simp] theorem flushMP_mcAnc (m : M) : (flushMP m).mcAnc = m.mcAnc := by unfold flushMP; split <;> rfl
@[simp] theorem flushMP_mcTheirs (m : M) : (flushMP m).mcTheirs = m.mcTheirs := by unfold flushMP; split <;> rfl
@[simp] theorem direct_mcOurs (m : M) (rows : List Row) : (direct m rows).mcOurs = m.mcOurs := by
  unfold direct; split <;> rfl
@[simp] theorem direct_mcAnc (m : M) (rows : List Row) : (direct m rows).mcAnc = m.mcAnc := by
  unfold direct; split <;> rfl
@[simp] theorem direct_mcTheirs (m : M) (rows : List Row) : (direct m rows).mcTheirs = m.mcTheirs := by
  unfold direct; split <;> rfl
@[simp] theorem emit_mcOurs (m : M) : (emit m).mcOurs = m.mcOurs := rfl
@[simp] theorem emit_mcAnc (m : M) : (emit m).mcAnc = m.mcAnc := rfl
@[simp] theorem emit_mcTheirs (m : M) : (emit m).mcTheirs = m.mcTheirs := rfl

theorem HunkBody_of_bodyB {l : L} (h : bodyB l = true) : HunkBody l := by
  simp only [bodyB, Bool.and_eq_true, Bool.not_eq_true'] at h
  exact ⟨h.1, h.2⟩

theorem parse_none_of_not_startsWith {s p : Str} (h : startsWith s p = false) : parseMergeMarker s p = none := by
  unfold parseMergeMarker stripPrefix; simp [h]

theorem startsWith_of_parse {s p : Str} (h : (parseMergeMarker s p).isSome = true) : startsWith s p = true := by
  cases hs : startsWith s p
  · rw [parse_none_of_not_startsWith hs] at h; cases h
  · rfl

theorem head_of_startsWith {s p : Str} {d : Char} {r : Str} (hp : p = d :: r) (h : startsWith s p = true) :
    s.head? = some d := by
  subst hp
  cases s with
  | nil => simp [startsWith, List.isPrefixOf] at h
  | cons c cs =>
    simp only [startsWith, List.isPrefixOf, Bool.and_eq_true, beq_iff_eq] at h
    simp [h.1]

/-- a marker line (first column `+`) is a possible hunk-body line -/
theorem body_of_plus {l : L} (hc : l.commitRe = false) (hh : l.text.head? = some '+') : HunkBody l :=
  ⟨hc, by rw [hh]; decide⟩

/-- two different markers of the same length cannot both start a line -/
theorem startsWith_excl {s p q : Str} (hl : p.length = q.length) (hne : p ≠ q) (hp : startsWith s p = true) :
    startsWith s q = false := by
  cases hq : startsWith s q
  · rfl
  · exfalso
    unfold startsWith at hp hq
    rw [List.isPrefixOf_iff_prefix] at hp hq
    have h1 := List.prefix_iff_eq_take.mp hp
    have h2 := List.prefix_iff_eq_take.mp hq
    rw [hl] at h1
    exact hne (h1.trans h2.symm)

-- the handler chain in a conflict region --------------------------------------------------------

def mcTail : List String :=
  ["handle_hunk_line", "handle_git_show_file_line", "handle_blame_line", "handle_grep_line", "should_skip_line",
   "emit_line_unchanged"]

theorem order_split : Generated.handlerOrder =
    "handle_commit_meta_header_line" :: "handle_diff_stat_line" :: "handle_diff_header_diff_line" ::
    "handle_diff_header_file_operation_line" :: "handle_diff_header_minus_line" :: "handle_diff_header_plus_line" ::
    "handle_hunk_header_line" :: "handle_diff_header_mode_line" :: "handle_diff_header_misc_line" ::
    "handle_submodule_log_line" :: "handle_submodule_short_line" :: "handle_merge_conflict_line" :: mcTail := by
  decide

/-- a possible hunk-body line, met in a git diff in a state that is neither a file header nor a
pending-submodule state: no handler before `handle_merge_conflict_line` claims it or changes anything -/
theorem chain_to_mc {cfg : Cfg} {m : M} {l : L} (hsrc : m.source = .gitDiff) (hnd : isDiffHeader m.st = false)
    (hsub : submoduleShortTest m l = false) (hb : HunkBody l) :
    chain cfg l Generated.handlerOrder m =
      (match handleMergeConflict cfg m l with
       | .error e => .error e
       | .ok (true, m') => .ok m'
       | .ok (false, m') => chain cfg l mcTail m') := by
  have hlt : headerLineTest m = false := by simp [headerLineTest, hnd, hsrc]
  have e1 := handleCommitMeta_not_mine cfg m l hb.1
  have e3 := handleDiffHeaderDiff_not_mine cfg m l (startsWith_false_of_bodyHead hb.2 nonBody_diffLine)
  have e4 := handleFileOperation_not_mine cfg m l (by simp [hlt])
  have e5 := handleMinusLine_not_mine cfg m l (by simp [minusLineTest, hlt])
  have e6 := handlePlusLine_not_mine cfg m l (by simp [plusLineTest, hnd])
  have e7 := handleHunkHeader_not_mine cfg m l (startsWith_false_of_bodyHead hb.2 nonBody_hunkHeader)
  have e8 := handleModeLine_not_mine cfg m l (startsWith_false_of_bodyHead hb.2 nonBody_oldMode)
    (startsWith_false_of_bodyHead hb.2 nonBody_newMode)
  have e9 := handleMisc_not_mine cfg m l (startsWith_false_of_bodyHead hb.2 nonBody_onlyIn)
    (startsWith_false_of_bodyHead hb.2 nonBody_binaryFiles)
  have e10 := handleSubmoduleLog_not_mine cfg m l (startsWith_false_of_bodyHead hb.2 nonBody_submoduleLog)
  have e11 : handleSubmoduleShort cfg m l = .ok (false, m) := by
    unfold handleSubmoduleShort; simp [hsub]
  rw [order_split]
  simp only [chain, handlerOf, e1, handleDiffStat, e3, e4, e5, e6, e7, e8, e9, e10, e11]
  cases handleMergeConflict cfg m l with
  | error err => rfl
  | ok p =>
    obtain ⟨b, m'⟩ := p
    cases b <;> rfl

theorem storeOr_true {o : Option M} {alt : Except String M} {b : Bool} {m' : M}
    (e : storeOr o alt = .ok (b, m')) : b = true := by
  unfold storeOr at e
  split at e
  · cases e; rfl
  · split at e
    · cases e
    · cases e; rfl

/-- what `handle_merge_conflict_line` does inside a region, by section -/
def mcStep (cfg : Cfg) (m : M) (l : L) (mp : MergeParents) : MCCommit → Except String (Bool × M)
  | .ours => storeOr (enterAncestral m l mp <|> enterTheirs m l mp <|> exitMergeConflict cfg m l mp)
      (storeLine cfg m l .ours mp .plus)
  | .ancestral => storeOr (enterTheirs m l mp <|> exitMergeConflict cfg m l mp) (storeLine cfg m l .ancestral mp .minus)
  | .theirs => storeOr (exitMergeConflict cfg m l mp) (storeLine cfg m l .theirs mp .plus)

/-- the conflict handling is on -/
def McOn (cfg : Cfg) : Prop := cfg.colorOnly = false ∧ cfg.mergeConflicts = true

/-- one line inside a region: the step is `mcStep` -/
theorem step_in_region {cfg : Cfg} {m m2 : M} {l : L} {mp : MergeParents} {c : MCCommit} (hcfg : McOn cfg)
    (hst : m.st = .mergeConflict mp c) (hsrc : m.source = .gitDiff) (hb : HunkBody l)
    (e : step cfg m l = .ok m2) :
    ∃ m', mcStep cfg m l mp c = .ok (true, m') ∧ m2 = { m' with n := m'.n + 1 } := by
  unfold step at e
  have hinit : stepInit m l = m := by unfold stepInit; simp [hsrc]
  rw [hinit, chain_to_mc hsrc (by rw [hst]; rfl) (by unfold submoduleShortTest; simp [hst, pairableHunkHeader]) hb] at e
  have hmc : handleMergeConflict cfg m l = mcStep cfg m l mp c := by
    unfold handleMergeConflict mcStep
    simp only [hcfg.1, hcfg.2, Bool.false_eq_true, not_true_eq_false, or_self, if_false, hst, hunkCombinedParents]
    cases c <;> rfl
  rw [hmc] at e
  cases hs : mcStep cfg m l mp c with
  | error err => simp [hs] at e
  | ok p =>
    obtain ⟨b, m'⟩ := p
    have hb' : b = true := by
      cases c <;> exact storeOr_true hs
    subst hb'
    simp only [hs] at e
    cases e
    exact ⟨m', rfl, rfl⟩

theorem storeLine_eq {cfg : Cfg} {m : M} {l : L} {mp : MergeParents} {n : Nat} (c : MCCommit) (k : RowKind)
    (hn : nParents (.combined mp true) = .ok n) :
    storeLine cfg m l c mp k = .ok (match c with
      | .ours => { m with mcOurs := m.mcOurs ++ [mcLine cfg n k l m.n] }
      | .ancestral => { m with mcAnc := m.mcAnc ++ [mcLine cfg n k l m.n] }
      | .theirs => { m with mcTheirs := m.mcTheirs ++ [mcLine cfg n k l m.n] }) := by
  unfold storeLine
  simp only [hn]
  cases c <;> rfl

/-- the kind under which the lines of a section are buffered -/
def secKind : MCCommit → RowKind
  | .ancestral => .minus
  | _ => .plus

/-- inside section `c` of a region whose conflict buffers are `O`, `A`, `T`; the hunk-line rows
shown so far are those of `base`; `k` input lines consumed -/
structure InR (base : M) (mp : MergeParents) (c : MCCommit) (O A T : List HLine) (k : Nat) (m : M) : Prop where
  st : m.st = .mergeConflict mp c
  source : m.source = .gitDiff
  ours : m.mcOurs = O
  anc : m.mcAnc = A
  theirs : m.mcTheirs = T
  body : bodyTL m = bodyTL base
  n : m.n = k
  good : Good m

theorem isSome_false {α : Type} {o : Option α} (h : o.isSome = false) : o = none := by
  cases o <;> simp_all

/-- a content line of section `c` is buffered in that section -/
theorem store_step {cfg : Cfg} {base m m2 : M} {l : L} {mp : MergeParents} {c : MCCommit} {O A T : List HLine}
    {k n : Nat} (hcfg : McOn cfg) (hn : nParents (.combined mp true) = .ok n) (h : InR base mp c O A T k m)
    (hl : contentOk c l = true) (e : step cfg m l = .ok m2) :
    InR base mp c (match c with | .ours => O ++ [mcLine cfg n (secKind c) l k] | _ => O)
      (match c with | .ancestral => A ++ [mcLine cfg n (secKind c) l k] | _ => A)
      (match c with | .theirs => T ++ [mcLine cfg n (secKind c) l k] | _ => T) (k + 1) m2 := by
  simp only [contentOk, Bool.and_eq_true] at hl
  obtain ⟨⟨⟨hb, hA⟩, hS⟩, hE⟩ := hl
  have g2 := (step_spec e h.good).1
  obtain ⟨m', hm', rfl⟩ := step_in_region hcfg h.st h.source (HunkBody_of_bodyB hb) e
  have hE' : exitMergeConflict cfg m l mp = none := by
    unfold exitMergeConflict
    have : parseMergeMarker l.text Markers.mcEnd = none := isSome_false (by simpa [isEnd] using hE)
    simp [this]
  cases c with
  | ours =>
    have hA' : enterAncestral m l mp = none := by
      unfold enterAncestral
      have : parseMergeMarker l.text Markers.mcAncestral = none := isSome_false (by simpa [isAnc] using hA)
      simp [this]
    have hS' : enterTheirs m l mp = none := by
      unfold enterTheirs; simp only [isSep, Bool.not_eq_true'] at hS; simp [hS]
    simp only [mcStep, hA', hS', hE', storeLine_eq .ours .plus hn, storeOr, HOrElse.hOrElse,
      OrElse.orElse, Option.orElse, Except.ok.injEq, Prod.mk.injEq, true_and] at hm'
    subst hm'
    exact ⟨h.st, h.source, by simp [h.ours, h.n, secKind], h.anc, h.theirs, h.body, by simp [h.n], g2⟩
  | ancestral =>
    have hS' : enterTheirs m l mp = none := by
      unfold enterTheirs; simp only [isSep, Bool.not_eq_true'] at hS; simp [hS]
    simp only [mcStep, hS', hE', storeLine_eq .ancestral .minus hn, storeOr, HOrElse.hOrElse,
      OrElse.orElse, Option.orElse, Except.ok.injEq, Prod.mk.injEq, true_and] at hm'
    subst hm'
    exact ⟨h.st, h.source, h.ours, by simp [h.anc, h.n, secKind], h.theirs, h.body, by simp [h.n], g2⟩
  | theirs =>
    simp only [mcStep, hE', storeLine_eq .theirs .plus hn, storeOr, Except.ok.injEq, Prod.mk.injEq, true_and] at hm'
    subst hm'
    exact ⟨h.st, h.source, h.ours, h.anc, by simp [h.theirs, h.n, secKind], h.body, by simp [h.n], g2⟩

theorem run_ours {cfg : Cfg} {base : M} {mp : MergeParents} {n : Nat} (hcfg : McOn cfg)
    (hn : nParents (.combined mp true) = .ok n) : ∀ (ls : List L) {O A T : List HLine} {k : Nat} {m m' : M},
    InR base mp .ours O A T k m → ls.all (contentOk .ours) = true → runFrom cfg m ls = .ok m' →
    InR base mp .ours (O ++ stored cfg n .plus k ls) A T (k + ls.length) m'
  | [], O, A, T, k, m, m', h, _, e => by simp only [runFrom] at e; cases e; simpa [stored] using h
  | l :: ls, O, A, T, k, m, m', h, hl, e => by
    simp only [runFrom] at e
    split at e
    · cases e
    · rename_i m1 e1
      simp only [List.all_cons, Bool.and_eq_true] at hl
      have h1 : InR base mp .ours (O ++ [mcLine cfg n .plus l k]) A T (k + 1) m1 := store_step hcfg hn h hl.1 e1
      have := run_ours hcfg hn ls h1 hl.2 e
      simp only [stored, List.length_cons]
      rw [show k + (ls.length + 1) = k + 1 + ls.length by omega]
      simpa [List.append_assoc] using this

theorem run_anc {cfg : Cfg} {base : M} {mp : MergeParents} {n : Nat} (hcfg : McOn cfg)
    (hn : nParents (.combined mp true) = .ok n) : ∀ (ls : List L) {O A T : List HLine} {k : Nat} {m m' : M},
    InR base mp .ancestral O A T k m → ls.all (contentOk .ancestral) = true → runFrom cfg m ls = .ok m' →
    InR base mp .ancestral O (A ++ stored cfg n .minus k ls) T (k + ls.length) m'
  | [], O, A, T, k, m, m', h, _, e => by simp only [runFrom] at e; cases e; simpa [stored] using h
  | l :: ls, O, A, T, k, m, m', h, hl, e => by
    simp only [runFrom] at e
    split at e
    · cases e
    · rename_i m1 e1
      simp only [List.all_cons, Bool.and_eq_true] at hl
      have h1 : InR base mp .ancestral O (A ++ [mcLine cfg n .minus l k]) T (k + 1) m1 := store_step hcfg hn h hl.1 e1
      have := run_anc hcfg hn ls h1 hl.2 e
      simp only [stored, List.length_cons]
      rw [show k + (ls.length + 1) = k + 1 + ls.length by omega]
      simpa [List.append_assoc] using this

theorem run_theirs {cfg : Cfg} {base : M} {mp : MergeParents} {n : Nat} (hcfg : McOn cfg)
    (hn : nParents (.combined mp true) = .ok n) : ∀ (ls : List L) {O A T : List HLine} {k : Nat} {m m' : M},
    InR base mp .theirs O A T k m → ls.all (contentOk .theirs) = true → runFrom cfg m ls = .ok m' →
    InR base mp .theirs O A (T ++ stored cfg n .plus k ls) (k + ls.length) m'
  | [], O, A, T, k, m, m', h, _, e => by simp only [runFrom] at e; cases e; simpa [stored] using h
  | l :: ls, O, A, T, k, m, m', h, hl, e => by
    simp only [runFrom] at e
    split at e
    · cases e
    · rename_i m1 e1
      simp only [List.all_cons, Bool.and_eq_true] at hl
      have h1 : InR base mp .theirs O A (T ++ [mcLine cfg n .plus l k]) (k + 1) m1 := store_step hcfg hn h hl.1 e1
      have := run_theirs hcfg hn ls h1 hl.2 e
      simp only [stored, List.length_cons]
      rw [show k + (ls.length + 1) = k + 1 + ls.length by omega]
      simpa [List.append_assoc] using this

-- the markers -----------------------------------------------------------------------------------

theorem body_of_marker {l : L} {p : Str} {r : Str} (hp : p = '+' :: r) (hc : l.commitRe = false)
    (h : startsWith l.text p = true) : HunkBody l :=
  body_of_plus hc (head_of_startsWith hp h)

/-- `++||||||| name` in our section: the ancestor section begins -/
theorem anc_marker_step {cfg : Cfg} {base m m2 : M} {l : L} {mp : MergeParents} {O A T : List HLine} {k : Nat}
    (hcfg : McOn cfg) (h : InR base mp .ours O A T k m) (hc : l.commitRe = false) (ha : isAnc l = true)
    (e : step cfg m l = .ok m2) : InR base mp .ancestral O A T (k + 1) m2 := by
  have g2 := (step_spec e h.good).1
  have hb := body_of_marker (p := Markers.mcAncestral) rfl hc (startsWith_of_parse ha)
  obtain ⟨m', hm', rfl⟩ := step_in_region hcfg h.st h.source hb e
  obtain ⟨c, hc'⟩ := Option.isSome_iff_exists.mp ha
  have hA : enterAncestral m l mp = some { m with st := .mergeConflict mp .ancestral, mcNameAnc := some c } := by
    unfold enterAncestral; simp [hc']
  simp only [mcStep, hA, storeOr, HOrElse.hOrElse, OrElse.orElse, Option.orElse, Except.ok.injEq, Prod.mk.injEq,
    true_and] at hm'
  subst hm'
  exact ⟨rfl, h.source, h.ours, h.anc, h.theirs, h.body, by simp [h.n], g2⟩

/-- `++=======` in our section (two-way region) or in the ancestor section: their section begins -/
theorem sep_step {cfg : Cfg} {base m m2 : M} {l : L} {mp : MergeParents} {c : MCCommit} {O A T : List HLine} {k : Nat}
    (hcfg : McOn cfg) (h : InR base mp c O A T k m) (hnt : c ≠ .theirs) (hc : l.commitRe = false)
    (hs : isSep l = true) (e : step cfg m l = .ok m2) : InR base mp .theirs O A T (k + 1) m2 := by
  have g2 := (step_spec e h.good).1
  have hb := body_of_marker (p := Markers.mcTheirs) rfl hc hs
  obtain ⟨m', hm', rfl⟩ := step_in_region hcfg h.st h.source hb e
  have hT : enterTheirs m l mp = some { m with st := .mergeConflict mp .theirs } := by
    unfold enterTheirs; simp only [isSep] at hs; simp [hs]
  have hA : enterAncestral m l mp = none := by
    unfold enterAncestral
    have : parseMergeMarker l.text Markers.mcAncestral = none :=
      parse_none_of_not_startsWith (startsWith_excl (p := Markers.mcTheirs) (by decide) (by decide) hs)
    simp [this]
  cases c with
  | ours =>
    simp only [mcStep, hA, hT, storeOr, HOrElse.hOrElse, OrElse.orElse, Option.orElse, Except.ok.injEq, Prod.mk.injEq,
      true_and] at hm'
    subst hm'
    exact ⟨rfl, h.source, h.ours, h.anc, h.theirs, h.body, by simp [h.n], g2⟩
  | ancestral =>
    simp only [mcStep, hT, storeOr, HOrElse.hOrElse, OrElse.orElse, Option.orElse, Except.ok.injEq, Prod.mk.injEq,
      true_and] at hm'
    subst hm'
    exact ⟨rfl, h.source, h.ours, h.anc, h.theirs, h.body, by simp [h.n], g2⟩
  | theirs => exact absurd rfl hnt

theorem filter_body_rows {hs : List HLine} (h : ∀ x ∈ hs, isBody x.kind = true) :
    (hs.map HLine.row).filter (fun r => isBody r.kind) = hs.map HLine.row := by
  rw [List.filter_eq_self]
  intro r hr
  obtain ⟨x, hx, rfl⟩ := List.mem_map.mp hr
  exact h x hx

/-- the hunk-line rows `paint_buffered_merge_conflict_lines` adds: ancestor and our lines, then
ancestor and their lines -/
theorem paint_body {cfg : Cfg} {m : M} {mp : MergeParents} (hm : m.minus = []) (hp : m.plus = [])
    (hk : ∀ x ∈ m.mcAnc ++ m.mcOurs ++ m.mcTheirs, isBody x.kind = true) :
    bodyTL (paintMergeConflict cfg m mp) =
      bodyTL m ++ (m.mcAnc ++ m.mcOurs ++ m.mcAnc ++ m.mcTheirs).map HLine.row := by
  have hA : ∀ x ∈ m.mcAnc, isBody x.kind = true := fun x hx => hk x (by simp [hx])
  have hO : ∀ x ∈ m.mcOurs, isBody x.kind = true := fun x hx => hk x (by simp [hx])
  have hT : ∀ x ∈ m.mcTheirs, isBody x.kind = true := fun x hx => hk x (by simp [hx])
  unfold bodyTL
  simp only [paintMergeConflict, mcPaintOne, timeline, hm, hp, direct_out, emit_out, emit_buf, direct_buf,
    direct_minus, direct_plus, emit_minus, emit_plus, direct_mcAnc, emit_mcAnc, direct_mcOurs, emit_mcOurs,
    direct_mcTheirs, emit_mcTheirs, List.map_nil, List.append_nil, List.filter_append, List.map_append,
    filter_body_rows hA, filter_body_rows hO, filter_body_rows hT, mcHeaderRows]
  simp [isBody, List.append_assoc]

/-- `++>>>>>>> name` in their section: the region is painted -/
theorem fin_step {cfg : Cfg} {base m m2 : M} {l : L} {mp : MergeParents} {O A T : List HLine} {k : Nat}
    (hcfg : McOn cfg) (h : InR base mp .theirs O A T k m) (hc : l.commitRe = false) (he : isEnd l = true)
    (hk : ∀ x ∈ A ++ O ++ T, isBody x.kind = true) (e : step cfg m l = .ok m2) :
    m2.st = .hunkZero (.combined mp false) ∧ bodyTL m2 = bodyTL base ++ (A ++ O ++ A ++ T).map HLine.row ∧
      m2.n = k + 1 ∧ Good m2 ∧ m2.source = .gitDiff ∧ m2.mcOurs = [] ∧ m2.mcAnc = [] ∧ m2.mcTheirs = [] := by
  have g2 := (step_spec e h.good).1
  have hb := body_of_marker (p := Markers.mcEnd) rfl hc (startsWith_of_parse he)
  obtain ⟨m', hm', rfl⟩ := step_in_region hcfg h.st h.source hb e
  obtain ⟨c, hc'⟩ := Option.isSome_iff_exists.mp he
  have hE : exitMergeConflict cfg m l mp = some (paintMergeConflict cfg { m with mcNameTheirs := some c } mp) := by
    unfold exitMergeConflict; simp [hc']
  simp only [mcStep, hE, storeOr, Except.ok.injEq, Prod.mk.injEq, true_and] at hm'
  subst hm'
  obtain ⟨hmin, hpl⟩ := h.good.quiet (by rw [h.st]; rfl)
  have hpb := paint_body (cfg := cfg) (m := { m with mcNameTheirs := some c }) (mp := mp) hmin hpl
    (by simpa [h.ours, h.anc, h.theirs] using hk)
  refine ⟨rfl, ?_, ?_, g2, ?_, rfl, rfl, rfl⟩
  · show bodyTL (paintMergeConflict cfg { m with mcNameTheirs := some c } mp) = _
    rw [hpb]
    have : bodyTL { m with mcNameTheirs := some c } = bodyTL m := bodyTL_congr rfl
    rw [this, h.body]
    simp [h.ours, h.anc, h.theirs]
  · show (paintMergeConflict cfg { m with mcNameTheirs := some c } mp).n + 1 = k + 1
    simp [paintMergeConflict, mcPaintOne, h.n]
  · show (paintMergeConflict cfg { m with mcNameTheirs := some c } mp).source = _
    simp [paintMergeConflict, mcPaintOne, h.source]

-- the begin marker ------------------------------------------------------------------------------

theorem mcPendingHeader_spec {cfg : Cfg} {m m1 : M} (e : mcPendingHeader cfg m = .ok m1) :
    bodyTL m1 = bodyTL m ∧ m1.n = m.n ∧ m1.source = m.source ∧ m1.mcOurs = m.mcOurs ∧ m1.mcAnc = m.mcAnc ∧
      m1.mcTheirs = m.mcTheirs := by
  unfold mcPendingHeader at e
  split at e
  · unfold emitHunkHeader at e
    split at e
    · cases e
    · rename_i rows hr
      cases e
      refine ⟨?_, by simp, by simp, by simp, by simp, by simp⟩
      unfold bodyTL
      rw [timeline_direct_flushed, List.filter_append]
      have : rows.filter (fun r => isBody r.kind) = [] := by
        refine filter_nonbody ?_
        intro x hx
        obtain ⟨h1, h2, h3, h4⟩ := hunkHeaderRows_kinds hr x hx
        cases hk' : x.kind <;> simp_all [isBody]
      rw [this]; simp
  · cases e; exact ⟨rfl, rfl, rfl, rfl, rfl, rfl⟩

/-- `++<<<<<<< name` in a combined hunk state: the region begins; nothing is shown yet -/
theorem start_step {cfg : Cfg} {mi m2 : M} {l : L} {mp : MergeParents} (hcfg : McOn cfg) (g : Good mi)
    (hsrc : mi.source = .gitDiff) (hst : hunkCombinedParents mi.st = some mp) (hc : l.commitRe = false)
    (hb : isBegin l = true) (e : step cfg mi l = .ok m2) :
    InR mi mp .ours mi.mcOurs mi.mcAnc mi.mcTheirs (mi.n + 1) m2 := by
  have g2 := (step_spec e g).1
  have hbm := startsWith_of_parse hb
  have hh : l.text.head? = some '+' := head_of_startsWith (p := Markers.mcBegin) rfl hbm
  have hbody := body_of_plus hc hh
  obtain ⟨rest, hrest⟩ : ∃ rest, l.text = '+' :: rest := by
    cases ht : l.text with
    | nil => simp [ht] at hh
    | cons c cs => simp [ht] at hh; subst hh; exact ⟨cs, rfl⟩
  have h1 : startsWith l.text Markers.submoduleShortMinus = false :=
    startsWith_false_of_head hrest (lit := Markers.submoduleShortMinus) rfl (by decide)
  have hnd : isDiffHeader mi.st = false := by
    cases hs : mi.st <;> simp [hs, hunkCombinedParents, isDiffHeader] at hst ⊢
  have hsub : submoduleShortTest mi l = false := by
    unfold submoduleShortTest
    cases hs : mi.st <;> simp [hs, hunkCombinedParents, h1] at hst ⊢
  obtain ⟨c, hc'⟩ := Option.isSome_iff_exists.mp hb
  unfold step at e
  have hinit : stepInit mi l = mi := by unfold stepInit; simp [hsrc]
  rw [hinit, chain_to_mc hsrc hnd hsub hbody] at e
  unfold handleMergeConflict at e
  simp only [hcfg.1, hcfg.2, Bool.false_eq_true, not_true_eq_false, or_self, if_false, hst, hc'] at e
  cases hp : mcPendingHeader cfg mi with
  | error err => simp [hp] at e
  | ok m1 =>
    simp only [hp, Except.ok.injEq] at e
    subst e
    obtain ⟨hb1, hn1, hs1, ho1, ha1, ht1⟩ := mcPendingHeader_spec hp
    refine ⟨rfl, by simp [hs1, hsrc], by simp [ho1], by simp [ha1], by simp [ht1], ?_, by simp [hn1], g2⟩
    have hb2 : bodyTL (flushMP m1) = bodyTL mi := (bodyTL_flushMP m1).trans hb1
    exact (bodyTL_congr (y := flushMP m1) rfl).trans hb2

-- the whole region --------------------------------------------------------------------------------

theorem runFrom_cons_ok {cfg : Cfg} {m m' : M} {l : L} {ls : List L} (e : runFrom cfg m (l :: ls) = .ok m') :
    ∃ m1, step cfg m l = .ok m1 ∧ runFrom cfg m1 ls = .ok m' := by
  simp only [runFrom] at e
  split at e
  · cases e
  · rename_i m1 e1; exact ⟨m1, e1, e⟩

theorem runFrom_append_ok {cfg : Cfg} {m m' : M} {xs ys : List L} (e : runFrom cfg m (xs ++ ys) = .ok m') :
    ∃ m1, runFrom cfg m xs = .ok m1 ∧ runFrom cfg m1 ys = .ok m' := by
  rw [runFrom_append] at e
  split at e
  · cases e
  · rename_i m1 e1; exact ⟨m1, e1, e⟩

theorem stored_kind (cfg : Cfg) (n : Nat) {kd : RowKind} (hk : isBody kd = true) : ∀ (ls : List L) (i : Nat),
    ∀ x ∈ stored cfg n kd i ls, isBody x.kind = true
  | [], i, x, hx => by simp [stored] at hx
  | l :: ls, i, x, hx => by
    simp only [stored, List.mem_cons] at hx
    rcases hx with h | h
    · subst h; exact hk
    · exact stored_kind cfg n hk ls (i + 1) x h

/-- **A conflict region, step by step.** From a combined hunk state of a git diff with empty
conflict buffers, the lines of a well-formed region add exactly `regionRows` to the hunk-line rows,
after the rows already there; afterwards the machine is back in the hunk (`HunkZero`), the buffers
are empty again. -/
theorem runFrom_region {cfg : Cfg} {mi m2 : M} {r : Region} {mp : MergeParents} {n : Nat} (hcfg : McOn cfg)
    (g : Good mi) (hsrc : mi.source = .gitDiff) (hst : hunkCombinedParents mi.st = some mp)
    (hn : nParents (.combined mp true) = .ok n)
    (hempty : mi.mcOurs = [] ∧ mi.mcAnc = [] ∧ mi.mcTheirs = []) (hwf : r.wf = true)
    (e : runFrom cfg mi r.lines = .ok m2) :
    bodyTL m2 = bodyTL mi ++ regionRows cfg n mi.n r ∧ m2.st = .hunkZero (.combined mp false) ∧ Good m2 ∧
      m2.n = mi.n + r.lines.length ∧ m2.source = .gitDiff ∧ m2.mcOurs = [] ∧ m2.mcAnc = [] ∧ m2.mcTheirs = [] := by
  simp only [Region.wf, Bool.and_eq_true, Bool.not_eq_true'] at hwf
  obtain ⟨⟨⟨⟨⟨⟨⟨⟨hsc, hsb⟩, hours⟩, hanc⟩, hpc⟩, hps⟩, htheirs⟩, hfc⟩, hfe⟩ := hwf
  unfold Region.lines at e
  obtain ⟨m1, e1, e⟩ := runFrom_cons_ok e
  have i1 := start_step hcfg g hsrc hst hsc hsb e1
  rw [hempty.1, hempty.2.1, hempty.2.2] at i1
  obtain ⟨mO, eO, e⟩ := runFrom_append_ok e
  have iO := run_ours hcfg hn r.ours i1 hours eO
  simp only [List.nil_append] at iO
  obtain ⟨mA, eA, e⟩ := runFrom_append_ok e
  -- the ancestor part (or none)
  have iA : InR mi mp (match r.anc with | some _ => .ancestral | none => .ours)
      (stored cfg n .plus (mi.n + 1) r.ours) (r.ancH cfg n mi.n) [] (mi.n + 1 + r.ours.length + r.ancPart.length) mA := by
    unfold Region.ancPart at eA
    unfold Region.ancH Region.ancLines Region.ancPart
    cases hra : r.anc with
    | none =>
      simp only [hra, runFrom, Except.ok.injEq] at eA
      subst eA
      simpa [stored] using iO
    | some p =>
      obtain ⟨a, as⟩ := p
      simp only [hra, Bool.and_eq_true, Bool.not_eq_true'] at hanc eA
      obtain ⟨ma, ea, eA⟩ := runFrom_cons_ok eA
      have ia := anc_marker_step hcfg iO hanc.1.1 hanc.1.2 ea
      have := run_anc hcfg hn as ia hanc.2 eA
      simp only [List.nil_append, List.length_cons] at this ⊢
      rw [show mi.n + 1 + r.ours.length + (as.length + 1) = mi.n + 1 + r.ours.length + 1 + as.length by omega]
      exact this
  obtain ⟨mS, eS, e⟩ := runFrom_cons_ok e
  have iS : InR mi mp .theirs (stored cfg n .plus (mi.n + 1) r.ours) (r.ancH cfg n mi.n) []
      (mi.n + 1 + r.ours.length + r.ancPart.length + 1) mS := by
    cases hra : r.anc with
    | none => rw [hra] at iA; exact sep_step hcfg iA (by simp) hpc hps eS
    | some p => rw [hra] at iA; exact sep_step hcfg iA (by simp) hpc hps eS
  obtain ⟨mT, eT, e⟩ := runFrom_append_ok e
  have iT := run_theirs hcfg hn r.theirs iS htheirs eT
  simp only [List.nil_append] at iT
  obtain ⟨mF, eF, e⟩ := runFrom_cons_ok e
  simp only [runFrom, Except.ok.injEq] at e
  subst e
  have hk : ∀ x ∈ r.ancH cfg n mi.n ++ stored cfg n .plus (mi.n + 1) r.ours ++
      stored cfg n .plus (mi.n + 1 + r.ours.length + r.ancPart.length + 1) r.theirs, isBody x.kind = true := by
    intro x hx
    simp only [List.mem_append] at hx
    rcases hx with (hx | hx) | hx
    · exact stored_kind cfg n rfl _ _ x hx
    · exact stored_kind cfg n rfl _ _ x hx
    · exact stored_kind cfg n rfl _ _ x hx
  obtain ⟨h1, h2, h3, h4, h5, h6, h7, h8⟩ := fin_step hcfg iT hfc hfe hk eF
  refine ⟨?_, h1, h4, ?_, h5, h6, h7, h8⟩
  · rw [h2]; rfl
  · rw [h3]
    simp only [Region.lines, List.length_cons, List.length_append, List.length_nil]
    omega

-- whole runs ----------------------------------------------------------------------------------------

theorem runFrom_body_grows {cfg : Cfg} {m m' : M} {ls : List L} (e : runFrom cfg m ls = .ok m') (g : Good m) :
    ∃ more, bodyTL m' = bodyTL m ++ more := by
  obtain ⟨_, ⟨new, hnew⟩, _, _⟩ := runFrom_spec ls e g
  exact ⟨new.filter (fun r => isBody r.kind), by unfold bodyTL; rw [hnew, List.filter_append]⟩

/-- **A merge-conflict region is shown as two comparisons against the common ancestor** (whole runs).
For every configuration that handles conflict regions and every input `pre ++ region ++ post`:
if `pre` leaves delta in a hunk of a combined diff (git source) with empty conflict buffers, then
the hunk-line rows of the output are: the rows shown for `pre` (unchanged, first), then
`regionRows` — the ancestor lines and our lines, then the ancestor lines and their lines, each line's
text intact (`mcLine`), in input order within each comparison —, then whatever `post` adds. -/
theorem run_conflict_region {cfg : Cfg} {pre post : List L} {r : Region} {mi m : M} {mp : MergeParents} {n : Nat}
    (hcfg : McOn cfg) (ei : runFrom cfg {} pre = .ok mi) (hsrc : mi.source = .gitDiff)
    (hst : hunkCombinedParents mi.st = some mp) (hn : nParents (.combined mp true) = .ok n)
    (hempty : mi.mcOurs = [] ∧ mi.mcAnc = [] ∧ mi.mcTheirs = []) (hwf : r.wf = true)
    (e : run cfg (pre ++ (r.lines ++ post)) = .ok m) :
    ∃ after, m.out.filter (fun x => isBody x.kind) = bodyTL mi ++ regionRows cfg n pre.length r ++ after := by
  have hout := (run_spec e).2
  unfold run at e
  split at e
  · cases e
  · rename_i m1 e1
    rw [runFrom_append, ei] at e1
    obtain ⟨m2, e2, e3⟩ := runFrom_append_ok e1
    obtain ⟨gi, _, _, hni⟩ := runFrom_spec pre ei good_init
    have hni : mi.n = pre.length := by simpa using hni
    obtain ⟨hb2, _, g2, _⟩ := runFrom_region hcfg gi hsrc hst hn hempty hwf e2
    obtain ⟨more, hmore⟩ := runFrom_body_grows e3 g2
    have hfin : bodyTL m = bodyTL m1 := tailOps_body _ e
    refine ⟨more, ?_⟩
    rw [← hout]
    show bodyTL m = _
    rw [hfin, hmore, hb2, hni]

/-- … and when the region is the only one of the input (no other line opens a conflict region), the
rows before it are rows of earlier lines and the rows after it rows of later lines: each of our /
their lines is shown exactly once, each ancestor line exactly twice, no marker line at all. -/
theorem run_conflict_region_only {cfg : Cfg} {pre post : List L} {r : Region} {mi m : M} {mp : MergeParents} {n : Nat}
    (hcfg : McOn cfg) (ei : runFrom cfg {} pre = .ok mi) (hsrc : mi.source = .gitDiff)
    (hst : hunkCombinedParents mi.st = some mp) (hn : nParents (.combined mp true) = .ok n)
    (hempty : mi.mcOurs = [] ∧ mi.mcAnc = [] ∧ mi.mcTheirs = []) (hwf : r.wf = true)
    (hmc_pre : ∀ x ∈ pre, startsWith x.text Markers.mcBegin = false)
    (hmc_post : ∀ x ∈ post, startsWith x.text Markers.mcBegin = false)
    (e : run cfg (pre ++ (r.lines ++ post)) = .ok m) :
    ∃ before after, m.out.filter (fun x => isBody x.kind) = before ++ regionRows cfg n pre.length r ++ after ∧
      (∀ x ∈ before, x.src < pre.length) ∧ (∀ x ∈ after, pre.length + r.lines.length ≤ x.src) := by
  have hout := (run_spec e).2
  unfold run at e
  split at e
  · cases e
  · rename_i m1 e1
    rw [runFrom_append, ei] at e1
    obtain ⟨m2, e2, e3⟩ := runFrom_append_ok e1
    obtain ⟨gi, _, _, hni⟩ := runFrom_spec pre ei good_init
    have hni : mi.n = pre.length := by simpa using hni
    have h0 : Inc ({} : M) := ⟨by simp [bodySrcs, bodyTL, timeline], by simp [bodySrcs, bodyTL, timeline]⟩
    obtain ⟨hinc, _, _⟩ := runFrom_inc pre ei hmc_pre rfl good_init h0
    obtain ⟨hb2, hst2, g2, hn2, _⟩ := runFrom_region hcfg gi hsrc hst hn hempty hwf e2
    obtain ⟨more, hmore, hge⟩ := runFrom_body_ext_rows post e3 hmc_post (by rw [hst2]; rfl) g2
    have hfin : bodyTL m = bodyTL m1 := tailOps_body _ e
    refine ⟨bodyTL mi, more, ?_, ?_, ?_⟩
    · rw [← hout]
      show bodyTL m = _
      rw [hfin, hmore, hb2, hni]
    · intro x hx
      have : x.src ∈ bodySrcs mi := List.mem_map_of_mem hx
      have := hinc.below _ this
      omega
    · intro x hx
      have := hge x hx
      omega

-- the indices of the region rows ------------------------------------------------------------------

theorem stored_srcs (cfg : Cfg) (n : Nat) (kd : RowKind) : ∀ (ls : List L) (i : Nat),
    ((stored cfg n kd i ls).map HLine.row).map (·.src) = List.range' i ls.length
  | [], i => by simp [stored]
  | l :: ls, i => by
    simp only [stored, List.map_cons, List.length_cons, List.range'_succ, stored_srcs cfg n kd ls (i + 1)]
    rfl

/-- the input indices of `regionRows`, in display order: ancestor lines, our lines, ancestor lines
again, their lines -/
theorem regionRows_srcs (cfg : Cfg) (n k : Nat) (r : Region) :
    (regionRows cfg n k r).map (·.src) =
      List.range' (k + 1 + r.ours.length + 1) r.ancLines.length ++ List.range' (k + 1) r.ours.length ++
      List.range' (k + 1 + r.ours.length + 1) r.ancLines.length ++
      List.range' (k + 1 + r.ours.length + r.ancPart.length + 1) r.theirs.length := by
  unfold regionRows Region.ancH Region.oursH Region.theirsH
  simp only [List.map_append, stored_srcs]

theorem count_range' (a len j : Nat) : (List.range' a len).count j = if a ≤ j ∧ j < a + len then 1 else 0 := by
  induction len generalizing a with
  | zero => simp
  | succ len ih =>
    rw [List.range'_succ, List.count_cons, ih (a + 1)]
    by_cases h1 : a = j
    · subst h1; simp; omega
    · have : (a == j) = false := by simpa using h1
      simp only [this, Bool.false_eq_true, if_false, Nat.add_zero]
      by_cases h2 : a + 1 ≤ j ∧ j < a + 1 + len
      · rw [if_pos h2, if_pos ⟨by omega, by omega⟩]
      · rw [if_neg h2, if_neg (by omega)]

/-- **Counts.** In the setting of `run_conflict_region_only`: an input index inside the region is the
`src` of exactly two hunk-line rows if it is an ancestor line, of exactly one if it is one of our /
their lines, of none if it is one of the four marker lines. -/
theorem run_conflict_region_counts {cfg : Cfg} {pre post : List L} {r : Region} {mi m : M} {mp : MergeParents} {n : Nat}
    (hcfg : McOn cfg) (ei : runFrom cfg {} pre = .ok mi) (hsrc : mi.source = .gitDiff)
    (hst : hunkCombinedParents mi.st = some mp) (hn : nParents (.combined mp true) = .ok n)
    (hempty : mi.mcOurs = [] ∧ mi.mcAnc = [] ∧ mi.mcTheirs = []) (hwf : r.wf = true)
    (hmc_pre : ∀ x ∈ pre, startsWith x.text Markers.mcBegin = false)
    (hmc_post : ∀ x ∈ post, startsWith x.text Markers.mcBegin = false)
    (e : run cfg (pre ++ (r.lines ++ post)) = .ok m) (j : Nat) (hj1 : pre.length ≤ j)
    (hj2 : j < pre.length + r.lines.length) :
    ((m.out.filter (fun x => isBody x.kind)).map (·.src)).count j =
      (if pre.length + 1 + r.ours.length + 1 ≤ j ∧ j < pre.length + 1 + r.ours.length + 1 + r.ancLines.length then 2
       else if pre.length + 1 ≤ j ∧ j < pre.length + 1 + r.ours.length then 1
       else if pre.length + 1 + r.ours.length + r.ancPart.length + 1 ≤ j ∧
          j < pre.length + 1 + r.ours.length + r.ancPart.length + 1 + r.theirs.length then 1
       else 0) := by
  obtain ⟨before, after, hrows, hbef, haft⟩ :=
    run_conflict_region_only hcfg ei hsrc hst hn hempty hwf hmc_pre hmc_post e
  rw [hrows]
  simp only [List.map_append, List.count_append, regionRows_srcs, count_range']
  have c1 : (before.map (·.src)).count j = 0 := by
    rw [List.count_eq_zero]
    intro hmem
    obtain ⟨x, hx, hxj⟩ := List.mem_map.mp hmem
    have := hbef x hx
    omega
  have c2 : (after.map (·.src)).count j = 0 := by
    rw [List.count_eq_zero]
    intro hmem
    obtain ⟨x, hx, hxj⟩ := List.mem_map.mp hmem
    have := haft x hx
    omega
  rw [c1, c2]
  have hap : r.ancPart.length = r.ancLines.length ∨ r.ancPart.length = r.ancLines.length + 1 := by
    unfold Region.ancPart Region.ancLines
    cases r.anc with
    | none => left; rfl
    | some p => right; simp
  have hap0 : r.ancLines.length ≤ r.ancPart.length := by omega
  have hap1 : r.ancLines.length > 0 → r.ancPart.length = r.ancLines.length + 1 := by
    unfold Region.ancPart Region.ancLines
    cases r.anc with
    | none => simp
    | some p => simp
  split <;> split <;> split <;> simp <;> omega

end Machine.Conflict
