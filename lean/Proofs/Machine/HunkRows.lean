import Proofs.Machine.HunkHeaders
import Proofs.Machine.HunkNames
/-!
C14 / C05: what a hunk-header row shows — the handler-level part.

`hhRowOf cfg p h i` = the rows of kind `hunkHeader` that `emit_hunk_header_line` writes for the `@@` line `h`
(input index `i`) when the machine's two file names are `p`.  `pendHH cfg m` = the same for the header that
is pending in `m`, with the names `m` has now.

* `handleHunkLine_hhrows`: the hunk-line handler appends exactly `pendHH cfg m` to the hunk-header rows of
  the timeline, keeps both names and leaves no header pending;
* `step_rq`: a step from a state with no pending header (and outside a conflict region) writes no
  hunk-header row, whatever the line is (one lemma per handler: the `_fs` lemmas of `Filtered.lean`,
  `handleMergeConflict_rq`, lifted through `chain` and `step`).
-/
set_option linter.unusedSimpArgs false
set_option linter.unusedVariables false
namespace Machine
open Headers Generated HunkNames

/-- the rows of kind `hunkHeader` among `rows` -/
def hhOnly (rows : List Row) : List Row := rows.filter (fun r => pHH r.kind)

/-- the hunk-header rows written for the `@@` line `h` (input index `i`) under the file names `p` -/
def hhRowOf (cfg : Cfg) (p : Str × Str) (h : L) (i : Nat) : List Row :=
  match parseHunkHeader h.text with
  | none => []
  | some hh =>
    match hunkHeaderRows cfg { minusFile := p.1, plusFile := p.2 } hh h.text h.raw i with
    | .ok rows => hhOnly rows
    | .error _ => []

/-- the hunk-header rows the pending header of `m` (if any) gives with the names `m` has now -/
def pendHH (cfg : Cfg) (m : M) : List Row :=
  match m.st with
  | .hunkHeader _ hh line raw src =>
    (match hunkHeaderRows cfg m hh line raw src with
     | .ok rows => hhOnly rows
     | .error _ => [])
  | _ => []

/-- the rows of `emit_hunk_header_line` read nothing of the machine but the two file names -/
theorem hunkHeaderRows_congr {cfg : Cfg} {m1 m2 : M} (h : names m1 = names m2) (hh : HunkHeader) (line raw : Str)
    (src : Nat) : hunkHeaderRows cfg m1 hh line raw src = hunkHeaderRows cfg m2 hh line raw src := by
  simp only [names, Prod.mk.injEq] at h
  obtain ⟨h1, h2⟩ := h
  unfold hunkHeaderRows hunkHeaderText hunkHeaderTextOf
  simp only [h1, h2]

theorem pendHH_of_not_hh {cfg : Cfg} {m : M} (h : isHunkHeader m.st = false) : pendHH cfg m = [] := by
  unfold pendHH
  split
  · rename_i hst; rw [hst] at h; cases h
  · rfl

/-- a pending header of line `h`, read with the names `p` -/
theorem pendHH_eq {cfg : Cfg} {m : M} {h : L} {dt : DiffType} {hh : HunkHeader} {i : Nat} {p : Str × Str}
    (hst : m.st = .hunkHeader dt hh h.text h.raw i) (hp : parseHunkHeader h.text = some hh) (hn : names m = p) :
    pendHH cfg m = hhRowOf cfg p h i := by
  unfold pendHH hhRowOf
  simp only [hst, hp]
  rw [hunkHeaderRows_congr (m1 := m) (m2 := { minusFile := p.1, plusFile := p.2 }) (by rw [hn]; rfl)]

theorem hhTL_of_tl {m m' : M} {rows : List Row} (h : timeline m' = timeline m ++ rows) :
    hhTL m' = hhTL m ++ hhOnly rows := by
  simp [hhTL, ftl, h, List.filter_append, hhOnly]

theorem hunkLinePre_hhrows {cfg : Cfg} {m m2 : M} (e : hunkLinePre cfg m = .ok m2) :
    hhTL m2 = hhTL m ++ pendHH cfg m ∧ m2.st = m.st := by
  unfold hunkLinePre at e
  simp only at e
  have hx : Same m (if m.minus.length > cfg.bufSize ∨ m.plus.length > cfg.bufSize then flushMP m else m) := by
    split
    · exact (Same.refl m).flushMP
    · exact Same.refl m
  have hnx : names (if m.minus.length > cfg.bufSize ∨ m.plus.length > cfg.bufSize then flushMP m else m) = names m := by
    split <;> simp
  generalize (if m.minus.length > cfg.bufSize ∨ m.plus.length > cfg.bufSize then flushMP m else m) = x at e hx hnx
  split at e
  · rename_i dt hh line raw src hst
    unfold emitHunkHeader at e
    split at e
    · cases e
    · rename_i rows hr
      cases e
      have hst' : m.st = .hunkHeader dt hh line raw src := by rw [← hx.st]; exact hst
      have hp : pendHH cfg m = hhOnly rows := by
        unfold pendHH
        simp only [hst']
        rw [hunkHeaderRows_congr (m1 := m) (m2 := emit (flushMP x)) (by simp [hnx]), hr]
      refine ⟨?_, ?_⟩
      · rw [hhTL_of_tl (timeline_direct_flushed x rows), hp]
        simp [hhTL, ftl, hx.tl]
      · rw [direct_st, emit_st, flushMP_st]; exact hx.st
  · rename_i hnot
    cases e
    have hp : pendHH cfg m = [] := by
      apply pendHH_of_not_hh
      rw [← hx.st]
      cases hs : m2.st <;> simp [isHunkHeader]
      rename_i dt hh line raw src
      exact absurd hs (hnot dt hh line raw src)
    exact ⟨by simp [hhTL, ftl, hx.tl, hp], hx.st⟩

/-- `handle_hunk_line` in a hunk state: the pending header (if any) becomes rows — computed with the names the
machine has at that moment —, the line's own row is not a header row, both names are kept -/
theorem handleHunkLine_hhrows {cfg : Cfg} {m m' : M} {l : L} {b : Bool} (hs' : isHunkState m.st = true)
    (g : Good m) (e : handleHunkLine cfg m l = .ok (b, m')) :
    hhTL m' = hhTL m ++ pendHH cfg m ∧ isHunkHeader m'.st = false ∧ names m' = names m := by
  have hnm := handleHunkLine_names e
  unfold handleHunkLine at e
  split at e
  · rename_i hst; simp [hs'] at hst
  · split at e
    · cases e
    · rename_i m2 e2
      split at e
      · cases e
      · rename_i m3 e3
        cases e
        obtain ⟨hrows2, hst2⟩ := hunkLinePre_hhrows e2
        obtain ⟨r2, _, hhdr, _, _⟩ := hunkLinePre_spec e2 g
        have hplus : isHunkPlus m2.st = false → m2.plus = [] := by
          intro hnp
          rw [hst2] at hnp
          rcases isHunkState_cases hs' with h | ⟨dt, h⟩ | ⟨dt, h⟩ | ⟨dt, h⟩
          · exact (hhdr h).2
          · have := (g.quiet (by rw [h]; rfl)).2
            rcases r2.shrink.2 with s | s <;> simp [s, this]
          · have := g.noPlus (by rw [h]; rfl)
            rcases r2.shrink.2 with s | s <;> simp [s, this]
          · rw [h] at hnp; simp [isHunkPlus] at hnp
        obtain ⟨r, htl3, _, hbody⟩ := hunkLinePush_body e3 hplus
        obtain ⟨_, _, hst3⟩ := hunkLinePush_co e3
        refine ⟨?_, hst3, hnm⟩
        have h3 : hhTL (emit m3) = hhTL m2 := by
          have : timeline (emit m3) = timeline m2 ++ [r] := by rw [timeline_emit, htl3]
          rw [hhTL_of_tl this]
          simp [hhOnly, pHH_of_body hbody]
        rw [h3, hrows2]

-- no header pending: no handler writes a hunk-header row -----------------------------------------

/-- what a handler delivers when no header is pending: the hunk-header rows are untouched, and when it
passes the line on nothing is pending still -/
structure RQ (m m' : M) (b : Bool) : Prop where
  rows : hhTL m' = hhTL m
  keep : b = false → isMergeConflict m'.st = false ∧ isHunkHeader m'.st = false

theorem RQ.of_fs {m m' : M} {b : Bool} (h : FS pHH m m' b) (hs : isMergeConflict m.st = false)
    (hq : isHunkHeader m.st = false) : RQ m m' b := by
  refine ⟨h.body, fun _ => ?_⟩
  rcases h.quiet with h1 | h1
  · rw [h1]; exact ⟨hs, hq⟩
  · exact h1

theorem mcPendingHeader_of_not_hh {cfg : Cfg} {m : M} (hq : isHunkHeader m.st = false) :
    mcPendingHeader cfg m = .ok m := by
  unfold mcPendingHeader
  split
  · rename_i hst; rw [hst] at hq; cases hq
  · rfl

/-- `handle_merge_conflict_line` outside a conflict region with no header pending: it may open a region,
but it writes nothing -/
theorem handleMergeConflict_rq {cfg : Cfg} {m m' : M} {l : L} {b : Bool} (hs : isMergeConflict m.st = false)
    (hq : isHunkHeader m.st = false) (e : handleMergeConflict cfg m l = .ok (b, m')) : RQ m m' b := by
  unfold handleMergeConflict at e
  split at e
  · cases e; exact ⟨rfl, fun _ => ⟨hs, hq⟩⟩
  · split at e
    · split at e
      · rw [mcPendingHeader_of_not_hh hq] at e
        simp only at e
        cases e
        refine ⟨?_, fun h => by cases h⟩
        exact (ftl_congr rfl).trans (ftl_flushMP m)
      · cases e; exact ⟨rfl, fun _ => ⟨hs, hq⟩⟩
    · split at e <;> first
        | (rename_i hst; rw [hst] at hs; simp [isMergeConflict] at hs)
        | (cases e; exact ⟨rfl, fun _ => ⟨hs, hq⟩⟩)

theorem handlerOf_rq {name : String} {hd : Handler} (hn : handlerOf name = some hd)
    {cfg : Cfg} {m m' : M} {l : L} {b : Bool} (hs : isMergeConflict m.st = false) (hq : isHunkHeader m.st = false)
    (g : Good m) (e : hd cfg m l = .ok (b, m')) : RQ m m' b := by
  unfold handlerOf at hn
  split at hn <;> first
    | (cases hn
       first
         | exact RQ.of_fs (handleCommitMeta_fs minor_pHH hs e) hs hq
         | exact RQ.of_fs (handleDiffStat_fs minor_pHH hs e) hs hq
         | exact RQ.of_fs (handleDiffHeaderDiff_fs minor_pHH hs e) hs hq
         | exact RQ.of_fs (handleFileOperation_fs minor_pHH hs e) hs hq
         | exact RQ.of_fs (handleMinusLine_fs minor_pHH hs e) hs hq
         | exact RQ.of_fs (handlePlusLine_fs minor_pHH hs e) hs hq
         | exact RQ.of_fs (handleModeLine_fs minor_pHH hs e) hs hq
         | exact RQ.of_fs (handleMisc_fs minor_pHH hs e) hs hq
         | exact RQ.of_fs (handleSubmoduleLog_fs minor_pHH hs e) hs hq
         | exact RQ.of_fs (handleSubmoduleShort_fs minor_pHH hs e) hs hq
         | exact handleMergeConflict_rq hs hq e
         | exact RQ.of_fs (handleGitShowFile_fs minor_pHH hs e) hs hq
         | exact RQ.of_fs (handleBlame_fs minor_pHH hs e) hs hq
         | exact RQ.of_fs (handleGrep_fs minor_pHH hs e) hs hq
         | exact RQ.of_fs (handleShouldSkip_fs minor_pHH hs e) hs hq
         | exact RQ.of_fs (handleEmitUnchanged_fs minor_pHH hs e) hs hq
         | (-- handle_hunk_header_line
            obtain ⟨fv, h⟩ := handleHunkHeader_fv (p := pHH) e
            rcases h with ⟨hb, hm⟩ | ⟨hb, _⟩
            · subst hb; subst hm; exact ⟨rfl, fun _ => ⟨hs, hq⟩⟩
            · subst hb; exact ⟨fv.body, fun h => by cases h⟩)
         | (-- handle_hunk_line
            cases hh : isHunkState m.st
            · unfold handleHunkLine at e
              simp only [hh, Bool.not_false, if_true] at e
              cases e
              exact ⟨rfl, fun _ => ⟨hs, hq⟩⟩
            · obtain ⟨hb, _, hnomc, _⟩ := handleHunkLine_body hh g e
              obtain ⟨hr, hq', _⟩ := handleHunkLine_hhrows hh g e
              rw [pendHH_of_not_hh hq, List.append_nil] at hr
              exact ⟨hr, fun _ => ⟨hnomc, hq'⟩⟩))
    | cases hn

theorem chain_rq {cfg : Cfg} {l : L} : ∀ (ns : List String) {m m' : M}, chain cfg l ns m = .ok m' →
    isMergeConflict m.st = false → isHunkHeader m.st = false → Good m → hhTL m' = hhTL m
  | [], m, m', e, _, _, _ => by simp only [chain] at e; cases e; rfl
  | name :: rest, m, m', e, hs, hq, g => by
    simp only [chain] at e
    split at e
    · cases e
    · rename_i hd hn
      split at e
      · cases e
      · rename_i m1 e1
        cases e
        exact (handlerOf_rq hn hs hq g e1).rows
      · rename_i m1 e1
        have c := handlerOf_rq hn hs hq g e1
        have g1 := (handlerOf_step hn e1 g).good
        obtain ⟨hs1, hq1⟩ := c.keep rfl
        exact (chain_rq rest e hs1 hq1 g1).trans c.rows

theorem stepInit_st_eq (m : M) (l : L) : (stepInit m l).st = m.st := by
  unfold stepInit armCounter
  repeat' split
  all_goals rfl

theorem timeline_stepInit (m : M) (l : L) : timeline (stepInit m l) = timeline m := by
  unfold stepInit armCounter
  repeat' split
  all_goals rfl

/-- **no header pending, no hunk-header row**: a step from a state outside a conflict region in which no hunk
header is pending leaves the hunk-header rows alone, for every line and every configuration -/
theorem step_rq {cfg : Cfg} {m m' : M} {l : L} (e : step cfg m l = .ok m') (hs : isMergeConflict m.st = false)
    (hq : isHunkHeader m.st = false) (g : Good m) : hhTL m' = hhTL m := by
  unfold step at e
  split at e
  · cases e
  · rename_i m2 e2
    cases e
    have hst := stepInit_st_eq m l
    have h := chain_rq _ e2 (by rw [hst]; exact hs) (by rw [hst]; exact hq) (stepInit_stepS l g).good
    show hhTL m2 = hhTL m
    rw [h]
    exact ftl_congr (timeline_stepInit m l)

end Machine
