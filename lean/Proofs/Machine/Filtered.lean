import Proofs.Machine.Claims
import Proofs.Machine.ColorOnly
/-!
Filtered timelines: generic frame reasoning for "rows of a given kind".

`ftl p m`: the rows of the timeline whose kind satisfies `p`, in display order. If `p` rejects
every kind of row that is written outside `handle_hunk_line` (`Minor p`: raw, commit, file, blank,
decoration, submodule, blame, grep rows), then every other handler leaves `ftl p` unchanged,
whatever it writes and whether or not rows are still buffered. Instances: the hunk-line rows
(`BodyOrder.lean`, C01) and the hunk-header rows (`HunkHeaders.lean`, C14).
-/
set_option linter.unusedSimpArgs false
set_option linter.unusedVariables false
namespace Machine
open Headers

/-- a row predicate (by kind) that rejects every kind of row written outside `handle_hunk_line` -/
structure Minor (p : RowKind → Bool) : Prop where
  raw : p .raw = false
  commit : p .commit = false
  file : p .file = false
  blank : p .blank = false
  deco : p .deco = false
  submodule : p .submodule = false
  blame : p .blame = false
  grep : p .grep = false

variable {p : RowKind → Bool}

/-- the rows of the timeline selected by `p`, in display order -/
def ftl (p : RowKind → Bool) (m : M) : List Row := (timeline m).filter (fun r => p r.kind)

theorem ftl_congr {x y : M} (h : timeline x = timeline y) : ftl p x = ftl p y := by
  unfold ftl; rw [h]

theorem ftl_emit (m : M) : ftl p (emit m) = ftl p m := ftl_congr (timeline_emit m)
theorem ftl_flushMP (m : M) : ftl p (flushMP m) = ftl p m := ftl_congr (timeline_flushMP m)

theorem filter_rejected {rows : List Row} (h : ∀ r ∈ rows, p r.kind = false) :
    rows.filter (fun r => p r.kind) = [] := by
  rw [List.filter_eq_nil_iff]
  intro r hr; simp [h r hr]

theorem ftl_direct (m : M) {rows : List Row} (h : ∀ r ∈ rows, p r.kind = false) :
    ftl p (direct m rows) = ftl p m := by
  unfold direct
  split
  · rfl
  · simp [ftl, timeline, List.filter_append, filter_rejected h]

theorem drawRows_rejected (hpm : Minor p) (st : ElemStyle) {k : RowKind} (t r a : Str) (src : Nat) (hk : p k = false) :
    ∀ row ∈ drawRows st k t r a src, p row.kind = false := by
  have hpraw := hpm.raw
  have hpdeco := hpm.deco
  intro row hrow
  unfold drawRows at hrow
  cases hd : st.deco <;> cases hraw : st.isRaw <;> simp [hd, hraw] at hrow
  all_goals first
    | (rcases hrow with h | h | h <;> subst h <;> first | exact hk | exact hpraw | exact hpdeco)
    | (rcases hrow with h | h <;> subst h <;> first | exact hk | exact hpraw | exact hpdeco)
    | (subst hrow; first | exact hk | exact hpraw | exact hpdeco)

/-- `x` shows the same selected rows as `m` and is at the same input line -/
structure FV (p : RowKind → Bool) (m x : M) : Prop where
  body : ftl p x = ftl p m
  n : x.n = m.n
  source : x.source = m.source

theorem FV.refl (m : M) : FV p m m := ⟨rfl, rfl, rfl⟩

theorem FV.of_tl {m x x' : M} (h : FV p m x) (ht : timeline x' = timeline x) (hn : x'.n = x.n)
    (hsrc : x'.source = x.source := by rfl) : FV p m x' :=
  ⟨(ftl_congr ht).trans h.body, hn.trans h.n, hsrc.trans h.source⟩

theorem FV.emit {m x : M} (h : FV p m x) : FV p m (emit x) := h.of_tl (timeline_emit x) rfl
theorem FV.flushMP {m x : M} (h : FV p m x) : FV p m (flushMP x) := h.of_tl (timeline_flushMP x) (flushMP_n x) (flushMP_source x)

theorem FV.direct {m x : M} (h : FV p m x) {rows : List Row} (hr : ∀ r ∈ rows, p r.kind = false) :
    FV p m (direct x rows) :=
  ⟨(ftl_direct x hr).trans h.body, (direct_n x rows).trans h.n, (direct_source x rows).trans h.source⟩

theorem FV.writeGeneric {m x : M} (hpm : Minor p) (h : FV p m x) (cfg : Cfg) (t r : Str) : FV p m (writeGeneric cfg x t r) := by
  unfold Machine.writeGeneric
  split
  · exact h.of_tl rfl rfl
  · refine (h.direct (rows := _) ?_).of_tl rfl rfl
    intro row hrow
    rcases List.mem_append.mp hrow with h1 | h1
    · split at h1
      · cases h1
      · simp at h1; subst h1; exact hpm.blank
    · exact drawRows_rejected hpm _ _ _ _ _ hpm.file row h1

theorem FV.handleHeaderLine {m x : M} (hpm : Minor p) (h : FV p m x) (cfg : Cfg) (c : Bool) : FV p m (handleHeaderLine cfg x c) := by
  unfold Machine.handleHeaderLine; exact h.writeGeneric hpm cfg _ _

theorem FV.emitLineUnchanged {m x : M} (hpm : Minor p) (h : FV p m x) (l : L) : FV p m (emitLineUnchanged x l) := by
  unfold Machine.emitLineUnchanged
  refine h.flushMP.emit.direct ?_
  intro r hr; simp at hr; subst hr; exact hpm.raw

theorem pendingDiffName_st (cfg : Cfg) (m : M) : (pendingDiffName cfg m).st = m.st := by
  unfold pendingDiffName
  split
  · rfl
  · split
    · simp
    · split
      · rfl
      · split
        · simp
        · rfl

theorem FV.pendingDiffName {m x : M} (hpm : Minor p) (h : FV p m x) (cfg : Cfg) : FV p m (pendingDiffName cfg x) := by
  unfold Machine.pendingDiffName
  split
  · exact h
  · split
    · exact (h.emit.writeGeneric hpm cfg _ _).of_tl rfl rfl
    · split
      · exact h
      · split
        · exact (h.emit.handleHeaderLine hpm cfg _).of_tl rfl rfl
        · exact h

/-- the state is unchanged, or it is neither a conflict-region state nor a pending hunk header -/
def Quiet (s s' : State) : Prop := s' = s ∨ (isMergeConflict s' = false ∧ isHunkHeader s' = false)

/-- a handler that leaves the selected rows alone (and does not create a pending hunk header) -/
structure FS (p : RowKind → Bool) (m m' : M) (b : Bool) : Prop where
  n : m'.n = m.n
  quiet : Quiet m.st m'.st
  body : ftl p m' = ftl p m
  source : m'.source = m.source

theorem FS.nomc {m m' : M} {b : Bool} (h : FS p m m' b) (hs : isMergeConflict m.st = false) :
    isMergeConflict m'.st = false := by
  rcases h.quiet with h1 | h1
  · rw [h1]; exact hs
  · exact h1.1

theorem FS.of_fv {m m' : M} {b : Bool} (h : FV p m m') (hq : Quiet m.st m'.st) : FS p m m' b :=
  ⟨h.n, hq, h.body, h.source⟩

-- handlers ------------------------------------------------------------------

theorem FS.pass {m : M} {b : Bool} (hs : isMergeConflict m.st = false) : FS p m m b := FS.of_fv (FV.refl m) (Or.inl rfl)

theorem handleCommitMeta_fs {cfg : Cfg} {m m' : M} {l : L} {b : Bool} (hpm : Minor p) (hs : isMergeConflict m.st = false)
    (e : handleCommitMeta cfg m l = .ok (b, m')) : FS p m m' b := by
  unfold handleCommitMeta at e
  have c : FV p m { pendingDiffName cfg (flushMP m) with st := State.commitMeta } :=
    ((FV.refl m).flushMP.pendingDiffName hpm cfg).of_tl rfl rfl
  split at e
  · cases e; exact FS.pass hs
  · split at e
    · split at e
      · cases e; exact FS.of_fv c.emit (Or.inr ⟨rfl, rfl⟩)
      · cases e
        refine FS.of_fv (c.emit.direct (drawRows_rejected hpm _ _ _ _ _ hpm.commit)) (Or.inr ⟨?_, ?_⟩)
        · rw [direct_st]; rfl
        · rw [direct_st]; rfl
    · cases e; exact FS.of_fv c (Or.inr ⟨rfl, rfl⟩)

theorem handleDiffStat_fs {cfg : Cfg} {m m' : M} {l : L} {b : Bool} (hpm : Minor p) (hs : isMergeConflict m.st = false)
    (e : handleDiffStat cfg m l = .ok (b, m')) : FS p m m' b := by
  unfold handleDiffStat at e; cases e; exact FS.pass hs

theorem diffLineState_nomc (l : L) : isMergeConflict (diffLineState l) = false := by
  unfold diffLineState; split <;> rfl
theorem diffLineState_nohh (l : L) : isHunkHeader (diffLineState l) = false := by
  unfold diffLineState; split <;> rfl

theorem handleDiffHeaderDiff_fs {cfg : Cfg} {m m' : M} {l : L} {b : Bool} (hpm : Minor p) (hs : isMergeConflict m.st = false)
    (e : handleDiffHeaderDiff cfg m l = .ok (b, m')) : FS p m m' b := by
  unfold handleDiffHeaderDiff at e
  have c1 : FV p m { flushMP m with st := diffLineState l } := (FV.refl m).flushMP.of_tl rfl rfl
  have c3 : FV p m (diffLineFields (pendingDiffName cfg { flushMP m with st := diffLineState l }) l) :=
    (c1.pendingDiffName hpm cfg).of_tl rfl rfl
  have hst : (diffLineFields (pendingDiffName cfg { flushMP m with st := diffLineState l }) l).st = diffLineState l :=
    pendingDiffName_st cfg _
  split at e
  · cases e; exact FS.pass hs
  · split at e
    · cases e; exact FS.of_fv c3 (Or.inr ⟨by rw [hst]; exact diffLineState_nomc l, by rw [hst]; exact diffLineState_nohh l⟩)
    · cases e
      exact FS.of_fv (c3.emitLineUnchanged hpm l) (Or.inr ⟨by rw [emitLineUnchanged_st, hst]; exact diffLineState_nomc l, by rw [emitLineUnchanged_st, hst]; exact diffLineState_nohh l⟩)

theorem shouldWriteGeneric_fv (hpm : Minor p) (cfg : Cfg) {m x : M} (l : L) (h : FV p m x) :
    FV p m (shouldWriteGeneric cfg x l).2 ∧ (shouldWriteGeneric cfg x l).2.st = x.st := by
  unfold shouldWriteGeneric
  split
  · exact ⟨h.flushMP.emit.writeGeneric hpm cfg _ _, by simp⟩
  · exact ⟨h, rfl⟩

theorem fileOpUpdate_fv {m x : M} (ev : FileEvent) (nm : Str) (h : FV p m x) :
    FV p m (fileOpUpdate x ev nm) ∧ (fileOpUpdate x ev nm).st = x.st := by
  unfold fileOpUpdate
  split <;> exact ⟨h.of_tl rfl rfl, rfl⟩

theorem handleFileOperation_fs {cfg : Cfg} {m m' : M} {l : L} {b : Bool} (hpm : Minor p) (hs : isMergeConflict m.st = false)
    (e : handleFileOperation cfg m l = .ok (b, m')) : FS p m m' b := by
  unfold handleFileOperation at e
  split at e
  · cases e; exact FS.pass hs
  · simp only [Except.ok.injEq] at e
    obtain rfl : m' = _ := (congrArg Prod.snd e).symm
    obtain ⟨c, hst⟩ := fileOpUpdate_fv (m := m) (parseDiffHeaderLine l.text (decide (m.source = Source.gitDiff))).2
      ((repeatedFilePath m.diffLine m.diffLineG).getD []) (FV.refl m)
    unfold fileOpFinish
    split
    · obtain ⟨c2, hst2⟩ := shouldWriteGeneric_fv hpm cfg l c
      exact FS.of_fv c2 (Or.inl (by rw [hst2, hst]))
    · exact FS.of_fv c (Or.inl (by rw [hst]))

theorem handleMinusLine_fs {cfg : Cfg} {m m' : M} {l : L} {b : Bool} (hpm : Minor p) (hs : isMergeConflict m.st = false)
    (e : handleMinusLine cfg m l = .ok (b, m')) : FS p m m' b := by
  unfold handleMinusLine at e
  split at e
  · cases e; exact FS.pass hs
  · simp only [Except.ok.injEq] at e
    obtain rfl : m' = _ := (congrArg Prod.snd e).symm
    have key : ∀ x : M, timeline x = timeline m → x.n = m.n → x.source = m.source → Quiet m.st x.st →
        FS p m (shouldWriteGeneric cfg (flushMP x) l).2 b := by
      intro x ht hn hsx hx
      obtain ⟨c2, hst2⟩ := shouldWriteGeneric_fv hpm cfg l (FV.flushMP ((FV.refl m).of_tl ht hn hsx))
      exact FS.of_fv c2 (by rw [hst2, flushMP_st]; exact hx)
    refine key _ rfl rfl rfl ?_
    dsimp only
    split
    · exact Or.inr ⟨rfl, rfl⟩
    · exact Or.inl rfl

theorem plusLineFinish_fv (hpm : Minor p) (cfg : Cfg) {m x : M} (l : L) (h : FV p m x) :
    FV p m (plusLineFinish cfg x l).2 ∧ (plusLineFinish cfg x l).2.st = x.st := by
  unfold plusLineFinish
  split
  · exact shouldWriteGeneric_fv hpm cfg l h
  · split
    · exact ⟨(h.emit.handleHeaderLine hpm cfg _).of_tl rfl rfl, by simp⟩
    · exact ⟨h, rfl⟩

theorem handlePlusLine_fs {cfg : Cfg} {m m' : M} {l : L} {b : Bool} (hpm : Minor p) (hs : isMergeConflict m.st = false)
    (e : handlePlusLine cfg m l = .ok (b, m')) : FS p m m' b := by
  unfold handlePlusLine at e
  split at e
  · cases e; exact FS.pass hs
  · simp only [Except.ok.injEq] at e
    obtain rfl : m' = _ := (congrArg Prod.snd e).symm
    have key : ∀ x : M, timeline x = timeline m → x.n = m.n → x.source = m.source → Quiet m.st x.st →
        FS p m (plusLineFinish cfg (flushMP x) l).2 b := by
      intro x ht hn hsx hx
      obtain ⟨c2, hst2⟩ := plusLineFinish_fv hpm cfg l (FV.flushMP ((FV.refl m).of_tl ht hn hsx))
      exact FS.of_fv c2 (by rw [hst2, flushMP_st]; exact hx)
    exact key _ rfl rfl rfl (Or.inl rfl)

/-- `handle_hunk_header_line`: writes nothing; when it claims the line the state becomes the pending
hunk header for this very line -/
theorem handleHunkHeader_fv {cfg : Cfg} {m m' : M} {l : L} {b : Bool}
    (e : handleHunkHeader cfg m l = .ok (b, m')) :
    FV p m m' ∧ ((b = false ∧ m' = m) ∨
      (b = true ∧ startsWith l.text Generated.Markers.hunkHeader = true ∧ isMergeConflict m.st = false ∧
        ∃ dt hh, parseHunkHeader l.text = some hh ∧ m'.st = .hunkHeader dt hh l.text l.raw m.n)) := by
  unfold handleHunkHeader at e
  split at e
  · cases e; exact ⟨FV.refl m, Or.inl ⟨rfl, rfl⟩⟩
  · rename_i ht
    split at e
    · cases e; exact ⟨FV.refl m, Or.inl ⟨rfl, rfl⟩⟩
    · rename_i hh hparse
      cases e
      refine ⟨(FV.refl m).of_tl rfl rfl, Or.inr ⟨rfl, ?_, ?_, _, hh, hparse, rfl⟩⟩
      · cases h : startsWith l.text Generated.Markers.hunkHeader
        · simp [h] at ht
        · rfl
      · cases h : isMergeConflict m.st
        · rfl
        · simp [h] at ht

theorem handleModeLine_fs {cfg : Cfg} {m m' : M} {l : L} {b : Bool} (hpm : Minor p) (hs : isMergeConflict m.st = false)
    (e : handleModeLine cfg m l = .ok (b, m')) : FS p m m' b := by
  unfold handleModeLine at e
  split at e
  · split at e <;> (cases e; exact FS.of_fv ((FV.refl m).of_tl rfl rfl) (Or.inr ⟨rfl, rfl⟩))
  · split at e
    · split at e <;> (cases e; exact FS.of_fv ((FV.refl m).of_tl rfl rfl) (Or.inr ⟨rfl, rfl⟩))
    · cases e; exact FS.pass hs

/-- `handle_additional_cases` run on a machine `m` that came from `m0` without touching the rows selected by `p` -/
theorem handleAdditionalCases_fs_from {cfg : Cfg} {m0 m m' : M} {l : L} {b : Bool} (hpm : Minor p) {to : State}
    (c0 : FV p m0 m) (hto : Quiet m0.st to) (e : handleAdditionalCases cfg m l to = .ok (b, m')) : FS p m0 m' b := by
  unfold handleAdditionalCases at e
  have c : FV p m0 { flushMP m with st := to } := c0.flushMP.of_tl rfl rfl
  split at e
  · cases e; exact FS.of_fv (c.emit.writeGeneric hpm cfg _ _) (by simpa using hto)
  · cases e; exact FS.of_fv c hto

theorem handleAdditionalCases_fs {cfg : Cfg} {m m' : M} {l : L} {b : Bool} (hpm : Minor p) {to : State}
    (hto : Quiet m.st to) (e : handleAdditionalCases cfg m l to = .ok (b, m')) : FS p m m' b :=
  handleAdditionalCases_fs_from hpm (FV.refl m) hto e

theorem handleMisc_fs {cfg : Cfg} {m m' : M} {l : L} {b : Bool} (hpm : Minor p) (hs : isMergeConflict m.st = false)
    (e : handleMisc cfg m l = .ok (b, m')) : FS p m m' b := by
  unfold handleMisc at e
  simp only at e
  split at e
  · cases e; exact FS.pass hs
  · split at e
    · split at e
      · cases e
        exact FS.of_fv (((FV.refl m).emitLineUnchanged hpm l).of_tl rfl rfl) (Or.inl (by
          show (emitLineUnchanged m l).st = m.st
          rw [emitLineUnchanged_st]))
      · cases e; exact FS.of_fv ((FV.refl m).of_tl rfl rfl) (Or.inl rfl)
    · refine handleAdditionalCases_fs hpm ?_ e
      split
      · exact Or.inl rfl
      · exact Or.inr ⟨rfl, rfl⟩

theorem handleSubmoduleLog_fs {cfg : Cfg} {m m' : M} {l : L} {b : Bool} (hpm : Minor p) (hs : isMergeConflict m.st = false)
    (e : handleSubmoduleLog cfg m l = .ok (b, m')) : FS p m m' b := by
  unfold handleSubmoduleLog at e
  split at e
  · cases e; exact FS.pass hs
  · exact handleAdditionalCases_fs_from hpm ((FV.refl m).flushMP.pendingDiffName hpm cfg) (Or.inr ⟨rfl, rfl⟩) e

theorem handleSubmoduleShort_fs {cfg : Cfg} {m m' : M} {l : L} {b : Bool} (hpm : Minor p) (hs : isMergeConflict m.st = false)
    (e : handleSubmoduleShort cfg m l = .ok (b, m')) : FS p m m' b := by
  unfold handleSubmoduleShort at e
  split at e
  · cases e; exact FS.pass hs
  · split at e
    · cases e; exact FS.pass hs
    · split at e
      · cases e; exact FS.of_fv ((FV.refl m).of_tl rfl rfl) (Or.inr ⟨rfl, rfl⟩)
      · cases e
        refine FS.of_fv ((FV.refl m).flushMP.emit.direct ?_) (Or.inl (by rw [direct_st, emit_st, flushMP_st]))
        intro r hr; simp at hr; subst hr; exact hpm.submodule
      · cases e; exact FS.pass hs

/-- with no line opening a conflict region, the merge-conflict handler never claims a line -/
theorem handleMergeConflict_fs {cfg : Cfg} {m m' : M} {l : L} {b : Bool} (hpm : Minor p) (hs : isMergeConflict m.st = false)
    (hmc : startsWith l.text Generated.Markers.mcBegin = false)
    (e : handleMergeConflict cfg m l = .ok (b, m')) : FS p m m' b := by
  unfold handleMergeConflict at e
  split at e
  · cases e; exact FS.pass hs
  · split at e
    · have : parseMergeMarker l.text Generated.Markers.mcBegin = none := by
        unfold parseMergeMarker stripPrefix; simp [hmc]
      simp only [this] at e
      cases e; exact FS.pass hs
    · split at e <;> first
        | (rename_i hst; rw [hst] at hs; simp [isMergeConflict] at hs)
        | (cases e; exact FS.pass hs)

theorem handleGitShowFile_fs {cfg : Cfg} {m m' : M} {l : L} {b : Bool} (hpm : Minor p) (hs : isMergeConflict m.st = false)
    (e : handleGitShowFile cfg m l = .ok (b, m')) : FS p m m' b := by
  unfold handleGitShowFile at e; cases e; exact FS.of_fv (FV.refl m).emit (Or.inl rfl)

theorem handleBlame_fs {cfg : Cfg} {m m' : M} {l : L} {b : Bool} (hpm : Minor p) (hs : isMergeConflict m.st = false)
    (e : handleBlame cfg m l = .ok (b, m')) : FS p m m' b := by
  unfold handleBlame at e
  simp only at e
  split at e
  · cases e
    refine FS.of_fv (((FV.refl m).emit.direct ?_).of_tl rfl rfl) (Or.inr ⟨rfl, rfl⟩)
    intro r hr; simp at hr; subst hr; exact hpm.blame
  · cases e; exact FS.of_fv (FV.refl m).emit (Or.inl rfl)

theorem handleGrep_fs {cfg : Cfg} {m m' : M} {l : L} {b : Bool} (hpm : Minor p) (hs : isMergeConflict m.st = false)
    (e : handleGrep cfg m l = .ok (b, m')) : FS p m m' b := by
  unfold handleGrep at e
  simp only at e
  split at e
  · split at e
    · cases e; exact FS.of_fv (FV.refl m).emit (Or.inl rfl)
    · cases e
      refine FS.of_fv (((FV.refl m).emit.direct ?_).of_tl rfl rfl) (Or.inr ⟨rfl, rfl⟩)
      intro r hr; simp at hr; subst hr; exact hpm.grep
  · cases e; exact FS.of_fv (FV.refl m).emit (Or.inl rfl)

theorem handleShouldSkip_fs {cfg : Cfg} {m m' : M} {l : L} {b : Bool} (hpm : Minor p) (hs : isMergeConflict m.st = false)
    (e : handleShouldSkip cfg m l = .ok (b, m')) : FS p m m' b := by
  unfold handleShouldSkip at e; cases e; exact FS.pass hs

theorem handleEmitUnchanged_fs {cfg : Cfg} {m m' : M} {l : L} {b : Bool} (hpm : Minor p) (hs : isMergeConflict m.st = false)
    (e : handleEmitUnchanged cfg m l = .ok (b, m')) : FS p m m' b := by
  unfold handleEmitUnchanged at e; cases e
  exact FS.of_fv ((FV.refl m).emitLineUnchanged hpm l) (Or.inl (by rw [emitLineUnchanged_st]))


end Machine
