import Proofs.Machine.Handlers
/-!
The remaining handlers, the handler chain, `step`, `runFrom`, `finish`, `run`:
`Good` is an invariant of every run and every step extends the machine.
-/
set_option linter.unusedSimpArgs false
set_option linter.unusedVariables false
namespace Machine
open Headers

theorem mcPaintOne_reachC (cfg : Cfg) {m0 m : M} (name : Option Str) (derived : List HLine)
    (c : ReachC m0 m) (hb : m.buf = []) :
    ReachC m0 (mcPaintOne cfg m name derived) ∧ (mcPaintOne cfg m name derived).buf = [] := by
  unfold mcPaintOne
  have c2 := (c.direct (mcHeaderRows cfg m name m.n) hb).emit
  refine ⟨ReachC.emit (ReachC.bufPush (m.mcAnc.map HLine.row ++ derived.map HLine.row) c2
      rfl rfl ?_ rfl rfl rfl), by simp⟩
  simp [List.append_assoc]

theorem paintMergeConflict_reachC (cfg : Cfg) {m0 m : M} (mp : MergeParents) (c : ReachC m0 m) :
    ReachC m0 (paintMergeConflict cfg m mp) := by
  unfold paintMergeConflict
  have c1 := c.emit.direct [{ kind := RowKind.mcBar, text := cfg.mcBeginSymbol, src := m.n }] (by simp)
  have hb1 : (direct (emit m) [{ kind := RowKind.mcBar, text := cfg.mcBeginSymbol, src := m.n }]).buf = [] := by simp
  obtain ⟨c2, hb2⟩ := mcPaintOne_reachC cfg
    (direct (emit m) [{ kind := RowKind.mcBar, text := cfg.mcBeginSymbol, src := m.n }]).mcNameOurs
    (direct (emit m) [{ kind := RowKind.mcBar, text := cfg.mcBeginSymbol, src := m.n }]).mcOurs c1 hb1
  obtain ⟨c3, hb3⟩ := mcPaintOne_reachC cfg (mcPaintOne cfg _ _ _).mcNameTheirs (mcPaintOne cfg _ _ _).mcTheirs c2 hb2
  have c4 := c3.direct [{ kind := RowKind.mcBar, text := cfg.mcEndSymbol, src := m.n }] hb3
  exact c4.upd rfl rfl rfl rfl rfl rfl

theorem reachC_of_quiet {m : M} (g : Good m) (q : quiet3 m.st = true) : ReachC m m :=
  { Reach.start g with minus := (g.quiet q).1, plus := (g.quiet q).2 }

theorem storeLine_step {cfg : Cfg} {m m' : M} {l : L} {c : MCCommit} {mp : MergeParents} {k : RowKind}
    (e : storeLine cfg m l c mp k = .ok m') (g : Good m) : StepS m m' := by
  unfold storeLine at e
  split at e
  · cases e
  · simp only at e
    split at e <;> (cases e; exact stepS_upd_same g rfl rfl rfl rfl rfl rfl rfl)

theorem enterAncestral_step {m m' : M} {l : L} {mp : MergeParents} (e : enterAncestral m l mp = some m')
    (c : ReachC m m) : StepS m m' := by
  unfold enterAncestral at e
  simp only [Option.map_eq_some_iff] at e
  obtain ⟨_, _, rfl⟩ := e
  exact ReachC.stepS (c.upd rfl rfl rfl rfl rfl rfl)

theorem enterTheirs_step {m m' : M} {l : L} {mp : MergeParents} (e : enterTheirs m l mp = some m')
    (c : ReachC m m) : StepS m m' := by
  unfold enterTheirs at e
  split at e
  · cases e; exact ReachC.stepS (c.upd rfl rfl rfl rfl rfl rfl)
  · cases e

theorem exitMergeConflict_step {cfg : Cfg} {m m' : M} {l : L} {mp : MergeParents}
    (e : exitMergeConflict cfg m l mp = some m') (c : ReachC m m) : StepS m m' := by
  unfold exitMergeConflict at e
  simp only [Option.map_eq_some_iff] at e
  obtain ⟨_, _, rfl⟩ := e
  refine ReachC.stepS (paintMergeConflict_reachC cfg mp ?_)
  exact c.upd rfl rfl rfl rfl rfl rfl

theorem storeOr_step {m : M} {o : Option M} {alt : Except String M} {b : Bool} {m' : M}
    (e : storeOr o alt = .ok (b, m')) (ho : ∀ x, o = some x → StepS m x) (ha : ∀ x, alt = .ok x → StepS m x) :
    StepS m m' := by
  unfold storeOr at e
  split at e
  · cases e; exact ho _ rfl
  · split at e
    · cases e
    · cases e; exact ha _ rfl

theorem orElse_some {α : Type} {a b : Option α} {x : α} (h : (a <|> b) = some x) : a = some x ∨ b = some x := by
  cases a with
  | some v => left; simpa using h
  | none => right; simpa using h

theorem handleMergeConflict_step {cfg : Cfg} {m m' : M} {l : L} {b : Bool}
    (e : handleMergeConflict cfg m l = .ok (b, m')) (g : Good m) : StepS m m' := by
  unfold handleMergeConflict at e
  split at e
  · cases e; exact StepS.refl g
  · split at e
    · split at e
      · split at e
        · cases e
        · rename_i m1 e1
          cases e
          have r1 : Reach m m1 := by
            unfold mcPendingHeader at e1
            split at e1
            · exact (emitHunkHeader_reachC e1 (Reach.start g)).1.toReach
            · cases e1; exact Reach.start g
          exact ReachC.stepS (r1.flushMP.upd rfl rfl rfl rfl rfl rfl)
      · cases e; exact StepS.refl g
    · split at e
      all_goals first
        | (rename_i hst
           have c : ReachC m m := reachC_of_quiet g (by rw [hst]; rfl)
           refine storeOr_step e ?_ (fun x hx => storeLine_step hx g)
           intro x hx
           first
             | (rcases orElse_some hx with h1 | h2
                · exact enterAncestral_step h1 c
                · rcases orElse_some h2 with h3 | h4
                  · exact enterTheirs_step h3 c
                  · exact exitMergeConflict_step h4 c)
             | (rcases orElse_some hx with h3 | h4
                · exact enterTheirs_step h3 c
                · exact exitMergeConflict_step h4 c)
             | exact exitMergeConflict_step hx c)
        | (cases e; exact StepS.refl g)

theorem handleGitShowFile_step {cfg : Cfg} {m m' : M} {l : L} {b : Bool}
    (e : handleGitShowFile cfg m l = .ok (b, m')) (g : Good m) : StepS m m' := by
  unfold handleGitShowFile at e; cases e; exact (Reach.start g).emit.stepS_of g rfl

theorem handleBlame_step {cfg : Cfg} {m m' : M} {l : L} {b : Bool}
    (e : handleBlame cfg m l = .ok (b, m')) (g : Good m) : StepS m m' := by
  unfold handleBlame at e
  simp only at e
  split at e
  · rename_i hc
    cases e
    have c : ReachC m m := reachC_of_quiet g (by rcases hc.1 with h1 | h1 <;> (rw [h1]; rfl))
    exact ReachC.stepS ((c.emit.direct _ (by simp)).upd rfl rfl rfl rfl rfl rfl)
  · cases e; exact (Reach.start g).emit.stepS_of g rfl

theorem handleGrep_step {cfg : Cfg} {m m' : M} {l : L} {b : Bool}
    (e : handleGrep cfg m l = .ok (b, m')) (g : Good m) : StepS m m' := by
  unfold handleGrep at e
  simp only at e
  split at e
  · rename_i hc
    have c : ReachC m m := reachC_of_quiet g (by rcases hc.1 with h1 | h1 <;> (rw [h1]; rfl))
    split at e
    · cases e; exact (Reach.start g).emit.stepS_of g rfl
    · cases e
      exact ReachC.stepS ((c.emit.direct _ (by simp)).upd rfl rfl rfl rfl rfl rfl)
  · cases e; exact (Reach.start g).emit.stepS_of g rfl

theorem handleShouldSkip_step {cfg : Cfg} {m m' : M} {l : L} {b : Bool}
    (e : handleShouldSkip cfg m l = .ok (b, m')) (g : Good m) : StepS m m' := by
  unfold handleShouldSkip at e
  cases e; exact StepS.refl g

theorem handleEmitUnchanged_step {cfg : Cfg} {m m' : M} {l : L} {b : Bool}
    (e : handleEmitUnchanged cfg m l = .ok (b, m')) (g : Good m) : StepS m m' := by
  unfold handleEmitUnchanged at e; cases e; exact ((Reach.start g).emitLineUnchanged l).stepS

theorem handleHunkLine_step {cfg : Cfg} {m m' : M} {l : L} {b : Bool}
    (e : handleHunkLine cfg m l = .ok (b, m')) (g : Good m) : Step m m' := by
  rcases handleHunkLine_spec e g with ⟨_, rfl, _⟩ | ⟨_, _, s⟩
  · exact (StepS.refl g).toStep
  · exact s.step

/-- every handler of the model, from a good machine, yields a good machine that extends it -/
theorem handlerOf_step {name : String} {hd : Handler} (hn : handlerOf name = some hd)
    {cfg : Cfg} {m m' : M} {l : L} {b : Bool} (e : hd cfg m l = .ok (b, m')) (g : Good m) : Step m m' := by
  unfold handlerOf at hn
  split at hn <;> first
    | (cases hn
       first
         | exact (handleCommitMeta_step e g).toStep | exact (handleDiffStat_step e g).toStep
         | exact (handleDiffHeaderDiff_step e g).toStep | exact (handleFileOperation_step e g).toStep
         | exact (handleMinusLine_step e g).toStep | exact (handlePlusLine_step e g).toStep
         | exact (handleHunkHeader_step e g).toStep | exact (handleModeLine_step e g).toStep
         | exact (handleMisc_step e g).toStep | exact (handleSubmoduleLog_step e g).toStep
         | exact (handleSubmoduleShort_step e g).toStep | exact (handleMergeConflict_step e g).toStep
         | exact handleHunkLine_step e g | exact (handleGitShowFile_step e g).toStep
         | exact (handleBlame_step e g).toStep | exact (handleGrep_step e g).toStep
         | exact (handleShouldSkip_step e g).toStep | exact (handleEmitUnchanged_step e g).toStep)
    | cases hn

theorem Step.trans {a b c : M} (h1 : Step a b) (h2 : Step b c) : Step a c := ⟨h2.good, h1.ext.trans h2.ext⟩

theorem chain_step {cfg : Cfg} {l : L} : ∀ (names : List String) {m m' : M},
    chain cfg l names m = .ok m' → Good m → Step m m'
  | [], m, m', e, g => by simp only [chain] at e; cases e; exact (StepS.refl g).toStep
  | name :: rest, m, m', e, g => by
    simp only [chain] at e
    split at e
    · cases e
    · rename_i hd hn
      split at e
      · cases e
      · rename_i m1 e1
        cases e; exact handlerOf_step hn e1 g
      · rename_i m1 e1
        have s1 := handlerOf_step hn e1 g
        exact s1.trans (chain_step rest e s1.good)

theorem stepInit_stepS {m : M} (l : L) (g : Good m) : StepS m (stepInit m l) := by
  unfold stepInit armCounter
  repeat' split
  all_goals first | exact StepS.refl g | exact stepS_upd_same g rfl rfl rfl rfl rfl rfl rfl

/-- one input line: the machine stays good; timeline and output only grow; the line counter advances -/
theorem step_spec {cfg : Cfg} {m m' : M} {l : L} (e : step cfg m l = .ok m') (g : Good m) :
    Good m' ∧ (∃ new, timeline m' = timeline m ++ new) ∧ (∃ more, m'.out = m.out ++ more) ∧ m'.n = m.n + 1 := by
  unfold step at e
  split at e
  · cases e
  · rename_i m2 e2
    cases e
    have s0 := stepInit_stepS l g
    have s := s0.toStep.trans (chain_step _ e2 s0.good)
    exact ⟨⟨s.good.order, s.good.quiet, s.good.noPlus⟩, s.ext.tl, s.ext.out, by simp [s.ext.n]⟩

theorem good_init : Good ({} : M) := ⟨rfl, fun _ => ⟨rfl, rfl⟩, fun _ => rfl⟩

theorem runFrom_spec {cfg : Cfg} : ∀ (ls : List L) {m m' : M}, runFrom cfg m ls = .ok m' → Good m →
    Good m' ∧ (∃ new, timeline m' = timeline m ++ new) ∧ (∃ more, m'.out = m.out ++ more) ∧ m'.n = m.n + ls.length
  | [], m, m', e, g => by simp only [runFrom] at e; cases e; exact ⟨g, ⟨[], by simp⟩, ⟨[], by simp⟩, rfl⟩
  | l :: ls, m, m', e, g => by
    simp only [runFrom] at e
    split at e
    · cases e
    · rename_i m1 e1
      obtain ⟨g1, ⟨n1, t1⟩, ⟨o1, u1⟩, hn1⟩ := step_spec e1 g
      obtain ⟨g2, ⟨n2, t2⟩, ⟨o2, u2⟩, hn2⟩ := runFrom_spec ls e g1
      exact ⟨g2, ⟨n1 ++ n2, by rw [t2, t1, List.append_assoc]⟩, ⟨o1 ++ o2, by rw [u2, u1, List.append_assoc]⟩,
        by rw [hn2, hn1, List.length_cons]; omega⟩

theorem tailOp_reach {cfg : Cfg} {m0 m m' : M} {op : String} (e : tailOp cfg m op = .ok m')
    (h : Reach m0 m) (hq : op = "handle_pending_line_with_diff_name" → m.minus = [] ∧ m.plus = []) :
    Reach m0 m' ∧ (m.minus = [] ∧ m.plus = [] → m'.minus = [] ∧ m'.plus = []) ∧
      (op = "painter.paint_buffered_minus_and_plus_lines" → m'.minus = [] ∧ m'.plus = []) ∧
      (op = "painter.emit" → m'.buf = []) := by
  unfold tailOp at e
  split at e
  · cases e; exact ⟨h.flushMP.toReach, fun _ => by simp, fun _ => by simp, fun hh => absurd hh (by decide)⟩
  · obtain ⟨hm, hp⟩ := hq rfl
    cases e
    obtain ⟨c, _⟩ := pendingDiffName_reachC cfg { h with minus := hm, plus := hp }
    exact ⟨c.toReach, fun _ => ⟨c.minus, c.plus⟩, fun hh => absurd hh (by decide), fun hh => absurd hh (by decide)⟩
  · cases e; exact ⟨h.emit, fun q => by simpa using q, fun hh => absurd hh (by decide), fun _ => by simp⟩
  · cases e

/-- The tail of `consume`, in the statement order extracted from the source: the machine is
extended, in order, and afterwards nothing is held back: the whole timeline has been written. -/
theorem finish_spec {cfg : Cfg} {m m' : M} (e : finish cfg m = .ok m') (g : Good m) :
    m'.orderOk = true ∧ (∃ new, timeline m' = timeline m ++ new) ∧ timeline m' = m'.out := by
  unfold finish at e
  simp only [Generated.Markers.consumeTail, tailOps] at e
  split at e
  · cases e
  · rename_i m1 e1
    obtain ⟨r1, _, q1, _⟩ := tailOp_reach e1 (Reach.start g) (by intro hh; exact absurd hh (by decide))
    have q1' := q1 rfl
    split at e
    · cases e
    · rename_i m2 e2
      obtain ⟨r2, k2, _, _⟩ := tailOp_reach e2 r1 (fun _ => q1')
      have q2 := k2 q1'
      split at e
      · cases e
      · rename_i m3 e3
        cases e
        obtain ⟨r3, k3, _, b3⟩ := tailOp_reach e3 r2 (by intro hh; exact absurd hh (by decide))
        have q3 := k3 q2
        exact ⟨r3.order, r3.ext.tl, by simp [timeline, q3.1, q3.2, b3 rfl]⟩

/-- A complete run: in order, and its output is exactly the timeline. -/
theorem run_spec {cfg : Cfg} {ls : List L} {m : M} (e : run cfg ls = .ok m) :
    m.orderOk = true ∧ timeline m = m.out := by
  unfold run at e
  split at e
  · cases e
  · rename_i m1 e1
    obtain ⟨g1, _, _, _⟩ := runFrom_spec ls e1 good_init
    obtain ⟨o, _, t⟩ := finish_spec e g1
    exact ⟨o, t⟩

-- bounded lag -----------------------------------------------------------------

/-- the line buffers never hold more than `line-buffer-size + 1` lines -/
def Lag (cfg : Cfg) (m : M) : Prop := m.minus.length ≤ cfg.bufSize + 1 ∧ m.plus.length ≤ cfg.bufSize + 1

theorem Lag.of_shrink {cfg : Cfg} {m m' : M} (h : Lag cfg m) (s : Shrink m m') : Lag cfg m' := by
  obtain ⟨sm, sp⟩ := s
  constructor
  · rcases sm with e | e <;> simp [e, h.1]
  · rcases sp with e | e <;> simp [e, h.2]

theorem handlerOf_lag {name : String} {hd : Handler} (hn : handlerOf name = some hd)
    {cfg : Cfg} {m m' : M} {l : L} {b : Bool} (e : hd cfg m l = .ok (b, m')) (g : Good m) (h : Lag cfg m) :
    Lag cfg m' := by
  unfold handlerOf at hn
  split at hn <;> first
    | (cases hn
       first
         | exact h.of_shrink (handleCommitMeta_step e g).shrink | exact h.of_shrink (handleDiffStat_step e g).shrink
         | exact h.of_shrink (handleDiffHeaderDiff_step e g).shrink | exact h.of_shrink (handleFileOperation_step e g).shrink
         | exact h.of_shrink (handleMinusLine_step e g).shrink | exact h.of_shrink (handlePlusLine_step e g).shrink
         | exact h.of_shrink (handleHunkHeader_step e g).shrink | exact h.of_shrink (handleModeLine_step e g).shrink
         | exact h.of_shrink (handleMisc_step e g).shrink | exact h.of_shrink (handleSubmoduleLog_step e g).shrink
         | exact h.of_shrink (handleSubmoduleShort_step e g).shrink | exact h.of_shrink (handleMergeConflict_step e g).shrink
         | (rcases handleHunkLine_spec e g with ⟨_, rfl, _⟩ | ⟨_, _, s⟩
            · exact h
            · exact ⟨s.minusLen, s.plusLen⟩)
         | exact h.of_shrink (handleGitShowFile_step e g).shrink
         | exact h.of_shrink (handleBlame_step e g).shrink | exact h.of_shrink (handleGrep_step e g).shrink
         | exact h.of_shrink (handleShouldSkip_step e g).shrink | exact h.of_shrink (handleEmitUnchanged_step e g).shrink)
    | cases hn

theorem chain_lag {cfg : Cfg} {l : L} : ∀ (names : List String) {m m' : M},
    chain cfg l names m = .ok m' → Good m → Lag cfg m → Lag cfg m'
  | [], m, m', e, g, h => by simp only [chain] at e; cases e; exact h
  | name :: rest, m, m', e, g, h => by
    simp only [chain] at e
    split at e
    · cases e
    · rename_i hd hn
      split at e
      · cases e
      · rename_i m1 e1
        cases e; exact handlerOf_lag hn e1 g h
      · rename_i m1 e1
        exact chain_lag rest e (handlerOf_step hn e1 g).good (handlerOf_lag hn e1 g h)

theorem step_lag {cfg : Cfg} {m m' : M} {l : L} (e : step cfg m l = .ok m') (g : Good m) (h : Lag cfg m) :
    Lag cfg m' := by
  unfold step at e
  split at e
  · cases e
  · rename_i m2 e2
    cases e
    have s0 := stepInit_stepS l g
    have := chain_lag _ e2 s0.good (h.of_shrink s0.shrink)
    exact ⟨this.1, this.2⟩

theorem runFrom_lag {cfg : Cfg} : ∀ (ls : List L) {m m' : M}, runFrom cfg m ls = .ok m' → Good m → Lag cfg m →
    Lag cfg m'
  | [], m, m', e, g, h => by simp only [runFrom] at e; cases e; exact h
  | l :: ls, m, m', e, g, h => by
    simp only [runFrom] at e
    split at e
    · cases e
    · rename_i m1 e1
      exact runFrom_lag ls e (step_spec e1 g).1 (step_lag e1 g h)

theorem runFrom_append {cfg : Cfg} : ∀ (xs ys : List L) (m : M),
    runFrom cfg m (xs ++ ys) = (match runFrom cfg m xs with
      | .error e => .error e
      | .ok m1 => runFrom cfg m1 ys)
  | [], ys, m => by simp [runFrom]
  | x :: xs, ys, m => by
    simp only [List.cons_append, runFrom]
    cases step cfg m x with
    | error e => rfl
    | ok m1 => exact runFrom_append xs ys m1

end Machine
