import Proofs.Machine.HunkRowsSteps
/-!
C14 / C05: what a hunk-header row shows — whole runs over the section grammar of `FileHeaders4.lean`.

`hhRowsOf2 cfg 0 secs` = for every `@@` line of the input that is followed by a line of its hunk, the
hunk-header row(s) `emit_hunk_header_line` writes for that very line (`hhRowOf`: its own parsed coordinates
and code fragment, its own input index) **with the two file names of the section it stands in**
(`secNames mi pl`: the paths carried by the section's line naming the old file and its line naming the new
file).  `run_hunk_rows`: the hunk-header rows of the output of `Machine.run` are exactly these, in order.
-/
set_option linter.unusedSimpArgs false
set_option linter.unusedVariables false
namespace Machine
open Headers Generated HunkNames

/-- the two file names of a section: the paths on its `--- ` (`rename from `, `copy from `) line and on its
`+++ ` (`rename to `, `copy to `) line -/
def secNames (mi pl : L) : Str × Str :=
  ((parseDiffHeaderLine mi.text true).1, (parseDiffHeaderLine pl.text true).1)

/-- the pending hunk header as the input sees it: the `@@` line and its input index -/
def PendIs (m : M) : Option (L × Nat) → Prop
  | none => isHunkHeader m.st = false
  | some (h, i) => ∃ dt hh, parseHunkHeader h.text = some hh ∧ m.st = .hunkHeader dt hh h.text h.raw i

def pendRowsOf (cfg : Cfg) (p : Str × Str) : Option (L × Nat) → List Row
  | none => []
  | some (h, i) => hhRowOf cfg p h i

theorem pendHH_of_pendIs {cfg : Cfg} {m : M} {p : Str × Str} {pend : Option (L × Nat)} (hp : PendIs m pend)
    (hn : names m = p) : pendHH cfg m = pendRowsOf cfg p pend := by
  cases pend with
  | none => exact pendHH_of_not_hh hp
  | some q =>
    obtain ⟨h, i⟩ := q
    obtain ⟨dt, hh, hparse, hst⟩ := hp
    exact pendHH_eq hst hparse hn

/-- the hunk-header rows of the hunk part of a section with names `p`; `pend` = the `@@` line whose row is
still to be written, `k` = the input index of the first line. A header is written when the first line of
its hunk arrives; an `@@` line directly followed by another one (or by the end of the section) gives no row. -/
def hunkRows (cfg : Cfg) (p : Str × Str) : Option (L × Nat) → Nat → List L → List Row
  | _, _, [] => []
  | pend, k, l :: ls =>
    if isHHLineG l then hunkRows cfg p (some (l, k)) (k + 1) ls
    else pendRowsOf cfg p pend ++ hunkRows cfg p none (k + 1) ls

theorem hunks_rows_run {cfg : Cfg} {p : Str × Str} : ∀ (ls : List L) {m mf : M} {pend : Option (L × Nat)},
    InHunk m → names m = p → PendIs m pend → (∀ x ∈ ls, isHHLineG x = true ∨ BodyL x) →
    runFrom cfg m ls = .ok mf → hhTL mf = hhTL m ++ hunkRows cfg p pend m.n ls
  | [], m, mf, pend, _, _, _, _, e => by simp only [runFrom] at e; cases e; simp [hunkRows]
  | l :: ls, m, mf, pend, h, hn, hp, hl, e => by
    obtain ⟨m1, e1, er⟩ := runFrom_cons_ok e
    rcases hl l (List.mem_cons_self ..) with hh | hb
    · obtain ⟨m1', e1', h1, _, n1⟩ :=
        hh_line_step (cfg := cfg) (Or.inr ⟨h.st, h.dt⟩) h.src h.cnt h.mode h.pair h.good hh
      rw [e1] at e1'; cases e1'
      obtain ⟨ph, hparse, hst, hr, hnm⟩ := hh_line_exact (Or.inr ⟨h.st, h.dt⟩) h.src h.cnt hh e1
      have key := hunks_rows_run ls h1 (hnm.trans hn) (pend := some (l, m.n)) ⟨_, ph, hparse, hst⟩
        (fun x hx => hl x (List.mem_cons_of_mem _ hx)) er
      rw [key, hr, n1]
      simp [hunkRows, hh]
    · obtain ⟨m1', e1', h1, _, n1⟩ := body_line_step h hb ⟨m1, e1⟩
      rw [e1] at e1'; cases e1'
      obtain ⟨hr, hq, hnm⟩ :=
        hunk_line_rows h (hunk_body_line_claimed cfg m l h.src h.st h.hun hb.1 hb.2.1 hb.2.2) e1
      have key := hunks_rows_run ls h1 (hnm.trans hn) (pend := none) hq
        (fun x hx => hl x (List.mem_cons_of_mem _ hx)) er
      rw [key, hr, pendHH_of_pendIs hp hn, n1]
      simp [hunkRows, bodyL_not_hh hb.1, List.append_assoc]

/-- a run of lines each of which is met with no header pending writes no hunk-header row -/
theorem run_inv_rows {cfg : Cfg} (P : M → Prop) (Q : L → Prop)
    (hP : ∀ m, P m → isMergeConflict m.st = false ∧ isHunkHeader m.st = false ∧ Good m)
    (hstep : ∀ m l, P m → Q l → ∃ m', step cfg m l = .ok m' ∧ P m') :
    ∀ (ls : List L) {m mf : M}, P m → (∀ x ∈ ls, Q x) → runFrom cfg m ls = .ok mf → hhTL mf = hhTL m
  | [], m, mf, _, _, e => by simp only [runFrom] at e; cases e; rfl
  | l :: ls, m, mf, h, hq, e => by
    obtain ⟨m1, e1, er⟩ := runFrom_cons_ok e
    obtain ⟨m1', e1', h1⟩ := hstep m l h (hq l (List.mem_cons_self ..))
    rw [e1] at e1'; cases e1'
    obtain ⟨a, b, c⟩ := hP m h
    exact (run_inv_rows P Q hP hstep ls h1 (fun x hx => hq x (List.mem_cons_of_mem _ hx)) er).trans (step_rq e1 a b c)

theorem afterPlus_quiet {m : M} (h : AfterPlus m) :
    isMergeConflict m.st = false ∧ isHunkHeader m.st = false ∧ Good m :=
  ⟨by rw [h.st]; rfl, by rw [h.st]; rfl, h.good⟩

theorem hdr_quiet {m : M} (h : Hdr m) : isMergeConflict m.st = false ∧ isHunkHeader m.st = false ∧ Good m :=
  ⟨by rw [h.st]; rfl, by rw [h.st]; rfl, h.good⟩

theorem noise_after_rows {cfg : Cfg} (hc : FHC cfg) (ls : List L) {m mf : M} (h : AfterPlus m) (w : ∀ x ∈ ls, Noise x)
    (e : runFrom cfg m ls = .ok mf) : hhTL mf = hhTL m :=
  run_inv_rows AfterPlus Noise (fun _ => afterPlus_quiet)
    (fun m l hm hl => by obtain ⟨m', e', h', _⟩ := noise_line_step_after hc hm hl; exact ⟨m', e', h'⟩) ls h w e

theorem noise_hdr_rows {cfg : Cfg} (hc : FHC cfg) {d : L} (ls : List L) {m mf : M} {mode : Str} {p : Str × Str}
    (h : HdrF m d mode p) (w : ∀ x ∈ ls, Noise x ∨ isFileOpLine x = true) (e : runFrom cfg m ls = .ok mf) :
    hhTL mf = hhTL m :=
  run_inv_rows (fun m => ∃ mode p, HdrF m d mode p) (fun x => Noise x ∨ isFileOpLine x = true)
    (fun _ hm => by obtain ⟨_, _, hm⟩ := hm; exact hdr_quiet hm.toHdr)
    (fun m l hm hl => by
      obtain ⟨mode, p, hm⟩ := hm
      rcases hl with hl | hl
      · obtain ⟨m', e', h', _⟩ := noise_step2 hc hm hl; exact ⟨m', e', _, _, h'⟩
      · obtain ⟨m', e', h', _⟩ := fileop_step2 hc hm hl; exact ⟨m', e', _, _, h'⟩) ls ⟨mode, p, h⟩ w e

theorem log_rows {cfg : Cfg} (ls : List L) {m mf : M} (h : SLog m) (w : ∀ x ∈ ls, LogL x)
    (e : runFrom cfg m ls = .ok mf) : hhTL mf = hhTL m :=
  run_inv_rows SLog LogL (fun m hm => ⟨by rw [hm.st]; rfl, by rw [hm.st]; rfl, hm.good⟩)
    (fun m l hm hl => by obtain ⟨m', e', h', _⟩ := log_line_step (cfg := cfg) hm hl; exact ⟨m', e', h'⟩) ls h w e

/-- the two lines naming the files: no hunk-header row; afterwards the machine's names are the section's -/
theorem named_prefix_rows {cfg : Cfg} (hc : FHC cfg) {d : L} {add : Str} {nm : Str × Str} {mi pl : L} {rest : List L}
    {m mf : M} (h : HdrF m d add nm) (wmi : isMinusLine mi = true) (wpl : isPlusLine pl = true)
    (e : runFrom cfg m (mi :: pl :: rest) = .ok mf) :
    ∃ m2, AfterPlus m2 ∧ runFrom cfg m2 rest = .ok mf ∧ m2.n = m.n + 2 ∧ hhTL m2 = hhTL m ∧
      names m2 = secNames mi pl ∧
      m2.handledPair = some ((parseDiffHeaderLine mi.text true).1, (parseDiffHeaderLine pl.text true).1) := by
  obtain ⟨m1, e1, er1⟩ := runFrom_cons_ok e
  obtain ⟨m1', e1', h1, _, n1, mf1, _, _⟩ := minus_step2 hc h.toHdr wmi
  rw [e1] at e1'; cases e1'
  obtain ⟨m2, e2, er2⟩ := runFrom_cons_ok er1
  obtain ⟨m2', e2', h2, n2, _, hp2, _⟩ := plus_step2 hc h1 wpl
  rw [e2] at e2'; cases e2'
  obtain ⟨a, b, c⟩ := hdr_quiet h.toHdr
  obtain ⟨a1, b1, c1⟩ := hdr_quiet h1
  refine ⟨m2, h2, er2, by rw [n2, n1], (step_rq e2 a1 b1 c1).trans (step_rq e1 a b c), ?_, by rw [hp2, mf1]⟩
  rw [plus_line_names hc h1.st h1.src wpl e2, mf1]
  rfl

/-- the second naming of the two files: nothing written, names as before -/
theorem again_rows {cfg : Cfg} (hc : FHC cfg) {mi pl : L} (again : Option (List L × L × L)) (w : AgainWF mi pl again)
    {m mf : M} (h : AfterPlus m) (hn : names m = secNames mi pl)
    (hhp : m.handledPair = some ((parseDiffHeaderLine mi.text true).1, (parseDiffHeaderLine pl.text true).1))
    (e : runFrom cfg m (againLinesOf again) = .ok mf) : hhTL mf = hhTL m ∧ names mf = secNames mi pl := by
  cases again with
  | none =>
    simp only [againLinesOf, runFrom] at e
    cases e
    exact ⟨rfl, hn⟩
  | some t =>
    obtain ⟨n2, a, b⟩ := t
    simp only [againLinesOf] at e
    obtain ⟨wn, wa, wb, ea, eb⟩ := w n2 a b rfl
    obtain ⟨m1, e1, er1⟩ := runFrom_append_ok e
    obtain ⟨h1, _, _, f1, p1⟩ := noise_run_after hc n2 h wn e1
    have r1 := noise_after_rows hc n2 h wn e1
    obtain ⟨m2, e2, er2⟩ := runFrom_cons_ok er1
    obtain ⟨m2', e2', h2, _, _, f2, p2⟩ := minus_line_step_after hc h1 wa
    rw [e2] at e2'; cases e2'
    obtain ⟨x1, x2, x3⟩ := afterPlus_quiet h1
    have r2 := step_rq e2 x1 x2 x3
    obtain ⟨m3, e3, er3⟩ := runFrom_cons_ok er2
    simp only [runFrom] at er3
    cases er3
    obtain ⟨y1, y2, y3⟩ := afterPlus_quiet h2
    have r3 := step_rq e3 y1 y2 y3
    refine ⟨r3.trans (r2.trans r1), ?_⟩
    rw [plus_line_names hc h2.st h2.src wb e3, f2, ea, eb]
    rfl

/-- the single `Subproject commit` line of an added or removed submodule is claimed by `handle_hunk_line` -/
theorem lone_sub_claim {cfg : Cfg} {m : M} {hh l : L} (h : InHunk m) (hs : HHSt m hh) (hg : isHHLineG hh = true)
    (hl : isLoneSubLine hh l = true) :
    chain cfg l Generated.handlerOrder m =
      (match handleHunkLine cfg m l with
       | .ok (_, m') => .ok m'
       | .error e => .error e) := by
  unfold isLoneSubLine at hl
  simp only [Bool.and_eq_true, Bool.not_eq_true', Bool.or_eq_true] at hl
  obtain ⟨hcr, hcase⟩ := hl
  obtain ⟨ph, src, hparse, hst⟩ := hs
  have hun : hunkCombinedParents m.st = none := by rw [hst]; rfl
  have hfirst_test : firstIs l isMarker ∧ submoduleShortTest m l = false := by
    rcases hcase with hp | ⟨hmn, hnp⟩
    · obtain ⟨rest, ht⟩ := startsWith_split hp
      have ht' : l.text = '+' :: ("Subproject commit ".toList ++ rest) := by rw [ht]; rfl
      refine ⟨⟨'+', _, ht', rfl⟩, ?_⟩
      unfold submoduleShortTest
      simp [hst, ht', startsWith, Markers.submoduleShortMinus, List.isPrefixOf]
    · obtain ⟨rest, ht⟩ := startsWith_split hmn
      have ht' : l.text = '-' :: ("Subproject commit ".toList ++ rest) := by rw [ht]; rfl
      refine ⟨⟨'-', _, ht', rfl⟩, ?_⟩
      unfold isPairableHHLine at hnp
      simp only [hg, hparse, Bool.true_and, Bool.not_eq_false'] at hnp
      unfold submoduleShortTest
      simp [hst, pairableHunkHeader, hnp]
  exact hunk_line_claimed_nosub cfg m l h.src h.st hun hfirst_test.1 hcr hfirst_test.2

/-- the hunk-header rows of what follows the header part of a file section, first line = input line `base` -/
def Body.hhRows (cfg : Cfg) : Body → Nat → List Row
  | .named mi pl again hunks, base =>
    hunkRows cfg (secNames mi pl) none (base + 2 + (againLinesOf again).length) hunks
  | .submodule1 mi pl hh _, base => hhRowOf cfg (secNames mi pl) hh (base + 2)
  | _, _ => []

theorem body_rows_run {cfg : Cfg} (hc : FHC cfg) {d : L} {add : Str} {nm : Str × Str} (body : Body) (w : body.WF nm)
    {m mf : M} (h : HdrF m d add nm) (e : runFrom cfg m body.lines = .ok mf) :
    hhTL mf = hhTL m ++ body.hhRows cfg m.n := by
  cases body with
  | named mi pl again hunks =>
    obtain ⟨wmi, wpl, wag, wh1, wh2⟩ := w
    simp only [Body.lines] at e
    obtain ⟨m2, h2, er2, n2, t2, nm2, p2⟩ := named_prefix_rows hc h wmi wpl e
    obtain ⟨m3, e3, er3⟩ := runFrom_append_ok er2
    have hmf2 : m2.minusFile = (parseDiffHeaderLine mi.text true).1 := congrArg Prod.fst nm2
    obtain ⟨h3, _, n3⟩ := again_run2 hc again wag h2 hmf2 p2 e3
    obtain ⟨t3, nm3⟩ := again_rows hc again wag h2 nm2 p2 e3
    simp only [Body.hhRows]
    cases hunks with
    | nil =>
      simp only [runFrom] at er3
      cases er3
      rw [t3, t2]; simp [hunkRows]
    | cons x xs =>
      obtain ⟨m6, e6, er6⟩ := runFrom_cons_ok er3
      obtain ⟨m6', e6', h6, _, n6⟩ :=
        hh_line_step (cfg := cfg) (Or.inl h3.st) h3.src h3.cnt h3.mode h3.pair h3.good (wh2 x rfl)
      rw [e6] at e6'; cases e6'
      obtain ⟨ph, hparse, hst, hr, hnm⟩ := hh_line_exact (Or.inl h3.st) h3.src h3.cnt (wh2 x rfl) e6
      have key := hunks_rows_run (p := secNames mi pl) xs h6 (hnm.trans nm3) (pend := some (x, m3.n))
        ⟨_, ph, hparse, hst⟩ (fun y hy => wh1 y (List.mem_cons_of_mem _ hy)) er6
      rw [key, hr, t3, t2, n6, n3, n2]
      simp [hunkRows, wh2 x rfl]
  | namedBinary mi pl noise b =>
    obtain ⟨wmi, wpl, wn, wb⟩ := w
    simp only [Body.lines] at e
    obtain ⟨m2, h2, er2, n2, t2, nm2, p2⟩ := named_prefix_rows hc h wmi wpl e
    obtain ⟨m3, e3, er3⟩ := runFrom_append_ok er2
    obtain ⟨h3, _, _, _, _⟩ := noise_run_after hc noise h2 wn e3
    have t3 := noise_after_rows hc noise h2 wn e3
    obtain ⟨m4, e4, er4⟩ := runFrom_cons_ok er3
    simp only [runFrom] at er4
    cases er4
    obtain ⟨x1, x2, x3⟩ := afterPlus_quiet h3
    rw [step_rq e4 x1 x2 x3, t3, t2]
    simp [Body.hhRows]
  | submodule mi pl hh sm sp =>
    obtain ⟨wmi, wpl, whh, wsm, wsp⟩ := w
    simp only [Body.lines] at e
    obtain ⟨m2, h2, er2, n2, t2, nm2, p2⟩ := named_prefix_rows hc h wmi wpl e
    obtain ⟨m3, e3, er3⟩ := runFrom_cons_ok er2
    have whh' : isHHLineG hh = true := by
      unfold isPairableHHLine at whh; simp only [Bool.and_eq_true] at whh; exact whh.1
    obtain ⟨m3', e3', h3i, h3s, _, n3⟩ := hh_line_step_st (cfg := cfg) h2 whh'
    rw [e3] at e3'; cases e3'
    obtain ⟨_, _, _, t3, _⟩ := hh_line_exact (Or.inl h2.st) h2.src h2.cnt whh' e3
    have h3 := subHH_of h3i h3s whh
    obtain ⟨m4, e4, er4⟩ := runFrom_cons_ok er3
    obtain ⟨m4', e4', h4, _, n4⟩ := sub_minus_step hc h3 wsm
    rw [e4] at e4'; cases e4'
    have t4 := sub_minus_rows hc h3 wsm e4
    obtain ⟨m5, e5, er5⟩ := runFrom_cons_ok er4
    simp only [runFrom] at er5
    cases er5
    obtain ⟨c, hc4⟩ := h4.st
    have t5 := step_rq e5 (by rw [hc4]; rfl) (by rw [hc4]; rfl) h4.good
    rw [t5, t4, t3, t2]
    simp [Body.hhRows]
  | submodule1 mi pl hh sl =>
    obtain ⟨wmi, wpl, whh, wsl⟩ := w
    simp only [Body.lines] at e
    obtain ⟨m2, h2, er2, n2, t2, nm2, p2⟩ := named_prefix_rows hc h wmi wpl e
    obtain ⟨m3, e3, er3⟩ := runFrom_cons_ok er2
    obtain ⟨m3', e3', h3i, h3s, _, n3⟩ := hh_line_step_st (cfg := cfg) h2 whh
    rw [e3] at e3'; cases e3'
    obtain ⟨ph, hparse, hst, t3, nm3⟩ := hh_line_exact (Or.inl h2.st) h2.src h2.cnt whh e3
    obtain ⟨m4, e4, er4⟩ := runFrom_cons_ok er3
    simp only [runFrom] at er4
    cases er4
    obtain ⟨t4, _, _⟩ := hunk_line_rows h3i (lone_sub_claim h3i h3s whh wsl) e4
    rw [t4, pendHH_eq hst hparse (nm3.trans nm2), t3, t2, n2]
    simp [Body.hhRows]
  | bare =>
    simp only [Body.lines, runFrom] at e
    cases e
    simp [Body.hhRows]
  | binary b =>
    obtain ⟨wb, wne⟩ := w
    simp only [Body.lines] at e
    obtain ⟨m1, e1, er1⟩ := runFrom_cons_ok e
    simp only [runFrom] at er1
    cases er1
    obtain ⟨x1, x2, x3⟩ := hdr_quiet h.toHdr
    rw [step_rq e1 x1 x2 x3]
    simp [Body.hhRows]

/-- the hunk-header rows of a file section whose `diff --git` line is input line `k` -/
def FileSec.hhRows (cfg : Cfg) (f : FileSec) (k : Nat) : List Row :=
  f.body.hhRows cfg (k + 1 + (modeLines f.modes).length + f.noise.length)

def Sec2.hhRows (cfg : Cfg) : Sec2 → Nat → List Row
  | .file f, k => f.hhRows cfg k
  | .log _ _, _ => []

theorem modes_rows {cfg : Cfg} (hc : FHC cfg) (modes : Option (L × L)) {m mf : M} {d : L} {p : Str × Str}
    (h : HdrF m d [] p) (w : ∀ o n, modes = some (o, n) → ModesWF o n)
    (e : runFrom cfg m (modeLines modes) = .ok mf) : hhTL mf = hhTL m := by
  cases modes with
  | none =>
    simp only [modeLines, runFrom] at e
    cases e
    rfl
  | some on =>
    obtain ⟨o, n⟩ := on
    have wm := w o n rfl
    simp only [modeLines] at e
    obtain ⟨m1, e1, er1⟩ := runFrom_cons_ok e
    obtain ⟨m1', e1', h1, _, _⟩ := old_mode_step hc h wm.old
    rw [e1] at e1'; cases e1'
    obtain ⟨m2, e2, er2⟩ := runFrom_cons_ok er1
    simp only [runFrom] at er2
    cases er2
    obtain ⟨x1, x2, x3⟩ := hdr_quiet h.toHdr
    obtain ⟨y1, y2, y3⟩ := hdr_quiet h1.toHdr
    exact (step_rq e2 y1 y2 y3).trans (step_rq e1 x1 x2 x3)

theorem file_sec_rows {cfg : Cfg} (hc : FHC cfg) (f : FileSec) (w : f.WF) {m mf : M} (h : Pre m)
    (e : runFrom cfg m f.lines = .ok mf) : hhTL mf = hhTL m ++ f.hhRows cfg m.n := by
  unfold FileSec.lines at e
  obtain ⟨m1, e1, er1⟩ := runFrom_cons_ok e
  obtain ⟨m1', e1', h1, _, n1⟩ := diff_line_step2 hc h w.d
  rw [e1] at e1'; cases e1'
  have t1 := diff_line_rows w.d e1
  obtain ⟨m2, e2, er2⟩ := runFrom_append_ok er1
  obtain ⟨h2, _, n2⟩ := modes_run hc f.modes h1 w.modes e2
  have t2 := modes_rows hc f.modes h1 w.modes e2
  obtain ⟨m3, e3, er3⟩ := runFrom_append_ok er2
  obtain ⟨h3, _, n3⟩ := noise_run2 hc f.noise h2 w.noise e3
  have t3 := noise_hdr_rows hc f.noise h2 w.noise e3
  have t4 := body_rows_run hc f.body w.body h3 er3
  rw [t4, t3, t2, t1]
  unfold FileSec.hhRows
  rw [n3, n2, n1]

theorem sec2_rows {cfg : Cfg} (hc : FHC cfg) (s : Sec2) (w : s.WF) {b : Bool} {m mf : M} (h : Inv b m)
    (e : runFrom cfg m s.lines = .ok mf) : hhTL mf = hhTL m ++ s.hhRows cfg m.n := by
  cases s with
  | file f => exact file_sec_rows hc f w h.pre e
  | log s msgs =>
    obtain ⟨ws, wm⟩ := w
    simp only [Sec2.lines] at e
    obtain ⟨m1, e1, er1⟩ := runFrom_cons_ok e
    obtain ⟨m1', e1', h1, _, _⟩ := sublog_step hc h.pre ws
    rw [e1] at e1'; cases e1'
    rw [log_rows msgs h1 wm er1, sublog_rows hc ws e1]
    simp [Sec2.hhRows]

/-- the hunk-header rows of a list of sections whose first line is input line `k` -/
def hhRowsOf2 (cfg : Cfg) : Nat → List Sec2 → List Row
  | _, [] => []
  | k, s :: ss => s.hhRows cfg k ++ hhRowsOf2 cfg (k + s.lines.length) ss

theorem secs2_rows {cfg : Cfg} (hc : FHC cfg) : ∀ (secs : List Sec2) {b : Bool} {m mf : M}, (∀ s ∈ secs, s.WF) →
    Inv b m → runFrom cfg m (linesOf2 secs) = .ok mf → hhTL mf = hhTL m ++ hhRowsOf2 cfg m.n secs
  | [], b, m, mf, _, h, e => by
    simp only [linesOf2, List.flatMap_nil, runFrom] at e; cases e; simp [hhRowsOf2]
  | s :: ss, b, m, mf, w, h, e => by
    have hl : linesOf2 (s :: ss) = s.lines ++ linesOf2 ss := by simp [linesOf2]
    rw [hl] at e
    obtain ⟨m1, e1, er1⟩ := runFrom_append_ok e
    obtain ⟨h1, _, n1⟩ := sec2_run hc s (w s (List.mem_cons_self ..)) h e1
    have t1 := sec2_rows hc s (w s (List.mem_cons_self ..)) h e1
    have t2 := secs2_rows hc ss (fun x hx => w x (List.mem_cons_of_mem _ hx)) h1 er1
    rw [t2, t1, n1]
    simp [hhRowsOf2]

/-- **Every hunk-header row shows its own section** (whole runs): the rows of kind `hunkHeader` of the output
are, in order, the rows `emit_hunk_header_line` writes for each `@@` line that a line of its hunk follows —
with that line's own coordinates, code fragment and input index and the two file names of the section the
line stands in. -/
theorem run_hunk_rows {cfg : Cfg} (hc : FHC cfg) (secs : List Sec2) (w : ∀ s ∈ secs, s.WF)
    {m : M} (e : run cfg (linesOf2 secs) = .ok m) :
    m.out.filter (fun r => pHH r.kind) = hhRowsOf2 cfg 0 secs := by
  have hout := (run_spec e).2
  unfold run at e
  split at e
  · cases e
  · rename_i m1 e1
    have h0 : Inv false ({} : M) := ⟨(fun e => by cases e), fun _ => settled2_init⟩
    have t1 := secs2_rows hc secs w h0 e1
    have hfin : ftl pHH m = ftl pHH m1 := tailOps_ftl minor_pHH _ e
    have : m.out.filter (fun r => pHH r.kind) = hhTL m := by rw [← hout]; rfl
    rw [this]
    show ftl pHH m = _
    rw [hfin]
    show hhTL m1 = _
    rw [t1]
    simp [hhTL, ftl, timeline]

end Machine
