import Proofs.Machine.HunkRows
import Proofs.Machine.FileHeaders5
/-!
C14 / C05: what a hunk-header row shows — the steps of a section (line kinds of `FileHeaders*.lean`).

For each kind of line that can meet a pending hunk header, or that sets a file name, the exact effect on
the hunk-header rows (`hhTL`), on the two names and on the pending header:
`plus_line_names` (the line naming the new file), `hh_line_exact` (an `@@` line), `hunk_line_rows` (a line of
a hunk), `sub_minus_rows` (the `-Subproject commit` line: the pending header is dropped), `diff_line_rows`,
`sublog_rows` (the first line of the next section: a header still pending is dropped).
-/
set_option linter.unusedSimpArgs false
set_option linter.unusedVariables false
namespace Machine
open Headers Generated HunkNames

theorem plusLineFinish_nco {cfg : Cfg} (hnco : cfg.colorOnly = false) (x : M) (l : L) :
    (plusLineFinish cfg x l).1 = false ∧ (plusLineFinish cfg x l).2.st = x.st ∧
      (plusLineFinish cfg x l).2.source = x.source := by
  unfold plusLineFinish shouldWriteGeneric
  simp only [hnco, Bool.false_eq_true, if_false]
  split
  · refine ⟨rfl, ?_, ?_⟩
    · show (handleHeaderLine cfg (emit x) _).st = x.st
      simp
    · show (handleHeaderLine cfg (emit x) _).source = x.source
      simp [handleHeaderLine]
  · exact ⟨rfl, rfl, rfl⟩

/-- the line naming the new file (`+++ `, `rename to `, `copy to `) in the header part of a section of a
git diff: afterwards the plus file is the path that line carries, the minus file is what it was -/
theorem plus_line_names {cfg : Cfg} (hc : FHC cfg) {m m1 : M} {l : L} (hst : m.st = .diffHeader .unified)
    (hsrc : m.source = .gitDiff) (hl : isPlusLine l = true) (e : step cfg m l = .ok m1) :
    names m1 = (m.minusFile, (parseDiffHeaderLine l.text true).1) := by
  unfold isPlusLine at hl
  simp only [Bool.and_eq_true, Bool.not_eq_true'] at hl
  obtain ⟨hpl, hcr⟩ := hl
  obtain ⟨hdiff, hfo, hmn, no⟩ := plusMarker_facts hpl
  have hgit : decide (m.source = Source.gitDiff) = true := by simp [hsrc]
  have e1 := handleCommitMeta_not_mine cfg m l hcr
  have e2 : handleDiffStat cfg m l = .ok (false, m) := rfl
  have e3 := handleDiffHeaderDiff_not_mine cfg m l hdiff
  have e4 := handleFileOperation_not_mine cfg m l (by simp [hfo])
  have e5 := handleMinusLine_not_mine cfg m l (minusLineTest_false m hmn)
  have htest : plusLineTest m l = true := by unfold plusLineTest; simp [hst, isDiffHeader, hpl]
  cases h6 : handlePlusLine cfg m l with
  | error err => unfold handlePlusLine at h6; simp [htest] at h6
  | ok pr =>
    obtain ⟨b, z⟩ := pr
    have hnm := handlePlusLine_names htest h6
    have hfacts : b = false ∧ z.st = .diffHeader .unified ∧ z.source = .gitDiff := by
      unfold handlePlusLine at h6
      simp only [htest, Bool.not_true, Bool.false_eq_true, if_false] at h6
      obtain ⟨hb, hz⟩ := ok_pair h6
      obtain ⟨f1, f2, f3⟩ := plusLineFinish_nco hc.notCO
        (flushMP { m with plusFile := (parseDiffHeaderLine l.text (m.source = .gitDiff)).1,
                          plusEvent := (parseDiffHeaderLine l.text (m.source = .gitDiff)).2,
                          currentPair := some (m.minusFile, (parseDiffHeaderLine l.text (m.source = .gitDiff)).1) }) l
      refine ⟨hb.trans f1, ?_, ?_⟩
      · rw [hz, f2, flushMP_st]; exact hst
      · rw [hz, f3, flushMP_source]; exact hsrc
    obtain ⟨hb, hzst, hzsrc⟩ := hfacts
    subst hb
    have ec : chain cfg l Generated.handlerOrder m = .ok (emit (emit (emit z))) := by
      rw [handlerOrder_split, chain_skip (by rfl) e1, chain_skip (by rfl) e2, chain_skip (by rfl) e3, chain_skip (by rfl) e4,
        chain_skip (by rfl) e5, chain_skip (by rfl) h6]
      exact hdr_tail hc z l hzst hzsrc no
    unfold step at e
    rw [stepInit_git l hsrc, ec] at e
    cases e
    show names (emit (emit (emit z))) = _
    simp only [names_emit, hnm, hgit]

theorem InHunk.hun {m : M} (h : InHunk m) : hunkCombinedParents m.st = none := by
  have hdt := h.dt
  cases hs : m.st with
  | hunkHeader dt hh line raw src =>
    rw [hs] at hdt
    cases dt with
    | unified => rfl
    | combined mp c => cases mp <;> cases c <;> simp [hunkDiffType] at hdt
  | hunkMinus dt =>
    rw [hs] at hdt
    cases dt with
    | unified => rfl
    | combined mp c => cases mp <;> cases c <;> simp [hunkDiffType] at hdt
  | hunkZero dt =>
    rw [hs] at hdt
    cases dt with
    | unified => rfl
    | combined mp c => cases mp <;> cases c <;> simp [hunkDiffType] at hdt
  | hunkPlus dt =>
    rw [hs] at hdt
    cases dt with
    | unified => rfl
    | combined mp c => cases mp <;> cases c <;> simp [hunkDiffType] at hdt
  | _ => rfl

/-- an `@@` line after the line naming the new file or inside the hunks: it is parked, nothing is written,
both names are kept (a header still pending is dropped) -/
theorem hh_line_exact {cfg : Cfg} {m m1 : M} {l : L}
    (hs : m.st = .diffHeader .unified ∨ (isHunkState m.st = true ∧ hunkDiffType m.st = some .unified))
    (hsrc : m.source = .gitDiff) (hcnt : m.counter ≤ -4096) (hl : isHHLineG l = true)
    (e : step cfg m l = .ok m1) :
    ∃ hh, parseHunkHeader l.text = some hh ∧ m1.st = .hunkHeader .unified hh l.text l.raw m.n ∧
      hhTL m1 = hhTL m ∧ names m1 = names m := by
  unfold isHHLineG at hl
  simp only [Bool.and_eq_true, Bool.not_eq_true'] at hl
  obtain ⟨hhl, hcr⟩ := hl
  have hhl' := hhl
  unfold isHHLine at hhl'
  simp only [Bool.and_eq_true] at hhl'
  obtain ⟨hsw, hparse⟩ := hhl'
  obtain ⟨rest, ht⟩ := text_of_hh hsw
  have hnm : isMergeConflict m.st = false := by
    rcases hs with hs | ⟨hs, _⟩
    · rw [hs]; rfl
    · cases hst : m.st <;> simp [hst, isHunkState, isMergeConflict] at hs ⊢
  have e1 := handleCommitMeta_not_mine cfg m l hcr
  have e2 : handleDiffStat cfg m l = .ok (false, m) := rfl
  have e3 := handleDiffHeaderDiff_not_mine cfg m l (startsWith_false_of_head ht (d := 'd') rfl (by decide))
  have e4 := handleFileOperation_not_mine cfg m l
    (by simp [startsWithAny, Generated.Markers.fileOperationLine, startsWith, ht, List.isPrefixOf])
  have e5 := handleMinusLine_not_mine cfg m l
    (by simp [minusLineTest, startsWithAny, Generated.Markers.minusLine, startsWith, ht, List.isPrefixOf])
  have e6 := handlePlusLine_not_mine cfg m l
    (by simp [plusLineTest, startsWithAny, Generated.Markers.plusLine, startsWith, ht, List.isPrefixOf])
  cases hp : parseHunkHeader l.text with
  | none => rw [hp] at hparse; cases hparse
  | some hh =>
    have hcounter : hunkHeaderCounter m hh = m.counter := by
      unfold hunkHeaderCounter
      have : ¬ (m.counter > -4096) := by omega
      simp [this]
    have e7 : handleHunkHeader cfg m l =
        .ok (true, { m with counter := m.counter, st := .hunkHeader .unified hh l.text l.raw m.n }) := by
      unfold handleHunkHeader
      simp only [hsw, hnm, Bool.not_false, Bool.and_self, Bool.not_true, Bool.false_eq_true, if_false, hp, hcounter,
        hunkHeaderDiffType_unified l hs]
    have ec : chain cfg l Generated.handlerOrder m =
        .ok { m with counter := m.counter, st := .hunkHeader .unified hh l.text l.raw m.n } := by
      rw [handlerOrder_split, chain_skip (by rfl) e1, chain_skip (by rfl) e2, chain_skip (by rfl) e3, chain_skip (by rfl) e4,
        chain_skip (by rfl) e5, chain_skip (by rfl) e6]
      simp only [tailNames, Generated.handlerOrder, List.drop, chain, handlerOf, e7]
    unfold step at e
    rw [stepInit_git l hsrc, ec] at e
    cases e
    exact ⟨hh, rfl, rfl, ftl_congr rfl, rfl⟩

/-- a line of a hunk that `handle_hunk_line` claims: the pending header (if any) is written with the names the
machine has, nothing is pending afterwards, both names are kept -/
theorem hunk_line_rows {cfg : Cfg} {m m1 : M} {l : L} (h : InHunk m)
    (hclaim : chain cfg l Generated.handlerOrder m =
      (match handleHunkLine cfg m l with
       | .ok (_, m') => .ok m'
       | .error e => .error e))
    (e : step cfg m l = .ok m1) :
    hhTL m1 = hhTL m ++ pendHH cfg m ∧ isHunkHeader m1.st = false ∧ names m1 = names m := by
  unfold step at e
  rw [stepInit_git l h.src, hclaim] at e
  cases hh : handleHunkLine cfg m l with
  | error err => simp [hh] at e
  | ok p =>
    obtain ⟨b, m2⟩ := p
    simp only [hh] at e
    cases e
    obtain ⟨hr, hq, hn⟩ := handleHunkLine_hhrows h.st h.good hh
    exact ⟨(ftl_congr rfl).trans hr, hq, hn⟩

theorem bodyL_not_hh {l : L} (hb : firstIs l isMarker) : isHHLineG l = false := by
  have h : startsWith l.text Generated.Markers.hunkHeader = false := body_not_startsWith hb (d := '@') rfl rfl
  unfold isHHLineG isHHLine
  simp [h]

/-- the `-Subproject commit` line right after a hunk header: the header is dropped, nothing is written -/
theorem sub_minus_rows {cfg : Cfg} (hc : FHC cfg) {m m1 : M} {l : L} (h : SubHH m) (hl : isSubMinusLine l = true)
    (e : step cfg m l = .ok m1) : hhTL m1 = hhTL m := by
  unfold isSubMinusLine at hl
  simp only [Bool.and_eq_true, Bool.not_eq_true'] at hl
  obtain ⟨⟨hsw, hsome⟩, hcr⟩ := hl
  obtain ⟨hh, line, raw, src, hst, hpairable⟩ := h.st
  obtain ⟨rest, ht⟩ := startsWith_split hsw
  have ht' : l.text = '-' :: ("Subproject commit ".toList ++ rest) := by rw [ht]; rfl
  have hnd : isDiffHeader m.st = false := by rw [hst]; rfl
  cases hsub : l.submodule with
  | none => rw [hsub] at hsome; cases hsome
  | some commit =>
    have e11 : handleSubmoduleShort cfg m l = .ok (true, { m with st := .submoduleShort commit }) := by
      unfold handleSubmoduleShort submoduleShortTest
      simp [hst, pairableHunkHeader, hpairable, hsw, hc.notCO, hsub]
    have ec : chain cfg l Generated.handlerOrder m = .ok { m with st := .submoduleShort commit } := by
      rw [sub_prefix cfg m ht' (Or.inl rfl) hcr hnd h.src]
      simp only [Generated.handlerOrder, List.drop, chain, handlerOf, e11]
    unfold step at e
    rw [stepInit_git l h.src, ec] at e
    cases e
    exact ftl_congr rfl

theorem diffGit_diffLine {l : L} (h : startsWith l.text Markers.diffGit = true) :
    startsWith l.text Markers.diffLine = true := by
  obtain ⟨rest, ht⟩ := startsWith_split h
  simp [ht, startsWith, Markers.diffLine, Markers.diffGit, List.isPrefixOf]

/-- a `diff --git` line, met in any state: no hunk-header row is written (a header still pending is dropped) -/
theorem diff_line_rows {cfg : Cfg} {m m1 : M} {l : L} (hl : isDiffGitLine l = true) (e : step cfg m l = .ok m1) :
    hhTL m1 = hhTL m := by
  unfold isDiffGitLine at hl
  simp only [Bool.and_eq_true, Bool.not_eq_true'] at hl
  obtain ⟨hsw, hcr⟩ := hl
  have hdl := diffGit_diffLine hsw
  unfold step at e
  split at e
  · cases e
  · rename_i m2 e2
    cases e
    have e1 := handleCommitMeta_not_mine cfg (stepInit m l) l hcr
    have e2' : handleDiffStat cfg (stepInit m l) l = .ok (false, stepInit m l) := rfl
    rw [handlerOrder_split, chain_skip (by rfl) e1, chain_skip (by rfl) e2'] at e2
    simp only [chain, handlerOf] at e2
    have c1 : FV pHH (stepInit m l) { flushMP (stepInit m l) with st := diffLineState l } :=
      (FV.refl (stepInit m l)).flushMP.of_tl rfl rfl
    have c3 : FV pHH (stepInit m l)
        (diffLineFields (pendingDiffName cfg { flushMP (stepInit m l) with st := diffLineState l }) l) :=
      (c1.pendingDiffName minor_pHH cfg).of_tl rfl rfl
    have key : hhTL m2 = hhTL (stepInit m l) := by
      cases hd : handleDiffHeaderDiff cfg (stepInit m l) l with
      | error err => simp [hd] at e2
      | ok pr =>
        obtain ⟨b, z⟩ := pr
        have hd' := hd
        unfold handleDiffHeaderDiff at hd'
        simp only [hdl, Bool.not_true, Bool.false_eq_true, if_false] at hd'
        split at hd'
        · obtain ⟨hb, hz⟩ := ok_pair hd'
          subst hb
          simp only [hd] at e2
          cases e2
          rw [hz]; exact c3.body
        · obtain ⟨hb, hz⟩ := ok_pair hd'
          subst hb
          simp only [hd] at e2
          cases e2
          rw [hz]; exact (c3.emitLineUnchanged minor_pHH l).body
    show hhTL m2 = hhTL m
    rw [key]
    exact ftl_congr (timeline_stepInit m l)

/-- a `Submodule …` line, met in any state: no hunk-header row is written -/
theorem sublog_rows {cfg : Cfg} (hc : FHC cfg) {m m1 : M} {l : L} (hl : isSubmoduleLogLine l = true)
    (e : step cfg m l = .ok m1) : hhTL m1 = hhTL m := by
  unfold isSubmoduleLogLine at hl
  simp only [Bool.and_eq_true, Bool.not_eq_true'] at hl
  obtain ⟨hsw, hcr⟩ := hl
  obtain ⟨hdiff, hfo, hmn, hpl, hhh, hom, hnm, hoi, hbin, hdet⟩ := submoduleLog_facts hsw
  unfold step at e
  split at e
  · cases e
  · rename_i m2 e2
    cases e
    have e7 := handleHunkHeader_not_mine cfg (stepInit m l) l hhh
    have e8 := handleModeLine_not_mine cfg (stepInit m l) l hom hnm
    have e9 := handleMisc_not_mine cfg (stepInit m l) l hoi hbin
    rw [hdr_prefix cfg (stepInit m l) hcr hdiff hfo hmn hpl] at e2
    simp only [tailNames, Generated.handlerOrder, List.drop, chain, handlerOf, e7, e8, e9] at e2
    have key : hhTL m2 = hhTL (stepInit m l) := by
      cases h10 : handleSubmoduleLog cfg (stepInit m l) l with
      | error err => simp [h10] at e2
      | ok pr =>
        obtain ⟨b, z⟩ := pr
        have hfs : FS pHH (stepInit m l) z b := by
          have h10' := h10
          unfold handleSubmoduleLog at h10'
          simp only [hsw, Bool.not_true, Bool.false_eq_true, if_false] at h10'
          exact handleAdditionalCases_fs_from minor_pHH
            ((FV.refl (p := pHH) (stepInit m l)).flushMP.pendingDiffName minor_pHH cfg) (Or.inr ⟨rfl, rfl⟩) h10'
        have hb : b = true := by
          unfold handleSubmoduleLog handleAdditionalCases at h10
          have hsh : ∀ y : M, shouldHandle cfg { y with st := State.submoduleLog } = true := by
            intro y; unfold shouldHandle getStyle; simp [hc.notRaw]
          simp only [hsw, Bool.not_true, Bool.false_eq_true, if_false, hsh, if_true] at h10
          exact (ok_pair h10).1
        subst hb
        simp only [h10] at e2
        cases e2
        exact hfs.body
    show hhTL m2 = hhTL m
    rw [key]
    exact ftl_congr (timeline_stepInit m l)

end Machine
