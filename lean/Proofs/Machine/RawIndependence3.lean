import Proofs.Machine.RawIndependence2
import Proofs.Machine.Run
/-!
Noninterference in `raw_line`, part 3: the handler chain in the generated order, `step`, `runFrom`,
the generated tail of `consume`, and whole runs.

`run_raw_independent`: two inputs whose lines agree pairwise in everything but `L.raw` (`AgreeAll`)
give — for every configuration — the same error, or outputs whose rows are related pairwise by
`RowRel (rawAt ls) (rawAt ls') cfg.tab`: same kind, same input index, same text except on `.raw` rows
(each is then the raw line of its own input line plus the same pad) and `.other` rows (each is its own
raw line with tabs expanded).
-/
set_option linter.unusedVariables false
set_option linter.unusedSimpArgs false
namespace Machine
open Headers Generated

section
variable {ρ ρ' : Nat → Str} {cfg : Cfg}

theorem handlerOf_rel {name : String} {hd : Handler} (hn : handlerOf name = some hd) {m m' : M} {l l' : L}
    (h : MRel ρ ρ' cfg.tab m m') (hl : LRel ρ ρ' m.n l l') : HRel ρ ρ' cfg.tab (hd cfg m l) (hd cfg m' l') := by
  unfold handlerOf at hn
  split at hn <;> first
    | (cases hn
       first
         | exact handleCommitMeta_rel h hl | exact handleDiffStat_rel h
         | exact handleDiffHeaderDiff_rel h hl | exact handleFileOperation_rel h hl
         | exact handleMinusLine_rel h hl | exact handlePlusLine_rel h hl
         | exact handleHunkHeader_rel h hl | exact handleModeLine_rel h hl
         | exact handleMisc_rel h hl | exact handleSubmoduleLog_rel h hl
         | exact handleSubmoduleShort_rel h hl | exact handleMergeConflict_rel h hl
         | exact handleHunkLine_rel h hl | exact handleGitShowFile_rel h
         | exact handleBlame_rel h hl | exact handleGrep_rel h hl
         | exact handleShouldSkip_rel h | exact handleEmitUnchanged_rel h hl)
    | cases hn

theorem chain_rel {l l' : L} : ∀ (names : List String) {m m' : M}, MRel ρ ρ' cfg.tab m m' → LRel ρ ρ' m.n l l' →
    Good m → ERel (MRel ρ ρ' cfg.tab) (chain cfg l names m) (chain cfg l' names m')
  | [], m, m', h, hl, g => by simp only [chain]; exact h
  | name :: rest, m, m', h, hl, g => by
    simp only [chain]
    cases hn : handlerOf name with
    | none => simp only []; rfl
    | some hd =>
      simp only []
      have hr := handlerOf_rel (cfg := cfg) hn h hl
      revert hr
      cases e1 : hd cfg m l <;> cases e1' : hd cfg m' l' <;> intro hr
      · exact hr
      · exact hr.elim
      · exact hr.elim
      · rename_i p p'
        obtain ⟨b, m1⟩ := p
        obtain ⟨b', m1'⟩ := p'
        obtain ⟨hb, hm⟩ := hr
        simp only at hb hm
        subst hb
        have s1 := handlerOf_step hn e1 g
        cases b'
        · simp only []
          exact chain_rel rest hm (s1.ext.n ▸ hl) s1.good
        · simp only []
          exact hm

theorem stepInit_rel {m m' : M} {l l' : L} (h : MRel ρ ρ' cfg.tab m m') (ha : Agree l l') :
    MRel ρ ρ' cfg.tab (stepInit m l) (stepInit m' l') := by
  have h0 := h
  obtain ⟨s', b', o', hs, hb, ho, rfl⟩ := h0
  unfold stepInit armCounter
  rw [ha.text]
  simp only []
  repeat' split
  all_goals first
    | exact h
    | exact (h.upd (fun x => { x with source := detectSource l.text, counter := 0 }) (fun _ _ _ _ => rfl))
    | exact (h.upd (fun x => { x with source := detectSource l.text }) (fun _ _ _ _ => rfl))

theorem stepInit_n (m : M) (l : L) : (stepInit m l).n = m.n := by
  unfold stepInit armCounter
  repeat' split
  all_goals rfl

theorem step_rel {m m' : M} {l l' : L} (h : MRel ρ ρ' cfg.tab m m') (hl : LRel ρ ρ' m.n l l') (g : Good m) :
    ERel (MRel ρ ρ' cfg.tab) (step cfg m l) (step cfg m' l') := by
  have h1 := stepInit_rel (cfg := cfg) h hl.agree
  have g1 := (stepInit_stepS l g).good
  have hc := chain_rel (cfg := cfg) Generated.handlerOrder h1 ((stepInit_n m l).symm ▸ hl) g1
  unfold step
  revert hc
  cases chain cfg l Generated.handlerOrder (stepInit m l) <;>
    cases chain cfg l' Generated.handlerOrder (stepInit m' l') <;> intro hc
  · exact hc
  · exact hc.elim
  · exact hc.elim
  · rename_i m2 m2'
    have hc' : MRel ρ ρ' cfg.tab m2 m2' := hc
    have e := hc'.n
    have h0 := hc'
    obtain ⟨s', b', o', hs, hb, ho, rfl⟩ := h0
    exact hc'.upd (fun x => { x with n := x.n + 1 }) (fun _ _ _ _ => rfl)

end

/-- the lines of both inputs from index `k` on -/
inductive LinesRel (ρ ρ' : Nat → Str) : Nat → List L → List L → Prop
  | nil (k : Nat) : LinesRel ρ ρ' k [] []
  | cons {k : Nat} {l l' : L} {ls ls' : List L} : LRel ρ ρ' k l l' → LinesRel ρ ρ' (k + 1) ls ls' →
      LinesRel ρ ρ' k (l :: ls) (l' :: ls')

section
variable {ρ ρ' : Nat → Str} {cfg : Cfg}

theorem runFrom_rel : ∀ {ls ls' : List L} {m m' : M}, MRel ρ ρ' cfg.tab m m' → LinesRel ρ ρ' m.n ls ls' → Good m →
    ERel (MRel ρ ρ' cfg.tab) (runFrom cfg m ls) (runFrom cfg m' ls')
  | [], _, m, m', h, hls, g => by cases hls; simp only [runFrom]; exact h
  | l :: ls, _, m, m', h, hls, g => by
    cases hls with
    | cons hl hrest =>
      rename_i l' ls'
      simp only [runFrom]
      have hs := step_rel (cfg := cfg) h hl g
      revert hs
      cases e1 : step cfg m l <;> cases e1' : step cfg m' l' <;> intro hs
      · exact hs
      · exact hs.elim
      · exact hs.elim
      · rename_i m1 m1'
        simp only []
        obtain ⟨g1, _, _, hn⟩ := step_spec e1 g
        exact runFrom_rel hs (hn ▸ hrest) g1

theorem tailOp_rel {m m' : M} (h : MRel ρ ρ' cfg.tab m m') (op : String) :
    ERel (MRel ρ ρ' cfg.tab) (tailOp cfg m op) (tailOp cfg m' op) := by
  unfold tailOp
  split
  · exact flushMP_rel h
  · exact pendingDiffName_rel h cfg
  · exact emit_rel h
  · rfl

theorem tailOps_rel : ∀ (ops : List String) {m m' : M}, MRel ρ ρ' cfg.tab m m' →
    ERel (MRel ρ ρ' cfg.tab) (tailOps cfg ops m) (tailOps cfg ops m')
  | [], m, m', h => by simp only [tailOps]; exact h
  | op :: rest, m, m', h => by
    simp only [tailOps]
    have h1 := tailOp_rel (cfg := cfg) h op
    revert h1
    cases tailOp cfg m op <;> cases tailOp cfg m' op <;> intro h1
    · exact h1
    · exact h1.elim
    · exact h1.elim
    · exact tailOps_rel rest h1

theorem finish_rel {m m' : M} (h : MRel ρ ρ' cfg.tab m m') :
    ERel (MRel ρ ρ' cfg.tab) (finish cfg m) (finish cfg m') := tailOps_rel _ h

end

/-- the raw line of input line `k` -/
def rawAt (ls : List L) (k : Nat) : Str := ((ls[k]?).map L.raw).getD []

/-- the two inputs have the same number of lines and agree line by line in everything but `raw` -/
inductive AgreeAll : List L → List L → Prop
  | nil : AgreeAll [] []
  | cons {l l' : L} {ls ls' : List L} : Agree l l' → AgreeAll ls ls' → AgreeAll (l :: ls) (l' :: ls')

theorem AgreeAll.refl : ∀ ls : List L, AgreeAll ls ls
  | [] => .nil
  | l :: ls => .cons (Agree.refl l) (AgreeAll.refl ls)

theorem AgreeAll.length_eq {ls ls' : List L} (h : AgreeAll ls ls') : ls'.length = ls.length := by
  induction h with
  | nil => rfl
  | cons _ _ ih => simp [ih]

theorem rawAt_append_length (pre : List L) (l : L) (ls : List L) : rawAt (pre ++ l :: ls) pre.length = l.raw := by
  simp [rawAt]

theorem linesRel_of_agreeAll : ∀ {ls ls' : List L} (pre pre' : List L), pre'.length = pre.length → AgreeAll ls ls' →
    LinesRel (rawAt (pre ++ ls)) (rawAt (pre' ++ ls')) pre.length ls ls'
  | _, _, pre, pre', hp, .nil => .nil _
  | _, _, pre, pre', hp, .cons (l := l) (l' := l') (ls := ls) (ls' := ls') ha hrest => by
    refine .cons ⟨ha, (rawAt_append_length pre l ls).symm, ?_⟩ ?_
    · rw [← hp]; exact (rawAt_append_length pre' l' ls').symm
    · have := linesRel_of_agreeAll (pre ++ [l]) (pre' ++ [l']) (by simp [hp]) hrest
      simpa [List.append_assoc] using this

/-- **Whole-run noninterference in `raw_line`.** -/
theorem run_rel (cfg : Cfg) {ls ls' : List L} (h : AgreeAll ls ls') :
    ERel (fun m m' => RowsRel (rawAt ls) (rawAt ls') cfg.tab m.out m'.out) (run cfg ls) (run cfg ls') := by
  have hl : LinesRel (rawAt ls) (rawAt ls') 0 ls ls' := by
    simpa using linesRel_of_agreeAll [] [] rfl h
  have h0 : MRel (rawAt ls) (rawAt ls') cfg.tab ({} : M) {} := MRel.refl _
  have hr := runFrom_rel (cfg := cfg) h0 hl good_init
  unfold run
  revert hr
  cases runFrom cfg {} ls <;> cases runFrom cfg {} ls' <;> intro hr
  · exact hr
  · exact hr.elim
  · exact hr.elim
  · rename_i m1 m1'
    simp only []
    have hf := finish_rel (cfg := cfg) hr
    revert hf
    cases finish cfg m1 <;> cases finish cfg m1' <;> intro hf
    · exact hf
    · exact hf.elim
    · exact hf.elim
    · exact (show MRel _ _ _ _ _ from hf).outRel

end Machine
