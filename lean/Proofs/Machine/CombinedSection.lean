import Proofs.Machine.BodyCombinedText
/-!
File sections of a combined diff (C01, session 4 strengthening).

`diff --cc <path>` / `diff --combined <path>` puts the machine in `DiffHeader(Combined(Unknown, No))`; the `@@@ … @@@`
hunk header that follows takes the number of marker columns of the section's hunk lines from that state
(`hunkHeaderDiffType`). Between the two git writes header lines (`index a,b..c`, `mode a,b..c`, `new file mode`,
`deleted file mode a,b`, `--- `, `+++ `, `Binary files differ`). Here: **no handler of the chain changes the state (or
the source) on such a line** — for every configuration, every machine in a header state of a git diff and every line
that is not a commit line and starts with none of `diff `, `@@`, `old mode `, `new mode `, `Submodule ` (`HeaderLine`;
the lines git writes there are of that kind: `headerLine_of_prefix`). Lifted through `chain`, `step`, `runFrom`, and
composed with the `diff` line, the `@@@` line and `run_combined_line_row`: the rows of the section's hunk lines.
-/
set_option linter.unusedSimpArgs false
set_option linter.unusedVariables false
set_option linter.unnecessarySimpa false
namespace Machine
open Headers Generated

/-- state and source are what they were -/
structure HK (m m' : M) : Prop where
  st : m'.st = m.st
  source : m'.source = m.source

theorem HK.refl (m : M) : HK m m := ⟨rfl, rfl⟩

theorem HK.trans {a b c : M} (h1 : HK a b) (h2 : HK b c) : HK a c :=
  ⟨h2.st.trans h1.st, h2.source.trans h1.source⟩

theorem cs_flushMP_source (m : M) : (flushMP m).source = m.source := by
  unfold flushMP; split <;> rfl

theorem cs_direct_source (m : M) (rows : List Row) : (direct m rows).source = m.source := by
  unfold direct; split <;> rfl

theorem cs_writeGeneric_source (cfg : Cfg) (m : M) (t r : Str) : (writeGeneric cfg m t r).source = m.source := by
  unfold writeGeneric
  split
  · rfl
  · exact cs_direct_source _ _

theorem HK.emit {m x : M} (h : HK m x) : HK m (emit x) := ⟨h.st, h.source⟩

theorem HK.flushMP {m x : M} (h : HK m x) : HK m (flushMP x) :=
  ⟨(flushMP_st x).trans h.st, (cs_flushMP_source x).trans h.source⟩

theorem HK.direct {m x : M} (h : HK m x) (rows : List Row) : HK m (direct x rows) :=
  ⟨(direct_st x rows).trans h.st, (cs_direct_source x rows).trans h.source⟩

theorem HK.writeGeneric {m x : M} (h : HK m x) (cfg : Cfg) (t r : Str) : HK m (writeGeneric cfg x t r) :=
  ⟨(writeGeneric_st cfg x t r).trans h.st, (cs_writeGeneric_source cfg x t r).trans h.source⟩

theorem HK.handleHeaderLine {m x : M} (h : HK m x) (cfg : Cfg) (c : Bool) : HK m (handleHeaderLine cfg x c) := by
  unfold Machine.handleHeaderLine; exact h.writeGeneric cfg _ _

theorem HK.emitLineUnchanged {m x : M} (h : HK m x) (l : L) : HK m (emitLineUnchanged x l) := by
  unfold Machine.emitLineUnchanged; exact (h.flushMP.emit).direct _

theorem HK.of_fields {m x x' : M} (h : HK m x) (hs : x'.st = x.st) (hsrc : x'.source = x.source) : HK m x' :=
  ⟨hs.trans h.st, hsrc.trans h.source⟩

theorem HK.pendingDiffName {m x : M} (h : HK m x) (cfg : Cfg) : HK m (pendingDiffName cfg x) := by
  unfold Machine.pendingDiffName
  split
  · exact h
  · split
    · exact (h.emit.writeGeneric cfg _ _).of_fields rfl rfl
    · split
      · exact h
      · split
        · exact (h.emit.handleHeaderLine cfg _).of_fields rfl rfl
        · exact h

theorem HK.shouldWriteGeneric {m x : M} (h : HK m x) (cfg : Cfg) (l : L) : HK m (shouldWriteGeneric cfg x l).2 := by
  unfold Machine.shouldWriteGeneric
  split
  · exact h.flushMP.emit.writeGeneric cfg _ _
  · exact h

theorem HK.fileOpUpdate {m x : M} (h : HK m x) (ev : FileEvent) (nm : Str) : HK m (fileOpUpdate x ev nm) := by
  unfold Machine.fileOpUpdate
  split <;> exact h.of_fields rfl rfl

theorem HK.plusLineFinish {m x : M} (h : HK m x) (cfg : Cfg) (l : L) : HK m (plusLineFinish cfg x l).2 := by
  unfold Machine.plusLineFinish
  split
  · exact h.shouldWriteGeneric cfg l
  · split
    · exact (h.emit.handleHeaderLine cfg _).of_fields rfl rfl
    · exact h

/-- a line inside a file section's header: not a commit line, and it starts none of the constructs whose handler
assigns another state -/
structure HeaderLine (l : L) : Prop where
  commit : l.commitRe = false
  diff : startsWith l.text Markers.diffLine = false
  hunkHeader : startsWith l.text Markers.hunkHeader = false
  oldMode : startsWith l.text Markers.oldMode = false
  newMode : startsWith l.text Markers.newMode = false
  submoduleLog : startsWith l.text Markers.submoduleLog = false

/-- the machine is in a header state of a git diff -/
structure InHeader (m : M) : Prop where
  st : isDiffHeader m.st = true
  source : m.source = .gitDiff

theorem InHeader.of_hk {m m' : M} (h : InHeader m) (k : HK m m') : InHeader m' :=
  ⟨by rw [k.st]; exact h.st, by rw [k.source]; exact h.source⟩

theorem InHeader.cases {m : M} (h : InHeader m) : ∃ dt, m.st = .diffHeader dt := by
  have := h.st
  cases hs : m.st <;> simp [hs, isDiffHeader] at this
  exact ⟨_, rfl⟩

-- one lemma per handler ---------------------------------------------------------------------

theorem handleFileOperation_hk {cfg : Cfg} {m m' : M} {l : L} {b : Bool}
    (e : handleFileOperation cfg m l = .ok (b, m')) : HK m m' := by
  unfold handleFileOperation at e
  split at e
  · cases e; exact HK.refl m
  · simp only [Except.ok.injEq] at e
    obtain rfl : m' = _ := (congrArg Prod.snd e).symm
    have c := (HK.refl m).fileOpUpdate (parseDiffHeaderLine l.text (decide (m.source = Source.gitDiff))).2
      ((repeatedFilePath m.diffLine m.diffLineG).getD [])
    unfold fileOpFinish
    split
    · exact c.shouldWriteGeneric cfg l
    · exact c

theorem handleMinusLine_hk {cfg : Cfg} {m m' : M} {l : L} {b : Bool} (hsrc : m.source = .gitDiff)
    (e : handleMinusLine cfg m l = .ok (b, m')) : HK m m' := by
  unfold handleMinusLine at e
  split at e
  · cases e; exact HK.refl m
  · simp only [Except.ok.injEq] at e
    obtain rfl : m' = _ := (congrArg Prod.snd e).symm
    refine HK.shouldWriteGeneric (HK.flushMP ?_) cfg l
    exact ⟨by simp [hsrc], rfl⟩

theorem handlePlusLine_hk {cfg : Cfg} {m m' : M} {l : L} {b : Bool}
    (e : handlePlusLine cfg m l = .ok (b, m')) : HK m m' := by
  unfold handlePlusLine at e
  split at e
  · cases e; exact HK.refl m
  · simp only [Except.ok.injEq] at e
    obtain rfl : m' = _ := (congrArg Prod.snd e).symm
    refine HK.plusLineFinish (HK.flushMP ?_) cfg l
    exact ⟨rfl, rfl⟩

theorem handleAdditionalCases_hk {cfg : Cfg} {m m' : M} {l : L} {b : Bool}
    (e : handleAdditionalCases cfg m l m.st = .ok (b, m')) : HK m m' := by
  unfold handleAdditionalCases at e
  have c : HK m { flushMP m with st := m.st } := ⟨rfl, cs_flushMP_source m⟩
  split at e
  · cases e; exact c.emit.writeGeneric cfg _ _
  · cases e; exact c

theorem handleMisc_hk {cfg : Cfg} {m m' : M} {l : L} {b : Bool} (h : InHeader m)
    (e : handleMisc cfg m l = .ok (b, m')) : HK m m' := by
  unfold handleMisc at e
  simp only at e
  split at e
  · cases e; exact HK.refl m
  · split at e
    · split at e
      · cases e
        exact ((HK.refl m).emitLineUnchanged l).of_fields rfl rfl
      · cases e; exact ⟨rfl, rfl⟩
    · rw [if_pos h.st] at e
      exact handleAdditionalCases_hk e

theorem handleSubmoduleShort_hk {cfg : Cfg} {m m' : M} {l : L} {b : Bool} (h : InHeader m)
    (e : handleSubmoduleShort cfg m l = .ok (b, m')) : HK m m' := by
  obtain ⟨dt, hst⟩ := h.cases
  have ht : submoduleShortTest m l = false := by
    unfold submoduleShortTest pairableHunkHeader; simp [hst]
  unfold handleSubmoduleShort at e
  simp [ht] at e
  obtain ⟨_, rfl⟩ := e
  exact HK.refl m

theorem handleMergeConflict_hk {cfg : Cfg} {m m' : M} {l : L} {b : Bool} (h : InHeader m)
    (e : handleMergeConflict cfg m l = .ok (b, m')) : HK m m' := by
  obtain ⟨dt, hst⟩ := h.cases
  rw [handleMergeConflict_not_mine cfg m l (by rw [hst]; rfl) (by rw [hst]; rfl)] at e
  cases e; exact HK.refl m

theorem handleHunkLine_hk {cfg : Cfg} {m m' : M} {l : L} {b : Bool} (h : InHeader m)
    (e : handleHunkLine cfg m l = .ok (b, m')) : HK m m' := by
  obtain ⟨dt, hst⟩ := h.cases
  unfold handleHunkLine at e
  simp [hst, isHunkState] at e
  obtain ⟨_, rfl⟩ := e
  exact HK.refl m

theorem handleBlame_hk {cfg : Cfg} {m m' : M} {l : L} {b : Bool} (h : InHeader m)
    (e : handleBlame cfg m l = .ok (b, m')) : HK m m' := by
  obtain ⟨dt, hst⟩ := h.cases
  unfold handleBlame at e
  simp [hst] at e
  obtain ⟨_, rfl⟩ := e
  exact (HK.refl m).emit

theorem handleGrep_hk {cfg : Cfg} {m m' : M} {l : L} {b : Bool} (h : InHeader m)
    (e : handleGrep cfg m l = .ok (b, m')) : HK m m' := by
  obtain ⟨dt, hst⟩ := h.cases
  unfold handleGrep at e
  simp [hst] at e
  obtain ⟨_, rfl⟩ := e
  exact (HK.refl m).emit

/-- every handler of the chain, on a header line, in a header state of a git diff: state and source stay -/
theorem handlerOf_hk {name : String} {hd : Handler} (hn : handlerOf name = some hd)
    {cfg : Cfg} {m m' : M} {l : L} {b : Bool} (h : InHeader m) (hl : HeaderLine l)
    (e : hd cfg m l = .ok (b, m')) : HK m m' := by
  unfold handlerOf at hn
  split at hn <;> first
    | (cases hn
       first
         | (rw [handleCommitMeta_not_mine cfg m l hl.commit] at e; cases e; exact HK.refl m)
         | (unfold handleDiffStat at e; cases e; exact HK.refl m)
         | (rw [handleDiffHeaderDiff_not_mine cfg m l hl.diff] at e; cases e; exact HK.refl m)
         | exact handleFileOperation_hk e
         | exact handleMinusLine_hk h.source e
         | exact handlePlusLine_hk e
         | (rw [handleHunkHeader_not_mine cfg m l hl.hunkHeader] at e; cases e; exact HK.refl m)
         | (rw [handleModeLine_not_mine cfg m l hl.oldMode hl.newMode] at e; cases e; exact HK.refl m)
         | exact handleMisc_hk h e
         | (rw [handleSubmoduleLog_not_mine cfg m l hl.submoduleLog] at e; cases e; exact HK.refl m)
         | exact handleSubmoduleShort_hk h e
         | exact handleMergeConflict_hk h e
         | exact handleHunkLine_hk h e
         | (unfold handleGitShowFile at e; cases e; exact (HK.refl m).emit)
         | exact handleBlame_hk h e
         | exact handleGrep_hk h e
         | (unfold handleShouldSkip at e; cases e; exact HK.refl m)
         | (unfold handleEmitUnchanged at e; cases e; exact (HK.refl m).emitLineUnchanged l))
    | cases hn

theorem chain_hk {cfg : Cfg} {l : L} (hl : HeaderLine l) :
    ∀ (names : List String) {m m' : M}, chain cfg l names m = .ok m' → InHeader m → HK m m'
  | [], m, m', e, h => by simp only [chain] at e; cases e; exact HK.refl m
  | name :: rest, m, m', e, h => by
    simp only [chain] at e
    split at e
    · cases e
    · rename_i hd hn
      split at e
      · cases e
      · rename_i m1 e1
        cases e
        exact handlerOf_hk hn h hl e1
      · rename_i m1 e1
        have c := handlerOf_hk hn h hl e1
        exact c.trans (chain_hk hl rest e (h.of_hk c))

theorem cs_stepInit_git {m : M} (l : L) (h : m.source = .gitDiff) : stepInit m l = m := by
  unfold stepInit; simp [h]

/-- **one header line**: state and source after the step are what they were -/
theorem step_header_line {cfg : Cfg} {m m' : M} {l : L} (h : InHeader m) (hl : HeaderLine l)
    (e : step cfg m l = .ok m') : m'.st = m.st ∧ m'.source = .gitDiff := by
  unfold step at e
  rw [cs_stepInit_git l h.source] at e
  split at e
  · cases e
  · rename_i m2 e2
    cases e
    have c := chain_hk hl _ e2 h
    exact ⟨c.st, c.source.trans h.source⟩

theorem runFrom_header_lines {cfg : Cfg} : ∀ (ls : List L) {m m' : M}, runFrom cfg m ls = .ok m' →
    InHeader m → (∀ x ∈ ls, HeaderLine x) → m'.st = m.st ∧ m'.source = .gitDiff
  | [], m, m', e, h, _ => by simp only [runFrom] at e; cases e; exact ⟨rfl, h.source⟩
  | l :: ls, m, m', e, h, hl => by
    simp only [runFrom] at e
    split at e
    · cases e
    · rename_i m1 e1
      obtain ⟨hs, hsrc⟩ := step_header_line h (hl l (List.mem_cons_self ..)) e1
      have h1 : InHeader m1 := ⟨by rw [hs]; exact h.st, hsrc⟩
      obtain ⟨hs2, hsrc2⟩ := runFrom_header_lines ls e h1 (fun x hx => hl x (List.mem_cons_of_mem _ hx))
      exact ⟨hs2.trans hs, hsrc2⟩

-- the lines git writes in the header of a combined-diff section ------------------------------

/-- two strings that differ at some position within both: neither is a prefix of the other -/
def clash : Str → Str → Bool
  | a :: as, b :: bs => a != b || clash as bs
  | _, _ => false

theorem startsWith_false_of_clash : ∀ (p lit rest : Str), clash p lit = true → startsWith (p ++ rest) lit = false
  | [], _, _, h => by simp [clash] at h
  | _ :: _, [], _, h => by simp [clash] at h
  | a :: as, b :: bs, rest, h => by
    simp only [clash, Bool.or_eq_true, bne_iff_ne, ne_eq] at h
    by_cases hab : a = b
    · subst hab
      have := startsWith_false_of_clash as bs rest (by simpa using h)
      simpa [startsWith, List.isPrefixOf] using this
    · simp only [startsWith, List.cons_append, List.isPrefixOf, Bool.and_eq_false_imp, beq_iff_eq]
      intro h'; exact absurd h'.symm hab

/-- the prefixes of the lines between `diff --cc <path>` and the first hunk header (combine-diff.c) -/
def combinedHeaderPrefixes : List Str :=
  [['i', 'n', 'd', 'e', 'x', ' '],
   ['m', 'o', 'd', 'e', ' '],
   ['n', 'e', 'w', ' ', 'f', 'i', 'l', 'e', ' ', 'm', 'o', 'd', 'e', ' '],
   ['d', 'e', 'l', 'e', 't', 'e', 'd', ' ', 'f', 'i', 'l', 'e', ' ', 'm', 'o', 'd', 'e', ' '],
   ['-', '-', '-', ' '],
   ['+', '+', '+', ' '],
   ['B', 'i', 'n', 'a', 'r', 'y', ' ', 'f', 'i', 'l', 'e', 's', ' ']]

/-- the literals whose handlers assign another state -/
def stateChangingLiterals : List Str :=
  [Markers.diffLine, Markers.hunkHeader, Markers.oldMode, Markers.newMode, Markers.submoduleLog]

theorem prefixes_clash : ∀ p ∈ combinedHeaderPrefixes, ∀ lit ∈ stateChangingLiterals, clash p lit = true := by decide

/-- a line that is not a commit line and starts like one of git's combined-section header lines is a `HeaderLine` -/
theorem headerLine_of_prefix {l : L} (hc : l.commitRe = false)
    (hp : startsWithAny l.text combinedHeaderPrefixes = true) : HeaderLine l := by
  unfold startsWithAny at hp
  rw [List.any_eq_true] at hp
  obtain ⟨p, hpm, hsp⟩ := hp
  obtain ⟨rest, hrest⟩ : ∃ rest, l.text = p ++ rest := by
    unfold startsWith at hsp
    exact ⟨l.text.drop p.length, (List.prefix_iff_eq_append.mp (List.isPrefixOf_iff_prefix.mp hsp)).symm⟩
  have key : ∀ lit ∈ stateChangingLiterals, startsWith l.text lit = false := by
    intro lit hlit
    rw [hrest]
    exact startsWith_false_of_clash p lit rest (prefixes_clash p hpm lit hlit)
  exact ⟨hc, key _ (by simp [stateChangingLiterals]), key _ (by simp [stateChangingLiterals]),
    key _ (by simp [stateChangingLiterals]), key _ (by simp [stateChangingLiterals]),
    key _ (by simp [stateChangingLiterals])⟩

-- the `diff --cc` line and the `@@@` line -----------------------------------------------------

/-- a `diff --cc <path>` / `diff --combined <path>` line -/
structure CombinedDiffLine (l : L) : Prop where
  commit : l.commitRe = false
  cc : startsWithAny l.text Markers.combinedDiffLine = true

theorem combinedDiffLine_facts {l : L} (h : CombinedDiffLine l) :
    startsWith l.text Markers.diffLine = true ∧ detectSource l.text = .gitDiff := by
  have hcc := h.cc
  simp only [startsWithAny, Markers.combinedDiffLine, List.any_cons, List.any_nil, Bool.or_false,
    Bool.or_eq_true] at hcc
  rcases hcc with hcc | hcc
  · obtain ⟨rest, hr⟩ : ∃ rest, l.text = "diff --cc ".toList ++ rest :=
      ⟨l.text.drop 10, (List.prefix_iff_eq_append.mp (List.isPrefixOf_iff_prefix.mp hcc)).symm⟩
    rw [hr]
    exact ⟨by simp [startsWith, Markers.diffLine, List.isPrefixOf],
      by simp [detectSource, startsWithAny, startsWith, Generated.gitDiffPrefixes, List.isPrefixOf]⟩
  · obtain ⟨rest, hr⟩ : ∃ rest, l.text = "diff --combined ".toList ++ rest :=
      ⟨l.text.drop 16, (List.prefix_iff_eq_append.mp (List.isPrefixOf_iff_prefix.mp hcc)).symm⟩
    rw [hr]
    exact ⟨by simp [startsWith, Markers.diffLine, List.isPrefixOf],
      by simp [detectSource, startsWithAny, startsWith, Generated.gitDiffPrefixes, List.isPrefixOf]⟩

theorem handleDiffHeaderDiff_claims (cfg : Cfg) (m : M) (l : L) (hd : startsWith l.text Markers.diffLine = true) :
    ∃ x, handleDiffHeaderDiff cfg m l = .ok (true, x) ∧ x.st = diffLineState l ∧ x.source = m.source := by
  have hbase : (diffLineFields (pendingDiffName cfg { flushMP m with st := diffLineState l }) l).st = diffLineState l ∧
      (diffLineFields (pendingDiffName cfg { flushMP m with st := diffLineState l }) l).source = m.source := by
    refine ⟨?_, ?_⟩
    · show (pendingDiffName cfg _).st = _
      rw [pendingDiffName_st]
    · show (pendingDiffName cfg _).source = _
      exact ((HK.refl _).pendingDiffName cfg).source.trans (cs_flushMP_source m)
  unfold handleDiffHeaderDiff
  simp only [hd, Bool.not_true, Bool.false_eq_true, if_false]
  split
  · exact ⟨_, rfl, hbase⟩
  · exact ⟨_, rfl, (emitLineUnchanged_st _ l).trans hbase.1, ((HK.refl _).emitLineUnchanged l).source.trans hbase.2⟩

/-- **the `diff --cc` line**: whatever the state before (input not taken for plain `diff -u` output), the machine is in
the combined header state of a git diff afterwards -/
theorem step_combined_diff_line {cfg : Cfg} {m m' : M} {l : L} (hl : CombinedDiffLine l)
    (hsrc : m.source ≠ .diffUnified) (e : step cfg m l = .ok m') :
    m'.st = .diffHeader (.combined .unknown false) ∧ m'.source = .gitDiff := by
  obtain ⟨hd, hds⟩ := combinedDiffLine_facts hl
  have hinit : (stepInit m l).source = .gitDiff := by
    cases hs : m.source
    · unfold stepInit; simp [hs]
    · exact absurd hs hsrc
    · unfold stepInit armCounter
      simp only [hs, if_true, hds]
      repeat' split
      all_goals rfl
  unfold step at e
  split at e
  · cases e
  · rename_i m2 e2
    have hm2 : m2.st = .diffHeader (.combined .unknown false) ∧ m2.source = .gitDiff := by
      have e1 := handleCommitMeta_not_mine cfg (stepInit m l) l hl.commit
      obtain ⟨x, hx, hxst, hxsrc⟩ := handleDiffHeaderDiff_claims cfg (stepInit m l) l hd
      simp only [Generated.handlerOrder, chain, handlerOf, e1, handleDiffStat, hx] at e2
      cases e2
      have hstate : diffLineState l = .diffHeader (.combined .unknown false) := by
        unfold diffLineState; simp [hl.cc]
      exact ⟨hxst.trans hstate, hxsrc.trans hinit⟩
    cases e
    exact hm2

/-- a hunk-header line of a combined diff: starts with `@@`, parses -/
structure HunkHeaderLine (l : L) (hh : HunkHeader) : Prop where
  commit : l.commitRe = false
  at2 : startsWith l.text Markers.hunkHeader = true
  parses : parseHunkHeader l.text = some hh

theorem cs_not_startsWith_of_at {l : L} (h : startsWith l.text Markers.hunkHeader = true) {lit : Str} {d : Char}
    {rest' : Str} (hl : lit = d :: rest') (hd : d ≠ '@') : startsWith l.text lit = false := by
  obtain ⟨rest, hr⟩ : ∃ rest, l.text = '@' :: rest := by
    have : (['@', '@'] : Str).isPrefixOf l.text = true := h
    cases ht : l.text with
    | nil => simp [ht, List.isPrefixOf] at this
    | cons c cs =>
      simp [ht, List.isPrefixOf] at this
      exact ⟨cs, by rw [this.1]⟩
  exact startsWith_false_of_head hr hl (fun h => hd h.symm)

/-- number of leading `@` of a hunk-header line, minus one: the number of parents -/
def atParents (l : L) : Nat := (l.text.takeWhile (· = '@')).length - 1

/-- **the `@@@` line** met in the combined header state: the hunk is one of a combined diff with `#@ − 1` parents -/
theorem step_combined_hunk_header {cfg : Cfg} {m m' : M} {l : L} {hh : HunkHeader} (hst : m.st = .diffHeader (.combined .unknown false))
    (hsrc : m.source = .gitDiff) (hl : HunkHeaderLine l hh) (e : step cfg m l = .ok m') :
    m'.st = .hunkHeader (.combined (.number (atParents l)) false) hh l.text l.raw m.n ∧ m'.source = .gitDiff := by
  unfold step at e
  rw [cs_stepInit_git l hsrc] at e
  split at e
  · cases e
  · rename_i m2 e2
    suffices hm2 : m2.st = .hunkHeader (.combined (.number (atParents l)) false) hh l.text l.raw m.n ∧
        m2.source = .gitDiff by cases e; exact hm2
    have e1 := handleCommitMeta_not_mine cfg m l hl.commit
    have e3 := handleDiffHeaderDiff_not_mine cfg m l (cs_not_startsWith_of_at hl.at2 (d := 'd') rfl (by decide))
    have e4 := handleFileOperation_not_mine cfg m l (by
      have a := cs_not_startsWith_of_at hl.at2 (lit := Markers.fileOperationLine.getD 0 []) (d := 'd') rfl (by decide)
      have b := cs_not_startsWith_of_at hl.at2 (lit := Markers.fileOperationLine.getD 1 []) (d := 'n') rfl (by decide)
      simp only [Markers.fileOperationLine, List.getD_cons_zero, List.getD_cons_succ] at a b
      simp [startsWithAny, Markers.fileOperationLine, a, b])
    have e5 := handleMinusLine_not_mine cfg m l (by
      have a := cs_not_startsWith_of_at hl.at2 (lit := Markers.minusLine.getD 0 []) (d := '-') rfl (by decide)
      have b := cs_not_startsWith_of_at hl.at2 (lit := Markers.minusLine.getD 1 []) (d := 'r') rfl (by decide)
      have c := cs_not_startsWith_of_at hl.at2 (lit := Markers.minusLine.getD 2 []) (d := 'c') rfl (by decide)
      simp only [Markers.minusLine, List.getD_cons_zero, List.getD_cons_succ] at a b c
      simp [minusLineTest, startsWithAny, Markers.minusLine, a, b, c])
    have e6 := handlePlusLine_not_mine cfg m l (by
      have a := cs_not_startsWith_of_at hl.at2 (lit := Markers.plusLine.getD 0 []) (d := '+') rfl (by decide)
      have b := cs_not_startsWith_of_at hl.at2 (lit := Markers.plusLine.getD 1 []) (d := 'r') rfl (by decide)
      have c := cs_not_startsWith_of_at hl.at2 (lit := Markers.plusLine.getD 2 []) (d := 'c') rfl (by decide)
      simp only [Markers.plusLine, List.getD_cons_zero, List.getD_cons_succ] at a b c
      simp [plusLineTest, startsWithAny, Markers.plusLine, a, b, c])
    simp only [Generated.handlerOrder, chain, handlerOf, e1, handleDiffStat, e3, e4, e5, e6] at e2
    unfold handleHunkHeader at e2
    simp only [hl.at2, hst, isMergeConflict, hl.parses, Bool.not_false, Bool.and_true, Bool.not_true,
      Bool.false_eq_true, if_false] at e2
    cases e2
    refine ⟨?_, hsrc⟩
    show State.hunkHeader (hunkHeaderDiffType m l) hh l.text l.raw m.n = _
    unfold hunkHeaderDiffType atParents
    rw [hst]

-- whole runs ------------------------------------------------------------------------------------

theorem cs_runFrom_append {cfg : Cfg} : ∀ (xs ys : List L) (m : M),
    runFrom cfg m (xs ++ ys) = (match runFrom cfg m xs with
      | .ok m1 => runFrom cfg m1 ys
      | .error e => .error e)
  | [], ys, m => by simp [runFrom]
  | x :: xs, ys, m => by
    simp only [List.cons_append, runFrom]
    cases step cfg m x with
    | error e => rfl
    | ok m1 => exact cs_runFrom_append xs ys m1

theorem cs_runFrom_append_ok {cfg : Cfg} {m m' : M} {xs ys : List L} (e : runFrom cfg m (xs ++ ys) = .ok m') :
    ∃ m1, runFrom cfg m xs = .ok m1 ∧ runFrom cfg m1 ys = .ok m' := by
  rw [cs_runFrom_append] at e
  cases e1 : runFrom cfg m xs with
  | error err => rw [e1] at e; cases e
  | ok m1 => rw [e1] at e; exact ⟨m1, rfl, e⟩

/-- **`combined_section_header_run`**. Input `pre0 ++ d :: hdr ++ [h]`: after anything (`pre0`; not taken for plain
`diff -u` output) a `diff --cc` / `diff --combined` line `d`, any number of header lines `hdr`, and a hunk-header line
`h` that parses: the machine is in the pending-hunk-header state of a combined diff with as many parents as `h` has
`@`, less one — the source is git — so `hunkDiffType` is what `hunk_line_text_intact_combined` asks for. -/
theorem run_combined_section_header {cfg : Cfg} {pre0 hdr : List L} {d h : L} {hh : HunkHeader} {m0 mi : M}
    (e0 : runFrom cfg {} pre0 = .ok m0) (hsrc0 : m0.source ≠ .diffUnified) (hd : CombinedDiffLine d)
    (hhdr : ∀ x ∈ hdr, HeaderLine x) (hh' : HunkHeaderLine h hh)
    (e : runFrom cfg {} (pre0 ++ d :: (hdr ++ [h])) = .ok mi) :
    mi.source = .gitDiff ∧ hunkDiffType mi.st = some (.combined (.number (atParents h)) false) := by
  rw [cs_runFrom_append, e0] at e
  simp only [runFrom] at e
  split at e
  · cases e
  · rename_i m1 e1
    obtain ⟨hs1, hsrc1⟩ := step_combined_diff_line hd hsrc0 e1
    rw [cs_runFrom_append] at e
    cases e2 : runFrom cfg m1 hdr with
    | error err => simp [e2] at e
    | ok m2 =>
      simp only [e2, runFrom] at e
      have hin : InHeader m1 := ⟨by rw [hs1]; rfl, hsrc1⟩
      obtain ⟨hs2, hsrc2⟩ := runFrom_header_lines hdr e2 hin hhdr
      split at e
      · cases e
      · rename_i m3 e3
        cases e
        obtain ⟨hs3, hsrc3⟩ := step_combined_hunk_header (hs2.trans hs1) hsrc2 hh' e3
        exact ⟨hsrc3, by rw [hs3]; rfl⟩

-- the lines of the section's hunks ---------------------------------------------------------------

/-- a line of a hunk of a combined diff with `n` parents: a possible hunk-body line (not a commit line, not a 40-hex
submodule line, not the start of a conflict region) that has its `n` marker columns, all ASCII -/
structure CombinedBodyLine (n : Nat) (l : L) : Prop where
  body : HunkBody l
  sub : l.submodule = none
  nomc : startsWith l.text Markers.mcBegin = false
  cols : n ≤ l.text.length
  ascii : (l.text.take n).all (fun c => c.toNat < 128) = true

theorem cs_hunkLinePre_source {cfg : Cfg} {m m' : M} (e : hunkLinePre cfg m = .ok m') : m'.source = m.source := by
  unfold hunkLinePre at e
  simp only at e
  have h1 : (if m.minus.length > cfg.bufSize ∨ m.plus.length > cfg.bufSize then flushMP m else m).source = m.source := by
    split
    · exact cs_flushMP_source m
    · rfl
  split at e
  · unfold emitHunkHeader at e
    split at e
    · cases e
    · cases e
      rw [cs_direct_source]
      exact (cs_flushMP_source _).trans h1
  · cases e; exact h1

/-- a line that is not a hunk line keeps the diff type (`stateDiffType`) -/
theorem cs_hunkDiffType_other {s : State} {dt : DiffType} (h : hunkDiffType s = some dt) :
    hunkDiffType (.hunkZero (stateDiffType s)) = some dt := by
  cases s with
  | hunkMinus d | hunkZero d | hunkPlus d =>
    cases d with
    | unified => simpa [hunkDiffType, stateDiffType] using h
    | combined mp c => cases mp <;> simpa [hunkDiffType, stateDiffType] using h
  | hunkHeader d hh a b k =>
    cases d with
    | unified => simpa [hunkDiffType, stateDiffType] using h
    | combined mp c => cases mp <;> cases c <;> simp [hunkDiffType, stateDiffType] at h ⊢ <;> exact h
  | _ => simp [hunkDiffType] at h

theorem cs_hunkLinePush_combined_state {cfg : Cfg} {m m' : M} {l : L} {n : Nat}
    (hdt : hunkDiffType m.st = some (.combined (.number n) false)) (hl : CombinedBodyLine n l)
    (e : hunkLinePush cfg m l = .ok m') :
    m'.source = m.source ∧ hunkDiffType m'.st = some (.combined (.number n) false) ∧ isHunkHeader m'.st = false := by
  have hn : newLineState m.st l = .ok (classifyCombined n false l) := by unfold newLineState; rw [hdt]
  obtain ⟨hbp, hpb⟩ := bytePrefix_ascii n l.text hl.ascii
  have hlen : prefixBytes (bytePrefix n l.text) = n := by
    rw [hbp, hpb, List.length_take]; exact Nat.min_eq_left hl.cols
  unfold hunkLinePush at e
  rw [hn, classifyCombined_eq] at e
  cases hk : combinedLineKind (bytePrefix n l.text) with
  | none =>
    simp only [hk, Option.map_none] at e
    cases e
    exact ⟨cs_flushMP_source m, by simpa using cs_hunkDiffType_other hdt, rfl⟩
  | some k =>
    cases k with
    | minus =>
      simp only [hk, Option.map_some, nParents] at e
      cases e
      refine ⟨?_, by simp [hunkDiffType, hlen], rfl⟩
      split
      · exact cs_flushMP_source m
      · rfl
    | plus =>
      simp only [hk, Option.map_some, nParents] at e
      cases e
      exact ⟨rfl, by simp [hunkDiffType, hlen], rfl⟩
    | zero =>
      simp only [hk, Option.map_some, nParents] at e
      cases e
      exact ⟨cs_flushMP_source m, by simp [hunkDiffType, hlen], rfl⟩

/-- **one line of a combined hunk**: the number of marker columns the next line will be read with is still `n` -/
theorem step_combined_body_line {cfg : Cfg} {m m' : M} {l : L} {n : Nat} (g : Good m) (hsrc : m.source = .gitDiff)
    (hdt : hunkDiffType m.st = some (.combined (.number n) false)) (hl : CombinedBodyLine n l)
    (e : step cfg m l = .ok m') :
    m'.source = .gitDiff ∧ hunkDiffType m'.st = some (.combined (.number n) false) ∧ isHunkHeader m'.st = false := by
  have hst := hunkState_of_diffType hdt
  unfold step at e
  rw [cs_stepInit_git l hsrc, hunk_body_chain cfg m l (by rw [hsrc]; decide) hst hl.body hl.sub hl.nomc] at e
  cases hh : handleHunkLine cfg m l with
  | error err => simp [hh] at e
  | ok p =>
    obtain ⟨b, m2'⟩ := p
    simp only [hh] at e
    suffices h2 : m2'.source = .gitDiff ∧ hunkDiffType m2'.st = some (.combined (.number n) false) ∧
        isHunkHeader m2'.st = false by cases e; exact h2
    unfold handleHunkLine at hh
    simp only [hst, Bool.not_true, Bool.false_eq_true, if_false] at hh
    cases e2 : hunkLinePre cfg m with
    | error err => simp [e2] at hh
    | ok m2 =>
      simp only [e2] at hh
      cases e3 : hunkLinePush cfg m2 l with
      | error err => simp [e3] at hh
      | ok m3 =>
        simp only [e3] at hh
        cases hh
        obtain ⟨_, hst2, _⟩ := hunkLinePre_spec e2 g
        obtain ⟨a, b', c⟩ := cs_hunkLinePush_combined_state (by rw [hst2]; exact hdt) hl e3
        exact ⟨a.trans ((cs_hunkLinePre_source e2).trans hsrc), b', c⟩

/-- a further hunk header of the section, after a hunk line: the diff type is handed on -/
theorem cs_hunkHeader_keeps {s : State} {n : Nat} (h : hunkDiffType s = some (.combined (.number n) false))
    (hnh : isHunkHeader s = false) (l : L) (hh : HunkHeader) (a b : Str) (k : Nat) :
    hunkDiffType (.hunkHeader (hunkHeaderDiffType { st := s } l) hh a b k) = some (.combined (.number n) false) := by
  cases s with
  | hunkMinus d | hunkZero d | hunkPlus d =>
    cases d with
    | unified => simp [hunkDiffType] at h
    | combined mp c =>
      cases mp <;> cases c <;> simp [hunkDiffType, hunkHeaderDiffType] at h ⊢ <;> exact h
  | hunkHeader d hh a b k => simp [isHunkHeader] at hnh
  | _ => simp [hunkDiffType] at h

/-- **a further `@@@` line** of the same file section, met after a hunk line -/
theorem step_next_hunk_header {cfg : Cfg} {m m' : M} {l : L} {hh : HunkHeader} {n : Nat} (hsrc : m.source = .gitDiff)
    (hdt : hunkDiffType m.st = some (.combined (.number n) false)) (hnh : isHunkHeader m.st = false)
    (hl : HunkHeaderLine l hh) (e : step cfg m l = .ok m') :
    m'.source = .gitDiff ∧ hunkDiffType m'.st = some (.combined (.number n) false) := by
  have hst := hunkState_of_diffType hdt
  have hnd : isDiffHeader m.st = false := by
    cases hs : m.st <;> simp [hs, isHunkState, isDiffHeader] at hst ⊢
  have hnm : isMergeConflict m.st = false := by
    cases hs : m.st <;> simp [hs, isHunkState, isMergeConflict] at hst ⊢
  have hlt : headerLineTest m = false := by simp [headerLineTest, hnd, hsrc]
  unfold step at e
  rw [cs_stepInit_git l hsrc] at e
  split at e
  · cases e
  · rename_i m2 e2
    suffices hm2 : m2.source = .gitDiff ∧ hunkDiffType m2.st = some (.combined (.number n) false) by cases e; exact hm2
    have e1 := handleCommitMeta_not_mine cfg m l hl.commit
    have e3 := handleDiffHeaderDiff_not_mine cfg m l (cs_not_startsWith_of_at hl.at2 (d := 'd') rfl (by decide))
    have e4 := handleFileOperation_not_mine cfg m l (by simp [hlt])
    have e5 := handleMinusLine_not_mine cfg m l (by simp [minusLineTest, hlt])
    have e6 := handlePlusLine_not_mine cfg m l (by simp [plusLineTest, hnd])
    simp only [Generated.handlerOrder, chain, handlerOf, e1, handleDiffStat, e3, e4, e5, e6] at e2
    unfold handleHunkHeader at e2
    simp only [hl.at2, hnm, hl.parses, Bool.not_false, Bool.and_true, Bool.not_true, Bool.false_eq_true, if_false] at e2
    cases e2
    refine ⟨hsrc, ?_⟩
    show hunkDiffType (.hunkHeader (hunkHeaderDiffType m l) hh l.text l.raw m.n) = _
    have := cs_hunkHeader_keeps hdt hnh l hh l.text l.raw m.n
    have hsame : hunkHeaderDiffType m l = hunkHeaderDiffType { st := m.st } l := by unfold hunkHeaderDiffType; rfl
    rw [hsame]; exact this

/-- the lines of a combined-diff file section after its first hunk header: hunk lines with `n` marker columns, and
further hunk headers, each after at least one hunk line (`prevBody`) -/
def SectionTail (n : Nat) : Bool → List L → Prop
  | _, [] => True
  | prevBody, l :: ls =>
    (CombinedBodyLine n l ∧ SectionTail n true ls) ∨
    (prevBody = true ∧ (∃ hh, HunkHeaderLine l hh) ∧ SectionTail n false ls)

theorem runFrom_section_tail {cfg : Cfg} {n : Nat} : ∀ (ls : List L) {pb : Bool} {m m' : M},
    runFrom cfg m ls = .ok m' → Good m → m.source = .gitDiff →
    hunkDiffType m.st = some (.combined (.number n) false) → (pb = true → isHunkHeader m.st = false) →
    SectionTail n pb ls →
    m'.source = .gitDiff ∧ hunkDiffType m'.st = some (.combined (.number n) false)
  | [], pb, m, m', e, g, hsrc, hdt, hpb, _ => by simp only [runFrom] at e; cases e; exact ⟨hsrc, hdt⟩
  | l :: ls, pb, m, m', e, g, hsrc, hdt, hpb, ht => by
    simp only [runFrom] at e
    split at e
    · cases e
    · rename_i m1 e1
      have g1 := (step_spec e1 g).1
      rcases ht with ⟨hb, ht'⟩ | ⟨hp, ⟨hh, hhl⟩, ht'⟩
      · obtain ⟨a, b, c⟩ := step_combined_body_line g hsrc hdt hb e1
        exact runFrom_section_tail ls e g1 a b (fun _ => c) ht'
      · obtain ⟨a, b⟩ := step_next_hunk_header hsrc hdt (hpb hp) hhl e1
        exact runFrom_section_tail ls e g1 a b (fun h => by cases h) ht'

/-- **`combined_section_hunk_line_row`** (whole runs, every configuration). Input
`pre0 ++ d :: (hdr ++ [h]) ++ tail ++ l :: post`: after anything (`pre0`, not taken for plain `diff -u` output) a file
section of a combined diff — the `diff --cc` / `diff --combined` line `d`, header lines `hdr` (any lines that start none
of `diff `, `@@`, `old mode `, `new mode `, `Submodule ` and are not commit lines: `index a,b..c`, `mode a,b..c`,
`new file mode`, `deleted file mode a,b`, `--- `, `+++ `, …), the hunk-header line `h` with `n + 1` `@`, and `tail`: hunk
lines with `n` marker columns and further hunk headers. Then the next possible hunk-body line `l` has exactly one
hunk-line row in delta's output, and it is `expectedRowCombined cfg n l`: kind by the `n` marker columns, the columns
kept, the rest tab-expanded. -/
theorem run_combined_section_line_row {cfg : Cfg} {pre0 hdr tail post : List L} {d h l : L} {hh : HunkHeader} {m0 m : M}
    (hmc : ∀ x ∈ pre0 ++ d :: (hdr ++ [h]) ++ tail ++ l :: post, startsWith x.text Markers.mcBegin = false)
    (e0 : runFrom cfg {} pre0 = .ok m0) (hsrc0 : m0.source ≠ .diffUnified) (hd : CombinedDiffLine d)
    (hhdr : ∀ x ∈ hdr, HeaderLine x) (hh' : HunkHeaderLine h hh) (ht : SectionTail (atParents h) false tail)
    (hb : HunkBody l) (hsub : l.submodule = none)
    (e : run cfg (pre0 ++ d :: (hdr ++ [h]) ++ tail ++ l :: post) = .ok m) :
    (m.out.filter (fun r => isBody r.kind)).filter
        (fun r => r.src = (pre0 ++ d :: (hdr ++ [h]) ++ tail).length) =
      [expectedRowCombined cfg (atParents h) l (pre0 ++ d :: (hdr ++ [h]) ++ tail).length] := by
  have e' := e
  unfold run at e'
  split at e'
  · cases e'
  · rename_i m1 e1
    obtain ⟨mi, ei, _⟩ := cs_runFrom_append_ok e1
    obtain ⟨ma, ea, et⟩ := cs_runFrom_append_ok ei
    obtain ⟨hsa, hda⟩ := run_combined_section_header e0 hsrc0 hd hhdr hh' ea
    have ga := (runFrom_spec _ ea good_init).1
    obtain ⟨hsi, hdi⟩ := runFrom_section_tail tail et ga hsa hda (fun h => by cases h) ht
    exact run_combined_line_row hmc ei hsi hdi hb hsub e

end Machine
