import Proofs.Machine.Filtered
import Proofs.Machine.BodyOrder
import Proofs.Machine.ColorOnly
/-!
Whole-run statement of C14 for hunk headers: every hunk is introduced by exactly one hunk-header
row.

`hhTL m` = the rows of kind `hunkHeader` on the timeline. delta writes the header of a hunk when
the first line of the hunk arrives (`pend m` = the index of a hunk-header line whose row has not
been written yet). Accounting: `hacct m = srcs of hhTL m ++ pend m`. Every handler leaves `hacct`
unchanged, except `handle_hunk_header_line` when it claims a line, which appends the index of that
line. Hence, for a git diff in which every hunk-header line is followed by a line of its hunk, the
output contains exactly one hunk-header row per hunk-header line, in input order
(`run_one_header_row_per_hunk`).
-/
set_option linter.unusedSimpArgs false
set_option linter.unusedVariables false
namespace Machine
open Headers Generated

def pHH : RowKind → Bool := fun k => k == .hunkHeader

theorem minor_pHH : Minor pHH := ⟨rfl, rfl, rfl, rfl, rfl, rfl, rfl, rfl⟩

/-- the hunk-header rows of the timeline -/
abbrev hhTL (m : M) : List Row := ftl pHH m

def hhSrcs (m : M) : List Nat := (hhTL m).map (·.src)

/-- hunk-header lines accounted for: rows written, then the pending one -/
def hacct (m : M) : List Nat := hhSrcs m ++ pend m

/-- configurations in which a hunk header is a row of its own kind: not raw, not omitted, not
color-only, line number shown (the default `hunk-header-style`) -/
structure HHC (cfg : Cfg) : Prop where
  notRaw : cfg.hunkHeaderStyle.isRaw = false
  notOmitted : cfg.hunkHeaderStyle.isOmitted = false
  notCO : cfg.colorOnly = false
  num : cfg.hhLineNumber = true

theorem drawRows_hh_one (st : ElemStyle) (t r a : Str) (src : Nat) (hraw : st.isRaw = false) :
    ((drawRows st .hunkHeader t r a src).filter (fun row => pHH row.kind)).map (·.src) = [src] := by
  unfold drawRows
  cases hd : st.deco <;> simp [hd, hraw, pHH]

/-- under `HHC` the hunk header is never empty: the line number is always part of it -/
theorem hunkHeaderTextOf_some {cfg : Cfg} (hc : HHC cfg) (m : M) (hh : HunkHeader) (line : Str) (k : Nat) :
    ∃ t, hunkHeaderTextOf cfg m hh line k = some t := by
  unfold hunkHeaderTextOf
  have hdig : (toString k).toList ≠ [] := by
    rw [Nat.toString_eq_ofList_toDigits]
    simp [Nat.toDigits_ne_nil]
  have hne : ∀ (a b : Str), a ++ (b ++ (toString k).toList) ≠ [] := by
    intro a b h
    simp only [List.append_eq_nil_iff] at h
    exact hdig h.2.2
  simp only [hc.notCO, hc.num, hc.notRaw, Bool.false_eq_true, if_false, not_false_eq_true, and_self, if_true]
  simp [hne]

/-- the rows of `emit_hunk_header_line` contain exactly one hunk-header row, stamped with the index
of the header line -/
theorem hunkHeaderRows_hh {cfg : Cfg} (hc : HHC cfg) {m1 : M} {hh : HunkHeader} {line raw : Str} {src : Nat}
    {rows : List Row} (e : hunkHeaderRows cfg m1 hh line raw src = .ok rows) :
    (rows.filter (fun row => pHH row.kind)).map (·.src) = [src] := by
  unfold hunkHeaderRows at e
  simp only [hc.notRaw, hc.notOmitted, hc.notCO, Bool.false_eq_true, if_false] at e
  split at e
  · cases e
  · rename_i hnone
    exfalso
    unfold hunkHeaderText at hnone
    split at hnone
    · cases hnone
    · rename_i k _ _
      obtain ⟨t, ht⟩ := hunkHeaderTextOf_some hc m1 hh line k
      simp [ht] at hnone
  · cases e
    rename_i t _
    rw [List.filter_append]
    have h1 : ([{ kind := RowKind.blank, text := [], src := src }] : List Row).filter (fun row => pHH row.kind) = [] := by
      simp [pHH]
    rw [h1, List.nil_append]
    exact drawRows_hh_one _ t t [] src rfl

-- the hunk-line handler ---------------------------------------------------------

theorem hhSrcs_of_tl {m m' : M} {rows : List Row} (h : timeline m' = timeline m ++ rows) :
    hhSrcs m' = hhSrcs m ++ (rows.filter (fun r => pHH r.kind)).map (·.src) := by
  simp [hhSrcs, hhTL, ftl, h, List.filter_append]

theorem hunkLinePre_hh {cfg : Cfg} {m m2 : M} (hc : HHC cfg) (e : hunkLinePre cfg m = .ok m2) :
    hhSrcs m2 = hhSrcs m ++ pend m ∧ m2.st = m.st ∧ m2.n = m.n := by
  unfold hunkLinePre at e
  simp only at e
  have hx : Same m (if m.minus.length > cfg.bufSize ∨ m.plus.length > cfg.bufSize then flushMP m else m) := by
    split
    · exact (Same.refl m).flushMP
    · exact Same.refl m
  generalize (if m.minus.length > cfg.bufSize ∨ m.plus.length > cfg.bufSize then flushMP m else m) = x at e hx
  split at e
  · rename_i dt hh line raw src hst
    unfold emitHunkHeader at e
    split at e
    · cases e
    · rename_i rows hr
      cases e
      have hp : pend m = [src] := by unfold pend; rw [← hx.st, hst]
      refine ⟨?_, ?_, ?_⟩
      · rw [hhSrcs_of_tl (timeline_direct_flushed x rows), hunkHeaderRows_hh hc hr, hp]
        simp [hhSrcs, hhTL, ftl, hx.tl]
      · rw [direct_st, emit_st, flushMP_st]; exact hx.st
      · rw [direct_n, emit_n, flushMP_n]; exact hx.n
  · rename_i hnot
    cases e
    have hp : pend m = [] := by
      unfold pend
      rw [← hx.st]
      split
      · rename_i dt hh line raw src hst; exact absurd hst (hnot dt hh line raw src)
      · rfl
    exact ⟨by simp [hhSrcs, hhTL, ftl, hx.tl, hp], hx.st, hx.n⟩

theorem pHH_of_body {k : RowKind} (h : isBody k = true) : pHH k = false := by
  cases k <;> simp_all [isBody, pHH]

/-- `handle_hunk_line` in a hunk state: the pending header (if any) becomes a row; the line's own row
is not a header row -/
theorem handleHunkLine_hh {cfg : Cfg} {m m' : M} {l : L} {b : Bool} (hc : HHC cfg) (hs' : isHunkState m.st = true)
    (g : Good m) (e : handleHunkLine cfg m l = .ok (b, m')) :
    b = true ∧ m'.n = m.n ∧ isMergeConflict m'.st = false ∧ hhSrcs m' = hacct m ∧ pend m' = [] := by
  have e0 := e
  unfold handleHunkLine at e
  split at e
  · rename_i hst; simp [hs'] at hst
  · split at e
    · cases e
    · rename_i m2 e2
      split at e
      · cases e
      · rename_i m3 e3
        cases e
        obtain ⟨hb, hn, hnomc, _⟩ := handleHunkLine_body hs' g e0
        obtain ⟨hsrcs2, hst2, hn2⟩ := hunkLinePre_hh hc e2
        obtain ⟨r2, _, hhdr, _, _⟩ := hunkLinePre_spec e2 g
        have hplus : isHunkPlus m2.st = false → m2.plus = [] := by
          intro hnp
          rw [hst2] at hnp
          rcases isHunkState_cases hs' with h | ⟨dt, h⟩ | ⟨dt, h⟩ | ⟨dt, h⟩
          · exact (hhdr h).2
          · have := (g.quiet (by rw [h]; rfl)).2
            rcases r2.shrink.2 with s | s <;> simp [s, this]
          · have := g.noPlus (by rw [h]; rfl)
            rcases r2.shrink.2 with s | s <;> simp [s, this]
          · rw [h] at hnp; simp [isHunkPlus] at hnp
        obtain ⟨r, htl3, _, hbody⟩ := hunkLinePush_body e3 hplus
        obtain ⟨_, _, hst3⟩ := hunkLinePush_co e3
        refine ⟨hb, hn, hnomc, ?_, ?_⟩
        · have h3 : hhSrcs (emit m3) = hhSrcs m2 := by
            have : timeline (emit m3) = timeline m2 ++ [r] := by rw [timeline_emit, htl3]
            rw [hhSrcs_of_tl this]
            simp [pHH_of_body hbody]
          rw [h3, hsrcs2]; rfl
        · rw [pend_emit]; exact pend_nil_of_not_hh hst3

end Machine
