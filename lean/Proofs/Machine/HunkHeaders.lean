import Proofs.Machine.Filtered
import Proofs.Machine.BodyOrder
import Proofs.Machine.ColorOnly
/-!
Whole-run statement of C14 for hunk headers: every hunk is introduced by exactly one hunk-header
row.

`hhTL m` = the rows of kind `hunkHeader` on the timeline. delta writes the header of a hunk when
the first line of the hunk arrives (`pend m` = the index of a hunk-header line whose row has not
been written yet). Accounting: `hacct m = srcs of hhTL m ++ pend m`. Every handler leaves `hacct`
unchanged, except `handle_hunk_header_line` when it claims a line, which appends the index of that
line. Hence, for a git diff in which every hunk-header line is followed by a line of its hunk, the
output contains exactly one hunk-header row per hunk-header line, in input order
(`run_one_header_row_per_hunk`).
-/
set_option linter.unusedSimpArgs false
set_option linter.unusedVariables false
namespace Machine
open Headers Generated

def pHH : RowKind → Bool := fun k => k == .hunkHeader

theorem minor_pHH : Minor pHH := ⟨rfl, rfl, rfl, rfl, rfl, rfl, rfl, rfl⟩

/-- the hunk-header rows of the timeline -/
abbrev hhTL (m : M) : List Row := ftl pHH m

def hhSrcs (m : M) : List Nat := (hhTL m).map (·.src)

/-- hunk-header lines accounted for: rows written, then the pending one -/
def hacct (m : M) : List Nat := hhSrcs m ++ pend m

/-- configurations in which a hunk header is a row of its own kind: not raw, not omitted, not
color-only, line number shown (the default `hunk-header-style`) -/
structure HHC (cfg : Cfg) : Prop where
  notRaw : cfg.hunkHeaderStyle.isRaw = false
  notOmitted : cfg.hunkHeaderStyle.isOmitted = false
  notCO : cfg.colorOnly = false
  num : cfg.hhLineNumber = true

theorem drawRows_hh_one (st : ElemStyle) (t r a : Str) (src : Nat) (hraw : st.isRaw = false) :
    ((drawRows st .hunkHeader t r a src).filter (fun row => pHH row.kind)).map (·.src) = [src] := by
  unfold drawRows
  cases hd : st.deco <;> simp [hd, hraw, pHH]

/-- under `HHC` the hunk header is never empty: the line number is always part of it -/
theorem hunkHeaderTextOf_some {cfg : Cfg} (hc : HHC cfg) (m : M) (hh : HunkHeader) (line : Str) (k : Nat) :
    ∃ t, hunkHeaderTextOf cfg m hh line k = some t := by
  unfold hunkHeaderTextOf
  have hdig : (toString k).toList ≠ [] := by
    rw [Nat.toString_eq_ofList_toDigits]
    simp [Nat.toDigits_ne_nil]
  have hne : ∀ (a b : Str), a ++ (b ++ (toString k).toList) ≠ [] := by
    intro a b h
    simp only [List.append_eq_nil_iff] at h
    exact hdig h.2.2
  simp only [hc.notCO, hc.num, hc.notRaw, Bool.false_eq_true, if_false, not_false_eq_true, and_self, if_true]
  simp [hne]

/-- the rows of `emit_hunk_header_line` contain exactly one hunk-header row, stamped with the index
of the header line -/
theorem hunkHeaderRows_hh {cfg : Cfg} (hc : HHC cfg) {m1 : M} {hh : HunkHeader} {line raw : Str} {src : Nat}
    {rows : List Row} (e : hunkHeaderRows cfg m1 hh line raw src = .ok rows) :
    (rows.filter (fun row => pHH row.kind)).map (·.src) = [src] := by
  unfold hunkHeaderRows at e
  simp only [hc.notRaw, hc.notOmitted, hc.notCO, Bool.false_eq_true, if_false] at e
  split at e
  · cases e
  · rename_i hnone
    exfalso
    unfold hunkHeaderText at hnone
    split at hnone
    · cases hnone
    · rename_i k _ _
      obtain ⟨t, ht⟩ := hunkHeaderTextOf_some hc m1 hh line k
      simp [ht] at hnone
  · cases e
    rename_i t _
    rw [List.filter_append]
    have h1 : ([{ kind := RowKind.blank, text := [], src := src }] : List Row).filter (fun row => pHH row.kind) = [] := by
      simp [pHH]
    rw [h1, List.nil_append]
    exact drawRows_hh_one _ t t [] src rfl

-- the hunk-line handler ---------------------------------------------------------

theorem hhSrcs_of_tl {m m' : M} {rows : List Row} (h : timeline m' = timeline m ++ rows) :
    hhSrcs m' = hhSrcs m ++ (rows.filter (fun r => pHH r.kind)).map (·.src) := by
  simp [hhSrcs, hhTL, ftl, h, List.filter_append]

theorem hunkLinePre_hh {cfg : Cfg} {m m2 : M} (hc : HHC cfg) (e : hunkLinePre cfg m = .ok m2) :
    hhSrcs m2 = hhSrcs m ++ pend m ∧ m2.st = m.st ∧ m2.n = m.n ∧ m2.source = m.source := by
  unfold hunkLinePre at e
  simp only at e
  have hx : Same m (if m.minus.length > cfg.bufSize ∨ m.plus.length > cfg.bufSize then flushMP m else m) := by
    split
    · exact (Same.refl m).flushMP
    · exact Same.refl m
  generalize (if m.minus.length > cfg.bufSize ∨ m.plus.length > cfg.bufSize then flushMP m else m) = x at e hx
  split at e
  · rename_i dt hh line raw src hst
    unfold emitHunkHeader at e
    split at e
    · cases e
    · rename_i rows hr
      cases e
      have hp : pend m = [src] := by unfold pend; rw [← hx.st, hst]
      refine ⟨?_, ?_, ?_, ?_⟩
      · rw [hhSrcs_of_tl (timeline_direct_flushed x rows), hunkHeaderRows_hh hc hr, hp]
        simp [hhSrcs, hhTL, ftl, hx.tl]
      · rw [direct_st, emit_st, flushMP_st]; exact hx.st
      · rw [direct_n, emit_n, flushMP_n]; exact hx.n
      · rw [direct_source, emit_source, flushMP_source]; exact hx.source
  · rename_i hnot
    cases e
    have hp : pend m = [] := by
      unfold pend
      rw [← hx.st]
      split
      · rename_i dt hh line raw src hst; exact absurd hst (hnot dt hh line raw src)
      · rfl
    exact ⟨by simp [hhSrcs, hhTL, ftl, hx.tl, hp], hx.st, hx.n, hx.source⟩

theorem pHH_of_body {k : RowKind} (h : isBody k = true) : pHH k = false := by
  cases k <;> simp_all [isBody, pHH]

/-- `handle_hunk_line` in a hunk state: the pending header (if any) becomes a row; the line's own row
is not a header row -/
theorem handleHunkLine_hh {cfg : Cfg} {m m' : M} {l : L} {b : Bool} (hc : HHC cfg) (hs' : isHunkState m.st = true)
    (g : Good m) (e : handleHunkLine cfg m l = .ok (b, m')) :
    b = true ∧ m'.n = m.n ∧ isMergeConflict m'.st = false ∧ hhSrcs m' = hacct m ∧ pend m' = [] ∧
      m'.source = m.source := by
  have e0 := e
  unfold handleHunkLine at e
  split at e
  · rename_i hst; simp [hs'] at hst
  · split at e
    · cases e
    · rename_i m2 e2
      split at e
      · cases e
      · rename_i m3 e3
        cases e
        obtain ⟨hb, hn, hnomc, _⟩ := handleHunkLine_body hs' g e0
        obtain ⟨hsrcs2, hst2, hn2, hsource2⟩ := hunkLinePre_hh hc e2
        obtain ⟨r2, _, hhdr, _, _⟩ := hunkLinePre_spec e2 g
        have hplus : isHunkPlus m2.st = false → m2.plus = [] := by
          intro hnp
          rw [hst2] at hnp
          rcases isHunkState_cases hs' with h | ⟨dt, h⟩ | ⟨dt, h⟩ | ⟨dt, h⟩
          · exact (hhdr h).2
          · have := (g.quiet (by rw [h]; rfl)).2
            rcases r2.shrink.2 with s | s <;> simp [s, this]
          · have := g.noPlus (by rw [h]; rfl)
            rcases r2.shrink.2 with s | s <;> simp [s, this]
          · rw [h] at hnp; simp [isHunkPlus] at hnp
        obtain ⟨r, htl3, _, hbody⟩ := hunkLinePush_body e3 hplus
        obtain ⟨_, hsource3, hst3⟩ := hunkLinePush_co e3
        refine ⟨hb, hn, hnomc, ?_, ?_, hsource3.trans hsource2⟩
        · have h3 : hhSrcs (emit m3) = hhSrcs m2 := by
            have : timeline (emit m3) = timeline m2 ++ [r] := by rw [timeline_emit, htl3]
            rw [hhSrcs_of_tl this]
            simp [pHH_of_body hbody]
          rw [h3, hsrcs2]; rfl
        · rw [pend_emit]; exact pend_nil_of_not_hh hst3

-- a line of a hunk body, met while a hunk header is pending ------------------------

theorem nonBody_onlyIn : nonBody Generated.Markers.onlyIn = true := by decide

theorem handleMergeConflict_not_mine' (cfg : Cfg) (m : M) (l : L) (hs : isMergeConflict m.st = false)
    (hmc : startsWith l.text Generated.Markers.mcBegin = false) : handleMergeConflict cfg m l = .ok (false, m) := by
  unfold handleMergeConflict
  split
  · rfl
  · split
    · have : parseMergeMarker l.text Generated.Markers.mcBegin = none := by
        unfold parseMergeMarker stripPrefix; simp [hmc]
      simp only [this]
    · split <;> first
        | (rename_i hst; rw [hst] at hs; simp [isMergeConflict] at hs)
        | rfl

/-- a hunk-body line (empty, or starting with ` `, `+`, `-`, `\`; not a commit line, not a 40-hex
submodule line, not opening a conflict region) met in a hunk state of a non-plain-diff input is
handled by `handle_hunk_line` and by no handler before it -/
theorem hunk_body_chain (cfg : Cfg) (m : M) (l : L)
    (hsrc : m.source ≠ .diffUnified) (hst : isHunkState m.st = true) (hb : HunkBody l)
    (hsub : l.submodule = none) (hmc : startsWith l.text Generated.Markers.mcBegin = false) :
    chain cfg l Generated.handlerOrder m =
      (match handleHunkLine cfg m l with
       | .ok (_, m') => .ok m'
       | .error e => .error e) := by
  have hnd : isDiffHeader m.st = false := by
    cases hs : m.st <;> simp [hs, isHunkState, isDiffHeader] at hst ⊢
  have hnm : isMergeConflict m.st = false := by
    cases hs : m.st <;> simp [hs, isHunkState, isMergeConflict] at hst ⊢
  have hlt : headerLineTest m = false := by simp [headerLineTest, hnd, hsrc]
  have e1 := handleCommitMeta_not_mine cfg m l hb.1
  have e3 := handleDiffHeaderDiff_not_mine cfg m l (startsWith_false_of_bodyHead hb.2 nonBody_diffLine)
  have e4 := handleFileOperation_not_mine cfg m l (by simp [hlt])
  have e5 := handleMinusLine_not_mine cfg m l (by simp [minusLineTest, hlt])
  have e6 := handlePlusLine_not_mine cfg m l (by simp [plusLineTest, hnd])
  have e7 := handleHunkHeader_not_mine cfg m l (startsWith_false_of_bodyHead hb.2 nonBody_hunkHeader)
  have e8 := handleModeLine_not_mine cfg m l (startsWith_false_of_bodyHead hb.2 nonBody_oldMode)
    (startsWith_false_of_bodyHead hb.2 nonBody_newMode)
  have e9 := handleMisc_not_mine cfg m l (startsWith_false_of_bodyHead hb.2 nonBody_onlyIn)
    (startsWith_false_of_bodyHead hb.2 nonBody_binaryFiles)
  have e10 := handleSubmoduleLog_not_mine cfg m l (startsWith_false_of_bodyHead hb.2 nonBody_submoduleLog)
  have e11 := handleSubmoduleShort_not_mine cfg m l hsub
  have e12 := handleMergeConflict_not_mine' cfg m l hnm hmc
  simp only [Generated.handlerOrder, chain, handlerOf, e1, handleDiffStat, e3, e4, e5, e6, e7, e8, e9, e10, e11, e12]
  unfold handleHunkLine
  simp only [hst, Bool.not_true, Bool.false_eq_true, if_false]
  cases hunkLinePre cfg m with
  | error e => rfl
  | ok m2 =>
    simp only
    cases hunkLinePush cfg m2 l with
    | error e => rfl
    | ok m3 => rfl

-- nothing pending: the whole chain ---------------------------------------------------

/-- a line that `handle_hunk_header_line` claims: starts with `@@` and parses as a hunk header -/
def isHHLine (l : L) : Bool :=
  startsWith l.text Generated.Markers.hunkHeader && (parseHunkHeader l.text).isSome

/-- effect of a handler / of the chain on the accounting when no header is pending -/
structure HB (l : L) (m m' : M) (b : Bool) : Prop where
  n : m'.n = m.n
  nomc : isMergeConflict m'.st = false
  source : m'.source = m.source
  pass : b = false → hacct m' = hacct m ∧ pend m' = []
  eff : (hacct m' = hacct m ∧ pend m' = []) ∨ (hacct m' = hacct m ++ [m.n] ∧ isHHLine l = true)

theorem pend_of_quiet {s s' : State} {m m' : M} (hs : m.st = s) (hs' : m'.st = s') (hq : Quiet s s')
    (hp : pend m = []) : pend m' = [] := by
  rcases hq with h | h
  · unfold pend at hp ⊢; rw [hs', h, ← hs]; exact hp
  · exact pend_nil_of_not_hh (by rw [hs']; exact h.2)

theorem HB.of_fs {l : L} {m m' : M} {b : Bool} (h : FS pHH m m' b) (hs : isMergeConflict m.st = false)
    (hp : pend m = []) : HB l m m' b := by
  have hp' : pend m' = [] := pend_of_quiet rfl rfl h.quiet hp
  have hacc : hacct m' = hacct m := by
    unfold hacct hhSrcs hhTL; rw [h.body, hp, hp']
  exact ⟨h.n, h.nomc hs, h.source, fun _ => ⟨hacc, hp'⟩, Or.inl ⟨hacc, hp'⟩⟩

theorem handlerOf_hb {name : String} {hd : Handler} (hn : handlerOf name = some hd)
    {cfg : Cfg} {m m' : M} {l : L} {b : Bool} (hc : HHC cfg) (hs : isMergeConflict m.st = false) (g : Good m)
    (hp : pend m = []) (hmc : startsWith l.text Generated.Markers.mcBegin = false)
    (e : hd cfg m l = .ok (b, m')) : HB l m m' b := by
  unfold handlerOf at hn
  split at hn <;> first
    | (cases hn
       first
         | exact HB.of_fs (handleCommitMeta_fs minor_pHH hs e) hs hp
         | exact HB.of_fs (handleDiffStat_fs minor_pHH hs e) hs hp
         | exact HB.of_fs (handleDiffHeaderDiff_fs minor_pHH hs e) hs hp
         | exact HB.of_fs (handleFileOperation_fs minor_pHH hs e) hs hp
         | exact HB.of_fs (handleMinusLine_fs minor_pHH hs e) hs hp
         | exact HB.of_fs (handlePlusLine_fs minor_pHH hs e) hs hp
         | exact HB.of_fs (handleModeLine_fs minor_pHH hs e) hs hp
         | exact HB.of_fs (handleMisc_fs minor_pHH hs e) hs hp
         | exact HB.of_fs (handleSubmoduleLog_fs minor_pHH hs e) hs hp
         | exact HB.of_fs (handleSubmoduleShort_fs minor_pHH hs e) hs hp
         | exact HB.of_fs (handleMergeConflict_fs minor_pHH hs hmc e) hs hp
         | exact HB.of_fs (handleGitShowFile_fs minor_pHH hs e) hs hp
         | exact HB.of_fs (handleBlame_fs minor_pHH hs e) hs hp
         | exact HB.of_fs (handleGrep_fs minor_pHH hs e) hs hp
         | exact HB.of_fs (handleShouldSkip_fs minor_pHH hs e) hs hp
         | exact HB.of_fs (handleEmitUnchanged_fs minor_pHH hs e) hs hp
         | (-- handle_hunk_header_line
            obtain ⟨fv, h⟩ := handleHunkHeader_fv (p := pHH) e
            rcases h with ⟨hb, hm⟩ | ⟨hb, hsw, _, dt, hh, hparse, hst⟩
            · subst hb; subst hm
              exact ⟨rfl, hs, rfl, fun _ => ⟨rfl, hp⟩, Or.inl ⟨rfl, hp⟩⟩
            · subst hb
              have hp' : pend m' = [m.n] := by unfold pend; rw [hst]
              have hacc : hacct m' = hacct m ++ [m.n] := by
                unfold hacct hhSrcs hhTL; rw [fv.body, hp, hp']; simp
              refine ⟨fv.n, by rw [hst]; rfl, fv.source, fun h => (by cases h), Or.inr ⟨hacc, ?_⟩⟩
              unfold isHHLine; simp [hsw, hparse])
         | (-- handle_hunk_line
            cases hh : isHunkState m.st
            · unfold handleHunkLine at e
              simp only [hh, Bool.not_false, if_true] at e
              cases e
              exact ⟨rfl, hs, rfl, fun _ => ⟨rfl, hp⟩, Or.inl ⟨rfl, hp⟩⟩
            · obtain ⟨hb, hn', hnomc, hsrcs, hp', hsource'⟩ := handleHunkLine_hh hc hh g e
              have hacc : hacct m' = hacct m := by
                show hhSrcs m' ++ pend m' = hacct m
                rw [hsrcs, hp']; simp
              exact ⟨hn', hnomc, hsource', fun _ => ⟨hacc, hp'⟩, Or.inl ⟨hacc, hp'⟩⟩))
    | cases hn

theorem chain_hb {cfg : Cfg} {l : L} (hc : HHC cfg) (hmc : startsWith l.text Generated.Markers.mcBegin = false) :
    ∀ (names : List String) {m m' : M}, chain cfg l names m = .ok m' → isMergeConflict m.st = false → Good m →
    pend m = [] → HB l m m' true
  | [], m, m', e, hs, g, hp => by
    simp only [chain] at e; cases e
    exact ⟨rfl, hs, rfl, fun h => (by cases h), Or.inl ⟨rfl, hp⟩⟩
  | name :: rest, m, m', e, hs, g, hp => by
    simp only [chain] at e
    split at e
    · cases e
    · rename_i hd hn
      split at e
      · cases e
      · rename_i m1 e1
        cases e
        exact handlerOf_hb hn hc hs g hp hmc e1
      · rename_i m1 e1
        have c := handlerOf_hb hn hc hs g hp hmc e1
        have g1 := (handlerOf_step hn e1 g).good
        obtain ⟨hacc1, hp1⟩ := c.pass rfl
        have r := chain_hb hc hmc rest e c.nomc g1 hp1
        refine ⟨r.n.trans c.n, r.nomc, r.source.trans c.source, fun h => (by cases h), ?_⟩
        rcases r.eff with ⟨h1, h2⟩ | ⟨h1, h2⟩
        · exact Or.inl ⟨h1.trans hacc1, h2⟩
        · exact Or.inr ⟨by rw [h1, hacc1, c.n], h2⟩

-- one step ------------------------------------------------------------------------

theorem text_of_hh {l : L} (h : startsWith l.text Generated.Markers.hunkHeader = true) :
    ∃ rest, l.text = '@' :: rest := by
  cases ht : l.text with
  | nil => rw [ht] at h; simp [startsWith, Generated.Markers.hunkHeader, List.isPrefixOf] at h
  | cons c rest =>
    rw [ht] at h
    simp only [startsWith, Generated.Markers.hunkHeader, List.isPrefixOf, Bool.and_eq_true, beq_iff_eq] at h
    exact ⟨rest, by rw [h.1]⟩

/-- a hunk-header line that is not a commit line, met outside a conflict region in a non-plain-diff
input, is claimed by `handle_hunk_header_line`: the state afterwards is the pending header -/
theorem hh_line_chain {cfg : Cfg} {m m' : M} {l : L} (hl : isHHLine l = true) (hcr : l.commitRe = false)
    (hs : isMergeConflict m.st = false)
    (e : chain cfg l Generated.handlerOrder m = .ok m') : isHunkHeader m'.st = true := by
  unfold isHHLine at hl
  simp only [Bool.and_eq_true] at hl
  obtain ⟨hsw, hparse⟩ := hl
  obtain ⟨rest, ht⟩ := text_of_hh hsw
  have e1 := handleCommitMeta_not_mine cfg m l hcr
  have e3 := handleDiffHeaderDiff_not_mine cfg m l (startsWith_false_of_head ht (d := 'd') rfl (by decide))
  have e4 := handleFileOperation_not_mine cfg m l
    (by simp [startsWithAny, Generated.Markers.fileOperationLine, startsWith, ht, List.isPrefixOf])
  have e5 := handleMinusLine_not_mine cfg m l
    (by simp [minusLineTest, startsWithAny, Generated.Markers.minusLine, startsWith, ht, List.isPrefixOf])
  have e6 := handlePlusLine_not_mine cfg m l
    (by simp [plusLineTest, startsWithAny, Generated.Markers.plusLine, startsWith, ht, List.isPrefixOf])
  simp only [Generated.handlerOrder, chain, handlerOf, e1, handleDiffStat, e3, e4, e5, e6] at e
  unfold handleHunkHeader at e
  simp only [hsw, hs, Bool.not_false, Bool.and_self, Bool.not_true, Bool.false_eq_true, if_false] at e
  cases hp : parseHunkHeader l.text with
  | none => rw [hp] at hparse; cases hparse
  | some hh =>
    simp only [hp] at e
    cases e
    rfl

/-- what the input must guarantee about a line when a hunk header is pending -/
def HunkBodyG (l : L) : Prop := HunkBody l ∧ l.submodule = none

/-- **one step of the hunk-header accounting** (git-style source, no conflict regions): the index of
the current line is appended to `hacct` iff the line is a hunk-header line -/
theorem step_hh {cfg : Cfg} {m m' : M} {l : L} (hc : HHC cfg) (hs : isMergeConflict m.st = false) (g : Good m)
    (hsrc : m.source = .gitDiff) (hmc : startsWith l.text Generated.Markers.mcBegin = false)
    (hcr : isHHLine l = true → l.commitRe = false) (hf : pend m = [] ∨ HunkBodyG l)
    (e : step cfg m l = .ok m') :
    isMergeConflict m'.st = false ∧ Good m' ∧ m'.source = .gitDiff ∧ m'.n = m.n + 1 ∧
      hacct m' = hacct m ++ (if isHHLine l then [m.n] else []) ∧ (pend m' = [] ∨ isHHLine l = true) := by
  have g' := (step_spec e g).1
  unfold step at e
  have hinit : stepInit m l = m := by unfold stepInit; simp [hsrc]
  rw [hinit] at e
  split at e
  · cases e
  · rename_i m2 e2
    cases e
    have hsrc' : m.source ≠ .diffUnified := by rw [hsrc]; decide
    by_cases hp : pend m = []
    · -- nothing pending: the chain as a whole
      have c := chain_hb hc hmc _ e2 hs g hp
      have hsource2 : m2.source = .gitDiff := c.source.trans hsrc
      cases hl : isHHLine l
      · rcases c.eff with ⟨h1, h2⟩ | ⟨_, h2⟩
        · exact ⟨c.nomc, g', hsource2, by show m2.n + 1 = _; rw [c.n], by show hacct m2 = _; simpa using h1, Or.inl h2⟩
        · rw [hl] at h2; cases h2
      · have hhst := hh_line_chain hl (hcr hl) hs e2
        rcases c.eff with ⟨_, h2⟩ | ⟨h1, _⟩
        · exfalso
          have : pend m2 ≠ [] := by
            unfold pend
            cases hst : m2.st <;> simp_all [isHunkHeader]
          exact this h2
        · exact ⟨c.nomc, g', hsource2, by show m2.n + 1 = _; rw [c.n], by show hacct m2 = _; simpa using h1, Or.inr rfl⟩
    · -- a header is pending: the line is a hunk-body line and goes to `handle_hunk_line`
      have hb : HunkBodyG l := hf.resolve_left hp
      have hhs : isHunkState m.st = true := hunkState_of_hh (hh_of_pend hp)
      rw [hunk_body_chain cfg m l hsrc' hhs hb.1 hb.2 hmc] at e2
      cases hh : handleHunkLine cfg m l with
      | error err => simp [hh] at e2
      | ok pr =>
        obtain ⟨b, m2'⟩ := pr
        simp only [hh] at e2
        cases e2
        obtain ⟨_, hn', hnomc, hsrcs, hp', hsource'⟩ := handleHunkLine_hh hc hhs g hh
        have hnot : isHHLine l = false := by
          unfold isHHLine
          rw [startsWith_false_of_bodyHead hb.1.2 nonBody_hunkHeader]; rfl
        refine ⟨hnomc, g', hsource'.trans hsrc, by show m2.n + 1 = _; rw [hn'], ?_, Or.inl hp'⟩
        rw [hnot]
        show hhSrcs m2 ++ pend m2 = _
        rw [hsrcs, hp']; simp

-- whole runs ------------------------------------------------------------------------

/-- every hunk-header line is followed by a line of its hunk, and the input does not end in one
(the flag: the previous line was a hunk-header line) -/
def FollowedG : Bool → List L → Prop
  | p, [] => p = false
  | p, l :: rest => (p = true → HunkBodyG l) ∧ FollowedG (isHHLine l) rest

/-- the input indices of the hunk-header lines of `ls`, counted from `k` -/
def hhIndices (k : Nat) (ls : List L) : List Nat :=
  ((ls.zipIdx k).filter (fun q => isHHLine q.1)).map (·.2)

theorem hhIndices_cons (k : Nat) (l : L) (ls : List L) :
    hhIndices k (l :: ls) = (if isHHLine l then [k] else []) ++ hhIndices (k + 1) ls := by
  unfold hhIndices
  rw [List.zipIdx_cons, List.filter_cons]
  split <;> simp

theorem runFrom_hh {cfg : Cfg} (hc : HHC cfg) : ∀ (ls : List L) {m m' : M} {p : Bool},
    runFrom cfg m ls = .ok m' → isMergeConflict m.st = false → Good m → m.source = .gitDiff →
    (∀ l ∈ ls, startsWith l.text Generated.Markers.mcBegin = false ∧ (isHHLine l = true → l.commitRe = false)) →
    (pend m = [] ∨ p = true) → FollowedG p ls →
    pend m' = [] ∧ hhSrcs m' = hacct m ++ hhIndices m.n ls
  | [], m, m', p, e, _, _, _, _, hp, hf => by
    simp only [runFrom] at e; cases e
    have hp0 : pend m = [] := by
      rcases hp with h | h
      · exact h
      · rw [show p = false from hf] at h; cases h
    exact ⟨hp0, by simp [hacct, hp0, hhIndices]⟩
  | l :: ls, m, m', p, e, hs, g, hsrc, hl, hp, hf => by
    simp only [runFrom] at e
    split at e
    · cases e
    · rename_i m1 e1
      obtain ⟨hbody, hrest⟩ := hf
      obtain ⟨hmc, hcr⟩ := hl l (List.mem_cons_self ..)
      obtain ⟨hs1, g1, hsrc1, hn1, hacc1, hp1⟩ := step_hh hc hs g hsrc hmc hcr (hp.imp id hbody) e1
      obtain ⟨hp', hsrcs⟩ :=
        runFrom_hh hc ls e hs1 g1 hsrc1 (fun x hx => hl x (List.mem_cons_of_mem _ hx)) hp1 hrest
      refine ⟨hp', ?_⟩
      rw [hsrcs, hacc1, hn1, hhIndices_cons, List.append_assoc]

theorem tailOps_ftl {q : RowKind → Bool} (hpm : Minor q) {cfg : Cfg} : ∀ (ops : List String) {m m' : M},
    tailOps cfg ops m = .ok m' → ftl q m' = ftl q m
  | [], m, m', e => by simp only [tailOps] at e; cases e; rfl
  | op :: rest, m, m', e => by
    simp only [tailOps] at e
    split at e
    · cases e
    · rename_i m1 e1
      have h1 : ftl q m1 = ftl q m := by
        unfold tailOp at e1
        split at e1
        · cases e1; exact (FV.refl (p := q) m).flushMP.body
        · cases e1; exact ((FV.refl (p := q) m).pendingDiffName hpm cfg).body
        · cases e1; exact (FV.refl (p := q) m).emit.body
        · cases e1
      exact (tailOps_ftl hpm rest e).trans h1

/-- **Exactly one hunk-header row per hunk** (whole runs). For every configuration in which the hunk
header is a row of its own (`HHC`: not raw, not omitted, not color-only, line number shown — the
default) and every input whose first line identifies a git diff, that opens no merge-conflict
region, in which no hunk-header line matches the commit regex and every hunk-header line is followed
by a line of its hunk: the hunk-header rows of delta's output are, in order, exactly one for each
hunk-header line of the input (their `src` is the list of the indices of those lines). -/
theorem run_one_header_row_per_hunk {cfg : Cfg} (hc : HHC cfg) {d : L} {ls : List L} {m : M}
    (hd : detectSource d.text = .gitDiff)
    (hl : ∀ l ∈ d :: ls, startsWith l.text Generated.Markers.mcBegin = false ∧ (isHHLine l = true → l.commitRe = false))
    (hf : FollowedG false (d :: ls)) (e : run cfg (d :: ls) = .ok m) :
    (m.out.filter (fun r => pHH r.kind)).map (·.src) = hhIndices 0 (d :: ls) := by
  have hout := (run_spec e).2
  unfold run at e
  split at e
  · cases e
  · rename_i m1 e1
    have hsame : (timeline (stepInit ({} : M) d) = [] ∧ (stepInit ({} : M) d).st = .unknown ∧
        (stepInit ({} : M) d).n = 0) ∧ (stepInit ({} : M) d).source = .gitDiff ∧
        (stepInit ({} : M) d).minus = [] ∧ (stepInit ({} : M) d).plus = [] ∧ (stepInit ({} : M) d).orderOk = true := by
      unfold stepInit armCounter
      simp only [hd, if_true]
      split
      · split <;> exact ⟨⟨rfl, rfl, rfl⟩, rfl, rfl, rfl, rfl⟩
      · split <;> exact ⟨⟨rfl, rfl, rfl⟩, rfl, rfl, rfl, rfl⟩
    obtain ⟨⟨htl0, hst0, hn0⟩, hsrc0, hmin0, hpl0, hord0⟩ := hsame
    have hidem : stepInit (stepInit ({} : M) d) d = stepInit ({} : M) d := by
      generalize stepInit ({} : M) d = x at hsrc0
      unfold stepInit; simp [hsrc0]
    have hfirst : runFrom cfg (stepInit ({} : M) d) (d :: ls) = .ok m1 := by
      simp only [runFrom, step] at e1 ⊢
      rw [hidem]; exact e1
    have g0 : Good (stepInit ({} : M) d) := ⟨hord0, fun _ => ⟨hmin0, hpl0⟩, fun _ => hpl0⟩
    have hp00 : pend (stepInit ({} : M) d) = [] := by unfold pend; rw [hst0]
    have hs0 : isMergeConflict (stepInit ({} : M) d).st = false := by rw [hst0]; rfl
    obtain ⟨_, hs⟩ := runFrom_hh hc (d :: ls) hfirst hs0 g0 hsrc0 hl (Or.inl hp00) hf
    have hfin : ftl pHH m = ftl pHH m1 := tailOps_ftl minor_pHH _ e
    have : (m.out.filter (fun r => pHH r.kind)).map (·.src) = hhSrcs m1 := by
      rw [← hout]; unfold hhSrcs hhTL; rw [← hfin]; rfl
    rw [this, hs, hn0]
    simp [hacct, hhSrcs, hhTL, ftl, htl0, hp00]

/-- executable form of `FollowedG`, for concrete inputs -/
def followedGb : Bool → List L → Bool
  | p, [] => !p
  | p, l :: rest => (!p || (!l.commitRe && l.text.head?.all bodyChar && l.submodule.isNone)) && followedGb (isHHLine l) rest

theorem followedG_of_b : ∀ (p : Bool) (ls : List L), followedGb p ls = true → FollowedG p ls
  | p, [], h => by cases p <;> simp_all [followedGb, FollowedG]
  | p, l :: rest, h => by
    simp only [followedGb, Bool.and_eq_true, Bool.or_eq_true, Bool.not_eq_true'] at h
    refine ⟨fun hp => ?_, followedG_of_b _ rest h.2⟩
    rcases h.1 with h1 | h1
    · rw [hp] at h1; cases h1
    · refine ⟨⟨h1.1.1, h1.1.2⟩, ?_⟩
      cases hs : l.submodule <;> simp_all

end Machine
