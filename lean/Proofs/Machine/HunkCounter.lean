import Proofs.Machine.BodyPlain
import Proofs.LineNumbersUnified
import Proofs.LineNumbersHeader
import DeltaModel.Generated.HunkCounter
/-!
C05 for plain `diff -u` input.

1. The plain-diff minus-line counter (`AmbiguousDiffMinusCounter`) of the machine model against the
   table extracted from the source (`Generated/HunkCounter.lean`): which arms of `handle_hunk_line`
   call `count_line()`, the counter's constants and comparisons, which header coordinate seeds it,
   where else the source touches it. `hunkLinePush_counter` is a statement about the model function
   itself (for every machine state and line), so an edit to the source that makes another arm count
   (or an arm stop counting) no longer matches the model.
2. The composition asked of C05: for plain `diff -u` input the reference reading accepts, the lines
   of a hunk — `--- x` / `+++ x` bodies included — reach the painter as removed / added / unchanged
   lines by their first column (`C01.plain_diff_hunk_rows`), and the line-number machine then gives
   each of them its true old/new number (`C05.unified_numbers_true`).
-/
set_option linter.unusedSimpArgs false
set_option linter.unusedVariables false
namespace Machine.Counter
open Machine Machine.Plain Headers Generated

-- 1. the counter: model vs generated table ------------------------------------------------------

/-- `count_line()` calls of the arm of `handle_hunk_line` taken for a line of kind `k`
(`none`: `new_line_state` did not recognise a hunk line), from the generated table -/
def armCalls : Option LineKind → Nat
  | some .minus => HunkCounter.countCallsMinus
  | some .plus => HunkCounter.countCallsPlus
  | some .zero => HunkCounter.countCallsZero
  | none => HunkCounter.countCallsOther

/-- **The model's `hunkLinePush` moves the counter exactly as the source's match arms do**: for every
configuration, machine state and line, the counter afterwards is the counter before minus
`count_line`'s step times the number of `count_line()` calls in the arm the line is dispatched to. -/
theorem hunkLinePush_counter {cfg : Cfg} {m2 m3 : M} {l : L} {k : Option (LineKind × DiffType)}
    (hk : newLineState m2.st l = .ok k) (e : hunkLinePush cfg m2 l = .ok m3) :
    m3.counter = m2.counter - HunkCounter.countStep * ((armCalls (k.map (·.1)) : Nat) : Int) := by
  unfold hunkLinePush at e
  rw [hk] at e
  rcases k with _ | ⟨kind, dt⟩
  · simp only at e
    cases e
    simp [armCalls, HunkCounter.countCallsOther, HunkCounter.countStep]
  · cases kind <;> simp only at e <;> (cases hn : nParents dt <;> simp only [hn] at e <;> cases e)
    · simp only [Option.map, armCalls, HunkCounter.countCallsMinus, HunkCounter.countStep]
      split <;> simp
    · simp [armCalls, HunkCounter.countCallsZero, HunkCounter.countStep]
    · simp [armCalls, HunkCounter.countCallsPlus, HunkCounter.countStep]

/-- the same, read off the model by running it: counter drop of `hunkLinePush` on a removed, an
added, an unchanged line and a `\ No newline…` line -/
def probeLine (s : String) : L :=
  { raw := s.toList, text := s.toList, graphemes := s.toList.map (fun c => [c]),
    commitRe := false, blame := false, grep := 0, submodule := none }

def probe (s : String) : Nat :=
  match hunkLinePush {} { st := .hunkZero .unified, counter := 100 } (probeLine s) with
  | .ok m => (100 - m.counter).toNat
  | .error _ => 99

def modelArms : List Nat := [probe "-x", probe "+x", probe " x", probe "\\ No newline at end of file"]

theorem modelArms_eq_generated : modelArms =
    [HunkCounter.countCallsMinus, HunkCounter.countCallsPlus, HunkCounter.countCallsZero, HunkCounter.countCallsOther] := by
  decide

/-- `three_dashes_expected`, with the source's constants and comparison operators -/
theorem threeDashesExpected_generated (c : Int) :
    HunkCounter.threeDashesShape = (">", "<=", true) ∧
    (threeDashesExpected c = true ↔
      (c > HunkCounter.relevantIfGreaterThan → c ≤ HunkCounter.expectHeader)) := by
  refine ⟨by decide, ?_⟩
  unfold threeDashesExpected
  simp only [HunkCounter.relevantIfGreaterThan, HunkCounter.expectHeader]
  by_cases h : c > -4096 <;> simp [h]

/-- `count_from`: the `isize` conversion falls back to "not needed" -/
theorem countFrom_generated (n : Nat) :
    countFrom n = if n < 2 ^ 63 then (n : Int) else HunkCounter.relevantIfGreaterThan := rfl

/-- the counter starts as "not needed" (`StateMachine::new`), is armed with "expect a header"
(`prepare_to_count`) and is set by a hunk header from the length of its FIRST coordinate pair when
the header has at least two pairs and the counter is in use -/
theorem counter_seeding :
    ({} : M).counter = HunkCounter.relevantIfGreaterThan ∧
    (∀ (m : M) (l : L), (armCounter m l).counter = m.counter ∨ (armCounter m l).counter = HunkCounter.expectHeader) ∧
    HunkCounter.countFromSite = (0, 1, 2, false) ∧
    (∀ (m : M) (hh : HunkHeader) (a ml : Nat) (p : Nat × Nat) (rest : List (Nat × Nat)),
      hh.coords = (a, ml) :: p :: rest → m.counter > HunkCounter.relevantIfGreaterThan →
      hunkHeaderCounter m hh = countFrom ml) ∧
    (∀ (m : M) (hh : HunkHeader), ¬ m.counter > HunkCounter.relevantIfGreaterThan → hunkHeaderCounter m hh = m.counter) := by
  refine ⟨rfl, ?_, by decide, ?_, ?_⟩
  · intro m l
    unfold armCounter
    split
    · split
      · right; rfl
      · left; rfl
    · split
      · right; rfl
      · left; rfl
  · intro m hh a ml p rest hc hm
    unfold hunkHeaderCounter
    simp only [HunkCounter.relevantIfGreaterThan] at hm
    simp [hm, hc]
  · intro m hh hm
    unfold hunkHeaderCounter
    simp only [HunkCounter.relevantIfGreaterThan] at hm
    simp [hm]

/-- every place of the source that touches the counter is one the model has: the field and its
initial value, arming in `consume`, `three_dashes_expected` in `test_diff_header_minus_line`,
`count_line` in `handle_hunk_line` (and helpers reachable only from there), `must_count` /
`count_from` in `handle_hunk_header_line` -/
theorem counter_sites :
    HunkCounter.counterSites =
      [("src/delta.rs", "", "field"),
       ("src/delta.rs", "consume", "assign prepare_to_count"),
       ("src/delta.rs", "new", "init not_needed"),
       ("src/handlers/diff_header.rs", "test_diff_header_minus_line", "three_dashes_expected"),
       ("src/handlers/hunk.rs", "", "count_line"),
       ("src/handlers/hunk_header.rs", "handle_hunk_header_line", "assign count_from"),
       ("src/handlers/hunk_header.rs", "handle_hunk_header_line", "must_count")] := by
  decide

-- 2. plain `diff -u`: the lines of a hunk and their numbers ---------------------------------------

/-- the kind under which the painter numbers a hunk line: by its first column (`--- x` is a removed
line, `+++ x` an added one); a `\ No newline at end of file` line is not numbered -/
def numKind (l : L) : Option LineNumbers.Kind :=
  match l.text.head? with
  | some '-' => some .minus
  | some '+' => some .plus
  | some ' ' => some .ctx
  | _ => none

/-- the kinds of the numbered lines of a hunk body, in input order -/
def hunkKinds (body : List L) : List LineNumbers.Kind := body.filterMap numKind

/-- the same, from the rows the machine shows -/
def rowNumKind : RowKind → Option LineNumbers.Kind
  | .minus => some .minus
  | .plus => some .plus
  | .zero => some .ctx
  | _ => none

/-- the reference reading takes every line of `body` for a hunk line -/
def readBody : PS → List L → Option PS
  | s, [] => some s
  | s, l :: ls =>
    match plainNext s l with
    | some (s', true) => readBody s' ls
    | _ => none

/-- one row per body line, in order -/
def bodyRows (cfg : Cfg) : Nat → List L → List Row
  | _, [] => []
  | n, l :: ls => plainRow cfg l n :: bodyRows cfg (n + 1) ls

/-- old-file lines (removed or unchanged) among the lines -/
def oldCount (ls : List L) : Nat := (ls.filter oldLine).length
/-- new-file lines (added or unchanged) among the lines -/
def newLine (l : L) : Bool :=
  match l.text.head? with
  | some '+' | some ' ' => true
  | _ => false
def newCount (ls : List L) : Nat := (ls.filter newLine).length

theorem plainOutside_false {l : L} {s' : PS} {b : Bool} (h : plainOutside l = some (s', b)) : b = false := by
  unfold plainOutside at h
  repeat' split at h
  all_goals first | (cases h; rfl) | cases h

/-- only inside a hunk does the reading take a line for a hunk line; it is then a `-`/blank/`+`/`\` line -/
theorem plainNext_true {s s' : PS} {l : L} (h : plainNext s l = some (s', true)) :
    oldLine l = true ∨ newOnlyLine l = true := by
  unfold plainNext at h
  split at h
  · cases h
  · split at h
    · exact absurd (plainOutside_false h) (by simp)
    · split at h <;> cases h
    · repeat' split at h
      all_goals first | (left; assumption) | (right; assumption) | cases h
    · split at h
      · right; assumption
      · exact absurd (plainOutside_false h) (by simp)

theorem plainOutside_hunk {l : L} {ml : Nat} {b : Bool} (h : plainOutside l = some (.hunk ml, b)) :
    announcedOld l = some ml := by
  unfold plainOutside at h
  repeat' split at h
  all_goals first | (cases h; assumption) | cases h

/-- a line that opens a hunk is a hunk header announcing that many old-file lines -/
theorem plainNext_hunk_false {s : PS} {l : L} {ml : Nat} (h : plainNext s l = some (.hunk ml, false)) :
    announcedOld l = some ml := by
  unfold plainNext at h
  split at h
  · cases h
  · split at h
    · exact plainOutside_hunk h
    · split at h <;> cases h
    · repeat' split at h
      all_goals cases h
    · split at h
      · split at h <;> cases h
      · exact plainOutside_hunk h

theorem readBody_after : ∀ (body : List L) (s s2 : PS), readBody s body = some s2 → plainAfter s body = some s2
  | [], s, s2, h => by simpa [readBody, plainAfter] using h
  | l :: ls, s, s2, h => by
    rw [readBody.eq_2] at h
    rw [plainAfter.eq_2]
    cases hn : plainNext s l with
    | none => simp [hn] at h
    | some p =>
      obtain ⟨s', b⟩ := p
      cases b
      · simp [hn] at h
      · simp only [hn] at h ⊢
        exact readBody_after ls s' s2 h

theorem readBody_rows (cfg : Cfg) : ∀ (body : List L) (s s2 : PS) (n : Nat), readBody s body = some s2 →
    plainRows cfg s n body = bodyRows cfg n body
  | [], s, s2, n, h => by simp [plainRows, bodyRows]
  | l :: ls, s, s2, n, h => by
    rw [readBody.eq_2] at h
    cases hn : plainNext s l with
    | none => simp [hn] at h
    | some p =>
      obtain ⟨s', b⟩ := p
      cases b
      · simp [hn] at h
      · simp only [hn] at h
        rw [plainRows_cons n ls hn, bodyRows, readBody_rows cfg ls s' s2 (n + 1) h]
        simp

/-- every line of a body the reading accepts starts with `-`, blank, `+` or `\` -/
theorem readBody_lines : ∀ (body : List L) (s s2 : PS), readBody s body = some s2 →
    ∀ l ∈ body, oldLine l = true ∨ newOnlyLine l = true
  | [], s, s2, h, l, hl => by simp at hl
  | x :: ls, s, s2, h, l, hl => by
    rw [readBody.eq_2] at h
    cases hn : plainNext s x with
    | none => simp [hn] at h
    | some p =>
      obtain ⟨s', b⟩ := p
      cases b
      · simp [hn] at h
      · simp only [hn] at h
        rcases List.mem_cons.mp hl with rfl | hl'
        · exact plainNext_true hn
        · exact readBody_lines ls s' s2 h l hl'

theorem head_cases {l : L} (h : oldLine l = true ∨ newOnlyLine l = true) :
    l.text.head? = some '-' ∨ l.text.head? = some ' ' ∨ l.text.head? = some '+' ∨ l.text.head? = some '\\' := by
  obtain ⟨_, c, rest, ht, hcs⟩ := bodyChar_of_kind h
  rcases hcs with rfl | rfl | rfl | rfl <;> simp [ht]

/-- the row shown for a hunk line has the kind of the line's first column -/
theorem plainRow_numKind (cfg : Cfg) (l : L) (n : Nat) (h : oldLine l = true ∨ newOnlyLine l = true) :
    rowNumKind (plainRow cfg l n).kind = numKind l := by
  rcases head_cases h with ht | ht | ht | ht <;> simp [plainRow, expectedRow, numKind, rowNumKind, ht]

theorem bodyRows_kinds (cfg : Cfg) : ∀ (body : List L) (n : Nat),
    (∀ l ∈ body, oldLine l = true ∨ newOnlyLine l = true) →
    (bodyRows cfg n body).filterMap (fun r => rowNumKind r.kind) = hunkKinds body
  | [], n, h => by simp [bodyRows, hunkKinds]
  | l :: ls, n, h => by
    have ih := bodyRows_kinds cfg ls (n + 1) (fun x hx => h x (List.mem_cons_of_mem _ hx))
    have h0 := plainRow_numKind cfg l n (h l (List.mem_cons_self ..))
    simp only [bodyRows, hunkKinds, List.filterMap_cons, h0] at ih ⊢
    cases numKind l <;> simp [ih, hunkKinds]

theorem bodyRows_length (cfg : Cfg) : ∀ (body : List L) (n : Nat), (bodyRows cfg n body).length = body.length
  | [], n => rfl
  | l :: ls, n => by simp [bodyRows, bodyRows_length cfg ls (n + 1)]

theorem bodyRows_getElem (cfg : Cfg) : ∀ (body : List L) (n j : Nat) (hj : j < body.length),
    (bodyRows cfg n body)[j]? = some (plainRow cfg body[j] (n + j))
  | [], n, j, hj => by simp at hj
  | l :: ls, n, 0, hj => by simp [bodyRows]
  | l :: ls, n, j + 1, hj => by
    simp only [bodyRows, List.getElem?_cons_succ, List.getElem_cons_succ]
    rw [bodyRows_getElem cfg ls (n + 1) j (by simpa using hj)]
    congr 2; omega

theorem countOld_hunkKinds : ∀ (ls : List L), LineNumbers.countOld (hunkKinds ls) = oldCount ls
  | [] => rfl
  | l :: ls => by
    have ih := countOld_hunkKinds ls
    unfold hunkKinds oldCount at *
    simp only [List.filterMap_cons, List.filter_cons]
    cases hh : l.text.head? with
    | none => simp [numKind, oldLine, hh, ih]
    | some ch =>
      by_cases h1 : ch = '-'
      · subst h1; simp [numKind, oldLine, hh, LineNumbers.countOld_cons, LineNumbers.Kind.isOld, ih]; omega
      · by_cases h2 : ch = '+'
        · subst h2; simp [numKind, oldLine, hh, LineNumbers.countOld_cons, LineNumbers.Kind.isOld, ih]
        · by_cases h3 : ch = ' '
          · subst h3; simp [numKind, oldLine, hh, LineNumbers.countOld_cons, LineNumbers.Kind.isOld, ih]; omega
          · have hn : numKind l = none := by
              unfold numKind; rw [hh]; split <;> simp_all
            have ho : oldLine l = false := by
              unfold oldLine; rw [hh]; split <;> simp_all
            simp [hn, ho, ih]

theorem countNew_hunkKinds : ∀ (ls : List L), LineNumbers.countNew (hunkKinds ls) = newCount ls
  | [] => rfl
  | l :: ls => by
    have ih := countNew_hunkKinds ls
    unfold hunkKinds newCount at *
    simp only [List.filterMap_cons, List.filter_cons]
    cases hh : l.text.head? with
    | none => simp [numKind, newLine, hh, ih]
    | some ch =>
      by_cases h1 : ch = '-'
      · subst h1; simp [numKind, newLine, hh, LineNumbers.countNew_cons, LineNumbers.Kind.isNew, ih]
      · by_cases h2 : ch = '+'
        · subst h2; simp [numKind, newLine, hh, LineNumbers.countNew_cons, LineNumbers.Kind.isNew, ih]; omega
        · by_cases h3 : ch = ' '
          · subst h3; simp [numKind, newLine, hh, LineNumbers.countNew_cons, LineNumbers.Kind.isNew, ih]; omega
          · have hn : numKind l = none := by
              unfold numKind; rw [hh]; split <;> simp_all
            have ho : newLine l = false := by
              unfold newLine; rw [hh]; split <;> simp_all
            simp [hn, ho, ih]

/-- position of body line `j` among the numbered lines -/
theorem hunkKinds_take (body : List L) (j : Nat) (hj : j < body.length) (k : LineNumbers.Kind)
    (hk : numKind body[j] = some k) :
    ∃ (h : (hunkKinds (body.take j)).length < (hunkKinds body).length),
      (hunkKinds body)[(hunkKinds (body.take j)).length] = k ∧
      (hunkKinds body).take (hunkKinds (body.take j)).length = hunkKinds (body.take j) := by
  have hsplit : body = body.take j ++ body[j] :: body.drop (j + 1) := by
    rw [List.getElem_cons_drop]; exact (List.take_append_drop j body).symm
  have hk' : hunkKinds body = hunkKinds (body.take j) ++ k :: hunkKinds (body.drop (j + 1)) := by
    unfold hunkKinds
    calc List.filterMap numKind body
        = List.filterMap numKind (body.take j ++ body[j] :: body.drop (j + 1)) := by rw [← hsplit]
      _ = _ := by rw [List.filterMap_append, List.filterMap_cons, hk]
  refine ⟨by rw [hk']; simp, ?_, ?_⟩
  · simp [hk']
  · rw [hk']; simp

end Machine.Counter
