import Proofs.Machine.Run
/-!
Whole-run streaming invariant (C11): whenever the machine is inside a hunk (the state after the
lines consumed so far is one of the three hunk-body states), nothing painted is waiting in the
output buffer — what has not been written yet is exactly the open run of removed / added lines.

Every handler is shown to preserve `BufInv` (inside a hunk ⇒ `buf = []`): it either ends outside
the hunk-body states, or ends with an `emit`, or leaves both the state and the buffer alone.
-/
set_option linter.unusedSimpArgs false
set_option linter.unusedVariables false
namespace Machine
open Headers Generated

/-- the states of a line inside a hunk -/
def isHunkBody : State → Bool
  | .hunkZero _ | .hunkMinus _ | .hunkPlus _ => true
  | _ => false

/-- inside a hunk nothing painted is held back -/
def BufInv (m : M) : Prop := isHunkBody m.st = true → m.buf = []

/-- what a handler delivers: outside the hunk body, or flushed, or state and buffer untouched -/
def BQ (m m' : M) : Prop :=
  isHunkBody m'.st = false ∨ m'.buf = [] ∨ (m'.st = m.st ∧ m'.buf = m.buf)

theorem BQ.inv {m m' : M} (q : BQ m m') (h : BufInv m) : BufInv m' := by
  intro hb
  rcases q with q | q | ⟨q1, q2⟩
  · rw [hb] at q; cases q
  · exact q
  · rw [q2]; exact h (by rw [← q1]; exact hb)

theorem BQ.refl (m : M) : BQ m m := Or.inr (Or.inr ⟨rfl, rfl⟩)

theorem isHunkBody_diffHeader (st : State) (h : isDiffHeader st = true) : isHunkBody st = false := by
  cases st <;> simp_all [isDiffHeader, isHunkBody]

theorem diffLineState_nb (l : L) : isHunkBody (diffLineState l) = false := by
  unfold diffLineState; split <;> rfl

theorem pendingDiffName_st' (cfg : Cfg) (m : M) : (pendingDiffName cfg m).st = m.st := by
  unfold pendingDiffName
  split
  · rfl
  · split
    · simp
    · split
      · rfl
      · split
        · simp
        · rfl

-- handlers ------------------------------------------------------------------

theorem handleCommitMeta_bq {cfg : Cfg} {m m' : M} {l : L} {b : Bool}
    (e : handleCommitMeta cfg m l = .ok (b, m')) : BQ m m' := by
  unfold handleCommitMeta at e
  split at e
  · cases e; exact BQ.refl m
  · split at e
    · split at e
      · cases e; exact Or.inl rfl
      · cases e; exact Or.inl (by rw [direct_st]; rfl)
    · cases e; exact Or.inl rfl

theorem handleDiffStat_bq {cfg : Cfg} {m m' : M} {l : L} {b : Bool}
    (e : handleDiffStat cfg m l = .ok (b, m')) : BQ m m' := by
  unfold handleDiffStat at e; cases e; exact BQ.refl m

theorem handleDiffHeaderDiff_bq {cfg : Cfg} {m m' : M} {l : L} {b : Bool}
    (e : handleDiffHeaderDiff cfg m l = .ok (b, m')) : BQ m m' := by
  unfold handleDiffHeaderDiff at e
  have hst : (diffLineFields (pendingDiffName cfg { flushMP m with st := diffLineState l }) l).st = diffLineState l :=
    pendingDiffName_st' cfg _
  split at e
  · cases e; exact BQ.refl m
  · split at e
    · cases e; exact Or.inl (by rw [hst]; exact diffLineState_nb l)
    · cases e; exact Or.inl (by rw [emitLineUnchanged_st, hst]; exact diffLineState_nb l)

theorem fileOpUpdate_st (m : M) (ev : FileEvent) (nm : Str) : (fileOpUpdate m ev nm).st = m.st := by
  unfold fileOpUpdate; split <;> rfl
theorem fileOpUpdate_buf (m : M) (ev : FileEvent) (nm : Str) : (fileOpUpdate m ev nm).buf = m.buf := by
  unfold fileOpUpdate; split <;> rfl

theorem shouldWriteGeneric_bq (cfg : Cfg) (x : M) (l : L) :
    (shouldWriteGeneric cfg x l).2.st = x.st ∧
      ((shouldWriteGeneric cfg x l).2.buf = [] ∨ (shouldWriteGeneric cfg x l).2.buf = x.buf) := by
  unfold shouldWriteGeneric
  split
  · exact ⟨by simp, Or.inl (by simp)⟩
  · exact ⟨rfl, Or.inr rfl⟩

theorem handleFileOperation_bq {cfg : Cfg} {m m' : M} {l : L} {b : Bool}
    (e : handleFileOperation cfg m l = .ok (b, m')) : BQ m m' := by
  unfold handleFileOperation at e
  split at e
  · cases e; exact BQ.refl m
  · simp only [Except.ok.injEq] at e
    obtain rfl : m' = _ := (congrArg Prod.snd e).symm
    unfold fileOpFinish
    split
    · obtain ⟨h1, h2⟩ := shouldWriteGeneric_bq cfg
        (fileOpUpdate m (parseDiffHeaderLine l.text (decide (m.source = Source.gitDiff))).2
          ((repeatedFilePath m.diffLine m.diffLineG).getD [])) l
      rcases h2 with h2 | h2
      · exact Or.inr (Or.inl h2)
      · exact Or.inr (Or.inr ⟨by rw [h1, fileOpUpdate_st], by rw [h2, fileOpUpdate_buf]⟩)
    · exact Or.inr (Or.inr ⟨fileOpUpdate_st .., fileOpUpdate_buf ..⟩)

theorem handleMinusLine_bq {cfg : Cfg} {m m' : M} {l : L} {b : Bool}
    (e : handleMinusLine cfg m l = .ok (b, m')) : BQ m m' := by
  unfold handleMinusLine at e
  split at e
  · cases e; exact BQ.refl m
  · rename_i ht
    simp only [Except.ok.injEq] at e
    obtain rfl : m' = _ := (congrArg Prod.snd e).symm
    have key : ∀ x : M, isHunkBody x.st = false → isHunkBody (shouldWriteGeneric cfg (flushMP x) l).2.st = false := by
      intro x hx
      rw [(shouldWriteGeneric_bq cfg (flushMP x) l).1, flushMP_st]; exact hx
    refine Or.inl (key _ ?_)
    dsimp only
    split
    · rfl
    · rename_i hsrc
      -- the test held without the plain-diff source: the state is a diff header
      have hd : isDiffHeader m.st = true := by
        have : minusLineTest m l = true := by simpa using ht
        unfold minusLineTest headerLineTest at this
        simp only [Bool.and_eq_true, Bool.or_eq_true, decide_eq_true_eq] at this
        rcases this.1 with h | h
        · exact h
        · exact absurd h hsrc
      exact isHunkBody_diffHeader _ hd

theorem plusLineFinish_st (cfg : Cfg) (x : M) (l : L) : (plusLineFinish cfg x l).2.st = x.st := by
  unfold plusLineFinish
  split
  · exact (shouldWriteGeneric_bq cfg x l).1
  · split
    · simp
    · rfl

theorem handlePlusLine_bq {cfg : Cfg} {m m' : M} {l : L} {b : Bool}
    (e : handlePlusLine cfg m l = .ok (b, m')) : BQ m m' := by
  unfold handlePlusLine at e
  split at e
  · cases e; exact BQ.refl m
  · rename_i ht
    simp only [Except.ok.injEq] at e
    obtain rfl : m' = _ := (congrArg Prod.snd e).symm
    have hd : isDiffHeader m.st = true := by
      have : plusLineTest m l = true := by simpa using ht
      unfold plusLineTest at this
      simp only [Bool.and_eq_true] at this
      exact this.1
    refine Or.inl ?_
    rw [plusLineFinish_st, flushMP_st]
    exact isHunkBody_diffHeader _ hd

theorem handleHunkHeader_bq {cfg : Cfg} {m m' : M} {l : L} {b : Bool}
    (e : handleHunkHeader cfg m l = .ok (b, m')) : BQ m m' := by
  unfold handleHunkHeader at e
  split at e
  · cases e; exact BQ.refl m
  · split at e
    · cases e; exact BQ.refl m
    · cases e; exact Or.inl rfl

theorem handleModeLine_bq {cfg : Cfg} {m m' : M} {l : L} {b : Bool}
    (e : handleModeLine cfg m l = .ok (b, m')) : BQ m m' := by
  unfold handleModeLine at e
  split at e
  · split at e <;> (cases e; exact Or.inl rfl)
  · split at e
    · split at e <;> (cases e; exact Or.inl rfl)
    · cases e; exact BQ.refl m

theorem handleAdditionalCases_bq {cfg : Cfg} {m0 m m' : M} {l : L} {b : Bool} {to : State}
    (hto : isHunkBody to = false) (e : handleAdditionalCases cfg m l to = .ok (b, m')) : BQ m0 m' := by
  unfold handleAdditionalCases at e
  split at e
  · cases e; exact Or.inl (by simpa using hto)
  · cases e; exact Or.inl hto

theorem handleMisc_bq {cfg : Cfg} {m m' : M} {l : L} {b : Bool}
    (e : handleMisc cfg m l = .ok (b, m')) : BQ m m' := by
  unfold handleMisc at e
  simp only at e
  split at e
  · cases e; exact BQ.refl m
  · split at e
    · split at e
      · cases e
        refine Or.inr (Or.inl ?_)
        show (emitLineUnchanged m l).buf = []
        unfold emitLineUnchanged; simp
      · cases e; exact Or.inr (Or.inr ⟨rfl, rfl⟩)
    · refine handleAdditionalCases_bq ?_ e
      split
      · rename_i hd; exact isHunkBody_diffHeader _ hd
      · rfl

theorem handleSubmoduleLog_bq {cfg : Cfg} {m m' : M} {l : L} {b : Bool}
    (e : handleSubmoduleLog cfg m l = .ok (b, m')) : BQ m m' := by
  unfold handleSubmoduleLog at e
  split at e
  · cases e; exact BQ.refl m
  · exact handleAdditionalCases_bq rfl e

theorem handleSubmoduleShort_bq {cfg : Cfg} {m m' : M} {l : L} {b : Bool}
    (e : handleSubmoduleShort cfg m l = .ok (b, m')) : BQ m m' := by
  unfold handleSubmoduleShort at e
  split at e
  · cases e; exact BQ.refl m
  · split at e
    · cases e; exact BQ.refl m
    · split at e
      · cases e; exact Or.inl rfl
      · cases e; exact Or.inr (Or.inl (by simp))
      · cases e; exact BQ.refl m

theorem mcPaintOne_buf (cfg : Cfg) (m : M) (name : Option Str) (d : List HLine) : (mcPaintOne cfg m name d).buf = [] := by
  unfold mcPaintOne; rfl

theorem paintMergeConflict_buf (cfg : Cfg) (m : M) (mp : MergeParents) : (paintMergeConflict cfg m mp).buf = [] := by
  unfold paintMergeConflict
  simp only [direct_buf, mcPaintOne_buf]

theorem handleMergeConflict_bq {cfg : Cfg} {m m' : M} {l : L} {b : Bool}
    (e : handleMergeConflict cfg m l = .ok (b, m')) : BQ m m' := by
  unfold handleMergeConflict at e
  split at e
  · cases e; exact BQ.refl m
  · split at e
    · split at e
      · split at e
        · cases e
        · cases e; exact Or.inl rfl
      · cases e; exact BQ.refl m
    · split at e
      all_goals first
        | (cases e; exact BQ.refl m)
        | (rename_i hst
           -- inside a conflict region: the result is a conflict-region state, or the region was painted
           unfold storeOr at e
           split at e
           · rename_i x hx
             cases e
             have hcases : isHunkBody m'.st = false ∨ m'.buf = [] := by
               first
                 | (rcases orElse_some hx with h1 | h2
                    · unfold enterAncestral at h1
                      simp only [Option.map_eq_some_iff] at h1
                      obtain ⟨_, _, rfl⟩ := h1; exact Or.inl rfl
                    · rcases orElse_some h2 with h3 | h4
                      · unfold enterTheirs at h3
                        split at h3
                        · cases h3; exact Or.inl rfl
                        · cases h3
                      · unfold exitMergeConflict at h4
                        simp only [Option.map_eq_some_iff] at h4
                        obtain ⟨_, _, rfl⟩ := h4; exact Or.inr (paintMergeConflict_buf ..))
                 | (rcases orElse_some hx with h3 | h4
                    · unfold enterTheirs at h3
                      split at h3
                      · cases h3; exact Or.inl rfl
                      · cases h3
                    · unfold exitMergeConflict at h4
                      simp only [Option.map_eq_some_iff] at h4
                      obtain ⟨_, _, rfl⟩ := h4; exact Or.inr (paintMergeConflict_buf ..))
                 | (unfold exitMergeConflict at hx
                    simp only [Option.map_eq_some_iff] at hx
                    obtain ⟨_, _, rfl⟩ := hx; exact Or.inr (paintMergeConflict_buf ..))
             rcases hcases with h | h
             · exact Or.inl h
             · exact Or.inr (Or.inl h)
           · split at e
             · cases e
             · rename_i x hx
               cases e
               refine Or.inl ?_
               unfold storeLine at hx
               split at hx
               · cases hx
               · simp only at hx
                 split at hx <;> (cases hx; show isHunkBody m.st = false; rw [hst]; rfl))

theorem handleHunkLine_bq {cfg : Cfg} {m m' : M} {l : L} {b : Bool}
    (e : handleHunkLine cfg m l = .ok (b, m')) (g : Good m) : BQ m m' := by
  rcases handleHunkLine_spec e g with ⟨_, rfl, _⟩ | ⟨_, _, s⟩
  · exact BQ.refl _
  · exact Or.inr (Or.inl s.buf)

theorem handleGitShowFile_bq {cfg : Cfg} {m m' : M} {l : L} {b : Bool}
    (e : handleGitShowFile cfg m l = .ok (b, m')) : BQ m m' := by
  unfold handleGitShowFile at e; cases e; exact Or.inr (Or.inl rfl)

theorem handleBlame_bq {cfg : Cfg} {m m' : M} {l : L} {b : Bool}
    (e : handleBlame cfg m l = .ok (b, m')) : BQ m m' := by
  unfold handleBlame at e
  simp only at e
  split at e
  · cases e; exact Or.inl rfl
  · cases e; exact Or.inr (Or.inl rfl)

theorem handleGrep_bq {cfg : Cfg} {m m' : M} {l : L} {b : Bool}
    (e : handleGrep cfg m l = .ok (b, m')) : BQ m m' := by
  unfold handleGrep at e
  simp only at e
  split at e
  · split at e
    · cases e; exact Or.inr (Or.inl rfl)
    · cases e; exact Or.inl rfl
  · cases e; exact Or.inr (Or.inl rfl)

theorem handleShouldSkip_bq {cfg : Cfg} {m m' : M} {l : L} {b : Bool}
    (e : handleShouldSkip cfg m l = .ok (b, m')) : BQ m m' := by
  unfold handleShouldSkip at e; cases e; exact BQ.refl m

theorem handleEmitUnchanged_bq {cfg : Cfg} {m m' : M} {l : L} {b : Bool}
    (e : handleEmitUnchanged cfg m l = .ok (b, m')) : BQ m m' := by
  unfold handleEmitUnchanged at e; cases e
  refine Or.inr (Or.inl ?_)
  unfold emitLineUnchanged; simp

/-- every handler of the model preserves `BufInv` -/
theorem handlerOf_bufInv {name : String} {hd : Handler} (hn : handlerOf name = some hd)
    {cfg : Cfg} {m m' : M} {l : L} {b : Bool} (e : hd cfg m l = .ok (b, m')) (g : Good m) (h : BufInv m) :
    BufInv m' := by
  unfold handlerOf at hn
  split at hn <;> first
    | (cases hn
       first
         | exact (handleCommitMeta_bq e).inv h | exact (handleDiffStat_bq e).inv h
         | exact (handleDiffHeaderDiff_bq e).inv h | exact (handleFileOperation_bq e).inv h
         | exact (handleMinusLine_bq e).inv h | exact (handlePlusLine_bq e).inv h
         | exact (handleHunkHeader_bq e).inv h | exact (handleModeLine_bq e).inv h
         | exact (handleMisc_bq e).inv h | exact (handleSubmoduleLog_bq e).inv h
         | exact (handleSubmoduleShort_bq e).inv h | exact (handleMergeConflict_bq e).inv h
         | exact (handleHunkLine_bq e g).inv h | exact (handleGitShowFile_bq e).inv h
         | exact (handleBlame_bq e).inv h | exact (handleGrep_bq e).inv h
         | exact (handleShouldSkip_bq e).inv h | exact (handleEmitUnchanged_bq e).inv h)
    | cases hn

theorem chain_bufInv {cfg : Cfg} {l : L} : ∀ (names : List String) {m m' : M},
    chain cfg l names m = .ok m' → Good m → BufInv m → BufInv m'
  | [], m, m', e, g, h => by simp only [chain] at e; cases e; exact h
  | name :: rest, m, m', e, g, h => by
    simp only [chain] at e
    split at e
    · cases e
    · rename_i hd hn
      split at e
      · cases e
      · rename_i m1 e1
        cases e; exact handlerOf_bufInv hn e1 g h
      · rename_i m1 e1
        exact chain_bufInv rest e (handlerOf_step hn e1 g).good (handlerOf_bufInv hn e1 g h)

theorem stepInit_bufInv {m : M} (l : L) (h : BufInv m) : BufInv (stepInit m l) := by
  have hs : (stepInit m l).st = m.st ∧ (stepInit m l).buf = m.buf := by
    unfold stepInit
    split
    · unfold armCounter
      repeat' split
      all_goals exact ⟨rfl, rfl⟩
    · exact ⟨rfl, rfl⟩
  intro hb
  rw [hs.2]; exact h (by rw [← hs.1]; exact hb)

theorem step_bufInv {cfg : Cfg} {m m' : M} {l : L} (e : step cfg m l = .ok m') (g : Good m) (h : BufInv m) :
    BufInv m' := by
  unfold step at e
  split at e
  · cases e
  · rename_i m2 e2
    cases e
    have h2 : BufInv m2 := chain_bufInv _ e2 (stepInit_stepS l g).good (stepInit_bufInv l h)
    intro hb
    exact h2 hb

theorem runFrom_bufInv {cfg : Cfg} : ∀ (ls : List L) {m m' : M}, runFrom cfg m ls = .ok m' → Good m → BufInv m →
    BufInv m'
  | [], m, m', e, g, h => by simp only [runFrom] at e; cases e; exact h
  | l :: ls, m, m', e, g, h => by
    simp only [runFrom] at e
    split at e
    · cases e
    · rename_i m1 e1
      exact runFrom_bufInv ls e (step_spec e1 g).1 (step_bufInv e1 g h)

/-- **Inside a hunk everything but the open run has been written.** For every configuration and
every input prefix: if the state after the prefix is a hunk-body state, the output buffer is empty,
so the rows not yet written are exactly the open run of removed and added lines. -/
theorem inside_hunk_all_written {cfg : Cfg} {ls : List L} {m : M} (e : runFrom cfg {} ls = .ok m)
    (hb : isHunkBody m.st = true) :
    m.buf = [] ∧ timeline m = m.out ++ m.minus.map HLine.row ++ m.plus.map HLine.row := by
  have h := runFrom_bufInv ls e good_init (fun _ => rfl) hb
  exact ⟨h, by simp [timeline, h]⟩

end Machine
