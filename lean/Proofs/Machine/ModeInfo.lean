import Proofs.Machine.Concat
import Proofs.HeaderWrite
/-!
`mode_info` at the start of a file section: the `diff ` line handler calls `handle_pending_line_with_diff_name` in a
file-header state, so mode information that is still there is written with the pending header and consumed by that
write - under every file style: raw included, and (since the repair of the early return of
`write_generic_diff_header_header_line`, which now clears `mode_info` before it returns) the omitted style too.
-/
namespace Machine.ModeInfo
open Machine Headers

theorem flushMP_mi (m : M) : (flushMP m).modeInfo = m.modeInfo := by
  unfold flushMP; split <;> rfl

theorem direct_mi (m : M) (rows : List Row) : (direct m rows).modeInfo = m.modeInfo := by
  unfold direct; split <;> rfl

theorem emitLineUnchanged_mi (m : M) (l : L) : (emitLineUnchanged m l).modeInfo = m.modeInfo := by
  unfold emitLineUnchanged
  rw [direct_mi]
  show (flushMP m).modeInfo = _
  exact flushMP_mi m

theorem diffLineFields_mi (m : M) (l : L) : (diffLineFields m l).modeInfo = m.modeInfo := rfl

theorem pendingTest_diffLineState (m : M) (l : L) : pendingTest { m with st := diffLineState l } = true := by
  unfold pendingTest diffLineState
  split <;> rfl

/-- the model's header write leaves no mode information, for every configuration -/
theorem writeGeneric_consumes (cfg : Cfg) (m : M) (t r : Str) : (writeGeneric cfg m t r).modeInfo = [] :=
  writeGeneric_modeInfo cfg m t r

/-- after a `diff ` line has been handled no mode information of the previous section is left, whatever the machine
held before - under every configuration -/
theorem diffLine_clears_modeInfo {cfg : Cfg} {m m' : M} {l : L} {b : Bool}
    (hl : startsWith l.text Generated.Markers.diffLine = true)
    (e : handleDiffHeaderDiff cfg m l = .ok (b, m')) : m'.modeInfo = [] := by
  unfold handleDiffHeaderDiff at e
  simp only [hl, Bool.not_true, Bool.false_eq_true, if_false] at e
  have hp := pendingDiffName_modeInfo_written cfg { flushMP m with st := diffLineState l }
    (pendingTest_diffLineState (flushMP m) l)
  split at e
  · cases e
    rw [diffLineFields_mi]; exact hp
  · cases e
    rw [emitLineUnchanged_mi, diffLineFields_mi]; exact hp

end Machine.ModeInfo
