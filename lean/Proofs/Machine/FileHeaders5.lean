import Proofs.Machine.FileHeaders4
/-!
Whole-run file headers (C14), part 5: a decidable check of the shape hypotheses (`Sec2.wfb`), so that
`Sec2.WF` of a concrete section is shown by `decide`.
-/
set_option linter.unusedSimpArgs false
set_option linter.unusedVariables false
namespace Machine
open Headers Generated

def noiseb (l : L) : Bool :=
  !startsWith l.text Markers.hunkHeader && !startsWith l.text Markers.oldMode && !startsWith l.text Markers.newMode &&
  !startsWith l.text Markers.binaryFiles && !startsWith l.text Markers.submoduleLog && !l.commitRe &&
  !startsWith l.text Markers.diffLine && !startsWithAny l.text Markers.fileOperationLine &&
  !startsWithAny l.text Markers.minusLine && !startsWithAny l.text Markers.plusLine

theorem noise_of_b {l : L} (h : noiseb l = true) : Noise l := by
  unfold noiseb at h
  simp only [Bool.and_eq_true, Bool.not_eq_true'] at h
  obtain ⟨⟨⟨⟨⟨⟨⟨⟨⟨a, b⟩, c⟩, d⟩, e⟩, f⟩, g⟩, i⟩, j⟩, k⟩ := h
  exact { hunkHeader := a, oldMode := b, newMode := c, binary := d, submodule := e, commit := f, diff := g,
          fileOp := i, minus := j, plus := k }

def firstb (l : L) (p : Char → Bool) : Bool :=
  match l.text with
  | c :: _ => p c
  | [] => false

theorem firstIs_of_b {l : L} {p : Char → Bool} (h : firstb l p = true) : firstIs l p := by
  unfold firstb at h
  split at h
  · rename_i c rest ht; exact ⟨c, rest, ht, h⟩
  · cases h

def bodyLb (l : L) : Bool := firstb l isMarker && !l.commitRe && l.submodule.isNone

theorem bodyL_of_b {l : L} (h : bodyLb l = true) : BodyL l := by
  unfold bodyLb at h
  simp only [Bool.and_eq_true, Bool.not_eq_true', Option.isNone_iff_eq_none] at h
  exact ⟨firstIs_of_b h.1.1, h.1.2, h.2⟩

def logLb (l : L) : Bool := firstb l (fun c => c = ' ') && !l.commitRe

theorem logL_of_b {l : L} (h : logLb l = true) : LogL l := by
  unfold logLb at h
  simp only [Bool.and_eq_true, Bool.not_eq_true'] at h
  exact ⟨firstIs_of_b h.1, h.2⟩

def againwfb (mi pl : L) : Option (List L × L × L) → Bool
  | none => true
  | some (n2, a, b) =>
    n2.all noiseb && isMinusLine a && isPlusLine b &&
    decide ((parseDiffHeaderLine a.text true).1 = (parseDiffHeaderLine mi.text true).1) &&
    decide ((parseDiffHeaderLine b.text true).1 = (parseDiffHeaderLine pl.text true).1)

theorem againWF_of_b {mi pl : L} {again : Option (List L × L × L)} (h : againwfb mi pl again = true) :
    AgainWF mi pl again := by
  intro n2 a b e
  subst e
  simp only [againwfb, Bool.and_eq_true, List.all_eq_true, decide_eq_true_eq] at h
  obtain ⟨⟨⟨⟨h1, h2⟩, h3⟩, h4⟩, h5⟩ := h
  exact ⟨fun x hx => noise_of_b (h1 x hx), h2, h3, h4, h5⟩

def Body.wfb (names : Str × Str) : Body → Bool
  | .named mi pl again hunks =>
    isMinusLine mi && isPlusLine pl && againwfb mi pl again && hunks.all (fun x => isHHLineG x || bodyLb x) &&
      (match hunks.head? with
       | some x => isHHLineG x
       | none => true)
  | .namedBinary mi pl noise b => isMinusLine mi && isPlusLine pl && noise.all noiseb && isBinaryLine b
  | .submodule mi pl hh sm sp =>
    isMinusLine mi && isPlusLine pl && isPairableHHLine hh && isSubMinusLine sm && isSubPlusLine sp
  | .submodule1 mi pl hh sl => isMinusLine mi && isPlusLine pl && isHHLineG hh && isLoneSubLine hh sl
  | .bare => true
  | .binary b => isBinaryLine b && !(names.1.isEmpty && names.2.isEmpty)

theorem Body.wf_of_b {names : Str × Str} {body : Body} (h : body.wfb names = true) : body.WF names := by
  cases body with
  | named mi pl again hunks =>
    simp only [Body.wfb, Bool.and_eq_true, List.all_eq_true, Bool.or_eq_true] at h
    obtain ⟨⟨⟨⟨h1, h2⟩, h3⟩, h4⟩, h5⟩ := h
    refine ⟨h1, h2, againWF_of_b h3, fun x hx => (h4 x hx).imp id bodyL_of_b, ?_⟩
    intro x hx
    rw [hx] at h5
    exact h5
  | namedBinary mi pl noise b =>
    simp only [Body.wfb, Bool.and_eq_true, List.all_eq_true] at h
    obtain ⟨⟨⟨h1, h2⟩, h3⟩, h4⟩ := h
    exact ⟨h1, h2, fun x hx => noise_of_b (h3 x hx), h4⟩
  | submodule mi pl hh sm sp =>
    simp only [Body.wfb, Bool.and_eq_true] at h
    obtain ⟨⟨⟨⟨h1, h2⟩, h3⟩, h4⟩, h5⟩ := h
    exact ⟨h1, h2, h3, h4, h5⟩
  | submodule1 mi pl hh sl =>
    simp only [Body.wfb, Bool.and_eq_true] at h
    obtain ⟨⟨⟨h1, h2⟩, h3⟩, h4⟩ := h
    exact ⟨h1, h2, h3, h4⟩
  | bare => trivial
  | binary b =>
    simp only [Body.wfb, Bool.and_eq_true, Bool.not_eq_true', Bool.and_eq_false_iff, List.isEmpty_eq_false_iff] at h
    refine ⟨h.1, ?_⟩
    intro ⟨a, b⟩
    rcases h.2 with c | c
    · exact c a
    · exact c b

def modeswfb : Option (L × L) → Bool
  | none => true
  | some (o, n) => isOldModeLine o && isNewModeLine n && !(oldModeArg o).isEmpty

def FileSec.wfb (f : FileSec) : Bool :=
  isDiffGitLine f.d && modeswfb f.modes && f.noise.all (fun x => noiseb x || isFileOpLine x) &&
    f.body.wfb (lateNames (nameOf f.d) f.noise)

theorem FileSec.wf_of_b {f : FileSec} (h : f.wfb = true) : f.WF := by
  unfold FileSec.wfb at h
  simp only [Bool.and_eq_true, List.all_eq_true, Bool.or_eq_true] at h
  obtain ⟨⟨⟨h1, h2⟩, h3⟩, h4⟩ := h
  refine ⟨h1, ?_, fun x hx => (h3 x hx).imp noise_of_b id, Body.wf_of_b h4⟩
  intro o n e
  rw [e] at h2
  simp only [modeswfb, Bool.and_eq_true, Bool.not_eq_true', List.isEmpty_eq_false_iff] at h2
  exact ⟨h2.1.1, h2.1.2, h2.2⟩

/-- decidable form of the shape hypotheses of a section -/
def Sec2.wfb : Sec2 → Bool
  | .file f => f.wfb
  | .log s msgs => isSubmoduleLogLine s && msgs.all logLb

theorem Sec2.wf_of_b {s : Sec2} (h : s.wfb = true) : s.WF := by
  cases s with
  | file f => exact FileSec.wf_of_b h
  | log s msgs =>
    simp only [Sec2.wfb, Bool.and_eq_true, List.all_eq_true] at h
    exact ⟨h.1, fun x hx => logL_of_b (h.2 x hx)⟩

theorem wf_of_all {secs : List Sec2} (h : secs.all Sec2.wfb = true) : ∀ s ∈ secs, s.WF := by
  intro s hs
  exact Sec2.wf_of_b (List.all_eq_true.mp h s hs)

/-- an ordinary section (`FileHeaders.lean`) as a `Sec2` -/
def Sec.toSec2 (s : Sec) : Sec2 :=
  .file { d := s.d, noise := s.noise, body := .named s.mi s.pl s.again s.hunks }

end Machine
