import Proofs.Machine.NoPending
import Proofs.Machine.CommitBlocksEx
/-!
Examples for `Proofs/Machine/NoPending.lean` (C14, `no_pending_header_no_file_row`): concrete machines reached by the
model's run in which the hypotheses hold, and machines / lines showing that each hypothesis is needed. Imported only by
`Props/C14.lean` (kernel evaluation kept apart).
-/
set_option linter.unusedVariables false
namespace Machine.NoPendingEx
open Machine Machine.CommitBlocksEx

/-- `NPend m` and "outside a conflict region", decided -/
def quietb (m : M) : Bool := m.modeInfo == [] && m.handledPair == m.currentPair && !isMergeConflict m.st

theorem npend_of_quietb {m : M} (h : quietb m = true) : NPend m ∧ isMergeConflict m.st = false := by
  unfold quietb at h
  simp only [Bool.and_eq_true, beq_iff_eq, Bool.not_eq_true'] at h
  exact ⟨⟨h.1.1, h.1.2⟩, h.2⟩

/-- number of file-header rows a line adds to the machine reached after `ls` -/
def added (cfg : Cfg) (ls : List L) (l : L) : Option (Bool × Nat) :=
  match runFrom cfg {} ls with
  | .ok m =>
    match step cfg m l with
    | .ok m' => some (quietb m, (fileTL m').length - (fileTL m).length)
    | .error _ => none
  | .error _ => none

/-- a combined-diff section, up to a line inside its first hunk -/
def ccHead : List L :=
  ["diff --cc x.txt", "index 1111111,2222222..3333333", "--- a/x.txt", "+++ b/x.txt", "@@@ -1,3 -1,3 +1,4 @@@", "  a", "- b"].map mkL
/-- a plain `diff -u` section, up to a line inside its first hunk -/
def plainHead : List L := ["--- old/x.txt\t2026-09-28", "+++ new/x.txt\t2026-09-29", "@@ -1,3 +1,3 @@", " a", "-b"].map mkL
/-- a mode-only section of a git diff: its header is still owed -/
def modeOnly : List L := ["diff --git a/run.sh b/run.sh", "old mode 100644", "new mode 100755"].map mkL

/-- the hypotheses hold in the middle of a combined hunk, of a plain hunk, in a commit block and at the start; such lines
(hunk lines, an `@@@` line, a commit line, text) add no file-header row — also under `--color-only` and a raw file style -/
theorem met :
    added {} ccHead (mkL " +c") = some (true, 0) ∧ notNamingb (mkL " +c") = true ∧
    added {} ccHead (mkL "@@@ -9,2 -9,2 +10,2 @@@") = some (true, 0) ∧ notNamingb (mkL "@@@ -9,2 -9,2 +10,2 @@@") = true ∧
    added {} ccHead (mkC "commit 1234567") = some (true, 0) ∧ notNamingb (mkC "commit 1234567") = true ∧
    added {} plainHead (mkL "+B") = some (true, 0) ∧
    added { colorOnly := true } [] (mkL " +c") = some (true, 0) ∧
    added { fileStyle := { isRaw := true, deco := .box } } ccHead (mkL "text") = some (true, 0) ∧
    added {} [] (mkL "hello") = some (true, 0) := by decide +kernel

/-- `NPend` is needed: after a mode-only section the header is owed, and a commit line (not a header-naming line) writes it -/
theorem npend_needed :
    added {} modeOnly (mkC "commit 1234567") = some (false, 1) ∧ notNamingb (mkC "commit 1234567") = true := by decide +kernel

/-- the line hypothesis is needed: with nothing owed, a `Submodule ` line, a `+++ ` line in a header state, and under
`--color-only` a `--- ` line, each write a file-header row of their own -/
theorem line_hypothesis_needed :
    added {} [] (mkL "Submodule sub 1111111..2222222:") = some (true, 1) ∧
    notNamingb (mkL "Submodule sub 1111111..2222222:") = false ∧
    added {} (["diff --git a/x b/x", "--- a/x", "+++ b/x", "diff --git a/y b/y"].map mkL) (mkL "+++ b/z") = some (false, 1) ∧
    added { colorOnly := true } [] (mkL "--- a/x") = some (true, 1) ∧
    notNamingb (mkL "--- a/x") = false := by decide +kernel

end Machine.NoPendingEx
