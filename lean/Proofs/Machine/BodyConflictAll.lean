import Proofs.Machine.BodyConflict
/-!
Hunk-line rows and conflict buffers for ARBITRARY input (any number of conflict regions, terminated
or not): what one input line can do to them.

`bufs m` = the three conflict buffers. Every handler except `handle_hunk_line` and
`handle_merge_conflict_line` leaves the hunk-line rows of the timeline and the buffers alone (`GV`);
`handle_hunk_line` adds one row for the current line; `handle_merge_conflict_line` buffers the
current line, or paints the buffers. Hence (`step_srcs`): the rows a step adds carry the index of the
current line or of a buffered line, and a buffered line carries the index of the line it came from.
Consequences: every hunk-line row of the output and every buffered line carries the index of an
earlier line (`Below`), and once the buffers are empty nothing with an index below the current line
is ever shown again (`runFrom_above`). With them `run_conflict_region_counts_all`: the counts of a
region (ancestor lines twice, our / their lines once, markers never) for inputs with any number of
regions before and after.
-/
set_option linter.unusedSimpArgs false
set_option linter.unusedVariables false
namespace Machine.Conflict
open Machine Headers Generated

/-- the conflict buffers -/
def bufs (m : M) : List HLine × List HLine × List HLine := (m.mcOurs, m.mcAnc, m.mcTheirs)

@[simp] theorem bufs_emit (m : M) : bufs (emit m) = bufs m := rfl
@[simp] theorem bufs_flushMP (m : M) : bufs (flushMP m) = bufs m := by unfold flushMP; split <;> rfl
@[simp] theorem bufs_direct (m : M) (rows : List Row) : bufs (direct m rows) = bufs m := by
  unfold direct; split <;> rfl
@[simp] theorem bufs_writeGeneric (cfg : Cfg) (m : M) (t r : Str) : bufs (writeGeneric cfg m t r) = bufs m := by
  unfold writeGeneric; split
  · rfl
  · show bufs (direct m _) = bufs m
    simp
@[simp] theorem bufs_handleHeaderLine (cfg : Cfg) (m : M) (c : Bool) : bufs (handleHeaderLine cfg m c) = bufs m := by
  unfold handleHeaderLine; simp
@[simp] theorem bufs_emitLineUnchanged (m : M) (l : L) : bufs (emitLineUnchanged m l) = bufs m := by
  unfold emitLineUnchanged; simp

/-- `x` shows the same hunk-line rows as `m`, is at the same input line and has the same conflict buffers -/
structure GV (m x : M) : Prop where
  bv : BV m x
  b : bufs x = bufs m

theorem GV.refl (m : M) : GV m m := ⟨BV.refl m, rfl⟩

theorem GV.upd {m x x' : M} (h : GV m x) (ht : timeline x' = timeline x) (hn : x'.n = x.n) (hb : bufs x' = bufs x) :
    GV m x' := ⟨h.bv.of_tl ht hn, hb.trans h.b⟩

theorem GV.emit {m x : M} (h : GV m x) : GV m (emit x) := ⟨h.bv.emit, by simp [h.b]⟩
theorem GV.flushMP {m x : M} (h : GV m x) : GV m (flushMP x) := ⟨h.bv.flushMP, by simp [h.b]⟩
theorem GV.direct {m x : M} (h : GV m x) {rows : List Row} (hr : ∀ r ∈ rows, isBody r.kind = false) :
    GV m (direct x rows) := ⟨h.bv.direct hr, by simp [h.b]⟩
theorem GV.writeGeneric {m x : M} (h : GV m x) (cfg : Cfg) (t r : Str) : GV m (writeGeneric cfg x t r) :=
  ⟨h.bv.writeGeneric cfg t r, by simp [h.b]⟩
theorem GV.handleHeaderLine {m x : M} (h : GV m x) (cfg : Cfg) (c : Bool) : GV m (handleHeaderLine cfg x c) :=
  ⟨h.bv.handleHeaderLine cfg c, by simp [h.b]⟩
theorem GV.emitLineUnchanged {m x : M} (h : GV m x) (l : L) : GV m (emitLineUnchanged x l) :=
  ⟨h.bv.emitLineUnchanged l, by simp [h.b]⟩

theorem GV.pendingDiffName {m x : M} (h : GV m x) (cfg : Cfg) : GV m (pendingDiffName cfg x) := by
  unfold Machine.pendingDiffName
  split
  · exact h
  · split
    · exact (h.emit.writeGeneric cfg _ _).upd rfl rfl rfl
    · split
      · exact h
      · split
        · exact (h.emit.handleHeaderLine cfg _).upd rfl rfl rfl
        · exact h

theorem GV.shouldWriteGeneric {m x : M} (h : GV m x) (cfg : Cfg) (l : L) : GV m (shouldWriteGeneric cfg x l).2 := by
  unfold Machine.shouldWriteGeneric
  split
  · exact h.flushMP.emit.writeGeneric cfg _ _
  · exact h

theorem GV.plusLineFinish {m x : M} (h : GV m x) (cfg : Cfg) (l : L) : GV m (plusLineFinish cfg x l).2 := by
  unfold Machine.plusLineFinish
  split
  · exact h.shouldWriteGeneric cfg l
  · split
    · exact (h.emit.handleHeaderLine cfg _).upd rfl rfl rfl
    · exact h

theorem GV.fileOpUpdate {m x : M} (h : GV m x) (ev : FileEvent) (nm : Str) : GV m (fileOpUpdate x ev nm) := by
  unfold Machine.fileOpUpdate
  split
  · exact h.upd rfl rfl rfl
  · exact h.upd rfl rfl rfl
  · exact h

-- the sixteen handlers that touch neither ------------------------------------------------------

theorem handleCommitMeta_gv {cfg : Cfg} {m m' : M} {l : L} {b : Bool}
    (e : handleCommitMeta cfg m l = .ok (b, m')) : GV m m' := by
  unfold handleCommitMeta at e
  have c : GV m { pendingDiffName cfg (flushMP m) with st := State.commitMeta } :=
    ((GV.refl m).flushMP.pendingDiffName cfg).upd rfl rfl rfl
  split at e
  · cases e; exact GV.refl m
  · split at e
    · split at e
      · cases e; exact c.emit
      · cases e; exact c.emit.direct (drawRows_nonbody _ _ _ _ _ rfl)
    · cases e; exact c

theorem handleDiffHeaderDiff_gv {cfg : Cfg} {m m' : M} {l : L} {b : Bool}
    (e : handleDiffHeaderDiff cfg m l = .ok (b, m')) : GV m m' := by
  unfold handleDiffHeaderDiff at e
  have c1 : GV m { flushMP m with st := diffLineState l } := (GV.refl m).flushMP.upd rfl rfl rfl
  have c3 : GV m (diffLineFields (pendingDiffName cfg { flushMP m with st := diffLineState l }) l) :=
    (c1.pendingDiffName cfg).upd rfl rfl rfl
  split at e
  · cases e; exact GV.refl m
  · split at e
    · cases e; exact c3
    · cases e; exact c3.emitLineUnchanged l

theorem handleFileOperation_gv {cfg : Cfg} {m m' : M} {l : L} {b : Bool}
    (e : handleFileOperation cfg m l = .ok (b, m')) : GV m m' := by
  unfold handleFileOperation at e
  split at e
  · cases e; exact GV.refl m
  · simp only [Except.ok.injEq] at e
    obtain rfl : m' = _ := (congrArg Prod.snd e).symm
    have c := (GV.refl m).fileOpUpdate (parseDiffHeaderLine l.text (decide (m.source = Source.gitDiff))).2
      ((repeatedFilePath m.diffLine m.diffLineG).getD [])
    unfold fileOpFinish
    split
    · exact c.shouldWriteGeneric cfg l
    · exact c

theorem handleMinusLine_gv {cfg : Cfg} {m m' : M} {l : L} {b : Bool}
    (e : handleMinusLine cfg m l = .ok (b, m')) : GV m m' := by
  unfold handleMinusLine at e
  split at e
  · cases e; exact GV.refl m
  · simp only [Except.ok.injEq] at e
    obtain rfl : m' = _ := (congrArg Prod.snd e).symm
    have key : ∀ x : M, timeline x = timeline m → x.n = m.n → bufs x = bufs m →
        GV m (shouldWriteGeneric cfg (flushMP x) l).2 :=
      fun x ht hn hb => (((GV.refl m).upd ht hn hb).flushMP).shouldWriteGeneric cfg l
    exact key _ rfl rfl rfl

theorem handlePlusLine_gv {cfg : Cfg} {m m' : M} {l : L} {b : Bool}
    (e : handlePlusLine cfg m l = .ok (b, m')) : GV m m' := by
  unfold handlePlusLine at e
  split at e
  · cases e; exact GV.refl m
  · simp only [Except.ok.injEq] at e
    obtain rfl : m' = _ := (congrArg Prod.snd e).symm
    have key : ∀ x : M, timeline x = timeline m → x.n = m.n → bufs x = bufs m →
        GV m (plusLineFinish cfg (flushMP x) l).2 :=
      fun x ht hn hb => (((GV.refl m).upd ht hn hb).flushMP).plusLineFinish cfg l
    exact key _ rfl rfl rfl

theorem handleHunkHeader_gv {cfg : Cfg} {m m' : M} {l : L} {b : Bool}
    (e : handleHunkHeader cfg m l = .ok (b, m')) : GV m m' := by
  unfold handleHunkHeader at e
  split at e
  · cases e; exact GV.refl m
  · split at e
    · cases e; exact GV.refl m
    · cases e; exact (GV.refl m).upd rfl rfl rfl

theorem handleModeLine_gv {cfg : Cfg} {m m' : M} {l : L} {b : Bool}
    (e : handleModeLine cfg m l = .ok (b, m')) : GV m m' := by
  unfold handleModeLine at e
  split at e
  · split at e <;> (cases e; exact (GV.refl m).upd rfl rfl rfl)
  · split at e
    · split at e <;> (cases e; exact (GV.refl m).upd rfl rfl rfl)
    · cases e; exact GV.refl m

theorem handleAdditionalCases_gv_from {cfg : Cfg} {m0 m m' : M} {l : L} {b : Bool} {to : State} (c0 : GV m0 m)
    (e : handleAdditionalCases cfg m l to = .ok (b, m')) : GV m0 m' := by
  unfold handleAdditionalCases at e
  have c : GV m0 { flushMP m with st := to } := c0.flushMP.upd rfl rfl rfl
  split at e
  · cases e; exact c.emit.writeGeneric cfg _ _
  · cases e; exact c

theorem handleAdditionalCases_gv {cfg : Cfg} {m m' : M} {l : L} {b : Bool} {to : State}
    (e : handleAdditionalCases cfg m l to = .ok (b, m')) : GV m m' :=
  handleAdditionalCases_gv_from (GV.refl m) e

theorem handleMisc_gv {cfg : Cfg} {m m' : M} {l : L} {b : Bool}
    (e : handleMisc cfg m l = .ok (b, m')) : GV m m' := by
  unfold handleMisc at e
  simp only at e
  split at e
  · cases e; exact GV.refl m
  · split at e
    · split at e
      · cases e; exact ((GV.refl m).emitLineUnchanged l).upd rfl rfl rfl
      · cases e; exact (GV.refl m).upd rfl rfl rfl
    · exact handleAdditionalCases_gv e

theorem handleSubmoduleLog_gv {cfg : Cfg} {m m' : M} {l : L} {b : Bool}
    (e : handleSubmoduleLog cfg m l = .ok (b, m')) : GV m m' := by
  unfold handleSubmoduleLog at e
  split at e
  · cases e; exact GV.refl m
  · exact handleAdditionalCases_gv_from ((GV.refl m).flushMP.pendingDiffName cfg) e

theorem handleSubmoduleShort_gv {cfg : Cfg} {m m' : M} {l : L} {b : Bool}
    (e : handleSubmoduleShort cfg m l = .ok (b, m')) : GV m m' := by
  unfold handleSubmoduleShort at e
  split at e
  · cases e; exact GV.refl m
  · split at e
    · cases e; exact GV.refl m
    · split at e
      · cases e; exact (GV.refl m).upd rfl rfl rfl
      · cases e
        refine (GV.refl m).flushMP.emit.direct ?_
        intro r hr; simp at hr; subst hr; rfl
      · cases e; exact GV.refl m

theorem handleBlame_gv {cfg : Cfg} {m m' : M} {l : L} {b : Bool}
    (e : handleBlame cfg m l = .ok (b, m')) : GV m m' := by
  unfold handleBlame at e
  simp only at e
  split at e
  · cases e
    refine ((GV.refl m).emit.direct ?_).upd rfl rfl rfl
    intro r hr; simp at hr; subst hr; rfl
  · cases e; exact (GV.refl m).emit

theorem handleGrep_gv {cfg : Cfg} {m m' : M} {l : L} {b : Bool}
    (e : handleGrep cfg m l = .ok (b, m')) : GV m m' := by
  unfold handleGrep at e
  simp only at e
  split at e
  · split at e
    · cases e; exact (GV.refl m).emit
    · cases e
      refine ((GV.refl m).emit.direct ?_).upd rfl rfl rfl
      intro r hr; simp at hr; subst hr; rfl
  · cases e; exact (GV.refl m).emit

-- hunk lines and conflict lines -------------------------------------------------------------------

def bufSrcs (m : M) : List Nat := (m.mcOurs ++ m.mcAnc ++ m.mcTheirs).map (·.src)

/-- what one handler / one input line does: the new hunk-line rows carry the index of the current
line or of a buffered line; a buffered line was buffered before or is the current line -/
structure HF (m m' : M) : Prop where
  n : m'.n = m.n
  rows : ∃ new, bodyTL m' = bodyTL m ++ new ∧ ∀ r ∈ new, r.src = m.n ∨ r.src ∈ bufSrcs m
  kept : ∀ s ∈ bufSrcs m', s ∈ bufSrcs m ∨ s = m.n

theorem HF.of_gv {m m' : M} (h : GV m m') : HF m m' := by
  have hb := h.b
  simp only [bufs, Prod.mk.injEq] at hb
  refine ⟨h.bv.n, ⟨[], by simp [h.bv.body], by simp⟩, ?_⟩
  intro s hs
  left
  unfold bufSrcs at hs ⊢
  rw [hb.1, hb.2.1, hb.2.2] at hs
  exact hs

theorem HF.trans {a b c : M} (h1 : HF a b) (h2 : HF b c) : HF a c := by
  obtain ⟨n1, hn1, hr1⟩ := h1.rows
  obtain ⟨n2, hn2, hr2⟩ := h2.rows
  refine ⟨h2.n.trans h1.n, ⟨n1 ++ n2, by rw [hn2, hn1, List.append_assoc], ?_⟩, ?_⟩
  · intro r hr
    rcases List.mem_append.mp hr with h | h
    · exact hr1 r h
    · rcases hr2 r h with h' | h'
      · left; rw [h', h1.n]
      · rcases h1.kept _ h' with h'' | h''
        · right; exact h''
        · left; exact h''
  · intro s hs
    rcases h2.kept s hs with h | h
    · exact h1.kept s h
    · right; rw [h, h1.n]

theorem hunkLinePre_bufs {cfg : Cfg} {m m' : M} (e : hunkLinePre cfg m = .ok m') : bufs m' = bufs m := by
  unfold hunkLinePre at e
  simp only at e
  have h1 : bufs (if m.minus.length > cfg.bufSize ∨ m.plus.length > cfg.bufSize then flushMP m else m) = bufs m := by
    split <;> simp
  split at e
  · unfold emitHunkHeader at e
    split at e
    · cases e
    · cases e; simp [h1]
  · cases e; exact h1

theorem hunkLinePush_bufs {cfg : Cfg} {m m' : M} {l : L} (e : hunkLinePush cfg m l = .ok m') : bufs m' = bufs m := by
  unfold hunkLinePush at e
  cases hn : newLineState m.st l with
  | error err => simp [hn] at e
  | ok o =>
    cases o with
    | none => simp only [hn] at e; cases e; show bufs (flushMP m) = _; simp
    | some p =>
      obtain ⟨k, dt⟩ := p
      cases hp : nParents dt with
      | error err => cases k <;> simp [hn, hp] at e
      | ok n =>
        cases k with
        | minus =>
          simp only [hn, hp] at e
          cases e
          show bufs (if isHunkPlus m.st then flushMP m else m) = _
          split <;> simp
        | plus => simp only [hn, hp] at e; cases e; rfl
        | zero => simp only [hn, hp] at e; cases e; show bufs (flushMP m) = _; simp

theorem handleHunkLine_hf {cfg : Cfg} {m m' : M} {l : L} {b : Bool} (g : Good m)
    (e : handleHunkLine cfg m l = .ok (b, m')) : HF m m' := by
  cases hh : isHunkState m.st
  · unfold handleHunkLine at e
    simp only [hh, Bool.not_false, if_true] at e
    cases e; exact HF.of_gv (GV.refl m)
  · obtain ⟨_, hn, _, r, hr, hsrc, _⟩ := handleHunkLine_body hh g e
    have hb : bufs m' = bufs m := by
      unfold handleHunkLine at e
      simp only [hh, Bool.not_true, Bool.false_eq_true, if_false] at e
      split at e
      · cases e
      · rename_i m2 e2
        split at e
        · cases e
        · rename_i m3 e3
          cases e
          simp [hunkLinePush_bufs e3, hunkLinePre_bufs e2]
    simp only [bufs, Prod.mk.injEq] at hb
    refine ⟨hn, ⟨[r], hr, by intro x hx; simp at hx; subst hx; left; exact hsrc⟩, ?_⟩
    intro s hs
    left
    unfold bufSrcs at hs ⊢
    rw [hb.1, hb.2.1, hb.2.2] at hs
    exact hs

theorem storeLine_hf {cfg : Cfg} {m m' : M} {l : L} {c : MCCommit} {mp : MergeParents} {k : RowKind}
    (e : storeLine cfg m l c mp k = .ok m') : HF m m' := by
  unfold storeLine at e
  split at e
  · cases e
  · simp only at e
    split at e <;> cases e
    all_goals
      refine ⟨rfl, ⟨[], by simp [bodyTL, timeline], by simp⟩, ?_⟩
      intro s hs
      simp only [bufSrcs, List.map_append, List.mem_append, List.map_cons, List.map_nil, List.mem_singleton] at hs ⊢
      grind

/-- the hunk-line rows `paint_buffered_merge_conflict_lines` adds are rows of buffered lines -/
theorem paint_hf {cfg : Cfg} {m : M} {mp : MergeParents} (hm : m.minus = []) (hp : m.plus = []) :
    HF m (paintMergeConflict cfg m mp) := by
  refine ⟨by simp [paintMergeConflict, mcPaintOne], ?_, by simp [paintMergeConflict, mcPaintOne, bufSrcs]⟩
  refine ⟨((m.mcAnc ++ m.mcOurs ++ m.mcAnc ++ m.mcTheirs).map HLine.row).filter (fun r => isBody r.kind), ?_, ?_⟩
  · unfold bodyTL
    simp only [paintMergeConflict, mcPaintOne, timeline, hm, hp, direct_out, emit_out, emit_buf, direct_buf,
      direct_minus, direct_plus, emit_minus, emit_plus, direct_mcAnc, emit_mcAnc, direct_mcOurs, emit_mcOurs,
      direct_mcTheirs, emit_mcTheirs, List.map_nil, List.append_nil, List.filter_append, List.map_append, mcHeaderRows]
    simp [isBody, List.append_assoc]
  · intro r hr
    right
    have hr' := (List.mem_filter.mp hr).1
    obtain ⟨x, hx, rfl⟩ := List.mem_map.mp hr'
    unfold bufSrcs
    simp only [List.mem_append] at hx
    simp only [List.map_append, List.mem_append, List.mem_map]
    rcases hx with ((hx | hx) | hx) | hx
    · left; right; exact ⟨x, hx, rfl⟩
    · left; left; exact ⟨x, hx, rfl⟩
    · left; right; exact ⟨x, hx, rfl⟩
    · right; exact ⟨x, hx, rfl⟩

theorem HF.upd {m x x' : M} (h : HF m x) (ht : timeline x' = timeline x) (hn : x'.n = x.n) (hb : bufs x' = bufs x) :
    HF m x' := by
  simp only [bufs, Prod.mk.injEq] at hb
  obtain ⟨new, h1, h2⟩ := h.rows
  refine ⟨hn.trans h.n, ⟨new, by rw [bodyTL_congr ht, h1], h2⟩, ?_⟩
  intro s hs
  apply h.kept
  unfold bufSrcs at hs ⊢
  rw [hb.1, hb.2.1, hb.2.2] at hs
  exact hs

theorem handleMergeConflict_hf {cfg : Cfg} {m m' : M} {l : L} {b : Bool} (g : Good m)
    (e : handleMergeConflict cfg m l = .ok (b, m')) : HF m m' := by
  have hq : ∀ mp c, m.st = .mergeConflict mp c → m.minus = [] ∧ m.plus = [] :=
    fun mp c hst => g.quiet (by rw [hst]; rfl)
  have hexit : ∀ mp x, exitMergeConflict cfg m l mp = some x → (∃ c, m.st = .mergeConflict mp c) → HF m x := by
    intro mp x hx ⟨c, hc⟩
    unfold exitMergeConflict at hx
    simp only [Option.map_eq_some_iff] at hx
    obtain ⟨nm, _, rfl⟩ := hx
    obtain ⟨h1, h2⟩ := hq mp c hc
    have := paint_hf (cfg := cfg) (m := { m with mcNameTheirs := some nm }) (mp := mp) h1 h2
    exact ⟨this.n, this.rows, this.kept⟩
  have hanc : ∀ mp x, enterAncestral m l mp = some x → HF m x := by
    intro mp x hx
    unfold enterAncestral at hx
    simp only [Option.map_eq_some_iff] at hx
    obtain ⟨_, _, rfl⟩ := hx
    exact (HF.of_gv (GV.refl m)).upd rfl rfl rfl
  have hthe : ∀ mp x, enterTheirs m l mp = some x → HF m x := by
    intro mp x hx
    unfold enterTheirs at hx
    split at hx
    · cases hx; exact (HF.of_gv (GV.refl m)).upd rfl rfl rfl
    · cases hx
  unfold handleMergeConflict at e
  split at e
  · cases e; exact HF.of_gv (GV.refl m)
  · split at e
    · split at e
      · split at e
        · cases e
        · rename_i m1 e1
          cases e
          obtain ⟨hb1, hn1, _, ho1, ha1, ht1⟩ := mcPendingHeader_spec e1
          refine ⟨by simp [hn1], ⟨[], ?_, by simp⟩, ?_⟩
          · simp only [List.append_nil]
            exact (bodyTL_congr (y := flushMP m1) rfl).trans ((bodyTL_flushMP m1).trans hb1)
          · intro s hs
            left
            simpa [bufSrcs, ho1, ha1, ht1] using hs
      · cases e; exact HF.of_gv (GV.refl m)
    · split at e
      · rename_i mp hst
        unfold storeOr at e
        split at e
        · rename_i x hx
          cases e
          rcases orElse_some hx with h1 | h2
          · exact hanc mp _ h1
          · rcases orElse_some h2 with h3 | h4
            · exact hthe mp _ h3
            · exact hexit mp _ h4 ⟨_, hst⟩
        · split at e
          · cases e
          · rename_i x hx; cases e; exact storeLine_hf hx
      · rename_i mp hst
        unfold storeOr at e
        split at e
        · rename_i x hx
          cases e
          rcases orElse_some hx with h3 | h4
          · exact hthe mp _ h3
          · exact hexit mp _ h4 ⟨_, hst⟩
        · split at e
          · cases e
          · rename_i x hx; cases e; exact storeLine_hf hx
      · rename_i mp hst
        unfold storeOr at e
        split at e
        · rename_i x hx
          cases e
          exact hexit mp _ hx ⟨_, hst⟩
        · split at e
          · cases e
          · rename_i x hx; cases e; exact storeLine_hf hx
      · cases e; exact HF.of_gv (GV.refl m)

theorem handlerOf_hf {name : String} {hd : Handler} (hn : handlerOf name = some hd)
    {cfg : Cfg} {m m' : M} {l : L} {b : Bool} (g : Good m) (e : hd cfg m l = .ok (b, m')) : HF m m' := by
  unfold handlerOf at hn
  split at hn <;> first
    | (cases hn
       first
         | exact HF.of_gv (handleCommitMeta_gv e)
         | (unfold handleDiffStat at e; cases e; exact HF.of_gv (GV.refl m))
         | exact HF.of_gv (handleDiffHeaderDiff_gv e) | exact HF.of_gv (handleFileOperation_gv e)
         | exact HF.of_gv (handleMinusLine_gv e) | exact HF.of_gv (handlePlusLine_gv e)
         | exact HF.of_gv (handleHunkHeader_gv e) | exact HF.of_gv (handleModeLine_gv e)
         | exact HF.of_gv (handleMisc_gv e) | exact HF.of_gv (handleSubmoduleLog_gv e)
         | exact HF.of_gv (handleSubmoduleShort_gv e) | exact handleMergeConflict_hf g e
         | exact handleHunkLine_hf g e
         | (unfold handleGitShowFile at e; cases e; exact HF.of_gv (GV.refl m).emit)
         | exact HF.of_gv (handleBlame_gv e) | exact HF.of_gv (handleGrep_gv e)
         | (unfold handleShouldSkip at e; cases e; exact HF.of_gv (GV.refl m))
         | (unfold handleEmitUnchanged at e; cases e; exact HF.of_gv ((GV.refl m).emitLineUnchanged l)))
    | cases hn

theorem chain_hf {cfg : Cfg} {l : L} : ∀ (names : List String) {m m' : M},
    chain cfg l names m = .ok m' → Good m → HF m m'
  | [], m, m', e, g => by simp only [chain] at e; cases e; exact HF.of_gv (GV.refl m)
  | name :: rest, m, m', e, g => by
    simp only [chain] at e
    split at e
    · cases e
    · rename_i hd hn
      split at e
      · cases e
      · rename_i m1 e1
        cases e; exact handlerOf_hf hn g e1
      · rename_i m1 e1
        exact (handlerOf_hf hn g e1).trans (chain_hf rest e (handlerOf_step hn e1 g).good)

/-- **one input line, any input**: the hunk-line rows it adds carry its own index or that of a line
buffered in a conflict region; what is buffered afterwards was buffered before or is this line -/
theorem step_srcs {cfg : Cfg} {m m' : M} {l : L} (g : Good m) (e : step cfg m l = .ok m') :
    m'.n = m.n + 1 ∧ (∃ new, bodyTL m' = bodyTL m ++ new ∧ ∀ r ∈ new, r.src = m.n ∨ r.src ∈ bufSrcs m) ∧
      ∀ s ∈ bufSrcs m', s ∈ bufSrcs m ∨ s = m.n := by
  unfold step at e
  split at e
  · cases e
  · rename_i m2 e2
    cases e
    obtain ⟨htl, hn0, _⟩ := stepInit_body m l
    have g0 := (stepInit_stepS l g).good
    have hb0 : bufSrcs (stepInit m l) = bufSrcs m := by
      unfold stepInit armCounter bufSrcs
      repeat' split
      all_goals rfl
    have h := chain_hf _ e2 g0
    obtain ⟨new, h1, h2⟩ := h.rows
    refine ⟨by show m2.n + 1 = m.n + 1; rw [h.n, hn0], ⟨new, ?_, ?_⟩, ?_⟩
    · show bodyTL m2 = _
      rw [h1, bodyTL_congr htl]
    · intro r hr; rw [← hn0, ← hb0]; exact h2 r hr
    · intro s hs
      have : s ∈ bufSrcs m2 := hs
      rw [← hn0, ← hb0]; exact h.kept s this

/-- every hunk-line row and every buffered conflict line carries the index of an earlier input line -/
structure Below (m : M) : Prop where
  rows : ∀ r ∈ bodyTL m, r.src < m.n
  bufs : ∀ s ∈ bufSrcs m, s < m.n

theorem Below.step {cfg : Cfg} {m m' : M} {l : L} (h : Below m) (g : Good m) (e : step cfg m l = .ok m') : Below m' := by
  obtain ⟨hn, ⟨new, h1, h2⟩, h3⟩ := step_srcs g e
  constructor
  · intro r hr
    rw [h1] at hr
    rcases List.mem_append.mp hr with h' | h'
    · have := h.rows r h'; omega
    · rcases h2 r h' with h'' | h''
      · omega
      · have := h.bufs _ h''; omega
  · intro s hs
    rcases h3 s hs with h' | h'
    · have := h.bufs s h'; omega
    · omega

theorem runFrom_below {cfg : Cfg} : ∀ (ls : List L) {m m' : M}, runFrom cfg m ls = .ok m' → Good m → Below m → Below m'
  | [], m, m', e, _, h => by simp only [runFrom] at e; cases e; exact h
  | l :: ls, m, m', e, g, h => by
    simp only [runFrom] at e
    split at e
    · cases e
    · rename_i m1 e1
      exact runFrom_below ls e (step_spec e1 g).1 (h.step g e1)

theorem below_init : Below ({} : M) := ⟨by simp [bodyTL, timeline], by simp [bufSrcs]⟩

/-- from a machine whose buffered lines all have an index ≥ `K` (e.g. empty buffers) at input line
≥ `K`: everything shown from now on carries an index ≥ `K` -/
theorem runFrom_above {cfg : Cfg} (K : Nat) : ∀ (ls : List L) {m m' : M}, runFrom cfg m ls = .ok m' → Good m →
    K ≤ m.n → (∀ s ∈ bufSrcs m, K ≤ s) → ∃ more, bodyTL m' = bodyTL m ++ more ∧ ∀ r ∈ more, K ≤ r.src
  | [], m, m', e, _, _, _ => by simp only [runFrom] at e; cases e; exact ⟨[], by simp, by simp⟩
  | l :: ls, m, m', e, g, hK, hb => by
    simp only [runFrom] at e
    split at e
    · cases e
    · rename_i m1 e1
      obtain ⟨hn, ⟨new, h1, h2⟩, h3⟩ := step_srcs g e1
      have hb1 : ∀ s ∈ bufSrcs m1, K ≤ s := by
        intro s hs
        rcases h3 s hs with h' | h'
        · exact hb s h'
        · omega
      obtain ⟨more, hm, hge⟩ := runFrom_above K ls e (step_spec e1 g).1 (by omega) hb1
      refine ⟨new ++ more, by rw [hm, h1, List.append_assoc], ?_⟩
      intro r hr
      rcases List.mem_append.mp hr with h' | h'
      · rcases h2 r h' with h'' | h''
        · omega
        · exact hb _ h''
      · exact hge r h'

/-- **`run_conflict_region_only` without the restriction to one region**: `pre` and `post` arbitrary -/
theorem run_conflict_region_all {cfg : Cfg} {pre post : List L} {r : Region} {mi m : M} {mp : MergeParents} {n : Nat}
    (hcfg : McOn cfg) (ei : runFrom cfg {} pre = .ok mi) (hsrc : mi.source = .gitDiff)
    (hst : hunkCombinedParents mi.st = some mp) (hn : nParents (.combined mp true) = .ok n)
    (hempty : mi.mcOurs = [] ∧ mi.mcAnc = [] ∧ mi.mcTheirs = []) (hwf : r.wf = true)
    (e : run cfg (pre ++ (r.lines ++ post)) = .ok m) :
    ∃ before after, m.out.filter (fun x => isBody x.kind) = before ++ regionRows cfg n pre.length r ++ after ∧
      (∀ x ∈ before, x.src < pre.length) ∧ (∀ x ∈ after, pre.length + r.lines.length ≤ x.src) := by
  have hout := (run_spec e).2
  unfold run at e
  split at e
  · cases e
  · rename_i m1 e1
    rw [runFrom_append, ei] at e1
    obtain ⟨m2, e2, e3⟩ := runFrom_append_ok e1
    obtain ⟨gi, _, _, hni⟩ := runFrom_spec pre ei good_init
    have hni : mi.n = pre.length := by simpa using hni
    have hbel := runFrom_below pre ei good_init below_init
    obtain ⟨hb2, hst2, g2, hn2, _, ho2, ha2, ht2⟩ := runFrom_region hcfg gi hsrc hst hn hempty hwf e2
    obtain ⟨more, hmore, hge⟩ := runFrom_above (pre.length + r.lines.length) post e3 g2 (by omega)
      (by simp [bufSrcs, ho2, ha2, ht2])
    have hfin : bodyTL m = bodyTL m1 := tailOps_body _ e
    refine ⟨bodyTL mi, more, ?_, ?_, hge⟩
    · rw [← hout]
      show bodyTL m = _
      rw [hfin, hmore, hb2, hni]
    · intro x hx
      have := hbel.rows x hx
      omega

/-- **Counts, any number of regions.** An input index inside a well-formed region that starts with
empty conflict buffers is the `src` of exactly two hunk-line rows of the output if it is an ancestor
line, of exactly one if it is one of our / their lines, of none if it is a marker line — whatever
precedes and follows the region. -/
theorem run_conflict_region_counts_all {cfg : Cfg} {pre post : List L} {r : Region} {mi m : M} {mp : MergeParents}
    {n : Nat} (hcfg : McOn cfg) (ei : runFrom cfg {} pre = .ok mi) (hsrc : mi.source = .gitDiff)
    (hst : hunkCombinedParents mi.st = some mp) (hn : nParents (.combined mp true) = .ok n)
    (hempty : mi.mcOurs = [] ∧ mi.mcAnc = [] ∧ mi.mcTheirs = []) (hwf : r.wf = true)
    (e : run cfg (pre ++ (r.lines ++ post)) = .ok m) (j : Nat) (hj1 : pre.length ≤ j)
    (hj2 : j < pre.length + r.lines.length) :
    ((m.out.filter (fun x => isBody x.kind)).map (·.src)).count j =
      (if pre.length + 1 + r.ours.length + 1 ≤ j ∧ j < pre.length + 1 + r.ours.length + 1 + r.ancLines.length then 2
       else if pre.length + 1 ≤ j ∧ j < pre.length + 1 + r.ours.length then 1
       else if pre.length + 1 + r.ours.length + r.ancPart.length + 1 ≤ j ∧
          j < pre.length + 1 + r.ours.length + r.ancPart.length + 1 + r.theirs.length then 1
       else 0) := by
  obtain ⟨before, after, hrows, hbef, haft⟩ := run_conflict_region_all hcfg ei hsrc hst hn hempty hwf e
  rw [hrows]
  simp only [List.map_append, List.count_append, regionRows_srcs, count_range']
  have c1 : (before.map (·.src)).count j = 0 := by
    rw [List.count_eq_zero]
    intro hmem
    obtain ⟨x, hx, hxj⟩ := List.mem_map.mp hmem
    have := hbef x hx
    omega
  have c2 : (after.map (·.src)).count j = 0 := by
    rw [List.count_eq_zero]
    intro hmem
    obtain ⟨x, hx, hxj⟩ := List.mem_map.mp hmem
    have := haft x hx
    omega
  rw [c1, c2]
  have hap : r.ancPart.length = r.ancLines.length ∨ r.ancPart.length = r.ancLines.length + 1 := by
    unfold Region.ancPart Region.ancLines
    cases r.anc with
    | none => left; rfl
    | some p => right; simp
  have hap1 : r.ancLines.length > 0 → r.ancPart.length = r.ancLines.length + 1 := by
    unfold Region.ancPart Region.ancLines
    cases r.anc with
    | none => simp
    | some p => simp
  split <;> split <;> split <;> simp <;> omega

/-- **every hunk-line row of the output shows a line of the input** (any input, any configuration):
its `src` is the index of an input line -/
theorem run_rows_below {cfg : Cfg} {ls : List L} {m : M} (e : run cfg ls = .ok m) :
    ∀ r ∈ m.out.filter (fun x => isBody x.kind), r.src < ls.length := by
  have hout := (run_spec e).2
  unfold run at e
  split at e
  · cases e
  · rename_i m1 e1
    have hbel := runFrom_below ls e1 good_init below_init
    have hn1 : m1.n = ls.length := by
      have := (runFrom_spec ls e1 good_init).2.2.2
      simpa using this
    have hfin : bodyTL m = bodyTL m1 := tailOps_body _ e
    intro r hr
    rw [← hout] at hr
    have hr' : r ∈ bodyTL m := hr
    rw [hfin] at hr'
    have := hbel.rows r hr'
    omega

end Machine.Conflict
