import Proofs.Machine.BodyText
/-!
Whole-run text of a hunk line of a combined diff (C01), `n` parents, outside conflict regions:
the one row that shows the line has the kind its `n` prefix columns say (the first `-` or `+` among
them decides; all blank = unchanged; anything else, e.g. `\ No newline at end of file`, is shown as
it is) and the text = the prefix columns (delta always keeps them in a combined diff, whatever
`keep-plus-minus-markers` says: `painted_prefix`) followed by the rest of the line with tabs
expanded — whatever precedes and follows the line.
-/
set_option linter.unusedSimpArgs false
set_option linter.unusedVariables false
namespace Machine
open Headers

/-- kind of a combined-diff hunk line from its prefix columns: the first `-` or `+` decides, all
blank means unchanged, anything else is not a hunk line proper -/
def combinedLineKind (pre : Str) : Option LineKind :=
  match pre.find? (fun ch => ch = '-' ∨ ch = '+') with
  | some '-' => some .minus
  | some '+' => some .plus
  | some _ => none
  | none => if pre.all (· = ' ') then some .zero else none

/-- the row that shows line `l` (input index `idx`) of a combined hunk with `n` parents -/
def expectedRowCombined (cfg : Cfg) (n : Nat) (l : L) (idx : Nat) : Row :=
  match combinedLineKind (bytePrefix n l.text) with
  | some .minus => { kind := .minus, text := bytePrefix n l.text ++ prepare cfg (prefixBytes (bytePrefix n l.text)) l, src := idx }
  | some .plus => { kind := .plus, text := bytePrefix n l.text ++ prepare cfg (prefixBytes (bytePrefix n l.text)) l, src := idx }
  | some .zero => { kind := .zero, text := bytePrefix n l.text ++ prepare cfg (prefixBytes (bytePrefix n l.text)) l, src := idx }
  | none => { kind := .other, text := Text.expand cfg.tab l.raw, src := idx }

theorem find_dash_plus {pre : Str} {ch : Char} (h : pre.find? (fun ch => decide (ch = '-' ∨ ch = '+')) = some ch) :
    ch = '-' ∨ ch = '+' := by
  have := List.find?_some h
  simpa using this

theorem classifyCombined_eq (n : Nat) (c : Bool) (l : L) :
    classifyCombined n c l =
      (combinedLineKind (bytePrefix n l.text)).map (fun k => (k, .combined (.pre (bytePrefix n l.text)) c)) := by
  unfold classifyCombined combinedLineKind
  simp only
  cases hf : (bytePrefix n l.text).find? (fun ch => decide (ch = '-' ∨ ch = '+')) with
  | some ch =>
    rcases find_dash_plus hf with h | h <;> subst h <;> simp
  | none =>
    cases hall : (bytePrefix n l.text).all (fun x => decide (x = ' '))
    · simp only [Bool.false_eq_true, if_false, Option.map_none]
    · simp only [if_true, Option.map_some]

theorem expectedRowCombined_body (cfg : Cfg) (n : Nat) (l : L) (idx : Nat) :
    isBody (expectedRowCombined cfg n l idx).kind = true := by
  unfold expectedRowCombined; split <;> rfl

theorem expectedRowCombined_src (cfg : Cfg) (n : Nat) (l : L) (idx : Nat) :
    (expectedRowCombined cfg n l idx).src = idx := by
  unfold expectedRowCombined; split <;> rfl

/-- in a combined hunk state outside a conflict region the row pushed for a line is `expectedRowCombined` -/
theorem hunkLinePush_combined {cfg : Cfg} {m m' : M} {l : L} {n : Nat}
    (hdt : hunkDiffType m.st = some (.combined (.number n) false))
    (e : hunkLinePush cfg m l = .ok m') (hplus : isHunkPlus m.st = false → m.plus = []) :
    timeline m' = timeline m ++ [expectedRowCombined cfg n l m.n] := by
  have hn : newLineState m.st l = .ok (classifyCombined n false l) := by unfold newLineState; rw [hdt]
  unfold hunkLinePush at e
  rw [hn, classifyCombined_eq] at e
  cases hk : combinedLineKind (bytePrefix n l.text) with
  | none =>
    simp only [hk, Option.map_none] at e
    cases e
    have hrow : expectedRowCombined cfg n l m.n = { kind := .other, text := Text.expand cfg.tab l.raw, src := m.n } := by
      unfold expectedRowCombined; simp [hk]
    rw [hrow, timeline_of_flushed m]; simp [timeline]
  | some k =>
    cases k with
    | minus =>
      simp only [hk, Option.map_some, nParents] at e
      have hrow : expectedRowCombined cfg n l m.n =
          HLine.row { kind := .minus, pre := paintedPrefix cfg .minus (.combined (.pre (bytePrefix n l.text)) false),
                      text := prepare cfg (prefixBytes (bytePrefix n l.text)) l, src := m.n } := by
        unfold expectedRowCombined HLine.row paintedPrefix; simp [hk]
      cases e
      cases hpl : isHunkPlus m.st
      · have hp0 := hplus hpl
        simp only [Bool.false_eq_true, if_false]
        rw [hrow]; simp [timeline, hp0]
      · simp only [if_true]
        rw [hrow, timeline_of_flushed m]; simp [timeline]
    | plus =>
      simp only [hk, Option.map_some, nParents] at e
      have hrow : expectedRowCombined cfg n l m.n =
          HLine.row { kind := .plus, pre := paintedPrefix cfg .plus (.combined (.pre (bytePrefix n l.text)) false),
                      text := prepare cfg (prefixBytes (bytePrefix n l.text)) l, src := m.n } := by
        unfold expectedRowCombined HLine.row paintedPrefix; simp [hk]
      cases e
      rw [hrow]; simp [timeline]
    | zero =>
      simp only [hk, Option.map_some, nParents] at e
      have hrow : expectedRowCombined cfg n l m.n =
          { kind := .zero, text := paintedPrefix cfg .zero (.combined (.pre (bytePrefix n l.text)) false) ++
              prepare cfg (prefixBytes (bytePrefix n l.text)) l, src := m.n } := by
        unfold expectedRowCombined paintedPrefix; simp [hk]
      cases e
      rw [hrow, timeline_of_flushed m]; simp [timeline]

theorem hunkState_of_diffType {s : State} {dt : DiffType} (h : hunkDiffType s = some dt) : isHunkState s = true := by
  cases s <;> simp_all [hunkDiffType, isHunkState]

/-- `handle_hunk_line` in a combined hunk state (outside conflict regions): the body rows grow by
`expectedRowCombined` -/
theorem handleHunkLine_combined {cfg : Cfg} {m m' : M} {l : L} {b : Bool} {n : Nat}
    (hdt : hunkDiffType m.st = some (.combined (.number n) false))
    (g : Good m) (e : handleHunkLine cfg m l = .ok (b, m')) :
    bodyTL m' = bodyTL m ++ [expectedRowCombined cfg n l m.n] := by
  have hs' := hunkState_of_diffType hdt
  unfold handleHunkLine at e
  split at e
  · rename_i hst; simp [hs'] at hst
  · split at e
    · cases e
    · rename_i m2 e2
      split at e
      · cases e
      · rename_i m3 e3
        cases e
        obtain ⟨r2, hst2, hhdr, _, _⟩ := hunkLinePre_spec e2 g
        obtain ⟨pre, htl2, hkinds⟩ := hunkLinePre_rows e2
        have hplus : isHunkPlus m2.st = false → m2.plus = [] := by
          intro hnp
          rw [hst2] at hnp
          rcases isHunkState_cases hs' with h | ⟨dt, h⟩ | ⟨dt, h⟩ | ⟨dt, h⟩
          · exact (hhdr h).2
          · have := (g.quiet (by rw [h]; rfl)).2
            rcases r2.shrink.2 with s | s <;> simp [s, this]
          · have := g.noPlus (by rw [h]; rfl)
            rcases r2.shrink.2 with s | s <;> simp [s, this]
          · rw [h] at hnp; simp [isHunkPlus] at hnp
        have htl3 := hunkLinePush_combined (by rw [hst2]; exact hdt) e3 hplus
        have hpre : pre.filter (fun r => isBody r.kind) = [] := by
          refine filter_nonbody ?_
          intro x hx
          obtain ⟨h1, h2, h3, h4⟩ := hkinds x hx
          cases hk : x.kind <;> simp_all [isBody]
        unfold bodyTL
        rw [timeline_emit, htl3, htl2, r2.ext.n]
        simp [List.filter_append, hpre, expectedRowCombined_body]

/-- **The row of a hunk line of a combined diff.** In a git diff, in a hunk of a combined diff with
`n` parents (outside conflict regions), a line that can belong to a hunk body (empty, or first column
blank / `+` / `-` / `\`; not a commit line, not a 40-hex `Subproject commit` line) is shown by exactly
one row of delta's output, and that row is `expectedRowCombined`: kind by the `n` prefix columns,
text = the prefix columns followed by the rest of the line with tabs expanded — whatever precedes
and follows it (no line of the input opening a merge-conflict region), for every configuration. -/
theorem run_combined_line_row {cfg : Cfg} {pre post : List L} {l : L} {mi m : M} {n : Nat}
    (hmc : ∀ x ∈ pre ++ l :: post, startsWith x.text Generated.Markers.mcBegin = false)
    (ei : runFrom cfg {} pre = .ok mi) (hsrc : mi.source = .gitDiff)
    (hdt : hunkDiffType mi.st = some (.combined (.number n) false)) (hb : HunkBody l)
    (hsub : l.submodule = none) (e : run cfg (pre ++ l :: post) = .ok m) :
    (m.out.filter (fun r => isBody r.kind)).filter (fun r => r.src = pre.length) =
      [expectedRowCombined cfg n l pre.length] := by
  have hst := hunkState_of_diffType hdt
  have hout := (run_spec e).2
  unfold run at e
  split at e
  · cases e
  · rename_i m1 e1
    rw [runFrom_append, ei] at e1
    simp only [runFrom] at e1
    split at e1
    · cases e1
    · rename_i m2 e2
      have hmc_pre : ∀ x ∈ pre, startsWith x.text Generated.Markers.mcBegin = false :=
        fun x hx => hmc x (List.mem_append_left _ hx)
      have hmc_l : startsWith l.text Generated.Markers.mcBegin = false :=
        hmc l (List.mem_append_right _ (List.mem_cons_self ..))
      have hmc_post : ∀ x ∈ post, startsWith x.text Generated.Markers.mcBegin = false :=
        fun x hx => hmc x (List.mem_append_right _ (List.mem_cons_of_mem _ hx))
      have h0 : Inc ({} : M) := ⟨by simp [bodySrcs, bodyTL, timeline], by simp [bodySrcs, bodyTL, timeline]⟩
      obtain ⟨hinc, hnomc, gi⟩ := runFrom_inc pre ei hmc_pre rfl good_init h0
      have hni : mi.n = pre.length := by
        have := (runFrom_spec pre ei good_init).2.2.2
        simpa using this
      have hstep : ∃ b m2', handleHunkLine cfg mi l = .ok (b, m2') ∧ m2 = { m2' with n := m2'.n + 1 } := by
        unfold step at e2
        have hinit : stepInit mi l = mi := by unfold stepInit; simp [hsrc]
        rw [hinit, hunk_body_chain cfg mi l (by rw [hsrc]; decide) hst hb hsub hmc_l] at e2
        cases hh : handleHunkLine cfg mi l with
        | error err => simp [hh] at e2
        | ok p =>
          obtain ⟨b, m2'⟩ := p
          simp only [hh] at e2
          cases e2
          exact ⟨b, m2', rfl, rfl⟩
      obtain ⟨b, m2', hh, hm2⟩ := hstep
      have hbody := handleHunkLine_combined hdt gi hh
      obtain ⟨_, hn2, hnomc2, _⟩ := handleHunkLine_body hst gi hh
      have g2 := (step_spec e2 gi).1
      have hb2 : bodyTL m2 = bodyTL mi ++ [expectedRowCombined cfg n l pre.length] := by
        subst hm2
        show bodyTL m2' = _
        rw [hbody, hni]
      have hnomc2' : isMergeConflict m2.st = false := by subst hm2; exact hnomc2
      have hn2' : m2.n = pre.length + 1 := by subst hm2; show m2'.n + 1 = _; rw [hn2, hni]
      obtain ⟨more, hm, hge⟩ := runFrom_body_ext_rows post e1 hmc_post hnomc2' g2
      have hfin : bodyTL m = bodyTL m1 := tailOps_body _ e
      have hrows : m.out.filter (fun r => isBody r.kind) =
          bodyTL mi ++ [expectedRowCombined cfg n l pre.length] ++ more := by
        rw [← hout]
        show bodyTL m = _
        rw [hfin, hm, hb2]
      rw [hrows, List.filter_append, List.filter_append]
      have c1 : (bodyTL mi).filter (fun r => r.src = pre.length) = [] := by
        rw [List.filter_eq_nil_iff]
        intro r hr
        have : r.src ∈ bodySrcs mi := List.mem_map_of_mem hr
        have := hinc.below _ this
        simp; omega
      have c3 : more.filter (fun r => r.src = pre.length) = [] := by
        rw [List.filter_eq_nil_iff]
        intro r hr
        have := hge r hr
        simp; omega
      rw [c1, c3]
      simp [expectedRowCombined_src]

-- what the text is for ASCII prefix columns (the only case git produces) -------------------

private theorem utf8Size_ascii {c : Char} (h : c.toNat < 128) : c.utf8Size = 1 := by
  unfold Char.utf8Size
  have : c.val.toNat < 128 := h
  have h1 : c.val ≤ 127 := by
    rw [UInt32.le_iff_toNat_le]; simp; omega
  simp [h1]

theorem bytePrefix_ascii : ∀ (n : Nat) (s : Str), (s.take n).all (fun c => c.toNat < 128) = true →
    bytePrefix n s = s.take n ∧ prefixBytes (s.take n) = (s.take n).length
  | 0, s, _ => by simp [bytePrefix, prefixBytes]
  | n + 1, [], _ => by simp [bytePrefix, prefixBytes]
  | n + 1, c :: cs, h => by
    simp only [List.take_succ_cons, List.all_cons, Bool.and_eq_true, decide_eq_true_eq] at h
    obtain ⟨ih1, ih2⟩ := bytePrefix_ascii n cs h.2
    have hc := utf8Size_ascii h.1
    constructor
    · simp only [bytePrefix, hc, List.take_succ_cons]
      simp [ih1]
    · simp only [List.take_succ_cons, List.length_cons]
      unfold prefixBytes at ih2 ⊢
      simp only [List.foldl_cons, hc]
      have key : ∀ (xs : Str) (a : Nat), List.foldl (fun a c => a + c.utf8Size) a xs =
          a + List.foldl (fun a c => a + c.utf8Size) 0 xs := by
        intro xs
        induction xs with
        | nil => simp
        | cons x xs ih => intro a; simp only [List.foldl_cons]; rw [ih (a + x.utf8Size), ih (0 + x.utf8Size)]; omega
      rw [key, ih2]; omega

def LineKind.rowKind : LineKind → RowKind
  | .minus => .minus
  | .plus => .plus
  | .zero => .zero

/-- **`prepare_text`, combined.** For a line whose `n` prefix columns are ASCII (the only case git
produces) the text of `expectedRowCombined` for a `-` / `+` / blank line is the line itself with
the tabs after the prefix columns expanded: prefix columns ++ expand (line minus prefix columns). -/
theorem expectedRowCombined_text {cfg : Cfg} {n : Nat} {l : L} {idx : Nat} {k : LineKind} (hne : l.text ≠ [])
    (hascii : (l.text.take n).all (fun c => c.toNat < 128) = true)
    (hk : combinedLineKind (l.text.take n) = some k) :
    expectedRowCombined cfg n l idx =
      { kind := k.rowKind, text := l.text.take n ++ Text.expand cfg.tab (l.text.drop n), src := idx } := by
  obtain ⟨h1, h2⟩ := bytePrefix_ascii n l.text hascii
  have aux : ∀ k', k' ≤ l.text.length → (l.text.take k').all (fun c => c.toNat < 128) = true →
      prepare cfg k' l = Text.expand cfg.tab (l.text.drop k') := by
    intro k' h1 h2; unfold prepare; simp [hne, h1, h2]
  have hlen : (l.text.take n).length ≤ l.text.length := List.length_take_le' n l.text
  have htt : l.text.take (l.text.take n).length = l.text.take n := by
    rw [List.length_take]
    by_cases hle : n ≤ l.text.length
    · rw [Nat.min_eq_left hle]
    · have hle' : l.text.length ≤ n := by omega
      rw [Nat.min_eq_right hle', List.take_of_length_le (Nat.le_refl _), List.take_of_length_le hle']
  have hdd : l.text.drop (l.text.take n).length = l.text.drop n := by
    rw [List.length_take]
    by_cases hle : n ≤ l.text.length
    · rw [Nat.min_eq_left hle]
    · have hle' : l.text.length ≤ n := by omega
      rw [Nat.min_eq_right hle', List.drop_of_length_le (Nat.le_refl _), List.drop_of_length_le hle']
  have hp : prepare cfg (l.text.take n).length l = Text.expand cfg.tab (l.text.drop n) := by
    rw [aux _ hlen (by rw [htt]; exact hascii), hdd]
  unfold expectedRowCombined
  rw [h1, h2, hp]
  cases k <;> simp [hk, LineKind.rowKind]

end Machine
