import Proofs.Machine.Claims
/-!
Whole-run statement of C01 for the rows that show hunk lines.

`bodyTL m`: the rows of kind minus / plus / zero / other on the timeline, in display order. Every
handler except `handle_hunk_line` leaves `bodyTL` unchanged (whatever else it writes: headers,
decorations, raw lines); `handle_hunk_line` appends exactly one row, stamped with the index of
the current input line. Hence over a whole run the indices of the body rows are strictly
increasing: each hunk line is shown at most once and the rows are in input order
(`run_body_rows_increasing`); and a line met in a hunk state of a git diff has exactly one such
row in the output (`run_hunk_line_exactly_once`). Merge-conflict regions display ancestor lines
twice by design and are excluded (hypothesis: no line opens a conflict region).
-/
set_option linter.unusedSimpArgs false
set_option linter.unusedVariables false
namespace Machine
open Headers

def isBody : RowKind → Bool
  | .minus | .plus | .zero | .other => true
  | _ => false

def bodyTL (m : M) : List Row := (timeline m).filter (fun r => isBody r.kind)

theorem bodyTL_congr {x y : M} (h : timeline x = timeline y) : bodyTL x = bodyTL y := by
  unfold bodyTL; rw [h]

theorem bodyTL_emit (m : M) : bodyTL (emit m) = bodyTL m := bodyTL_congr (timeline_emit m)
theorem bodyTL_flushMP (m : M) : bodyTL (flushMP m) = bodyTL m := bodyTL_congr (timeline_flushMP m)

theorem filter_nonbody {rows : List Row} (h : ∀ r ∈ rows, isBody r.kind = false) :
    rows.filter (fun r => isBody r.kind) = [] := by
  rw [List.filter_eq_nil_iff]
  intro r hr; simp [h r hr]

theorem bodyTL_direct (m : M) {rows : List Row} (h : ∀ r ∈ rows, isBody r.kind = false) :
    bodyTL (direct m rows) = bodyTL m := by
  unfold direct
  split
  · rfl
  · simp [bodyTL, timeline, List.filter_append, filter_nonbody h]

theorem drawRows_nonbody (st : ElemStyle) {k : RowKind} (t r a : Str) (src : Nat) (hk : isBody k = false) :
    ∀ row ∈ drawRows st k t r a src, isBody row.kind = false := by
  intro row hrow
  unfold drawRows at hrow
  cases hd : st.deco <;> cases hraw : st.isRaw <;> simp [hd, hraw] at hrow
  all_goals first
    | (rcases hrow with h | h | h <;> subst h <;> first | exact hk | rfl)
    | (rcases hrow with h | h <;> subst h <;> first | exact hk | rfl)
    | (subst hrow; first | exact hk | rfl)

/-- `x` shows the same hunk-line rows as `m` and is at the same input line -/
structure BV (m x : M) : Prop where
  body : bodyTL x = bodyTL m
  n : x.n = m.n

theorem BV.refl (m : M) : BV m m := ⟨rfl, rfl⟩

theorem BV.of_tl {m x x' : M} (h : BV m x) (ht : timeline x' = timeline x) (hn : x'.n = x.n) : BV m x' :=
  ⟨(bodyTL_congr ht).trans h.body, hn.trans h.n⟩

theorem BV.emit {m x : M} (h : BV m x) : BV m (emit x) := h.of_tl (timeline_emit x) rfl
theorem BV.flushMP {m x : M} (h : BV m x) : BV m (flushMP x) := h.of_tl (timeline_flushMP x) (flushMP_n x)

theorem BV.direct {m x : M} (h : BV m x) {rows : List Row} (hr : ∀ r ∈ rows, isBody r.kind = false) :
    BV m (direct x rows) :=
  ⟨(bodyTL_direct x hr).trans h.body, (direct_n x rows).trans h.n⟩

theorem BV.writeGeneric {m x : M} (h : BV m x) (cfg : Cfg) (t r : Str) : BV m (writeGeneric cfg x t r) := by
  unfold Machine.writeGeneric
  split
  · exact h.of_tl rfl rfl
  · refine (h.direct (rows := _) ?_).of_tl rfl rfl
    intro row hrow
    rcases List.mem_append.mp hrow with h1 | h1
    · split at h1
      · cases h1
      · simp at h1; subst h1; rfl
    · exact drawRows_nonbody _ _ _ _ _ rfl row h1

theorem BV.handleHeaderLine {m x : M} (h : BV m x) (cfg : Cfg) (c : Bool) : BV m (handleHeaderLine cfg x c) := by
  unfold Machine.handleHeaderLine; exact h.writeGeneric cfg _ _

theorem BV.emitLineUnchanged {m x : M} (h : BV m x) (l : L) : BV m (emitLineUnchanged x l) := by
  unfold Machine.emitLineUnchanged
  refine h.flushMP.emit.direct ?_
  intro r hr; simp at hr; subst hr; rfl

theorem pendingDiffName_st (cfg : Cfg) (m : M) : (pendingDiffName cfg m).st = m.st := by
  unfold pendingDiffName
  split
  · rfl
  · split
    · simp
    · split
      · rfl
      · split
        · simp
        · rfl

theorem BV.pendingDiffName {m x : M} (h : BV m x) (cfg : Cfg) : BV m (pendingDiffName cfg x) := by
  unfold Machine.pendingDiffName
  split
  · exact h
  · split
    · exact (h.emit.writeGeneric cfg _ _).of_tl rfl rfl
    · split
      · exact h
      · split
        · exact (h.emit.handleHeaderLine cfg _).of_tl rfl rfl
        · exact h

/-- what one handler does to the hunk-line rows -/
structure BS (m m' : M) (b : Bool) : Prop where
  n : m'.n = m.n
  nomc : isMergeConflict m'.st = false
  body : bodyTL m' = bodyTL m ∨ (b = true ∧ ∃ r, bodyTL m' = bodyTL m ++ [r] ∧ r.src = m.n ∧ isBody r.kind = true)

theorem BS.of_bv {m m' : M} {b : Bool} (h : BV m m') (hs : isMergeConflict m'.st = false) : BS m m' b :=
  ⟨h.n, hs, Or.inl h.body⟩

-- handlers ------------------------------------------------------------------

theorem BS.pass {m : M} {b : Bool} (hs : isMergeConflict m.st = false) : BS m m b := BS.of_bv (BV.refl m) hs

theorem handleCommitMeta_bs {cfg : Cfg} {m m' : M} {l : L} {b : Bool} (hs : isMergeConflict m.st = false)
    (e : handleCommitMeta cfg m l = .ok (b, m')) : BS m m' b := by
  unfold handleCommitMeta at e
  have c : BV m { pendingDiffName cfg (flushMP m) with st := State.commitMeta } :=
    ((BV.refl m).flushMP.pendingDiffName cfg).of_tl rfl rfl
  split at e
  · cases e; exact BS.pass hs
  · split at e
    · split at e
      · cases e; exact BS.of_bv c.emit rfl
      · cases e
        refine BS.of_bv (c.emit.direct (drawRows_nonbody _ _ _ _ _ rfl)) ?_
        rw [direct_st]; rfl
    · cases e; exact BS.of_bv c rfl

theorem handleDiffStat_bs {cfg : Cfg} {m m' : M} {l : L} {b : Bool} (hs : isMergeConflict m.st = false)
    (e : handleDiffStat cfg m l = .ok (b, m')) : BS m m' b := by
  unfold handleDiffStat at e; cases e; exact BS.pass hs

theorem diffLineState_nomc (l : L) : isMergeConflict (diffLineState l) = false := by
  unfold diffLineState; split <;> rfl

theorem handleDiffHeaderDiff_bs {cfg : Cfg} {m m' : M} {l : L} {b : Bool} (hs : isMergeConflict m.st = false)
    (e : handleDiffHeaderDiff cfg m l = .ok (b, m')) : BS m m' b := by
  unfold handleDiffHeaderDiff at e
  have c1 : BV m { flushMP m with st := diffLineState l } := (BV.refl m).flushMP.of_tl rfl rfl
  have c3 : BV m (diffLineFields (pendingDiffName cfg { flushMP m with st := diffLineState l }) l) :=
    (c1.pendingDiffName cfg).of_tl rfl rfl
  have hst : (diffLineFields (pendingDiffName cfg { flushMP m with st := diffLineState l }) l).st = diffLineState l :=
    pendingDiffName_st cfg _
  split at e
  · cases e; exact BS.pass hs
  · split at e
    · cases e; exact BS.of_bv c3 (by rw [hst]; exact diffLineState_nomc l)
    · cases e
      exact BS.of_bv (c3.emitLineUnchanged l) (by rw [emitLineUnchanged_st, hst]; exact diffLineState_nomc l)

theorem shouldWriteGeneric_bv (cfg : Cfg) {m x : M} (l : L) (h : BV m x) :
    BV m (shouldWriteGeneric cfg x l).2 ∧ (shouldWriteGeneric cfg x l).2.st = x.st := by
  unfold shouldWriteGeneric
  split
  · exact ⟨h.flushMP.emit.writeGeneric cfg _ _, by simp⟩
  · exact ⟨h, rfl⟩

theorem fileOpUpdate_bv {m x : M} (ev : FileEvent) (nm : Str) (h : BV m x) :
    BV m (fileOpUpdate x ev nm) ∧ (fileOpUpdate x ev nm).st = x.st := by
  unfold fileOpUpdate
  split <;> exact ⟨h.of_tl rfl rfl, rfl⟩

theorem handleFileOperation_bs {cfg : Cfg} {m m' : M} {l : L} {b : Bool} (hs : isMergeConflict m.st = false)
    (e : handleFileOperation cfg m l = .ok (b, m')) : BS m m' b := by
  unfold handleFileOperation at e
  split at e
  · cases e; exact BS.pass hs
  · simp only [Except.ok.injEq] at e
    obtain rfl : m' = _ := (congrArg Prod.snd e).symm
    obtain ⟨c, hst⟩ := fileOpUpdate_bv (m := m) (parseDiffHeaderLine l.text (decide (m.source = Source.gitDiff))).2
      ((repeatedFilePath m.diffLine m.diffLineG).getD []) (BV.refl m)
    unfold fileOpFinish
    split
    · obtain ⟨c2, hst2⟩ := shouldWriteGeneric_bv cfg l c
      exact BS.of_bv c2 (by rw [hst2, hst]; exact hs)
    · exact BS.of_bv c (by rw [hst]; exact hs)

theorem handleMinusLine_bs {cfg : Cfg} {m m' : M} {l : L} {b : Bool} (hs : isMergeConflict m.st = false)
    (e : handleMinusLine cfg m l = .ok (b, m')) : BS m m' b := by
  unfold handleMinusLine at e
  split at e
  · cases e; exact BS.pass hs
  · simp only [Except.ok.injEq] at e
    obtain rfl : m' = _ := (congrArg Prod.snd e).symm
    have key : ∀ x : M, timeline x = timeline m → x.n = m.n → isMergeConflict x.st = false →
        BS m (shouldWriteGeneric cfg (flushMP x) l).2 b := by
      intro x ht hn hx
      obtain ⟨c2, hst2⟩ := shouldWriteGeneric_bv cfg l (BV.flushMP ((BV.refl m).of_tl ht hn))
      exact BS.of_bv c2 (by rw [hst2, flushMP_st]; exact hx)
    refine key _ rfl rfl ?_
    dsimp only
    split
    · rfl
    · exact hs

theorem plusLineFinish_bv (cfg : Cfg) {m x : M} (l : L) (h : BV m x) :
    BV m (plusLineFinish cfg x l).2 ∧ (plusLineFinish cfg x l).2.st = x.st := by
  unfold plusLineFinish
  split
  · exact shouldWriteGeneric_bv cfg l h
  · split
    · exact ⟨(h.emit.handleHeaderLine cfg _).of_tl rfl rfl, by simp⟩
    · exact ⟨h, rfl⟩

theorem handlePlusLine_bs {cfg : Cfg} {m m' : M} {l : L} {b : Bool} (hs : isMergeConflict m.st = false)
    (e : handlePlusLine cfg m l = .ok (b, m')) : BS m m' b := by
  unfold handlePlusLine at e
  split at e
  · cases e; exact BS.pass hs
  · simp only [Except.ok.injEq] at e
    obtain rfl : m' = _ := (congrArg Prod.snd e).symm
    have key : ∀ x : M, timeline x = timeline m → x.n = m.n → isMergeConflict x.st = false →
        BS m (plusLineFinish cfg (flushMP x) l).2 b := by
      intro x ht hn hx
      obtain ⟨c2, hst2⟩ := plusLineFinish_bv cfg l (BV.flushMP ((BV.refl m).of_tl ht hn))
      exact BS.of_bv c2 (by rw [hst2, flushMP_st]; exact hx)
    exact key _ rfl rfl hs

theorem handleHunkHeader_bs {cfg : Cfg} {m m' : M} {l : L} {b : Bool} (hs : isMergeConflict m.st = false)
    (e : handleHunkHeader cfg m l = .ok (b, m')) : BS m m' b := by
  unfold handleHunkHeader at e
  split at e
  · cases e; exact BS.pass hs
  · split at e
    · cases e; exact BS.pass hs
    · cases e; exact BS.of_bv ((BV.refl m).of_tl rfl rfl) rfl

theorem handleModeLine_bs {cfg : Cfg} {m m' : M} {l : L} {b : Bool} (hs : isMergeConflict m.st = false)
    (e : handleModeLine cfg m l = .ok (b, m')) : BS m m' b := by
  unfold handleModeLine at e
  split at e
  · split at e <;> (cases e; exact BS.of_bv ((BV.refl m).of_tl rfl rfl) rfl)
  · split at e
    · split at e <;> (cases e; exact BS.of_bv ((BV.refl m).of_tl rfl rfl) rfl)
    · cases e; exact BS.pass hs

/-- `handle_additional_cases` run on a machine `m` that came from `m0` without touching the hunk-line rows -/
theorem handleAdditionalCases_bs_from {cfg : Cfg} {m0 m m' : M} {l : L} {b : Bool} {to : State} (c0 : BV m0 m)
    (hto : isMergeConflict to = false) (e : handleAdditionalCases cfg m l to = .ok (b, m')) : BS m0 m' b := by
  unfold handleAdditionalCases at e
  have c : BV m0 { flushMP m with st := to } := c0.flushMP.of_tl rfl rfl
  split at e
  · cases e; exact BS.of_bv (c.emit.writeGeneric cfg _ _) (by simpa using hto)
  · cases e; exact BS.of_bv c hto

theorem handleAdditionalCases_bs {cfg : Cfg} {m m' : M} {l : L} {b : Bool} {to : State}
    (hto : isMergeConflict to = false) (e : handleAdditionalCases cfg m l to = .ok (b, m')) : BS m m' b :=
  handleAdditionalCases_bs_from (BV.refl m) hto e

theorem handleMisc_bs {cfg : Cfg} {m m' : M} {l : L} {b : Bool} (hs : isMergeConflict m.st = false)
    (e : handleMisc cfg m l = .ok (b, m')) : BS m m' b := by
  unfold handleMisc at e
  simp only at e
  split at e
  · cases e; exact BS.pass hs
  · split at e
    · split at e
      · cases e
        exact BS.of_bv (((BV.refl m).emitLineUnchanged l).of_tl rfl rfl) (by
          show isMergeConflict (emitLineUnchanged m l).st = false
          rw [emitLineUnchanged_st]; exact hs)
      · cases e; exact BS.of_bv ((BV.refl m).of_tl rfl rfl) hs
    · refine handleAdditionalCases_bs ?_ e
      split
      · exact hs
      · rfl

theorem handleSubmoduleLog_bs {cfg : Cfg} {m m' : M} {l : L} {b : Bool} (hs : isMergeConflict m.st = false)
    (e : handleSubmoduleLog cfg m l = .ok (b, m')) : BS m m' b := by
  unfold handleSubmoduleLog at e
  split at e
  · cases e; exact BS.pass hs
  · exact handleAdditionalCases_bs_from ((BV.refl m).flushMP.pendingDiffName cfg) rfl e

theorem handleSubmoduleShort_bs {cfg : Cfg} {m m' : M} {l : L} {b : Bool} (hs : isMergeConflict m.st = false)
    (e : handleSubmoduleShort cfg m l = .ok (b, m')) : BS m m' b := by
  unfold handleSubmoduleShort at e
  split at e
  · cases e; exact BS.pass hs
  · split at e
    · cases e; exact BS.pass hs
    · split at e
      · cases e; exact BS.of_bv ((BV.refl m).of_tl rfl rfl) rfl
      · cases e
        refine BS.of_bv ((BV.refl m).flushMP.emit.direct ?_) (by rw [direct_st, emit_st, flushMP_st]; exact hs)
        intro r hr; simp at hr; subst hr; rfl
      · cases e; exact BS.pass hs

/-- with no line opening a conflict region, the merge-conflict handler never claims a line -/
theorem handleMergeConflict_bs {cfg : Cfg} {m m' : M} {l : L} {b : Bool} (hs : isMergeConflict m.st = false)
    (hmc : startsWith l.text Generated.Markers.mcBegin = false)
    (e : handleMergeConflict cfg m l = .ok (b, m')) : BS m m' b := by
  unfold handleMergeConflict at e
  split at e
  · cases e; exact BS.pass hs
  · split at e
    · have : parseMergeMarker l.text Generated.Markers.mcBegin = none := by
        unfold parseMergeMarker stripPrefix; simp [hmc]
      simp only [this] at e
      cases e; exact BS.pass hs
    · split at e <;> first
        | (rename_i hst; rw [hst] at hs; simp [isMergeConflict] at hs)
        | (cases e; exact BS.pass hs)

theorem handleGitShowFile_bs {cfg : Cfg} {m m' : M} {l : L} {b : Bool} (hs : isMergeConflict m.st = false)
    (e : handleGitShowFile cfg m l = .ok (b, m')) : BS m m' b := by
  unfold handleGitShowFile at e; cases e; exact BS.of_bv (BV.refl m).emit hs

theorem handleBlame_bs {cfg : Cfg} {m m' : M} {l : L} {b : Bool} (hs : isMergeConflict m.st = false)
    (e : handleBlame cfg m l = .ok (b, m')) : BS m m' b := by
  unfold handleBlame at e
  simp only at e
  split at e
  · cases e
    refine BS.of_bv (((BV.refl m).emit.direct ?_).of_tl rfl rfl) rfl
    intro r hr; simp at hr; subst hr; rfl
  · cases e; exact BS.of_bv (BV.refl m).emit hs

theorem handleGrep_bs {cfg : Cfg} {m m' : M} {l : L} {b : Bool} (hs : isMergeConflict m.st = false)
    (e : handleGrep cfg m l = .ok (b, m')) : BS m m' b := by
  unfold handleGrep at e
  simp only at e
  split at e
  · split at e
    · cases e; exact BS.of_bv (BV.refl m).emit hs
    · cases e
      refine BS.of_bv (((BV.refl m).emit.direct ?_).of_tl rfl rfl) rfl
      intro r hr; simp at hr; subst hr; rfl
  · cases e; exact BS.of_bv (BV.refl m).emit hs

theorem handleShouldSkip_bs {cfg : Cfg} {m m' : M} {l : L} {b : Bool} (hs : isMergeConflict m.st = false)
    (e : handleShouldSkip cfg m l = .ok (b, m')) : BS m m' b := by
  unfold handleShouldSkip at e; cases e; exact BS.pass hs

theorem handleEmitUnchanged_bs {cfg : Cfg} {m m' : M} {l : L} {b : Bool} (hs : isMergeConflict m.st = false)
    (e : handleEmitUnchanged cfg m l = .ok (b, m')) : BS m m' b := by
  unfold handleEmitUnchanged at e; cases e
  exact BS.of_bv ((BV.refl m).emitLineUnchanged l) (by rw [emitLineUnchanged_st]; exact hs)

/-- the row pushed for a hunk line is a body row for the current input line -/
theorem hunkLinePush_body {cfg : Cfg} {m m' : M} {l : L} (e : hunkLinePush cfg m l = .ok m')
    (hplus : isHunkPlus m.st = false → m.plus = []) :
    ∃ r : Row, timeline m' = timeline m ++ [r] ∧ r.src = m.n ∧ isBody r.kind = true := by
  unfold hunkLinePush at e
  cases hn : newLineState m.st l with
  | error err => simp [hn] at e
  | ok o =>
    cases o with
    | none =>
      simp only [hn] at e
      cases e
      refine ⟨{ kind := .other, text := Text.expand cfg.tab l.raw, src := m.n }, ?_, rfl, rfl⟩
      rw [timeline_of_flushed m]; simp [timeline]
    | some p =>
      obtain ⟨k, dt⟩ := p
      cases hp : nParents dt with
      | error err => cases k <;> simp [hn, hp] at e
      | ok n =>
        cases k with
        | minus =>
          simp only [hn, hp] at e
          cases e
          cases hpl : isHunkPlus m.st
          · have hp0 := hplus hpl
            simp only [Bool.false_eq_true, if_false]
            refine ⟨HLine.row { kind := .minus, pre := paintedPrefix cfg .minus dt, text := prepare cfg n l, src := m.n },
                ?_, rfl, rfl⟩
            simp [timeline, hp0]
          · simp only [if_true]
            refine ⟨HLine.row { kind := .minus, pre := paintedPrefix cfg .minus dt, text := prepare cfg n l, src := m.n },
                ?_, rfl, rfl⟩
            rw [timeline_of_flushed m]; simp [timeline]
        | plus =>
          simp only [hn, hp] at e
          cases e
          refine ⟨HLine.row { kind := .plus, pre := paintedPrefix cfg .plus dt, text := prepare cfg n l, src := m.n },
              ?_, rfl, rfl⟩
          simp [timeline]
        | zero =>
          simp only [hn, hp] at e
          cases e
          refine ⟨{ kind := .zero, text := paintedPrefix cfg .zero dt ++ prepare cfg n l, src := m.n }, ?_, rfl, rfl⟩
          rw [timeline_of_flushed m]; simp [timeline]

/-- `handle_hunk_line` in a hunk state: claims the line and appends exactly one body row for it -/
theorem handleHunkLine_body {cfg : Cfg} {m m' : M} {l : L} {b : Bool} (hs' : isHunkState m.st = true)
    (g : Good m) (e : handleHunkLine cfg m l = .ok (b, m')) :
    b = true ∧ m'.n = m.n ∧ isMergeConflict m'.st = false ∧
      ∃ r, bodyTL m' = bodyTL m ++ [r] ∧ r.src = m.n ∧ isBody r.kind = true := by
  unfold handleHunkLine at e
  split at e
  · rename_i hst; simp [hs'] at hst
  · split at e
    · cases e
    · rename_i m2 e2
      split at e
      · cases e
      · rename_i m3 e3
        cases e
        obtain ⟨r2, hst2, hhdr, _, _⟩ := hunkLinePre_spec e2 g
        obtain ⟨pre, htl2, hkinds⟩ := hunkLinePre_rows e2
        have hplus : isHunkPlus m2.st = false → m2.plus = [] := by
          intro hnp
          rw [hst2] at hnp
          rcases isHunkState_cases hs' with h | ⟨dt, h⟩ | ⟨dt, h⟩ | ⟨dt, h⟩
          · exact (hhdr h).2
          · have := (g.quiet (by rw [h]; rfl)).2
            rcases r2.shrink.2 with s | s <;> simp [s, this]
          · have := g.noPlus (by rw [h]; rfl)
            rcases r2.shrink.2 with s | s <;> simp [s, this]
          · rw [h] at hnp; simp [isHunkPlus] at hnp
        obtain ⟨r, htl3, hsrc, hbody⟩ := hunkLinePush_body e3 hplus
        obtain ⟨_, _, hout3, hn3, _, _, hst3⟩ := hunkLinePush_spec e3 r2.order hplus
        have hpre : pre.filter (fun r => isBody r.kind) = [] := by
          refine filter_nonbody ?_
          intro x hx
          obtain ⟨h1, h2, h3, h4⟩ := hkinds x hx
          cases hk : x.kind <;> simp_all [isBody]
        refine ⟨rfl, by simp [hn3, r2.ext.n], ?_, r, ?_, by rw [hsrc, r2.ext.n], hbody⟩
        · rw [emit_st]
          cases hk : m3.st <;> simp_all [isHunkState, isMergeConflict]
        · unfold bodyTL
          rw [timeline_emit, htl3, htl2]
          simp [List.filter_append, hpre, hbody]

theorem handleHunkLine_bs {cfg : Cfg} {m m' : M} {l : L} {b : Bool} (hs : isMergeConflict m.st = false)
    (g : Good m) (e : handleHunkLine cfg m l = .ok (b, m')) : BS m m' b := by
  cases hh : isHunkState m.st
  · unfold handleHunkLine at e
    simp only [hh, Bool.not_false, if_true] at e
    cases e; exact BS.pass hs
  · obtain ⟨hb, hn, hmc, hr⟩ := handleHunkLine_body hh g e
    exact ⟨hn, hmc, Or.inr ⟨hb, hr⟩⟩

-- chain, step, run ------------------------------------------------------------

theorem handlerOf_bs {name : String} {hd : Handler} (hn : handlerOf name = some hd)
    {cfg : Cfg} {m m' : M} {l : L} {b : Bool} (hs : isMergeConflict m.st = false) (g : Good m)
    (hmc : startsWith l.text Generated.Markers.mcBegin = false)
    (e : hd cfg m l = .ok (b, m')) : BS m m' b := by
  unfold handlerOf at hn
  split at hn <;> first
    | (cases hn
       first
         | exact handleCommitMeta_bs hs e | exact handleDiffStat_bs hs e
         | exact handleDiffHeaderDiff_bs hs e | exact handleFileOperation_bs hs e
         | exact handleMinusLine_bs hs e | exact handlePlusLine_bs hs e
         | exact handleHunkHeader_bs hs e | exact handleModeLine_bs hs e
         | exact handleMisc_bs hs e | exact handleSubmoduleLog_bs hs e
         | exact handleSubmoduleShort_bs hs e | exact handleMergeConflict_bs hs hmc e
         | exact handleHunkLine_bs hs g e | exact handleGitShowFile_bs hs e
         | exact handleBlame_bs hs e | exact handleGrep_bs hs e
         | exact handleShouldSkip_bs hs e | exact handleEmitUnchanged_bs hs e)
    | cases hn

/-- the effect of one input line on the hunk-line rows: nothing, or one row for this line -/
structure BStep (m m' : M) : Prop where
  n : m'.n = m.n
  nomc : isMergeConflict m'.st = false
  body : bodyTL m' = bodyTL m ∨ ∃ r, bodyTL m' = bodyTL m ++ [r] ∧ r.src = m.n ∧ isBody r.kind = true

theorem chain_bs {cfg : Cfg} {l : L} (hmc : startsWith l.text Generated.Markers.mcBegin = false) :
    ∀ (names : List String) {m m' : M}, chain cfg l names m = .ok m' → isMergeConflict m.st = false → Good m →
    BStep m m'
  | [], m, m', e, hs, g => by simp only [chain] at e; cases e; exact ⟨rfl, hs, Or.inl rfl⟩
  | name :: rest, m, m', e, hs, g => by
    simp only [chain] at e
    split at e
    · cases e
    · rename_i hd hn
      split at e
      · cases e
      · rename_i m1 e1
        cases e
        have c := handlerOf_bs hn hs g hmc e1
        exact ⟨c.n, c.nomc, c.body.imp id (fun h => h.2)⟩
      · rename_i m1 e1
        have c := handlerOf_bs hn hs g hmc e1
        have g1 := (handlerOf_step hn e1 g).good
        have hb : bodyTL m1 = bodyTL m := by
          rcases c.body with h | ⟨hb, _⟩
          · exact h
          · cases hb
        have r := chain_bs hmc rest e c.nomc g1
        exact ⟨r.n.trans c.n, r.nomc, by rw [← hb, ← c.n]; exact r.body⟩

theorem stepInit_body (m : M) (l : L) :
    timeline (stepInit m l) = timeline m ∧ (stepInit m l).n = m.n ∧ (stepInit m l).st = m.st := by
  unfold stepInit armCounter
  repeat' split
  all_goals exact ⟨rfl, rfl, rfl⟩

theorem step_bs {cfg : Cfg} {m m' : M} {l : L} (hmc : startsWith l.text Generated.Markers.mcBegin = false)
    (hs : isMergeConflict m.st = false) (g : Good m) (e : step cfg m l = .ok m') :
    isMergeConflict m'.st = false ∧ m'.n = m.n + 1 ∧
      (bodyTL m' = bodyTL m ∨ ∃ r, bodyTL m' = bodyTL m ++ [r] ∧ r.src = m.n ∧ isBody r.kind = true) := by
  unfold step at e
  split at e
  · cases e
  · rename_i m2 e2
    cases e
    obtain ⟨htl, hn, hst⟩ := stepInit_body m l
    have g0 := (stepInit_stepS l g).good
    have c := chain_bs hmc _ e2 (by rw [hst]; exact hs) g0
    refine ⟨c.nomc, ?_, ?_⟩
    · show m2.n + 1 = m.n + 1
      rw [c.n, hn]
    · have : bodyTL m2 = bodyTL (stepInit m l) ∨
          ∃ r, bodyTL m2 = bodyTL (stepInit m l) ++ [r] ∧ r.src = (stepInit m l).n ∧ isBody r.kind = true := c.body
      rw [bodyTL_congr htl, hn] at this
      exact this

/-- the input indices of the hunk-line rows -/
def bodySrcs (m : M) : List Nat := (bodyTL m).map (·.src)

/-- invariant: the indices of the hunk-line rows are strictly increasing and below the current line -/
structure Inc (m : M) : Prop where
  sorted : (bodySrcs m).Pairwise (· < ·)
  below : ∀ s ∈ bodySrcs m, s < m.n

theorem Inc.step {m m' : M} (h : Inc m) (hn : m'.n = m.n + 1)
    (hb : bodyTL m' = bodyTL m ∨ ∃ r, bodyTL m' = bodyTL m ++ [r] ∧ r.src = m.n ∧ isBody r.kind = true) : Inc m' := by
  rcases hb with hb | ⟨r, hb, hsrc, _⟩
  · refine ⟨by unfold bodySrcs; rw [hb]; exact h.sorted, ?_⟩
    intro s hs
    unfold bodySrcs at hs; rw [hb] at hs
    have := h.below s hs
    omega
  · have hsrcs : bodySrcs m' = bodySrcs m ++ [m.n] := by unfold bodySrcs; rw [hb]; simp [hsrc]
    refine ⟨?_, ?_⟩
    · rw [hsrcs, List.pairwise_append]
      refine ⟨h.sorted, by simp, ?_⟩
      intro a ha b hb'
      simp at hb'; subst hb'
      exact h.below a ha
    · intro s hs
      rw [hsrcs] at hs
      rcases List.mem_append.mp hs with h1 | h1
      · have := h.below s h1; omega
      · simp at h1; omega

theorem runFrom_inc {cfg : Cfg} : ∀ (ls : List L) {m m' : M}, runFrom cfg m ls = .ok m' →
    (∀ l ∈ ls, startsWith l.text Generated.Markers.mcBegin = false) → isMergeConflict m.st = false → Good m → Inc m →
    Inc m' ∧ isMergeConflict m'.st = false ∧ Good m'
  | [], m, m', e, _, hs, g, h => by simp only [runFrom] at e; cases e; exact ⟨h, hs, g⟩
  | l :: ls, m, m', e, hmc, hs, g, h => by
    simp only [runFrom] at e
    split at e
    · cases e
    · rename_i m1 e1
      obtain ⟨hs1, hn1, hb1⟩ := step_bs (hmc l (List.mem_cons_self ..)) hs g e1
      exact runFrom_inc ls e (fun x hx => hmc x (List.mem_cons_of_mem _ hx)) hs1 (step_spec e1 g).1 (h.step hn1 hb1)

theorem tailOps_body {cfg : Cfg} : ∀ (ops : List String) {m m' : M}, tailOps cfg ops m = .ok m' →
    bodyTL m' = bodyTL m
  | [], m, m', e => by simp only [tailOps] at e; cases e; rfl
  | op :: rest, m, m', e => by
    simp only [tailOps] at e
    split at e
    · cases e
    · rename_i m1 e1
      have h1 : bodyTL m1 = bodyTL m := by
        unfold tailOp at e1
        split at e1
        · cases e1; exact bodyTL_flushMP m
        · cases e1; exact ((BV.refl m).pendingDiffName cfg).body
        · cases e1; exact bodyTL_emit m
        · cases e1
      exact (tailOps_body rest e).trans h1

/-- **Hunk lines are shown at most once and in input order** (whole runs, every configuration of
the model, any input that opens no merge-conflict region): the input indices of the rows of kind
minus / plus / zero / other in delta's output are strictly increasing. -/
theorem run_body_rows_increasing {cfg : Cfg} {ls : List L} {m : M}
    (hmc : ∀ l ∈ ls, startsWith l.text Generated.Markers.mcBegin = false) (e : run cfg ls = .ok m) :
    ((m.out.filter (fun r => isBody r.kind)).map (·.src)).Pairwise (· < ·) := by
  have hout := (run_spec e).2
  unfold run at e
  split at e
  · cases e
  · rename_i m1 e1
    have h0 : Inc ({} : M) := ⟨by simp [bodySrcs, bodyTL, timeline], by simp [bodySrcs, bodyTL, timeline]⟩
    obtain ⟨h1, _, _⟩ := runFrom_inc ls e1 hmc rfl good_init h0
    have hb : bodyTL m = bodyTL m1 := tailOps_body _ e
    have : (m.out.filter (fun r => isBody r.kind)).map (·.src) = bodySrcs m1 := by
      rw [← hout]; unfold bodySrcs; rw [← hb]; rfl
    rw [this]; exact h1.sorted

theorem runFrom_body_ext {cfg : Cfg} : ∀ (ls : List L) {m m' : M}, runFrom cfg m ls = .ok m' →
    (∀ l ∈ ls, startsWith l.text Generated.Markers.mcBegin = false) → isMergeConflict m.st = false → Good m →
    ∃ more, bodySrcs m' = bodySrcs m ++ more ∧ ∀ s ∈ more, m.n ≤ s
  | [], m, m', e, _, _, _ => by simp only [runFrom] at e; cases e; exact ⟨[], by simp, by simp⟩
  | l :: ls, m, m', e, hmc, hs, g => by
    simp only [runFrom] at e
    split at e
    · cases e
    · rename_i m1 e1
      obtain ⟨hs1, hn1, hb1⟩ := step_bs (hmc l (List.mem_cons_self ..)) hs g e1
      obtain ⟨more, hm, hge⟩ :=
        runFrom_body_ext ls e (fun x hx => hmc x (List.mem_cons_of_mem _ hx)) hs1 (step_spec e1 g).1
      rcases hb1 with hb | ⟨r, hb, hsrc, _⟩
      · refine ⟨more, ?_, fun s hs' => by have := hge s hs'; omega⟩
        rw [hm]; unfold bodySrcs; rw [hb]
      · refine ⟨m.n :: more, ?_, ?_⟩
        · rw [hm]; unfold bodySrcs; rw [hb]; simp [hsrc]
        · intro s hs'
          rcases List.mem_cons.mp hs' with h | h
          · omega
          · have := hge s h; omega

/-- **A hunk line is shown exactly once.** In a git diff, a line whose first column is `+`, `-` or
blank, met in a unified hunk state (and not a commit / 40-hex submodule line), has exactly one row
of kind minus / plus / zero / other in delta's output — whatever precedes and follows it (no line
of the input opening a merge-conflict region). -/
theorem run_hunk_line_exactly_once {cfg : Cfg} {pre post : List L} {l : L} {mi m : M}
    (hmc : ∀ x ∈ pre ++ l :: post, startsWith x.text Generated.Markers.mcBegin = false)
    (ei : runFrom cfg {} pre = .ok mi) (hsrc : mi.source = .gitDiff) (hst : isHunkState mi.st = true)
    (hun : hunkCombinedParents mi.st = none) (hb : firstIs l isMarker) (hc : l.commitRe = false)
    (hsub : l.submodule = none) (e : run cfg (pre ++ l :: post) = .ok m) :
    ((m.out.filter (fun r => isBody r.kind)).map (·.src)).count pre.length = 1 := by
  have hout := (run_spec e).2
  unfold run at e
  split at e
  · cases e
  · rename_i m1 e1
    rw [runFrom_append, ei] at e1
    simp only [runFrom] at e1
    split at e1
    · cases e1
    · rename_i m2 e2
      have hmc_pre : ∀ x ∈ pre, startsWith x.text Generated.Markers.mcBegin = false :=
        fun x hx => hmc x (List.mem_append_left _ hx)
      have hmc_post : ∀ x ∈ post, startsWith x.text Generated.Markers.mcBegin = false :=
        fun x hx => hmc x (List.mem_append_right _ (List.mem_cons_of_mem _ hx))
      have h0 : Inc ({} : M) := ⟨by simp [bodySrcs, bodyTL, timeline], by simp [bodySrcs, bodyTL, timeline]⟩
      obtain ⟨hinc, hnomc, gi⟩ := runFrom_inc pre ei hmc_pre rfl good_init h0
      have hni : mi.n = pre.length := by
        have := (runFrom_spec pre ei good_init).2.2.2
        simpa using this
      -- the step for `l` is exactly the hunk-line handler
      have hstep : ∃ b m2', handleHunkLine cfg mi l = .ok (b, m2') ∧ m2 = { m2' with n := m2'.n + 1 } := by
        unfold step at e2
        have hinit : stepInit mi l = mi := by unfold stepInit; simp [hsrc]
        rw [hinit, hunk_body_line_claimed cfg mi l hsrc hst hun hb hc hsub] at e2
        cases hh : handleHunkLine cfg mi l with
        | error err => simp [hh] at e2
        | ok p =>
          obtain ⟨b, m2'⟩ := p
          simp only [hh] at e2
          cases e2
          exact ⟨b, m2', rfl, rfl⟩
      obtain ⟨b, m2', hh, hm2⟩ := hstep
      obtain ⟨_, hn2, hnomc2, r, hbody, hrsrc, _⟩ := handleHunkLine_body hst gi hh
      have g2 := (step_spec e2 gi).1
      have hb2 : bodySrcs m2 = bodySrcs mi ++ [pre.length] := by
        subst hm2
        show (bodyTL m2').map (·.src) = _
        rw [hbody]; simp [bodySrcs, hrsrc, hni]
      have hnomc2' : isMergeConflict m2.st = false := by subst hm2; exact hnomc2
      have hn2' : m2.n = pre.length + 1 := by subst hm2; show m2'.n + 1 = _; rw [hn2, hni]
      obtain ⟨more, hm, hge⟩ := runFrom_body_ext post e1 hmc_post hnomc2' g2
      have hfin : bodyTL m = bodyTL m1 := tailOps_body _ e
      have hsrcs : (m.out.filter (fun r => isBody r.kind)).map (·.src) = bodySrcs mi ++ [pre.length] ++ more := by
        rw [← hout]
        show bodySrcs m = _
        have hmm : bodySrcs m = bodySrcs m1 := by unfold bodySrcs; rw [hfin]
        rw [hmm, hm, hb2]
      rw [hsrcs, List.count_append, List.count_append]
      have c1 : (bodySrcs mi).count pre.length = 0 := by
        rw [List.count_eq_zero]
        intro hmem
        have := hinc.below _ hmem
        omega
      have c3 : more.count pre.length = 0 := by
        rw [List.count_eq_zero]
        intro hmem
        have := hge _ hmem
        omega
      rw [c1, c3]; simp

end Machine
