import DeltaModel.MiscHandler
/-!
The source of `handle_diff_header_misc_line`, as extracted (`Generated.MiscHandler`), computes `Machine.handleMisc`
(`handleMiscSrc_eq`); what it does to the state at a `Binary files` line (`binary_line_only_marks_names`,
`binary_line_without_names_is_shown`) and to the bookkeeping of the written header on every line it claims
(`misc_line_never_reopens_header`).
-/
set_option linter.unusedSimpArgs false
namespace MiscHandler
open Headers Machine Generated Generated.MiscHandler

theorem suffix_eq : binaryFileSuffix = Machine.binarySuffix := by decide

theorem isEmpty_decide {α : Type} [DecidableEq α] (s : List α) : s.isEmpty = decide (s = []) := by
  cases s <;> simp

theorem devNull_eq : (['/', 'd', 'e', 'v', '/', 'n', 'u', 'l', 'l'] : List Char) = Markers.devNull := rfl

theorem handleMiscSrc_eq (cfg : Cfg) (m : M) (l : L) : handleMiscSrc cfg m l = some (handleMisc cfg m l) := by
  unfold handleMiscSrc run handleMisc
  simp [Generated.MiscHandler.body, tests, execStmts2, execStmt2, execStmts1, execStmt1, execSimples, execSimple,
    evalCond, evalAtom, evalBasic, allOf, List.lookup, sourceOf, getStr, setStr, getPair, setPair, constant, sign,
    suffix_eq, devNull_eq, Markers.onlyIn, Markers.binaryFiles, isEmpty_decide]
  generalize startsWith l.text ['O', 'n', 'l', 'y', ' ', 'i', 'n', ' '] = a
  generalize startsWith l.text ['B', 'i', 'n', 'a', 'r', 'y', ' ', 'f', 'i', 'l', 'e', 's', ' '] = b
  cases a <;> cases b <;> cases hco : cfg.colorOnly <;> by_cases hs : m.source = .diffUnified <;> simp [hs]
  all_goals
    by_cases h1 : m.minusFile = [] <;> by_cases h2 : m.plusFile = [] <;>
    by_cases h3 : m.minusFile = Markers.devNull <;> by_cases h4 : m.plusFile = Markers.devNull <;>
    simp_all [Markers.devNull] <;> (cases m; simp_all)

/-- ` (binary file)` appended to a name, not to `/dev/null` -/
def binaryMarked (s : Str) : Str := if s = Markers.devNull then s else s ++ binaryFileSuffix

theorem binary_line_only_marks_names (cfg : Cfg) (m : M) (l : L)
    (hco : cfg.colorOnly = false) (hb : startsWith l.text Markers.binaryFiles = true)
    (hn : ¬ (m.minusFile = [] ∧ m.plusFile = [])) :
    handleMiscSrc cfg m l =
      some (.ok (true, { m with minusFile := binaryMarked m.minusFile, plusFile := binaryMarked m.plusFile })) := by
  rw [handleMiscSrc_eq]
  unfold handleMisc binaryMarked
  simp only [hb, hco, hn, suffix_eq]
  simp

theorem binary_line_without_names_is_shown (cfg : Cfg) (m : M) (l : L)
    (hco : cfg.colorOnly = false) (hb : startsWith l.text Markers.binaryFiles = true)
    (hn : m.minusFile = [] ∧ m.plusFile = []) :
    handleMiscSrc cfg m l = some (.ok (true, { emitLineUnchanged m l with handledPair := m.currentPair })) := by
  rw [handleMiscSrc_eq]
  unfold handleMisc
  simp [hb, hco, hn, emitLineUnchanged, direct, emit, flushMP]
  split <;> rfl

/-- `handle_additional_cases` writes rows; it leaves the two file pairs alone -/
theorem additionalCases_pairs {cfg : Cfg} {m m' : M} {l : L} {to : State} {b : Bool}
    (e : handleAdditionalCases cfg m l to = .ok (b, m')) :
    m'.handledPair = m.handledPair ∧ m'.currentPair = m.currentPair := by
  unfold handleAdditionalCases at e
  split at e <;> cases e
  · simp only [writeGeneric, emit, flushMP, direct]
    repeat' split
    all_goals simp
  · simp only [flushMP]
    split <;> simp

theorem misc_line_never_reopens_header (cfg : Cfg) (m m' : M) (l : L) (b : Bool)
    (e : handleMiscSrc cfg m l = some (.ok (b, m')))
    (h : m.handledPair = m.currentPair) : m'.handledPair = m'.currentPair := by
  rw [handleMiscSrc_eq] at e
  simp only [Option.some.injEq] at e
  by_cases hs : m.source = .diffUnified <;> cases ho : startsWith l.text Markers.onlyIn <;>
    cases hb : startsWith l.text Markers.binaryFiles <;> cases hco : cfg.colorOnly <;>
    simp [handleMisc, hs, ho, hb, hco] at e
  all_goals first
    | (obtain ⟨_, rfl⟩ := e; exact h)
    | (have := additionalCases_pairs e; rw [this.1, this.2]; exact h)
    | (split at e <;> cases e <;> first | rfl | exact h)

end MiscHandler
