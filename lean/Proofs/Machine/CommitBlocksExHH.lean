import Proofs.Machine.CommitBlocksHH
import Proofs.Machine.CommitBlocksEx
/-!
Examples for `Proofs/Machine/CommitBlocksHH.lean` (C14, `hunk_header_row_shows_own_section_log`). Imported only by
`Props/C14.lean`.
-/
set_option linter.unusedVariables false
namespace Machine.CommitBlocksEx
open Machine

/-- the run's hunk-header rows against `hhRowsOfLog` -/
def agreesHH (cfg : Cfg) (pre : List Sec2) (commits : List Commit) : Bool :=
  match run cfg (linesOfLog pre commits) with
  | .ok m => m.out.filter (fun (r : Row) => pHH r.kind) == hhRowsOfLog cfg pre commits
  | .error _ => false

def sHunksDangling : Sec2 := .file {
  d := mkL "diff --git a/src/x.rs b/src/x.rs", noise := [mkL "index 1111111..2222222 100644"],
  body := .named (mkL "--- a/src/x.rs") (mkL "+++ b/src/x.rs") none
    (["@@ -1,2 +1,2 @@ fn f()", " ctx", "-old", "+new", "@@ -10 +90 @@ fn g()", "-a", "+b", "@@ -20 +100 @@ dangling"].map mkL) }
/-- a section that ends in an `@@` line no hunk line follows (dropped at the next commit line), then a commit, … -/
def logHH : List Commit := [{ c1 with secs := [sHunksDangling] }, c2, { c3 with secs := [sModified, sEmptyNew] }]
def cfgLabelled : Cfg := { hhFile := true, hunkLabel := "§".toList }

theorem logHH_wf : ∀ k ∈ logHH, k.WF := commits_wf_of_all (by decide)
theorem logHH_rows : shown (hhRowsOfLog cfgLabelled [] logHH) =
    [("§ src/x.rs:1: fn f() ", 13), ("§ src/x.rs:90: fn g() ", 17), ("§ y:1: ", 40)] := by decide
theorem logHH_run : agreesHH cfgLabelled [] logHH = true ∧ agreesHH { commitStyle := { isRaw := true } } [sHunksDangling] logHH = true := by
  decide +kernel

end Machine.CommitBlocksEx
