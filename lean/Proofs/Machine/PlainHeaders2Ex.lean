import Proofs.Machine.PlainHeaders2
import Proofs.Machine.CommitBlocksEx
/-!
Examples for `Proofs/Machine/PlainHeaders2.lean` (C14, `one_file_header_per_section_plain`): a plain `diff -u` stream of three
file sections (22 lines) whose hunks contain `--- x` / `+++ y` / `+++ v` / `+--- …` hunk lines and a `\ No newline` line; its
well-formedness by `decide`, the rows the theorem predicts, the model's run agreeing with them; and a stream whose first hunk
announces more old-file lines than it has (not well-formed: the next `--- ` line is then a hunk line and gets no header).
Imported only by `Props/C14.lean`.
-/
set_option linter.unusedVariables false
namespace Machine.PlainHeaders2Ex
open Machine Machine.Plain Machine.CommitBlocksEx

def p1 : PSec := {
  mn := mkL "--- old/x.txt\t2026-09-28 10:00:00", pl := mkL "+++ new/x.txt\t2026-09-29 10:00:00",
  hunks := ["@@ -1,3 +1,3 @@", " a", "--- x", "+++ y", " c", "@@ -10,1 +10,3 @@ fn f()", "-z", "+w", "+++ v",
            "\\ No newline at end of file"].map mkL }
def p2 : PSec := { mn := mkL "--- old/y.txt", pl := mkL "+++ new/y.txt", hunks := ["@@ -1 +1 @@", "-p", "+q"].map mkL }
def p3 : PSec := { mn := mkL "--- /dev/null", pl := mkL "+++ new/z.txt", hunks := ["@@ -0,0 +1,2 @@", "+--- not a header", "+b"].map mkL }
def plain3 : List PSec := [p1, p2, p3]
/-- `p2` with a hunk header that announces two old-file lines where there is one -/
def pTruncated : PSec := { p2 with hunks := ["@@ -1,2 +1 @@", "-p"].map mkL }

def agreesP (cfg : Cfg) (secs : List PSec) : Bool :=
  match run cfg (linesOfP secs) with
  | .ok m => m.out.filter (fun (r : Row) => r.kind == RowKind.file) == rowsOfP cfg 0 secs
  | .error _ => false

def fileRowCount (cfg : Cfg) (secs : List PSec) : Nat :=
  match run cfg (linesOfP secs) with
  | .ok m => (m.out.filter (fun (r : Row) => r.kind == RowKind.file)).length
  | .error _ => 0

theorem plain3_wf : ∀ s ∈ plain3, s.wfb = true := by decide

theorem plain3_rows : shown (rowsOfP {} 0 plain3) =
    [("old/x.txt ⟶   new/x.txt", 1), ("old/y.txt ⟶   new/y.txt", 13), ("/dev/null ⟶   new/z.txt", 18)] := by decide +kernel

theorem plain3_run : agreesP {} plain3 = true ∧ agreesP { fileStyle := { deco := .box } } [p2, p1] = true := by decide +kernel

/-- the hunk-count hypothesis (`endOk`) is needed: after a hunk that announces more old-file lines than it has, the `--- ` line
of the next section is read as a removed line `-- …` — one header for two sections -/
theorem hunk_count_needed : pTruncated.wfb = false ∧ p2.wfb = true ∧ fileRowCount {} [pTruncated, p2] = 1 := by decide +kernel

end Machine.PlainHeaders2Ex
