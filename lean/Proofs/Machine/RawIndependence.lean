import DeltaModel.Machine
/-!
Noninterference of the line state machine in `raw_line` — vocabulary and the painter primitives.

Two runs of the machine are compared whose input lines agree in everything but `L.raw`
(`Agree`). `ρ k` / `ρ' k` is the raw line of input line number `k` in the first / second run.

* `RowRel`: two rows have the same kind and the same input index, and either the same text, or they
  are rows that are *meant* to carry the input colouring — kind `.raw` (a handler whose style is
  `raw`, `emit_line_unchanged`): each is the raw line **of its own input line** plus the same pad — or
  kind `.other` (text inside a hunk that is no hunk line): each is its own raw line with tabs expanded.
* `StRel`: the states are equal, except that a pending hunk header remembers the raw line of its line.
* `MRel`: every other component of the two machines is equal; rows of `buf`/`out` are related pairwise.

This file: the relation is preserved by `emit`, `direct`, `flushMP`, `drawRows`, `writeGeneric`,
`handleHeaderLine`, `pendingDiffName`, `emitLineUnchanged`, `emitHunkHeader`; the tests on the
state do not see the difference. `RawIndependence2.lean`: every handler. `RawIndependence3.lean`:
`chain`, `step`, `runFrom`, `finish`, `run`.
-/
set_option linter.unusedVariables false
set_option linter.unusedSimpArgs false
namespace Machine
open Headers

/-- Two input lines agree in everything but the raw line: same stripped text, same clusters, same
per-line facts. (Decidable; the harness evaluates it on the facts the implementation reports.) -/
structure Agree (l l' : L) : Prop where
  text : l'.text = l.text
  graphemes : l'.graphemes = l.graphemes
  commitRe : l'.commitRe = l.commitRe
  blame : l'.blame = l.blame
  grep : l'.grep = l.grep
  submodule : l'.submodule = l.submodule

instance (l l' : L) : Decidable (Agree l l') :=
  if h : l'.text = l.text ∧ l'.graphemes = l.graphemes ∧ l'.commitRe = l.commitRe ∧ l'.blame = l.blame ∧
      l'.grep = l.grep ∧ l'.submodule = l.submodule
  then isTrue ⟨h.1, h.2.1, h.2.2.1, h.2.2.2.1, h.2.2.2.2.1, h.2.2.2.2.2⟩
  else isFalse fun a => h ⟨a.text, a.graphemes, a.commitRe, a.blame, a.grep, a.submodule⟩

theorem Agree.refl (l : L) : Agree l l := ⟨rfl, rfl, rfl, rfl, rfl, rfl⟩

section
variable (ρ ρ' : Nat → Str) (tab : Nat)

/-- The relation between a row of the first run and the row of the second run at the same place. -/
structure RowRel (r r' : Row) : Prop where
  kind : r'.kind = r.kind
  src : r'.src = r.src
  text : r'.text = r.text ∨
    (r.kind = .raw ∧ ∃ pad, (pad = [] ∨ pad = [' ']) ∧ r.text = ρ r.src ++ pad ∧ r'.text = ρ' r.src ++ pad) ∨
    (r.kind = .other ∧ r.text = Text.expand tab (ρ r.src) ∧ r'.text = Text.expand tab (ρ' r.src))

inductive RowsRel : List Row → List Row → Prop
  | nil : RowsRel [] []
  | cons {r r' : Row} {rs rs' : List Row} : RowRel ρ ρ' tab r r' → RowsRel rs rs' → RowsRel (r :: rs) (r' :: rs')

/-- The states agree except for the raw line a pending hunk header remembers. -/
inductive StRel : State → State → Prop
  | same (s : State) : StRel s s
  | hh (dt : DiffType) (h : HunkHeader) (line : Str) (src : Nat) :
      StRel (.hunkHeader dt h line (ρ src) src) (.hunkHeader dt h line (ρ' src) src)

/-- The two machines agree in everything but the rows' raw text and the pending header's raw line. -/
def MRel (m m' : M) : Prop :=
  ∃ s' b' o', StRel ρ ρ' m.st s' ∧ RowsRel ρ ρ' tab m.buf b' ∧ RowsRel ρ ρ' tab m.out o' ∧
    m' = { m with st := s', buf := b', out := o' }

/-- Line `k` of both inputs. -/
structure LRel (k : Nat) (l l' : L) : Prop where
  agree : Agree l l'
  raw : l.raw = ρ k
  raw' : l'.raw = ρ' k

/-- a raw-line argument of a primitive: the same on both sides, or the raw line of line `k` -/
def RawArg (k : Nat) (raw raw' : Str) : Prop := raw' = raw ∨ (raw = ρ k ∧ raw' = ρ' k)

end

def ERel {α : Type} (R : α → α → Prop) : Except String α → Except String α → Prop
  | .ok a, .ok a' => R a a'
  | .error e, .error e' => e' = e
  | _, _ => False

section
variable {ρ ρ' : Nat → Str} {tab : Nat}

theorem RowRel.refl (r : Row) : RowRel ρ ρ' tab r r := ⟨rfl, rfl, Or.inl rfl⟩

theorem RowsRel.refl : ∀ rs : List Row, RowsRel ρ ρ' tab rs rs
  | [] => .nil
  | r :: rs => .cons (RowRel.refl r) (RowsRel.refl rs)

theorem RowsRel.append {a a' b b' : List Row} (h1 : RowsRel ρ ρ' tab a a') (h2 : RowsRel ρ ρ' tab b b') :
    RowsRel ρ ρ' tab (a ++ b) (a' ++ b') := by
  induction h1 with
  | nil => exact h2
  | cons hr _ ih => exact .cons hr ih

theorem RowsRel.nil_iff {a a' : List Row} (h : RowsRel ρ ρ' tab a a') : a' = [] ↔ a = [] := by
  cases h <;> simp

theorem RowsRel.isEmpty_eq {a a' : List Row} (h : RowsRel ρ ρ' tab a a') : a'.isEmpty = a.isEmpty := by
  cases h <;> rfl

theorem RowsRel.length_eq {a a' : List Row} (h : RowsRel ρ ρ' tab a a') : a'.length = a.length := by
  induction h with
  | nil => rfl
  | cons _ _ ih => simp [ih]

theorem RawArg.same {k : Nat} (raw : Str) : RawArg ρ ρ' k raw raw := Or.inl rfl

theorem LRel.rawArg {k : Nat} {l l' : L} (h : LRel ρ ρ' k l l') : RawArg ρ ρ' k l.raw l'.raw :=
  Or.inr ⟨h.raw, h.raw'⟩

/-- a body row of a `draw_fn`: raw style ⇒ the raw line plus pad, else the computed text -/
theorem drawBody_rel {k : Nat} {raw raw' : Str} (hr : RawArg ρ ρ' k raw raw') (isRaw : Bool) (kind : RowKind)
    (t pad : Str) (hp : pad = [] ∨ pad = [' ']) :
    RowRel ρ ρ' tab
      (if isRaw then { kind := .raw, text := raw ++ pad, src := k } else { kind := kind, text := t, src := k })
      (if isRaw then { kind := .raw, text := raw' ++ pad, src := k } else { kind := kind, text := t, src := k }) := by
  cases isRaw
  · exact RowRel.refl _
  · rcases hr with rfl | ⟨rfl, rfl⟩
    · exact RowRel.refl _
    · exact ⟨rfl, rfl, Or.inr (Or.inl ⟨rfl, pad, hp, rfl, rfl⟩)⟩

theorem drawRows_rel {k : Nat} {raw raw' : Str} (hr : RawArg ρ ρ' k raw raw') (st : ElemStyle) (kind : RowKind)
    (t a : Str) : RowsRel ρ ρ' tab (drawRows st kind t raw a k) (drawRows st kind t raw' a k) := by
  have d : RowRel ρ ρ' tab ({ kind := .deco, text := [], src := k } : Row) { kind := .deco, text := [], src := k } :=
    RowRel.refl _
  unfold drawRows
  cases hd : st.deco <;> simp only []
  all_goals first
    | exact .cons (drawBody_rel hr _ _ _ _ (Or.inl rfl)) .nil
    | exact .cons (drawBody_rel hr _ _ _ _ (Or.inr rfl)) .nil
    | exact .cons d (.cons (drawBody_rel hr _ _ _ _ (Or.inl rfl)) (.cons d .nil))
    | exact .cons d (.cons (drawBody_rel hr _ _ _ _ (Or.inr rfl)) (.cons d .nil))
    | exact .cons (drawBody_rel hr _ _ _ _ (Or.inl rfl)) (.cons d .nil)
    | exact .cons d (.cons (drawBody_rel hr _ _ _ _ (Or.inl rfl)) .nil)

-- the state tests do not see the difference ------------------------------------------------------

theorem StRel.isDiffHeader {s s' : State} (h : StRel ρ ρ' s s') : isDiffHeader s' = isDiffHeader s := by
  cases h <;> rfl
theorem StRel.getStyle {s s' : State} (h : StRel ρ ρ' s s') (cfg : Cfg) : getStyle cfg s' = getStyle cfg s := by
  cases h <;> rfl
theorem StRel.isMergeConflict {s s' : State} (h : StRel ρ ρ' s s') : isMergeConflict s' = isMergeConflict s := by
  cases h <;> rfl
theorem StRel.isHunkHeader {s s' : State} (h : StRel ρ ρ' s s') : isHunkHeader s' = isHunkHeader s := by
  cases h <;> rfl
theorem StRel.pairable {s s' : State} (h : StRel ρ ρ' s s') : pairableHunkHeader s' = pairableHunkHeader s := by
  cases h <;> rfl
theorem StRel.hunkDiffType {s s' : State} (h : StRel ρ ρ' s s') : hunkDiffType s' = hunkDiffType s := by
  cases h with
  | same => rfl
  | hh dt hd line src => cases dt with
    | unified => rfl
    | combined mp c => cases mp <;> cases c <;> rfl
theorem StRel.isHunkState {s s' : State} (h : StRel ρ ρ' s s') : isHunkState s' = isHunkState s := by
  cases h <;> rfl
theorem StRel.isHunkPlus {s s' : State} (h : StRel ρ ρ' s s') : isHunkPlus s' = isHunkPlus s := by
  cases h <;> rfl
theorem StRel.stateDiffType {s s' : State} (h : StRel ρ ρ' s s') : stateDiffType s' = stateDiffType s := by
  cases h <;> rfl
theorem StRel.hunkCombinedParents {s s' : State} (h : StRel ρ ρ' s s') :
    hunkCombinedParents s' = hunkCombinedParents s := by
  cases h with
  | same => rfl
  | hh dt hd line src => cases dt with
    | unified => rfl
    | combined mp c => cases c <;> rfl

/-- a state that is no pending hunk header is the same in both runs -/
theorem StRel.eq_of_not_hh {s s' : State} (h : StRel ρ ρ' s s') (hn : Machine.isHunkHeader s = false) : s' = s := by
  cases h with
  | same => rfl
  | hh => simp [Machine.isHunkHeader] at hn

-- projections of MRel ----------------------------------------------------------------------------

theorem MRel.stRel {m m' : M} (h : MRel ρ ρ' tab m m') : StRel ρ ρ' m.st m'.st := by
  obtain ⟨_, _, _, hs, _, _, rfl⟩ := h; exact hs
theorem MRel.bufRel {m m' : M} (h : MRel ρ ρ' tab m m') : RowsRel ρ ρ' tab m.buf m'.buf := by
  obtain ⟨_, _, _, _, hb, _, rfl⟩ := h; exact hb
theorem MRel.outRel {m m' : M} (h : MRel ρ ρ' tab m m') : RowsRel ρ ρ' tab m.out m'.out := by
  obtain ⟨_, _, _, _, _, ho, rfl⟩ := h; exact ho
theorem MRel.source {m m' : M} (h : MRel ρ ρ' tab m m') : m'.source = m.source := by
  obtain ⟨_, _, _, _, _, _, rfl⟩ := h; rfl
theorem MRel.minusFile {m m' : M} (h : MRel ρ ρ' tab m m') : m'.minusFile = m.minusFile := by
  obtain ⟨_, _, _, _, _, _, rfl⟩ := h; rfl
theorem MRel.plusFile {m m' : M} (h : MRel ρ ρ' tab m m') : m'.plusFile = m.plusFile := by
  obtain ⟨_, _, _, _, _, _, rfl⟩ := h; rfl
theorem MRel.minusEvent {m m' : M} (h : MRel ρ ρ' tab m m') : m'.minusEvent = m.minusEvent := by
  obtain ⟨_, _, _, _, _, _, rfl⟩ := h; rfl
theorem MRel.diffLine {m m' : M} (h : MRel ρ ρ' tab m m') : m'.diffLine = m.diffLine := by
  obtain ⟨_, _, _, _, _, _, rfl⟩ := h; rfl
theorem MRel.diffLineG {m m' : M} (h : MRel ρ ρ' tab m m') : m'.diffLineG = m.diffLineG := by
  obtain ⟨_, _, _, _, _, _, rfl⟩ := h; rfl
theorem MRel.modeInfo {m m' : M} (h : MRel ρ ρ' tab m m') : m'.modeInfo = m.modeInfo := by
  obtain ⟨_, _, _, _, _, _, rfl⟩ := h; rfl
theorem MRel.currentPair {m m' : M} (h : MRel ρ ρ' tab m m') : m'.currentPair = m.currentPair := by
  obtain ⟨_, _, _, _, _, _, rfl⟩ := h; rfl
theorem MRel.handledPair {m m' : M} (h : MRel ρ ρ' tab m m') : m'.handledPair = m.handledPair := by
  obtain ⟨_, _, _, _, _, _, rfl⟩ := h; rfl
theorem MRel.counter {m m' : M} (h : MRel ρ ρ' tab m m') : m'.counter = m.counter := by
  obtain ⟨_, _, _, _, _, _, rfl⟩ := h; rfl
theorem MRel.minus {m m' : M} (h : MRel ρ ρ' tab m m') : m'.minus = m.minus := by
  obtain ⟨_, _, _, _, _, _, rfl⟩ := h; rfl
theorem MRel.plus {m m' : M} (h : MRel ρ ρ' tab m m') : m'.plus = m.plus := by
  obtain ⟨_, _, _, _, _, _, rfl⟩ := h; rfl
theorem MRel.mcOurs {m m' : M} (h : MRel ρ ρ' tab m m') : m'.mcOurs = m.mcOurs := by
  obtain ⟨_, _, _, _, _, _, rfl⟩ := h; rfl
theorem MRel.mcAnc {m m' : M} (h : MRel ρ ρ' tab m m') : m'.mcAnc = m.mcAnc := by
  obtain ⟨_, _, _, _, _, _, rfl⟩ := h; rfl
theorem MRel.mcTheirs {m m' : M} (h : MRel ρ ρ' tab m m') : m'.mcTheirs = m.mcTheirs := by
  obtain ⟨_, _, _, _, _, _, rfl⟩ := h; rfl
theorem MRel.mcNameOurs {m m' : M} (h : MRel ρ ρ' tab m m') : m'.mcNameOurs = m.mcNameOurs := by
  obtain ⟨_, _, _, _, _, _, rfl⟩ := h; rfl
theorem MRel.mcNameAnc {m m' : M} (h : MRel ρ ρ' tab m m') : m'.mcNameAnc = m.mcNameAnc := by
  obtain ⟨_, _, _, _, _, _, rfl⟩ := h; rfl
theorem MRel.mcNameTheirs {m m' : M} (h : MRel ρ ρ' tab m m') : m'.mcNameTheirs = m.mcNameTheirs := by
  obtain ⟨_, _, _, _, _, _, rfl⟩ := h; rfl
theorem MRel.n {m m' : M} (h : MRel ρ ρ' tab m m') : m'.n = m.n := by
  obtain ⟨_, _, _, _, _, _, rfl⟩ := h; rfl

theorem MRel.refl (m : M) : MRel ρ ρ' tab m m :=
  ⟨m.st, m.buf, m.out, .same _, RowsRel.refl _, RowsRel.refl _, rfl⟩

/-- the state is replaced on both sides -/
theorem MRel.setSt {m m' : M} (h : MRel ρ ρ' tab m m') {s s' : State} (hs : StRel ρ ρ' s s') :
    MRel ρ ρ' tab { m with st := s } { m' with st := s' } := by
  obtain ⟨_, b', o', _, hb, ho, rfl⟩ := h
  exact ⟨s', b', o', hs, hb, ho, rfl⟩

/-- an update of fields other than `st`, `buf`, `out`, the same on both sides -/
theorem MRel.upd {m m' : M} (h : MRel ρ ρ' tab m m') (f : M → M)
    (hf : ∀ (m : M) s b o, f { m with st := s, buf := b, out := o } = { f m with st := s, buf := b, out := o }) :
    MRel ρ ρ' tab (f m) (f m') := by
  obtain ⟨s', b', o', hs, hb, ho, rfl⟩ := h
  have e : f m = { f m with st := m.st, buf := m.buf, out := m.out } := hf m m.st m.buf m.out
  have e1 : (f m).st = m.st := by have h := congrArg M.st e; exact h
  have e2 : (f m).buf = m.buf := by have h := congrArg M.buf e; exact h
  have e3 : (f m).out = m.out := by have h := congrArg M.out e; exact h
  exact ⟨s', b', o', e1 ▸ hs, e2 ▸ hb, e3 ▸ ho, hf m s' b' o'⟩

theorem emit_rel {m m' : M} (h : MRel ρ ρ' tab m m') : MRel ρ ρ' tab (emit m) (emit m') := by
  obtain ⟨s', b', o', hs, hb, ho, rfl⟩ := h
  exact ⟨s', [], o' ++ b', hs, .nil, ho.append hb, rfl⟩

theorem direct_rel {m m' : M} (h : MRel ρ ρ' tab m m') {rows rows' : List Row} (hr : RowsRel ρ ρ' tab rows rows') :
    MRel ρ ρ' tab (direct m rows) (direct m' rows') := by
  obtain ⟨s', b', o', hs, hb, ho, rfl⟩ := h
  unfold direct
  by_cases hn : rows = []
  · have hn' : rows' = [] := hr.nil_iff.mpr hn
    simp only [hn, hn', if_true]
    exact ⟨s', b', o', hs, hb, ho, rfl⟩
  · have hn' : ¬ rows' = [] := fun x => hn (hr.nil_iff.mp x)
    simp only [hn, hn', if_false]
    refine ⟨s', b', o' ++ rows', hs, hb, ho.append hr, ?_⟩
    simp only [hb.isEmpty_eq]

theorem flushMP_rel {m m' : M} (h : MRel ρ ρ' tab m m') : MRel ρ ρ' tab (flushMP m) (flushMP m') := by
  obtain ⟨s', b', o', hs, hb, ho, rfl⟩ := h
  unfold flushMP
  simp only []
  split
  · exact ⟨s', b', o', hs, hb, ho, rfl⟩
  · exact ⟨s', b' ++ m.minus.map HLine.row ++ m.plus.map HLine.row, o', hs,
      (hb.append (RowsRel.refl _)).append (RowsRel.refl _), ho, rfl⟩

theorem shouldHandle_rel {m m' : M} (h : MRel ρ ρ' tab m m') (cfg : Cfg) : shouldHandle cfg m' = shouldHandle cfg m := by
  unfold shouldHandle; rw [h.stRel.getStyle]

theorem shouldSkipLine_rel {m m' : M} (h : MRel ρ ρ' tab m m') (cfg : Cfg) :
    shouldSkipLine cfg m' = shouldSkipLine cfg m := by
  unfold shouldSkipLine; rw [h.stRel.isDiffHeader, shouldHandle_rel h]

theorem pendingTest_rel {m m' : M} (h : MRel ρ ρ' tab m m') : pendingTest m' = pendingTest m := by
  unfold pendingTest; rw [h.stRel.isDiffHeader, h.source]

theorem headerLineTest_rel {m m' : M} (h : MRel ρ ρ' tab m m') : headerLineTest m' = headerLineTest m := by
  unfold headerLineTest; rw [h.stRel.isDiffHeader, h.source]

theorem emitLineUnchanged_rel {m m' : M} (h : MRel ρ ρ' tab m m') {l l' : L} (hl : LRel ρ ρ' m.n l l') :
    MRel ρ ρ' tab (emitLineUnchanged m l) (emitLineUnchanged m' l') := by
  unfold emitLineUnchanged
  refine direct_rel (emit_rel (flushMP_rel h)) (.cons ?_ .nil)
  rw [h.n]
  exact ⟨rfl, rfl, Or.inr (Or.inl ⟨rfl, [], Or.inl rfl, by simp [hl.raw], by simp [hl.raw']⟩)⟩

theorem writeGeneric_rel {m m' : M} (h : MRel ρ ρ' tab m m') (cfg : Cfg) (text : Str) {raw raw' : Str}
    (hr : RawArg ρ ρ' m.n raw raw') :
    MRel ρ ρ' tab (writeGeneric cfg m text raw) (writeGeneric cfg m' text raw') := by
  unfold writeGeneric
  split
  · exact h.upd (fun m => { m with modeInfo := [] }) (fun _ _ _ _ => rfl)
  · rw [h.n, h.modeInfo]
    exact (direct_rel h ((RowsRel.refl _).append (drawRows_rel hr _ _ _ _))).upd
      (fun m => { m with modeInfo := [] }) (fun _ _ _ _ => rfl)

theorem handleHeaderLine_rel {m m' : M} (h : MRel ρ ρ' tab m m') (cfg : Cfg) (c : Bool) :
    MRel ρ ρ' tab (handleHeaderLine cfg m c) (handleHeaderLine cfg m' c) := by
  unfold handleHeaderLine
  rw [h.minusFile, h.plusFile, h.minusEvent]
  exact writeGeneric_rel h cfg _ (RawArg.same _)

theorem pendingDiffName_rel {m m' : M} (h : MRel ρ ρ' tab m m') (cfg : Cfg) :
    MRel ρ ρ' tab (pendingDiffName cfg m) (pendingDiffName cfg m') := by
  unfold pendingDiffName
  rw [pendingTest_rel h, h.modeInfo, shouldHandle_rel h, h.handledPair, h.currentPair, h.diffLine, h.diffLineG,
    h.source]
  split
  · exact h
  · split
    · exact (writeGeneric_rel (emit_rel h) cfg _ (RawArg.same _)).upd
        (fun m => { m with handledPair := m.currentPair }) (fun _ _ _ _ => rfl)
    · split
      · exact h
      · split
        · exact (handleHeaderLine_rel (emit_rel h) cfg _).upd
            (fun m => { m with handledPair := m.currentPair }) (fun _ _ _ _ => rfl)
        · exact h

-- the hunk-header writer ------------------------------------------------------------------------

theorem hunkHeaderRows_rel {m m' : M} (h : MRel ρ ρ' tab m m') (cfg : Cfg) (hh : HunkHeader) (line : Str)
    {raw raw' : Str} {src : Nat} (hr : RawArg ρ ρ' src raw raw') :
    ERel (RowsRel ρ ρ' tab) (hunkHeaderRows cfg m hh line raw src) (hunkHeaderRows cfg m' hh line raw' src) := by
  unfold hunkHeaderRows
  simp only []
  split
  · exact (RowsRel.refl _).append (drawRows_rel hr _ _ _ _)
  · split
    · exact RowsRel.refl _
    · have e : hunkHeaderText cfg m' hh line = hunkHeaderText cfg m hh line := by
        unfold hunkHeaderText hunkHeaderTextOf
        rw [h.plusFile, h.minusFile]
      rw [e]
      split
      · rfl
      · exact RowsRel.refl _
      · exact RowsRel.refl _

theorem emitHunkHeader_rel {m m' : M} (h : MRel ρ ρ' tab m m') (cfg : Cfg) (hh : HunkHeader) (line : Str)
    {raw raw' : Str} {src : Nat} (hr : RawArg ρ ρ' src raw raw') :
    ERel (MRel ρ ρ' tab) (emitHunkHeader cfg m hh line raw src) (emitHunkHeader cfg m' hh line raw' src) := by
  have h1 := emit_rel (flushMP_rel h)
  have h2 := hunkHeaderRows_rel h1 cfg hh line hr
  unfold emitHunkHeader
  revert h2
  cases hunkHeaderRows cfg (emit (flushMP m)) hh line raw src <;>
    cases hunkHeaderRows cfg (emit (flushMP m')) hh line raw' src <;> intro h2
  · exact h2
  · exact h2.elim
  · exact h2.elim
  · exact direct_rel h1 h2

end
end Machine
