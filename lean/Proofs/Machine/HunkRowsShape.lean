import Proofs.Machine.HunkRowsSec
/-!
C14 / C05: what a hunk-header row shows — reading `hhRowOf`.

`hhRowOf_text`: when the hunk-header style is neither raw nor omitted and delta does not run `--color-only`, the
rows written for an `@@` line are one row whose text is what `hunkHeaderText` (the model of
`write_line_of_code_with_optional_path_and_line_number`) computes, or none when that text is empty.
`hhRowOf_file_line`: with `file` and `line-number` in `hunk-header-style` and a two-way `@@` line the text is
`<label><path>:<new-file start>:<code fragment>`, the path being the plus-file name, or the minus-file name
when the plus file is `/dev/null`.
-/
set_option linter.unusedSimpArgs false
set_option linter.unusedVariables false
namespace Machine
open Headers Generated HunkNames

/-- the blank a box decoration appends to the text -/
def hhPad (st : ElemStyle) : Str :=
  match st.deco with
  | .box | .boxUl => [' ']
  | _ => []

theorem drawRows_hh_row (st : ElemStyle) (t : Str) (src : Nat) (hraw : st.isRaw = false) :
    hhOnly (drawRows st .hunkHeader t t [] src) = [{ kind := .hunkHeader, text := t ++ hhPad st, src := src }] := by
  unfold drawRows hhOnly hhPad
  cases hd : st.deco <;> simp [hd, hraw, pHH]

/-- the machine that only knows the two names -/
def namesOnly (p : Str × Str) : M := { minusFile := p.1, plusFile := p.2 }

theorem hhRowOf_text {cfg : Cfg} (hr : cfg.hunkHeaderStyle.isRaw = false) (ho : cfg.hunkHeaderStyle.isOmitted = false)
    (hco : cfg.colorOnly = false) (p : Str × Str) (h : L) (i : Nat) (hh : HunkHeader)
    (hp : parseHunkHeader h.text = some hh) :
    hhRowOf cfg p h i =
      (match hunkHeaderText cfg (namesOnly p) hh h.text with
       | .ok (some t) => [{ kind := .hunkHeader, text := t ++ hhPad cfg.hunkHeaderStyle, src := i }]
       | _ => []) := by
  unfold hhRowOf hunkHeaderRows namesOnly
  simp only [hp, hr, ho, hco, Bool.false_eq_true, if_false]
  cases hunkHeaderText cfg { minusFile := p.1, plusFile := p.2 } hh h.text with
  | error err => rfl
  | ok o =>
    cases o with
    | none => simp [hhOnly, pHH]
    | some t =>
      simp only
      have hb : hhOnly ([{ kind := RowKind.blank, text := [], src := i }] : List Row) = [] := by simp [hhOnly, pHH]
      have hpad : hhPad { cfg.hunkHeaderStyle with isRaw := false } = hhPad cfg.hunkHeaderStyle := rfl
      show hhOnly ([{ kind := RowKind.blank, text := [], src := i }] ++ drawRows _ .hunkHeader t t [] i) = _
      unfold hhOnly at hb ⊢
      rw [List.filter_append, hb, List.nil_append]
      have := drawRows_hh_row { deco := cfg.hunkHeaderStyle.deco } t i rfl
      unfold hhOnly at this
      rw [this]
      rfl

/-- the path a hunk-header row shows for the names `p`: the plus file, or the minus file of a deleted file -/
def shownPath (p : Str × Str) : Str := if p.2 = Markers.devNull then p.1 else p.2

/-- **the text of the row** with `file` and `line-number` in the hunk-header style, for a two-way `@@` line
`@@ -a,b +c,d @@ frag`: `<label><path>:<c>:<frag>` (a blank after the fragment; a blank instead of it when the
fragment is empty or `omit-code-fragment` is set), path = `shownPath` of the names. -/
theorem hhRowOf_file_line {cfg : Cfg} (hr : cfg.hunkHeaderStyle.isRaw = false)
    (ho : cfg.hunkHeaderStyle.isOmitted = false) (hco : cfg.colorOnly = false) (hf : cfg.hhFile = true)
    (hn : cfg.hhLineNumber = true) (p : Str × Str) (h : L) (i : Nat) (hh : HunkHeader) (a b c d : Nat)
    (hp : parseHunkHeader h.text = some hh) (hcoords : hh.coords = [(a, b), (c, d)]) :
    hhRowOf cfg p h i =
      [{ kind := .hunkHeader,
         text := (if cfg.hunkLabel ≠ [] then cfg.hunkLabel ++ [' '] else []) ++
           (shownPath p ++ ':' :: (toString c).toList ++ [':'] ++ (if fragBody cfg hh = [] then [' '] else [])) ++
           Text.expand cfg.tab (fragBody cfg hh) ++ hhPad cfg.hunkHeaderStyle,
         src := i }] := by
  rw [hhRowOf_text hr ho hco p h i hh hp, hunkHeaderText_shape cfg (namesOnly p) hh h.text a b c d hf hn hr hco hcoords]
  rfl

end Machine
