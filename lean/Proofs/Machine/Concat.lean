import Proofs.Machine.Run
import Proofs.Machine.Total
import Proofs.Machine.Claims
/-!
Compositionality of the line state machine (property C10): helper lemmas.

`N m`, the *normal form* of a machine — everything that can influence what the machine does or writes
from now on, and nothing else. The ghost fields are erased (`src` of every row and buffered line,
the line index `n`, `orderOk`); the rows already handed to the painter's output buffer are merged
into the rows written (`out ++ buf`: the buffer is always emitted before anything is written
directly); the plain-diff counter is clamped to its "not relevant" value; the merge-conflict commit
names are dropped where they are dead (`theirs` always; `ours` and the ancestral name outside a conflict
region: a region sets the first and clears the second when it starts).

1. `N_step` … `cont_congr`: the machine is a function of its normal form:
   `N a = N b → N (step a l) = N (step b l)`, for every handler, the chain, `step`, `runFrom`,
   the tail of `consume`.
2. `P p m` (`p` prepended to the rows written) commutes with everything: `step (P p m) l = P p (step m l)`
   (`P_step` … `P_cont`): what is written later does not depend on what was written before.
3. `SectionBoundary cfg sA d` and `boundary_step`: at a `diff ` line `d` met in state `sA`, the machine
   after the line is — in normal form — the machine a fresh run has after `d`, with the rows of a
   complete run ending in `sA` in front.
4. `concat_sections_er` combines them with `runFrom_append`.
5. `counter_idle`: outside plain diffs the `--- ` counter is never armed (reachable states).
6. `commit_block_er`: a commit line followed by plain lines (`git log -p`) closes the section before it
   as the end of input does (`step_commit`, `runFrom_plain`, `finish_inCommit`; explicit row bookkeeping
   with `outN`, no normal-form argument: the per-file fields of the old section stay in the machine
   until the next `diff ` line resets them).

Proof idiom. Every model function `f` gets a lemma `N (f m) = via f (N m)`, where `via f k = N (f k)`
is kept folded so that `simp only` can push `N` inwards through a composition and terminates;
a handler lemma `NR (h cfg (N m) l) = NR (h cfg m l)` is then: unfold, `nfields` (rewrite the fields of
`N m` in the conditions, also inside `Decidable` instances), `split`, `npush`. Record updates written
inline in the model are either matched by `↓` shape lemmas (`N_updStO`, …) or named (`setSt`, `minusUpd`,
`pushMinus`, …) through a `…_eq` restatement of the handler proved by `rfl`. The `P` lemmas mirror this
(`pfields`, `ppush`). When a model function changes, its `N_…`/`P_…` (and `idle_…`) lemmas are the ones to
revisit; `pendingDiffName` also has an explicit description (`pendingRows`, `N_pendingDiffName_explicit`).
Generated facts used: the first three names of `handlerOrder` (`step_diffLine`), `consumeTail`
(`finish_rows`), `prepareToCount = none` (`counterIdle_stepInit`).
-/
set_option linter.unusedSimpArgs false
set_option linter.unusedVariables false
namespace Machine
open Headers Generated

-- ---------------------------------------------------------------- erasure of ghosts

def Row.er (r : Row) : Row := { r with src := 0 }
def HLine.er (h : HLine) : HLine := { h with src := 0 }

def State.er : State → State
  | .hunkHeader dt hh line raw _ => .hunkHeader dt hh line raw 0
  | s => s

/-- every counter value `≤ -4096` means "not relevant" -/
def clampC (c : Int) : Int := if c ≤ -4096 then -4096 else c

/-- keep an optional name only while it is live -/
def keepIf (b : Bool) (o : Option Str) : Option Str :=
  match b with
  | true => o
  | false => none

@[simp] theorem keepIf_true (o : Option Str) : keepIf true o = o := rfl
@[simp] theorem keepIf_false (o : Option Str) : keepIf false o = none := rfl
@[simp] theorem keepIf_none (b : Bool) : keepIf b none = none := by cases b <;> rfl
@[simp] theorem keepIf_keepIf (b : Bool) (o : Option Str) : keepIf b (keepIf b o) = keepIf b o := by cases b <;> rfl

def N (m : M) : M :=
  { m with
    st := m.st.er
    counter := clampC m.counter
    minus := m.minus.map HLine.er
    plus := m.plus.map HLine.er
    buf := []
    out := (m.out ++ m.buf).map Row.er
    mcOurs := m.mcOurs.map HLine.er
    mcAnc := m.mcAnc.map HLine.er
    mcTheirs := m.mcTheirs.map HLine.er
    mcNameOurs := keepIf (isMergeConflict m.st) m.mcNameOurs
    mcNameAnc := keepIf (isMergeConflict m.st) m.mcNameAnc
    mcNameTheirs := none
    n := 0
    orderOk := true }

/-- `N (f k)`, kept folded -/
def via (f : M → M) (k : M) : M := N (f k)

section fields
variable (m : M)
@[simp] theorem N_st : (N m).st = m.st.er := rfl
@[simp] theorem N_source : (N m).source = m.source := rfl
@[simp] theorem N_minusFile : (N m).minusFile = m.minusFile := rfl
@[simp] theorem N_plusFile : (N m).plusFile = m.plusFile := rfl
@[simp] theorem N_minusEvent : (N m).minusEvent = m.minusEvent := rfl
@[simp] theorem N_plusEvent : (N m).plusEvent = m.plusEvent := rfl
@[simp] theorem N_diffLine : (N m).diffLine = m.diffLine := rfl
@[simp] theorem N_diffLineG : (N m).diffLineG = m.diffLineG := rfl
@[simp] theorem N_modeInfo : (N m).modeInfo = m.modeInfo := rfl
@[simp] theorem N_currentPair : (N m).currentPair = m.currentPair := rfl
@[simp] theorem N_handledPair : (N m).handledPair = m.handledPair := rfl
@[simp] theorem N_counter : (N m).counter = clampC m.counter := rfl
@[simp] theorem N_minus : (N m).minus = m.minus.map HLine.er := rfl
@[simp] theorem N_plus : (N m).plus = m.plus.map HLine.er := rfl
@[simp] theorem N_buf : (N m).buf = [] := rfl
@[simp] theorem N_out : (N m).out = (m.out ++ m.buf).map Row.er := rfl
@[simp] theorem N_mcOurs : (N m).mcOurs = m.mcOurs.map HLine.er := rfl
@[simp] theorem N_mcAnc : (N m).mcAnc = m.mcAnc.map HLine.er := rfl
@[simp] theorem N_mcTheirs : (N m).mcTheirs = m.mcTheirs.map HLine.er := rfl
@[simp] theorem N_mcNameOurs : (N m).mcNameOurs = keepIf (isMergeConflict m.st) m.mcNameOurs := rfl
@[simp] theorem N_mcNameAnc : (N m).mcNameAnc = keepIf (isMergeConflict m.st) m.mcNameAnc := rfl
@[simp] theorem N_mcNameTheirs : (N m).mcNameTheirs = none := rfl
@[simp] theorem N_n : (N m).n = 0 := rfl
@[simp] theorem N_orderOk : (N m).orderOk = true := rfl
end fields

@[simp] theorem Row.er_er (r : Row) : r.er.er = r.er := rfl
@[simp] theorem HLine.er_er (h : HLine) : h.er.er = h.er := rfl
@[simp] theorem State.er_er (s : State) : s.er.er = s.er := by cases s <;> rfl
@[simp] theorem Row.er_comp : Row.er ∘ Row.er = Row.er := by funext r; rfl
@[simp] theorem HLine.er_comp : HLine.er ∘ HLine.er = HLine.er := by funext r; rfl
@[simp] theorem HLine.row_er (h : HLine) : h.er.row = h.row.er := rfl
@[simp] theorem HLine.row_er_comp : HLine.row ∘ HLine.er = Row.er ∘ HLine.row := by funext h; rfl
@[simp] theorem er_comp_assoc {α : Type} (f : α → Row) : Row.er ∘ Row.er ∘ f = Row.er ∘ f := by funext x; rfl
@[simp] theorem map_er_er (rs : List Row) : (rs.map Row.er).map Row.er = rs.map Row.er := by simp
@[simp] theorem map_her_her (rs : List HLine) : (rs.map HLine.er).map HLine.er = rs.map HLine.er := by simp

@[simp] theorem clampC_clampC (c : Int) : clampC (clampC c) = clampC c := by
  unfold clampC; split <;> simp_all
@[simp] theorem clampC_gt (c : Int) : (clampC c > -4096) ↔ (c > -4096) := by
  unfold clampC; split <;> omega
@[simp] theorem clampC_dec (c : Int) : clampC (clampC c - 1) = clampC (c - 1) := by
  unfold clampC; repeat' split
  all_goals omega
@[simp] theorem threeDashesExpected_clampC (c : Int) : threeDashesExpected (clampC c) = threeDashesExpected c := by
  unfold threeDashesExpected clampC; repeat' split
  all_goals first | rfl | omega | (simp; omega)

@[simp] theorem isDiffHeader_er (s : State) : isDiffHeader s.er = isDiffHeader s := by cases s <;> rfl
@[simp] theorem isMergeConflict_er (s : State) : isMergeConflict s.er = isMergeConflict s := by cases s <;> rfl
@[simp] theorem isHunkState_er (s : State) : isHunkState s.er = isHunkState s := by cases s <;> rfl
@[simp] theorem isHunkHeader_er (s : State) : isHunkHeader s.er = isHunkHeader s := by cases s <;> rfl
@[simp] theorem isHunkPlus_er (s : State) : isHunkPlus s.er = isHunkPlus s := by cases s <;> rfl
@[simp] theorem getStyle_er (cfg : Cfg) (s : State) : getStyle cfg s.er = getStyle cfg s := by cases s <;> rfl
@[simp] theorem hunkDiffType_er (s : State) : hunkDiffType s.er = hunkDiffType s := by
  cases s <;> first | rfl | (rename_i dt _ _ _ _; rcases dt with _ | ⟨mp, c⟩ <;> first | rfl | (cases mp <;> cases c <;> rfl))
@[simp] theorem hunkCombinedParents_er (s : State) : hunkCombinedParents s.er = hunkCombinedParents s := by
  cases s <;> first | rfl | (rename_i dt _ _ _ _; rcases dt with _ | ⟨mp, c⟩ <;> first | rfl | (cases c <;> rfl))
@[simp] theorem er_eq_blame (s : State) : s.er = .blame ↔ s = .blame := by cases s <;> simp [State.er]
@[simp] theorem er_eq_grep (s : State) : s.er = .grep ↔ s = .grep := by cases s <;> simp [State.er]
@[simp] theorem er_eq_unknown (s : State) : s.er = .unknown ↔ s = .unknown := by cases s <;> simp [State.er]

/-- rewrite the fields of a normal form, also inside `Decidable` instances -/
macro "nfields" : tactic =>
  `(tactic| dsimp (config := { instances := true }) only [N_st, N_source, N_minusFile, N_plusFile, N_minusEvent,
      N_plusEvent, N_diffLine, N_diffLineG, N_modeInfo, N_currentPair, N_handledPair, N_counter, N_minus, N_plus,
      N_buf, N_out, N_mcOurs, N_mcAnc, N_mcTheirs, N_mcNameOurs, N_mcNameAnc, N_mcNameTheirs, N_n, N_orderOk])

@[simp] theorem shouldHandle_N (cfg : Cfg) (m : M) : shouldHandle cfg (N m) = shouldHandle cfg m := by
  simp [shouldHandle]
@[simp] theorem pendingTest_N (m : M) : pendingTest (N m) = pendingTest m := by
  unfold pendingTest; nfields; simp
@[simp] theorem headerLineTest_N (m : M) : headerLineTest (N m) = headerLineTest m := by
  unfold headerLineTest; nfields; simp
@[simp] theorem shouldSkipLine_N (cfg : Cfg) (m : M) : shouldSkipLine cfg (N m) = shouldSkipLine cfg m := by
  simp [shouldSkipLine]

theorem N_N (m : M) : N (N m) = N m := by
  simp [N]

theorem N_emit (m : M) : N (emit m) = N m := by
  simp [N, emit]

theorem N_flushMP (m : M) : N (flushMP m) = via flushMP (N m) := by
  unfold via flushMP
  nfields
  simp only [List.map_eq_nil_iff]
  split
  · rw [N_N]
  · simp [N]

-- ---------------------------------------------------------------- results

def NE : Except String M → Except String M
  | .ok m => .ok (N m)
  | .error e => .error e

def NR : Except String (Bool × M) → Except String (Bool × M)
  | .ok (b, m) => .ok (b, N m)
  | .error e => .error e

@[simp] theorem NE_ok (m : M) : NE (.ok m) = .ok (N m) := rfl
@[simp] theorem NE_error (e : String) : NE (.error e) = .error e := rfl
@[simp] theorem NR_ok (b : Bool) (m : M) : NR (.ok (b, m)) = .ok (b, N m) := rfl
@[simp] theorem NR_error (e : String) : NR (.error e) = .error e := rfl
theorem NR_pair (r : Bool × M) : NR (.ok r) = .ok (r.1, N r.2) := rfl

-- ---------------------------------------------------------------- folded field updates

def updOut (x : M) (rows : List Row) : M := { x with out := x.out ++ rows }
def updModeInfo (x : M) (v : Str) : M := { x with modeInfo := v }
def updHandled (x : M) : M := { x with handledPair := x.currentPair }
/-- a state outside a merge conflict: the name of "ours" is dead -/
def updStQ (x : M) (s : State) : M := { x with st := s, mcNameOurs := none, mcNameAnc := none }

@[simp] theorem Row.er_mk (k : RowKind) (t : Str) (s : Nat) : Row.er ⟨k, t, s⟩ = ⟨k, t, 0⟩ := rfl
@[simp] theorem HLine.er_mk (k : RowKind) (p t : Str) (s : Nat) : HLine.er ⟨k, p, t, s⟩ = ⟨k, p, t, 0⟩ := rfl

@[simp] theorem drawRows_er (s : ElemStyle) (k : RowKind) (t r a : Str) (src : Nat) :
    (drawRows s k t r a src).map Row.er = drawRows s k t r a 0 := by
  unfold drawRows
  cases s.deco <;> simp [Row.er] <;> split <;> rfl

theorem N_direct (m : M) (rows : List Row) (hb : m.buf = []) :
    N (direct m rows) = updOut (N m) (rows.map Row.er) := by
  unfold direct updOut
  split
  · simp_all [N]
  · simp [N, hb]

theorem N_updModeInfo (x : M) (v : Str) : N { x with modeInfo := v } = updModeInfo (N x) v := rfl
theorem N_updHandled (x : M) : N { x with handledPair := x.currentPair } = updHandled (N x) := rfl
theorem N_updStQ (x : M) (s : State) (h : isMergeConflict s = false) :
    N { x with st := s } = updStQ (N x) s.er := by
  simp [N, updStQ, h]

@[simp] theorem isMergeConflict_diffLineState (l : L) : isMergeConflict (diffLineState l) = false := by
  unfold diffLineState; split <;> rfl
@[simp] theorem diffLineState_er (l : L) : (diffLineState l).er = diffLineState l := by
  unfold diffLineState; split <;> rfl

/-- the rows of a header block, erased -/
theorem map_er_blank (c : Bool) (n : Nat) :
    List.map Row.er (if c = true then [] else [{ kind := RowKind.blank, text := [], src := n }]) =
      (if c = true then [] else [{ kind := RowKind.blank, text := [], src := 0 }]) := by
  split <;> rfl

theorem N_writeGeneric (cfg : Cfg) (m : M) (t r : Str) (hb : m.buf = []) :
    N (writeGeneric cfg m t r) = via (fun k => writeGeneric cfg k t r) (N m) := by
  unfold via writeGeneric
  split
  · simp only [↓N_updModeInfo, N_N]
  · simp only [↓N_updModeInfo]
    rw [N_direct _ _ hb, N_direct _ _ (N_buf m)]
    nfields
    simp only [List.map_append, drawRows_er, map_er_blank, N_N]

theorem N_handleHeaderLine (cfg : Cfg) (m : M) (c : Bool) (hb : m.buf = []) :
    N (handleHeaderLine cfg m c) = via (fun k => handleHeaderLine cfg k c) (N m) := by
  unfold via handleHeaderLine
  rw [N_writeGeneric _ _ _ _ hb, N_writeGeneric _ _ _ _ (N_buf m)]
  nfields
  simp only [N_N]

theorem N_pendingDiffName (cfg : Cfg) (m : M) : N (pendingDiffName cfg m) = via (pendingDiffName cfg) (N m) := by
  unfold via pendingDiffName
  simp only [pendingTest_N, shouldHandle_N]
  nfields
  split
  · rw [N_N]
  · split
    · simp only [↓N_updHandled]
      rw [N_writeGeneric _ _ _ _ (emit_buf _), N_writeGeneric _ _ _ _ (emit_buf _)]
      simp only [N_emit, N_N]
    · split
      · rw [N_N]
      · split
        · simp only [↓N_updHandled]
          rw [N_handleHeaderLine _ _ _ (emit_buf _), N_handleHeaderLine _ _ _ (emit_buf _)]
          simp only [N_emit, N_N]
        · rw [N_N]

theorem N_emitLineUnchanged (m : M) (l : L) : N (emitLineUnchanged m l) = via (fun k => emitLineUnchanged k l) (N m) := by
  unfold via emitLineUnchanged
  rw [N_direct _ _ (emit_buf _), N_direct _ _ (emit_buf _)]
  simp only [N_emit, N_flushMP, N_N]
  nfields
  simp

-- ---------------------------------------------------------------- observers of the state alone

def shouldHandleSt (cfg : Cfg) (s : State) : Bool :=
  match getStyle cfg s with
  | some s => !(s.isRaw && s.deco = .none)
  | none => true
/- not `rfl` on purpose: `simp` must rebuild the `Decidable` instances of the conditions it rewrites -/
theorem shouldHandle_eq (cfg : Cfg) (m : M) : shouldHandle cfg m = shouldHandleSt cfg m.st := by
  cases h : getStyle cfg m.st <;> simp [shouldHandle, shouldHandleSt, h]
def shouldSkipSt (cfg : Cfg) (s : State) : Bool := isDiffHeader s && shouldHandleSt cfg s && !cfg.colorOnly
theorem shouldSkipLine_eq (cfg : Cfg) (m : M) : shouldSkipLine cfg m = shouldSkipSt cfg m.st := by
  simp [shouldSkipLine, shouldSkipSt, shouldHandle_eq]
@[simp] theorem shouldHandleSt_er (cfg : Cfg) (s : State) : shouldHandleSt cfg s.er = shouldHandleSt cfg s := by
  simp [shouldHandleSt]
@[simp] theorem shouldSkipSt_er (cfg : Cfg) (s : State) : shouldSkipSt cfg s.er = shouldSkipSt cfg s := by
  simp [shouldSkipSt]

-- ---------------------------------------------------------------- more folded updates

def updStO (x : M) (s : State) (o a : Option Str) : M := { x with st := s, mcNameOurs := o, mcNameAnc := a }
theorem N_updStO (x : M) (s : State) :
    N { x with st := s } =
      updStO (N x) s.er (keepIf (isMergeConflict s) x.mcNameOurs) (keepIf (isMergeConflict s) x.mcNameAnc) := rfl

theorem N_direct_emit (m : M) (rows : List Row) :
    N (direct (emit m) rows) = updOut (N m) (rows.map Row.er) := by
  rw [N_direct _ _ (emit_buf _), N_emit]

theorem N_writeGeneric_emit (cfg : Cfg) (m : M) (t r : Str) :
    N (writeGeneric cfg (emit m) t r) = via (fun k => writeGeneric cfg k t r) (N m) := by
  rw [N_writeGeneric _ _ _ _ (emit_buf _), N_emit]

theorem N_handleHeaderLine_emit (cfg : Cfg) (m : M) (c : Bool) :
    N (handleHeaderLine cfg (emit m) c) = via (fun k => handleHeaderLine cfg k c) (N m) := by
  rw [N_handleHeaderLine _ _ _ (emit_buf _), N_emit]

theorem N_diffLineFields (m : M) (l : L) : N (diffLineFields m l) = diffLineFields (N m) l := rfl

theorem er_commitMeta : State.er (.commitMeta) = .commitMeta := rfl
theorem imc_commitMeta : isMergeConflict (.commitMeta) = false := rfl
theorem er_diffHeader {dt : DiffType} : State.er (.diffHeader dt) = .diffHeader dt := rfl
theorem imc_diffHeader {dt : DiffType} : isMergeConflict (.diffHeader dt) = false := rfl
theorem er_hunkZero {dt : DiffType} : State.er (.hunkZero dt) = .hunkZero dt := rfl
theorem imc_hunkZero {dt : DiffType} : isMergeConflict (.hunkZero dt) = false := rfl
theorem er_hunkMinus {dt : DiffType} : State.er (.hunkMinus dt) = .hunkMinus dt := rfl
theorem imc_hunkMinus {dt : DiffType} : isMergeConflict (.hunkMinus dt) = false := rfl
theorem er_hunkPlus {dt : DiffType} : State.er (.hunkPlus dt) = .hunkPlus dt := rfl
theorem imc_hunkPlus {dt : DiffType} : isMergeConflict (.hunkPlus dt) = false := rfl
theorem er_submoduleLog : State.er (.submoduleLog) = .submoduleLog := rfl
theorem imc_submoduleLog : isMergeConflict (.submoduleLog) = false := rfl
theorem er_submoduleShort {c : Str} : State.er (.submoduleShort c) = .submoduleShort c := rfl
theorem imc_submoduleShort {c : Str} : isMergeConflict (.submoduleShort c) = false := rfl
theorem er_blame : State.er (.blame) = .blame := rfl
theorem imc_blame : isMergeConflict (.blame) = false := rfl
theorem er_gitShowFile : State.er (.gitShowFile) = .gitShowFile := rfl
theorem imc_gitShowFile : isMergeConflict (.gitShowFile) = false := rfl
theorem er_grep : State.er (.grep) = .grep := rfl
theorem imc_grep : isMergeConflict (.grep) = false := rfl
theorem er_unknown : State.er (.unknown) = .unknown := rfl
theorem imc_unknown : isMergeConflict (.unknown) = false := rfl
theorem er_hunkHeader {dt : DiffType} {hh : HunkHeader} {a b : Str} {n : Nat} : State.er (.hunkHeader dt hh a b n) = .hunkHeader dt hh a b 0 := rfl
theorem imc_hunkHeader {dt : DiffType} {hh : HunkHeader} {a b : Str} {n : Nat} : isMergeConflict (.hunkHeader dt hh a b n) = false := rfl
theorem er_mergeConflict {mp : MergeParents} {c : MCCommit} : State.er (.mergeConflict mp c) = .mergeConflict mp c := rfl
theorem imc_mergeConflict {mp : MergeParents} {c : MCCommit} : isMergeConflict (.mergeConflict mp c) = true := rfl

/-- the standard rewriting set: push `N` inwards -/
macro "npush" : tactic =>
  `(tactic| simp only [NR_ok, NE_ok, NR_error, NE_error, N_N, N_emit, N_flushMP, N_pendingDiffName, N_direct_emit,
      N_writeGeneric_emit, N_handleHeaderLine_emit, N_emitLineUnchanged, N_diffLineFields, ↓N_updStO, ↓N_updModeInfo,
      ↓N_updHandled, isMergeConflict_diffLineState, er_commitMeta, er_diffHeader, er_hunkZero, er_hunkMinus, er_hunkPlus, er_submoduleLog, er_submoduleShort, er_blame, er_gitShowFile, er_grep, er_unknown, imc_commitMeta, imc_diffHeader, imc_hunkZero, imc_hunkMinus, imc_hunkPlus, imc_submoduleLog, imc_submoduleShort, imc_blame, imc_gitShowFile, imc_grep, imc_unknown, er_hunkHeader, imc_hunkHeader, er_mergeConflict, imc_mergeConflict, keepIf_false, keepIf_true, drawRows_er,
      diffLineState_er, List.map_append, List.map_cons, List.map_nil, Row.er_mk])

-- ---------------------------------------------------------------- handlers

theorem N_handleCommitMeta (cfg : Cfg) (m : M) (l : L) :
    NR (handleCommitMeta cfg (N m) l) = NR (handleCommitMeta cfg m l) := by
  unfold handleCommitMeta
  simp only [shouldHandle_eq]
  nfields
  split
  · npush
  · split
    · split <;> npush
    · npush

theorem N_handleDiffStat (cfg : Cfg) (m : M) (l : L) :
    NR (handleDiffStat cfg (N m) l) = NR (handleDiffStat cfg m l) := by
  unfold handleDiffStat; npush

theorem N_handleDiffHeaderDiff (cfg : Cfg) (m : M) (l : L) :
    NR (handleDiffHeaderDiff cfg (N m) l) = NR (handleDiffHeaderDiff cfg m l) := by
  unfold handleDiffHeaderDiff
  simp only [shouldSkipLine_eq, diffLineFields_st', pendingDiffName_st']
  split
  · npush
  · split <;> npush

theorem N_shouldWriteGeneric (cfg : Cfg) (m : M) (l : L) :
    NR (.ok (shouldWriteGeneric cfg (N m) l)) = NR (.ok (shouldWriteGeneric cfg m l)) := by
  unfold shouldWriteGeneric
  split <;> npush

theorem N_fileOpUpdate (m : M) (ev : FileEvent) (nm : Str) : N (fileOpUpdate m ev nm) = fileOpUpdate (N m) ev nm := by
  unfold fileOpUpdate; split <;> rfl

theorem shouldWriteGeneric_fst (cfg : Cfg) (m : M) (l : L) : (shouldWriteGeneric cfg m l).1 = cfg.colorOnly := by
  unfold shouldWriteGeneric; split <;> simp_all

theorem N_fileOpFinish (cfg : Cfg) (m : M) (l : L) :
    NR (.ok (fileOpFinish cfg (N m) l)) = NR (.ok (fileOpFinish cfg m l)) := by
  unfold fileOpFinish
  simp only [shouldWriteGeneric_fst, shouldHandle_eq]
  nfields
  have h := N_shouldWriteGeneric cfg m l
  simp only [NR_pair, shouldWriteGeneric_fst, Except.ok.injEq, Prod.mk.injEq, true_and] at h
  split
  · simp only [NR_ok, h]
  · simp only [NR_ok, N_N, shouldHandleSt_er]

theorem N_handleFileOperation (cfg : Cfg) (m : M) (l : L) :
    NR (handleFileOperation cfg (N m) l) = NR (handleFileOperation cfg m l) := by
  unfold handleFileOperation
  simp only [headerLineTest_N]
  nfields
  split
  · npush
  · rw [← N_fileOpUpdate, N_fileOpFinish]

theorem minusLineTest_N (m : M) (l : L) : minusLineTest (N m) l = minusLineTest m l := by
  unfold minusLineTest
  simp only [headerLineTest_N, N_counter, threeDashesExpected_clampC]

def minusUpd (m : M) (pe : Str × FileEvent) : M :=
  { m with minusFile := pe.1, minusEvent := pe.2,
           st := if m.source = .diffUnified then .diffHeader .unified else m.st,
           handledPair := if m.source = .diffUnified then none else m.handledPair }

theorem handleMinusLine_eq (cfg : Cfg) (m : M) (l : L) : handleMinusLine cfg m l =
    if !minusLineTest m l then .ok (false, m) else
      .ok (shouldWriteGeneric cfg (flushMP (minusUpd m (parseDiffHeaderLine l.text (m.source = .gitDiff)))) l) := rfl

theorem N_minusUpd (m : M) (pe : Str × FileEvent) : N (minusUpd m pe) = via (fun k => minusUpd k pe) (N m) := by
  unfold via minusUpd
  nfields
  by_cases h : m.source = .diffUnified
  · simp [N, h, isMergeConflict]
  · simp [N, h]

theorem N_handleMinusLine (cfg : Cfg) (m : M) (l : L) :
    NR (handleMinusLine cfg (N m) l) = NR (handleMinusLine cfg m l) := by
  rw [handleMinusLine_eq, handleMinusLine_eq]
  simp only [minusLineTest_N]
  nfields
  split
  · npush
  · rw [← N_shouldWriteGeneric cfg (flushMP (minusUpd m _)), ← N_shouldWriteGeneric cfg (flushMP (minusUpd (N m) _))]
    simp only [N_flushMP, N_minusUpd, N_N]

def plusUpd (m : M) (pe : Str × FileEvent) : M :=
  { m with plusFile := pe.1, plusEvent := pe.2, currentPair := some (m.minusFile, pe.1) }
theorem N_plusUpd (m : M) (pe : Str × FileEvent) : N (plusUpd m pe) = plusUpd (N m) pe := rfl

theorem plusLineTest_N (m : M) (l : L) : plusLineTest (N m) l = plusLineTest m l := by
  unfold plusLineTest; nfields; simp

theorem handlePlusLine_eq (cfg : Cfg) (m : M) (l : L) : handlePlusLine cfg m l =
    if !plusLineTest m l then .ok (false, m) else
      .ok (plusLineFinish cfg (flushMP (plusUpd m (parseDiffHeaderLine l.text (m.source = .gitDiff)))) l) := rfl

theorem N_plusLineFinish (cfg : Cfg) (m : M) (l : L) :
    NR (.ok (plusLineFinish cfg (N m) l)) = NR (.ok (plusLineFinish cfg m l)) := by
  unfold plusLineFinish
  simp only [shouldWriteGeneric_fst, shouldHandle_eq]
  nfields
  have h := N_shouldWriteGeneric cfg m l
  simp only [NR_pair, shouldWriteGeneric_fst, Except.ok.injEq, Prod.mk.injEq, true_and] at h
  split
  · simp only [NR_ok, h]
  · simp only [shouldHandleSt_er]
    split <;> npush

theorem N_handlePlusLine (cfg : Cfg) (m : M) (l : L) :
    NR (handlePlusLine cfg (N m) l) = NR (handlePlusLine cfg m l) := by
  rw [handlePlusLine_eq, handlePlusLine_eq]
  simp only [plusLineTest_N]
  nfields
  split
  · npush
  · rw [← N_plusLineFinish cfg (flushMP (plusUpd m _)), ← N_plusLineFinish cfg (flushMP (plusUpd (N m) _))]
    simp only [N_flushMP, N_plusUpd, N_N]

theorem clampC_hunkHeaderCounter (m : M) (hh : HunkHeader) :
    clampC (hunkHeaderCounter (N m) hh) = clampC (hunkHeaderCounter m hh) := by
  unfold hunkHeaderCounter
  simp only [N_counter, clampC_gt]
  split
  · rename_i h
    have : clampC m.counter = m.counter := by unfold clampC; split <;> omega
    split <;> simp [this]
  · simp

theorem hunkHeaderDiffType_N (m : M) (l : L) : hunkHeaderDiffType (N m) l = hunkHeaderDiffType m l := by
  unfold hunkHeaderDiffType
  nfields
  cases m.st <;> rfl

-- named field updates applied directly to the machine a handler receives
def setSt (x : M) (s : State) : M := { x with st := s }
def setCounterSt (x : M) (c : Int) (s : State) : M := { x with counter := c, st := s }
def setStModeInfo (x : M) (s : State) (v : Str) : M := { x with st := s, modeInfo := v }
def setFiles (x : M) (a b : Str) : M := { x with minusFile := a, plusFile := b }

theorem N_setSt (x : M) (s : State) (h : isMergeConflict s = false) :
    N (setSt x s) = via (fun k => setSt k s.er) (N x) := by
  simp [N, via, setSt, h]
theorem N_setCounterSt (x : M) (c : Int) (s : State) (h : isMergeConflict s = false) :
    N (setCounterSt x c s) = via (fun k => setCounterSt k (clampC c) s.er) (N x) := by
  simp [N, via, setCounterSt, h]
theorem N_setStModeInfo (x : M) (s : State) (v : Str) (h : isMergeConflict s = false) :
    N (setStModeInfo x s v) = via (fun k => setStModeInfo k s.er v) (N x) := by
  simp [N, via, setStModeInfo, h]
theorem N_setFiles (x : M) (a b : Str) : N (setFiles x a b) = setFiles (N x) a b := rfl

theorem handleHunkHeader_eq (cfg : Cfg) (m : M) (l : L) : handleHunkHeader cfg m l =
    if !(startsWith l.text Markers.hunkHeader && !isMergeConflict m.st) then .ok (false, m) else
      match parseHunkHeader l.text with
      | none => .ok (false, m)
      | some hh => .ok (true, setCounterSt m (hunkHeaderCounter m hh) (.hunkHeader (hunkHeaderDiffType m l) hh l.text l.raw m.n)) := rfl

theorem N_handleHunkHeader (cfg : Cfg) (m : M) (l : L) :
    NR (handleHunkHeader cfg (N m) l) = NR (handleHunkHeader cfg m l) := by
  rw [handleHunkHeader_eq, handleHunkHeader_eq]
  nfields
  simp only [isMergeConflict_er]
  split
  · npush
  · split
    · npush
    · simp only [NR_ok]
      rw [N_setCounterSt _ _ _ rfl, N_setCounterSt _ _ _ rfl]
      simp only [hunkHeaderDiffType_N, clampC_hunkHeaderCounter, N_N, er_hunkHeader, clampC_clampC]

theorem handleModeLine_eq (cfg : Cfg) (m : M) (l : L) : handleModeLine cfg m l =
    match stripPrefix l.text Markers.oldMode with
    | some suf =>
      if shouldHandleSt cfg (.diffHeader .unified) ∧ ¬ cfg.colorOnly then
        .ok (true, setStModeInfo m (.diffHeader .unified) suf)
      else .ok (false, setSt m (.diffHeader .unified))
    | none =>
      match stripPrefix l.text Markers.newMode with
      | some suf =>
        if shouldHandleSt cfg (.diffHeader .unified) ∧ ¬ cfg.colorOnly ∧ m.modeInfo ≠ [] then
          .ok (true, setStModeInfo m (.diffHeader .unified) (modeInfoText cfg m.modeInfo suf))
        else .ok (false, setSt m (.diffHeader .unified))
      | none => .ok (false, m) := by
  unfold handleModeLine
  simp only [shouldHandle_eq]
  rfl

theorem N_handleModeLine (cfg : Cfg) (m : M) (l : L) :
    NR (handleModeLine cfg (N m) l) = NR (handleModeLine cfg m l) := by
  rw [handleModeLine_eq, handleModeLine_eq]
  nfields
  split
  · split
    · simp only [NR_ok]; rw [N_setStModeInfo _ _ _ rfl, N_setStModeInfo _ _ _ rfl, N_N]
    · simp only [NR_ok]; rw [N_setSt _ _ rfl, N_setSt _ _ rfl, N_N]
  · split
    · split
      · simp only [NR_ok]; rw [N_setStModeInfo _ _ _ rfl, N_setStModeInfo _ _ _ rfl, N_N]
      · simp only [NR_ok]; rw [N_setSt _ _ rfl, N_setSt _ _ rfl, N_N]
    · npush

theorem N_handleAdditionalCases (cfg : Cfg) (m : M) (l : L) (to : State) (h : isMergeConflict to = false) :
    NR (handleAdditionalCases cfg (N m) l to.er) = NR (handleAdditionalCases cfg m l to) := by
  unfold handleAdditionalCases
  simp only [shouldHandle_eq, shouldHandleSt_er]
  split
  · npush
    simp only [h, keepIf_false, isMergeConflict_er, State.er_er]
  · npush
    simp only [h, keepIf_false, isMergeConflict_er, State.er_er]

theorem handleMisc_eq (cfg : Cfg) (m : M) (l : L) : handleMisc cfg m l =
    if !(m.source = .diffUnified && startsWith l.text Markers.onlyIn) && !(startsWith l.text Markers.binaryFiles) then .ok (false, m)
    else if ¬ cfg.colorOnly ∧ startsWith l.text Markers.binaryFiles then
      if m.minusFile = [] ∧ m.plusFile = [] then
        .ok (true, { emitLineUnchanged m l with handledPair := (emitLineUnchanged m l).currentPair })
      else
        .ok (true, setFiles m (if m.minusFile ≠ Markers.devNull then m.minusFile ++ binarySuffix else m.minusFile)
          (if m.plusFile ≠ Markers.devNull then m.plusFile ++ binarySuffix else m.plusFile))
    else
      handleAdditionalCases cfg m l (if isDiffHeader m.st then m.st else .diffHeader .unified) := rfl

theorem N_handleMisc (cfg : Cfg) (m : M) (l : L) :
    NR (handleMisc cfg (N m) l) = NR (handleMisc cfg m l) := by
  rw [handleMisc_eq, handleMisc_eq]
  nfields
  simp only [isDiffHeader_er]
  split
  · npush
  · split
    · split
      · npush
      · simp only [NR_ok, N_setFiles, N_N]
    · by_cases hd : isDiffHeader m.st = true
      · simp only [hd, if_true]
        exact N_handleAdditionalCases cfg m l m.st (by cases hs : m.st <;> simp [hs, isDiffHeader] at hd ⊢ <;> rfl)
      · simp only [hd, if_false]
        exact N_handleAdditionalCases cfg m l (.diffHeader .unified) rfl

theorem N_handleSubmoduleLog (cfg : Cfg) (m : M) (l : L) :
    NR (handleSubmoduleLog cfg (N m) l) = NR (handleSubmoduleLog cfg m l) := by
  unfold handleSubmoduleLog
  split
  · npush
  · have hN : N (pendingDiffName cfg (flushMP (N m))) = N (pendingDiffName cfg (flushMP m)) := by
      rw [N_pendingDiffName, N_pendingDiffName, N_flushMP, N_flushMP, N_N]
    exact ((N_handleAdditionalCases cfg (pendingDiffName cfg (flushMP (N m))) l .submoduleLog rfl).symm.trans
      (by rw [hN])).trans (N_handleAdditionalCases cfg (pendingDiffName cfg (flushMP m)) l .submoduleLog rfl)

theorem submoduleShortTest_N (m : M) (l : L) : submoduleShortTest (N m) l = submoduleShortTest m l := by
  unfold submoduleShortTest
  nfields
  cases m.st <;> simp [State.er, isHunkHeader, pairableHunkHeader]

theorem handleSubmoduleShort_eq (cfg : Cfg) (m : M) (l : L) : handleSubmoduleShort cfg m l =
    if !submoduleShortTest m l || cfg.colorOnly then .ok (false, m)
    else
      match l.submodule with
      | none => .ok (false, m)
      | some commit =>
        match m.st with
        | .hunkHeader .. => .ok (true, setSt m (.submoduleShort commit))
        | .submoduleShort minusCommit =>
          .ok (true, direct (emit (flushMP m))
            [{ kind := .submodule, text := minusCommit.take 12 ++ ['.', '.'] ++ commit.take 12, src := m.n }])
        | _ => .ok (true, m) := by
  unfold handleSubmoduleShort
  split
  · rfl
  · cases hsub : l.submodule with
    | none => rfl
    | some c => cases hs : m.st <;> rfl

theorem N_handleSubmoduleShort (cfg : Cfg) (m : M) (l : L) :
    NR (handleSubmoduleShort cfg (N m) l) = NR (handleSubmoduleShort cfg m l) := by
  rw [handleSubmoduleShort_eq, handleSubmoduleShort_eq]
  simp only [submoduleShortTest_N]
  split
  · npush
  · split
    · npush
    · nfields
      cases hs : m.st <;> simp only [State.er] <;> first | (simp only [NR_ok]; rw [N_setSt _ _ rfl, N_setSt _ _ rfl, N_N]; done) | npush

theorem N_handleGitShowFile (cfg : Cfg) (m : M) (l : L) :
    NR (handleGitShowFile cfg (N m) l) = NR (handleGitShowFile cfg m l) := by
  unfold handleGitShowFile; npush

theorem N_handleBlame (cfg : Cfg) (m : M) (l : L) :
    NR (handleBlame cfg (N m) l) = NR (handleBlame cfg m l) := by
  unfold handleBlame
  nfields
  simp only [er_eq_blame, er_eq_unknown]
  split <;> npush

theorem N_handleGrep (cfg : Cfg) (m : M) (l : L) :
    NR (handleGrep cfg (N m) l) = NR (handleGrep cfg m l) := by
  unfold handleGrep
  nfields
  simp only [er_eq_grep, er_eq_unknown]
  split
  · split <;> npush
  · npush

theorem N_handleShouldSkip (cfg : Cfg) (m : M) (l : L) :
    NR (handleShouldSkip cfg (N m) l) = NR (handleShouldSkip cfg m l) := by
  unfold handleShouldSkip
  simp only [shouldSkipLine_N]; npush

theorem N_handleEmitUnchanged (cfg : Cfg) (m : M) (l : L) :
    NR (handleEmitUnchanged cfg (N m) l) = NR (handleEmitUnchanged cfg m l) := by
  unfold handleEmitUnchanged; npush

def mapRows (f : List Row → List Row) : Except String (List Row) → Except String (List Row)
  | .ok r => .ok (f r)
  | .error e => .error e

/-- the hunk-header rows depend on the machine only through the two file names; erasing them
gives the rows for `src = 0` -/
theorem hunkHeaderRows_er (cfg : Cfg) (m1 m2 : M) (hh : HunkHeader) (line raw : Str) (src : Nat)
    (hp : m1.plusFile = m2.plusFile) (hm : m1.minusFile = m2.minusFile) :
    mapRows (List.map Row.er) (hunkHeaderRows cfg m1 hh line raw src) = hunkHeaderRows cfg m2 hh line raw 0 := by
  have ht : hunkHeaderText cfg m1 hh line = hunkHeaderText cfg m2 hh line := by
    unfold hunkHeaderText hunkHeaderTextOf
    rw [hp, hm]
  unfold hunkHeaderRows
  simp only [ht]
  split
  · split <;> simp [mapRows]
  · split
    · simp [mapRows]
    · cases hunkHeaderText cfg m2 hh line with
      | error e => rfl
      | ok o =>
        cases o with
        | none => simp only [mapRows]; split <;> rfl
        | some t => simp only [mapRows, List.map_append, drawRows_er]; split <;> rfl

@[simp] theorem flushMP_plusFile (m : M) : (flushMP m).plusFile = m.plusFile := by unfold flushMP; split <;> rfl
@[simp] theorem flushMP_minusFile (m : M) : (flushMP m).minusFile = m.minusFile := by unfold flushMP; split <;> rfl
@[simp] theorem flushMP_counter (m : M) : (flushMP m).counter = m.counter := by unfold flushMP; split <;> rfl

theorem N_emitHunkHeader (cfg : Cfg) (m : M) (hh : HunkHeader) (line raw : Str) (src : Nat) :
    NE (emitHunkHeader cfg (N m) hh line raw 0) = NE (emitHunkHeader cfg m hh line raw src) := by
  unfold emitHunkHeader
  have h1 := hunkHeaderRows_er cfg (emit (flushMP m)) (emit (flushMP (N m))) hh line raw src
    (by show (flushMP m).plusFile = (flushMP (N m)).plusFile; simp)
    (by show (flushMP m).minusFile = (flushMP (N m)).minusFile; simp)
  cases h2 : hunkHeaderRows cfg (emit (flushMP m)) hh line raw src with
  | error e => rw [h2] at h1; simp only [mapRows] at h1; rw [← h1]
  | ok rows =>
    rw [h2] at h1; simp only [mapRows] at h1; rw [← h1]
    npush
    simp

def preFlush (cfg : Cfg) (m : M) : M :=
  if m.minus.length > cfg.bufSize ∨ m.plus.length > cfg.bufSize then flushMP m else m

theorem preFlush_st (cfg : Cfg) (m : M) : (preFlush cfg m).st = m.st := by
  unfold preFlush; split <;> simp

theorem N_preFlush (cfg : Cfg) (m : M) : N (preFlush cfg m) = via (preFlush cfg) (N m) := by
  unfold via preFlush
  nfields
  simp only [List.length_map]
  split
  · simp only [N_flushMP, N_N]
  · rw [N_N]

theorem hunkLinePre_eq (cfg : Cfg) (m : M) : hunkLinePre cfg m =
    match (preFlush cfg m).st with
    | .hunkHeader _ hh line raw src => emitHunkHeader cfg (preFlush cfg m) hh line raw src
    | _ => .ok (preFlush cfg m) := rfl

theorem N_hunkLinePre (cfg : Cfg) (m : M) : NE (hunkLinePre cfg (N m)) = NE (hunkLinePre cfg m) := by
  rw [hunkLinePre_eq, hunkLinePre_eq]
  have e1 : N (preFlush cfg (N m)) = N (preFlush cfg m) := by simp only [N_preFlush, N_N]
  have h1 := preFlush_st cfg m
  have h2 : (preFlush cfg (N m)).st = m.st.er := preFlush_st cfg (N m)
  cases hs : m.st with
  | hunkHeader dt hh line raw src =>
    rw [hs] at h1 h2
    simp only [State.er] at h2
    simp only [h1, h2]
    rw [← N_emitHunkHeader cfg (preFlush cfg (N m)) hh line raw 0, e1, N_emitHunkHeader]
  | _ =>
    rw [hs] at h1 h2
    simp only [State.er] at h2
    simp only [h1, h2, NE_ok, e1]

def pushMinus (x : M) (h : HLine) (dt : DiffType) : M :=
  { x with minus := x.minus ++ [h], counter := x.counter - 1, st := .hunkMinus dt }
def pushPlus (x : M) (h : HLine) (dt : DiffType) : M :=
  { x with plus := x.plus ++ [h], st := .hunkPlus dt }
def pushZero (x : M) (r : Row) (dt : DiffType) : M :=
  { x with buf := x.buf ++ [r], counter := x.counter - 1, st := .hunkZero dt }
def pushOther (x : M) (r : Row) (dt : DiffType) : M :=
  { x with buf := x.buf ++ [r], st := .hunkZero dt }

theorem stateDiffType_er (s : State) : stateDiffType s.er = stateDiffType s := by
  cases s <;> rfl

theorem N_pushMinus (x : M) (h : HLine) (dt : DiffType) :
    N (pushMinus x h dt) = via (fun k => pushMinus k h.er dt) (N x) := by
  simp [N, via, pushMinus, isMergeConflict]
theorem N_pushPlus (x : M) (h : HLine) (dt : DiffType) :
    N (pushPlus x h dt) = via (fun k => pushPlus k h.er dt) (N x) := by
  simp [N, via, pushPlus, isMergeConflict]
theorem N_pushZero (x : M) (r : Row) (dt : DiffType) :
    N (pushZero x r dt) = via (fun k => pushZero k r.er dt) (N x) := by
  simp [N, via, pushZero, isMergeConflict]
theorem N_pushOther (x : M) (r : Row) (dt : DiffType) :
    N (pushOther x r dt) = via (fun k => pushOther k r.er dt) (N x) := by
  simp [N, via, pushOther, isMergeConflict]

def flushIfPlus (m : M) : M := if isHunkPlus m.st then flushMP m else m

theorem N_flushIfPlus (m : M) : N (flushIfPlus m) = via flushIfPlus (N m) := by
  unfold via flushIfPlus
  nfields
  simp only [isHunkPlus_er]
  split
  · simp only [N_flushMP, N_N]
  · rw [N_N]

theorem hunkLinePush_eq (cfg : Cfg) (m2 : M) (l : L) : hunkLinePush cfg m2 l =
    match newLineState m2.st l with
    | .error e => .error e
    | .ok (some (.minus, dt)) =>
      match nParents dt with
      | .error e => .error e
      | .ok n => .ok (pushMinus (flushIfPlus m2) ⟨.minus, paintedPrefix cfg .minus dt, prepare cfg n l, m2.n⟩ dt)
    | .ok (some (.plus, dt)) =>
      match nParents dt with
      | .error e => .error e
      | .ok n => .ok (pushPlus m2 ⟨.plus, paintedPrefix cfg .plus dt, prepare cfg n l, m2.n⟩ dt)
    | .ok (some (.zero, dt)) =>
      match nParents dt with
      | .error e => .error e
      | .ok n => .ok (pushZero (flushMP m2) ⟨.zero, paintedPrefix cfg .zero dt ++ prepare cfg n l, m2.n⟩ dt)
    | .ok none => .ok (pushOther (flushMP m2) ⟨.other, Text.expand cfg.tab l.raw, m2.n⟩ (stateDiffType m2.st)) := by
  unfold hunkLinePush
  cases newLineState m2.st l with
  | error e => rfl
  | ok o =>
    cases o with
    | none => rfl
    | some p =>
      obtain ⟨k, dt⟩ := p
      cases k <;> (simp only; cases nParents dt <;> rfl)

theorem newLineState_er (s : State) (l : L) : newLineState s.er l = newLineState s l := by
  unfold newLineState; simp only [hunkDiffType_er]

theorem N_hunkLinePush (cfg : Cfg) (m : M) (l : L) : NE (hunkLinePush cfg (N m) l) = NE (hunkLinePush cfg m l) := by
  rw [hunkLinePush_eq, hunkLinePush_eq]
  nfields
  simp only [newLineState_er]
  cases newLineState m.st l with
  | error e => rfl
  | ok o =>
    cases o with
    | none => simp only [NE_ok, N_pushOther, N_flushMP, N_N, Row.er_mk, stateDiffType_er]
    | some p =>
      obtain ⟨k, dt⟩ := p
      cases k <;> (simp only; cases nParents dt <;>
        simp only [NE_ok, NE_error, N_pushMinus, N_pushPlus, N_pushZero, N_flushIfPlus, N_flushMP, N_N, Row.er_mk, HLine.er_mk])

theorem N_handleHunkLine (cfg : Cfg) (m : M) (l : L) :
    NR (handleHunkLine cfg (N m) l) = NR (handleHunkLine cfg m l) := by
  unfold handleHunkLine
  nfields
  simp only [isHunkState_er]
  split
  · npush
  · have h1 := N_hunkLinePre cfg m
    cases hp : hunkLinePre cfg m with
    | error e =>
      rw [hp] at h1
      cases hq : hunkLinePre cfg (N m) with
      | error e' => rw [hq] at h1; simp only [NE_error, Except.error.injEq] at h1; simp [h1]
      | ok m2' => rw [hq] at h1; simp at h1
    | ok m2 =>
      rw [hp] at h1
      cases hq : hunkLinePre cfg (N m) with
      | error e' => rw [hq] at h1; simp at h1
      | ok m2' =>
        rw [hq] at h1
        simp only [NE_ok, Except.ok.injEq] at h1
        simp only
        have h2 : NE (hunkLinePush cfg m2' l) = NE (hunkLinePush cfg m2 l) := by
          rw [← N_hunkLinePush cfg m2', ← N_hunkLinePush cfg m2, h1]
        cases hx : hunkLinePush cfg m2 l with
        | error e =>
          rw [hx] at h2
          cases hy : hunkLinePush cfg m2' l with
          | error e' => rw [hy] at h2; simp only [NE_error, Except.error.injEq] at h2; simp [h2]
          | ok m3' => rw [hy] at h2; simp at h2
        | ok m3 =>
          rw [hx] at h2
          cases hy : hunkLinePush cfg m2' l with
          | error e' => rw [hy] at h2; simp at h2
          | ok m3' =>
            rw [hy] at h2
            simp only [NE_ok, Except.ok.injEq] at h2
            simp only [NR_ok, N_emit, h2]

/-- the rows of a painted conflict region, from a normal form (`src = 0`) -/
def mcRowsN (cfg : Cfg) (k : M) (theirs : Str) : List Row :=
  [{ kind := .mcBar, text := cfg.mcBeginSymbol, src := 0 }] ++
  mcHeaderRows cfg k k.mcNameOurs 0 ++ k.mcAnc.map HLine.row ++ k.mcOurs.map HLine.row ++
  mcHeaderRows cfg k (some theirs) 0 ++ k.mcAnc.map HLine.row ++ k.mcTheirs.map HLine.row ++
  [{ kind := .mcBar, text := cfg.mcEndSymbol, src := 0 }]

def paintedN (cfg : Cfg) (k : M) (theirs : Str) (mp : MergeParents) : M :=
  { k with out := k.out ++ mcRowsN cfg k theirs, mcOurs := [], mcAnc := [], mcTheirs := [],
           st := .hunkZero (.combined mp false), mcNameOurs := none, mcNameAnc := none }

theorem N_paintMC (cfg : Cfg) (m : M) (c : Str) (mp : MergeParents) (h : isMergeConflict m.st = true) :
    N (paintMergeConflict cfg { m with mcNameTheirs := some c } mp) = paintedN cfg (N m) c mp := by
  simp [paintMergeConflict, mcPaintOne, direct, emit, mcHeaderRows, N, paintedN, mcRowsN, h, imc_hunkZero, er_hunkZero]


def NO : Option M → Option M
  | some m => some (N m)
  | none => none
@[simp] theorem NO_some (m : M) : NO (some m) = some (N m) := rfl
@[simp] theorem NO_none : NO none = none := rfl
theorem NO_orElse (a b : Option M) : NO (a <|> b) = (NO a <|> NO b) := by
  cases a <;> simp [NO]

def setStAnc (x : M) (s : State) (o : Option Str) : M := { x with st := s, mcNameAnc := o }
def setOurs (x : M) (hs : List HLine) : M := { x with mcOurs := hs }
def setAnc (x : M) (hs : List HLine) : M := { x with mcAnc := hs }
def setTheirs (x : M) (hs : List HLine) : M := { x with mcTheirs := hs }

theorem N_setStAnc (x : M) (mp : MergeParents) (c : MCCommit) (o : Option Str) (h : isMergeConflict x.st = true) :
    N (setStAnc x (.mergeConflict mp c) o) = via (fun k => setStAnc k (.mergeConflict mp c) o) (N x) := by
  simp [N, via, setStAnc, h, imc_mergeConflict, er_mergeConflict]
theorem N_setSt_mc (x : M) (mp : MergeParents) (c : MCCommit) (h : isMergeConflict x.st = true) :
    N (setSt x (.mergeConflict mp c)) = via (fun k => setSt k (.mergeConflict mp c)) (N x) := by
  simp [N, via, setSt, h, imc_mergeConflict, er_mergeConflict]
theorem N_setOurs (x : M) (hs : List HLine) : N (setOurs x hs) = via (fun k => setOurs k (hs.map HLine.er)) (N x) := by
  simp [N, via, setOurs]
theorem N_setAnc (x : M) (hs : List HLine) : N (setAnc x hs) = via (fun k => setAnc k (hs.map HLine.er)) (N x) := by
  simp [N, via, setAnc]
theorem N_setTheirs (x : M) (hs : List HLine) : N (setTheirs x hs) = via (fun k => setTheirs k (hs.map HLine.er)) (N x) := by
  simp [N, via, setTheirs]

theorem enterAncestral_eq (m : M) (l : L) (mp : MergeParents) : enterAncestral m l mp =
    (parseMergeMarker l.text Markers.mcAncestral).map fun c => setStAnc m (.mergeConflict mp .ancestral) (some c) := rfl
theorem enterTheirs_eq (m : M) (l : L) (mp : MergeParents) : enterTheirs m l mp =
    if startsWith l.text Markers.mcTheirs then some (setSt m (.mergeConflict mp .theirs)) else none := rfl

theorem N_enterAncestral (m : M) (l : L) (mp : MergeParents) (h : isMergeConflict m.st = true) :
    NO (enterAncestral (N m) l mp) = NO (enterAncestral m l mp) := by
  rw [enterAncestral_eq, enterAncestral_eq]
  cases parseMergeMarker l.text Markers.mcAncestral with
  | none => rfl
  | some c =>
    simp only [Option.map_some, NO_some]
    rw [N_setStAnc _ _ _ _ h, N_setStAnc _ _ _ _ (by simpa using h), N_N]

theorem N_enterTheirs (m : M) (l : L) (mp : MergeParents) (h : isMergeConflict m.st = true) :
    NO (enterTheirs (N m) l mp) = NO (enterTheirs m l mp) := by
  rw [enterTheirs_eq, enterTheirs_eq]
  split
  · simp only [NO_some]
    rw [N_setSt_mc _ _ _ h, N_setSt_mc _ _ _ (by simpa using h), N_N]
  · rfl

theorem N_exitMergeConflict (cfg : Cfg) (m : M) (l : L) (mp : MergeParents) (h : isMergeConflict m.st = true) :
    NO (exitMergeConflict cfg (N m) l mp) = NO (exitMergeConflict cfg m l mp) := by
  unfold exitMergeConflict
  cases parseMergeMarker l.text Markers.mcEnd with
  | none => rfl
  | some c =>
    simp only [Option.map_some, NO_some]
    rw [N_paintMC cfg m c mp h, N_paintMC cfg (N m) c mp (by simpa using h), N_N]

theorem storeLine_eq (cfg : Cfg) (m : M) (l : L) (c : MCCommit) (mp : MergeParents) (k : RowKind) :
    storeLine cfg m l c mp k =
    match nParents (.combined mp true) with
    | .error e => .error e
    | .ok n =>
      match c with
      | .ours => .ok (setOurs m (m.mcOurs ++ [⟨k, if cfg.keepMarkers then (if k = .minus then ['-'] else ['+']) else [], prepare cfg n l, m.n⟩]))
      | .ancestral => .ok (setAnc m (m.mcAnc ++ [⟨k, if cfg.keepMarkers then (if k = .minus then ['-'] else ['+']) else [], prepare cfg n l, m.n⟩]))
      | .theirs => .ok (setTheirs m (m.mcTheirs ++ [⟨k, if cfg.keepMarkers then (if k = .minus then ['-'] else ['+']) else [], prepare cfg n l, m.n⟩])) := by
  unfold storeLine
  cases nParents (.combined mp true) with
  | error e => rfl
  | ok n => cases c <;> rfl

theorem N_storeLine (cfg : Cfg) (m : M) (l : L) (c : MCCommit) (mp : MergeParents) (k : RowKind) :
    NE (storeLine cfg (N m) l c mp k) = NE (storeLine cfg m l c mp k) := by
  rw [storeLine_eq, storeLine_eq]
  nfields
  cases nParents (.combined mp true) with
  | error e => rfl
  | ok n =>
    cases c <;>
      simp only [NE_ok, N_setOurs, N_setAnc, N_setTheirs, N_N, List.map_append, List.map_cons, List.map_nil,
        HLine.er_mk, map_her_her]

theorem N_storeOr {o o' : Option M} {a a' : Except String M} (ho : NO o' = NO o) (ha : NE a' = NE a) :
    NR (storeOr o' a') = NR (storeOr o a) := by
  unfold storeOr
  cases o with
  | some x =>
    cases o' with
    | some x' => simp only [NO_some, Option.some.injEq] at ho; simp [ho]
    | none => simp at ho
  | none =>
    cases o' with
    | some x' => simp at ho
    | none =>
      simp only
      cases a with
      | error e =>
        cases a' with
        | error e' => simp only [NE_error, Except.error.injEq] at ha; simp [ha]
        | ok y' => simp at ha
      | ok y =>
        cases a' with
        | error e' => simp at ha
        | ok y' => simp only [NE_ok, Except.ok.injEq] at ha; simp [ha]

def setStOurs (x : M) (s : State) (o a : Option Str) : M := { x with st := s, mcNameOurs := o, mcNameAnc := a }
theorem N_setStOurs (x : M) (s : State) (o a : Option Str) :
    N { x with st := s, mcNameOurs := o, mcNameAnc := a } =
      updStO (N x) s.er (keepIf (isMergeConflict s) o) (keepIf (isMergeConflict s) a) := rfl

theorem N_mcPendingHeader (cfg : Cfg) (m : M) : NE (mcPendingHeader cfg (N m)) = NE (mcPendingHeader cfg m) := by
  unfold mcPendingHeader
  have h2 : (N m).st = m.st.er := rfl
  cases hs : m.st with
  | hunkHeader dt hh line raw src =>
    rw [hs] at h2
    simp only [State.er] at h2
    simp only [h2]
    exact N_emitHunkHeader cfg m hh line raw src
  | _ =>
    rw [hs] at h2
    simp only [State.er] at h2
    simp only [h2, NE_ok, N_N]

theorem N_handleMergeConflict (cfg : Cfg) (m : M) (l : L) :
    NR (handleMergeConflict cfg (N m) l) = NR (handleMergeConflict cfg m l) := by
  unfold handleMergeConflict
  split
  · npush
  · nfields
    simp only [hunkCombinedParents_er]
    cases hp : hunkCombinedParents m.st with
    | some mp =>
      simp only
      cases parseMergeMarker l.text Markers.mcBegin with
      | some c =>
        simp only
        have h1 := N_mcPendingHeader cfg m
        cases hq : mcPendingHeader cfg m with
        | error e =>
          rw [hq] at h1
          cases hr : mcPendingHeader cfg (N m) with
          | error e' => rw [hr] at h1; simp only [NE_error] at h1; cases h1; rfl
          | ok x => rw [hr] at h1; simp at h1
        | ok m1 =>
          rw [hq] at h1
          cases hr : mcPendingHeader cfg (N m) with
          | error e' => rw [hr] at h1; simp at h1
          | ok x =>
            rw [hr] at h1
            simp only [NE_ok, Except.ok.injEq] at h1
            simp only [NR_ok, ↓N_setStOurs, N_flushMP, h1]
      | none => npush
    | none =>
      simp only
      cases hs : m.st with
      | mergeConflict mp c =>
        have h : isMergeConflict m.st = true := by rw [hs]; rfl
        cases c <;> simp only [State.er]
        · exact N_storeOr (by simp only [NO_orElse, N_enterAncestral _ _ _ h, N_enterTheirs _ _ _ h, N_exitMergeConflict _ _ _ _ h])
            (N_storeLine ..)
        · exact N_storeOr (by simp only [NO_orElse, N_enterTheirs _ _ _ h, N_exitMergeConflict _ _ _ _ h]) (N_storeLine ..)
        · exact N_storeOr (by simp only [N_exitMergeConflict _ _ _ _ h]) (N_storeLine ..)
      | _ => simp only [State.er]; npush

theorem N_handlerOf {name : String} {hd : Handler} (hn : handlerOf name = some hd) (cfg : Cfg) (m : M) (l : L) :
    NR (hd cfg (N m) l) = NR (hd cfg m l) := by
  unfold handlerOf at hn
  split at hn <;> first
    | (cases hn
       first
         | exact N_handleCommitMeta cfg m l | exact N_handleDiffStat cfg m l
         | exact N_handleDiffHeaderDiff cfg m l | exact N_handleFileOperation cfg m l
         | exact N_handleMinusLine cfg m l | exact N_handlePlusLine cfg m l
         | exact N_handleHunkHeader cfg m l | exact N_handleModeLine cfg m l
         | exact N_handleMisc cfg m l | exact N_handleSubmoduleLog cfg m l
         | exact N_handleSubmoduleShort cfg m l | exact N_handleMergeConflict cfg m l
         | exact N_handleHunkLine cfg m l | exact N_handleGitShowFile cfg m l
         | exact N_handleBlame cfg m l | exact N_handleGrep cfg m l
         | exact N_handleShouldSkip cfg m l | exact N_handleEmitUnchanged cfg m l)
    | cases hn

/-- two results that agree after normalisation -/
theorem NR_cases {x y : Except String (Bool × M)} (h : NR x = NR y) :
    (∃ e, x = .error e ∧ y = .error e) ∨ (∃ b a c, x = .ok (b, a) ∧ y = .ok (b, c) ∧ N a = N c) := by
  cases x with
  | error e =>
    cases y with
    | error e' => simp only [NR_error, Except.error.injEq] at h; exact Or.inl ⟨e, rfl, by rw [h]⟩
    | ok q => obtain ⟨b, c⟩ := q; simp at h
  | ok q =>
    obtain ⟨b, a⟩ := q
    cases y with
    | error e' => simp at h
    | ok q' =>
      obtain ⟨b', c⟩ := q'
      simp only [NR_ok, Except.ok.injEq, Prod.mk.injEq] at h
      exact Or.inr ⟨b, a, c, rfl, by rw [h.1], h.2⟩

theorem NE_cases {x y : Except String M} (h : NE x = NE y) :
    (∃ e, x = .error e ∧ y = .error e) ∨ (∃ a c, x = .ok a ∧ y = .ok c ∧ N a = N c) := by
  cases x with
  | error e =>
    cases y with
    | error e' => simp only [NE_error, Except.error.injEq] at h; exact Or.inl ⟨e, rfl, by rw [h]⟩
    | ok c => simp at h
  | ok a =>
    cases y with
    | error e' => simp at h
    | ok c => simp only [NE_ok, Except.ok.injEq] at h; exact Or.inr ⟨a, c, rfl, rfl, h⟩

theorem N_chain (cfg : Cfg) (l : L) : ∀ (names : List String) (m : M),
    NE (chain cfg l names (N m)) = NE (chain cfg l names m)
  | [], m => by simp only [chain, NE_ok, N_N]
  | name :: rest, m => by
    simp only [chain]
    cases hn : handlerOf name with
    | none => rfl
    | some hd =>
      simp only
      rcases NR_cases (N_handlerOf hn cfg m l) with ⟨e, h1, h2⟩ | ⟨b, a, c, h1, h2, h3⟩
      · rw [h1, h2]
      · rw [h1, h2]
        cases b
        · simp only
          rw [← N_chain cfg l rest a, ← N_chain cfg l rest c, h3]
        · simp only [NE_ok, h3]

theorem chain_congr (cfg : Cfg) (l : L) (names : List String) {a b : M} (h : N a = N b) :
    NE (chain cfg l names a) = NE (chain cfg l names b) := by
  rw [← N_chain cfg l names a, ← N_chain cfg l names b, h]

theorem N_stepInit (m : M) (l : L) : N (stepInit (N m) l) = N (stepInit m l) := by
  unfold stepInit armCounter
  nfields
  split
  · split
    · split <;> simp [N]
    · split <;> simp [N]
  · rw [N_N]

theorem N_bump (m : M) (k : Nat) : N { m with n := k } = N m := rfl

theorem N_step (cfg : Cfg) (m : M) (l : L) : NE (step cfg (N m) l) = NE (step cfg m l) := by
  unfold step
  rcases NE_cases (chain_congr cfg l Generated.handlerOrder (N_stepInit m l)) with ⟨e, h1, h2⟩ | ⟨a, c, h1, h2, h3⟩
  · rw [h1, h2]
  · rw [h1, h2]
    simp only [NE_ok, N_bump, h3]

theorem step_congr (cfg : Cfg) (l : L) {a b : M} (h : N a = N b) : NE (step cfg a l) = NE (step cfg b l) := by
  rw [← N_step cfg a, ← N_step cfg b, h]

theorem runFrom_congr (cfg : Cfg) : ∀ (ls : List L) {a b : M}, N a = N b →
    NE (runFrom cfg a ls) = NE (runFrom cfg b ls)
  | [], a, b, h => by simp only [runFrom, NE_ok, h]
  | l :: ls, a, b, h => by
    simp only [runFrom]
    rcases NE_cases (step_congr cfg l h) with ⟨e, h1, h2⟩ | ⟨a', c', h1, h2, h3⟩
    · rw [h1, h2]
    · rw [h1, h2]; exact runFrom_congr cfg ls h3

theorem tailOp_congr (cfg : Cfg) (op : String) {a b : M} (h : N a = N b) :
    NE (tailOp cfg a op) = NE (tailOp cfg b op) := by
  unfold tailOp
  split
  · simp only [NE_ok, N_flushMP, h]
  · simp only [NE_ok, N_pendingDiffName, h]
  · simp only [NE_ok, N_emit, h]
  · rfl

theorem tailOps_congr (cfg : Cfg) : ∀ (ops : List String) {a b : M}, N a = N b →
    NE (tailOps cfg ops a) = NE (tailOps cfg ops b)
  | [], a, b, h => by simp only [tailOps, NE_ok, h]
  | op :: rest, a, b, h => by
    simp only [tailOps]
    rcases NE_cases (tailOp_congr cfg op h) with ⟨e, h1, h2⟩ | ⟨a', c', h1, h2, h3⟩
    · rw [h1, h2]
    · rw [h1, h2]; exact tailOps_congr cfg rest h3

theorem finish_congr (cfg : Cfg) {a b : M} (h : N a = N b) : NE (finish cfg a) = NE (finish cfg b) :=
  tailOps_congr cfg _ h

/-- run the rest of the input, then the tail of `consume` -/
def cont (cfg : Cfg) (m : M) (ls : List L) : Except String M :=
  match runFrom cfg m ls with
  | .error e => .error e
  | .ok m' => finish cfg m'

theorem cont_congr (cfg : Cfg) (ls : List L) {a b : M} (h : N a = N b) :
    NE (cont cfg a ls) = NE (cont cfg b ls) := by
  unfold cont
  rcases NE_cases (runFrom_congr cfg ls h) with ⟨e, h1, h2⟩ | ⟨a', c', h1, h2, h3⟩
  · rw [h1, h2]
  · rw [h1, h2]; exact finish_congr cfg h3

-- ================================================================ prefix independence

/-- `p` written before everything else -/
def P (p : List Row) (m : M) : M := { m with out := p ++ m.out }

section pfields
variable (p : List Row) (m : M)
@[simp] theorem P_st : (P p m).st = m.st := rfl
@[simp] theorem P_source : (P p m).source = m.source := rfl
@[simp] theorem P_minusFile : (P p m).minusFile = m.minusFile := rfl
@[simp] theorem P_plusFile : (P p m).plusFile = m.plusFile := rfl
@[simp] theorem P_minusEvent : (P p m).minusEvent = m.minusEvent := rfl
@[simp] theorem P_plusEvent : (P p m).plusEvent = m.plusEvent := rfl
@[simp] theorem P_diffLine : (P p m).diffLine = m.diffLine := rfl
@[simp] theorem P_diffLineG : (P p m).diffLineG = m.diffLineG := rfl
@[simp] theorem P_modeInfo : (P p m).modeInfo = m.modeInfo := rfl
@[simp] theorem P_currentPair : (P p m).currentPair = m.currentPair := rfl
@[simp] theorem P_handledPair : (P p m).handledPair = m.handledPair := rfl
@[simp] theorem P_counter : (P p m).counter = m.counter := rfl
@[simp] theorem P_minus : (P p m).minus = m.minus := rfl
@[simp] theorem P_plus : (P p m).plus = m.plus := rfl
@[simp] theorem P_buf : (P p m).buf = m.buf := rfl
@[simp] theorem P_out : (P p m).out = p ++ m.out := rfl
@[simp] theorem P_mcOurs : (P p m).mcOurs = m.mcOurs := rfl
@[simp] theorem P_mcAnc : (P p m).mcAnc = m.mcAnc := rfl
@[simp] theorem P_mcTheirs : (P p m).mcTheirs = m.mcTheirs := rfl
@[simp] theorem P_mcNameOurs : (P p m).mcNameOurs = m.mcNameOurs := rfl
@[simp] theorem P_mcNameAnc : (P p m).mcNameAnc = m.mcNameAnc := rfl
@[simp] theorem P_mcNameTheirs : (P p m).mcNameTheirs = m.mcNameTheirs := rfl
@[simp] theorem P_n : (P p m).n = m.n := rfl
@[simp] theorem P_orderOk : (P p m).orderOk = m.orderOk := rfl
end pfields

macro "pfields" : tactic =>
  `(tactic| dsimp (config := { instances := true }) only [P_st, P_source, P_minusFile, P_plusFile, P_minusEvent,
      P_plusEvent, P_diffLine, P_diffLineG, P_modeInfo, P_currentPair, P_handledPair, P_counter, P_minus, P_plus,
      P_buf, P_mcOurs, P_mcAnc, P_mcTheirs, P_mcNameOurs, P_mcNameAnc, P_mcNameTheirs, P_n, P_orderOk])

def PE (p : List Row) : Except String M → Except String M
  | .ok m => .ok (P p m)
  | .error e => .error e
def PR (p : List Row) : Except String (Bool × M) → Except String (Bool × M)
  | .ok (b, m) => .ok (b, P p m)
  | .error e => .error e
def PO (p : List Row) : Option M → Option M
  | some m => some (P p m)
  | none => none
@[simp] theorem PE_ok (p : List Row) (m : M) : PE p (.ok m) = .ok (P p m) := rfl
@[simp] theorem PE_error (p : List Row) (e : String) : PE p (.error e) = .error e := rfl
@[simp] theorem PR_ok (p : List Row) (b : Bool) (m : M) : PR p (.ok (b, m)) = .ok (b, P p m) := rfl
@[simp] theorem PR_error (p : List Row) (e : String) : PR p (.error e) = .error e := rfl
theorem PR_pair (p : List Row) (r : Bool × M) : PR p (.ok r) = .ok (r.1, P p r.2) := rfl
@[simp] theorem PO_some (p : List Row) (m : M) : PO p (some m) = some (P p m) := rfl
@[simp] theorem PO_none (p : List Row) : PO p none = none := rfl

theorem P_emit (p : List Row) (m : M) : P p (emit m) = emit (P p m) := by
  simp [P, emit]
theorem P_flushMP (p : List Row) (m : M) : P p (flushMP m) = flushMP (P p m) := by
  unfold flushMP; pfields; split <;> rfl
theorem P_direct (p : List Row) (m : M) (rows : List Row) : P p (direct m rows) = direct (P p m) rows := by
  unfold direct; split
  · rfl
  · simp [P]

-- struct updates (P outside) → (P inside)
theorem P_updSt (p : List Row) (x : M) (s : State) : P p { x with st := s } = { P p x with st := s } := rfl
theorem P_updModeInfo (p : List Row) (x : M) (v : Str) : P p { x with modeInfo := v } = { P p x with modeInfo := v } := rfl
theorem P_updHandled (p : List Row) (x : M) :
    P p { x with handledPair := x.currentPair } = { P p x with handledPair := (P p x).currentPair } := rfl
theorem P_updStOurs (p : List Row) (x : M) (s : State) (o a : Option Str) :
    P p { x with st := s, mcNameOurs := o, mcNameAnc := a } = { P p x with st := s, mcNameOurs := o, mcNameAnc := a } := rfl

theorem P_writeGeneric (p : List Row) (cfg : Cfg) (m : M) (t r : Str) :
    P p (writeGeneric cfg m t r) = writeGeneric cfg (P p m) t r := by
  unfold writeGeneric
  pfields
  split
  · rfl
  · simp only [↓P_updModeInfo, P_direct]

theorem P_handleHeaderLine (p : List Row) (cfg : Cfg) (m : M) (c : Bool) :
    P p (handleHeaderLine cfg m c) = handleHeaderLine cfg (P p m) c := by
  unfold handleHeaderLine
  pfields
  rw [P_writeGeneric]

theorem P_pendingDiffName (p : List Row) (cfg : Cfg) (m : M) :
    P p (pendingDiffName cfg m) = pendingDiffName cfg (P p m) := by
  unfold pendingDiffName
  simp only [pendingTest, shouldHandle_eq]
  pfields
  split
  · rfl
  · split
    · simp only [↓P_updHandled, P_writeGeneric, P_emit]
    · split
      · rfl
      · split
        · simp only [↓P_updHandled, P_handleHeaderLine, P_emit]
        · rfl

theorem P_emitLineUnchanged (p : List Row) (m : M) (l : L) :
    P p (emitLineUnchanged m l) = emitLineUnchanged (P p m) l := by
  unfold emitLineUnchanged
  pfields
  simp only [P_direct, P_emit, P_flushMP]

theorem P_diffLineFields (p : List Row) (m : M) (l : L) : P p (diffLineFields m l) = diffLineFields (P p m) l := rfl

macro "ppush" : tactic =>
  `(tactic| simp only [PR_ok, PE_ok, PR_error, PE_error, P_emit, P_flushMP, P_pendingDiffName, P_direct,
      P_writeGeneric, P_handleHeaderLine, P_emitLineUnchanged, P_diffLineFields, ↓P_updSt, ↓P_updModeInfo,
      ↓P_updHandled])

theorem P_handleCommitMeta (p : List Row) (cfg : Cfg) (m : M) (l : L) :
    PR p (handleCommitMeta cfg m l) = handleCommitMeta cfg (P p m) l := by
  unfold handleCommitMeta
  simp only [shouldHandle_eq]
  pfields
  split
  · ppush
  · split
    · split <;> ppush
    · ppush

theorem P_handleDiffStat (p : List Row) (cfg : Cfg) (m : M) (l : L) :
    PR p (handleDiffStat cfg m l) = handleDiffStat cfg (P p m) l := rfl

theorem P_handleDiffHeaderDiff (p : List Row) (cfg : Cfg) (m : M) (l : L) :
    PR p (handleDiffHeaderDiff cfg m l) = handleDiffHeaderDiff cfg (P p m) l := by
  unfold handleDiffHeaderDiff
  simp only [shouldSkipLine_eq, diffLineFields_st', pendingDiffName_st']
  split
  · ppush
  · split <;> ppush

theorem P_shouldWriteGeneric (p : List Row) (cfg : Cfg) (m : M) (l : L) :
    PR p (.ok (shouldWriteGeneric cfg m l)) = .ok (shouldWriteGeneric cfg (P p m) l) := by
  unfold shouldWriteGeneric
  split <;> ppush

theorem P_fileOpUpdate (p : List Row) (m : M) (ev : FileEvent) (nm : Str) :
    P p (fileOpUpdate m ev nm) = fileOpUpdate (P p m) ev nm := by
  unfold fileOpUpdate; split <;> rfl

theorem P_fileOpFinish (p : List Row) (cfg : Cfg) (m : M) (l : L) :
    PR p (.ok (fileOpFinish cfg m l)) = .ok (fileOpFinish cfg (P p m) l) := by
  unfold fileOpFinish
  simp only [shouldWriteGeneric_fst, shouldHandle_eq]
  pfields
  have h := P_shouldWriteGeneric p cfg m l
  simp only [PR_pair, shouldWriteGeneric_fst, Except.ok.injEq] at h
  split
  · simp only [PR_ok]
    rw [← h]
  · simp only [PR_ok]

theorem headerLineTest_P (p : List Row) (m : M) : headerLineTest (P p m) = headerLineTest m := by
  unfold headerLineTest; pfields
theorem minusLineTest_P (p : List Row) (m : M) (l : L) : minusLineTest (P p m) l = minusLineTest m l := by
  unfold minusLineTest; simp only [headerLineTest_P]; pfields
theorem plusLineTest_P (p : List Row) (m : M) (l : L) : plusLineTest (P p m) l = plusLineTest m l := by
  unfold plusLineTest; pfields
theorem submoduleShortTest_P (p : List Row) (m : M) (l : L) : submoduleShortTest (P p m) l = submoduleShortTest m l := by
  unfold submoduleShortTest; pfields

theorem P_handleFileOperation (p : List Row) (cfg : Cfg) (m : M) (l : L) :
    PR p (handleFileOperation cfg m l) = handleFileOperation cfg (P p m) l := by
  unfold handleFileOperation
  simp only [headerLineTest_P]
  pfields
  split
  · ppush
  · rw [P_fileOpFinish, P_fileOpUpdate]

theorem P_minusUpd (p : List Row) (m : M) (pe : Str × FileEvent) : P p (minusUpd m pe) = minusUpd (P p m) pe := rfl
theorem P_plusUpd (p : List Row) (m : M) (pe : Str × FileEvent) : P p (plusUpd m pe) = plusUpd (P p m) pe := rfl

theorem P_handleMinusLine (p : List Row) (cfg : Cfg) (m : M) (l : L) :
    PR p (handleMinusLine cfg m l) = handleMinusLine cfg (P p m) l := by
  rw [handleMinusLine_eq, handleMinusLine_eq]
  simp only [minusLineTest_P]
  pfields
  split
  · ppush
  · rw [P_shouldWriteGeneric, P_flushMP, P_minusUpd]

theorem P_plusLineFinish (p : List Row) (cfg : Cfg) (m : M) (l : L) :
    PR p (.ok (plusLineFinish cfg m l)) = .ok (plusLineFinish cfg (P p m) l) := by
  unfold plusLineFinish
  simp only [shouldWriteGeneric_fst, shouldHandle_eq]
  pfields
  have h := P_shouldWriteGeneric p cfg m l
  simp only [PR_pair, shouldWriteGeneric_fst, Except.ok.injEq] at h
  split
  · simp only [PR_ok]
    rw [← h]
  · split <;> ppush

theorem P_handlePlusLine (p : List Row) (cfg : Cfg) (m : M) (l : L) :
    PR p (handlePlusLine cfg m l) = handlePlusLine cfg (P p m) l := by
  rw [handlePlusLine_eq, handlePlusLine_eq]
  simp only [plusLineTest_P]
  pfields
  split
  · ppush
  · rw [P_plusLineFinish, P_flushMP, P_plusUpd]

theorem P_setSt (p : List Row) (x : M) (s : State) : P p (setSt x s) = setSt (P p x) s := rfl
theorem P_setCounterSt (p : List Row) (x : M) (c : Int) (s : State) :
    P p (setCounterSt x c s) = setCounterSt (P p x) c s := rfl
theorem P_setStModeInfo (p : List Row) (x : M) (s : State) (v : Str) :
    P p (setStModeInfo x s v) = setStModeInfo (P p x) s v := rfl
theorem P_setFiles (p : List Row) (x : M) (a b : Str) : P p (setFiles x a b) = setFiles (P p x) a b := rfl

theorem P_handleHunkHeader (p : List Row) (cfg : Cfg) (m : M) (l : L) :
    PR p (handleHunkHeader cfg m l) = handleHunkHeader cfg (P p m) l := by
  rw [handleHunkHeader_eq, handleHunkHeader_eq]
  simp only [hunkHeaderCounter, hunkHeaderDiffType]
  pfields
  split
  · ppush
  · split <;> simp only [PR_ok, P_setCounterSt]

theorem P_handleModeLine (p : List Row) (cfg : Cfg) (m : M) (l : L) :
    PR p (handleModeLine cfg m l) = handleModeLine cfg (P p m) l := by
  rw [handleModeLine_eq, handleModeLine_eq]
  pfields
  split
  · split <;> simp only [PR_ok, P_setStModeInfo, P_setSt]
  · split
    · split <;> simp only [PR_ok, P_setStModeInfo, P_setSt]
    · ppush

theorem P_handleAdditionalCases (p : List Row) (cfg : Cfg) (m : M) (l : L) (to : State) :
    PR p (handleAdditionalCases cfg m l to) = handleAdditionalCases cfg (P p m) l to := by
  unfold handleAdditionalCases
  simp only [shouldHandle_eq]
  split <;> ppush

theorem P_handleMisc (p : List Row) (cfg : Cfg) (m : M) (l : L) :
    PR p (handleMisc cfg m l) = handleMisc cfg (P p m) l := by
  rw [handleMisc_eq, handleMisc_eq]
  pfields
  split
  · ppush
  · split
    · split
      · ppush
      · simp only [PR_ok, P_setFiles]
    · exact P_handleAdditionalCases ..

theorem P_handleSubmoduleLog (p : List Row) (cfg : Cfg) (m : M) (l : L) :
    PR p (handleSubmoduleLog cfg m l) = handleSubmoduleLog cfg (P p m) l := by
  unfold handleSubmoduleLog
  split
  · ppush
  · rw [P_handleAdditionalCases, P_pendingDiffName, P_flushMP]

theorem P_handleSubmoduleShort (p : List Row) (cfg : Cfg) (m : M) (l : L) :
    PR p (handleSubmoduleShort cfg m l) = handleSubmoduleShort cfg (P p m) l := by
  rw [handleSubmoduleShort_eq, handleSubmoduleShort_eq]
  simp only [submoduleShortTest_P]
  pfields
  split
  · ppush
  · split
    · ppush
    · split <;> first | (simp only [PR_ok, P_setSt]; done) | ppush

theorem P_handleGitShowFile (p : List Row) (cfg : Cfg) (m : M) (l : L) :
    PR p (handleGitShowFile cfg m l) = handleGitShowFile cfg (P p m) l := by
  unfold handleGitShowFile; ppush

theorem P_handleBlame (p : List Row) (cfg : Cfg) (m : M) (l : L) :
    PR p (handleBlame cfg m l) = handleBlame cfg (P p m) l := by
  unfold handleBlame
  pfields
  split <;> ppush

theorem P_handleGrep (p : List Row) (cfg : Cfg) (m : M) (l : L) :
    PR p (handleGrep cfg m l) = handleGrep cfg (P p m) l := by
  unfold handleGrep
  pfields
  split
  · split <;> ppush
  · ppush

theorem P_handleShouldSkip (p : List Row) (cfg : Cfg) (m : M) (l : L) :
    PR p (handleShouldSkip cfg m l) = handleShouldSkip cfg (P p m) l := by
  unfold handleShouldSkip
  simp only [shouldSkipLine_eq]; rfl

theorem P_handleEmitUnchanged (p : List Row) (cfg : Cfg) (m : M) (l : L) :
    PR p (handleEmitUnchanged cfg m l) = handleEmitUnchanged cfg (P p m) l := by
  unfold handleEmitUnchanged; ppush

theorem hunkHeaderRows_P (p : List Row) (cfg : Cfg) (m : M) (hh : HunkHeader) (line raw : Str) (src : Nat) :
    hunkHeaderRows cfg (P p m) hh line raw src = hunkHeaderRows cfg m hh line raw src := rfl

theorem P_emitHunkHeader (p : List Row) (cfg : Cfg) (m : M) (hh : HunkHeader) (line raw : Str) (src : Nat) :
    PE p (emitHunkHeader cfg m hh line raw src) = emitHunkHeader cfg (P p m) hh line raw src := by
  unfold emitHunkHeader
  rw [← P_flushMP, ← P_emit, hunkHeaderRows_P]
  cases hunkHeaderRows cfg (emit (flushMP m)) hh line raw src with
  | error e => rfl
  | ok rows => simp only [PE_ok, P_direct]

theorem P_preFlush (p : List Row) (cfg : Cfg) (m : M) : P p (preFlush cfg m) = preFlush cfg (P p m) := by
  unfold preFlush
  pfields
  split
  · rw [P_flushMP]
  · rfl

theorem P_hunkLinePre (p : List Row) (cfg : Cfg) (m : M) : PE p (hunkLinePre cfg m) = hunkLinePre cfg (P p m) := by
  rw [hunkLinePre_eq, hunkLinePre_eq, ← P_preFlush]
  pfields
  split
  · rw [P_emitHunkHeader]
  · rfl

theorem P_pushMinus (p : List Row) (x : M) (h : HLine) (dt : DiffType) : P p (pushMinus x h dt) = pushMinus (P p x) h dt := rfl
theorem P_pushPlus (p : List Row) (x : M) (h : HLine) (dt : DiffType) : P p (pushPlus x h dt) = pushPlus (P p x) h dt := rfl
theorem P_pushZero (p : List Row) (x : M) (r : Row) (dt : DiffType) : P p (pushZero x r dt) = pushZero (P p x) r dt := rfl
theorem P_pushOther (p : List Row) (x : M) (r : Row) (dt : DiffType) : P p (pushOther x r dt) = pushOther (P p x) r dt := rfl
theorem P_flushIfPlus (p : List Row) (m : M) : P p (flushIfPlus m) = flushIfPlus (P p m) := by
  unfold flushIfPlus; pfields; split
  · rw [P_flushMP]
  · rfl

theorem P_hunkLinePush (p : List Row) (cfg : Cfg) (m : M) (l : L) :
    PE p (hunkLinePush cfg m l) = hunkLinePush cfg (P p m) l := by
  rw [hunkLinePush_eq, hunkLinePush_eq]
  pfields
  cases newLineState m.st l with
  | error e => rfl
  | ok o =>
    cases o with
    | none => simp only [PE_ok, P_pushOther, P_flushMP]
    | some q =>
      obtain ⟨k, dt⟩ := q
      cases k <;> (simp only; cases nParents dt <;>
        simp only [PE_ok, PE_error, P_pushMinus, P_pushPlus, P_pushZero, P_flushIfPlus, P_flushMP])

theorem P_handleHunkLine (p : List Row) (cfg : Cfg) (m : M) (l : L) :
    PR p (handleHunkLine cfg m l) = handleHunkLine cfg (P p m) l := by
  unfold handleHunkLine
  pfields
  split
  · ppush
  · rw [← P_hunkLinePre]
    cases hunkLinePre cfg m with
    | error e => rfl
    | ok m2 =>
      simp only [PE_ok]
      rw [← P_hunkLinePush]
      cases hunkLinePush cfg m2 l with
      | error e => rfl
      | ok m3 => simp only [PE_ok, PR_ok, P_emit]

theorem P_paintMergeConflict (p : List Row) (cfg : Cfg) (m : M) (mp : MergeParents) :
    P p (paintMergeConflict cfg m mp) = paintMergeConflict cfg (P p m) mp := by
  simp [paintMergeConflict, mcPaintOne, direct, emit, mcHeaderRows, P]

theorem P_setStAnc (p : List Row) (x : M) (s : State) (o : Option Str) : P p (setStAnc x s o) = setStAnc (P p x) s o := rfl
theorem P_setOurs (p : List Row) (x : M) (hs : List HLine) : P p (setOurs x hs) = setOurs (P p x) hs := rfl
theorem P_setAnc (p : List Row) (x : M) (hs : List HLine) : P p (setAnc x hs) = setAnc (P p x) hs := rfl
theorem P_setTheirs (p : List Row) (x : M) (hs : List HLine) : P p (setTheirs x hs) = setTheirs (P p x) hs := rfl

theorem P_enterAncestral (p : List Row) (m : M) (l : L) (mp : MergeParents) :
    PO p (enterAncestral m l mp) = enterAncestral (P p m) l mp := by
  rw [enterAncestral_eq, enterAncestral_eq]
  cases parseMergeMarker l.text Markers.mcAncestral <;> rfl

theorem P_enterTheirs (p : List Row) (m : M) (l : L) (mp : MergeParents) :
    PO p (enterTheirs m l mp) = enterTheirs (P p m) l mp := by
  rw [enterTheirs_eq, enterTheirs_eq]
  split <;> rfl

theorem P_exitMergeConflict (p : List Row) (cfg : Cfg) (m : M) (l : L) (mp : MergeParents) :
    PO p (exitMergeConflict cfg m l mp) = exitMergeConflict cfg (P p m) l mp := by
  unfold exitMergeConflict
  cases parseMergeMarker l.text Markers.mcEnd with
  | none => rfl
  | some c =>
    simp only [Option.map_some, PO_some, P_paintMergeConflict]
    rfl

theorem P_storeLine (p : List Row) (cfg : Cfg) (m : M) (l : L) (c : MCCommit) (mp : MergeParents) (k : RowKind) :
    PE p (storeLine cfg m l c mp k) = storeLine cfg (P p m) l c mp k := by
  rw [storeLine_eq, storeLine_eq]
  pfields
  cases nParents (.combined mp true) with
  | error e => rfl
  | ok n => cases c <;> rfl

theorem PO_orElse (p : List Row) (a b : Option M) : PO p (a <|> b) = (PO p a <|> PO p b) := by
  cases a <;> simp [PO]

theorem P_storeOr (p : List Row) (o : Option M) (a : Except String M) :
    PR p (storeOr o a) = storeOr (PO p o) (PE p a) := by
  unfold storeOr
  cases o with
  | some x => rfl
  | none => cases a <;> rfl

theorem P_mcPendingHeader (p : List Row) (cfg : Cfg) (m : M) :
    PE p (mcPendingHeader cfg m) = mcPendingHeader cfg (P p m) := by
  unfold mcPendingHeader
  pfields
  split
  · rw [P_emitHunkHeader]
  · rfl

theorem P_handleMergeConflict (p : List Row) (cfg : Cfg) (m : M) (l : L) :
    PR p (handleMergeConflict cfg m l) = handleMergeConflict cfg (P p m) l := by
  unfold handleMergeConflict
  split
  · ppush
  · pfields
    cases hp : hunkCombinedParents m.st with
    | some mp =>
      simp only
      cases parseMergeMarker l.text Markers.mcBegin with
      | some c =>
        simp only
        rw [← P_mcPendingHeader]
        cases mcPendingHeader cfg m with
        | error e => rfl
        | ok m1 => simp only [PE_ok, PR_ok, ↓P_updStOurs, P_flushMP]
      | none => ppush
    | none =>
      simp only
      cases hs : m.st with
      | mergeConflict mp c =>
        cases c <;> simp only [P_storeOr, PO_orElse, P_enterAncestral, P_enterTheirs, P_exitMergeConflict, P_storeLine]
      | _ => ppush

theorem P_handlerOf {name : String} {hd : Handler} (hn : handlerOf name = some hd) (p : List Row) (cfg : Cfg) (m : M) (l : L) :
    PR p (hd cfg m l) = hd cfg (P p m) l := by
  unfold handlerOf at hn
  split at hn <;> first
    | (cases hn
       first
         | exact P_handleCommitMeta p cfg m l | exact P_handleDiffStat p cfg m l
         | exact P_handleDiffHeaderDiff p cfg m l | exact P_handleFileOperation p cfg m l
         | exact P_handleMinusLine p cfg m l | exact P_handlePlusLine p cfg m l
         | exact P_handleHunkHeader p cfg m l | exact P_handleModeLine p cfg m l
         | exact P_handleMisc p cfg m l | exact P_handleSubmoduleLog p cfg m l
         | exact P_handleSubmoduleShort p cfg m l | exact P_handleMergeConflict p cfg m l
         | exact P_handleHunkLine p cfg m l | exact P_handleGitShowFile p cfg m l
         | exact P_handleBlame p cfg m l | exact P_handleGrep p cfg m l
         | exact P_handleShouldSkip p cfg m l | exact P_handleEmitUnchanged p cfg m l)
    | cases hn

theorem P_chain (p : List Row) (cfg : Cfg) (l : L) : ∀ (names : List String) (m : M),
    PE p (chain cfg l names m) = chain cfg l names (P p m)
  | [], m => rfl
  | name :: rest, m => by
    simp only [chain]
    cases hn : handlerOf name with
    | none => rfl
    | some hd =>
      simp only
      rw [← P_handlerOf hn p cfg m l]
      cases hd cfg m l with
      | error e => rfl
      | ok q =>
        obtain ⟨b, m'⟩ := q
        cases b
        · simp only [PR_ok]; exact P_chain p cfg l rest m'
        · rfl

theorem P_stepInit (p : List Row) (m : M) (l : L) : P p (stepInit m l) = stepInit (P p m) l := by
  unfold stepInit armCounter
  pfields
  split
  · split
    · split <;> rfl
    · split <;> rfl
  · rfl

theorem P_step (p : List Row) (cfg : Cfg) (m : M) (l : L) : PE p (step cfg m l) = step cfg (P p m) l := by
  unfold step
  rw [← P_stepInit, ← P_chain]
  cases chain cfg l Generated.handlerOrder (stepInit m l) <;> rfl

theorem P_runFrom (p : List Row) (cfg : Cfg) : ∀ (ls : List L) (m : M),
    PE p (runFrom cfg m ls) = runFrom cfg (P p m) ls
  | [], m => rfl
  | l :: ls, m => by
    simp only [runFrom]
    rw [← P_step]
    cases step cfg m l with
    | error e => rfl
    | ok m' => exact P_runFrom p cfg ls m'

theorem P_tailOp (p : List Row) (cfg : Cfg) (m : M) (op : String) : PE p (tailOp cfg m op) = tailOp cfg (P p m) op := by
  unfold tailOp
  split
  · simp only [PE_ok, P_flushMP]
  · simp only [PE_ok, P_pendingDiffName]
  · simp only [PE_ok, P_emit]
  · rfl

theorem P_tailOps (p : List Row) (cfg : Cfg) : ∀ (ops : List String) (m : M),
    PE p (tailOps cfg ops m) = tailOps cfg ops (P p m)
  | [], m => rfl
  | op :: rest, m => by
    simp only [tailOps]
    rw [← P_tailOp]
    cases tailOp cfg m op with
    | error e => rfl
    | ok m' => exact P_tailOps p cfg rest m'

theorem P_cont (p : List Row) (cfg : Cfg) (m : M) (ls : List L) : PE p (cont cfg m ls) = cont cfg (P p m) ls := by
  unfold cont
  rw [← P_runFrom]
  cases runFrom cfg m ls with
  | error e => rfl
  | ok m' => exact P_tailOps p cfg _ m'

-- ================================================================ the section boundary

-- frame lemmas for the remaining fields
@[simp] theorem emit_source' (m : M) : (emit m).source = m.source := rfl
@[simp] theorem emit_minusFile' (m : M) : (emit m).minusFile = m.minusFile := rfl
@[simp] theorem emit_plusFile' (m : M) : (emit m).plusFile = m.plusFile := rfl
@[simp] theorem emit_minusEvent' (m : M) : (emit m).minusEvent = m.minusEvent := rfl
@[simp] theorem emit_plusEvent' (m : M) : (emit m).plusEvent = m.plusEvent := rfl
@[simp] theorem emit_diffLine' (m : M) : (emit m).diffLine = m.diffLine := rfl
@[simp] theorem emit_diffLineG' (m : M) : (emit m).diffLineG = m.diffLineG := rfl
@[simp] theorem emit_modeInfo' (m : M) : (emit m).modeInfo = m.modeInfo := rfl
@[simp] theorem emit_currentPair' (m : M) : (emit m).currentPair = m.currentPair := rfl
@[simp] theorem emit_handledPair' (m : M) : (emit m).handledPair = m.handledPair := rfl
@[simp] theorem emit_counter' (m : M) : (emit m).counter = m.counter := rfl
@[simp] theorem emit_mcOurs' (m : M) : (emit m).mcOurs = m.mcOurs := rfl
@[simp] theorem emit_mcAnc' (m : M) : (emit m).mcAnc = m.mcAnc := rfl
@[simp] theorem emit_mcTheirs' (m : M) : (emit m).mcTheirs = m.mcTheirs := rfl
@[simp] theorem emit_mcNameOurs' (m : M) : (emit m).mcNameOurs = m.mcNameOurs := rfl
@[simp] theorem emit_mcNameAnc' (m : M) : (emit m).mcNameAnc = m.mcNameAnc := rfl
@[simp] theorem emit_mcNameTheirs' (m : M) : (emit m).mcNameTheirs = m.mcNameTheirs := rfl
@[simp] theorem flushMP_source' (m : M) : (flushMP m).source = m.source := by unfold flushMP; split <;> rfl
@[simp] theorem flushMP_minusEvent' (m : M) : (flushMP m).minusEvent = m.minusEvent := by unfold flushMP; split <;> rfl
@[simp] theorem flushMP_plusEvent' (m : M) : (flushMP m).plusEvent = m.plusEvent := by unfold flushMP; split <;> rfl
@[simp] theorem flushMP_diffLine' (m : M) : (flushMP m).diffLine = m.diffLine := by unfold flushMP; split <;> rfl
@[simp] theorem flushMP_diffLineG' (m : M) : (flushMP m).diffLineG = m.diffLineG := by unfold flushMP; split <;> rfl
@[simp] theorem flushMP_modeInfo' (m : M) : (flushMP m).modeInfo = m.modeInfo := by unfold flushMP; split <;> rfl
@[simp] theorem flushMP_currentPair' (m : M) : (flushMP m).currentPair = m.currentPair := by unfold flushMP; split <;> rfl
@[simp] theorem flushMP_handledPair' (m : M) : (flushMP m).handledPair = m.handledPair := by unfold flushMP; split <;> rfl
@[simp] theorem flushMP_mcOurs' (m : M) : (flushMP m).mcOurs = m.mcOurs := by unfold flushMP; split <;> rfl
@[simp] theorem flushMP_mcAnc' (m : M) : (flushMP m).mcAnc = m.mcAnc := by unfold flushMP; split <;> rfl
@[simp] theorem flushMP_mcTheirs' (m : M) : (flushMP m).mcTheirs = m.mcTheirs := by unfold flushMP; split <;> rfl
@[simp] theorem flushMP_mcNameOurs' (m : M) : (flushMP m).mcNameOurs = m.mcNameOurs := by unfold flushMP; split <;> rfl
@[simp] theorem flushMP_mcNameAnc' (m : M) : (flushMP m).mcNameAnc = m.mcNameAnc := by unfold flushMP; split <;> rfl
@[simp] theorem flushMP_mcNameTheirs' (m : M) : (flushMP m).mcNameTheirs = m.mcNameTheirs := by unfold flushMP; split <;> rfl

/-- rows written by `write_generic_diff_header_header_line` -/
def genericRows (cfg : Cfg) (m : M) (text raw : Str) : List Row :=
  if cfg.fileStyle.isOmitted ∧ ¬ cfg.colorOnly then []
  else (if cfg.colorOnly then [] else [{ kind := .blank, text := [], src := m.n }]) ++
    drawRows cfg.fileStyle .file text raw m.modeInfo m.n

/-- rows written by `handle_pending_line_with_diff_name` -/
def pendingRows (cfg : Cfg) (m : M) : List Row :=
  if !pendingTest m then []
  else if m.modeInfo ≠ [] then
    genericRows cfg m (formatLabel cfg.labels.modified ++ (repeatedFilePath m.diffLine m.diffLineG).getD [])
      (formatLabel cfg.labels.modified ++ (repeatedFilePath m.diffLine m.diffLineG).getD [])
  else if cfg.colorOnly then []
  else if shouldHandle cfg m ∧ m.handledPair ≠ m.currentPair then
    genericRows cfg m (fileChangeDescription cfg.labels m.minusFile m.plusFile (m.source = .diffUnified) m.minusEvent)
      (fileChangeDescription cfg.labels m.minusFile m.plusFile (m.source = .diffUnified) m.minusEvent)
  else []

def updPending (k : M) (rows : List Row) (mi : Str) (hp : Option (Str × Str)) : M :=
  { k with out := k.out ++ rows, modeInfo := mi, handledPair := hp }

theorem N_writeGeneric_explicit (cfg : Cfg) (m : M) (t r : Str) (hb : m.buf = []) :
    N (writeGeneric cfg m t r) = updPending (N m) ((genericRows cfg m t r).map Row.er) [] m.handledPair := by
  unfold writeGeneric genericRows updPending
  split
  · simp [N]
  · simp only [↓N_updModeInfo]
    rw [N_direct _ _ hb]
    simp [updModeInfo, updOut, N]

/-- the header write consumes the mode information, whatever the configuration (also when the header is omitted) -/
theorem writeGeneric_modeInfo (cfg : Cfg) (m : M) (t r : Str) : (writeGeneric cfg m t r).modeInfo = [] := by
  unfold writeGeneric; split <;> rfl

theorem writeGeneric_currentPair (cfg : Cfg) (m : M) (t r : Str) :
    (writeGeneric cfg m t r).currentPair = m.currentPair := by
  have hd : ∀ (x : M) (rows : List Row), (direct x rows).currentPair = x.currentPair := by
    intro x rows; unfold direct; split <;> rfl
  unfold writeGeneric; split
  · rfl
  · exact hd _ _

theorem genericRows_emit (cfg : Cfg) (m : M) (t r : Str) : genericRows cfg (emit m) t r = genericRows cfg m t r := rfl

theorem N_pendingDiffName_explicit (cfg : Cfg) (m : M) :
    N (pendingDiffName cfg m) =
      updPending (N m) ((pendingRows cfg m).map Row.er) (pendingDiffName cfg m).modeInfo
        (pendingDiffName cfg m).handledPair := by
  unfold pendingDiffName pendingRows
  cases hp : pendingTest m
  · simp [updPending, N]
  · by_cases hm : m.modeInfo = []
    · by_cases hc : cfg.colorOnly = true
      · simp [hc, hm, updPending, N]
      · by_cases hh : shouldHandle cfg m = true ∧ m.handledPair ≠ m.currentPair
        · simp only [hm, hc, hh, ne_eq, not_true_eq_false, not_false_eq_true, if_true, if_false, and_self, Bool.not_true,
            Bool.false_eq_true, false_and]
          simp only [↓N_updHandled]
          unfold handleHeaderLine
          rw [N_writeGeneric_explicit _ _ _ _ (emit_buf _), N_emit]
          simp [updHandled, updPending, genericRows_emit, hm, writeGeneric_modeInfo, writeGeneric_currentPair]
        · simp only [hm, hc, hh, if_false, Bool.not_true, Bool.false_eq_true, ne_eq, not_true_eq_false, false_and, and_false]
          simp [updPending, N, hm]
    · simp only [hm, ne_eq, not_false_eq_true, if_true, true_and, Bool.not_true, Bool.false_eq_true, if_false, false_and]
      simp only [↓N_updHandled]
      rw [N_writeGeneric_explicit _ _ _ _ (emit_buf _), N_emit]
      simp [updHandled, genericRows_emit, updPending, writeGeneric_modeInfo, writeGeneric_currentPair]

theorem stepInit_frame (m : M) (l : L) :
    stepInit m l = { m with source := (stepInit m l).source, counter := (stepInit m l).counter } := by
  unfold stepInit armCounter
  split
  · split
    · split <;> rfl
    · split <;> rfl
  · rfl

theorem stepInit_source (m : M) (l : L) :
    (stepInit m l).source = if m.source = .unknown then detectSource l.text else m.source := by
  unfold stepInit armCounter
  split
  · split
    · split <;> rfl
    · split <;> rfl
  · rfl

@[simp] theorem stepInit_st' (m : M) (l : L) : (stepInit m l).st = m.st := by rw [stepInit_frame]
@[simp] theorem stepInit_minusFile (m : M) (l : L) : (stepInit m l).minusFile = m.minusFile := by rw [stepInit_frame]
@[simp] theorem stepInit_plusFile (m : M) (l : L) : (stepInit m l).plusFile = m.plusFile := by rw [stepInit_frame]
@[simp] theorem stepInit_minusEvent (m : M) (l : L) : (stepInit m l).minusEvent = m.minusEvent := by rw [stepInit_frame]
@[simp] theorem stepInit_plusEvent (m : M) (l : L) : (stepInit m l).plusEvent = m.plusEvent := by rw [stepInit_frame]
@[simp] theorem stepInit_diffLine (m : M) (l : L) : (stepInit m l).diffLine = m.diffLine := by rw [stepInit_frame]
@[simp] theorem stepInit_diffLineG (m : M) (l : L) : (stepInit m l).diffLineG = m.diffLineG := by rw [stepInit_frame]
@[simp] theorem stepInit_modeInfo (m : M) (l : L) : (stepInit m l).modeInfo = m.modeInfo := by rw [stepInit_frame]
@[simp] theorem stepInit_currentPair (m : M) (l : L) : (stepInit m l).currentPair = m.currentPair := by rw [stepInit_frame]
@[simp] theorem stepInit_handledPair (m : M) (l : L) : (stepInit m l).handledPair = m.handledPair := by rw [stepInit_frame]
@[simp] theorem stepInit_minus (m : M) (l : L) : (stepInit m l).minus = m.minus := by rw [stepInit_frame]
@[simp] theorem stepInit_plus (m : M) (l : L) : (stepInit m l).plus = m.plus := by rw [stepInit_frame]
@[simp] theorem stepInit_buf (m : M) (l : L) : (stepInit m l).buf = m.buf := by rw [stepInit_frame]
@[simp] theorem stepInit_out (m : M) (l : L) : (stepInit m l).out = m.out := by rw [stepInit_frame]
@[simp] theorem stepInit_mcOurs (m : M) (l : L) : (stepInit m l).mcOurs = m.mcOurs := by rw [stepInit_frame]
@[simp] theorem stepInit_mcAnc (m : M) (l : L) : (stepInit m l).mcAnc = m.mcAnc := by rw [stepInit_frame]
@[simp] theorem stepInit_mcTheirs (m : M) (l : L) : (stepInit m l).mcTheirs = m.mcTheirs := by rw [stepInit_frame]
@[simp] theorem stepInit_mcNameOurs (m : M) (l : L) : (stepInit m l).mcNameOurs = m.mcNameOurs := by rw [stepInit_frame]
@[simp] theorem stepInit_mcNameAnc (m : M) (l : L) : (stepInit m l).mcNameAnc = m.mcNameAnc := by rw [stepInit_frame]
@[simp] theorem stepInit_mcNameTheirs (m : M) (l : L) : (stepInit m l).mcNameTheirs = m.mcNameTheirs := by rw [stepInit_frame]
@[simp] theorem stepInit_n (m : M) (l : L) : (stepInit m l).n = m.n := by rw [stepInit_frame]
@[simp] theorem stepInit_orderOk (m : M) (l : L) : (stepInit m l).orderOk = m.orderOk := by rw [stepInit_frame]

/-- the machine a `diff ` line sees when it calls `handle_pending_line_with_diff_name` -/
def atDiffLine (m : M) (d : L) : M := { flushMP (stepInit m d) with st := diffLineState d }

/-- the machine right after the per-file fields have been reset -/
def afterReset (cfg : Cfg) (m : M) (d : L) : M := diffLineFields (pendingDiffName cfg (atDiffLine m d)) d

theorem N_flushMP_explicit (y : M) : N (flushMP y) =
    { N y with out := (N y).out ++ (y.minus.map HLine.row ++ y.plus.map HLine.row).map Row.er, minus := [], plus := [] } := by
  unfold flushMP
  split
  · rename_i h; simp [N, h.1, h.2]
  · simp [N]

/-- everything that reached the painter: what the tail of `consume` would write, less the pending header -/
def flushedRows (m : M) : List Row := m.out ++ m.buf ++ m.minus.map HLine.row ++ m.plus.map HLine.row

def sourceOk (sA : M) (d : L) : Prop := sA.source = .unknown ∨ sA.source = detectSource d.text
def counterOk (sA : M) (d : L) : Prop := clampC (stepInit sA d).counter = clampC (stepInit {} d).counter
def mcLinesOk (sA : M) : Prop := sA.mcOurs = [] ∧ sA.mcAnc = [] ∧ sA.mcTheirs = []
def pendingOk (cfg : Cfg) (sA : M) (d : L) : Prop :=
  (pendingRows cfg { stepInit sA d with st := diffLineState d }).map Row.er = (pendingRows cfg sA).map Row.er

instance (sA : M) (d : L) : Decidable (sourceOk sA d) := by unfold sourceOk; infer_instance
instance (sA : M) (d : L) : Decidable (counterOk sA d) := by unfold counterOk; infer_instance
instance (sA : M) : Decidable (mcLinesOk sA) := by unfold mcLinesOk; infer_instance
instance (cfg : Cfg) (sA : M) (d : L) : Decidable (pendingOk cfg sA d) := by unfold pendingOk; infer_instance

/-- The state `sA` reached at the end of a section and the `diff ` line `d` that opens the next one
form a clean section boundary:
* `sourceOk`: the input kind detected so far (if any) is the one `d` announces;
* `counterOk`: the plain-diff `--- ` counter stands where a fresh run would put it;
* `mcLinesOk`: no merge-conflict lines are held back (the section did not end inside a conflict region);
* `pendingOk`: the pending file header is written (or not) at the `diff ` line exactly as at end of input. -/
def SectionBoundary (cfg : Cfg) (sA : M) (d : L) : Prop :=
  sourceOk sA d ∧ counterOk sA d ∧ mcLinesOk sA ∧ pendingOk cfg sA d

instance (cfg : Cfg) (sA : M) (d : L) : Decidable (SectionBoundary cfg sA d) := by
  unfold SectionBoundary; infer_instance

theorem pendingTest_atDiffLine (m : M) (d : L) : pendingTest (atDiffLine m d) = true := by
  unfold pendingTest atDiffLine diffLineState
  split <;> rfl

/-- no mode information in, none out -/
theorem pendingDiffName_modeInfo_nil (cfg : Cfg) (m : M) (h : m.modeInfo = []) : (pendingDiffName cfg m).modeInfo = [] := by
  unfold pendingDiffName
  repeat' split
  all_goals first
    | exact h
    | contradiction
    | (simp only [handleHeaderLine, writeGeneric_modeInfo, emit_modeInfo', h, ite_self])

/-- the pending header takes the mode information with it, written or omitted: where
`handle_pending_line_with_diff_name` acts at all (a diff-header state, or plain `diff -u` input) nothing is left -/
theorem pendingDiffName_modeInfo_written (cfg : Cfg) (m : M) (hp : pendingTest m = true) :
    (pendingDiffName cfg m).modeInfo = [] := by
  by_cases hm : m.modeInfo = []
  · exact pendingDiffName_modeInfo_nil cfg m hm
  · unfold pendingDiffName
    simp only [hp, Bool.not_true, Bool.false_eq_true, if_false, ne_eq, hm, not_false_eq_true, if_true]
    simp only [writeGeneric_modeInfo]

theorem afterReset_init (cfg : Cfg) (d : L) :
    pendingRows cfg (atDiffLine {} d) = [] ∧ (pendingDiffName cfg (atDiffLine {} d)).modeInfo = [] := by
  have h1 : (atDiffLine {} d).modeInfo = [] := by simp [atDiffLine]
  have h2 : (atDiffLine {} d).handledPair = none := by simp [atDiffLine]
  have h3 : (atDiffLine {} d).currentPair = none := by simp [atDiffLine]
  constructor
  · unfold pendingRows
    simp [h1, h2, h3, pendingTest_atDiffLine]
  · exact pendingDiffName_modeInfo_nil cfg _ h1

/-- the rows a complete run over the first section writes: everything held back, then the pending header -/
def sectionRows (cfg : Cfg) (sA : M) : List Row :=
  ((sA.out ++ sA.buf) ++ (sA.minus.map HLine.row ++ sA.plus.map HLine.row) ++ pendingRows cfg sA).map Row.er

/-- `pendingRows` does not look at the line buffers -/
theorem pendingRows_atDiffLine (cfg : Cfg) (m : M) (d : L) :
    pendingRows cfg (atDiffLine m d) = pendingRows cfg { stepInit m d with st := diffLineState d } := by
  unfold pendingRows genericRows pendingTest atDiffLine
  simp only [shouldHandle_eq]
  simp

/-- at a `diff ` line no mode information survives: whatever the section before left, for every configuration -/
theorem pendingMode_atDiffLine (cfg : Cfg) (m : M) (d : L) :
    (pendingDiffName cfg (atDiffLine m d)).modeInfo = [] :=
  pendingDiffName_modeInfo_written cfg _ (pendingTest_atDiffLine m d)

theorem boundary_reset (cfg : Cfg) (sA : M) (d : L) (hb : SectionBoundary cfg sA d) :
    N (afterReset cfg sA d) = P (sectionRows cfg sA) (N (afterReset cfg {} d)) := by
  obtain ⟨hs, hc, hl, hp⟩ := hb
  unfold afterReset
  rw [N_diffLineFields, N_diffLineFields, N_pendingDiffName_explicit, N_pendingDiffName_explicit]
  rw [(afterReset_init cfg d).1, (afterReset_init cfg d).2]
  have e1 : ∀ m : M, N (atDiffLine m d) = updStO (N (flushMP (stepInit m d))) (diffLineState d) none none := by
    intro m; unfold atDiffLine; rw [N_updStO]; simp
  have e2 : ∀ m : M, N (stepInit m d) = { N m with source := (stepInit m d).source, counter := clampC (stepInit m d).counter } := by
    intro m; rw [stepInit_frame]; simp [N]
  rw [e1, e1, N_flushMP_explicit, N_flushMP_explicit, e2, e2]
  simp [diffLineFields, updPending, updStO, P, N, sectionRows]
  refine ⟨?_, pendingMode_atDiffLine cfg sA d, hc, ?_, hl.1, hl.2.1, hl.2.2⟩
  · rw [stepInit_source, stepInit_source]
    unfold sourceOk at hs
    rcases hs with h | h
    · simp [h]
    · simp only [h, ite_self]
      rfl
  · rw [pendingRows_atDiffLine]; exact hp

/-- the last part of `handle_diff_header_diff_line`: the `diff ` line itself is skipped or passed through -/
def finishDiff (cfg : Cfg) (x : M) (d : L) : M :=
  if shouldSkipLine cfg x then x else emitLineUnchanged x d

def bump (m : M) : M := { m with n := m.n + 1 }
theorem N_bump' (m : M) : N (bump m) = N m := rfl

/-- What a `diff ` line does (for the handler order of `StateMachine::consume`): source detection,
flush of the line buffers, pending header of the previous section, reset of the per-file fields,
then the line is skipped or passed through. -/
theorem step_diffLine (cfg : Cfg) (m : M) (d : L)
    (hd : startsWith d.text Markers.diffLine = true) (hc : d.commitRe = false) :
    step cfg m d = .ok (bump (finishDiff cfg (afterReset cfg m d) d)) := by
  unfold step
  have e1 := handleCommitMeta_not_mine cfg (stepInit m d) d hc
  have e3 : handleDiffHeaderDiff cfg (stepInit m d) d = .ok (true, finishDiff cfg (afterReset cfg m d) d) := by
    unfold handleDiffHeaderDiff finishDiff afterReset atDiffLine
    simp only [hd, Bool.not_true, Bool.false_eq_true, if_false]
    split <;> rfl
  simp only [Generated.handlerOrder, chain, handlerOf, e1, handleDiffStat, e3]
  rfl

theorem finishDiff_congr (cfg : Cfg) (d : L) {a b : M} (h : N a = N b) :
    N (finishDiff cfg a d) = N (finishDiff cfg b d) := by
  unfold finishDiff
  have hs : shouldSkipLine cfg a = shouldSkipLine cfg b := by
    rw [← shouldSkipLine_N cfg a, ← shouldSkipLine_N cfg b, h]
  rw [hs]
  split
  · exact h
  · rw [N_emitLineUnchanged, N_emitLineUnchanged, h]

theorem finishDiff_P (p : List Row) (cfg : Cfg) (x : M) (d : L) :
    P p (finishDiff cfg x d) = finishDiff cfg (P p x) d := by
  unfold finishDiff
  simp only [shouldSkipLine_eq]
  pfields
  split
  · rfl
  · rw [P_emitLineUnchanged]

theorem N_P (p : List Row) (m : M) : N (P p m) = P (p.map Row.er) (N m) := by
  simp [N, P]

theorem sectionRows_er (cfg : Cfg) (sA : M) : (sectionRows cfg sA).map Row.er = sectionRows cfg sA := by
  simp [sectionRows]

/-- The boundary: after the `diff ` line the machine that has seen section `A` is, up to ghosts, the
machine that has seen nothing, with the rows of `A` written in front. -/
theorem boundary_step (cfg : Cfg) (sA : M) (d : L)
    (hd : startsWith d.text Markers.diffLine = true) (hc : d.commitRe = false)
    (hb : SectionBoundary cfg sA d) :
    ∃ s1 t1, step cfg sA d = .ok s1 ∧ step cfg {} d = .ok t1 ∧ N s1 = P (sectionRows cfg sA) (N t1) := by
  refine ⟨_, _, step_diffLine cfg sA d hd hc, step_diffLine cfg {} d hd hc, ?_⟩
  rw [N_bump', N_bump']
  rw [finishDiff_congr cfg d (N_N (afterReset cfg sA d)).symm, boundary_reset cfg sA d hb, ← finishDiff_P, N_P,
    sectionRows_er, ← finishDiff_congr cfg d (N_N (afterReset cfg {} d)).symm]

theorem pendingRows_flushMP (cfg : Cfg) (m : M) : pendingRows cfg (flushMP m) = pendingRows cfg m := by
  unfold pendingRows genericRows pendingTest
  simp only [shouldHandle_eq]
  simp

/-- what a complete run over the first section writes -/
theorem finish_rows (cfg : Cfg) (sA fA : M) (h : finish cfg sA = .ok fA) :
    fA.out.map Row.er = sectionRows cfg sA ∧ fA.buf = [] := by
  simp only [finish, Markers.consumeTail, tailOps, tailOp, Except.ok.injEq] at h
  subst h
  refine ⟨?_, rfl⟩
  have h1 : (N (emit (pendingDiffName cfg (flushMP sA)))).out = (emit (pendingDiffName cfg (flushMP sA))).out.map Row.er := by
    simp [N]
  rw [← h1, N_emit, N_pendingDiffName_explicit, N_flushMP_explicit, pendingRows_flushMP]
  simp [updPending, N, sectionRows]

theorem finish_buf (cfg : Cfg) (m f : M) (h : finish cfg m = .ok f) : f.buf = [] :=
  (finish_rows cfg m f h).2

theorem run_eq_cont (cfg : Cfg) (ls : List L) : run cfg ls = cont cfg {} ls := rfl

theorem cont_cons (cfg : Cfg) (m : M) (l : L) (ls : List L) :
    cont cfg m (l :: ls) = (match step cfg m l with
      | .error e => .error e
      | .ok m' => cont cfg m' ls) := by
  unfold cont
  simp only [runFrom]
  cases step cfg m l <;> rfl

theorem cont_append (cfg : Cfg) (m : M) (xs ys : List L) :
    cont cfg m (xs ++ ys) = (match runFrom cfg m xs with
      | .error e => .error e
      | .ok m1 => cont cfg m1 ys) := by
  unfold cont
  rw [runFrom_append]
  cases runFrom cfg m xs <;> rfl

/-- **Compositionality at a section boundary.** If the machine has reached `sA` and the next line
`d` is a `diff ` line that forms a clean boundary with `sA`, then the rest of the run (`d :: B`, then
the tail of `consume`) started in `sA` writes: what a run ending at `sA` writes, followed by what a
fresh run over `d :: B` writes — row for row, up to the ghost `src` field. -/
theorem cont_boundary (cfg : Cfg) (sA : M) (d : L) (B : List L)
    (hd : startsWith d.text Markers.diffLine = true) (hc : d.commitRe = false)
    (hb : SectionBoundary cfg sA d) :
    ∃ m a b, cont cfg sA (d :: B) = .ok m ∧ finish cfg sA = .ok a ∧ run cfg (d :: B) = .ok b ∧
      m.out.map Row.er = a.out.map Row.er ++ b.out.map Row.er := by
  obtain ⟨s1, t1, hs, ht, hN⟩ := boundary_step cfg sA d hd hc hb
  obtain ⟨a, ha⟩ := finish_total cfg sA
  obtain ⟨b, hb'⟩ := run_total cfg (d :: B)
  have hb2 : cont cfg t1 B = .ok b := by
    rw [run_eq_cont, cont_cons, ht] at hb'; exact hb'
  -- the continuation from the normal form of `t1`
  have h1 := cont_congr cfg B (N_N t1)
  rw [hb2] at h1
  rcases NE_cases h1 with ⟨e, _, h⟩ | ⟨k, b', hk, hb3, hkb⟩
  · cases h
  · cases hb3
    -- … with the rows of `A` in front
    have h2 := P_cont (sectionRows cfg sA) cfg (N t1) B
    rw [hk] at h2
    -- … is, up to ghosts, the continuation from `s1`
    have h3 := cont_congr cfg B (a := s1) (b := P (sectionRows cfg sA) (N t1))
      (by rw [hN, N_P, sectionRows_er, N_N])
    rw [← h2] at h3
    rcases NE_cases h3 with ⟨e, _, h⟩ | ⟨m, k', hm, hk', hmk⟩
    · cases h
    · cases hk'
      refine ⟨m, a, b, by rw [cont_cons, hs]; exact hm, ha, hb', ?_⟩
      have bm : m.buf = [] := by
        unfold cont at hm
        cases hr : runFrom cfg s1 B with
        | error e => rw [hr] at hm; cases hm
        | ok x => rw [hr] at hm; exact finish_buf cfg x m hm
      have bb : b.buf = [] := by
        unfold cont at hb2
        cases hr : runFrom cfg t1 B with
        | error e => rw [hr] at hb2; cases hb2
        | ok x => rw [hr] at hb2; exact finish_buf cfg x b hb2
      have e1 : (N m).out = m.out.map Row.er := by simp [N, bm]
      have e2 : (N b).out = b.out.map Row.er := by simp [N, bb]
      rw [← e1, hmk, N_P, sectionRows_er, hkb, ← (finish_rows cfg sA a ha).1]
      simp [P, N, bb]

/-- `concat_sections` (general form): `delta(A ++ d :: B) = delta(A) ++ delta(d :: B)` on the rows
written, up to the ghost `src` field, whenever the state after `A` and the line `d` form a clean
section boundary. -/
theorem concat_sections_er (cfg : Cfg) (A : List L) (d : L) (B : List L) (sA : M)
    (hA : runFrom cfg {} A = .ok sA)
    (hd : startsWith d.text Markers.diffLine = true) (hc : d.commitRe = false)
    (hb : SectionBoundary cfg sA d) :
    ∃ m a b, run cfg (A ++ d :: B) = .ok m ∧ run cfg A = .ok a ∧ run cfg (d :: B) = .ok b ∧
      m.out.map Row.er = a.out.map Row.er ++ b.out.map Row.er := by
  obtain ⟨m, a, b, h1, h2, h3, h4⟩ := cont_boundary cfg sA d B hd hc hb
  refine ⟨m, a, b, ?_, ?_, h3, h4⟩
  · rw [run_eq_cont, cont_append, hA]; exact h1
  · unfold run; rw [hA]; exact h2

-- ================================================================ the counter is idle outside plain diffs

/-- the source is kept and an idle counter stays idle -/
def Idle (m m' : M) : Prop := m'.source = m.source ∧ (m.counter ≤ -4096 → m'.counter ≤ -4096)

theorem Idle.refl (m : M) : Idle m m := ⟨rfl, id⟩
theorem Idle.trans {a b c : M} (h1 : Idle a b) (h2 : Idle b c) : Idle a c :=
  ⟨h2.1.trans h1.1, fun h => h2.2 (h1.2 h)⟩
/-- source and counter untouched -/
theorem Idle.of_eq {m m' : M} (hs : m'.source = m.source) (hc : m'.counter = m.counter) : Idle m m' :=
  ⟨hs, fun h => hc ▸ h⟩

@[simp] theorem direct_source (m : M) (rows : List Row) : (direct m rows).source = m.source := by
  unfold direct; split <;> rfl
@[simp] theorem direct_counter (m : M) (rows : List Row) : (direct m rows).counter = m.counter := by
  unfold direct; split <;> rfl
@[simp] theorem writeGeneric_source (cfg : Cfg) (m : M) (t r : Str) : (writeGeneric cfg m t r).source = m.source := by
  unfold writeGeneric; split <;> simp
@[simp] theorem writeGeneric_counter (cfg : Cfg) (m : M) (t r : Str) : (writeGeneric cfg m t r).counter = m.counter := by
  unfold writeGeneric; split <;> simp
@[simp] theorem handleHeaderLine_source (cfg : Cfg) (m : M) (c : Bool) : (handleHeaderLine cfg m c).source = m.source := by
  unfold handleHeaderLine; simp
@[simp] theorem handleHeaderLine_counter (cfg : Cfg) (m : M) (c : Bool) : (handleHeaderLine cfg m c).counter = m.counter := by
  unfold handleHeaderLine; simp
@[simp] theorem pendingDiffName_source (cfg : Cfg) (m : M) : (pendingDiffName cfg m).source = m.source := by
  unfold pendingDiffName; repeat' split
  all_goals simp
@[simp] theorem pendingDiffName_counter (cfg : Cfg) (m : M) : (pendingDiffName cfg m).counter = m.counter := by
  unfold pendingDiffName; repeat' split
  all_goals simp
@[simp] theorem emitLineUnchanged_source (m : M) (l : L) : (emitLineUnchanged m l).source = m.source := by
  unfold emitLineUnchanged; simp
@[simp] theorem emitLineUnchanged_counter (m : M) (l : L) : (emitLineUnchanged m l).counter = m.counter := by
  unfold emitLineUnchanged; simp
@[simp] theorem shouldWriteGeneric_source (cfg : Cfg) (m : M) (l : L) : (shouldWriteGeneric cfg m l).2.source = m.source := by
  unfold shouldWriteGeneric; split <;> simp
@[simp] theorem shouldWriteGeneric_counter (cfg : Cfg) (m : M) (l : L) : (shouldWriteGeneric cfg m l).2.counter = m.counter := by
  unfold shouldWriteGeneric; split <;> simp
@[simp] theorem fileOpUpdate_source (m : M) (ev : FileEvent) (nm : Str) : (fileOpUpdate m ev nm).source = m.source := by
  unfold fileOpUpdate; split <;> rfl
@[simp] theorem fileOpUpdate_counter (m : M) (ev : FileEvent) (nm : Str) : (fileOpUpdate m ev nm).counter = m.counter := by
  unfold fileOpUpdate; split <;> rfl
@[simp] theorem fileOpFinish_source (cfg : Cfg) (m : M) (l : L) : (fileOpFinish cfg m l).2.source = m.source := by
  unfold fileOpFinish; split <;> simp
@[simp] theorem fileOpFinish_counter (cfg : Cfg) (m : M) (l : L) : (fileOpFinish cfg m l).2.counter = m.counter := by
  unfold fileOpFinish; split <;> simp
@[simp] theorem plusLineFinish_source (cfg : Cfg) (m : M) (l : L) : (plusLineFinish cfg m l).2.source = m.source := by
  unfold plusLineFinish; repeat' split
  all_goals simp
@[simp] theorem plusLineFinish_counter (cfg : Cfg) (m : M) (l : L) : (plusLineFinish cfg m l).2.counter = m.counter := by
  unfold plusLineFinish; repeat' split
  all_goals simp
@[simp] theorem paintMergeConflict_source (cfg : Cfg) (m : M) (mp : MergeParents) :
    (paintMergeConflict cfg m mp).source = m.source := by
  simp [paintMergeConflict, mcPaintOne]
@[simp] theorem paintMergeConflict_counter (cfg : Cfg) (m : M) (mp : MergeParents) :
    (paintMergeConflict cfg m mp).counter = m.counter := by
  simp [paintMergeConflict, mcPaintOne]

theorem idle_handleCommitMeta {cfg : Cfg} {m m' : M} {l : L} {b : Bool}
    (e : handleCommitMeta cfg m l = .ok (b, m')) : Idle m m' := by
  unfold handleCommitMeta at e
  repeat' split at e
  all_goals (cases e; exact Idle.of_eq (by simp) (by simp))

/-- the standard closing step: the result is named, source and counter are those of the input -/
macro "idle_eq" : tactic => `(tactic| (first | exact Idle.refl _ | exact Idle.of_eq (by simp) (by simp)))

theorem idle_handleDiffHeaderDiff {cfg : Cfg} {m m' : M} {l : L} {b : Bool}
    (e : handleDiffHeaderDiff cfg m l = .ok (b, m')) : Idle m m' := by
  unfold handleDiffHeaderDiff at e
  repeat' split at e
  all_goals (cases e; first | exact Idle.refl _ | exact Idle.of_eq (by simp [diffLineFields]) (by simp [diffLineFields]))

theorem idle_of_pair {r : Bool × M} {b : Bool} {m m' : M} (e : (Except.ok r : Except String (Bool × M)) = .ok (b, m'))
    (h : Idle m r.2) : Idle m m' := by
  cases e; exact h

theorem idle_handleFileOperation {cfg : Cfg} {m m' : M} {l : L} {b : Bool}
    (e : handleFileOperation cfg m l = .ok (b, m')) : Idle m m' := by
  unfold handleFileOperation at e
  split at e
  · cases e; exact Idle.refl _
  · exact idle_of_pair e (Idle.of_eq (by simp) (by simp))

theorem idle_handleMinusLine {cfg : Cfg} {m m' : M} {l : L} {b : Bool}
    (e : handleMinusLine cfg m l = .ok (b, m')) : Idle m m' := by
  rw [handleMinusLine_eq] at e
  split at e
  · cases e; exact Idle.refl _
  · exact idle_of_pair e (Idle.of_eq (by simp [minusUpd]) (by simp [minusUpd]))

theorem idle_handlePlusLine {cfg : Cfg} {m m' : M} {l : L} {b : Bool}
    (e : handlePlusLine cfg m l = .ok (b, m')) : Idle m m' := by
  rw [handlePlusLine_eq] at e
  split at e
  · cases e; exact Idle.refl _
  · exact idle_of_pair e (Idle.of_eq (by simp [plusUpd]) (by simp [plusUpd]))

theorem idle_handleHunkHeader {cfg : Cfg} {m m' : M} {l : L} {b : Bool}
    (e : handleHunkHeader cfg m l = .ok (b, m')) : Idle m m' := by
  unfold handleHunkHeader at e
  split at e
  · cases e; exact Idle.refl _
  · split at e
    · cases e; exact Idle.refl _
    · cases e
      refine ⟨rfl, fun h => ?_⟩
      show hunkHeaderCounter m _ ≤ -4096
      unfold hunkHeaderCounter
      rw [if_neg (by omega)]; exact h

theorem idle_handleModeLine {cfg : Cfg} {m m' : M} {l : L} {b : Bool}
    (e : handleModeLine cfg m l = .ok (b, m')) : Idle m m' := by
  unfold handleModeLine at e
  repeat' split at e
  all_goals (cases e; first | exact Idle.refl _ | exact Idle.of_eq rfl rfl)

theorem idle_handleAdditionalCases {cfg : Cfg} {m m' : M} {l : L} {b : Bool} {to : State}
    (e : handleAdditionalCases cfg m l to = .ok (b, m')) : Idle m m' := by
  unfold handleAdditionalCases at e
  split at e <;> (cases e; exact Idle.of_eq (by simp) (by simp))

theorem idle_handleMisc {cfg : Cfg} {m m' : M} {l : L} {b : Bool}
    (e : handleMisc cfg m l = .ok (b, m')) : Idle m m' := by
  rw [handleMisc_eq] at e
  split at e
  · cases e; exact Idle.refl _
  · split at e
    · split at e
      · cases e; exact Idle.of_eq (by simp) (by simp)
      · cases e; exact Idle.of_eq rfl rfl
    · exact idle_handleAdditionalCases e

theorem idle_handleSubmoduleLog {cfg : Cfg} {m m' : M} {l : L} {b : Bool}
    (e : handleSubmoduleLog cfg m l = .ok (b, m')) : Idle m m' := by
  unfold handleSubmoduleLog at e
  split at e
  · cases e; exact Idle.refl _
  · exact (Idle.of_eq (by simp) (by simp) : Idle m (pendingDiffName cfg (flushMP m))).trans
      (idle_handleAdditionalCases e)

theorem idle_handleSubmoduleShort {cfg : Cfg} {m m' : M} {l : L} {b : Bool}
    (e : handleSubmoduleShort cfg m l = .ok (b, m')) : Idle m m' := by
  rw [handleSubmoduleShort_eq] at e
  repeat' split at e
  all_goals (cases e; first | exact Idle.refl _ | exact Idle.of_eq (by simp [setSt]) (by simp [setSt]))

theorem idle_emitHunkHeader {cfg : Cfg} {m m' : M} {hh : HunkHeader} {line raw : Str} {src : Nat}
    (e : emitHunkHeader cfg m hh line raw src = .ok m') : Idle m m' := by
  unfold emitHunkHeader at e
  split at e
  · cases e
  · cases e; exact Idle.of_eq (by simp) (by simp)

theorem idle_hunkLinePre {cfg : Cfg} {m m' : M} (e : hunkLinePre cfg m = .ok m') : Idle m m' := by
  rw [hunkLinePre_eq] at e
  have h0 : Idle m (preFlush cfg m) := by
    unfold preFlush; split
    · exact Idle.of_eq (by simp) (by simp)
    · exact Idle.refl _
  split at e
  · exact h0.trans (idle_emitHunkHeader e)
  · cases e; exact h0

theorem idle_pushMinus (x : M) (h : HLine) (dt : DiffType) : Idle x (pushMinus x h dt) :=
  ⟨rfl, fun hc => by show x.counter - 1 ≤ -4096; omega⟩
theorem idle_pushPlus (x : M) (h : HLine) (dt : DiffType) : Idle x (pushPlus x h dt) := Idle.of_eq rfl rfl
theorem idle_pushZero (x : M) (r : Row) (dt : DiffType) : Idle x (pushZero x r dt) :=
  ⟨rfl, fun hc => by show x.counter - 1 ≤ -4096; omega⟩
theorem idle_pushOther (x : M) (r : Row) (dt : DiffType) : Idle x (pushOther x r dt) := Idle.of_eq rfl rfl
theorem idle_flushMP (m : M) : Idle m (flushMP m) := Idle.of_eq (by simp) (by simp)

theorem idle_hunkLinePush {cfg : Cfg} {m m' : M} {l : L} (e : hunkLinePush cfg m l = .ok m') : Idle m m' := by
  have hf : Idle m (flushIfPlus m) := by
    unfold flushIfPlus; split
    · exact idle_flushMP m
    · exact Idle.refl _
  rw [hunkLinePush_eq] at e
  repeat' split at e
  all_goals first
    | (cases e; done)
    | (cases e; first
        | exact hf.trans (idle_pushMinus ..)
        | exact idle_pushPlus ..
        | exact (idle_flushMP m).trans (idle_pushZero ..)
        | exact (idle_flushMP m).trans (idle_pushOther ..))

theorem idle_handleHunkLine {cfg : Cfg} {m m' : M} {l : L} {b : Bool}
    (e : handleHunkLine cfg m l = .ok (b, m')) : Idle m m' := by
  unfold handleHunkLine at e
  split at e
  · cases e; exact Idle.refl _
  · split at e
    · cases e
    · rename_i m2 e2
      split at e
      · cases e
      · rename_i m3 e3
        cases e
        exact (idle_hunkLinePre e2).trans ((idle_hunkLinePush e3).trans (Idle.of_eq rfl rfl))

theorem idle_storeLine {cfg : Cfg} {m m' : M} {l : L} {c : MCCommit} {mp : MergeParents} {k : RowKind}
    (e : storeLine cfg m l c mp k = .ok m') : Idle m m' := by
  rw [storeLine_eq] at e
  repeat' split at e
  all_goals first | (cases e; done) | (cases e; exact Idle.of_eq rfl rfl)

theorem idle_enterAncestral {m m' : M} {l : L} {mp : MergeParents} (e : enterAncestral m l mp = some m') : Idle m m' := by
  unfold enterAncestral at e
  simp only [Option.map_eq_some_iff] at e
  obtain ⟨_, _, rfl⟩ := e
  exact Idle.of_eq rfl rfl

theorem idle_enterTheirs {m m' : M} {l : L} {mp : MergeParents} (e : enterTheirs m l mp = some m') : Idle m m' := by
  unfold enterTheirs at e
  split at e
  · cases e; exact Idle.of_eq rfl rfl
  · cases e

theorem idle_exitMergeConflict {cfg : Cfg} {m m' : M} {l : L} {mp : MergeParents}
    (e : exitMergeConflict cfg m l mp = some m') : Idle m m' := by
  unfold exitMergeConflict at e
  simp only [Option.map_eq_some_iff] at e
  obtain ⟨_, _, rfl⟩ := e
  exact Idle.of_eq (by simp) (by simp)

theorem idle_storeOr {m : M} {o : Option M} {alt : Except String M} {b : Bool} {m' : M}
    (e : storeOr o alt = .ok (b, m')) (ho : ∀ x, o = some x → Idle m x) (ha : ∀ x, alt = .ok x → Idle m x) :
    Idle m m' := by
  unfold storeOr at e
  split at e
  · cases e; exact ho _ rfl
  · split at e
    · cases e
    · cases e; exact ha _ rfl

theorem idle_handleMergeConflict {cfg : Cfg} {m m' : M} {l : L} {b : Bool}
    (e : handleMergeConflict cfg m l = .ok (b, m')) : Idle m m' := by
  unfold handleMergeConflict at e
  split at e
  · cases e; exact Idle.refl _
  · split at e
    · split at e
      · split at e
        · cases e
        · rename_i m1 e1
          cases e
          have h1 : Idle m m1 := by
            unfold mcPendingHeader at e1
            split at e1
            · exact idle_emitHunkHeader e1
            · cases e1; exact Idle.refl _
          exact h1.trans (Idle.of_eq (by simp) (by simp))
      · cases e; exact Idle.refl _
    · split at e
      all_goals first
        | (refine idle_storeOr e ?_ (fun x hx => idle_storeLine hx)
           intro x hx
           first
             | (rcases orElse_some hx with h1 | h2
                · exact idle_enterAncestral h1
                · rcases orElse_some h2 with h3 | h4
                  · exact idle_enterTheirs h3
                  · exact idle_exitMergeConflict h4)
             | (rcases orElse_some hx with h3 | h4
                · exact idle_enterTheirs h3
                · exact idle_exitMergeConflict h4)
             | exact idle_exitMergeConflict hx)
        | (cases e; exact Idle.refl _)

theorem idle_handlerOf {name : String} {hd : Handler} (hn : handlerOf name = some hd)
    {cfg : Cfg} {m m' : M} {l : L} {b : Bool} (e : hd cfg m l = .ok (b, m')) : Idle m m' := by
  unfold handlerOf at hn
  split at hn <;> first
    | (cases hn
       first
         | exact idle_handleCommitMeta e | exact idle_handleDiffHeaderDiff e | exact idle_handleFileOperation e
         | exact idle_handleMinusLine e | exact idle_handlePlusLine e | exact idle_handleHunkHeader e
         | exact idle_handleModeLine e | exact idle_handleMisc e | exact idle_handleSubmoduleLog e
         | exact idle_handleSubmoduleShort e | exact idle_handleMergeConflict e | exact idle_handleHunkLine e
         | (first
             | (unfold handleDiffStat at e; cases e; exact Idle.refl _)
             | (unfold handleGitShowFile at e; cases e; exact Idle.of_eq rfl rfl)
             | (unfold handleBlame at e; simp only at e; split at e <;> (cases e; exact Idle.of_eq (by simp) (by simp)))
             | (unfold handleGrep at e; simp only at e; repeat' split at e
                all_goals (cases e; exact Idle.of_eq (by simp) (by simp)))
             | (unfold handleShouldSkip at e; cases e; exact Idle.refl _)
             | (unfold handleEmitUnchanged at e; cases e; exact Idle.of_eq (by simp) (by simp))))
    | cases hn

theorem idle_chain {cfg : Cfg} {l : L} : ∀ (names : List String) {m m' : M},
    chain cfg l names m = .ok m' → Idle m m'
  | [], m, m', e => by simp only [chain] at e; cases e; exact Idle.refl _
  | name :: rest, m, m', e => by
    simp only [chain] at e
    split at e
    · cases e
    · rename_i hd hn
      split at e
      · cases e
      · rename_i m1 e1; cases e; exact idle_handlerOf hn e1
      · rename_i m1 e1; exact (idle_handlerOf hn e1).trans (idle_chain rest e)

/-- outside plain diffs the counter is idle -/
def CounterIdle (m : M) : Prop := m.source ≠ .diffUnified → m.counter ≤ -4096

theorem counterIdle_stepInit (m : M) (l : L) (h : CounterIdle m) : CounterIdle (stepInit m l) := by
  unfold CounterIdle at *
  unfold stepInit armCounter
  simp only [Generated.Markers.prepareToCount]
  split
  · rename_i hu
    split
    · intro hne; exact absurd ‹_› hne
    · intro _; exact h (by rw [hu]; decide)
  · exact h

theorem counterIdle_step {cfg : Cfg} {m m' : M} {l : L} (e : step cfg m l = .ok m') (h : CounterIdle m) :
    CounterIdle m' := by
  unfold step at e
  split at e
  · cases e
  · rename_i m2 e2
    cases e
    have i := idle_chain _ e2
    have h0 := counterIdle_stepInit m l h
    intro hne
    exact i.2 (h0 (by rw [← i.1]; exact hne))

/-- `counter_idle`: in every reachable state whose source is not a plain diff the `--- ` counter is idle. -/
theorem counter_idle {cfg : Cfg} : ∀ (ls : List L) {m m' : M}, runFrom cfg m ls = .ok m' → CounterIdle m → CounterIdle m'
  | [], m, m', e, h => by simp only [runFrom] at e; cases e; exact h
  | l :: ls, m, m', e, h => by
    simp only [runFrom] at e
    split at e
    · cases e
    · rename_i m1 e1; exact counter_idle ls e (counterIdle_step e1 h)

-- ================================================================ a commit block between sections (`git log -p`)

/-- the line opens none of the constructs delta renders, the commit regex aside -/
structure Plain (l : L) : Prop where
  diff : startsWith l.text Markers.diffLine = false
  hunkHeader : startsWith l.text Markers.hunkHeader = false
  oldMode : startsWith l.text Markers.oldMode = false
  newMode : startsWith l.text Markers.newMode = false
  onlyIn : startsWith l.text Markers.onlyIn = false
  binary : startsWith l.text Markers.binaryFiles = false
  submodule : startsWith l.text Markers.submoduleLog = false
  blame : l.blame = false
  grep : l.grep = 0

instance (l : L) : Decidable (Plain l) :=
  decidable_of_iff (startsWith l.text Markers.diffLine = false ∧ startsWith l.text Markers.hunkHeader = false ∧
      startsWith l.text Markers.oldMode = false ∧ startsWith l.text Markers.newMode = false ∧
      startsWith l.text Markers.onlyIn = false ∧ startsWith l.text Markers.binaryFiles = false ∧
      startsWith l.text Markers.submoduleLog = false ∧ l.blame = false ∧ l.grep = 0)
    ⟨fun ⟨a, b, c, d, e, f, g, h, i⟩ => ⟨a, b, c, d, e, f, g, h, i⟩,
     fun h => ⟨h.diff, h.hunkHeader, h.oldMode, h.newMode, h.onlyIn, h.binary, h.submodule, h.blame, h.grep⟩⟩

/-- the handlers after `handle_commit_meta_header_line` pass a plain line through, in the states met
in a commit block of `git` output -/
theorem chain_plain (cfg : Cfg) (m0 m : M) (l : L) (e1 : handleCommitMeta cfg m0 l = .ok (false, m))
    (hst : m.st = .unknown ∨ m.st = .commitMeta) (hsrc : m.source ≠ .diffUnified) (no : Plain l) :
    chain cfg l Generated.handlerOrder m0 = .ok (emitLineUnchanged (emit (emit (emit m))) l) := by
  have hnd : isDiffHeader m.st = false := by rcases hst with h | h <;> simp [h, isDiffHeader]
  have hnm : isMergeConflict m.st = false := by rcases hst with h | h <;> simp [h, isMergeConflict]
  have hnh : isHunkState m.st = false := by rcases hst with h | h <;> simp [h, isHunkState]
  have hnc : hunkCombinedParents m.st = none := by rcases hst with h | h <;> simp [h, hunkCombinedParents]
  have hlt : headerLineTest m = false := by simp [headerLineTest, hnd, hsrc]
  have e3 := handleDiffHeaderDiff_not_mine cfg m l no.diff
  have e4 := handleFileOperation_not_mine cfg m l (by simp [hlt])
  have e5 := handleMinusLine_not_mine cfg m l (by simp [minusLineTest, hlt])
  have e6 := handlePlusLine_not_mine cfg m l (by simp [plusLineTest, hnd])
  have e7 := handleHunkHeader_not_mine cfg m l no.hunkHeader
  have e8 := handleModeLine_not_mine cfg m l no.oldMode no.newMode
  have e9 := handleMisc_not_mine cfg m l no.onlyIn no.binary
  have e10 := handleSubmoduleLog_not_mine cfg m l no.submodule
  have e11 : handleSubmoduleShort cfg m l = .ok (false, m) := by
    unfold handleSubmoduleShort submoduleShortTest
    rcases hst with h | h <;> simp [h, isHunkHeader, pairableHunkHeader]
  have e12 := handleMergeConflict_not_mine cfg m l hnc hnm
  have e13 : handleHunkLine cfg m l = .ok (false, m) := by unfold handleHunkLine; simp [hnh]
  have e15 : handleBlame cfg (emit m) l = .ok (false, emit (emit m)) := by
    unfold handleBlame; simp [no.blame]
  have e16 : handleGrep cfg (emit (emit m)) l = .ok (false, emit (emit (emit m))) := by
    unfold handleGrep; simp [no.grep]
  have e17 : handleShouldSkip cfg (emit (emit (emit m))) l = .ok (false, emit (emit (emit m))) := by
    unfold handleShouldSkip shouldSkipLine; simp [hnd]
  simp only [Generated.handlerOrder, chain, handlerOf, e1, handleDiffStat, e3, e4, e5, e6, e7, e8, e9, e10, e11,
    e12, e13, handleGitShowFile, e15, e16, e17, handleEmitUnchanged]

/-- the rows written so far, held-back buffer included, ghosts erased -/
def outN (m : M) : List Row := (m.out ++ m.buf).map Row.er

theorem outN_eq (m : M) : outN m = (N m).out := rfl

/-- a machine inside a commit block of git output: nothing held in the line buffers -/
structure InCommit (m : M) : Prop where
  st : m.st = .commitMeta
  source : m.source = .gitDiff
  minus : m.minus = []
  plus : m.plus = []

theorem outN_emitLineUnchanged (m : M) (l : L) (hm : m.minus = []) (hp : m.plus = []) :
    outN (emitLineUnchanged (emit (emit (emit m))) l) = outN m ++ [{ kind := .raw, text := l.raw, src := 0 }] := by
  simp [outN, emitLineUnchanged, flushMP, hm, hp, emit, direct]

theorem inCommit_emitLineUnchanged (m : M) (l : L) (h : InCommit m) :
    InCommit (emitLineUnchanged (emit (emit (emit m))) l) :=
  ⟨by simp [h.st], by simp [h.source], by simp [emitLineUnchanged], by simp [emitLineUnchanged]⟩

/-- a plain line inside a commit block: passed through, one raw row -/
theorem step_plain (cfg : Cfg) (m : M) (l : L) (h : InCommit m) (hc : l.commitRe = false) (no : Plain l) :
    ∃ m', step cfg m l = .ok m' ∧ InCommit m' ∧ outN m' = outN m ++ [{ kind := .raw, text := l.raw, src := 0 }] := by
  have hi : stepInit m l = m := by unfold stepInit; simp [h.source]
  refine ⟨bump (emitLineUnchanged (emit (emit (emit m))) l), ?_, ?_, ?_⟩
  · unfold step
    rw [hi, chain_plain cfg m m l (handleCommitMeta_not_mine cfg m l hc) (Or.inr h.st) (by rw [h.source]; decide) no]
    rfl
  · have := inCommit_emitLineUnchanged m l h
    exact ⟨this.st, this.source, this.minus, this.plus⟩
  · exact outN_emitLineUnchanged m l h.minus h.plus

theorem runFrom_plain (cfg : Cfg) : ∀ (C : List L) (m : M), InCommit m →
    (∀ l ∈ C, l.commitRe = false ∧ Plain l) →
    ∃ m', runFrom cfg m C = .ok m' ∧ InCommit m' ∧
      outN m' = outN m ++ C.map (fun l => { kind := .raw, text := l.raw, src := 0 })
  | [], m, h, _ => ⟨m, rfl, h, by simp⟩
  | l :: C, m, h, hC => by
    obtain ⟨m1, e1, h1, o1⟩ := step_plain cfg m l h (hC l (by simp)).1 (hC l (by simp)).2
    obtain ⟨m2, e2, h2, o2⟩ := runFrom_plain cfg C m1 h1 (fun x hx => hC x (by simp [hx]))
    refine ⟨m2, by simp only [runFrom, e1]; exact e2, h2, ?_⟩
    rw [o2, o1]; simp

theorem outN_pending_flush (cfg : Cfg) (m : M) : outN (pendingDiffName cfg (flushMP m)) = sectionRows cfg m := by
  rw [outN_eq, N_pendingDiffName_explicit, N_flushMP_explicit, pendingRows_flushMP]
  simp [updPending, N, sectionRows]

theorem pendingRows_inCommit (cfg : Cfg) (m : M) (h : InCommit m) : pendingRows cfg m = [] := by
  unfold pendingRows pendingTest
  simp [h.st, h.source, isDiffHeader]

/-- the tail of `consume` inside a commit block writes what is held back and nothing else -/
theorem finish_inCommit (cfg : Cfg) (m f : M) (h : InCommit m) (e : finish cfg m = .ok f) :
    f.out.map Row.er = outN m := by
  rw [(finish_rows cfg m f e).1]
  simp [sectionRows, outN, h.minus, h.plus, pendingRows_inCommit cfg m h]

/-- what the commit line itself contributes -/
def commitRows (cfg : Cfg) (c : L) : List Row :=
  if shouldHandleSt cfg .commitMeta then
    (if cfg.commitStyle.isOmitted ∧ ¬ cfg.colorOnly then [] else drawRows cfg.commitStyle .commit c.text c.raw [] 0)
  else [{ kind := .raw, text := c.raw, src := 0 }]

/-- the machine `handle_commit_meta_header_line` builds before it decides to claim the line -/
def atCommit (cfg : Cfg) (m : M) (c : L) : M :=
  { pendingDiffName cfg (flushMP (stepInit m c)) with st := .commitMeta }

theorem inCommit_atCommit (cfg : Cfg) (m : M) (c : L) (hs : (stepInit m c).source = .gitDiff) :
    InCommit (atCommit cfg m c) := by
  have hq := pendingDiffName_quiet cfg (m := flushMP (stepInit m c)) (by simp) (by simp)
  exact ⟨rfl, by simp [atCommit, hs], hq.1, hq.2⟩

theorem outN_atCommit (cfg : Cfg) (m : M) (c : L) : outN (atCommit cfg m c) = sectionRows cfg (stepInit m c) := by
  rw [← outN_pending_flush]; rfl

/-- a commit line: the previous section is closed exactly as at end of input, then the line is
rendered (or passed through, with the default raw commit style) -/
theorem step_commit (cfg : Cfg) (m : M) (c : L) (hc : c.commitRe = true) (no : Plain c)
    (hs : (stepInit m c).source = .gitDiff) :
    ∃ m', step cfg m c = .ok m' ∧ InCommit m' ∧ outN m' = sectionRows cfg (stepInit m c) ++ commitRows cfg c := by
  have hin := inCommit_atCommit cfg m c hs
  have hout := outN_atCommit cfg m c
  unfold commitRows
  by_cases hh : shouldHandleSt cfg .commitMeta = true
  · by_cases ho : cfg.commitStyle.isOmitted ∧ ¬ cfg.colorOnly
    · have e : handleCommitMeta cfg (stepInit m c) c = .ok (true, emit (atCommit cfg m c)) := by
        unfold handleCommitMeta atCommit
        simp only [hc, Bool.not_true, Bool.false_eq_true, if_false, shouldHandle_eq]
        rw [if_pos hh, if_pos ho]
      refine ⟨bump (emit (atCommit cfg m c)), ?_, ⟨hin.st, hin.source, hin.minus, hin.plus⟩, ?_⟩
      · unfold step
        simp only [Generated.handlerOrder, chain, handlerOf, e]; rfl
      · rw [if_pos hh, if_pos ho, List.append_nil, ← hout]; simp [outN, bump, emit]
    · have e : handleCommitMeta cfg (stepInit m c) c =
          .ok (true, direct (emit (atCommit cfg m c)) (drawRows cfg.commitStyle .commit c.text c.raw [] (stepInit m c).n)) := by
        unfold handleCommitMeta atCommit
        simp only [hc, Bool.not_true, Bool.false_eq_true, if_false, shouldHandle_eq]
        rw [if_pos hh, if_neg ho]
      refine ⟨bump (direct (emit (atCommit cfg m c)) (drawRows cfg.commitStyle .commit c.text c.raw [] (stepInit m c).n)),
        ?_, ⟨by simp [bump, hin.st], by simp [bump, hin.source], by simp [bump, hin.minus], by simp [bump, hin.plus]⟩, ?_⟩
      · unfold step
        simp only [Generated.handlerOrder, chain, handlerOf, e]; rfl
      · rw [if_pos hh, if_neg ho, ← hout]; simp [outN, bump, emit]
  · have e : handleCommitMeta cfg (stepInit m c) c = .ok (false, atCommit cfg m c) := by
      unfold handleCommitMeta atCommit
      simp only [hc, Bool.not_true, Bool.false_eq_true, if_false, shouldHandle_eq]
      rw [if_neg hh]
    refine ⟨bump (emitLineUnchanged (emit (emit (emit (atCommit cfg m c)))) c), ?_, ?_, ?_⟩
    · unfold step
      rw [chain_plain cfg _ _ c e (Or.inr hin.st) (by rw [hin.source]; decide) no]; rfl
    · have := inCommit_emitLineUnchanged _ c hin
      exact ⟨this.st, this.source, this.minus, this.plus⟩
    · rw [if_neg hh, ← hout]
      exact outN_emitLineUnchanged _ c hin.minus hin.plus

theorem pendingRows_stepInit (cfg : Cfg) (m : M) (l : L) (h1 : m.source ≠ .diffUnified)
    (h2 : (stepInit m l).source ≠ .diffUnified) : pendingRows cfg (stepInit m l) = pendingRows cfg m := by
  unfold pendingRows genericRows pendingTest
  simp only [shouldHandle_eq]
  simp [h1, h2]

theorem sectionRows_stepInit (cfg : Cfg) (m : M) (l : L) (h1 : m.source ≠ .diffUnified)
    (h2 : (stepInit m l).source ≠ .diffUnified) : sectionRows cfg (stepInit m l) = sectionRows cfg m := by
  unfold sectionRows
  rw [pendingRows_stepInit cfg m l h1 h2]
  simp

theorem sectionRows_init (cfg : Cfg) : sectionRows cfg {} = [] := by
  simp [sectionRows, pendingRows, pendingTest, isDiffHeader]

/-- **A commit block closes a section like the end of input.** `A`, then a commit line `c` (git
output), then plain lines `C` (author, date, message): the rows written are those of `A` alone followed
by those of `c :: C` alone. -/
theorem commit_block_er (cfg : Cfg) (A : List L) (c : L) (C : List L) (sA : M)
    (hA : runFrom cfg {} A = .ok sA)
    (hc : c.commitRe = true) (no : Plain c) (hgit : detectSource c.text = .gitDiff)
    (hsrc : sourceOk sA c) (hC : ∀ l ∈ C, l.commitRe = false ∧ Plain l) :
    ∃ m a b, run cfg (A ++ c :: C) = .ok m ∧ run cfg A = .ok a ∧ run cfg (c :: C) = .ok b ∧
      m.out.map Row.er = a.out.map Row.er ++ b.out.map Row.er := by
  have hs1 : (stepInit sA c).source = .gitDiff := by
    rw [stepInit_source]; unfold sourceOk at hsrc
    rcases hsrc with h | h
    · simp [h, hgit]
    · rw [h, hgit]; simp
  have hs0 : (stepInit {} c).source = .gitDiff := by rw [stepInit_source]; simp [hgit]
  have hsA : sA.source ≠ .diffUnified := by
    unfold sourceOk at hsrc
    rcases hsrc with h | h
    · rw [h]; decide
    · rw [h, hgit]; decide
  -- the run over `A ++ c :: C`
  obtain ⟨s1, e1, i1, o1⟩ := step_commit cfg sA c hc no hs1
  obtain ⟨s2, e2, i2, o2⟩ := runFrom_plain cfg C s1 i1 hC
  obtain ⟨m, em⟩ := finish_total cfg s2
  -- the run over `c :: C`
  obtain ⟨t1, f1, j1, p1⟩ := step_commit cfg {} c hc no hs0
  obtain ⟨t2, f2, j2, p2⟩ := runFrom_plain cfg C t1 j1 hC
  obtain ⟨b, eb⟩ := finish_total cfg t2
  -- the run over `A`
  obtain ⟨a, ea⟩ := finish_total cfg sA
  have r1 : runFrom cfg {} (A ++ c :: C) = .ok s2 := by
    rw [runFrom_append, hA]; simp only [runFrom, e1]; exact e2
  have r2 : runFrom cfg {} (c :: C) = .ok t2 := by simp only [runFrom, f1]; exact f2
  refine ⟨m, a, b, by unfold run; rw [r1]; exact em, by unfold run; rw [hA]; exact ea,
    by unfold run; rw [r2]; exact eb, ?_⟩
  rw [finish_inCommit cfg s2 m i2 em, finish_inCommit cfg t2 b j2 eb, (finish_rows cfg sA a ea).1, o2, o1, p2, p1,
    sectionRows_stepInit cfg sA c hsA (by rw [hs1]; decide),
    sectionRows_stepInit cfg {} c (by decide) (by rw [hs0]; decide), sectionRows_init]
  simp

end Machine
