import Proofs.Machine.FileHeaders
/-!
Whole-run file headers (C14), part 2: the lines of the file sections whose header is written *late*
(by `handle_pending_line_with_diff_name`, at the next `diff ` line or in the tail of `consume`) or
carries an addendum: `old mode` / `new mode` lines, `Binary files … differ`, the header part with a
mode change pending, the `diff --git` line that finds a header pending.

Same closed-world technique as `FileHeaders.lean`: the handler chain is evaluated for each kind of
line; `FileHeaders3.lean` adds the submodule lines, `FileHeaders4.lean` composes the steps along a section and
along the list of sections.
-/
set_option linter.unusedSimpArgs false
set_option linter.unusedVariables false
namespace Machine
open Headers Generated

-- a file-header row with an addendum ----------------------------------------------------

/-- the text of a file-header row: description, padding of a box decoration, the addendum (mode
change) in parentheses -/
def fileRowTextA (cfg : Cfg) (desc add : Str) : Str :=
  if add = [] then fileRowText cfg desc else fileRowText cfg desc ++ [' ', '('] ++ add ++ [')']

theorem fileRowTextA_nil (cfg : Cfg) (desc : Str) : fileRowTextA cfg desc [] = fileRowText cfg desc := by
  simp [fileRowTextA]

theorem drawRows_file_oneA {cfg : Cfg} (hc : FHC cfg) (t r a : Str) (src : Nat) :
    (drawRows cfg.fileStyle .file t r a src).filter (fun x => x.kind == .file) =
      [{ kind := .file, text := fileRowTextA cfg t a, src := src }] := by
  unfold drawRows fileRowTextA fileRowText
  cases hd : cfg.fileStyle.deco <;> by_cases ha : a = [] <;> simp [hd, hc.notRaw, ha]

/-- with nothing buffered, `write_generic_diff_header_header_line` appends exactly one file row; it
shows the pending mode change -/
theorem writeGeneric_fileA {cfg : Cfg} (hc : FHC cfg) (m : M) (t r : Str)
    (hb : m.buf = []) (hm : m.minus = []) (hp : m.plus = []) :
    fileTL (writeGeneric cfg m t r) =
      fileTL m ++ [{ kind := .file, text := fileRowTextA cfg t m.modeInfo, src := m.n }] := by
  have ht : timeline (writeGeneric cfg m t r) =
      timeline m ++ ([{ kind := RowKind.blank, text := [], src := m.n }] ++
        drawRows cfg.fileStyle .file t r m.modeInfo m.n) := by
    unfold writeGeneric
    simp only [hc.notOmitted, hc.notCO, Bool.false_eq_true, false_and, if_false, not_false_eq_true]
    exact timeline_direct_quiet m _ hb hm hp
  unfold fileTL
  rw [ht, List.filter_append, List.filter_append, drawRows_file_oneA hc]
  simp

/-- what `write_generic_diff_header_header_line` leaves alone / resets -/
theorem writeGeneric_keeps {cfg : Cfg} (hc : FHC cfg) (m : M) (t r : Str) :
    (writeGeneric cfg m t r).counter = m.counter ∧ (writeGeneric cfg m t r).modeInfo = [] ∧
    (writeGeneric cfg m t r).currentPair = m.currentPair ∧ (writeGeneric cfg m t r).handledPair = m.handledPair ∧
    (writeGeneric cfg m t r).minusFile = m.minusFile ∧ (writeGeneric cfg m t r).source = m.source := by
  unfold writeGeneric
  simp only [hc.notOmitted, hc.notCO, Bool.false_eq_true, false_and, if_false, not_false_eq_true]
  obtain ⟨a, b, c, d, _, _⟩ := direct_keeps m
    ([{ kind := RowKind.blank, text := [], src := m.n }] ++ drawRows cfg.fileStyle .file t r m.modeInfo m.n)
  exact ⟨a, trivial, c, b, d, direct_source _ _⟩

-- what is pending ---------------------------------------------------------------------------

/-- the name the `diff --git` line repeats (empty when its two paths differ) -/
def nameOf (d : L) : Str := (repeatedFilePath d.text (diffLineGraphemes d)).getD []

/-- text of the header that `handle_pending_line_with_diff_name` writes for the machine's current file -/
def pendText (cfg : Cfg) (m : M) : Str :=
  if m.modeInfo ≠ [] then
    fileRowTextA cfg (formatLabel cfg.labels.modified ++ (repeatedFilePath m.diffLine m.diffLineG).getD []) m.modeInfo
  else fileRowText cfg (fileChangeDescription cfg.labels m.minusFile m.plusFile false m.minusEvent)

/-- the file-header row that is still to be written for the current file (at input index `m.n`) -/
def pendRows (cfg : Cfg) (m : M) : List Row :=
  if m.modeInfo = [] ∧ m.handledPair = m.currentPair then []
  else [{ kind := .file, text := pendText cfg m, src := m.n }]

/-- the file-header rows written so far and the one that is due -/
def facct (cfg : Cfg) (m : M) : List Row := fileTL m ++ pendRows cfg m

/-- fields that `handle_pending_line_with_diff_name` leaves alone, and what holds afterwards -/
structure PKeep (x y : M) : Prop where
  st : y.st = x.st
  src : y.source = x.source
  cnt : y.counter = x.counter
  n : y.n = x.n
  minus : y.minus = x.minus
  plus : y.plus = x.plus
  mode : y.modeInfo = []
  pair : y.handledPair = y.currentPair

/-- `handle_pending_line_with_diff_name`, in the header part of a git section or with nothing
pending: it writes exactly the row that is due -/
theorem pendingDiffName_acct {cfg : Cfg} (hc : FHC cfg) (x : M)
    (h : (x.modeInfo = [] ∧ x.handledPair = x.currentPair) ∨ (x.st = .diffHeader .unified ∧ x.source = .gitDiff))
    (hm : x.minus = []) (hp : x.plus = []) :
    PKeep x (pendingDiffName cfg x) ∧ fileTL (pendingDiffName cfg x) = fileTL x ++ pendRows cfg x := by
  by_cases hs : x.modeInfo = [] ∧ x.handledPair = x.currentPair
  · rw [pendingDiffName_settled hc x hs.1 hs.2]
    exact ⟨⟨rfl, rfl, rfl, rfl, rfl, rfl, hs.1, hs.2⟩, by simp [pendRows, hs]⟩
  · rcases h with h | ⟨hst, hsrc⟩
    · exact absurd h hs
    · have hpt : pendingTest x = true := by unfold pendingTest; simp [hst, isDiffHeader]
      have hsh : shouldHandle cfg x = true := shouldHandle_diffHeader hc hst
      have hdu : decide (x.source = Source.diffUnified) = false := by simp [hsrc]
      have hpr : pendRows cfg x = [{ kind := .file, text := pendText cfg x, src := x.n }] := by
        unfold pendRows; rw [if_neg hs]
      by_cases hmi : x.modeInfo = []
      · have hne : x.handledPair ≠ x.currentPair := fun e => hs ⟨hmi, e⟩
        have he : pendingDiffName cfg x =
            { handleHeaderLine cfg (emit x) false with
              handledPair := (handleHeaderLine cfg (emit x) false).currentPair } := by
          unfold pendingDiffName
          simp only [hpt, Bool.not_true, Bool.false_eq_true, if_false, hmi, ne_eq, not_true_eq_false, hc.notCO, hsh,
            hne, not_false_eq_true, and_self, if_true, hdu]
        rw [he]
        unfold handleHeaderLine
        obtain ⟨k1, k2, k3, k4, k5, k6⟩ := writeGeneric_keeps hc (emit x)
          (fileChangeDescription cfg.labels (emit x).minusFile (emit x).plusFile false (emit x).minusEvent)
          (fileChangeDescription cfg.labels (emit x).minusFile (emit x).plusFile false (emit x).minusEvent)
        refine ⟨⟨by simp, k6, k1, by simp, by simp, by simp, k2, rfl⟩, ?_⟩
        have hf := writeGeneric_fileA hc (emit x)
          (fileChangeDescription cfg.labels (emit x).minusFile (emit x).plusFile false (emit x).minusEvent)
          (fileChangeDescription cfg.labels (emit x).minusFile (emit x).plusFile false (emit x).minusEvent) rfl hm hp
        refine (fileTL_congr rfl).trans (hf.trans ?_)
        rw [fileTL_emit, hpr]
        have : (emit x).modeInfo = [] := hmi
        rw [this, fileRowTextA_nil]
        unfold pendText
        simp only [hmi, ne_eq, not_true_eq_false, if_false]
        rfl
      · have he : pendingDiffName cfg x =
            { writeGeneric cfg (emit x)
                (formatLabel cfg.labels.modified ++ (repeatedFilePath x.diffLine x.diffLineG).getD [])
                (formatLabel cfg.labels.modified ++ (repeatedFilePath x.diffLine x.diffLineG).getD []) with
              handledPair := (writeGeneric cfg (emit x)
                (formatLabel cfg.labels.modified ++ (repeatedFilePath x.diffLine x.diffLineG).getD [])
                (formatLabel cfg.labels.modified ++ (repeatedFilePath x.diffLine x.diffLineG).getD [])).currentPair } := by
          unfold pendingDiffName
          simp only [hpt, Bool.not_true, Bool.false_eq_true, if_false, hmi, ne_eq, not_false_eq_true, if_true]
        rw [he]
        obtain ⟨k1, k2, k3, k4, k5, k6⟩ := writeGeneric_keeps hc (emit x)
          (formatLabel cfg.labels.modified ++ (repeatedFilePath x.diffLine x.diffLineG).getD [])
          (formatLabel cfg.labels.modified ++ (repeatedFilePath x.diffLine x.diffLineG).getD [])
        refine ⟨⟨by simp, k6, k1, by simp, by simp, by simp, k2, rfl⟩, ?_⟩
        have hf := writeGeneric_fileA hc (emit x)
          (formatLabel cfg.labels.modified ++ (repeatedFilePath x.diffLine x.diffLineG).getD [])
          (formatLabel cfg.labels.modified ++ (repeatedFilePath x.diffLine x.diffLineG).getD []) rfl hm hp
        refine (fileTL_congr rfl).trans (hf.trans ?_)
        rw [fileTL_emit, hpr]
        unfold pendText
        simp only [hmi, ne_eq, not_false_eq_true, if_true]
        rfl

-- invariants ---------------------------------------------------------------------------------

/-- between two sections with nothing pending (the input may begin with a submodule log: source not
yet detected) -/
structure Settled2 (m : M) : Prop where
  src : m.source = .gitDiff ∨ m.source = .unknown
  cnt : m.counter ≤ -4096
  mode : m.modeInfo = []
  pair : m.handledPair = m.currentPair
  good : Good m

theorem Settled.to2 {m : M} (h : Settled m) : Settled2 m :=
  ⟨h.src.elim Or.inl (fun x => Or.inr x.1), h.cnt, h.mode, h.pair, h.good⟩

theorem settled2_init : Settled2 ({} : M) := settled_init.to2

/-- in the header part of a section, header not yet written (a mode change may be pending) -/
structure Hdr (m : M) : Prop where
  st : m.st = .diffHeader .unified
  src : m.source = .gitDiff
  cnt : m.counter ≤ -4096
  hp : m.handledPair = none
  cp : m.currentPair ≠ none
  minus : m.minus = []
  plus : m.plus = []
  good : Good m

/-- … with the per-file fields known: the `diff --git` line `d`, the pending mode change `mode`, the
two names `p` -/
structure HdrF (m : M) (d : L) (mode : Str) (p : Str × Str) : Prop extends Hdr m where
  dl : m.diffLine = d.text
  dg : m.diffLineG = diffLineGraphemes d
  mode : m.modeInfo = mode
  mf : m.minusFile = p.1
  pf : m.plusFile = p.2
  ev : m.minusEvent = .change

/-- what a `diff --git` line may find: nothing pending, or the header of the section before -/
structure Pre (m : M) : Prop where
  src : m.source = .gitDiff ∨ m.source = .unknown
  cnt : m.counter ≤ -4096
  good : Good m
  pend : (m.modeInfo = [] ∧ m.handledPair = m.currentPair) ∨ (m.st = .diffHeader .unified ∧ m.source = .gitDiff)

theorem Settled2.pre {m : M} (h : Settled2 m) : Pre m := ⟨h.src, h.cnt, h.good, Or.inl ⟨h.mode, h.pair⟩⟩
theorem Hdr.pre {m : M} (h : Hdr m) : Pre m := ⟨Or.inl h.src, h.cnt, h.good, Or.inr ⟨h.st, h.src⟩⟩

theorem Settled2.pendRows {cfg : Cfg} {m : M} (h : Settled2 m) : pendRows cfg m = [] := by
  unfold Machine.pendRows; rw [if_pos ⟨h.mode, h.pair⟩]

theorem Hdr.pendRows {cfg : Cfg} {m : M} (h : Hdr m) :
    pendRows cfg m = [{ kind := .file, text := pendText cfg m, src := m.n }] := by
  unfold Machine.pendRows
  rw [if_neg]
  intro ⟨_, e⟩
  rw [h.hp] at e
  exact h.cp e.symm

/-- the text of a late header: with a mode change pending, the name of the `diff --git` line and the
mode change; otherwise the description of the two names -/
def lateText (cfg : Cfg) (d : L) (mode : Str) (p : Str × Str) : Str :=
  if mode ≠ [] then fileRowTextA cfg (formatLabel cfg.labels.modified ++ nameOf d) mode
  else fileRowText cfg (fileChangeDescription cfg.labels p.1 p.2 false .change)

theorem HdrF.pendText {cfg : Cfg} {m : M} {d : L} {mode : Str} {p : Str × Str} (h : HdrF m d mode p) :
    pendText cfg m = lateText cfg d mode p := by
  unfold Machine.pendText lateText nameOf
  rw [h.dl, h.dg, h.mode, h.mf, h.pf, h.ev]

-- the `diff --git` line ---------------------------------------------------------------------

theorem flushMP_hfields (y : M) : (flushMP y).diffLine = y.diffLine ∧ (flushMP y).diffLineG = y.diffLineG ∧
    (flushMP y).modeInfo = y.modeInfo ∧ (flushMP y).minusFile = y.minusFile ∧ (flushMP y).plusFile = y.plusFile ∧
    (flushMP y).minusEvent = y.minusEvent ∧ (flushMP y).handledPair = y.handledPair ∧
    (flushMP y).currentPair = y.currentPair ∧ (flushMP y).n = y.n := by
  unfold flushMP; split <;> exact ⟨rfl, rfl, rfl, rfl, rfl, rfl, rfl, rfl, rfl⟩

theorem pendRows_congr {cfg : Cfg} {x y : M} (h1 : x.diffLine = y.diffLine) (h2 : x.diffLineG = y.diffLineG)
    (h3 : x.modeInfo = y.modeInfo) (h4 : x.minusFile = y.minusFile) (h5 : x.plusFile = y.plusFile)
    (h6 : x.minusEvent = y.minusEvent) (h7 : x.handledPair = y.handledPair) (h8 : x.currentPair = y.currentPair)
    (h9 : x.n = y.n) : pendRows cfg x = pendRows cfg y := by
  unfold pendRows pendText
  rw [h1, h2, h3, h4, h5, h6, h7, h8, h9]

/-- (A) the `diff --git` line of a section: the header that is due for the section before it (if any)
is written, nothing else; the header of the new section is pending -/
theorem diff_line_step2 {cfg : Cfg} (hc : FHC cfg) {m : M} {l : L} (h : Pre m) (hl : isDiffGitLine l = true) :
    ∃ m', step cfg m l = .ok m' ∧ HdrF m' l [] (nameOf l, nameOf l) ∧ fileTL m' = facct cfg m ∧ m'.n = m.n + 1 := by
  unfold isDiffGitLine at hl
  simp only [Bool.and_eq_true, Bool.not_eq_true'] at hl
  obtain ⟨hdg, hcr⟩ := hl
  obtain ⟨rest, ht⟩ := startsWith_split hdg
  have hdl : startsWith l.text Markers.diffLine = true := by
    simp [ht, startsWith, Markers.diffLine, Markers.diffGit, List.isPrefixOf]
  have hcomb : startsWithAny l.text Markers.combinedDiffLine = false := by
    simp [ht, startsWithAny, startsWith, Markers.combinedDiffLine, Markers.diffGit, List.isPrefixOf]
  have hdls : diffLineState l = .diffHeader .unified := by unfold diffLineState; simp [hcomb]
  have hdet : detectSource l.text = .gitDiff := by
    unfold detectSource
    simp [ht, startsWithAny, startsWith, Generated.gitDiffPrefixes, Markers.diffGit, List.isPrefixOf]
  obtain ⟨m0, hm0⟩ : ∃ m0, m0 = stepInit m l := ⟨_, rfl⟩
  have hinit : m0.source = .gitDiff ∧ timeline m0 = timeline m ∧ m0.counter = m.counter ∧
      m0.diffLine = m.diffLine ∧ m0.diffLineG = m.diffLineG ∧ m0.modeInfo = m.modeInfo ∧ m0.minusFile = m.minusFile ∧
      m0.plusFile = m.plusFile ∧ m0.minusEvent = m.minusEvent ∧ m0.handledPair = m.handledPair ∧
      m0.currentPair = m.currentPair ∧ m0.n = m.n ∧ m0.st = m.st := by
    rw [hm0]
    unfold stepInit
    rcases h.src with hs | hs
    · simp [hs]
    · simp only [hs, if_true]
      unfold armCounter
      have hne : (Source.gitDiff = Source.diffUnified) = False := by simp
      simp only [Markers.prepareToCount, hdet, hne, if_false]
      refine ⟨?_, ?_, ?_, ?_, ?_, ?_, ?_, ?_, ?_, ?_, ?_, ?_, ?_⟩ <;> first | trivial | rfl
  obtain ⟨hsrc0, htl0, hcnt0, i1, i2, i3, i4, i5, i6, i7, i8, i9, ist⟩ := hinit
  have g0 : Good m0 := by rw [hm0]; exact (stepInit_stepS l h.good).good
  have e1 := handleCommitMeta_not_mine cfg m0 l hcr
  obtain ⟨x, hx⟩ : ∃ x : M, x = { flushMP m0 with st := diffLineState l } := ⟨_, rfl⟩
  obtain ⟨f1, f2, f3, f4, f5, f6, f7, f8, f9⟩ := flushMP_hfields m0
  have hxpend : (x.modeInfo = [] ∧ x.handledPair = x.currentPair) ∨ (x.st = .diffHeader .unified ∧ x.source = .gitDiff) := by
    rw [hx]
    rcases h.pend with ⟨a, b⟩ | _
    · left
      exact ⟨by show (flushMP m0).modeInfo = []; rw [f3, i3]; exact a,
        by show (flushMP m0).handledPair = (flushMP m0).currentPair; rw [f7, f8, i7, i8]; exact b⟩
    · right
      exact ⟨hdls, by show (flushMP m0).source = .gitDiff; rw [flushMP_source]; exact hsrc0⟩
  have hxm : x.minus = [] := by rw [hx]; show (flushMP m0).minus = []; simp
  have hxp : x.plus = [] := by rw [hx]; show (flushMP m0).plus = []; simp
  obtain ⟨pk, pt⟩ := pendingDiffName_acct hc x hxpend hxm hxp
  obtain ⟨y, hy⟩ : ∃ y, y = pendingDiffName cfg x := ⟨_, rfl⟩
  rw [← hy] at pk pt
  have hpr : pendRows cfg x = pendRows cfg m := by
    rw [hx]
    exact pendRows_congr (f1.trans i1) (f2.trans i2) (f3.trans i3) (f4.trans i4) (f5.trans i5) (f6.trans i6)
      (f7.trans i7) (f8.trans i8) (f9.trans i9)
  have hxtl : fileTL x = fileTL m := by
    rw [hx]
    have : timeline ({ flushMP m0 with st := diffLineState l } : M) = timeline (flushMP m0) := rfl
    rw [fileTL_congr this, fileTL_flushMP, fileTL_congr htl0]
  have hyst : y.st = .diffHeader .unified := by rw [pk.st, hx]; exact hdls
  have hskip : shouldSkipLine cfg (diffLineFields y l) = true := by
    unfold shouldSkipLine
    have hst : (diffLineFields y l).st = .diffHeader .unified := hyst
    rw [shouldHandle_diffHeader hc hst, hst]
    simp [isDiffHeader, hc.notCO]
  have e3 : handleDiffHeaderDiff cfg m0 l = .ok (true, diffLineFields y l) := by
    unfold handleDiffHeaderDiff
    simp only [hdl, Bool.not_true, Bool.false_eq_true, if_false]
    rw [← hx, ← hy]
    simp [hskip]
  have ec : chain cfg l Generated.handlerOrder m0 = .ok (diffLineFields y l) := by
    simp only [Generated.handlerOrder, chain, handlerOf, e1, handleDiffStat, e3]
  have gz := (chain_step _ ec g0).good
  refine ⟨{ diffLineFields y l with n := (diffLineFields y l).n + 1 }, by unfold step; rw [← hm0, ec], ?_, ?_, ?_⟩
  · refine ⟨⟨hyst, ?_, ?_, rfl, ?_, ?_, ?_, ⟨gz.order, gz.quiet, gz.noPlus⟩⟩, rfl, rfl, pk.mode, rfl, rfl, rfl⟩
    · show y.source = .gitDiff
      rw [pk.src, hx]; show (flushMP m0).source = .gitDiff
      rw [flushMP_source]; exact hsrc0
    · show y.counter ≤ -4096
      rw [pk.cnt, hx]; show (flushMP m0).counter ≤ -4096
      have : (flushMP m0).counter = m0.counter := by unfold flushMP; split <;> rfl
      rw [this, hcnt0]; exact h.cnt
    · show (some (nameOf l, nameOf l) : Option (Str × Str)) ≠ none
      simp
    · show y.minus = []
      rw [pk.minus]; exact hxm
    · show y.plus = []
      rw [pk.plus]; exact hxp
  · show fileTL (diffLineFields y l) = facct cfg m
    have : timeline (diffLineFields y l) = timeline y := rfl
    rw [fileTL_congr this, pt, hxtl, hpr]
    rfl
  · show y.n + 1 = m.n + 1
    rw [pk.n, hx]; show (flushMP m0).n + 1 = m.n + 1
    rw [f9, i9]

-- lines of the header part, header pending ---------------------------------------------------

/-- the handlers before `handle_hunk_header_line` decline a line that is no commit line, no `diff `
line and names no file -/
theorem hdr_prefix (cfg : Cfg) (m : M) {l : L} (hcr : l.commitRe = false)
    (hd : startsWith l.text Markers.diffLine = false)
    (hfo : startsWithAny l.text Markers.fileOperationLine = false)
    (hmn : startsWithAny l.text Markers.minusLine = false)
    (hpl : startsWithAny l.text Markers.plusLine = false) :
    chain cfg l Generated.handlerOrder m = chain cfg l tailNames m := by
  have e1 := handleCommitMeta_not_mine cfg m l hcr
  have e2 : handleDiffStat cfg m l = .ok (false, m) := rfl
  have e3 := handleDiffHeaderDiff_not_mine cfg m l hd
  have e4 := handleFileOperation_not_mine cfg m l (by simp [hfo])
  have e5 := handleMinusLine_not_mine cfg m l (minusLineTest_false m hmn)
  have e6 := handlePlusLine_not_mine cfg m l (by unfold plusLineTest; simp [hpl])
  rw [handlerOrder_split, chain_skip (by rfl) e1, chain_skip (by rfl) e2, chain_skip (by rfl) e3, chain_skip (by rfl) e4,
    chain_skip (by rfl) e5, chain_skip (by rfl) e6]

/-- what a line of the header part leaves alone -/
structure HKeep (m z : M) : Prop where
  st : z.st = .diffHeader .unified
  src : z.source = .gitDiff
  cnt : z.counter = m.counter
  hp : z.handledPair = none
  cp : z.currentPair ≠ none
  minus : z.minus = []
  plus : z.plus = []
  n : z.n = m.n

theorem hdr_step_of_chain {cfg : Cfg} {m z : M} {l : L} (h : Hdr m)
    (ec : chain cfg l Generated.handlerOrder m = .ok z) (k : HKeep m z) :
    step cfg m l = .ok { z with n := z.n + 1 } ∧ Hdr { z with n := z.n + 1 } := by
  have g := (chain_step _ ec h.good).good
  refine ⟨by unfold step; rw [stepInit_git l h.src, ec], ⟨k.st, k.src, ?_, k.hp, k.cp, k.minus, k.plus,
    ⟨g.order, g.quiet, g.noPlus⟩⟩⟩
  show z.counter ≤ -4096
  rw [k.cnt]; exact h.cnt

theorem HKeep.emit3 {m : M} (h : Hdr m) : HKeep m (emit (emit (emit m))) :=
  ⟨h.st, h.src, rfl, h.hp, h.cp, h.minus, h.plus, rfl⟩

/-- (B) an index-like line of the header part: skipped, nothing written, nothing forgotten -/
theorem noise_step2 {cfg : Cfg} (hc : FHC cfg) {m : M} {l d : L} {mode : Str} {p : Str × Str}
    (h : HdrF m d mode p) (hl : Noise l) :
    ∃ m', step cfg m l = .ok m' ∧ HdrF m' d mode p ∧ fileTL m' = fileTL m ∧ m'.n = m.n + 1 := by
  have ec : chain cfg l Generated.handlerOrder m = .ok (emit (emit (emit m))) := by
    rw [hdr_prefix cfg m hl.commit hl.diff hl.fileOp hl.minus hl.plus]
    exact hdr_tail hc m l h.st h.src hl.toTailNo
  obtain ⟨es, hh⟩ := hdr_step_of_chain h.toHdr ec (HKeep.emit3 h.toHdr)
  refine ⟨_, es, ⟨hh, h.dl, h.dg, h.mode, h.mf, h.pf, h.ev⟩, ?_, rfl⟩
  show fileTL (emit (emit (emit m))) = fileTL m
  rw [fileTL_emit, fileTL_emit, fileTL_emit]

/-- the two names after a `new file mode` / `deleted file mode` line -/
def namesStep (nm : Str) (p : Str × Str) (l : L) : Str × Str :=
  if startsWithAny l.text Markers.fileOperationLine then
    match (parseDiffHeaderLine l.text true).2 with
    | .added => (Markers.devNull, nm)
    | .removed => (nm, Markers.devNull)
    | _ => p
  else p

theorem fileOpUpdate_names (m : M) (ev : FileEvent) (nm : Str) (hcp : m.currentPair ≠ none)
    (hev : m.minusEvent = .change) :
    (fileOpUpdate m ev nm).currentPair ≠ none ∧ (fileOpUpdate m ev nm).minusEvent = .change ∧
    (fileOpUpdate m ev nm).diffLine = m.diffLine ∧ (fileOpUpdate m ev nm).diffLineG = m.diffLineG ∧
    ((fileOpUpdate m ev nm).minusFile, (fileOpUpdate m ev nm).plusFile) =
      (match ev with
       | .added => (Markers.devNull, nm)
       | .removed => (nm, Markers.devNull)
       | _ => (m.minusFile, m.plusFile)) := by
  cases ev <;> simp [fileOpUpdate, hcp, hev]

/-- (B') a `new file mode` / `deleted file mode` line of the header part: the names are pre-filled,
nothing is written -/
theorem fileop_step2 {cfg : Cfg} (hc : FHC cfg) {m : M} {l d : L} {mode : Str} {p : Str × Str}
    (h : HdrF m d mode p) (hl : isFileOpLine l = true) :
    ∃ m', step cfg m l = .ok m' ∧ HdrF m' d mode (namesStep (nameOf d) p l) ∧ fileTL m' = fileTL m ∧ m'.n = m.n + 1 := by
  unfold isFileOpLine at hl
  simp only [Bool.and_eq_true, Bool.not_eq_true'] at hl
  obtain ⟨hfo, hcr⟩ := hl
  obtain ⟨hdiff, hnm, hnp, no⟩ := fileOp_facts hfo
  have hlt : headerLineTest m = true := by unfold headerLineTest; simp [h.st, isDiffHeader]
  have hgit : decide (m.source = Source.gitDiff) = true := by simp [h.src]
  have e1 := handleCommitMeta_not_mine cfg m l hcr
  have e2 : handleDiffStat cfg m l = .ok (false, m) := rfl
  have e3 := handleDiffHeaderDiff_not_mine cfg m l hdiff
  have hnm' : (repeatedFilePath m.diffLine m.diffLineG).getD [] = nameOf d := by
    unfold nameOf; rw [h.dl, h.dg]
  obtain ⟨y, hy⟩ : ∃ y, y = fileOpUpdate m (parseDiffHeaderLine l.text true).2 (nameOf d) := ⟨_, rfl⟩
  obtain ⟨k1, k2, k3, k4, k5, k6, k7, k8, k9⟩ := fileOpUpdate_keeps m (parseDiffHeaderLine l.text true).2 (nameOf d)
  obtain ⟨n1, n2, n3, n4, n5⟩ := fileOpUpdate_names m (parseDiffHeaderLine l.text true).2 (nameOf d) h.cp h.ev
  rw [← hy] at k1 k2 k3 k4 k5 k6 k7 k8 k9 n1 n2 n3 n4 n5
  have hyst : y.st = .diffHeader .unified := k1.trans h.st
  have e4 : handleFileOperation cfg m l = .ok (true, y) := by
    unfold handleFileOperation
    simp only [hlt, hfo, Bool.and_self, Bool.not_true, Bool.false_eq_true, if_false, hgit, hnm']
    rw [← hy]
    unfold fileOpFinish shouldWriteGeneric
    simp only [hc.notCO, Bool.false_eq_true, if_false, shouldHandle_diffHeader hc hyst, Bool.true_and]
    have : y.handledPair ≠ y.currentPair := by
      rw [k5, h.hp]; exact fun e => n1 e.symm
    simp [this]
  have ec : chain cfg l Generated.handlerOrder m = .ok y := by
    rw [handlerOrder_split, chain_skip (by rfl) e1, chain_skip (by rfl) e2, chain_skip (by rfl) e3]
    simp only [chain, handlerOf, e4]
  obtain ⟨es, hh⟩ := hdr_step_of_chain h.toHdr ec
    ⟨hyst, k2.trans h.src, k3, k5.trans h.hp, n1, k6.trans h.minus, k7.trans h.plus, k8⟩
  have hnames : (y.minusFile, y.plusFile) = namesStep (nameOf d) p l := by
    rw [n5]
    unfold namesStep
    rw [if_pos hfo, h.mf, h.pf]
  refine ⟨_, es, ⟨hh, n3.trans h.dl, n4.trans h.dg, k4.trans h.mode, ?_, ?_, n2⟩, fileTL_congr k9, by show y.n + 1 = m.n + 1; rw [k8]⟩
  · show y.minusFile = _
    rw [← hnames]
  · show y.plusFile = _
    rw [← hnames]

/-- an `old mode` / `new mode` line -/
def isOldModeLine (l : L) : Bool := startsWith l.text Markers.oldMode && !l.commitRe
def isNewModeLine (l : L) : Bool := startsWith l.text Markers.newMode && !l.commitRe
/-- the mode such a line carries -/
def oldModeArg (l : L) : Str := l.text.drop Markers.oldMode.length
def newModeArg (l : L) : Str := l.text.drop Markers.newMode.length

theorem oldMode_facts {l : L} (h : startsWith l.text Markers.oldMode = true) :
    startsWith l.text Markers.diffLine = false ∧ startsWithAny l.text Markers.fileOperationLine = false ∧
      startsWithAny l.text Markers.minusLine = false ∧ startsWithAny l.text Markers.plusLine = false ∧
      startsWith l.text Markers.hunkHeader = false := by
  obtain ⟨rest, ht⟩ := startsWith_split h
  refine ⟨by simp [ht, startsWith, Markers.diffLine, Markers.oldMode, List.isPrefixOf],
    by simp [ht, startsWithAny, startsWith, Markers.fileOperationLine, Markers.oldMode, List.isPrefixOf],
    by simp [ht, startsWithAny, startsWith, Markers.minusLine, Markers.oldMode, List.isPrefixOf],
    by simp [ht, startsWithAny, startsWith, Markers.plusLine, Markers.oldMode, List.isPrefixOf],
    by simp [ht, startsWith, Markers.hunkHeader, Markers.oldMode, List.isPrefixOf]⟩

theorem newMode_facts {l : L} (h : startsWith l.text Markers.newMode = true) :
    startsWith l.text Markers.diffLine = false ∧ startsWithAny l.text Markers.fileOperationLine = false ∧
      startsWithAny l.text Markers.minusLine = false ∧ startsWithAny l.text Markers.plusLine = false ∧
      startsWith l.text Markers.hunkHeader = false ∧ startsWith l.text Markers.oldMode = false := by
  obtain ⟨rest, ht⟩ := startsWith_split h
  refine ⟨by simp [ht, startsWith, Markers.diffLine, Markers.newMode, List.isPrefixOf],
    by simp [ht, startsWithAny, startsWith, Markers.fileOperationLine, Markers.newMode, List.isPrefixOf],
    by simp [ht, startsWithAny, startsWith, Markers.minusLine, Markers.newMode, List.isPrefixOf],
    by simp [ht, startsWithAny, startsWith, Markers.plusLine, Markers.newMode, List.isPrefixOf],
    by simp [ht, startsWith, Markers.hunkHeader, Markers.newMode, List.isPrefixOf],
    by simp [ht, startsWith, Markers.oldMode, Markers.newMode, List.isPrefixOf]⟩

/-- (M) the `old mode` line: the old mode is remembered, nothing is written -/
theorem old_mode_step {cfg : Cfg} (hc : FHC cfg) {m : M} {l d : L} {mode : Str} {p : Str × Str}
    (h : HdrF m d mode p) (hl : isOldModeLine l = true) :
    ∃ m', step cfg m l = .ok m' ∧ HdrF m' d (oldModeArg l) p ∧ fileTL m' = fileTL m ∧ m'.n = m.n + 1 := by
  unfold isOldModeLine at hl
  simp only [Bool.and_eq_true, Bool.not_eq_true'] at hl
  obtain ⟨hsw, hcr⟩ := hl
  obtain ⟨hdiff, hfo, hmn, hpl, hhh⟩ := oldMode_facts hsw
  have e7 := handleHunkHeader_not_mine cfg m l hhh
  have hsh : shouldHandle cfg { m with st := .diffHeader .unified } = true := shouldHandle_diffHeader hc rfl
  have e8 : handleModeLine cfg m l = .ok (true, { m with st := .diffHeader .unified, modeInfo := oldModeArg l }) := by
    unfold handleModeLine stripPrefix oldModeArg
    simp [hsw, hsh, hc.notCO]
  have ec : chain cfg l Generated.handlerOrder m = .ok { m with st := .diffHeader .unified, modeInfo := oldModeArg l } := by
    rw [hdr_prefix cfg m hcr hdiff hfo hmn hpl]
    simp only [tailNames, Generated.handlerOrder, List.drop, chain, handlerOf, e7, e8]
  obtain ⟨es, hh⟩ := hdr_step_of_chain h.toHdr ec ⟨rfl, h.src, rfl, h.hp, h.cp, h.minus, h.plus, rfl⟩
  exact ⟨_, es, ⟨hh, h.dl, h.dg, rfl, h.mf, h.pf, h.ev⟩, fileTL_congr rfl, rfl⟩

/-- (M') the `new mode` line after an `old mode` line: the mode change is remembered, nothing is written -/
theorem new_mode_step {cfg : Cfg} (hc : FHC cfg) {m : M} {l d : L} {mode : Str} {p : Str × Str}
    (h : HdrF m d mode p) (hmode : mode ≠ []) (hl : isNewModeLine l = true) :
    ∃ m', step cfg m l = .ok m' ∧ HdrF m' d (modeInfoText cfg mode (newModeArg l)) p ∧ fileTL m' = fileTL m ∧
      m'.n = m.n + 1 := by
  unfold isNewModeLine at hl
  simp only [Bool.and_eq_true, Bool.not_eq_true'] at hl
  obtain ⟨hsw, hcr⟩ := hl
  obtain ⟨hdiff, hfo, hmn, hpl, hhh, hold⟩ := newMode_facts hsw
  have e7 := handleHunkHeader_not_mine cfg m l hhh
  have hsh : shouldHandle cfg { m with st := .diffHeader .unified } = true := shouldHandle_diffHeader hc rfl
  have hmi : m.modeInfo ≠ [] := by rw [h.mode]; exact hmode
  have e8 : handleModeLine cfg m l =
      .ok (true, { m with st := .diffHeader .unified, modeInfo := modeInfoText cfg mode (newModeArg l) }) := by
    rw [← h.mode]
    unfold handleModeLine stripPrefix newModeArg
    simp [hsw, hold, hsh, hc.notCO, hmi]
  have ec : chain cfg l Generated.handlerOrder m =
      .ok { m with st := .diffHeader .unified, modeInfo := modeInfoText cfg mode (newModeArg l) } := by
    rw [hdr_prefix cfg m hcr hdiff hfo hmn hpl]
    simp only [tailNames, Generated.handlerOrder, List.drop, chain, handlerOf, e7, e8]
  obtain ⟨es, hh⟩ := hdr_step_of_chain h.toHdr ec ⟨rfl, h.src, rfl, h.hp, h.cp, h.minus, h.plus, rfl⟩
  exact ⟨_, es, ⟨hh, h.dl, h.dg, rfl, h.mf, h.pf, h.ev⟩, fileTL_congr rfl, rfl⟩

theorem modeInfoText_ne_nil (cfg : Cfg) (a b : Str) : modeInfoText cfg a b ≠ [] := by
  unfold modeInfoText
  split
  · simp
  · split
    · simp
    · simp

/-- a `Binary files … differ` line -/
def isBinaryLine (l : L) : Bool := startsWith l.text Markers.binaryFiles && !l.commitRe

/-- the names of a binary file section: ` (binary file)` appended (not to `/dev/null`) -/
def binNames (p : Str × Str) : Str × Str :=
  (if p.1 ≠ Markers.devNull then p.1 ++ binarySuffix else p.1,
   if p.2 ≠ Markers.devNull then p.2 ++ binarySuffix else p.2)

theorem binary_facts {l : L} (h : startsWith l.text Markers.binaryFiles = true) :
    startsWith l.text Markers.diffLine = false ∧ startsWithAny l.text Markers.fileOperationLine = false ∧
      startsWithAny l.text Markers.minusLine = false ∧ startsWithAny l.text Markers.plusLine = false ∧
      startsWith l.text Markers.hunkHeader = false ∧ startsWith l.text Markers.oldMode = false ∧
      startsWith l.text Markers.newMode = false := by
  obtain ⟨rest, ht⟩ := startsWith_split h
  refine ⟨by simp [ht, startsWith, Markers.diffLine, Markers.binaryFiles, List.isPrefixOf],
    by simp [ht, startsWithAny, startsWith, Markers.fileOperationLine, Markers.binaryFiles, List.isPrefixOf],
    by simp [ht, startsWithAny, startsWith, Markers.minusLine, Markers.binaryFiles, List.isPrefixOf],
    by simp [ht, startsWithAny, startsWith, Markers.plusLine, Markers.binaryFiles, List.isPrefixOf],
    by simp [ht, startsWith, Markers.hunkHeader, Markers.binaryFiles, List.isPrefixOf],
    by simp [ht, startsWith, Markers.oldMode, Markers.binaryFiles, List.isPrefixOf],
    by simp [ht, startsWith, Markers.newMode, Markers.binaryFiles, List.isPrefixOf]⟩

/-- (N) the `Binary files … differ` line of a section whose names are known: the names get the suffix,
nothing is written -/
theorem binary_step {cfg : Cfg} (hc : FHC cfg) {m : M} {l d : L} {mode : Str} {p : Str × Str}
    (h : HdrF m d mode p) (hl : isBinaryLine l = true) (hne : ¬ (p.1 = [] ∧ p.2 = [])) :
    ∃ m', step cfg m l = .ok m' ∧ HdrF m' d mode (binNames p) ∧ fileTL m' = fileTL m ∧ m'.n = m.n + 1 := by
  unfold isBinaryLine at hl
  simp only [Bool.and_eq_true, Bool.not_eq_true'] at hl
  obtain ⟨hsw, hcr⟩ := hl
  obtain ⟨hdiff, hfo, hmn, hpl, hhh, hom, hnm⟩ := binary_facts hsw
  have e7 := handleHunkHeader_not_mine cfg m l hhh
  have e8 := handleModeLine_not_mine cfg m l hom hnm
  have hne' : ¬ (m.minusFile = [] ∧ m.plusFile = []) := by rw [h.mf, h.pf]; exact hne
  have e9 : handleMisc cfg m l = .ok (true, { m with minusFile := (binNames p).1, plusFile := (binNames p).2 }) := by
    have hb : binNames p = (if m.minusFile ≠ Markers.devNull then m.minusFile ++ binarySuffix else m.minusFile,
        if m.plusFile ≠ Markers.devNull then m.plusFile ++ binarySuffix else m.plusFile) := by
      unfold binNames; rw [h.mf, h.pf]
    rw [hb]
    unfold handleMisc
    simp only [h.src, hsw, hc.notCO, hne']
    simp
  have ec : chain cfg l Generated.handlerOrder m =
      .ok { m with minusFile := (binNames p).1, plusFile := (binNames p).2 } := by
    rw [hdr_prefix cfg m hcr hdiff hfo hmn hpl]
    simp only [tailNames, Generated.handlerOrder, List.drop, chain, handlerOf, e7, e8, e9]
  obtain ⟨es, hh⟩ := hdr_step_of_chain h.toHdr ec ⟨h.st, h.src, rfl, h.hp, h.cp, h.minus, h.plus, rfl⟩
  exact ⟨_, es, ⟨hh, h.dl, h.dg, h.mode, rfl, rfl, h.ev⟩, fileTL_congr rfl, rfl⟩

-- the lines naming the two files, a mode change pending ------------------------------------

/-- (C) the line naming the old file: name and event are recorded, nothing is written, a pending mode
change stays pending -/
theorem minus_step2 {cfg : Cfg} (hc : FHC cfg) {m : M} {l : L} (h : Hdr m) (hl : isMinusLine l = true) :
    ∃ m', step cfg m l = .ok m' ∧ Hdr m' ∧ fileTL m' = fileTL m ∧ m'.n = m.n + 1 ∧
      m'.minusFile = (parseDiffHeaderLine l.text true).1 ∧ m'.minusEvent = (parseDiffHeaderLine l.text true).2 ∧
      m'.modeInfo = m.modeInfo := by
  unfold isMinusLine at hl
  simp only [Bool.and_eq_true, Bool.not_eq_true'] at hl
  obtain ⟨hsw, hcr⟩ := hl
  obtain ⟨hdiff, hfo, hpl, no⟩ := minusMarker_facts hsw
  have hlt : headerLineTest m = true := by unfold headerLineTest; simp [h.st, isDiffHeader]
  have hgit : decide (m.source = Source.gitDiff) = true := by simp [h.src]
  have hnu : (m.source = Source.diffUnified) = False := by simp [h.src]
  have e1 := handleCommitMeta_not_mine cfg m l hcr
  have e2 : handleDiffStat cfg m l = .ok (false, m) := rfl
  have e3 := handleDiffHeaderDiff_not_mine cfg m l hdiff
  have e4 := handleFileOperation_not_mine cfg m l (by simp [hfo])
  have e5 : handleMinusLine cfg m l = .ok (false, flushMP (minusUpd m l)) := by
    have htest : minusLineTest m l = true := minusLineTest_true m hlt h.cnt hsw
    unfold handleMinusLine shouldWriteGeneric
    simp only [htest, Bool.not_true, Bool.false_eq_true, if_false, hc.notCO, hgit, hnu]
    rfl
  obtain ⟨x, hx⟩ : ∃ x, x = flushMP (minusUpd m l) := ⟨_, rfl⟩
  rw [← hx] at e5
  obtain ⟨k1, k2, k3, k4, k5, k6⟩ := flushMP_keeps (minusUpd m l)
  rw [← hx] at k1 k2 k3 k4 k5 k6
  have hxst : x.st = .diffHeader .unified := by rw [hx, flushMP_st]; exact h.st
  have hxsrc : x.source = .gitDiff := by rw [hx, flushMP_source]; exact h.src
  have hxmi : x.modeInfo = m.modeInfo := by rw [hx, flushMP_modeInfo]; rfl
  have hxn : x.n = m.n := by rw [hx, flushMP_n]; rfl
  have hxtl : fileTL x = fileTL m := by rw [hx, fileTL_flushMP]; exact fileTL_congr rfl
  have e6 := handlePlusLine_not_mine cfg x l (by unfold plusLineTest; simp [hpl])
  have ec : chain cfg l Generated.handlerOrder m = .ok (emit (emit (emit x))) := by
    rw [handlerOrder_split, chain_skip (by rfl) e1, chain_skip (by rfl) e2, chain_skip (by rfl) e3, chain_skip (by rfl) e4,
      chain_skip (by rfl) e5, chain_skip (by rfl) e6]
    exact hdr_tail hc x l hxst hxsrc no
  obtain ⟨es, hh⟩ := hdr_step_of_chain h ec
    ⟨hxst, hxsrc, k1, by show x.handledPair = none; rw [k2]; exact h.hp,
      by show x.currentPair ≠ none; rw [k3]; exact h.cp,
      by show x.minus = []; rw [hx]; simp, by show x.plus = []; rw [hx]; simp, hxn⟩
  refine ⟨_, es, hh, ?_, by show x.n + 1 = m.n + 1; rw [hxn], k4, k5, hxmi⟩
  show fileTL (emit (emit (emit x))) = fileTL m
  rw [fileTL_emit, fileTL_emit, fileTL_emit, hxtl]

theorem hdrWritten_specA {cfg : Cfg} (hc : FHC cfg) (y : M) (hsrc : y.source = .gitDiff)
    (hm : y.minus = []) (hp : y.plus = []) :
    (hdrWritten cfg y).st = y.st ∧ (hdrWritten cfg y).source = y.source ∧ (hdrWritten cfg y).counter = y.counter ∧
    (hdrWritten cfg y).modeInfo = [] ∧ (hdrWritten cfg y).handledPair = (hdrWritten cfg y).currentPair ∧
    (hdrWritten cfg y).n = y.n ∧ (hdrWritten cfg y).minus = [] ∧ (hdrWritten cfg y).plus = [] ∧
    (hdrWritten cfg y).currentPair = y.currentPair ∧ (hdrWritten cfg y).minusFile = y.minusFile ∧
    fileTL (hdrWritten cfg y) = fileTL y ++
      [{ kind := .file,
         text := fileRowTextA cfg (fileChangeDescription cfg.labels y.minusFile y.plusFile false y.minusEvent) y.modeInfo,
         src := y.n }] := by
  have hdu : decide (y.source = Source.diffUnified) = false := by simp [hsrc]
  have hw : handleHeaderLine cfg (emit y) (decide (y.source = Source.diffUnified)) =
      writeGeneric cfg (emit y) (fileChangeDescription cfg.labels y.minusFile y.plusFile false y.minusEvent)
        (fileChangeDescription cfg.labels y.minusFile y.plusFile false y.minusEvent) := by
    unfold handleHeaderLine; rw [hdu]; rfl
  have hfile := writeGeneric_fileA hc (emit y) (fileChangeDescription cfg.labels y.minusFile y.plusFile false y.minusEvent)
    (fileChangeDescription cfg.labels y.minusFile y.plusFile false y.minusEvent) rfl hm hp
  obtain ⟨w1, w2, w3, w4, w5, w6⟩ := writeGeneric_keeps hc (emit y)
    (fileChangeDescription cfg.labels y.minusFile y.plusFile false y.minusEvent)
    (fileChangeDescription cfg.labels y.minusFile y.plusFile false y.minusEvent)
  unfold hdrWritten
  rw [hw]
  refine ⟨by simp, by simp, w1, w2, rfl, by simp, by simp [hm], by simp [hp], w3, w5, ?_⟩
  refine (fileTL_congr rfl).trans (hfile.trans ?_)
  rw [fileTL_emit]
  rfl

/-- the file-header row written at the line naming the new file, with the pending mode change -/
def headerRowA (cfg : Cfg) (minusFile : Str) (minusEvent : FileEvent) (pl : L) (add : Str) (n : Nat) : Row :=
  { kind := .file,
    text := fileRowTextA cfg
      (fileChangeDescription cfg.labels minusFile (parseDiffHeaderLine pl.text true).1 false minusEvent) add,
    src := n }

theorem headerRowA_nil (cfg : Cfg) (mf : Str) (ev : FileEvent) (pl : L) (n : Nat) :
    headerRowA cfg mf ev pl [] n = headerRow cfg mf ev pl n := by
  unfold headerRowA headerRow; rw [fileRowTextA_nil]

/-- (D) the line naming the new file: exactly one file row is written, for this section's two names,
showing the pending mode change -/
theorem plus_step2 {cfg : Cfg} (hc : FHC cfg) {m : M} {l : L} (h : Hdr m) (hl : isPlusLine l = true) :
    ∃ m', step cfg m l = .ok m' ∧ AfterPlus m' ∧ m'.n = m.n + 1 ∧
      fileTL m' = fileTL m ++ [headerRowA cfg m.minusFile m.minusEvent l m.modeInfo m.n] ∧
      m'.handledPair = some (m.minusFile, (parseDiffHeaderLine l.text true).1) ∧ m'.minusFile = m.minusFile := by
  unfold isPlusLine at hl
  simp only [Bool.and_eq_true, Bool.not_eq_true'] at hl
  obtain ⟨hpl, hcr⟩ := hl
  obtain ⟨hdiff, hfo, hmn, no⟩ := plusMarker_facts hpl
  have hgit : decide (m.source = Source.gitDiff) = true := by simp [h.src]
  have e1 := handleCommitMeta_not_mine cfg m l hcr
  have e2 : handleDiffStat cfg m l = .ok (false, m) := rfl
  have e3 := handleDiffHeaderDiff_not_mine cfg m l hdiff
  have e4 := handleFileOperation_not_mine cfg m l (by simp [hfo])
  have e5 := handleMinusLine_not_mine cfg m l (minusLineTest_false m hmn)
  obtain ⟨y, hy⟩ : ∃ y, y = flushMP (plusUpd m l) := ⟨_, rfl⟩
  obtain ⟨k1, k2, k3, k4, k5, k6⟩ := flushMP_keeps (plusUpd m l)
  rw [← hy] at k1 k2 k3 k4 k5 k6
  have hyst : y.st = .diffHeader .unified := by rw [hy, flushMP_st]; exact h.st
  have hysrc : y.source = .gitDiff := by rw [hy, flushMP_source]; exact h.src
  have hymi : y.modeInfo = m.modeInfo := by rw [hy, flushMP_modeInfo]; rfl
  have hyn : y.n = m.n := by rw [hy, flushMP_n]; rfl
  have hytl : fileTL y = fileTL m := by rw [hy, fileTL_flushMP]; exact fileTL_congr rfl
  have hym : y.minus = [] := by rw [hy]; simp
  have hyp : y.plus = [] := by rw [hy]; simp
  have hyhp : y.handledPair = none := by rw [k2]; exact h.hp
  have hycp : y.currentPair = some (m.minusFile, (parseDiffHeaderLine l.text true).1) := by rw [k3]; rfl
  have e6 : handlePlusLine cfg m l = .ok (false, hdrWritten cfg y) := by
    have htest : plusLineTest m l = true := by unfold plusLineTest; simp [h.st, isDiffHeader, hpl]
    have hsh : shouldHandle cfg y = true := shouldHandle_diffHeader hc hyst
    unfold handlePlusLine
    simp only [htest, Bool.not_true, Bool.false_eq_true, if_false, hgit]
    change Except.ok (plusLineFinish cfg (flushMP (plusUpd m l)) l) = _
    rw [← hy]
    unfold plusLineFinish shouldWriteGeneric
    simp only [hc.notCO, Bool.false_eq_true, if_false, hsh, hyhp, hycp, true_and]
    simp only [ne_eq, reduceCtorEq, not_false_eq_true, if_true]
    rfl
  obtain ⟨s1, s2, s3, s4, s5, s6, s7, s8, s10, s11, s9⟩ := hdrWritten_specA hc y hysrc hym hyp
  obtain ⟨z, hz⟩ : ∃ z, z = hdrWritten cfg y := ⟨_, rfl⟩
  rw [← hz] at e6 s1 s2 s3 s4 s5 s6 s7 s8 s9 s10 s11
  have hzst : z.st = .diffHeader .unified := by rw [s1]; exact hyst
  have hzsrc : z.source = .gitDiff := by rw [s2]; exact hysrc
  have ec : chain cfg l Generated.handlerOrder m = .ok (emit (emit (emit z))) := by
    rw [handlerOrder_split, chain_skip (by rfl) e1, chain_skip (by rfl) e2, chain_skip (by rfl) e3, chain_skip (by rfl) e4,
      chain_skip (by rfl) e5, chain_skip (by rfl) e6]
    exact hdr_tail hc z l hzst hzsrc no
  have g3 : Good (emit (emit (emit z))) := (chain_step _ ec h.good).good
  refine ⟨{ emit (emit (emit z)) with n := (emit (emit (emit z))).n + 1 }, ?_, ?_, ?_, ?_, ?_, ?_⟩
  · unfold step; rw [stepInit_git l h.src, ec]
  · refine ⟨hzst, hzsrc, ?_, s4, s5, ⟨g3.order, g3.quiet, g3.noPlus⟩⟩
    show z.counter ≤ -4096
    rw [s3, k1]; exact h.cnt
  · show z.n + 1 = m.n + 1
    rw [s6, hyn]
  · show fileTL (emit (emit (emit z))) = _
    rw [fileTL_emit, fileTL_emit, fileTL_emit, s9, hytl, k4, k5, k6, hyn, hymi]
    rfl
  · show z.handledPair = _
    rw [s5, s10, hycp]
  · show z.minusFile = m.minusFile
    rw [s11, k4]; rfl

/-- (N″) a `Binary files … differ` line after the header has been written (a renamed or copied binary
file with changes): no file row -/
theorem binary_step_after {cfg : Cfg} (hc : FHC cfg) {m : M} {l : L} (h : AfterPlus m) (hl : isBinaryLine l = true) :
    ∃ m', step cfg m l = .ok m' ∧ AfterPlus m' ∧ fileTL m' = fileTL m ∧ m'.n = m.n + 1 := by
  unfold isBinaryLine at hl
  simp only [Bool.and_eq_true, Bool.not_eq_true'] at hl
  obtain ⟨hsw, hcr⟩ := hl
  obtain ⟨hdiff, hfo, hmn, hpl, hhh, hom, hnm⟩ := binary_facts hsw
  have e7 := handleHunkHeader_not_mine cfg m l hhh
  have e8 := handleModeLine_not_mine cfg m l hom hnm
  by_cases hne : m.minusFile = [] ∧ m.plusFile = []
  · have e9 : handleMisc cfg m l =
        .ok (true, { emitLineUnchanged m l with handledPair := (emitLineUnchanged m l).currentPair }) := by
      unfold handleMisc
      simp only [h.src, hsw, hc.notCO, hne]
      simp
    have ec : chain cfg l Generated.handlerOrder m =
        .ok { emitLineUnchanged m l with handledPair := (emitLineUnchanged m l).currentPair } := by
      rw [hdr_prefix cfg m hcr hdiff hfo hmn hpl]
      simp only [tailNames, Generated.handlerOrder, List.drop, chain, handlerOf, e7, e8, e9]
    have g := (chain_step _ ec h.good).good
    have htl : timeline (emitLineUnchanged m l) = timeline m ++ [{ kind := .raw, text := l.raw, src := m.n }] := by
      unfold emitLineUnchanged; exact timeline_direct_flushed m _
    obtain ⟨d1, d2, d3, _, _, _⟩ := direct_keeps (emit (flushMP m)) [{ kind := .raw, text := l.raw, src := m.n }]
    obtain ⟨f1, f2, f3, _, _, _⟩ := flushMP_keeps m
    refine ⟨{ emitLineUnchanged m l with handledPair := (emitLineUnchanged m l).currentPair,
                                          n := (emitLineUnchanged m l).n + 1 }, ?_, ?_, ?_, ?_⟩
    · unfold step; rw [stepInit_git l h.src, ec]
    · refine ⟨by show (emitLineUnchanged m l).st = _; rw [emitLineUnchanged_st]; exact h.st, ?_, ?_, ?_, rfl,
        ⟨g.order, g.quiet, g.noPlus⟩⟩
      · show (emitLineUnchanged m l).source = .gitDiff
        unfold emitLineUnchanged; rw [direct_source, emit_source, flushMP_source]; exact h.src
      · show (emitLineUnchanged m l).counter ≤ -4096
        unfold emitLineUnchanged; rw [d1]; show (flushMP m).counter ≤ -4096; rw [f1]; exact h.cnt
      · show (emitLineUnchanged m l).modeInfo = []
        unfold emitLineUnchanged; rw [direct_modeInfo, emit_modeInfo, flushMP_modeInfo]; exact h.mode
    · show fileTL ({ emitLineUnchanged m l with handledPair := (emitLineUnchanged m l).currentPair } : M) = fileTL m
      have : timeline ({ emitLineUnchanged m l with handledPair := (emitLineUnchanged m l).currentPair } : M) =
          timeline (emitLineUnchanged m l) := rfl
      unfold fileTL
      rw [this, htl, List.filter_append]
      simp
    · show (emitLineUnchanged m l).n + 1 = m.n + 1
      unfold emitLineUnchanged; simp
  · have e9 : handleMisc cfg m l = .ok (true, { m with
        minusFile := if m.minusFile ≠ Markers.devNull then m.minusFile ++ binarySuffix else m.minusFile,
        plusFile := if m.plusFile ≠ Markers.devNull then m.plusFile ++ binarySuffix else m.plusFile }) := by
      unfold handleMisc
      simp only [h.src, hsw, hc.notCO, hne]
      simp
    have ec : chain cfg l Generated.handlerOrder m = .ok { m with
        minusFile := if m.minusFile ≠ Markers.devNull then m.minusFile ++ binarySuffix else m.minusFile,
        plusFile := if m.plusFile ≠ Markers.devNull then m.plusFile ++ binarySuffix else m.plusFile } := by
      rw [hdr_prefix cfg m hcr hdiff hfo hmn hpl]
      simp only [tailNames, Generated.handlerOrder, List.drop, chain, handlerOf, e7, e8, e9]
    have g := (chain_step _ ec h.good).good
    refine ⟨{ m with
        minusFile := if m.minusFile ≠ Markers.devNull then m.minusFile ++ binarySuffix else m.minusFile,
        plusFile := if m.plusFile ≠ Markers.devNull then m.plusFile ++ binarySuffix else m.plusFile,
        n := m.n + 1 }, by unfold step; rw [stepInit_git l h.src, ec], ⟨h.st, h.src, h.cnt, h.mode, h.pair,
      ⟨g.order, g.quiet, g.noPlus⟩⟩, fileTL_congr rfl, rfl⟩

end Machine
